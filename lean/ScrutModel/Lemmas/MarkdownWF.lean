import ScrutModel.Lemmas.Markdown
/-!
# `parse (render d) = d.tests` for well-formed documents

Tokenizer side: a rendered block becomes exactly one `test` token with the comment / code split
as written.  Parser side: on a clean `LineParser` state that token becomes exactly the test that
is written.
-/
namespace Scrut.Markdown
open Scrut.LineParser

/-! ## tokenizer side -/

theorem startsWith_self (l : Line) : startsWith l l = true := by
  unfold startsWith
  induction l with
  | nil => rfl
  | cons c r ih => simp [List.isPrefixOf]

theorem test_comments (L : List Line) (cs : Bool) (bt language : Line) (cfg : Numbered) (cms : List Line) :
    ∀ (cm : Numbered) (li : Nat) (rest : List Line),
      (∀ c ∈ cms, isComment c = true) → (∀ c ∈ cms, startsWith c bt = false) →
      runP L (.test bt language cfg cm []) cs li (cms ++ rest)
        = runP L (.test bt language cfg (cm ++ number li cms) []) cs (li + cms.length) rest := by
  induction cms with
  | nil => intro cm li rest _ _; simp [number]
  | cons c r ih =>
    intro cm li rest h1 h2
    have hc := h1 c (by simp)
    have hs := h2 c (by simp)
    simp only [List.cons_append, runP, hs, hc]
    simp only [List.isEmpty_nil, Bool.and_self, if_true, Bool.false_eq_true, if_false]
    rw [ih _ _ _ (fun x hx => h1 x (by simp [hx])) (fun x hx => h2 x (by simp [hx]))]
    simp [number, Nat.add_assoc, Nat.add_comm 1]

theorem test_code (L : List Line) (cs : Bool) (bt language : Line) (cfg cm : Numbered) (ls : List Line) :
    ∀ (cd : Numbered) (li : Nat) (rest : List Line), cd ≠ [] →
      (∀ c ∈ ls, startsWith c bt = false) →
      runP L (.test bt language cfg cm cd) cs li (ls ++ rest)
        = runP L (.test bt language cfg cm (cd ++ number li ls)) cs (li + ls.length) rest := by
  induction ls with
  | nil => intro cd li rest _ _; simp [number]
  | cons c r ih =>
    intro cd li rest hne h2
    have hs := h2 c (by simp)
    have he : cd.isEmpty = false := by cases cd <;> simp_all
    simp only [List.cons_append, runP, hs, he]
    simp only [Bool.false_and, Bool.false_eq_true, if_false]
    rw [ih _ _ _ (by simp) (fun x hx => h2 x (by simp [hx]))]
    simp [number, Nat.add_assoc, Nat.add_comm 1]

/-- a rendered well-formed block is one `test` token; the tokenizer continues behind it -/
theorem runP_block (env : Env) (b : Block) (wf : b.WF env) (cs : Bool) (li : Nat) (rest : List Line) :
    runP env.languages .top cs li (b.lines ++ rest)
      = .test b.language (cfgLines li b.config) (number (li + 1) b.comments)
          (number (li + 1 + b.comments.length) b.code)
        :: runP env.languages .top true (li + b.lines.length) rest := by
  obtain ⟨hx, hl, _, hbody, hcm, _, _⟩ := wf
  have hcomm : ∀ c ∈ b.comments, startsWith c b.bt = false := fun c hc => hbody c (by simp [Block.body, hc])
  have hcode : ∀ c ∈ b.code, startsWith c b.bt = false := fun c hc => hbody c (by simp [Block.body, hc])
  have hcmd : startsWith b.cmdLine b.bt = false := hcode _ (by simp [Block.code])
  have hrest : ∀ c ∈ b.more.map contLine ++ (b.exps ++ b.exitLines), startsWith c b.bt = false :=
    fun c hc => hcode c (by simp only [Block.code, List.mem_cons]; exact Or.inr hc)
  have h1 : (!cs && decide (b.opener = frontMatterFence)) = false := by simp [opener_ne_front hx]
  simp only [Block.lines, List.cons_append]
  rw [runP_top_cons]
  simp only [h1, fencePure_of hx, hl]
  simp only [Bool.not_true, Bool.false_eq_true, if_false]
  -- comments
  simp only [Block.body, List.append_assoc]
  rw [test_comments _ _ _ _ _ _ [] _ _ hcm hcomm]
  -- the `$` line
  simp only [Block.code, List.cons_append, List.nil_append]
  have hnc : isComment b.cmdLine = false := rfl
  simp only [runP, hcmd, hnc]
  simp only [Bool.and_false, Bool.false_eq_true, if_false, List.nil_append]
  -- the other code lines
  rw [show b.more.map contLine ++ (b.exps ++ b.exitLines) ++ b.bt :: rest
      = (b.more.map contLine ++ (b.exps ++ b.exitLines)) ++ (b.bt :: rest) by simp]
  rw [test_code _ _ _ _ _ _ _ _ _ _ (by simp) hrest]
  -- the closing fence
  simp only [runP, startsWith_self, if_true]
  simp only [number, List.length_cons, List.length_append, List.length_map, List.cons_append, List.nil_append,
    List.length_nil]
  congr 2
  all_goals omega

/-! ## parser side -/

/-- the `LineParser` state between tests -/
structure Clean (s : LineParser.State Cfg) : Prop where
  cmd : s.command = []
  exps : s.expectations = []
  code : s.exitCode = none
  osi : s.outputStartIndex = none
  amc : s.allowMultipleCommands = false

theorem addAll_append (expOk : Line → Bool) (a b : Numbered) :
    ∀ (s : LineParser.State Cfg), addAll expOk s (a ++ b) =
      match addAll expOk s a with
      | .error e => .error e
      | .ok s' => addAll expOk s' b := by
  induction a with
  | nil => intro s; simp [addAll]
  | cons x r ih =>
    intro s
    obtain ⟨i, l⟩ := x
    simp only [List.cons_append, addAll]
    split
    · rfl
    · exact ih _

theorem addBody_cmd (expOk : Line → Bool) (s : LineParser.State Cfg) (hc : Clean s) (cmd : Line) (k : Nat) :
    s.addBody expOk ('$' :: ' ' :: cmd) k
      = .ok ({ s with inCommand := true, outputStartIndex := some k, command := [cmd] }, .commandStart) := by
  simp [State.addBody, hc.amc, hc.cmd, hc.osi, stripPrefix]

theorem addAll_conts (expOk : Line → Bool) (xs : List Line) :
    ∀ (s : LineParser.State Cfg) (k : Nat), s.inCommand = true → s.command ≠ [] →
      s.allowMultipleCommands = false →
      addAll expOk s (number k (xs.map contLine)) = .ok { s with command := s.command ++ xs } := by
  induction xs with
  | nil => intro s k _ _ _; simp [number, addAll]
  | cons x r ih =>
    intro s k h1 h2 h3
    have he : s.command.isEmpty = false := by cases hh : s.command <;> simp_all
    simp only [List.map_cons, number, addAll, State.addBody, h3, he, Bool.or_self, Bool.false_eq_true, if_false,
      State.addBodyRest, h1, if_true, contLine, stripPrefix]
    have := ih { s with command := s.command ++ [x] } (k + 1) h1 (by simp) h3
    simpa [h1, h3] using this

theorem addAll_exps (expOk : Line → Bool) (es : List Line) :
    ∀ (s : LineParser.State Cfg) (k : Nat), s.command ≠ [] → s.allowMultipleCommands = false →
      (∀ e ∈ es, expOk e = true ∧ extractExitCode e = none ∧ stripPrefix ['>', ' '] e = none) →
      ∃ ic, addAll expOk s (number k es)
        = .ok { s with inCommand := ic, expectations := s.expectations ++ es } := by
  induction es with
  | nil => intro s k _ _ _; exact ⟨s.inCommand, by simp [number, addAll]⟩
  | cons e r ih =>
    intro s k h2 h3 hg
    obtain ⟨g1, g2, g3⟩ := hg e (by simp)
    have he : s.command.isEmpty = false := by cases hh : s.command <;> simp_all
    have hsp : (if s.inCommand = true then stripPrefix ['>', ' '] e else none) = none := by
      split <;> simp [g3]
    obtain ⟨ic, hic⟩ := ih { s with inCommand := false, expectations := s.expectations ++ [e] } (k + 1)
      h2 h3 (fun x hx => hg x (by simp [hx]))
    refine ⟨ic, ?_⟩
    simp only [number, addAll, State.addBody, h3, he, Bool.or_self, Bool.false_eq_true, if_false,
      State.addBodyRest, hsp, g2, g1, if_true]
    simpa [h3] using hic

theorem exit_line_head {x : Line} {n : Nat} (h : extractExitCode x = some n) :
    stripPrefix ['>', ' '] x = none := by
  unfold extractExitCode at h
  split at h
  · simp [stripPrefix]
  · cases h

theorem addBody_exit (expOk : Line → Bool) (s : LineParser.State Cfg) (x : Line) (n k : Nat)
    (h2 : s.command ≠ []) (h3 : s.allowMultipleCommands = false) (h4 : s.exitCode = none)
    (hx : extractExitCode x = some n) :
    s.addBody expOk x k = .ok ({ s with inCommand := false, exitCode := some n }, .exitCode) := by
  have he : s.command.isEmpty = false := by cases hh : s.command <;> simp_all
  have hsp : (if s.inCommand = true then stripPrefix ['>', ' '] x else none) = none := by
    split <;> simp [exit_line_head hx]
  simp [State.addBody, h3, he, State.addBodyRest, hsp, hx, h4]

/-- all code lines of a well-formed block, fed to a clean state -/
theorem addAll_block (env : Env) (b : Block) (wf : b.WF env) (s : LineParser.State Cfg) (hc : Clean s) (k : Nat) :
    ∃ s', addAll env.expOk s (number k b.code) = .ok s' ∧ s'.command = b.cmd :: b.more ∧
      s'.expectations = b.exps ∧ s'.exitCode = b.exit.map (·.2) ∧ s'.outputStartIndex = some k ∧
      s'.testcases = s.testcases ∧ s'.title = s.title ∧ s'.config = s.config ∧
      s'.allowMultipleCommands = false := by
  obtain ⟨_, _, _, _, _, hexps, hexit⟩ := wf
  -- the `$` line
  simp only [Block.code, number, addAll, Block.cmdLine, addBody_cmd env.expOk s hc]
  -- the `> ` lines
  rw [number_append, addAll_append]
  have hconts := addAll_conts env.expOk b.more
    { s with inCommand := true, outputStartIndex := some k, command := [b.cmd] } (k + 1) rfl (by simp) hc.amc
  rw [hconts]
  simp only []
  -- the expectation lines
  rw [number_append, addAll_append]
  obtain ⟨ic, hic⟩ := addAll_exps env.expOk b.exps
    { s with inCommand := true, outputStartIndex := some (k), command := [b.cmd] ++ b.more }
    (k + 1 + (b.more.map contLine).length) (by simp) hc.amc hexps
  rw [hic]
  simp only []
  -- the exit code line
  cases hb : b.exit with
  | none =>
    simp only [Block.exitLines, hb, number, addAll]
    exact ⟨_, rfl, by simp, by simp [hc.exps], by simp [hc.code], rfl, rfl, rfl, rfl, hc.amc⟩
  | some xn =>
    obtain ⟨x, n⟩ := xn
    rw [hb] at hexit
    simp only [Block.exitLines, hb, number, addAll]
    have hex := addBody_exit env.expOk
      { s with inCommand := ic, outputStartIndex := some k, command := [b.cmd] ++ b.more,
               expectations := s.expectations ++ b.exps }
      x n (k + 1 + (b.more.map contLine).length + b.exps.length) (by simp) hc.amc (by simp [hc.code]) hexit
    rw [hex]
    exact ⟨_, rfl, by simp, by simp [hc.exps], by simp, rfl, rfl, rfl, rfl, hc.amc⟩

theorem code_getLast (b : Block) (k : Nat) : ∃ i l, (number k b.code).getLast? = some (i, l) := by
  cases h : (number k b.code).getLast? with
  | none =>
    have : number k b.code = [] := List.getLast?_eq_none_iff.mp h
    simp [Block.code, number] at this
  | some p => exact ⟨p.1, p.2, rfl⟩

/-- on a clean state, the token of a well-formed block becomes exactly the test that is written -/
theorem stepTok_block (env : Env) (b : Block) (wf : b.WF env) (st : PState) (hc : Clean st.lp)
    (li k : Nat) (cms : Numbered) :
    ∃ st', stepTok env st (.test b.language (cfgLines li b.config) cms (number k b.code)) = .ok st' ∧
      Clean st'.lp ∧ st'.lp.title = none ∧ st'.titleParagraph = [] ∧ st'.docConfigs = st.docConfigs ∧
      st'.lp.testcases = st.lp.testcases ++
        [{ title := st.lp.title.getD [], command := b.cmd :: b.more, exitCode := b.exit.map (·.2),
           expectations := b.exps, lineNumber := k + 1, config := some (stripBraces b.config) }] := by
  have hcfg : (if (cfgLines li b.config).isEmpty then (.ok none : Except Err Cfg)
      else if env.testCfgOk (joinNumbered (cfgLines li b.config)) then .ok (some (joinNumbered (cfgLines li b.config)))
      else .error .testConfigYaml) = .ok (stripBraces b.config) := by
    have h3 := wf.2.2.1
    unfold cfgLines
    cases hs : stripBraces b.config with
    | none => simp
    | some c =>
      rw [hs] at h3
      simp at h3
      simp [joinNumbered, joinNl, h3]
  have hclean : Clean (st.lp.setConfig (stripBraces b.config)) :=
    ⟨hc.cmd, hc.exps, hc.code, hc.osi, hc.amc⟩
  obtain ⟨s', h1, h2, h3, h4, h5, h6, h7, h8, h9⟩ :=
    addAll_block env b wf (st.lp.setConfig (stripBraces b.config)) hclean k
  obtain ⟨i, l, hl⟩ := code_getLast b k
  simp only [stepTok, hcfg, h1, hl]
  have hne : s'.command.isEmpty = false := by rw [h2]; rfl
  simp only [State.endTestcase, hne, Bool.false_eq_true, if_false]
  refine ⟨_, rfl, ⟨rfl, rfl, rfl, rfl, ?_⟩, rfl, rfl, rfl, ?_⟩
  · simpa [State.flush] using h9
  · simp [State.flush, h2, h3, h4, h5, h6, h7, h8, State.setConfig]

/-! ## the whole document -/

theorem fencePure_none_of {l : Line} (h : extractCodeBlockStart l = .ok none) : fencePure l = none := by
  rw [extractCodeBlockStart_eq] at h
  injection h

theorem parse_items (env : Env) :
    ∀ (items : List Item), (∀ it ∈ items, it.WF env) →
      ∀ (cs : Bool) (li : Nat) (st : PState), Clean st.lp →
        ∃ st', parseTokens env st (runP env.languages .top cs li (render items)) = .ok st' ∧
          st'.docConfigs = st.docConfigs ∧
          st'.lp.testcases
            = st.lp.testcases ++ expectedTests env items li st.lp.title st.titleParagraph := by
  intro items
  induction items with
  | nil =>
    intro _ cs li st _
    exact ⟨st, by simp [render, runP, Mode.flushTok, parseTokens], rfl, by simp [expectedTests]⟩
  | cons it r ih =>
    intro hwf cs li st hc
    have hr : ∀ it ∈ r, it.WF env := fun x hx => hwf x (by simp [hx])
    cases it with
    | prose l =>
      obtain ⟨hx, hne⟩ : extractCodeBlockStart l = .ok none ∧ l ≠ frontMatterFence := hwf (.prose l) (by simp)
      have h1 : (!cs && decide (l = frontMatterFence)) = false := by simp [hne]
      simp only [render]
      rw [runP_top_cons]
      simp only [h1, fencePure_none_of hx, Bool.false_eq_true, if_false, parseTokens, stepTok, expectedTests]
      cases ht : extractTitle env.isLetter l with
      | some x =>
        simp only []
        exact ih hr _ _ { st with titleParagraph := st.titleParagraph ++ [x],
                                  lp := st.lp.setTitle (joinNl (st.titleParagraph ++ [x])) }
          ⟨hc.cmd, hc.exps, hc.code, hc.osi, hc.amc⟩
      | none =>
        simp only []
        exact ih hr _ _ { st with titleParagraph := [] } hc
    | block b =>
      have wf : b.WF env := hwf (.block b) (by simp)
      simp only [render]
      rw [runP_block env b wf]
      obtain ⟨st1, h1, hc1, ht1, htp1, hd1, htc1⟩ :=
        stepTok_block env b wf st hc li (li + 1 + b.comments.length) (number (li + 1) b.comments)
      simp only [parseTokens, h1]
      obtain ⟨st', h2, hd2, htc2⟩ := ih hr true (li + b.lines.length) st1 hc1
      refine ⟨st', h2, by rw [hd2, hd1], ?_⟩
      rw [htc2, htc1, ht1, htp1]
      simp [expectedTests]

theorem parseLines_render (env : Env) (items : List Item) (hwf : ∀ it ∈ items, it.WF env) :
    parseLines env (render items)
      = .ok { docConfigs := [], tests := expectedTests env items 0 none [] } := by
  obtain ⟨st', h, hd, ht⟩ := parse_items env items hwf false 0 {}
    ⟨rfl, rfl, rfl, rfl, rfl⟩
  simp only [parseLines, tokenize_eq, h]
  rw [hd, ht]
  rfl

/-! ## count, order and content do not depend on the prose -/

theorem expectedTests_core (env : Env) :
    ∀ (items : List Item) (li : Nat) (t : Option Line) (tp : List Line),
      (expectedTests env items li t tp).map TestCase.core = writtenCores items := by
  intro items
  induction items with
  | nil => intro _ _ _; rfl
  | cons it r ih =>
    intro li t tp
    cases it with
    | prose l =>
      simp only [expectedTests, writtenCores]
      split <;> exact ih _ _ _
    | block b =>
      simp only [expectedTests, writtenCores, List.map_cons, ih]
      rfl

theorem writtenCores_insert_prose (pre post : List Item) (p : Line) :
    writtenCores (pre ++ .prose p :: post) = writtenCores (pre ++ post) := by
  induction pre with
  | nil => rfl
  | cons it r ih => cases it <;> simp [writtenCores, ih]

theorem prose_inert (env : Env) (pre post : List Item) (p : Line)
    (wf : ∀ it ∈ pre ++ post, it.WF env) (hp : Item.WF env (.prose p)) :
    ∃ ts ts', parseLines env (render (pre ++ post)) = .ok { docConfigs := [], tests := ts } ∧
      parseLines env (render (pre ++ .prose p :: post)) = .ok { docConfigs := [], tests := ts' } ∧
      ts'.map TestCase.core = ts.map TestCase.core := by
  have wf' : ∀ it ∈ pre ++ .prose p :: post, it.WF env := by
    intro it hit
    simp only [List.mem_append, List.mem_cons] at hit
    rcases hit with h | rfl | h
    · exact wf it (by simp [h])
    · exact hp
    · exact wf it (by simp [h])
  refine ⟨_, _, parseLines_render env _ wf, parseLines_render env _ wf', ?_⟩
  rw [expectedTests_core, expectedTests_core, writtenCores_insert_prose]

/-- line numbers of the tests: strictly increasing, each the line of a `$` -/
theorem expectedTests_lines (env : Env) :
    ∀ (items : List Item) (li : Nat) (t : Option Line) (tp : List Line),
      ∀ x ∈ expectedTests env items li t tp, li < x.lineNumber ∧
        (render items)[x.lineNumber - 1 - li]? = some ('$' :: ' ' :: (x.command.headD [])) := by
  intro items
  induction items with
  | nil => intro _ _ _ x hx; simp [expectedTests] at hx
  | cons it r ih =>
    intro li t tp x hx
    cases it with
    | prose l =>
      simp only [expectedTests] at hx
      have : ∃ t' tp', x ∈ expectedTests env r (li + 1) t' tp' := by
        split at hx <;> exact ⟨_, _, hx⟩
      obtain ⟨t', tp', h⟩ := this
      obtain ⟨h1, h2⟩ := ih _ _ _ x h
      refine ⟨by omega, ?_⟩
      have e : x.lineNumber - 1 - li = (x.lineNumber - 1 - (li + 1)) + 1 := by omega
      rw [e]
      simpa [render] using h2
    | block b =>
      simp only [expectedTests, List.mem_cons] at hx
      rcases hx with rfl | h
      · refine ⟨by simp; omega, ?_⟩
        have e : li + 1 + b.comments.length + 1 - 1 - li = b.comments.length + 1 := by omega
        simp only [e, render, Block.lines, Block.body, Block.code, Block.cmdLine, List.headD_cons]
        simp
      · obtain ⟨h1, h2⟩ := ih _ _ _ x h
        refine ⟨by omega, ?_⟩
        have e : x.lineNumber - 1 - li = b.lines.length + (x.lineNumber - 1 - (li + b.lines.length)) := by omega
        rw [e]
        simp only [render]
        rw [List.getElem?_append_right (by omega)]
        simpa using h2

end Scrut.Markdown
