import ScrutModel.Model.Config
namespace Scrut.Config

theorem Env.get_append (a b : Env) (k : Nat) : Env.get (a ++ b) k = (Env.get b k).or (Env.get a k) := by
  induction a with
  | nil => cases h : Env.get b k <;> simp [Env.get, h]
  | cons x a ih =>
    obtain ⟨k', v⟩ := x
    simp only [List.cons_append, Env.get, ih]
    cases hb : Env.get b k <;> cases ha : Env.get a k <;> simp

@[simp] theorem Env.get_nil (k : Nat) : Env.get [] k = none := rfl

/-- equality of configurations as Rust sees it: scalars equal, maps equal as maps -/
def TCC.Equiv (a b : TCC) : Prop :=
  a.detached = b.detached ∧ a.keepCrlf = b.keepCrlf ∧ a.outputStream = b.outputStream ∧
  a.skipCode = b.skipCode ∧ a.stripAnsi = b.stripAnsi ∧ a.timeout = b.timeout ∧ a.wait = b.wait ∧
  ∀ k, a.env.get k = b.env.get k

def DC.Equiv (a b : DC) : Prop :=
  a.append = b.append ∧ a.prepend = b.prepend ∧ a.shell = b.shell ∧
  a.totalTimeout = b.totalTimeout ∧ TCC.Equiv a.defaults b.defaults

theorem or_assoc' {α} (a b c : Option α) : (a.or b).or c = a.or (b.or c) := by
  cases a <;> simp

theorem TCC.wd_assoc (a b c : TCC) : (a.wd b).wd c = a.wd (b.wd c) := by
  simp [TCC.wd, or_assoc', List.append_assoc]

theorem TCC.wd_empty_right (a : TCC) : a.wd TCC.empty = a := by
  cases a; simp [TCC.wd, TCC.empty]

theorem TCC.wd_empty_left (a : TCC) : TCC.empty.wd a = a := by
  cases a; simp [TCC.wd, TCC.empty]

theorem DC.wd_assoc (a b c : DC) : (a.wd b).wd c = a.wd (b.wd c) := by
  simp [DC.wd, or_assoc', List.append_assoc, TCC.wd_assoc]

theorem DC.wd_empty_right (a : DC) : a.wd {} = a := by
  cases a; simp [DC.wd, TCC.wd_empty_right]
  exact TCC.wd_empty_right _

theorem DC.wd_empty_left (a : DC) : DC.wd {} a = a := by
  cases a; simp [DC.wd]
  exact TCC.wd_empty_left _

/-- the first layer (highest precedence first) that sets a value -/
def firstSome : List (Option Nat) → Option Nat
  | [] => none
  | some v :: _ => some v
  | none :: rest => firstSome rest

theorem or4 (a b c d : Option Nat) :
    a.or ((b.or c).or d) = firstSome [a, b, c, d] := by
  cases a <;> cases b <;> cases c <;> cases d <;> simp [firstSome]

end Scrut.Config
