import ScrutModel.Model.RegexCleanup
/-! What is true of the clean-up passes: expressions that contain none of the characters the passes
exist for are left exactly as written. -/
namespace Scrut.RegexCleanup

/-- every backslash is followed by a character after which pass 1 keeps it (or is the last character) -/
def okPairs : List Char → Bool
  | x :: y :: r => (x != '\\' || recognized y) && okPairs (y :: r)
  | _ => true

/-- no `<<<<` anywhere (the marker pass 2 uses internally) -/
def noQuad : List Char → Bool
  | [] => true
  | c :: rest => !(c == '<' && rest.take 3 == ['<', '<', '<']) && noQuad rest

/-- the expressions the clean-up passes have no business with -/
def plain (e : List Char) : Bool :=
  !e.contains '{' && !e.contains '}' && !e.contains '[' && !e.contains ']' && okPairs e && noQuad e

theorem okPairs_tail {c : Char} {rest : List Char} (h : okPairs (c :: rest) = true) : okPairs rest = true := by
  cases rest with
  | nil => rfl
  | cons y r => simp only [okPairs, Bool.and_eq_true] at h; exact h.2

theorem escPass_id (l : List Char) :
    (okPairs l = true → escPass l false = l) ∧ (okPairs ('\\' :: l) = true → escPass l true = '\\' :: l) := by
  induction l with
  | nil => exact ⟨fun _ => rfl, fun _ => rfl⟩
  | cons c rest ih =>
    constructor
    · intro h
      by_cases hc : c = '\\'
      · subst hc
        simp only [escPass, if_true]
        exact ih.2 h
      · simp only [escPass, if_neg hc, ih.1 (okPairs_tail h)]
    · intro h
      simp only [okPairs, Bool.and_eq_true, Bool.or_eq_true] at h
      have hr : recognized c = true := by
        rcases h.1 with h1 | h1
        · simp at h1
        · exact h1
      simp only [escPass, hr, if_true, ih.1 (okPairs_tail h.2)]

theorem protect_id (l : List Char) (h : '{' ∉ l) : protect l 0 = l := by
  induction l with
  | nil => rfl
  | cons c rest ih =>
    have hc : c ≠ '{' := fun e => h (by simp [e])
    have hr : '{' ∉ rest := fun e => h (by simp [e])
    simp only [protect, if_neg hc, ih hr]

theorem braceEsc_id (l : List Char) (h1 : '{' ∉ l) (h2 : '}' ∉ l) : ∀ b, braceEsc l b = l := by
  induction l with
  | nil => intro b; cases b <;> rfl
  | cons c rest ih =>
    have hc1 : c ≠ '{' := fun e => h1 (by simp [e])
    have hc2 : c ≠ '}' := fun e => h2 (by simp [e])
    have hr1 : '{' ∉ rest := fun e => h1 (by simp [e])
    have hr2 : '}' ∉ rest := fun e => h2 (by simp [e])
    intro b
    cases b with
    | true => simp only [braceEsc, ih hr1 hr2]
    | false =>
      by_cases hb : c = '\\'
      · simp only [braceEsc, if_pos hb, ih hr1 hr2]
      · have : ¬ (c = '{' ∨ c = '}') := by simp [hc1, hc2]
        simp only [braceEsc, if_neg hb, if_neg this, ih hr1 hr2]

theorem restore_id (l : List Char) (h : noQuad l = true) : restore l 0 = l := by
  induction l with
  | nil => rfl
  | cons c rest ih =>
    simp only [noQuad, Bool.and_eq_true, Bool.not_eq_true', Bool.and_eq_false_iff] at h
    have hq : ¬ (c = '<' ∧ rest.take 3 = ['<', '<', '<']) := by
      rintro ⟨h1, h2⟩
      rcases h.1 with h3 | h3
      · simp [h1] at h3
      · simp [h2] at h3
    simp only [restore, if_neg hq, ih h.2]

theorem ccPass_id (l : List Char) (h1 : '[' ∉ l) (h2 : ']' ∉ l) : ∀ b, ccPass l false b = l := by
  induction l with
  | nil => intro b; cases b <;> rfl
  | cons c rest ih =>
    have hc1 : c ≠ '[' := fun e => h1 (by simp [e])
    have hc2 : c ≠ ']' := fun e => h2 (by simp [e])
    have hr1 : '[' ∉ rest := fun e => h1 (by simp [e])
    have hr2 : ']' ∉ rest := fun e => h2 (by simp [e])
    intro b
    cases b with
    | true => simp only [ccPass, ih hr1 hr2]
    | false =>
      by_cases hb : c = '\\'
      · simp only [ccPass, if_pos hb, ih hr1 hr2]
      · simp only [ccPass, if_neg hb, if_neg hc1, if_neg hc2, ih hr1 hr2]

/-- all three passes leave a plain expression exactly as written -/
theorem regexClean_id (e : List Char) (h : plain e = true) : regexClean e = e := by
  simp only [plain, Bool.and_eq_true, Bool.not_eq_true', List.contains_eq_mem, decide_eq_false_iff_not] at h
  obtain ⟨⟨⟨⟨⟨h1, h2⟩, h3⟩, h4⟩, h5⟩, h6⟩ := h
  unfold regexClean quantPass
  rw [(escPass_id e).1 h5, protect_id e h1, braceEsc_id e h1 h2, restore_id e h6, ccPass_id e h3 h4]

end Scrut.RegexCleanup
