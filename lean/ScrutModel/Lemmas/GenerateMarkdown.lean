import ScrutModel.Lemmas.GenerateCreate
import ScrutModel.Lemmas.MarkdownWF
import ScrutModel.Lemmas.UpdateRetok
/-!
# C09, the last hop for Markdown: the document `scrut create` prints is parsed back as one test
with the command, the generated expectation lines and the exit code

`markdownDoc cfg (generateTestcase …)` is `unlines` of: the fence line, `$ c0`, `> m` for the other
command lines, the generated texts, `[code]` if `code ≠ 0`, the fence. `str::lines()` returns these
lines (`splitLines_unlines`), which are the rendering of ONE well-formed block of `C06_wellformed`'s
grammar, so `MarkdownParser::parse` yields exactly that test.
-/
namespace Scrut.GenLemmas
open Scrut.Utf8 Scrut.Esc Scrut.EscLemmas Scrut.Gen Scrut.Markdown Scrut.LineParser
open Scrut.Update (unlines backticks Clean splitLines_unlines)

/-! ### `generate_testcase_expression` on a command given by its lines -/

theorem splitNl_line (l t : List Char) (hnl : '\n' ∉ l) :
    ∀ cur, splitNl (l ++ '\n' :: t) cur = (cur ++ l) :: splitNl t [] := by
  induction l with
  | nil => intro cur; simp [splitNl]
  | cons c r ih =>
    intro cur
    have hc : c ≠ '\n' := fun h => hnl (by simp [h])
    have hr : '\n' ∉ r := fun h => hnl (by simp [h])
    simp only [List.cons_append, splitNl, hc, if_false]
    rw [ih hr]
    simp

theorem splitNl_last (l : List Char) (hnl : '\n' ∉ l) : ∀ cur, splitNl l cur = [cur ++ l] := by
  induction l with
  | nil => intro cur; simp [splitNl]
  | cons c r ih =>
    intro cur
    have hc : c ≠ '\n' := fun h => hnl (by simp [h])
    have hr : '\n' ∉ r := fun h => hnl (by simp [h])
    simp only [splitNl, hc, if_false]
    rw [ih hr]
    simp

/-- `str::split('\n')` returns at least one piece -/
theorem splitNl_ne_nil : ∀ (cmd cur : List Char), splitNl cmd cur ≠ []
  | [], _ => by simp [splitNl]
  | c :: rest, cur => by
    unfold splitNl
    split
    · simp
    · exact splitNl_ne_nil rest _

/-- no piece holds a line feed -/
theorem splitNl_no_nl : ∀ (cmd cur : List Char), '\n' ∉ cur → ∀ l ∈ splitNl cmd cur, '\n' ∉ l
  | [], cur, h, l, hl => by
    simp only [splitNl, List.mem_singleton] at hl
    subst hl; exact h
  | c :: rest, cur, h, l, hl => by
    unfold splitNl at hl
    split at hl
    · rcases List.mem_cons.mp hl with rfl | hl
      · exact h
      · exact splitNl_no_nl rest [] (by simp) l hl
    · rename_i hc
      refine splitNl_no_nl rest (cur ++ [c]) ?_ l hl
      intro hm
      rcases List.mem_append.mp hm with hm | hm
      · exact h hm
      · have : '\n' = c := by simpa using hm
        exact hc this.symm

/-- the pieces, joined with line feeds, are the text: `split('\n')` loses nothing -/
theorem joinNl_splitNl : ∀ (cmd cur : List Char), Gen.joinNl (splitNl cmd cur) = cur ++ cmd
  | [], cur => by simp [splitNl, Gen.joinNl]
  | c :: rest, cur => by
    unfold splitNl
    split
    · rename_i hc
      have ih := joinNl_splitNl rest []
      cases hs : splitNl rest [] with
      | nil => exact absurd hs (splitNl_ne_nil rest [])
      | cons a b =>
        rw [hs] at ih
        simp only [Gen.joinNl, ih, hc, List.nil_append]
    · rw [joinNl_splitNl rest (cur ++ [c])]; simp

/-- … and lines without line feed, joined, are split into themselves -/
theorem splitNl_joinNl : ∀ (ls : List (List Char)), ls ≠ [] → (∀ l ∈ ls, '\n' ∉ l) →
    splitNl (Gen.joinNl ls) [] = ls
  | [], h, _ => absurd rfl h
  | [l], _, hnl => by
    simp only [Gen.joinNl]
    rw [splitNl_last l (hnl l (by simp)) []]; simp
  | l :: l2 :: rest, _, hnl => by
    simp only [Gen.joinNl]
    rw [splitNl_line l _ (hnl l (by simp)) [], splitNl_joinNl (l2 :: rest) (by simp) (fun x hx => hnl x (by simp [hx]))]
    simp

theorem assureNewlineC_nl (l : List Char) : assureNewlineC (l ++ ['\n']) = l ++ ['\n'] := by
  simp [assureNewlineC]

theorem assureNewlineC_plain (l : List Char) (h : '\n' ∉ l) : assureNewlineC l = l ++ ['\n'] := by
  unfold assureNewlineC
  have : ¬ (l.getLast? == some '\n') = true := by
    intro hl
    have hl' : l.getLast? = some '\n' := by simpa using hl
    exact h (List.mem_of_getLast? hl')
  simp [this]

/-- **`generate_testcase_expression`**, any command: `$ ` + first piece, `> ` + every further piece of
`split('\n')` -- no panic -/
theorem expression_split (cmd c0 : List Char) (more : List (List Char)) (h : splitNl cmd [] = c0 :: more) :
    expression cmd = some (unlines (('$' :: ' ' :: c0) :: more.map (fun x => '>' :: ' ' :: x))) := by
  unfold expression
  rw [h]
  simp [unlines, List.flatMap_map]

/-- `generate_testcase_expression` never panics -/
theorem expression_isSome (cmd : List Char) : ∃ ex, expression cmd = some ex := by
  cases h : splitNl cmd [] with
  | nil => exact absurd h (splitNl_ne_nil cmd [])
  | cons c0 more => exact ⟨_, expression_split cmd c0 more h⟩

/-- `generate_testcase_expression` on a command given by its lines (any lines without line feed: the
last one may be empty, the only one too) -/
theorem expression_lines (c0 : List Char) (more : List (List Char)) (h : ∀ l ∈ c0 :: more, '\n' ∉ l) :
    expression (Gen.joinNl (c0 :: more))
      = some (unlines (('$' :: ' ' :: c0) :: more.map (fun x => '>' :: ' ' :: x))) :=
  expression_split _ c0 more (splitNl_joinNl (c0 :: more) (by simp) h)


/-! ### the document as a list of lines -/

/-- the line `[code]` if `code ≠ 0` -/
def exitLines (code : Int) : List Line := if code ≠ 0 then [['['] ++ showInt code ++ [']']] else []

theorem exitCodeOpt_unlines (code : Int) : exitCodeOpt code = unlines (exitLines code) := by
  unfold exitCodeOpt exitLines
  split <;> simp [unlines, exitCodeLine]

/-- `{…}` of the fence line -/
def cfgBraces : ConfigDiff → Line
  | .empty => []
  | .stderr => '{' :: (['o', 'u', 't', 'p', 'u', 't', '_', 's', 't', 'r', 'e', 'a', 'm', ':', ' ', 's', 't', 'd', 'e', 'r', 'r'] ++ ['}'])
  | .cramDefaults => '{' :: (['o', 'u', 't', 'p', 'u', 't', '_', 's', 't', 'r', 'e', 'a', 'm', ':', ' ', 'c', 'o', 'm', 'b', 'i', 'n', 'e', 'd', ',', ' ', 'k', 'e', 'e', 'p', '_', 'c', 'r', 'l', 'f', ':', ' ', 't', 'r', 'u', 'e'] ++ ['}'])

/-- the text between the braces -/
def cfgInner : ConfigDiff → Option Line
  | .empty => none
  | .stderr => some ['o', 'u', 't', 'p', 'u', 't', '_', 's', 't', 'r', 'e', 'a', 'm', ':', ' ', 's', 't', 'd', 'e', 'r', 'r']
  | .cramDefaults => some ['o', 'u', 't', 'p', 'u', 't', '_', 's', 't', 'r', 'e', 'a', 'm', ':', ' ', 'c', 'o', 'm', 'b', 'i', 'n', 'e', 'd', ',', ' ', 'k', 'e', 'e', 'p', '_', 'c', 'r', 'l', 'f', ':', ' ', 't', 'r', 'u', 'e']

/-- the block that `create` writes: `n` backticks, the command lines, the generated texts `ts`, the exit code -/
def createBlock (n : Nat) (cfg : ConfigDiff) (c0 : Line) (more ts : List Line) (code : Int) : Block :=
  { opener := backticks n ++ language ++ configText cfg, bt := backticks n, language := language,
    config := cfgBraces cfg, comments := [], cmd := c0, more := more, after := ts ++ exitLines code,
    closer := backticks n }

theorem unlines_append (a b : List Line) : unlines (a ++ b) = unlines a ++ unlines b := by
  simp [unlines]

/-- the generated test, as lines -/
theorem generated_lines (c0 : Line) (more ts : List Line) (code : Int) (n : Nat) (cfg : ConfigDiff) :
    unlines (('$' :: ' ' :: c0) :: more.map (fun x => '>' :: ' ' :: x)) ++ unlines ts ++ exitCodeOpt code
      = unlines (createBlock n cfg c0 more ts code).body := by
  rw [exitCodeOpt_unlines, ← unlines_append, ← unlines_append]
  have : (fun x : Line => '>' :: ' ' :: x) = contLine := rfl
  simp [Block.body, Block.code, Block.cmdLine, createBlock, this]

theorem markdownDoc_unlines (cfg : ConfigDiff) (g : List Char) (body : List Line) (hg : g = unlines body) :
    markdownDoc cfg g
      = unlines ((backticks (Gen.maxBacktickSize g + 1) ++ language ++ configText cfg) ::
          (body ++ [backticks (Gen.maxBacktickSize g + 1)])) := by
  subst hg
  simp [markdownDoc, unlines, backticks]


/-! ### no line of the block closes it -/

theorem linesAux_line (l t : List Char) (hnl : '\n' ∉ l) :
    ∀ cur, linesAux (l ++ '\n' :: t) cur = (cur ++ l) :: linesAux t [] := by
  induction l with
  | nil => intro cur; simp [linesAux]
  | cons c r ih =>
    intro cur
    have hc : c ≠ '\n' := fun h => hnl (by simp [h])
    have hr : '\n' ∉ r := fun h => hnl (by simp [h])
    simp only [List.cons_append, linesAux, hc, if_false]
    rw [ih hr]
    simp

theorem lines_unlines (ls : List Line) (h : ∀ l ∈ ls, '\n' ∉ l) : Gen.lines (unlines ls) = ls := by
  induction ls with
  | nil => rfl
  | cons l r ih =>
    have hr := ih (fun x hx => h x (by simp [hx]))
    unfold Gen.lines at hr ⊢
    have : unlines (l :: r) = l ++ '\n' :: unlines r := by simp [unlines]
    rw [this, linesAux_line l _ (h l (by simp)) [], hr]
    simp

theorem startsWith_backticks_le : ∀ (k : Nat) (l : Line), startsWith l (backticks k) = true →
    k ≤ Gen.leadingBackticks l
  | 0, _, _ => Nat.zero_le _
  | k + 1, l, h => by
    have e : backticks (k + 1) = '`' :: backticks k := by simp [backticks, List.replicate_succ]
    rw [e] at h
    cases l with
    | nil => simp [startsWith, List.isPrefixOf] at h
    | cons c r =>
      simp only [startsWith, List.isPrefixOf, Bool.and_eq_true, beq_iff_eq] at h
      obtain ⟨hc, hr⟩ := h
      subst hc
      have := startsWith_backticks_le k r hr
      simp only [Gen.leadingBackticks]
      omega

/-- no line of a generated text starts with the fence `create` chooses for it -/
theorem fence_safe (body : List Line) (h : ∀ l ∈ body, '\n' ∉ l) :
    ∀ x ∈ body, startsWith x (backticks (Gen.maxBacktickSize (unlines body) + 1)) = false := by
  intro x hx
  cases hs : startsWith x (backticks (Gen.maxBacktickSize (unlines body) + 1)) with
  | false => rfl
  | true =>
    have h1 := startsWith_backticks_le _ x hs
    have h2 := (fence_longer (unlines body)).2 x (by rw [lines_unlines body h]; exact hx)
    omega

/-! ### the block is well-formed, the document is parsed back -/

/-- what is used of every generated text -/
structure TextOK (env : Env) (t : Line) : Prop where
  no_nl : '\n' ∉ t
  no_cr : t.getLast? ≠ some '\r'
  no_lead : commandLead t = none
  no_exit : isExitCodeForm t = false
  exp_ok : env.expOk t = true

theorem langOK_scrut : Update.LangOK language := by unfold Update.LangOK language; decide

theorem opener_read (n : Nat) (hn : 3 ≤ n) (cfg : ConfigDiff) :
    extractCodeBlockStart (backticks n ++ language ++ configText cfg)
      = .ok (some (backticks n, language, cfgBraces cfg)) := by
  rw [extractCodeBlockStart_eq]
  cases cfg with
  | empty =>
    have := Update.fence_reread n hn language langOK_scrut
    simpa [configText, cfgBraces] using this
  | stderr =>
    have := Update.fence_reread_config n hn language langOK_scrut
      ['o', 'u', 't', 'p', 'u', 't', '_', 's', 't', 'r', 'e', 'a', 'm', ':', ' ', 's', 't', 'd', 'e', 'r', 'r']
    exact congrArg _ this
  | cramDefaults =>
    have := Update.fence_reread_config n hn language langOK_scrut
      ['o', 'u', 't', 'p', 'u', 't', '_', 's', 't', 'r', 'e', 'a', 'm', ':', ' ', 'c', 'o', 'm', 'b', 'i', 'n', 'e', 'd', ',', ' ', 'k', 'e', 'e', 'p', '_', 'c', 'r', 'l', 'f', ':', ' ', 't', 'r', 'u', 'e']
    exact congrArg _ this

theorem stripBraces_cfg (cfg : ConfigDiff) : stripBraces (cfgBraces cfg) = cfgInner cfg := by
  cases cfg with
  | empty => rfl
  | stderr => exact Update.stripBraces_braces _ (by decide)
  | cramDefaults => exact Update.stripBraces_braces _ (by decide)

theorem exitLine_exit (code : Int) (h0 : 0 ≤ code) (h1 : code ≤ 255) :
    extractExitCode ('[' :: (showInt code ++ [']'])) = some code.toNat := by
  simpa using exitCode_roundtrip code h0 h1

theorem digits_clean (c : Nat) : '\n' ∉ Nat.toDigits 10 c := by
  intro h
  have := Nat.isDigit_of_mem_toDigits (by decide) (by decide) h
  revert this; decide

theorem exitLine_no_nl (code : Int) (h0 : 0 ≤ code) (h1 : code ≤ 255) :
    '\n' ∉ '[' :: (showInt code ++ [']']) := by
  have hs : showInt code = Nat.toDigits 10 code.toNat := by simp [showInt, Int.not_lt.mpr h0]
  have := digits_clean code.toNat
  rw [hs]
  simp [this]

theorem exitCodes_after {env : Env} (ts : List Line) (hts : ∀ t ∈ ts, TextOK env t) (code : Int)
    (h0 : 0 ≤ code) (h1 : code ≤ 255) :
    exitCodes (ts ++ exitLines code) = if code ≠ 0 then [code.toNat] else [] := by
  have h : ts.filterMap extractExitCode = [] := by
    rw [List.filterMap_eq_nil_iff]
    exact fun t ht => extractExitCode_of_not_form (hts t ht).no_exit
  unfold exitCodes exitLines
  rw [List.filterMap_append, h]
  split
  · simp [exitLine_exit code h0 h1]
  · simp

theorem expLines_after {env : Env} (ts : List Line) (hts : ∀ t ∈ ts, TextOK env t) (code : Int)
    (h0 : 0 ≤ code) (h1 : code ≤ 255) : expLines (ts ++ exitLines code) = ts := by
  have h : ts.filter (fun a => (extractExitCode a).isNone) = ts := by
    rw [List.filter_eq_self]
    intro t ht
    simp [extractExitCode_of_not_form (hts t ht).no_exit]
  unfold expLines exitLines
  rw [List.filter_append, h]
  split
  · simp [exitLine_exit code h0 h1]
  · simp

theorem clean_of_no (l : Line) (h1 : '\n' ∉ l) (h2 : l.getLast? ≠ some '\r') : Clean l := ⟨h1, h2⟩

theorem createBlock_wf (env : Env) (hlang : env.languages = [language])
    (hcfg : ∀ cfg c, cfgInner cfg = some c → env.testCfgOk c = true)
    (cfg : ConfigDiff) (c0 : Line) (more ts : List Line) (hcmd : ∀ l ∈ c0 :: more, '\n' ∉ l)
    (hts : ∀ t ∈ ts, TextOK env t) (code : Int) (h0 : 0 ≤ code) (h1 : code ≤ 255) (n : Nat)
    (hn : n = Gen.maxBacktickSize (unlines (createBlock n cfg c0 more ts code).body) + 1) :
    (createBlock n cfg c0 more ts code).WF env := by
  have hn3 : 3 ≤ n := by rw [hn]; exact (fence_longer _).1
  have hbody_nl : ∀ l ∈ (createBlock n cfg c0 more ts code).body, '\n' ∉ l := by
    intro l hl
    simp only [Block.body, Block.code, Block.cmdLine, createBlock, List.nil_append, List.mem_cons,
      List.mem_append, List.mem_map] at hl
    rcases hl with rfl | ⟨x, hx, rfl⟩ | hl | hl
    · have := hcmd c0 (by simp)
      simp [this]
    · have := hcmd x (by simp [hx])
      simp [contLine, this]
    · exact (hts l hl).no_nl
    · unfold exitLines at hl
      split at hl
      · have : l = ['['] ++ showInt code ++ [']'] := by simpa using hl
        subst this
        simpa using exitLine_no_nl code h0 h1
      · simp at hl
  refine ⟨opener_read n hn3 cfg, ?_, ?_, ?_, ?_, ?_, ?_, ?_, ?_⟩
  · rw [hlang]
    show ([language] : List Line).contains language = true
    decide
  · unfold cfgAccepted
    show match stripBraces (cfgBraces cfg) with | some c => env.testCfgOk c = true | none => True
    rw [stripBraces_cfg]
    cases cfg with
    | empty => trivial
    | stderr => exact hcfg .stderr _ rfl
    | cramDefaults => exact hcfg .cramDefaults _ rfl
  · have := fence_safe _ hbody_nl
    rw [← hn] at this
    exact this
  · show startsWith (backticks n) (backticks n) = true
    simp [startsWith]
  · intro c hc; cases hc
  · show (exitCodes (ts ++ exitLines code)).length ≤ 1
    rw [exitCodes_after ts hts code h0 h1]
    split <;> simp
  · show ∀ e ∈ expLines (ts ++ exitLines code), env.expOk e = true ∧ isExitCodeForm e = false
    rw [expLines_after ts hts code h0 h1]
    exact fun e he => ⟨(hts e he).exp_ok, (hts e he).no_exit⟩
  · show match ts ++ exitLines code with | a :: _ => stripPrefix ['>', ' '] a = none | [] => True
    cases ts with
    | nil =>
      by_cases hc : code = 0
      · simp [exitLines, hc]
      · simp [exitLines, hc, stripPrefix]
    | cons t r =>
      exact (commandLead_none_strip (hts t (by simp)).no_lead).2


theorem clean_prefix2 (a b : Char) (l : Line) (ha : a ≠ '\n') (hb : b ≠ '\n' ∧ b ≠ '\r')
    (h : '\n' ∉ l ∧ l.getLast? ≠ some '\r') :
    '\n' ∉ a :: b :: l ∧ (a :: b :: l).getLast? ≠ some '\r' := by
  refine ⟨by simp [ha.symm, hb.1.symm, h.1], ?_⟩
  cases l with
  | nil => simp [hb.2]
  | cons c r =>
    have : (a :: b :: c :: r).getLast? = (c :: r).getLast? := by simp [List.getLast?_cons_cons]
    rw [this]; exact h.2

theorem clean_backticks' (n : Nat) : '\n' ∉ backticks n ∧ (backticks n).getLast? ≠ some '\r' := by
  constructor
  · simp [backticks, List.mem_replicate]
  · intro h
    have := List.mem_of_getLast? h
    simp [backticks, List.mem_replicate] at this

theorem clean_opener (n : Nat) (cfg : ConfigDiff) :
    '\n' ∉ backticks n ++ language ++ configText cfg ∧
      (backticks n ++ language ++ configText cfg).getLast? ≠ some '\r' := by
  constructor
  · intro h
    simp only [List.mem_append] at h
    rcases h with (h | h) | h
    · exact (clean_backticks' n).1 h
    · revert h; decide
    · cases cfg <;> revert h <;> decide
  · intro h
    have := List.mem_of_getLast? h
    simp only [List.mem_append] at this
    rcases this with (h | h) | h
    · simp [backticks, List.mem_replicate] at h
    · revert h; decide
    · cases cfg <;> revert h <;> decide

theorem clean_exitLine (code : Int) (h0 : 0 ≤ code) (h1 : code ≤ 255) :
    '\n' ∉ '[' :: (showInt code ++ [']']) ∧ ('[' :: (showInt code ++ [']'])).getLast? ≠ some '\r' := by
  refine ⟨exitLine_no_nl code h0 h1, ?_⟩
  have : '[' :: (showInt code ++ [']']) = ('[' :: showInt code) ++ [']'] := by simp
  rw [this, List.getLast?_append]
  simp

/-- **the document `create` prints is parsed back as one test**: command lines, generated texts,
exit code, inline configuration -/
theorem create_markdown_parses (env : Env) (hlang : env.languages = [language])
    (hcfg : ∀ cfg c, cfgInner cfg = some c → env.testCfgOk c = true)
    (cfg : ConfigDiff) (c0 : Line) (more ts : List Line)
    (hcmd : ∀ l ∈ c0 :: more, '\n' ∉ l ∧ l.getLast? ≠ some '\r')
    (hts : ∀ t ∈ ts, TextOK env t) (code : Int) (h0 : 0 ≤ code) (h1 : code ≤ 255) :
    parseMarkdown env (markdownDoc cfg
        (unlines (('$' :: ' ' :: c0) :: more.map (fun x => '>' :: ' ' :: x)) ++ unlines ts ++ exitCodeOpt code))
      = .ok { docConfigs := []
              tests := [{ title := []
                          command := c0 :: more
                          exitCode := if code ≠ 0 then some code.toNat else none
                          expectations := ts
                          lineNumber := 2
                          config := some (cfgInner cfg) }] } := by
  generalize hg0 : unlines (('$' :: ' ' :: c0) :: more.map (fun x => '>' :: ' ' :: x)) ++ unlines ts
    ++ exitCodeOpt code = g
  generalize hn : Gen.maxBacktickSize g + 1 = n
  have hg : g = unlines (createBlock n cfg c0 more ts code).body := by
    rw [← hg0]; exact generated_lines c0 more ts code n cfg
  have hdoc : markdownDoc cfg g = unlines (createBlock n cfg c0 more ts code).lines := by
    rw [markdownDoc_unlines cfg g _ hg, hn]; rfl
  have hwf : (createBlock n cfg c0 more ts code).WF env :=
    createBlock_wf env hlang hcfg cfg c0 more ts (fun l hl => (hcmd l hl).1) hts code h0 h1 n
      (by rw [← hg, hn])
  have hclean : ∀ l ∈ (createBlock n cfg c0 more ts code).lines,
      '\n' ∉ l ∧ l.getLast? ≠ some '\r' := by
    intro l hl
    simp only [Block.lines, Block.body, Block.code, Block.cmdLine, createBlock, List.nil_append,
      List.mem_cons, List.mem_append, List.mem_map, List.mem_singleton] at hl
    rcases hl with rfl | (rfl | ⟨x, hx, rfl⟩ | hl | hl) | (rfl | hl)
    rotate_right
    · cases hl
    · exact clean_opener n cfg
    · exact clean_prefix2 _ _ _ (by decide) (by decide) (hcmd c0 (by simp))
    · exact clean_prefix2 _ _ _ (by decide) (by decide) (hcmd x (by simp [hx]))
    · exact ⟨(hts l hl).no_nl, (hts l hl).no_cr⟩
    · by_cases hc : code = 0
      · simp [exitLines, hc] at hl
      · have : l = '[' :: (showInt code ++ [']']) := by simpa [exitLines, hc] using hl
        rw [this]; exact clean_exitLine code h0 h1
    · exact clean_backticks' n
  have hsplit := splitLines_unlines _ hclean
  have hparse := parseLines_render env [.block (createBlock n cfg c0 more ts code)] ⟨hwf, trivial⟩
  have hr : render [.block (createBlock n cfg c0 more ts code)] = (createBlock n cfg c0 more ts code).lines := by
    simp [render, Item.lines]
  unfold parseMarkdown
  rw [hdoc, hsplit, ← hr, hparse]
  have hexit : (createBlock n cfg c0 more ts code).exit = if code ≠ 0 then some code.toNat else none := by
    show (exitCodes (ts ++ exitLines code)).head? = _
    rw [exitCodes_after ts hts code h0 h1]
    split <;> rfl
  have hexps : (createBlock n cfg c0 more ts code).exps = ts := expLines_after ts hts code h0 h1
  have hcfgs : stripBraces (createBlock n cfg c0 more ts code).config = cfgInner cfg := stripBraces_cfg cfg
  simp only [docTexts, expectedTests, hexit, hexps, hcfgs]
  rfl


/-- **`create`, Markdown, end to end**: for every command (given by its lines), every output and
every exit code 0..255, `scrut create` prints a document that `MarkdownParser::parse` reads back
as exactly one test: the same command lines, one expectation text per line of the output (the
texts `ts[i]` that `generate_expectation_line` writes for line `i`), the exit code (none for 0) and
the inline configuration. -/
theorem create_markdown_end_to_end {P : Grammar.Params} (hP : StdParams P) (m : Esc.Mode) (isOther : Char → Bool)
    (hC : m = .unicode → AsciiContract isOther) (env : Env) (hlang : env.languages = [language])
    (hcfg : ∀ cfg c, cfgInner cfg = some c → env.testCfgOk c = true)
    (hexp : ∀ t e, Grammar.parse P t = .ok e → env.expOk t = true)
    (cfg : ConfigDiff) (c0 : Line) (more : List Line) (hlines : ∀ l ∈ c0 :: more, '\n' ∉ l)
    (hcr : ∀ l ∈ c0 :: more, l.getLast? ≠ some '\r')
    (out : List UInt8) (code : Int) (h0 : 0 ≤ code) (h1 : code ≤ 255) :
    ∃ doc ts, create .markdown m isOther cfg (Gen.joinNl (c0 :: more)) out code = some doc ∧
      ts.length = (Newline.splitAtNewline out).length ∧
      (∀ i (h : i < (Newline.splitAtNewline out).length),
        expectationLine m isOther (Newline.splitAtNewline out)[i] = ts[i]?) ∧
      parseMarkdown env doc
        = .ok { docConfigs := []
                tests := [{ title := []
                            command := c0 :: more
                            exitCode := if code ≠ 0 then some code.toNat else none
                            expectations := ts
                            lineNumber := 2
                            config := some (cfgInner cfg) }] } := by
  have hex := expression_lines c0 more hlines
  obtain ⟨ts, hlen, hget, hts⟩ := expectationLines_some m isOther hC _ (Newline.splitAtNewline_isLine out)
  have htsok : ∀ t ∈ ts, TextOK env t := by
    intro t ht
    obtain ⟨i, hi, rfl⟩ := List.getElem_of_mem ht
    have hi' : i < (Newline.splitAtNewline out).length := by omega
    have h1' := hget i hi'
    obtain ⟨t', ht', hok⟩ := line_ok hP m isOther hC
      (Newline.splitAtNewline_isLine out _ (List.getElem_mem hi'))
    have : t' = ts[i] := by
      rw [ht', List.getElem?_eq_getElem hi] at h1'
      exact Option.some.inj h1'
    subst this
    obtain ⟨e, he, _⟩ := hok.parses
    exact ⟨hok.no_nl, hok.no_cr, hok.no_lead, hok.no_exit, hexp _ e he⟩
  refine ⟨_, ts, ?_, hlen, hget, create_markdown_parses env hlang hcfg cfg c0 more ts
    (fun l hl => ⟨hlines l hl, hcr l hl⟩) htsok code h0 h1⟩
  unfold create
  rw [generateTestcase_create m isOther _ _ out code hex, hts]
  rfl

/-- the same for a command given as its text: ANY text (the empty one, one that ends in line feeds); the
command lines read back are the pieces of `split('\n')`, whose `join("\n")` is the text (`joinNl_splitNl`).
What remains is the carriage return that `str::lines()` strips from the end of a line. -/
theorem create_markdown_end_to_end_cmd {P : Grammar.Params} (hP : StdParams P) (m : Esc.Mode) (isOther : Char → Bool)
    (hC : m = .unicode → AsciiContract isOther) (env : Env) (hlang : env.languages = [language])
    (hcfg : ∀ cfg c, cfgInner cfg = some c → env.testCfgOk c = true)
    (hexp : ∀ t e, Grammar.parse P t = .ok e → env.expOk t = true)
    (cfg : ConfigDiff) (cmd : List Char) (hcr : ∀ l ∈ splitNl cmd [], l.getLast? ≠ some '\r')
    (out : List UInt8) (code : Int) (h0 : 0 ≤ code) (h1 : code ≤ 255) :
    ∃ doc ts, create .markdown m isOther cfg cmd out code = some doc ∧
      ts.length = (Newline.splitAtNewline out).length ∧
      (∀ i (h : i < (Newline.splitAtNewline out).length),
        expectationLine m isOther (Newline.splitAtNewline out)[i] = ts[i]?) ∧
      parseMarkdown env doc
        = .ok { docConfigs := []
                tests := [{ title := []
                            command := splitNl cmd []
                            exitCode := if code ≠ 0 then some code.toNat else none
                            expectations := ts
                            lineNumber := 2
                            config := some (cfgInner cfg) }] } := by
  cases hs : splitNl cmd [] with
  | nil => exact absurd hs (splitNl_ne_nil cmd [])
  | cons c0 more =>
    have hnl := splitNl_no_nl cmd [] (by simp)
    rw [hs] at hnl hcr
    have hj := joinNl_splitNl cmd []
    rw [hs, List.nil_append] at hj
    have := create_markdown_end_to_end hP m isOther hC env hlang hcfg hexp cfg c0 more hnl hcr out code h0 h1
    rw [hj] at this
    exact this

end Scrut.GenLemmas
