import ScrutModel.Lemmas.UpdateRunProps
import ScrutModel.Lemmas.GenerateMarkdown
import ScrutModel.Lemmas.FlowBlank
/-!
# The written document, read again by the PARSER: same commands (U3 at the level of `parseMarkdown`)

`Lemmas/UpdateRunProps.lean` (`run_reread`) says what the TOKENS of the written document are: the
code lines of block `k` are the lines of the text of outcome `k`.  Here these lines are read by the
line parser (through the alignment `parseLines_inv`): they start with the command lines of the
original test, so the test parsed from them has the same command.
-/
namespace Scrut.UpdateRun
open Scrut Scrut.TestRun Scrut.Markdown Scrut.Update Scrut.LineParser Scrut.GenLemmas Scrut.EscLemmas

/-! ## the code lines of a block are lines of the document -/

theorem number_mem : ∀ (ls : List Markdown.Line) (k : Nat) (x : Nat × Markdown.Line), x ∈ number k ls → x.2 ∈ ls
  | [], _, x, h => by simp [number] at h
  | l :: r, k, x, h => by
    simp only [number, List.mem_cons] at h
    rcases h with rfl | h
    · simp
    · exact List.mem_cons_of_mem _ (number_mem r (k + 1) x h)

theorem covers_code_mem {L : List Markdown.Line} {i : Nat} {lines : List Markdown.Line} {toks : List Tok}
    (h : Covers L i lines toks) : ∀ b ∈ testBlocks toks, ∀ l ∈ b.2, l ∈ lines := by
  induction h with
  | nil i => intro b hb; simp [testBlocks] at hb
  | line i l rest toks _ _ ih =>
    intro b hb x hx
    exact List.mem_cons_of_mem _ (ih b (by simpa [testBlocks] using hb) x hx)
  | frontClosed i body rest toks _ _ ih =>
    intro b hb x hx
    have := ih b (by simpa [testBlocks] using hb) x hx
    simp [this]
  | frontOpen i body _ => intro b hb; simp [testBlocks] at hb
  | verbClosed i opener bt language config body closer rest toks _ _ _ _ _ ih =>
    intro b hb x hx
    have := ih b (by simpa [testBlocks] using hb) x hx
    simp [this]
  | verbOpen i opener bt language config body _ _ _ => intro b hb; simp [testBlocks] at hb
  | testClosed i opener bt language config body closer rest toks comments code _ _ _ _ hcc _ ih =>
    intro b hb x hx
    simp only [testBlocks] at hb
    split at hb
    · have := ih b hb x hx
      simp [this]
    · rcases List.mem_cons.mp hb with rfl | hb
      · obtain ⟨y, hy, rfl⟩ := List.mem_map.mp hx
        have : y ∈ number (i + 1) body := by rw [← hcc]; simp [hy]
        have := number_mem body _ y this
        simp [this]
      · have := ih b hb x hx
        simp [this]
  | testOpen i opener bt language config body comments code _ _ _ hcc =>
    intro b hb x hx
    simp only [testBlocks] at hb
    split at hb
    · simp at hb
    · rcases List.mem_cons.mp hb with rfl | hb
      · obtain ⟨y, hy, rfl⟩ := List.mem_map.mp hx
        have : y ∈ number (i + 1) body := by rw [← hcc]; simp [hy]
        have := number_mem body _ y this
        simp [this]
      · simp at hb

/-- the code lines of the test blocks of a document are lines of the document -/
theorem docToks_code_mem (content : List Char) :
    ∀ b ∈ testBlocks (docToks content), ∀ l ∈ b.2, l ∈ splitLines content := by
  obtain ⟨toks, ht, hc⟩ := tokenize_covers [Gen.language] (splitLines content)
  rw [tokenize_docToks] at ht
  cases ht
  exact covers_code_mem hc

/-! ## the reading of a block is determined by its lines -/

theorem stripPrefix_contLine (x : Markdown.Line) : stripPrefix ['>', ' '] (contLine x) = some x := by
  simp [contLine, stripPrefix]

theorem conts_unique : ∀ (more more' after after' : List Markdown.Line),
    more.map contLine ++ after = more'.map contLine ++ after' → NotCont after → NotCont after' →
    more = more' ∧ after = after'
  | [], [], _, _, h, _, _ => ⟨rfl, by simpa using h⟩
  | [], y :: ys, after, after', h, ha, _ => by
    exfalso
    simp only [List.map_nil, List.nil_append, List.map_cons, List.cons_append] at h
    subst h
    simp [NotCont, stripPrefix_contLine] at ha
  | x :: xs, [], after, after', h, _, ha' => by
    exfalso
    simp only [List.map_nil, List.nil_append, List.map_cons, List.cons_append] at h
    subst h
    simp [NotCont, stripPrefix_contLine] at ha'
  | x :: xs, y :: ys, after, after', h, ha, ha' => by
    simp only [List.map_cons, List.cons_append, List.cons.injEq] at h
    obtain ⟨h1, h2⟩ := h
    have hxy : x = y := by simpa [contLine] using h1
    obtain ⟨g1, g2⟩ := conts_unique xs ys after after' h2 ha ha'
    exact ⟨by rw [hxy, g1], g2⟩

/-- a block whose lines are `$ c0`, `> more…`, `after` (the first line of `after` no continuation)
is read as the command `c0 :: more`, the expectations and exit code of `after` -/
theorem blockOf_unique {expOk : Markdown.Line → Bool} {cfg : Numbered} {c0 : Markdown.Line} {more after : List Markdown.Line}
    {t : TestCase Cfg} (hn : NotCont after)
    (h : BlockOf expOk cfg (('$' :: ' ' :: c0) :: (more.map contLine ++ after)) t) :
    t.command = c0 :: more ∧ t.expectations = expLines after ∧ t.exitCode = (exitCodes after).head? ∧
    t.config = some (cfgOf cfg) := by
  obtain ⟨c0', more', after', hcode, hn', h1, h2, h3, _, _, h6⟩ := h
  simp only [List.cons.injEq] at hcode
  obtain ⟨⟨_, _, rfl⟩, hrest⟩ := hcode
  obtain ⟨rfl, rfl⟩ := conts_unique more more' after after' hrest hn hn'
  exact ⟨h1, h2, h3, h6⟩

/-! ## the text of an outcome, line by line -/

theorem slotsText_some_pairs (isOther : Char → Bool) (origs : List (List Char)) (lines : List Bytes) :
    ∀ (sl : List Slot) (body : List Char), slotsText .unicode isOther origs lines sl = some body →
      ∃ no, Pairs (fun s o => slotOrig isOther origs lines s = some o) sl no
  | [], _, _ => ⟨[], .nil⟩
  | s :: r, body, h => by
    simp only [slotsText] at h
    cases h1 : slotText .unicode isOther origs lines s with
    | none => simp [h1] at h
    | some a =>
      cases h2 : slotsText .unicode isOther origs lines r with
      | none => simp [h1, h2] at h
      | some b =>
        obtain ⟨no, hno⟩ := slotsText_some_pairs isOther origs lines r b h2
        cases s with
        | kept ei =>
          simp only [slotText] at h1
          cases ho : origs[ei]? with
          | none => simp [ho] at h1
          | some o => exact ⟨o :: no, .cons ho hno⟩
        | gen li =>
          simp only [slotText] at h1
          cases ho : lines[li]?.bind (Gen.expectationLine .unicode isOther) with
          | none => simp [ho] at h1
          | some o => exact ⟨o :: no, .cons ho hno⟩

/-! ## the text of an outcome and the test it is the text of -/

theorem Pairs.functional {α β : Type} {R : α → β → Prop} (hR : ∀ a b b', R a b → R a b' → b = b') :
    ∀ {l : List α} {r r' : List β}, Pairs R l r → Pairs R l r' → r = r'
  | _, _, _, .nil, .nil => rfl
  | _, _, _, .cons h1 h2, .cons g1 g2 => by rw [hR _ _ _ h1 g1, Pairs.functional hR h2 g2]

theorem Pairs.congr_left {α β : Type} {R S : α → β → Prop} :
    ∀ {l : List α} {r : List β}, (∀ a ∈ l, ∀ b, R a b → S a b) → Pairs R l r → Pairs S l r
  | _, _, _, .nil => .nil
  | _, _, h, .cons h1 h2 => .cons (h _ (by simp) _ h1) (Pairs.congr_left (fun a ha b hab => h a (by simp [ha]) b hab) h2)

/-- the text of an outcome and `outcome_rejudged`, about the SAME list of written lines: the text of an
outcome is the command, then the lines `newOrigs` and `[code]` placed as for a passing test (`withExitCode true`:
`[code]` in front iff the first line starts with `> ` -- a generated first line never does); and (test compiled from its texts, no
quantified expectation if the result is `MalformedOutput`) the test with these lines as expectations
passes on the same run -/
theorem outcome_full {isOther : Char → Bool} (hC : AsciiContract isOther) {u : UTest} {r : Ran}
    {res : Gen.UpdResult} {g : List Char} (h : outcomeText isOther u r = .ok (res, some g)) :
    ∃ (ex : List Char) (newOrigs : List (List Char)), Gen.expression u.cmd = some ex ∧
      g = ex ++ Gen.withExitCode true (newOrigs.flatMap Gen.assureNewlineC) r.code ∧
      (∀ o ∈ newOrigs, o ∈ u.origs ∨ ∃ l, Newline.IsLine l ∧ Gen.expectationLine .unicode isOther l = some o) ∧
      (u.Compiled → ((∃ d, res = .malformed d) → Unquantified u) →
        ∃ newExps, Pairs (fun o e => compile o = .ok e) newOrigs newExps ∧
          Passes ⟨⟨u.test.cfg, newExps, writtenExpected r.code⟩, u.cmd, newOrigs⟩ r) := by
  obtain ⟨recorded, text, hrec, hj, htext, hgen⟩ := outcomeText_ok h
  simp only at hj htext hgen
  cases htext
  generalize hls : Newline.splitAtNewline (validateStream u.test.cfg recorded) = lines at *
  have core : ∀ (sl : List Slot) (body : List Char)
      (hbody : slotsText .unicode isOther u.origs lines sl = some body)
      (ex : List Char) (hex : Gen.expression u.cmd = some ex)
      (hg : g = ex ++ Gen.withExitCode (headKept sl) body r.code)
      (hpass : u.Compiled → ((∃ d, res = .malformed d) → Unquantified u) →
        ∃ (origs : List (List Char)) (exps : List CExp) (tbl : List (List Bool)),
          Pairs (fun o e => compile o = .ok e) origs exps ∧
          (∀ e ∈ exps, e.optional = false ∧ e.multiline = false) ∧ matrix exps lines = some tbl ∧
          SlotsSpec (cell tbl) lines.length sl ∧
          ∀ s ∈ sl, slotOrig isOther origs lines s = slotOrig isOther u.origs lines s),
      ∃ (ex : List Char) (newOrigs : List (List Char)), Gen.expression u.cmd = some ex ∧
        g = ex ++ Gen.withExitCode true (newOrigs.flatMap Gen.assureNewlineC) r.code ∧
        (∀ o ∈ newOrigs, o ∈ u.origs ∨ ∃ l, Newline.IsLine l ∧ Gen.expectationLine .unicode isOther l = some o) ∧
        (u.Compiled → ((∃ d, res = .malformed d) → Unquantified u) →
          ∃ newExps, Pairs (fun o e => compile o = .ok e) newOrigs newExps ∧
            Passes ⟨⟨u.test.cfg, newExps, writtenExpected r.code⟩, u.cmd, newOrigs⟩ r) := by
    intro sl body hbody ex hex hg hpass
    rw [withExitCode_headKept_true grammarParams_std .unicode isOther (fun _ => hC) u.origs lines
      (by rw [← hls]; exact Newline.splitAtNewline_isLine _) sl body r.code hbody] at hg
    obtain ⟨no, hno⟩ := slotsText_some_pairs isOther _ _ sl body hbody
    have hb := slotsText_of_pairs hC u.origs _ sl no hno
    rw [hbody] at hb
    cases hb
    refine ⟨ex, no, hex, hg, ?_, ?_⟩
    · intro o ho
      obtain ⟨k, hk, rfl⟩ := List.getElem_of_mem ho
      obtain ⟨s, _, hs⟩ := hno.get' k _ (List.getElem?_eq_getElem hk)
      cases s with
      | kept ei => exact Or.inl (List.mem_of_getElem? hs)
      | gen li =>
        right
        simp only [slotOrig] at hs
        cases hl : lines[li]? with
        | none => simp [hl] at hs
        | some l =>
          simp only [hl, Option.bind_some] at hs
          exact ⟨l, by rw [← hls] at hl; exact Newline.splitAtNewline_isLine _ l (List.mem_of_getElem? hl), hs⟩
    · intro hcomp hq
      obtain ⟨origs, exps, tbl, hcomp', hq', hm, hspec, hsame⟩ := hpass hcomp hq
      subst hls
      obtain ⟨newOrigs, newExps, p1, p2, _, d', hd', hnd⟩ :=
        written_list_passes hC origs exps hcomp' hq' _ tbl hm sl hspec
      -- the same lines
      have p1' : Pairs (fun s o => slotOrig isOther u.origs (Newline.splitAtNewline (validateStream u.test.cfg recorded)) s = some o) sl newOrigs :=
        Pairs.congr_left (fun s hs o ho => by rw [← hsame s hs]; exact ho) p1
      have : newOrigs = no := Pairs.functional (fun a b b' h1 h2 => by rw [h1] at h2; exact Option.some.inj h2) p1' hno
      subst this
      refine ⟨newExps, p2, recorded, hrec, ?_⟩
      simp only [judge, writtenExpected_getD, ne_eq, not_true_eq_false, if_false, hd', Option.map_some,
        Gen.updResult, hnd, Bool.false_eq_true]
  have hex' : ∃ ex, Gen.expression u.cmd = some ex := by
    cases hex : Gen.expression u.cmd with
    | none => simp [Gen.generateTestcaseUpd, hex] at hgen
    | some ex => exact ⟨ex, rfl⟩
  obtain ⟨ex, hex⟩ := hex'
  unfold Gen.generateTestcaseUpd at hgen
  simp only [hex] at hgen
  cases res with
  | ok =>
    simp only at hgen
    cases hgen
    refine ⟨ex, u.origs, hex, rfl, fun o ho => Or.inl ho, ?_⟩
    intro hcomp _
    -- the test passes as it is: same expectations, the exit code as written
    refine ⟨u.test.exps, hcomp, recorded, hrec, ?_⟩
    have hcode := judge_ok_code hj
    unfold judge at hj ⊢
    simp only [writtenExpected_getD, ne_eq, not_true_eq_false, if_false]
    rw [if_neg (by rw [hcode]; simp)] at hj
    cases hd : diffOf u.test.exps (validateStream u.test.cfg recorded) with
    | none => simp [hd] at hj
    | some d =>
      simp only [hd, Option.map_some, Option.some.injEq] at hj ⊢
      unfold Gen.updResult at hj ⊢
      rw [if_neg (by rw [hcode]; simp)] at hj
      simp only [ne_eq]
      split at hj
      · cases hj
      · rename_i hh; simp [hh, writtenExpected_getD]
  | invalidExit actual =>
    simp only at hgen
    have hact : actual = r.code := by
      unfold judge at hj
      split at hj
      · cases hj; rfl
      · cases hd : diffOf u.test.exps (validateStream u.test.cfg recorded) with
        | none => simp [hd] at hj
        | some d =>
          simp only [hd, Option.map_some, Option.some.injEq] at hj
          unfold Gen.updResult at hj
          split at hj
          · cases hj; rfl
          · split at hj <;> cases hj
    subst hact
    have hlines : genLines u.test.cfg recorded (.invalidExit r.code) = lines := hls
    rw [hlines] at hgen
    cases he : Gen.expectationLines .unicode isOther lines with
    | none => simp [he] at hgen
    | some e =>
      simp only [he, Option.map_some, Option.some.injEq] at hgen
      have hgen' : g = ex ++ Gen.withExitCode (headKept ((Diff.rangeFrom 0 lines.length).map .gen)) e r.code := by
        rw [headKept_gen, withExitCode_false, ← List.append_assoc]; exact hgen.symm
      refine core ((Diff.rangeFrom 0 lines.length).map .gen) e ?_ ex hex hgen' ?_
      · rw [slotsText_gen, linesAt_all]
        exact he
      · intro _ _
        refine ⟨[], [], [], .nil, by simp, by simp [matrix], ⟨by simp [Diff.rangeFrom], ?_⟩, ?_⟩
        · intro k hk
          right
          simp only [List.getElem_map]
          rw [rangeFrom_zero_get]
        · intro s hs
          obtain ⟨i, _, rfl⟩ := List.mem_map.mp hs
          rfl
  | malformed d =>
    simp only at hgen
    have hlines : genLines u.test.cfg recorded (.malformed d) = lines := hls
    rw [hlines, diffBody_eq_slots, firstKept_slots] at hgen
    cases hb : slotsText .unicode isOther u.origs lines (slots d) with
    | none => simp [hb] at hgen
    | some body =>
      simp only [hb, Option.map_some, Option.some.injEq] at hgen
      refine core (slots d) body hb ex hex hgen.symm ?_
      intro hcomp hq
      have hu := hq ⟨d, rfl⟩
      unfold judge at hj
      split at hj
      · cases hj
      · unfold diffOf at hj
        rw [hls] at hj
        cases hm : matrix u.test.exps lines with
        | none => simp [hm] at hj
        | some tbl =>
          simp only [hm, Option.map_some, Option.some.injEq] at hj
          unfold Gen.updResult at hj
          split at hj
          · cases hj
          · split at hj
            · cases hj
              exact ⟨u.origs, u.test.exps, tbl, hcomp, hu, hm, slots_spec _ _ _ _ (quant_multiline hu), fun _ _ => rfl⟩
            · cases hj

/-! ## one block of the written document, read by the line parser -/

theorem joinNl_eq : ∀ (ls : List (List Char)), LineParser.joinNl ls = Gen.joinNl ls
  | [] => rfl
  | [_] => rfl
  | l :: l' :: r => by
    show l ++ '\n' :: LineParser.joinNl (l' :: r) = l ++ '\n' :: Gen.joinNl (l' :: r)
    rw [joinNl_eq (l' :: r)]

theorem exitLines_clean (code : Int) : ∀ l ∈ exitLines code, Update.Clean l := by
  intro l hl
  unfold exitLines at hl
  split at hl
  · have : l = ['['] ++ Gen.showInt code ++ [']'] := by simpa using hl
    subst this
    refine ⟨?_, ?_⟩
    rotate_left
    · have : (['['] ++ Gen.showInt code ++ [']']).getLast? = some ']' := by
        rw [List.getLast?_append]; rfl
      rw [this]; decide
    have hd : ∀ n, '\n' ∉ Nat.toDigits 10 n := digits_clean
    unfold Gen.showInt
    split
    · simp [hd]
    · simp [hd]
  · simp at hl

theorem exitLines_notCont (code : Int) : NotCont (exitLines code) := by
  unfold exitLines
  split
  · simp [NotCont, stripPrefix]
  · trivial

/-- the line `[code]` -/
def exitLine (code : Int) : Markdown.Line := ['['] ++ Gen.showInt code ++ [']']

/-- the lines `generate_testcase` writes behind the command lines for the expectation texts `newOrigs` and the
exit code (fix cfef990): `[code]` first if the first text starts with `> `, else last and only if not 0 -/
def afterLines (newOrigs : List Markdown.Line) (code : Int) : List Markdown.Line :=
  if contHead newOrigs then exitLine code :: newOrigs else newOrigs ++ exitLines code

theorem exitLine_clean (code : Int) : Update.Clean (exitLine code) := by
  unfold exitLine
  refine ⟨?_, ?_⟩
  rotate_left
  · have : (['['] ++ Gen.showInt code ++ [']']).getLast? = some ']' := by
      rw [List.getLast?_append]; rfl
    rw [this]; decide
  have hd : ∀ n, '\n' ∉ Nat.toDigits 10 n := digits_clean
  unfold Gen.showInt
  split
  · simp [hd]
  · simp [hd]

theorem stripPrefix_none_of_take2 (o : Markdown.Line) (h : (o.take 2 == ['>', ' ']) = false) :
    stripPrefix ['>', ' '] o = none := by
  match o, h with
  | [], _ => rfl
  | [c], _ => by_cases hc : '>' = c <;> simp [stripPrefix, hc]
  | a :: b :: r, h =>
    have h' : ¬ (a = '>' ∧ b = ' ') := by simpa using h
    by_cases ha : '>' = a
    · by_cases hb : ' ' = b
      · exact absurd ⟨ha.symm, hb.symm⟩ h'
      · simp [stripPrefix, hb]
    · simp [stripPrefix, ha]

/-- **the line directly behind the command lines never continues the command** (this is what the fix is for) -/
theorem afterLines_notCont (newOrigs : List Markdown.Line) (code : Int) : NotCont (afterLines newOrigs code) := by
  unfold afterLines
  cases hc : contHead newOrigs with
  | true => simp [NotCont, exitLine, stripPrefix]
  | false =>
    cases newOrigs with
    | nil => simpa using exitLines_notCont code
    | cons o rest =>
      have : (o.take 2 == ['>', ' ']) = false := hc
      simpa [NotCont] using stripPrefix_none_of_take2 o this

theorem afterLines_clean (newOrigs : List Markdown.Line) (code : Int) (h : ∀ o ∈ newOrigs, Update.Clean o) :
    ∀ l ∈ afterLines newOrigs code, Update.Clean l := by
  intro l hl
  unfold afterLines at hl
  split at hl
  · rcases List.mem_cons.mp hl with rfl | hl
    · exact exitLine_clean code
    · exact h l hl
  · rcases List.mem_append.mp hl with hl | hl
    · exact h l hl
    · exact exitLines_clean code l hl

/-- the text behind the command lines is the text of `afterLines` -/
theorem withExitCode_unlines (newOrigs : List Markdown.Line) (code : Int) (h : ∀ o ∈ newOrigs, '\n' ∉ o) :
    Gen.withExitCode true (newOrigs.flatMap Gen.assureNewlineC) code = Update.unlines (afterLines newOrigs code) := by
  have hflat : ∀ (l : List (List Char)), (∀ o ∈ l, '\n' ∉ o) → l.flatMap Gen.assureNewlineC = Update.unlines l := by
    intro l
    induction l with
    | nil => intro _; rfl
    | cons o r ih =>
      intro h
      rw [List.flatMap_cons, Update.unlines_cons, assureNewlineC_plain o (h o (by simp)), ih (fun x hx => h x (by simp [hx]))]
      simp
  rw [withExitCode_contHead, hflat newOrigs h]
  unfold afterLines
  split
  · simp [Update.unlines, Gen.exitCodeLine, exitLine]
  · rw [exitCodeOpt_unlines, Update.unlines_append]

theorem mem_expLines {after : List Markdown.Line} {o : Markdown.Line} (h : o ∈ expLines after) : o ∈ after :=
  (List.mem_filter.mp h).1

/-- the text of an outcome, as the lines the tokenizer reads back: the original block reads as test `t` (prepared
as `u`), `g` is the text of its outcome.  The lines of `g` are the command lines of `t` as written, then
`afterLines newOrigs code` for the written expectation texts `newOrigs`, none of which reads as an exit code. -/
theorem outcome_block_lines {isOther : Char → Bool} (hC : AsciiContract isOther) {expOk : Markdown.Line → Bool}
    {cfg : Numbered} {code : List Markdown.Line} {t : TestCase Cfg} {u : UTest} {r : Ran}
    {res : Gen.UpdResult} {g : List Char}
    (hb : BlockOf expOk cfg code t) (hclean : ∀ l ∈ code, Update.Clean l)
    (hu : prepareU t = .ok u)
    (ho : outcomeText isOther u r = .ok (res, some g)) :
    ∃ (ex : List Char) (newOrigs : List (List Char)) (c0 : Markdown.Line) (more : List Markdown.Line),
      Gen.expression u.cmd = some ex ∧
      g = ex ++ Gen.withExitCode true (newOrigs.flatMap Gen.assureNewlineC) r.code ∧
      (u.Compiled → ((∃ d, res = .malformed d) → Unquantified u) →
        ∃ newExps, Pairs (fun o e => compile o = .ok e) newOrigs newExps ∧
          Passes ⟨⟨u.test.cfg, newExps, writtenExpected r.code⟩, u.cmd, newOrigs⟩ r) ∧
      t.command = c0 :: more ∧
      splitLines g = (('$' :: ' ' :: c0) :: more.map contLine) ++ afterLines newOrigs r.code ∧
      (∀ o ∈ newOrigs, isExitCodeForm o = false) := by
  obtain ⟨c0, more, after, hcode, _, h1, h2, _, _, hform, _⟩ := hb
  obtain ⟨_, hucmd, huorigs, _⟩ := prepareU_compiled hu
  obtain ⟨ex, newOrigs, hex, hg, hno, hpass⟩ := outcome_full hC ho
  -- the command lines
  have hc0 : Update.Clean c0 := by
    have := hclean ('$' :: ' ' :: c0) (by rw [hcode]; simp)
    refine ⟨fun h => this.1 (by simp [h]), ?_⟩
    intro h
    apply this.2
    cases c0 with
    | nil => simp at h
    | cons a b => simpa using h
  have hmore : ∀ x ∈ more, Update.Clean x := by
    intro x hx
    have := hclean (contLine x) (by rw [hcode]; exact List.mem_cons_of_mem _ (List.mem_append_left _ (List.mem_map_of_mem hx)))
    refine ⟨fun h => this.1 (by simp [contLine, h]), ?_⟩
    intro h
    apply this.2
    cases x with
    | nil => simp at h
    | cons a b => simpa [contLine] using h
  have hafter : ∀ x ∈ after, Update.Clean x := fun x hx => hclean x (by rw [hcode]; simp [hx])
  have hlines : ∀ l ∈ c0 :: more, '\n' ∉ l := by
    intro l hl
    rcases List.mem_cons.mp hl with rfl | hl
    · exact hc0.1
    · exact (hmore l hl).1
  have hexl := expression_lines c0 more hlines
  rw [← joinNl_eq, ← h1, show LineParser.joinNl t.command = t.shellExpression from rfl, ← hucmd, hex] at hexl
  have hex' : ex = Update.unlines (('$' :: ' ' :: c0) :: more.map contLine) := Option.some.inj hexl
  -- the expectation lines written
  have horig : ∀ o ∈ newOrigs, Update.Clean o := by
    intro o ho'
    rcases hno o ho' with hin | ⟨l, hl, hgen⟩
    · rw [huorigs] at hin
      exact hafter o (mem_expLines (by rw [← h2]; exact hin))
    · obtain ⟨t0, ht0, hok⟩ := line_ok grammarParams_std .unicode isOther (fun _ => hC) hl
      rw [hgen] at ht0
      cases ht0
      exact ⟨hok.no_nl, hok.no_cr⟩
  have hgl : g = Update.unlines ((('$' :: ' ' :: c0) :: more.map contLine) ++ afterLines newOrigs r.code) := by
    rw [hg, hex', withExitCode_unlines newOrigs r.code (fun o ho' => (horig o ho').1), Update.unlines_append]
  have hsplit : splitLines g = (('$' :: ' ' :: c0) :: more.map contLine) ++ afterLines newOrigs r.code := by
    rw [hgl]
    apply Update.splitLines_unlines
    intro l hl
    simp only [List.cons_append, List.mem_cons, List.mem_append, List.mem_map] at hl
    rcases hl with rfl | ⟨x, hx, rfl⟩ | hl
    · exact hclean _ (by rw [hcode]; simp)
    · exact hclean _ (by rw [hcode]; exact List.mem_cons_of_mem _ (List.mem_append_left _ (List.mem_map_of_mem hx)))
    · exact afterLines_clean newOrigs r.code horig l hl
  refine ⟨ex, newOrigs, c0, more, hex, hg, hpass, h1, hsplit, ?_⟩
  intro o ho'
  rcases hno o ho' with hin | ⟨l, hl, hgen⟩
  · rw [huorigs, h2] at hin
    exact (hform o hin).2
  · obtain ⟨t0, ht0, hok⟩ := line_ok grammarParams_std .unicode isOther (fun _ => hC) hl
    rw [hgen] at ht0
    cases ht0
    exact hok.no_exit

/-- **one block read again**: the original block reads as test `t` (prepared as `u`), `g` is the text
of its outcome, and the lines of `g` read as test `t'`.  Then `t'` has the command of `t` -- whatever the
command (also one that ends in an empty continuation line) and whatever the expectation lines (also one that
starts with `> `) --; its expectations and exit code are those of the lines `afterLines newOrigs code` written
behind the command. -/
theorem reparse_block {isOther : Char → Bool} (hC : AsciiContract isOther) {expOk : Markdown.Line → Bool}
    {cfg cfg' : Numbered} {code : List Markdown.Line} {t t' : TestCase Cfg} {u : UTest} {r : Ran}
    {res : Gen.UpdResult} {g : List Char}
    (hb : BlockOf expOk cfg code t) (hclean : ∀ l ∈ code, Update.Clean l)
    (hu : prepareU t = .ok u)
    (ho : outcomeText isOther u r = .ok (res, some g))
    (hb' : BlockOf expOk cfg' (splitLines g) t') :
    ∃ (ex : List Char) (newOrigs : List (List Char)),
      Gen.expression u.cmd = some ex ∧
      g = ex ++ Gen.withExitCode true (newOrigs.flatMap Gen.assureNewlineC) r.code ∧
      (u.Compiled → ((∃ d, res = .malformed d) → Unquantified u) →
        ∃ newExps, Pairs (fun o e => compile o = .ok e) newOrigs newExps ∧
          Passes ⟨⟨u.test.cfg, newExps, writtenExpected r.code⟩, u.cmd, newOrigs⟩ r) ∧
      t'.command = t.command ∧ t'.expectations = expLines (afterLines newOrigs r.code) ∧
      t'.exitCode = (exitCodes (afterLines newOrigs r.code)).head? ∧ t'.config = some (cfgOf cfg') ∧
      (∀ o ∈ newOrigs, isExitCodeForm o = false) := by
  obtain ⟨ex, newOrigs, c0, more, hex, hg, hpass, h1, hsplit, hnoexit⟩ := outcome_block_lines hC hb hclean hu ho
  have hnot : NotCont (afterLines newOrigs r.code) := afterLines_notCont newOrigs r.code
  rw [hsplit] at hb'
  have hb'' : BlockOf expOk cfg' (('$' :: ' ' :: c0) :: (more.map contLine ++ afterLines newOrigs r.code)) t' := by
    simpa [List.append_assoc] using hb'
  obtain ⟨g1, g2, g3, g4⟩ := blockOf_unique hnot hb''
  exact ⟨ex, newOrigs, hex, hg, hpass, by rw [g1, h1], g2, g3, g4, hnoexit⟩

/-! ## the document -/

theorem BlocksReread.get {gens : List (Option (List Char))} :
    ∀ {k : Nat} {bs bs' : List (Numbered × List Markdown.Line)}, BlocksReread gens k bs bs' →
      ∀ (j : Nat) (b' : Numbered × List Markdown.Line), bs'[j]? = some b' →
        ∃ b g, bs[j]? = some b ∧ gens[k + j]? = some (some g) ∧ b'.2 = splitLines g ∧
          configSuffix b'.1 = configSuffix b.1
  | _, _, _, .nil _, j, b', h => by simp at h
  | _, _, _, .cons k b b0 bs bs' g h1 h2 h3 h4, 0, b', h => by
    simp at h; subst h
    exact ⟨b, g, rfl, by simpa using h1, h2, h3⟩
  | _, _, _, .cons k b b0 bs bs' g h1 h2 h3 h4, j + 1, b', h => by
    obtain ⟨b1, g1, e1, e2, e3, e4⟩ := h4.get j b' (by simpa using h)
    exact ⟨b1, g1, by simpa using e1, by rw [← e2]; congr 1; omega, e3, e4⟩

/-- everything that belongs to test `j` of the written document: the original test `t`, its
prepared form `u`, its run `r`, its outcome `(res, g)`, and the two blocks -/
structure Aligned (isOther : Char → Bool) (content : List Char) (runs : List Ran) (results : List Gen.UpdResult)
    (p : Parsed) (j : Nat) (t' : TestCase Cfg) (t : TestCase Cfg) (u : UTest) (r : Ran) (res : Gen.UpdResult)
    (g : List Char) (b b' : Numbered × List Markdown.Line) : Prop where
  test : p.tests[j]? = some t
  prepared : prepareU t = .ok u
  run : runs[j]? = some r
  outcome : outcomeText isOther u r = .ok (res, some g)
  result : results[j]? = some res
  block : BlockOf parseEnv.expOk b.1 b.2 t
  clean : ∀ l ∈ b.2, Update.Clean l
  block' : BlockOf parseEnv.expOk b'.1 (splitLines g) t'
  config : configSuffix b'.1 = configSuffix b.1
  /-- the configuration text read back is the one `update` wrote: the original without leading white space -/
  configRead : b'.1.map (·.2) = writtenCfg b.1
  blockMem : b ∈ testBlocks (docToks content)

theorem run_aligned {isOther : Char → Bool} {content : List Char} {runs : List Ran}
    {text : List Char} {results : List Gen.UpdResult}
    (h : updateDocument isOther content runs = .updated text results)
    (hcr : NoStrayCR content) (hf : FrontClosed content)
    {p p' : Parsed} (hp : parseMarkdown parseEnv content = .ok p) (hp' : parseMarkdown parseEnv text = .ok p') :
    p'.tests.length = p.tests.length ∧ p'.docConfigs = p.docConfigs ∧
    ∀ (j : Nat) (t' : TestCase Cfg), p'.tests[j]? = some t' →
      ∃ t u r res g b b', Aligned isOther content runs results p j t' t u r res g b b' := by
  obtain ⟨gens, hg, hrr, hcw⟩ := run_reread_cfg h hcr hf
  obtain ⟨hbr, hfront⟩ := reread_blocks hrr
  have hbc := reread_blocks_cfg hrr hcw
  obtain ⟨tests, ht⟩ := docTests_of_result isOther content runs (Or.inr ⟨text, results, h⟩)
  obtain ⟨p0, hp0, _, hprep⟩ := docTests_spec ht
  rw [hp] at hp0
  cases hp0
  rw [updateDocument_of_docTests isOther content runs tests ht] at h
  obtain ⟨_, hlen, _, os, hj, hres, _, _⟩ := updateTests_updated h
  have hgens : gens = os.map (·.2) := by
    simp only [docGens, docOutcomes, ht, hj, Option.map_some, Option.some.injEq] at hg
    exact hg.symm
  obtain ⟨hd, hb⟩ := parseLines_inv parseEnv (splitLines content) p hp
  obtain ⟨hd', hb'⟩ := parseLines_inv parseEnv (splitLines text) p' hp'
  have hb : Pairs (fun b tc => BlockOf parseEnv.expOk b.1 b.2 tc) (testBlocks (docToks content)) p.tests := hb
  have hb' : Pairs (fun b tc => BlockOf parseEnv.expOk b.1 b.2 tc) (testBlocks (docToks text)) p'.tests := hb'
  refine ⟨?_, ?_, ?_⟩
  · rw [← hb'.length_eq, ← hb.length_eq]; exact hbr.length_eq
  · rw [hd', hd]; exact hfront
  · intro j t' ht'
    obtain ⟨b', hbj', hblk'⟩ := hb'.get' j t' ht'
    obtain ⟨b, g, hbj, hgj, hcode', hcfg⟩ := hbr.get j b' hbj'
    obtain ⟨t, htj, hblk⟩ := hb.get j b hbj
    obtain ⟨u, huj, hprepj⟩ := hprep.get j t htj
    rw [Nat.zero_add, hgens, List.getElem?_map] at hgj
    cases hoj : os[j]? with
    | none => simp [hoj] at hgj
    | some o =>
      simp only [hoj, Option.map_some, Option.some.injEq] at hgj
      obtain ⟨u', r, hu', hr, hot⟩ := judgeAll_get isOther tests runs os hj j o hoj
      rw [huj] at hu'
      cases hu'
      have ho : o = (o.1, some g) := by rw [← hgj]
      have hcr' : b'.1.map (·.2) = writtenCfg b.1 := by
        have := congrArg (fun l => l[j]?) hbc
        simpa only [List.getElem?_map, hbj, hbj', Option.map_some, Option.some.injEq] using this
      refine ⟨t, u, r, o.1, g, b, b', htj, hprepj, hr, by rw [← ho]; exact hot, ?_, hblk, ?_, ?_, hcfg, hcr', List.mem_of_getElem? hbj⟩
      · rw [hres, List.getElem?_map, hoj]; rfl
      · intro l hl
        have hm := docToks_code_mem content b (List.mem_of_getElem? hbj) l hl
        exact ⟨splitLines_no_nl content l hm, hcr l hm⟩
      · rw [← hcode']; exact hblk'

/-- **U3 at the level of the parser**: if the written document parses, it parses to the same
commands (hence the same shell expressions), test by test -/
theorem run_same_commands_parsed {isOther : Char → Bool} (hC : AsciiContract isOther) {content : List Char}
    {runs : List Ran} {text : List Char} {results : List Gen.UpdResult}
    (h : updateDocument isOther content runs = .updated text results)
    (hcr : NoStrayCR content) (hf : FrontClosed content)
    {p p' : Parsed} (hp : parseMarkdown parseEnv content = .ok p) (hp' : parseMarkdown parseEnv text = .ok p') :
    p'.tests.map (·.command) = p.tests.map (·.command) := by
  obtain ⟨hlen, _, hall⟩ := run_aligned h hcr hf hp hp'
  apply List.ext_getElem?
  intro j
  rw [List.getElem?_map, List.getElem?_map]
  cases ht' : p'.tests[j]? with
  | none =>
    have : p.tests[j]? = none := by
      rw [List.getElem?_eq_none_iff] at ht' ⊢
      omega
    rw [this]
  | some t' =>
    obtain ⟨t, u, r, res, g, b, b', ha⟩ := hall j t' ht'
    obtain ⟨_, _, _, _, _, hc, _⟩ := reparse_block hC ha.block ha.clean ha.prepared ha.outcome ha.block'
    rw [ha.test]
    simp [hc]


/-! ## idempotence, given that the written document is read with the same configurations -/

theorem expLines_written (ts : List Markdown.Line) (hts : ∀ t ∈ ts, extractExitCode t = none) (code : Int)
    (h0 : 0 ≤ code) (h1 : code ≤ 255) : expLines (ts ++ exitLines code) = ts := by
  have h : ts.filter (fun a => (extractExitCode a).isNone) = ts := by
    rw [List.filter_eq_self]
    intro t ht
    simp [hts t ht]
  unfold expLines exitLines
  rw [List.filter_append, h]
  split
  · simp [exitLine_exit code h0 h1]
  · simp

theorem exitCodes_written (ts : List Markdown.Line) (hts : ∀ t ∈ ts, extractExitCode t = none) (code : Int)
    (h0 : 0 ≤ code) (h1 : code ≤ 255) :
    exitCodes (ts ++ exitLines code) = if code ≠ 0 then [code.toNat] else [] := by
  have h : ts.filterMap extractExitCode = [] := by
    rw [List.filterMap_eq_nil_iff]
    exact hts
  unfold exitCodes exitLines
  rw [List.filterMap_append, h]
  split
  · simp [exitLine_exit code h0 h1]
  · simp

theorem exitLine_exit' (code : Int) (h0 : 0 ≤ code) (h1 : code ≤ 255) :
    extractExitCode (exitLine code) = some code.toNat := by
  have := exitLine_exit code h0 h1
  simpa [exitLine] using this

/-- the expectation lines read back from the lines behind the command are the texts written -/
theorem expLines_afterLines (ts : List Markdown.Line) (hts : ∀ t ∈ ts, extractExitCode t = none) (code : Int)
    (h0 : 0 ≤ code) (h1 : code ≤ 255) : expLines (afterLines ts code) = ts := by
  unfold afterLines
  split
  · rw [expLines_cons_some _ (exitLine_exit' code h0 h1)]
    have := expLines_written ts hts 0 (by decide) (by decide)
    simpa [exitLines] using this
  · exact expLines_written ts hts code h0 h1

/-- the exit code read back: `[code]` in front is read also for 0 -/
theorem exitCodes_afterLines (ts : List Markdown.Line) (hts : ∀ t ∈ ts, extractExitCode t = none) (code : Int)
    (h0 : 0 ≤ code) (h1 : code ≤ 255) :
    exitCodes (afterLines ts code) = if contHead ts ∨ code ≠ 0 then [code.toNat] else [] := by
  unfold afterLines
  cases hc : contHead ts with
  | true =>
    simp only [if_true, true_or]
    rw [exitCodes_cons_some _ (exitLine_exit' code h0 h1)]
    have := exitCodes_written ts hts 0 (by decide) (by decide)
    simp only [exitLines, ne_eq, not_true_eq_false, if_false, List.append_nil] at this
    rw [this]
  | false =>
    simp only [Bool.false_eq_true, if_false, false_or]
    exact exitCodes_written ts hts code h0 h1

/-- the exit-code gate and the verdict read the expected exit code through `unwrap_or(0)` only -/
theorem judge_expected_congr (c : Yaml.Cfg) (x : List CExp) (e e' : Option Int) (h : e.getD 0 = e'.getD 0)
    (recorded : Bytes × Bytes) (code : Int) :
    judge ⟨c, x, e⟩ recorded code = judge ⟨c, x, e'⟩ recorded code := by
  simp only [judge, Gen.updResult, h]

/-- guard of U4 (`C10:not-idempotent-retained-quantified-expectations`): a test whose result is
`MalformedOutput` -- the one case in which expectations are retained next to new ones -- has no
quantified expectation -/
def QuantFree (content : List Char) (results : List Gen.UpdResult) : Prop :=
  ∀ tests, docTests content = some tests → ∀ (j : Nat) (u : UTest) (d : List Diff.DL),
    tests[j]? = some u → results[j]? = some (.malformed d) → Unquantified u

/-- intermediate statement of U4: the written document is read (it parses, its expectation lines compile) with
the same test configurations as the original, test by test.  Formerly an undischarged hypothesis; proved in
`Lemmas/UpdateRunConfig.lean` (`sameConfigs_of_guard`) and `Lemmas/UpdateRunParses.lean` (`written_parses`);
until fix 15b47d2 under the guard `CfgBlankLed` only (`UpdateRunWitness`, W5) -/
def SameConfigs (content text : List Char) : Prop :=
  ∃ tests tests', docTests content = some tests ∧ docTests text = some tests' ∧
    tests'.map (·.test.cfg) = tests.map (·.test.cfg)

/-- **U4**: the second update with the same runs changes nothing -/
theorem run_idempotent_readback {isOther : Char → Bool} (hC : AsciiContract isOther) {content : List Char}
    {runs : List Ran} {text : List Char} {results : List Gen.UpdResult}
    (h : updateDocument isOther content runs = .updated text results)
    (hcr : NoStrayCR content) (hf : FrontClosed content)
    {p : Parsed} (hp : parseMarkdown parseEnv content = .ok p)
    (hcodes : ∀ r ∈ runs, 0 ≤ r.code ∧ r.code ≤ 255)
    (hq : QuantFree content results) (hsc : SameConfigs content text) :
    ∃ rs, updateDocument isOther text runs = .unchanged rs := by
  obtain ⟨tests, tests', ht, ht', hcfgs⟩ := hsc
  obtain ⟨p', hp', _, hprep'⟩ := docTests_spec ht'
  obtain ⟨p0, hp0, _, hprep⟩ := docTests_spec ht
  rw [hp] at hp0
  cases hp0
  obtain ⟨hlen, _, hall⟩ := run_aligned h hcr hf hp hp'
  have h' := h
  rw [updateDocument_of_docTests isOther content runs tests ht] at h'
  obtain ⟨_, hrl, _, os, hj, _, _, _⟩ := updateTests_updated h'
  have hol := judgeAll_length isOther tests runs os hj hrl
  have hgens : docGens isOther content runs = some (os.map (·.2)) := by simp [docGens, docOutcomes, ht, hj]
  have hcount : tests'.length = tests.length := by
    rw [← hprep'.length_eq, ← hprep.length_eq]; exact hlen
  -- every test of the written document passes, and its text is the text written
  have key : ∀ (j : Nat) (u' : UTest), tests'[j]? = some u' →
      ∃ r g, runs[j]? = some r ∧ (os.map (·.2))[j]? = some (some g) ∧ Passes u' r ∧ passText u' = some g := by
    intro j u' hu'
    obtain ⟨t', ht'j, hprep'j⟩ := hprep'.get' j u' hu'
    obtain ⟨t, u, r, res, g, b, b', ha⟩ := hall j t' ht'j
    obtain ⟨ex, newOrigs, hex, hg, hpass, c1, c2, c3, _, c5⟩ :=
      reparse_block hC ha.block ha.clean ha.prepared ha.outcome ha.block'
    obtain ⟨hcode0, hcode1⟩ := hcodes r (List.mem_of_getElem? ha.run)
    rw [expLines_afterLines newOrigs (fun o h => extractExitCode_of_not_form (c5 o h)) r.code hcode0 hcode1] at c2
    rw [exitCodes_afterLines newOrigs (fun o h => extractExitCode_of_not_form (c5 o h)) r.code hcode0 hcode1] at c3
    -- the original test
    obtain ⟨uu, huu, hpu⟩ := hprep.get j t ha.test
    rw [ha.prepared] at hpu
    cases hpu
    have hcomp : u.Compiled := (prepareU_compiled ha.prepared).1
    have hquant : (∃ d, res = .malformed d) → Unquantified u := by
      rintro ⟨d, rfl⟩
      exact hq tests ht j u d huu ha.result
    obtain ⟨newExps, hne, hps⟩ := hpass hcomp hquant
    -- the test read from the written document is that test
    obtain ⟨hcomp', hcmd', horigs', hexp'⟩ := prepareU_compiled hprep'j
    have e1 : u'.cmd = u.cmd := by
      rw [hcmd', (prepareU_compiled ha.prepared).2.1]
      show LineParser.joinNl t'.command = LineParser.joinNl t.command
      rw [c1]
    have e2 : u'.origs = newOrigs := by rw [horigs', c2]
    -- the exit code read back is the one of the run (`[0]` in front is read as 0, no line as none)
    have e3 : u'.test.expected.getD 0 = r.code := by
      rw [hexp', c3]
      split
      · simp only [List.head?_cons, Option.map_some, Option.getD_some]
        exact Int.toNat_of_nonneg hcode0
      · rename_i hn
        have : r.code = 0 := by
          have := (not_or.mp hn).2
          exact Decidable.of_not_not this
        simp [this]
    have e4 : u'.test.cfg = u.test.cfg := by
      have h1 : (tests'.map (·.test.cfg))[j]? = some u'.test.cfg := by rw [List.getElem?_map, hu']; rfl
      have h2 : (tests.map (·.test.cfg))[j]? = some u.test.cfg := by rw [List.getElem?_map, huu]; rfl
      rw [hcfgs, h2] at h1
      exact (Option.some.inj h1).symm
    have e5 : u'.test.exps = newExps := by
      unfold UTest.Compiled at hcomp'
      rw [e2] at hcomp'
      exact Pairs.functional (fun a b b' h1 h2 => by rw [h1] at h2; cases h2; rfl) hcomp' hne
    have hu'eq : u' = ⟨⟨u.test.cfg, newExps, u'.test.expected⟩, u.cmd, newOrigs⟩ := by
      obtain ⟨⟨c, e, x⟩, cm, og⟩ := u'
      simp only at e1 e2 e4 e5
      subst e1 e2 e4 e5
      rfl
    have hps' : Passes u' r := by
      obtain ⟨recorded, hrec, hjd⟩ := hps
      rw [hu'eq]
      refine ⟨recorded, hrec, ?_⟩
      rw [← hjd]
      exact judge_expected_congr _ _ _ _ (by rw [e3, writtenExpected_getD]) _ _
    refine ⟨r, g, ha.run, ?_, hps', ?_⟩
    · have hjlt : j < os.length := by
        rw [hol]; exact (List.getElem?_eq_some_iff.mp huu).1
      obtain ⟨u2, r2, hu2, hr2, hot⟩ := judgeAll_get isOther tests runs os hj j os[j] (List.getElem?_eq_getElem hjlt)
      rw [huu] at hu2
      rw [ha.run] at hr2
      cases hu2
      cases hr2
      rw [ha.outcome] at hot
      have hoj : os[j] = (res, some g) := (Except.ok.inj hot).symm
      rw [List.getElem?_map, List.getElem?_eq_getElem hjlt, Option.map_some, hoj]
    · rw [hu'eq]
      simp only [passText, Gen.generateTestcaseUpd, hex, e3, hg]
  -- so the second run generates the same texts
  apply run_idempotent_of_same_texts h hcr hf
  rw [hgens]
  obtain ⟨os', hj', h2, _⟩ := judgeAll_passes isOther tests' runs (by omega)
    (fun i u' r hu' hr => by
      obtain ⟨r', g, hr', _, hps, _⟩ := key i u' hu'
      rw [hr] at hr'
      cases hr'
      exact hps)
    (fun u' hu' => by
      obtain ⟨i, hi, rfl⟩ := List.getElem_of_mem hu'
      obtain ⟨_, g, _, _, _, hpt⟩ := key i _ (List.getElem?_eq_getElem hi)
      simp [hpt])
  simp only [docGens, docOutcomes, ht', hj', Option.map_some, Option.some.injEq]
  rw [h2]
  apply List.ext_getElem?
  intro i
  rw [List.getElem?_map]
  cases hi : tests'[i]? with
  | none =>
    have : (os.map (·.2))[i]? = none := by
      rw [List.getElem?_eq_none_iff] at hi ⊢
      simp only [List.length_map]
      omega
    rw [this]; rfl
  | some u' =>
    obtain ⟨_, g, _, hgi, _, hpt⟩ := key i u' hi
    rw [hgi, Option.map_some, hpt]

end Scrut.UpdateRun
