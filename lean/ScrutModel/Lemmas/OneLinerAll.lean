import ScrutModel.Lemmas.OneLiner
/-! The remaining pieces of the general one-liner theorem: integers, plain names/paths,
`wait` in both forms, `environment`. -/
namespace Scrut.Yaml
open Scrut.Dur

/-! ## (1) integers -/

theorem digitList_facts : ∀ c ∈ digitList, isDigit c = true ∧ isBlank c = false ∧ c ≠ '-' ∧ c ≠ '+' := by
  decide

theorem lastOk_of_all (p : List Char) (hne : p ≠ []) (h : ∀ c ∈ p, isBlank c = false) : lastOk p = true := by
  unfold lastOk
  cases hr : p.reverse with
  | nil => simp at hr; exact absurd hr hne
  | cons l r =>
    have : l ∈ p := by
      have : l ∈ p.reverse := by rw [hr]; simp
      simpa using this
    simp [h l this]

theorem digitsVal_aux : ∀ (fuel n : Nat) (acc : List Char), n < fuel →
    (digitsAux fuel n acc).foldl (fun a c => a * 10 + digitVal c) 0 =
      acc.foldl (fun a c => a * 10 + digitVal c) n := by
  intro fuel
  induction fuel with
  | zero => intro n _ h; omega
  | succ f ih =>
    intro n acc hlt
    have hk : n % 10 < 10 := Nat.mod_lt _ (by decide)
    have hv := (digit_facts (n % 10) hk).2
    simp only [digitsAux]
    split
    · rename_i h0
      simp only [List.foldl_cons, hv, Nat.zero_mul, Nat.zero_add]
      have : n % 10 = n := by omega
      rw [this]
    · rename_i h0
      rw [ih (n / 10) _ (by omega)]
      simp only [List.foldl_cons, hv]
      have : n / 10 * 10 + n % 10 = n := by omega
      rw [this]

theorem digitsVal_natDigits (n : Nat) : digitsVal (natDigits n) = n := by
  have := digitsVal_aux (n + 1) n [] (by omega)
  simpa [digitsVal, natDigits] using this

theorem allDigits_natDigits (n : Nat) : allDigits (natDigits n) = true := by
  have hne := natDigits_ne n
  simp only [allDigits, Bool.and_eq_true, Bool.not_eq_true', List.all_eq_true]
  refine ⟨?_, fun c hc => (digitList_facts c (natDigits_mem n c hc)).1⟩
  cases h : natDigits n with
  | nil => exact absurd h hne
  | cons _ _ => rfl

theorem lead_nonzero : ∀ (fuel n : Nat) (acc : List Char), n < fuel → 0 < n →
    ∃ k r, digitsAux fuel n acc = Char.ofNat (48 + k) :: r ∧ 0 < k ∧ k < 10 := by
  intro fuel
  induction fuel with
  | zero => intro n _ h; omega
  | succ f ih =>
    intro n acc hlt hpos
    simp only [digitsAux]
    split
    · exact ⟨n % 10, acc, rfl, by omega, Nat.mod_lt _ (by decide)⟩
    · exact ih (n / 10) _ (by omega) (by omega)

theorem nonzero_digit_ne : ∀ k, k < 10 → 0 < k → Char.ofNat (48 + k) ≠ '0' := by decide

/-- no leading zero: `digits_but_not_number` never fires on a rendered natural number -/
theorem natDigits_zero_head (m : Nat) (r : List Char) (h : natDigits m = '0' :: r) : r = [] := by
  by_cases hm : m = 0
  · subst hm
    have : natDigits 0 = ['0'] := rfl
    rw [this] at h
    simp only [List.cons.injEq, true_and] at h
    exact h.symm
  · obtain ⟨k, r', hk, h0, h10⟩ := lead_nonzero (m + 1) m [] (by omega) (by omega)
    unfold natDigits at h
    rw [hk] at h
    simp only [List.cons.injEq] at h
    exact absurd h.1 (nonzero_digit_ne k h10 h0)

theorem stripSign_other (c : Char) (r : List Char) (h1 : c ≠ '-') (h2 : c ≠ '+') : stripSign (c :: r) = c :: r := by
  unfold stripSign
  split
  · rename_i heq; simp only [List.cons.injEq] at heq; exact absurd heq.1 h1
  · rename_i heq; simp only [List.cons.injEq] at heq; exact absurd heq.1 h2
  · rfl

theorem lzn_natDigits (m : Nat) : leadingZeroNumber (natDigits m) = false := by
  unfold leadingZeroNumber
  split
  · rename_i r heq
    have := natDigits_zero_head m r heq
    simp [this]
  · rfl

theorem dbnn_natDigits (m : Nat) : digitsButNotNumber (natDigits m) = false := by
  obtain ⟨c, r, hcr, hc⟩ := natDigits_head m
  have hf := digitList_facts c hc
  unfold digitsButNotNumber
  rw [hcr, stripSign_other c r hf.2.2.1 hf.2.2.2, ← hcr]
  exact lzn_natDigits m

theorem intOfText_nat (n : Nat) : intOfText (natDigits n) = some (Int.ofNat n) := by
  obtain ⟨c, r, hcr, hc⟩ := natDigits_head n
  have hf := digitList_facts c hc
  have hall := allDigits_natDigits n
  have hval := digitsVal_natDigits n
  unfold intOfText
  rw [dbnn_natDigits]
  simp only [Bool.false_eq_true, if_false]
  rw [hcr] at hall hval ⊢
  split
  · rename_i heq; simp only [List.cons.injEq] at heq; exact absurd heq.1 hf.2.2.1
  · rename_i heq; simp only [List.cons.injEq] at heq; exact absurd heq.1 hf.2.2.2
  · simp [hall, hval]

theorem intOfText_intDigits (i : Int) : intOfText (intDigits i) = some i := by
  cases i with
  | ofNat n => exact intOfText_nat n
  | negSucc n =>
    have hall := allDigits_natDigits (n + 1)
    have hval := digitsVal_natDigits (n + 1)
    have hd : digitsButNotNumber ('-' :: natDigits (n + 1)) = false := lzn_natDigits (n + 1)
    simp only [intDigits, intOfText, hd, Bool.false_eq_true, if_false, hall, if_true, hval]
    rfl

theorem intDigits_tok (i : Int) : Tok (intDigits i) = true := by
  have hallowed : ∀ n, ∀ c ∈ natDigits n, tokChar c = true := fun n c hc =>
    allowed_tok c (by simp only [List.mem_append]; exact Or.inl (Or.inl (natDigits_mem n c hc)))
  have hlast : ∀ n, lastOk (natDigits n) = true := fun n =>
    lastOk_of_all _ (natDigits_ne n) (fun c hc => (digitList_facts c (natDigits_mem n c hc)).2.1)
  cases i with
  | ofNat n =>
    simp only [intDigits, Tok, Bool.and_eq_true, List.all_eq_true]
    exact ⟨⟨hallowed n, startOk_digit (natDigits_head n)⟩, hlast n⟩
  | negSucc n =>
    obtain ⟨c, r, hcr, hc⟩ := natDigits_head (n + 1)
    have hf := digitList_facts c hc
    simp only [intDigits, Tok, Bool.and_eq_true, List.all_eq_true]
    refine ⟨⟨?_, ?_⟩, ?_⟩
    · intro x hx
      simp only [List.mem_cons] at hx
      rcases hx with rfl | hx
      · decide
      · exact hallowed _ x hx
    · rw [hcr]; simp [startOk, hf.2.1]
    · have := lastOk_append ['-'] (natDigits (n + 1)) (natDigits_ne _)
      simp only [List.singleton_append] at this
      rw [this]; exact hlast _

/-! ## (2) plain names and paths -/

theorem char_le_iff (a b : Char) : a ≤ b ↔ a.toNat ≤ b.toNat := by
  simp only [Char.le_def, Char.toNat, UInt32.le_iff_toNat_le]

def isNameCode (n : Nat) : Bool :=
  (48 ≤ n && n ≤ 57) || (65 ≤ n && n ≤ 90) || (97 ≤ n && n ≤ 122) || n == 95 || n == 46 || n == 47 || n == 45

def isHeadCode (n : Nat) : Bool := (65 ≤ n && n ≤ 90) || (97 ≤ n && n ≤ 122) || n == 95 || n == 47

def nameChars : List Char := ((List.range 128).filter isNameCode).map Char.ofNat
def headChars : List Char := ((List.range 128).filter isHeadCode).map Char.ofNat

theorem mem_codes_of (P : Nat → Bool) (c : Char) (hlt : c.toNat < 128) (hp : P c.toNat = true) :
    c ∈ ((List.range 128).filter P).map Char.ofNat := by
  simp only [List.mem_map, List.mem_filter, List.mem_range]
  exact ⟨c.toNat, ⟨hlt, hp⟩, char_ofNat_toNat c⟩

theorem lit_toNat : 'a'.toNat = 97 ∧ 'z'.toNat = 122 ∧ 'A'.toNat = 65 ∧ 'Z'.toNat = 90 ∧ '0'.toNat = 48 ∧
    '9'.toNat = 57 ∧ '_'.toNat = 95 ∧ '.'.toNat = 46 ∧ '/'.toNat = 47 ∧ '-'.toNat = 45 := by decide

theorem nameChar_mem (c : Char) (h : isNameChar c = true) : c ∈ nameChars := by
  simp only [isNameChar, isAsciiAlnum, isAsciiAlpha, Bool.or_eq_true, Bool.and_eq_true, decide_eq_true_eq,
    beq_iff_eq, char_le_iff] at h
  obtain ⟨la, lz, lA, lZ, l0, l9, lu, ld, ls, lm⟩ := lit_toNat
  rw [la, lz, lA, lZ, l0, l9] at h
  have key : c.toNat < 128 ∧ isNameCode c.toNat = true := by
    simp only [isNameCode, Bool.or_eq_true, Bool.and_eq_true, decide_eq_true_eq, beq_iff_eq]
    rcases h with ((((h | h) | h) | h) | h) | h
    · rcases h with h | h <;> (constructor <;> omega)
    · constructor <;> omega
    · subst h; rw [lu]; constructor <;> omega
    · subst h; rw [ld]; constructor <;> omega
    · subst h; rw [ls]; constructor <;> omega
    · subst h; rw [lm]; constructor <;> omega
  exact mem_codes_of isNameCode c key.1 key.2

theorem headChar_mem (c : Char) (h : (isAsciiAlpha c || c == '_' || c == '/') = true) : c ∈ headChars := by
  simp only [isAsciiAlpha, Bool.or_eq_true, Bool.and_eq_true, decide_eq_true_eq, beq_iff_eq, char_le_iff] at h
  obtain ⟨la, lz, lA, lZ, _, _, lu, _, ls, _⟩ := lit_toNat
  rw [la, lz, lA, lZ] at h
  have key : c.toNat < 128 ∧ isHeadCode c.toNat = true := by
    simp only [isHeadCode, Bool.or_eq_true, Bool.and_eq_true, decide_eq_true_eq, beq_iff_eq]
    rcases h with (h | h) | h
    · rcases h with h | h <;> (constructor <;> omega)
    · subst h; rw [lu]; constructor <;> omega
    · subst h; rw [ls]; constructor <;> omega
  exact mem_codes_of isHeadCode c key.1 key.2

theorem nameChars_tok : nameChars.all (fun c => tokChar c && !isBlank c) = true := by rfl

theorem headChars_start : headChars.all (fun c => !(c = '-') && !isBlank c && !isIndicator c) = true := by rfl

theorem null_not_safe (p : List Char) (h : isNullText p = true) : isPlainSafe p = false := by
  simp only [isNullText, Bool.or_eq_true, decide_eq_true_eq] at h
  rcases h with (((h | h) | h) | h) | h <;> subst h <;> rfl

theorem plainSafe_facts (p : List Char) (h : isPlainSafe p = true) : Tok p = true ∧ isNullText p = false := by
  constructor
  · simp only [isPlainSafe, Bool.and_eq_true] at h
    obtain ⟨⟨hhead, hall⟩, _⟩ := h
    rw [List.all_eq_true] at hall
    have hname : ∀ c ∈ p, tokChar c = true ∧ isBlank c = false := by
      intro c hc
      have := List.all_eq_true.mp nameChars_tok c (nameChar_mem c (hall c hc))
      simpa using this
    cases p with
    | nil => simp at hhead
    | cons c r =>
      simp only at hhead
      have hs := List.all_eq_true.mp headChars_start c (headChar_mem c hhead)
      simp only [Bool.and_eq_true, Bool.not_eq_true', decide_eq_false_iff_not] at hs
      simp only [Tok, Bool.and_eq_true, List.all_eq_true]
      refine ⟨⟨fun x hx => (hname x hx).1, ?_⟩, lastOk_of_all _ (by simp) (fun x hx => (hname x hx).2)⟩
      simp [startOk, hs.1.1, hs.1.2, hs.2]
  · cases hn : isNullText p with
    | false => rfl
    | true => rw [null_not_safe p hn] at h; cases h

theorem plainOrQuoted_good (p : List Char) : GoodS (plainOrQuoted p) = true := by
  unfold plainOrQuoted
  split
  · rename_i h; exact (plainSafe_facts p h).1
  · rfl

theorem plainOrQuoted_text (p : List Char) : (plainOrQuoted p).text = p := by
  unfold plainOrQuoted
  split <;> rfl

/-! ## (3) a formatted duration is a string for `deserialize_any` -/

def unitHeads : List Char := ['y', 'm', 'd', 'h', 's', 'u', 'n']

theorem unitHeads_facts : ∀ L ∈ unitHeads, isDigit L = false ∧ L ≠ '.' ∧ L ≠ 'e' ∧ L ≠ 'E' := by decide

theorem text_head (u : FU) (v : Nat) : ∃ L t, u.text v = L :: t ∧ L ∈ unitHeads := by
  cases u <;> exact ⟨_, _, rfl, by decide⟩

/-- digits, then the first letter of a unit, then anything -/
def DurShape (t : List Char) : Prop :=
  ∃ ds L rest, t = ds ++ L :: rest ∧ ds ≠ [] ∧ (∀ c ∈ ds, c ∈ digitList) ∧ L ∈ unitHeads

theorem renderItems_shape : ∀ (l : List (Nat × FU)), renderItems false l ≠ [] → DurShape (renderItems false l) := by
  intro l
  induction l with
  | nil => intro h; simp [renderItems] at h
  | cons it r ih =>
    intro hne
    obtain ⟨v, u⟩ := it
    simp only [renderItems] at hne ⊢
    split
    · rename_i hz; simp only [hz, if_true] at hne; exact ih hne
    · obtain ⟨L, t, ht, hL⟩ := text_head u v
      refine ⟨natDigits v, L, t ++ renderItems true r, ?_, natDigits_ne v, natDigits_mem v, hL⟩
      simp [ht]

theorem durText_shape (d : Nat × Nat) (h : WFd d) : DurShape (durText d) := by
  have hne := (durText_ne d h).1
  unfold durText formatDuration at hne ⊢
  split
  · exact ⟨['0'], 's', [], rfl, by simp, by decide, by decide⟩
  · rename_i h0
    simp only [h0, if_false] at hne
    exact renderItems_shape _ hne

theorem takeDigits_shape : ∀ (ds : List Char) (L : Char) (rest : List Char),
    (∀ c ∈ ds, isDigit c = true) → isDigit L = false → takeDigits (ds ++ L :: rest) = (ds, L :: rest) := by
  intro ds
  induction ds with
  | nil => intro L rest _ hL; simp [takeDigits, hL]
  | cons c ds ih =>
    intro L rest h hL
    have hc := h c (by simp)
    simp [takeDigits, hc, ih L rest (fun x hx => h x (by simp [hx])) hL]

theorem null_bool_not_duration (t : List Char) (o : Out) (h : parseDuration t = .ok o) :
    isNullText t = false ∧ boolOfText t = none := by
  constructor
  · cases hn : isNullText t with
    | false => rfl
    | true =>
      simp only [isNullText, Bool.or_eq_true, decide_eq_true_eq] at hn
      rcases hn with (((hn | hn) | hn) | hn) | hn <;> subst hn <;>
        (have : ∀ x, parseDuration x = .error .err → parseDuration x = .ok o → False := by
           intro x h1 h2; rw [h1] at h2; cases h2
         exact absurd h (fun h' => this _ rfl h'))
  · unfold boolOfText
    have hx : ∀ x, parseDuration x = .error .err → t ≠ x := by
      intro x h1 h2; rw [h2, h1] at h; cases h
    have h1 := hx ['t', 'r', 'u', 'e'] rfl
    have h2 := hx ['T', 'r', 'u', 'e'] rfl
    have h3 := hx ['T', 'R', 'U', 'E'] rfl
    have h4 := hx ['f', 'a', 'l', 's', 'e'] rfl
    have h5 := hx ['F', 'a', 'l', 's', 'e'] rfl
    have h6 := hx ['F', 'A', 'L', 'S', 'E'] rfl
    simp [h1, h2, h3, h4, h5, h6]

theorem shape_not_number (t : List Char) (h : DurShape t) : intOfText t = none ∧ floatLike t = false := by
  obtain ⟨ds, L, rest, rfl, hne, hds, hL⟩ := h
  obtain ⟨hLd, hLdot, hLe, hLE⟩ := unitHeads_facts L hL
  cases ds with
  | nil => exact absurd rfl hne
  | cons c ds =>
    have hc := digitList_facts c (hds c (by simp))
    have hdig : ∀ x ∈ c :: ds, isDigit x = true := fun x hx => (digitList_facts x (hds x hx)).1
    have hstrip : stripSign (c :: ds ++ L :: rest) = c :: ds ++ L :: rest :=
      stripSign_other c _ hc.2.2.1 hc.2.2.2
    have hnd : allDigits (c :: ds ++ L :: rest) = false := by
      simp only [allDigits, Bool.and_eq_false_iff]
      right
      rw [List.all_eq_false]
      exact ⟨L, by simp, by simp [hLd]⟩
    have hcdot : c ≠ '.' := by
      intro h; subst h; simp [isDigit] at hc
    constructor
    · unfold intOfText
      split
      · rfl
      · simp only [List.cons_append]
        split
        · rename_i heq; simp only [List.cons.injEq] at heq; exact absurd heq.1 hc.2.2.1
        · rename_i heq; simp only [List.cons.injEq] at heq; exact absurd heq.1 hc.2.2.2
        · simp only [List.cons_append] at hnd; simp [hnd]
    · unfold floatLike
      simp only [hstrip]
      have htd := takeDigits_shape (c :: ds) L rest hdig hLd
      simp only [List.cons_append] at htd ⊢
      simp [htd, hcdot, hLdot, hLe, hLE]

theorem durText_isString (d : Nat × Nat) (h : WFd d) : plainIsString (durText d) = true := by
  have ⟨h1, h2⟩ := null_bool_not_duration _ _ (durText_parse d h)
  have ⟨h3, h4⟩ := shape_not_number _ (durText_shape d h)
  simp [plainIsString, h1, h2, h3, h4]

/-! ## (4) `skip_document_code`, `wait`, `environment`, and the assembly -/

theorem int_facts (i : Int) (hr : -2147483648 ≤ i ∧ i ≤ 2147483647) (c0 : Cfg) :
    GoodV (.sc (.plain (intDigits i))) = true ∧
    setField .sk (.sc (.plain (intDigits i))) c0 = .ok { c0 with skipCode := some i } := by
  refine ⟨intDigits_tok i, ?_⟩
  have hn : isNullText (intDigits i) = false := by
    cases hn : isNullText (intDigits i) with
    | false => rfl
    | true =>
      have hi := intOfText_intDigits i
      simp only [isNullText, Bool.or_eq_true, decide_eq_true_eq] at hn
      rcases hn with (((hn | hn) | hn) | hn) | hn <;> rw [hn] at hi <;> cases hi
  simp [setField, optI32, hn, intOfText_intDigits, hr, bind, Except.bind, pure, Except.pure]

theorem kTimeout_good : GoodS (.plain kTimeout) = true ∧ utf8Len (Scalar.plain kTimeout).render ≤ 1024 :=
  ⟨rfl, by decide⟩
theorem kPath_good : GoodS (.plain kPath) = true ∧ utf8Len (Scalar.plain kPath).render ≤ 1024 :=
  ⟨rfl, by decide⟩

theorem wait_good (w : Wait) (h : WFd w.timeout) : GoodV (waitVal w) = true := by
  unfold waitVal
  split
  · have hd : GoodS (.plain (durText w.timeout)) = true := durText_tok _ h
    simp only [GoodV, List.all_cons, List.all_nil, GoodKS, kTimeout_good.1, kPath_good.1, hd,
      plainOrQuoted_good, Bool.and_true, Bool.true_and, Bool.and_eq_true, decide_eq_true_eq]
    exact ⟨kTimeout_good.2, kPath_good.2⟩
  · exact durText_tok _ h

theorem wait_set (w : Wait) (h : WFd w.timeout) (c0 : Cfg) :
    setField .wt (waitVal w) c0 = .ok { c0 with wait := some w } := by
  obtain ⟨d, p⟩ := w
  have hp := durText_parse d h
  have hdur : durOf (durText d) = .ok d := by
    simp [durOf, hp, bind, Except.bind, pure, Except.pure]
  cases p with
  | none =>
    have hs := durText_isString d h
    simp [setField, waitVal, optWait, hs, hdur, bind, Except.bind, pure, Except.pure]
  | some p =>
    have hlook : ∀ sc : Scalar,
        lookupAll kTimeout [(Scalar.plain kTimeout, Scalar.plain (durText d)), (Scalar.plain kPath, sc)]
          = [Scalar.plain (durText d)] ∧
        lookupAll kPath [(Scalar.plain kTimeout, Scalar.plain (durText d)), (Scalar.plain kPath, sc)] = [sc] := by
      intro sc
      constructor <;> simp [lookupAll, Scalar.text, kTimeout, kPath]
    by_cases hsafe : isPlainSafe p = true
    · have hq : plainOrQuoted p = .plain p := by simp [plainOrQuoted, hsafe]
      have hn := (plainSafe_facts p hsafe).2
      simp only [setField, waitVal, hq, optWait, (hlook (.plain p)).1, (hlook (.plain p)).2, Scalar.text, hdur,
        bind, Except.bind, pure, Except.pure, hn, Bool.false_eq_true, if_false]
    · have hq : plainOrQuoted p = .quoted p := by simp [plainOrQuoted, hsafe]
      simp only [setField, waitVal, hq, optWait, (hlook (.quoted p)).1, (hlook (.quoted p)).2, Scalar.text, hdur,
        bind, Except.bind, pure, Except.pure]

theorem goodS_quoted (s : List Char) : GoodS (.quoted s) = true := rfl
theorem text_quoted (s : List Char) : (Scalar.quoted s).text = s := rfl

/-- every environment name renders to a key of at most 1024 bytes -/
def namesFit (e : List (List Char × List Char)) : Bool :=
  e.all fun kv => decide (utf8Len (plainOrQuoted kv.1).render ≤ 1024)

theorem env_good (e : List (List Char × List Char)) (h : namesFit e = true) : GoodV (envVal e) = true := by
  simp only [envVal, GoodV, List.all_map, List.all_eq_true]
  intro kv hkv
  have := List.all_eq_true.mp h kv hkv
  simp only [decide_eq_true_eq] at this
  simp only [Function.comp, GoodKS, plainOrQuoted_good, goodS_quoted, Bool.and_true, Bool.true_and, decide_eq_true_eq]
  exact this

theorem env_texts (e : List (List Char × List Char)) :
    ((e.map fun kv => (plainOrQuoted kv.1, Scalar.quoted kv.2)).map fun kv => (kv.1.text, kv.2.text)) = e := by
  induction e with
  | nil => rfl
  | cons kv r ih =>
    simp only [List.map_cons, plainOrQuoted_text, text_quoted] at ih ⊢
    rw [ih]

theorem env_set (e : List (List Char × List Char)) (c0 : Cfg) :
    setField .env (envVal e) c0 = .ok { c0 with env := e } := by
  have h1 : envOf (envVal e) =
      .ok ((e.map fun kv => (plainOrQuoted kv.1, Scalar.quoted kv.2)).map fun kv => (kv.1.text, kv.2.text)) := rfl
  rw [env_texts] at h1
  simp only [setField, h1, bind, Except.bind, pure, Except.pure]

def wfd (d : Nat × Nat) : Bool := decide (d.1 ≤ U64MAX) && decide (d.2 < NS)

theorem wfd_iff (d : Nat × Nat) : wfd d = true ↔ WFd d := by
  simp [wfd, WFd]

/-- **the guard of C17**: durations are `Duration`s (`secs < 2^64`, `nanos < 10^9`), the skip code
is an `i32`, and every environment name renders to at most 1024 bytes (YAML's simple-key limit) -/
def renderable (c : Cfg) : Bool :=
  (match c.timeout with | some d => wfd d | none => true) &&
  (match c.wait with | some w => wfd w.timeout | none => true) &&
  (match c.skipCode with | some i => decide (-2147483648 ≤ i ∧ i ≤ 2147483647) | none => true) &&
  namesFit c.env

theorem envEntry_all (e : List (List Char × List Char)) (h : namesFit e = true) :
    (if e.isEmpty then [] else [(Scalar.plain Field.env.name, envVal e)] : Ast).all GoodKV = true := by
  split
  · rfl
  · have := name_tok .env
    simp only [List.all_cons, List.all_nil, GoodKV, this.1, env_good e h, Bool.and_true, Bool.true_and,
      decide_eq_true_eq]
    exact this.2

theorem envEntry_keys (e : List (List Char × List Char)) :
    knownKeys (if e.isEmpty then [] else [(Scalar.plain Field.env.name, envVal e)] : Ast) =
      if e.isEmpty then [] else [.env] := by
  split <;> simp [knownKeys, Scalar.text, fieldOf_name]

theorem envEntry_interp (e : List (List Char × List Char)) (c0 : Cfg) (h0 : c0.env = []) :
    interpGo (if e.isEmpty then [] else [(Scalar.plain Field.env.name, envVal e)] : Ast) c0 =
      .ok { c0 with env := e } := by
  split
  · rename_i he
    have : e = [] := by simpa using he
    subst this
    simp only [interpGo, pure, Except.pure]
    congr
    obtain ⟨_, _, _, _, _, _, _, env⟩ := c0
    simp only at h0
    subst h0
    rfl
  · simp [interpGo, Scalar.text, fieldOf_name, env_set, bind, Except.bind, pure, Except.pure]

theorem one_liner_all (c : Cfg) (h : renderable c = true) : parseFlow (toOneLiner c) = .ok c := by
  obtain ⟨os, kc, to, de, sk, sa, wt, env⟩ := c
  simp only [renderable, Bool.and_eq_true] at h
  obtain ⟨⟨⟨hto, hwt⟩, hsk⟩, henv⟩ := h
  have hto' : ∀ d, to = some d → WFd d := by
    intro d hd; subst hd; exact (wfd_iff d).mp hto
  have hwt' : ∀ w, wt = some w → WFd w.timeout := by
    intro w hw; subst hw; exact (wfd_iff _).mp hwt
  have hsk' : ∀ i, sk = some i → -2147483648 ≤ i ∧ i ≤ 2147483647 := by
    intro i hi; subst hi; simpa using hsk
  apply parseFlow_render
  · simp only [toAst]
    apply all_optEntry _ _ _ _ (fun s _ => (stream_facts s {}).1)
    apply all_optEntry _ _ _ _ (fun b _ => bool_good b)
    apply all_optEntry _ _ _ _ (fun d hd' => dur_good d (hto' d hd'))
    apply all_optEntry _ _ _ _ (fun b _ => bool_good b)
    apply all_optEntry _ _ _ _ (fun i hi => (int_facts i (hsk' i hi) {}).1)
    apply all_optEntry _ _ _ _ (fun b _ => bool_good b)
    apply all_optEntry _ _ _ _ (fun w hw => wait_good w (hwt' w hw))
    exact envEntry_all env henv
  · have hk : nodupB (knownKeys (toAst ⟨os, kc, to, de, sk, sa, wt, env⟩)) = true := by
      simp only [toAst, knownKeys_optEntry, envEntry_keys]
      cases os <;> cases kc <;> cases to <;> cases de <;> cases sk <;> cases sa <;> cases wt <;>
        cases env <;> rfl
    unfold interp
    rw [hk]
    simp only [if_true, toAst]
    rw [interpGo_optEntry os .os _ _ {} (fun o => { outputStream := o })
          (fun s _ => (stream_facts s {}).2) rfl,
        interpGo_optEntry kc .kc _ _ _ (fun o => { outputStream := os, keepCrlf := o })
          (fun b _ => by simp [setField, bool_opt, bind, Except.bind, pure, Except.pure]) rfl,
        interpGo_optEntry to .to _ _ _ (fun o => { outputStream := os, keepCrlf := kc, timeout := o })
          (fun d hd' => dur_set d (hto' d hd') _) rfl,
        interpGo_optEntry de .de _ _ _ (fun o => { outputStream := os, keepCrlf := kc, timeout := to, detached := o })
          (fun b _ => by simp [setField, bool_opt, bind, Except.bind, pure, Except.pure]) rfl,
        interpGo_optEntry sk .sk _ _ _
          (fun o => { outputStream := os, keepCrlf := kc, timeout := to, detached := de, skipCode := o })
          (fun i hi => (int_facts i (hsk' i hi) _).2) rfl,
        interpGo_optEntry sa .sa _ _ _
          (fun o => { outputStream := os, keepCrlf := kc, timeout := to, detached := de, skipCode := sk, stripAnsi := o })
          (fun b _ => by simp [setField, bool_opt, bind, Except.bind, pure, Except.pure]) rfl,
        interpGo_optEntry wt .wt _ _ _
          (fun o => { outputStream := os, keepCrlf := kc, timeout := to, detached := de, skipCode := sk, stripAnsi := sa, wait := o })
          (fun w hw => wait_set w (hwt' w hw) _) rfl,
        envEntry_interp env _ rfl]

end Scrut.Yaml
