import ScrutModel.Lemmas.DiffWF

namespace Scrut.Diff

/-! C01: no differences ⇒ the lines can be assigned to the expectations. -/

/-- expectation index of every line covered by a matched entry, in order -/
def assignOf : List DL → List Nat
  | [] => []
  | .matched i ls :: d => ls.map (fun _ => i) ++ assignOf d
  | _ :: d => assignOf d

def allMatched (d : List DL) : Prop := ∀ x ∈ d, ∃ i ls, x = .matched i ls

theorem hasDiff_false_iff (d : List DL) : hasDiff d = false ↔ allMatched d := by
  unfold hasDiff allMatched
  constructor
  · intro h x hx
    have := (List.any_eq_false.1 h) x hx
    cases x with
    | matched i ls => exact ⟨i, ls, rfl⟩
    | unmatched i => simp at this
    | unexpected ls => simp at this
  · intro h
    apply List.any_eq_false.2
    intro x hx
    obtain ⟨i, ls, rfl⟩ := h x hx
    simp

@[simp] theorem idxOf_cons_m (i ls d) : idxOf (DL.matched i ls :: d) = i :: idxOf d := by simp [idxOf, DL.idx]
@[simp] theorem idxOf_cons_u (i d) : idxOf (DL.unmatched i :: d) = i :: idxOf d := by simp [idxOf, DL.idx]
@[simp] theorem idxOf_cons_x (ls d) : idxOf (DL.unexpected ls :: d) = idxOf d := by simp [idxOf, DL.idx]
@[simp] theorem linesOf_cons_m (i ls d) : linesOf (DL.matched i ls :: d) = ls ++ linesOf d := by simp [linesOf, DL.lines]
@[simp] theorem assignOf_cons_m (i ls d) : assignOf (DL.matched i ls :: d) = List.replicate ls.length i ++ assignOf d := by
  simp [assignOf, List.map_const']
@[simp] theorem assignOf_cons_u (i d) : assignOf (DL.unmatched i :: d) = assignOf d := rfl
@[simp] theorem assignOf_cons_x (ls d) : assignOf (DL.unexpected ls :: d) = assignOf d := rfl
@[simp] theorem assignOf_nil : assignOf [] = [] := rfl

variable (n m : Nat) (es : Nat → Exp) (mt : Nat → Nat → Bool)

/-- An assignment of the `m` lines to expectations: `a[j]` is the expectation line `j` goes to. -/
structure Assignment (a : List Nat) : Prop where
  total : a.length = m                                   -- every line is assigned: no gaps
  inOrder : a.Pairwise (· ≤ ·)                           -- in order
  inRange : ∀ i ∈ a, i < n
  isMatch : ∀ j (h : j < a.length), mt a[j] j = true     -- every line matches its expectation
  atLeast : ∀ i, i < n → (es i).optional = false → i ∈ a            -- no `?`/`*` ⇒ at least one line
  atMost : ∀ i, i < n → (es i).multiline = false → a.count i ≤ 1    -- no `*`/`+` ⇒ at most one line

theorem assignOf_length (d : List DL) (h : allMatched d) : (assignOf d).length = (linesOf d).length := by
  induction d with
  | nil => rfl
  | cons x d ih =>
    obtain ⟨i, ls, rfl⟩ := h _ (List.mem_cons_self)
    have := ih (fun y hy => h y (List.mem_cons_of_mem _ hy))
    simp [this]

theorem mem_assignOf (d : List DL) (i : Nat) : i ∈ assignOf d → i ∈ idxOf d := by
  induction d with
  | nil => simp
  | cons x d ih =>
    cases x with
    | matched k ls =>
      intro h; simp at h ⊢
      rcases h with ⟨_, h⟩ | h
      · left; exact h
      · right; exact ih h
    | unmatched k => intro h; simp at h ⊢; right; exact ih h
    | unexpected ls => intro h; simp at h ⊢; exact ih h

/-- the j-th assigned expectation together with the j-th covered line is a matched pair -/
theorem assignOf_match (d : List DL) (hm : allMatched d) (hg : ∀ x ∈ d, DL.Good n m es mt x) :
    ∀ j (h1 : j < (assignOf d).length) (h2 : j < (linesOf d).length),
      mt (assignOf d)[j] (linesOf d)[j] = true := by
  induction d with
  | nil => intro j h1; simp at h1
  | cons x d ih =>
    obtain ⟨i, ls, rfl⟩ := hm _ (List.mem_cons_self)
    have hgx := hg _ (List.mem_cons_self)
    have ih' := ih (fun y hy => hm y (List.mem_cons_of_mem _ hy)) (fun y hy => hg y (List.mem_cons_of_mem _ hy))
    intro j h1 h2
    simp only [assignOf_cons_m, linesOf_cons_m] at h1 h2 ⊢
    by_cases hj : j < ls.length
    · rw [List.getElem_append_left (by simpa using hj), List.getElem_append_left hj]
      simp
      exact (hgx.2.2.1 _ (List.getElem_mem hj)).2
    · rw [List.getElem_append_right (by simpa using hj), List.getElem_append_right (by omega)]
      simp only [List.length_replicate]
      exact ih' (j - ls.length) (by simp at h1; omega) (by simp at h2; omega)

theorem assignOf_sorted (d : List DL) (hs : (idxOf d).Pairwise (· < ·)) : (assignOf d).Pairwise (· ≤ ·) := by
  induction d with
  | nil => simp
  | cons x d ih =>
    cases x with
    | matched k ls =>
      simp only [idxOf_cons_m, List.pairwise_cons] at hs
      have ihd := ih hs.2
      simp only [assignOf_cons_m, List.pairwise_append]
      refine ⟨?_, ihd, ?_⟩
      · rw [List.pairwise_replicate]; right; exact Nat.le_refl _
      · intro a ha b hb
        have hak : a = k := (List.mem_replicate.1 ha).2
        have := hs.1 b (mem_assignOf d b hb)
        omega
    | unmatched k => simp only [idxOf_cons_u, List.pairwise_cons] at hs; simpa using ih hs.2
    | unexpected ls => simp only [idxOf_cons_x] at hs; simpa using ih hs

theorem idx_mem_assignOf (d : List DL) (hm : allMatched d) (hg : ∀ x ∈ d, DL.Good n m es mt x) (i : Nat) :
    i ∈ idxOf d → i ∈ assignOf d := by
  induction d with
  | nil => simp [idxOf]
  | cons x d ih =>
    obtain ⟨k, ls, rfl⟩ := hm _ (List.mem_cons_self)
    have hgx := hg _ (List.mem_cons_self)
    intro h
    simp only [idxOf_cons_m, List.mem_cons] at h
    simp only [assignOf_cons_m, List.mem_append, List.mem_replicate]
    rcases h with h | h
    · left; subst h
      refine ⟨?_, rfl⟩
      have := hgx.2.1
      intro hc; exact this (List.length_eq_zero_iff.1 hc)
    · right; exact ih (fun y hy => hm y (List.mem_cons_of_mem _ hy)) (fun y hy => hg y (List.mem_cons_of_mem _ hy)) h

theorem assignOf_count (d : List DL) (hm : allMatched d) (hg : ∀ x ∈ d, DL.Good n m es mt x)
    (hs : (idxOf d).Pairwise (· < ·)) (i : Nat) (hi : (es i).multiline = false) :
    (assignOf d).count i ≤ 1 := by
  induction d with
  | nil => simp
  | cons x d ih =>
    obtain ⟨k, ls, rfl⟩ := hm _ (List.mem_cons_self)
    have hgx := hg _ (List.mem_cons_self)
    simp only [idxOf_cons_m, List.pairwise_cons] at hs
    have ihd := ih (fun y hy => hm y (List.mem_cons_of_mem _ hy)) (fun y hy => hg y (List.mem_cons_of_mem _ hy)) hs.2
    simp only [assignOf_cons_m, List.count_append, List.count_replicate]
    by_cases hik : k = i
    · subst hik
      have h1 : ls.length = 1 := hgx.2.2.2 hi
      have h0 : (assignOf d).count k = 0 := by
        apply List.count_eq_zero.2
        intro hmem
        have := hs.1 k (mem_assignOf d k hmem)
        omega
      simp [h1, h0]
    · simp [hik]; exact ihd

/-- **C01** (model level): a result without differences yields an assignment. -/
theorem C01_no_false_pass (h : hasDiff (diff n m es mt) = false) :
    ∃ a, Assignment n m es mt a := by
  have hm := (hasDiff_false_iff _).1 h
  have wf := diff_wf n m es mt
  refine ⟨assignOf (diff n m es mt), ?_, ?_, ?_, ?_, ?_, ?_⟩
  · rw [assignOf_length _ hm, wf.cover]; simp [rangeFrom]
  · exact assignOf_sorted _ wf.idx_sorted
  · intro i hi; exact wf.idx_lt i (mem_assignOf _ i hi)
  · intro j hj
    have hl : j < (linesOf (diff n m es mt)).length := by rw [← assignOf_length _ hm]; exact hj
    have := assignOf_match n m es mt _ hm wf.good j hj hl
    have hjj : (linesOf (diff n m es mt))[j] = j := by
      have hc := wf.cover
      simp [hc, rangeFrom]
    rw [hjj] at this; exact this
  · intro i hi ho; exact idx_mem_assignOf n m es mt _ hm wf.good i (wf.idx_all i hi ho)
  · intro i _ hmul; exact assignOf_count n m es mt _ hm wf.good wf.idx_sorted i hmul

end Scrut.Diff
