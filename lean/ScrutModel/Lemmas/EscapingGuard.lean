import ScrutModel.Lemmas.EscapingPieces
/-!
# C11, unconditional: `guard_tailing_no_eol` makes the escaped text read back

The escaped text scrut writes is `guardTailingNoEol e` for the rendering `e`. It never ends in
` (no-eol)` (so `EscapedRule::make` strips nothing), and it is still a token sequence for the
bytes of the line: the rendering is a sequence of pieces in which a blank is its own piece, and
the guard replaces that piece by `\x20`.
-/
namespace Scrut.EscLemmas
open Scrut.Utf8 Scrut.Esc Scrut.EscF Scrut.Rules

theorem endsWithNoEol_eq (e : List Char) : endsWithNoEol e = noEolLit.isSuffixOf e := rfl

/-- a text ending in `\x20(no-eol)` does not end in ` (no-eol)` -/
theorem endsWithNoEol_x20Lit (body : List Char) : endsWithNoEol (body ++ x20NoEolLit) = false := by
  simp [endsWithNoEol, List.isSuffixOf, Rules.noEolSuffix, x20NoEolLit, List.isPrefixOf]

/-- the two shapes of `guard_tailing_no_eol` -/
theorem guard_cases (e : List Char) :
    (endsWithNoEol e = false ∧ guardTailingNoEol e = e) ∨
    (∃ body, e = body ++ ' ' :: ['(', 'n', 'o', '-', 'e', 'o', 'l', ')'] ∧
      guardTailingNoEol e = body ++ '\\' :: 'x' :: '2' :: '0' :: ['(', 'n', 'o', '-', 'e', 'o', 'l', ')']) := by
  cases h : noEolLit.isSuffixOf e with
  | false => exact Or.inl ⟨h, by simp [guardTailingNoEol, h]⟩
  | true =>
    right
    obtain ⟨body, hb⟩ := List.isSuffixOf_iff_suffix.mp h
    refine ⟨body, hb.symm, ?_⟩
    have ht : e.take (e.length - noEolLit.length) = body := by
      rw [← hb]
      apply List.take_left'
      simp
    simp only [guardTailingNoEol, h, if_true, ht]
    rfl

/-- **the guarded text never ends in ` (no-eol)`**: `EscapedRule::make` has nothing to strip -/
theorem endsWithNoEol_guard (e : List Char) : endsWithNoEol (guardTailingNoEol e) = false := by
  rcases guard_cases e with ⟨h1, h2⟩ | ⟨body, _, h2⟩
  · rw [h2]; exact h1
  · rw [h2]; exact endsWithNoEol_x20Lit body

/-- the guarded rendering is still read as the bytes of the line -/
theorem Rep.guard {e : List Char} {bs : List UInt8} (h : Rep e bs) : Tok (guardTailingNoEol e) bs := by
  rcases guard_cases e with ⟨_, h2⟩ | ⟨body, h1, h2⟩
  · rw [h2]; exact h.tok
  · rw [h2]
    rw [h1] at h
    exact h.replace_space

/-- … and it is still a piece sequence for them -/
theorem Rep.guard_rep {e : List Char} {bs : List UInt8} (h : Rep e bs) : Rep (guardTailingNoEol e) bs := by
  rcases guard_cases e with ⟨_, h2⟩ | ⟨body, h1, h2⟩
  · rw [h2]; exact h
  · rw [h2]
    rw [h1] at h
    exact h.replace_space_rep

theorem written_eq (m : Mode) (isOther : Char → Bool) (t : List UInt8) :
    written m isOther t = ((written m isOther t).1, (written m isOther t).2) := rfl

theorem writtenText_equal {m : Mode} {isOther : Char → Bool} {t : List UInt8}
    (h : (written m isOther t).1 = .equal) : writtenText m isOther t = (written m isOther t).2 := by
  unfold writtenText; rw [written_eq, h]

theorem writtenText_escaped {m : Mode} {isOther : Char → Bool} {t : List UInt8}
    (h : (written m isOther t).1 = .escaped) :
    writtenText m isOther t = guardTailingNoEol (written m isOther t).2 := by
  unfold writtenText; rw [written_eq, h]

/-- `escaped_expectation` is the written text, marked iff the kind is escaped -/
theorem escapedExpectation_eq (m : Mode) (isOther : Char → Bool) (line : List UInt8) :
    escapedExpectation m isOther line =
      match (written m isOther (trimNewlines line)).1 with
      | .equal => writtenText m isOther (trimNewlines line)
      | .escaped => writtenText m isOther (trimNewlines line) ++ marker := by
  unfold escapedExpectation writtenText
  rw [written_eq]
  cases (written m isOther (trimNewlines line)).1 <;> rfl

/-- **lossless, unconditional**: the text written for a line, read back as the kind it is written
as, matches the line and only lines with that content -/
theorem lossless_full (m : Mode) (isOther : Char → Bool) (hC : m = .unicode → AsciiContract isOther)
    (bs : List UInt8) (hlf : NoLF bs) :
    readBack (written m isOther bs).1 (writtenText m isOther bs) (bs ++ [10]) = some true ∧
    ((written m isOther bs).1 = .escaped →
      readBack (written m isOther bs).1 (writtenText m isOther bs) bs = some true) ∧
    ∀ line, readBack (written m isOther bs).1 (writtenText m isOther bs) line = some true →
      trimNewlines line = bs := by
  apply lossless_core _ _ _ hlf
  cases hk : (written m isOther bs).1 with
  | equal =>
    left
    refine ⟨rfl, ?_⟩
    rw [writtenText_equal hk]
    rcases written_cases m isOther hC bs hlf with ⟨_, hu⟩ | ⟨hk', _⟩
    · exact hu
    · rw [hk] at hk'; exact Kind.noConfusion hk'
  | escaped =>
    right
    rw [writtenText_escaped hk]
    exact ⟨rfl, (written_rep m isOther hC bs hlf hk).guard, endsWithNoEol_guard _⟩

end Scrut.EscLemmas
