import ScrutModel.Lemmas.Update
/-!
Steps towards re-tokenizing an updated document (used by `Props/C10.lean`):

* `splitLines_unlines` – LF-terminated lines without LF and without a final CR are read back by
  `str::lines()` as they are;
* `fence_reread`, `fence_reread_config` – the fence line that `update` writes (backticks, language,
  optionally ` {config}`) is recognised by `extract_code_block_start` with exactly those backticks,
  that language and that configuration.
-/
namespace Scrut.Update
open Scrut.Markdown Scrut.LineParser

/-! ## `str::lines()` after `unlines` -/

/-- the line that `splitLinesAux` emits for the reversed accumulator -/
def lineOf (racc : List Char) : Line :=
  match racc with
  | '\r' :: a => a.reverse
  | _ => racc.reverse

theorem splitLinesAux_line (l : Line) (t : List Char) (hnl : '\n' ∉ l) :
    ∀ acc, splitLinesAux (l ++ '\n' :: t) acc = lineOf (l.reverse ++ acc) :: splitLinesAux t [] := by
  induction l with
  | nil =>
    intro acc
    simp only [List.nil_append, splitLinesAux, if_true, List.reverse_nil, lineOf]
    cases acc with
    | nil => rfl
    | cons x xs =>
      by_cases hx : x = '\r'
      · subst hx; rfl
      · split <;> split <;> simp_all
  | cons c r ih =>
    intro acc
    have hc : c ≠ '\n' := fun h => hnl (by simp [h])
    have hr : '\n' ∉ r := fun h => hnl (by simp [h])
    simp only [List.cons_append, splitLinesAux, hc, if_false]
    rw [ih hr (c :: acc)]
    simp

theorem lineOf_reverse (l : Line) (hcr : l.getLast? ≠ some '\r') : lineOf l.reverse = l := by
  unfold lineOf
  split
  · rename_i a h
    exfalso
    apply hcr
    have : l = (('\r' : Char) :: a).reverse := by rw [← h]; simp
    rw [this]
    simp
  · simp

theorem splitLines_unlines (ls : List Line) (h : ∀ l ∈ ls, '\n' ∉ l ∧ l.getLast? ≠ some '\r') :
    splitLines (unlines ls) = ls := by
  induction ls with
  | nil => rfl
  | cons l r ih =>
    have hl := h l (by simp)
    have hr := ih (fun x hx => h x (by simp [hx]))
    unfold splitLines at hr ⊢
    rw [unlines_cons, splitLinesAux_line l _ hl.1 [], List.append_nil, lineOf_reverse l hl.2, hr]

/-! ## the fence line is read back -/

theorem scanNone_backticks (n : Nat) : ∀ (pre rest : Line),
    scanNonePure pre (backticks n ++ rest) = scanNonePure (pre ++ backticks n) rest := by
  induction n with
  | zero => intro pre rest; simp [backticks]
  | succ n ih =>
    intro pre rest
    have e : backticks (n + 1) = '`' :: backticks n := by simp [backticks, List.replicate_succ]
    rw [e]
    simp only [List.cons_append, scanNonePure, ne_eq, not_true_eq_false, if_false]
    rw [ih]
    simp

theorem scanSome_skip (pre : Line) (a : Line) (ha : ∀ c ∈ a, c ≠ '{') : ∀ (mid rest : Line),
    scanSomePure pre mid (a ++ rest) = scanSomePure pre (mid ++ a) rest := by
  induction a with
  | nil => intro mid rest; simp
  | cons c r ih =>
    intro mid rest
    have hc : c ≠ '{' := ha c (by simp)
    simp only [List.cons_append, scanSomePure, hc, if_false]
    rw [ih (fun x hx => ha x (by simp [hx]))]
    simp

/-- a language name as `update` can write it back so that it is read again: no backtick, no `{`,
no white space -/
def LangOK (lang : Line) : Prop := ∀ c ∈ lang, c ≠ '`' ∧ c ≠ '{' ∧ isWhite c = false

theorem dropWhile_white_of_ok (l : Line) (h : ∀ c ∈ l, isWhite c = false) : l.dropWhile isWhite = l := by
  cases l with
  | nil => rfl
  | cons c r => simp [List.dropWhile, h c (by simp)]

theorem trim_ok (lang : Line) (h : LangOK lang) : trim lang = lang := by
  have hw : ∀ c ∈ lang, isWhite c = false := fun c hc => (h c hc).2.2
  unfold trim trimEnd trimStart
  rw [dropWhile_white_of_ok lang hw, dropWhile_white_of_ok lang.reverse (fun c hc => hw c (by simpa using hc))]
  simp

theorem trim_ok_space (lang : Line) (h : LangOK lang) : trim (lang ++ [' ']) = lang := by
  have hw : ∀ c ∈ lang, isWhite c = false := fun c hc => (h c hc).2.2
  have hsp : isWhite ' ' = true := by decide
  unfold trim trimEnd trimStart
  cases lang with
  | nil => simp [List.dropWhile, hsp]
  | cons c r =>
    have hc : isWhite c = false := hw c (by simp)
    have h1 : (c :: r ++ [' ']).dropWhile isWhite = c :: r ++ [' '] := by simp [List.dropWhile, hc]
    rw [h1]
    have h2 : (c :: r ++ [' ']).reverse = ' ' :: (c :: r).reverse := by simp
    rw [h2]
    simp only [List.dropWhile, hsp]
    rw [dropWhile_white_of_ok (c :: r).reverse (fun x hx => hw x (List.mem_reverse.mp hx))]
    simp

theorem trimEnd_braces (c : Line) : trimEnd ('{' :: (c ++ ['}'])) = '{' :: (c ++ ['}']) := by
  unfold trimEnd
  have h2 : ('{' :: (c ++ ['}'])).reverse = '}' :: ('{' :: c).reverse := by simp
  have hb : isWhite '}' = false := by decide
  rw [h2]
  simp [List.dropWhile, hb]

theorem isBareFence_false_of_mem (line : Line) (c : Char) (hc : c ∈ line) (hne : c ≠ '`') :
    isBareFence line = false := by
  unfold isBareFence
  have : line.all (· = '`') = false := by
    rw [List.all_eq_false]
    exact ⟨c, hc, by simpa using hne⟩
  simp [this]

/-- `language.contains('`')` is false for a text without backtick -/
theorem no_backtick_contains (l : Line) (h : ∀ c ∈ l, c ≠ '`') : l.contains '`' = false := by
  cases hc : l.contains '`' with
  | false => rfl
  | true =>
    exfalso
    have hm : '`' ∈ l := by simpa using hc
    exact h _ hm rfl

theorem mem_takeWhile_stop (l rest : Line) : ∀ c ∈ (l ++ '{' :: rest).takeWhile (· ≠ '{'), c ∈ l := by
  induction l with
  | nil => intro c hc; simp [List.takeWhile] at hc
  | cons d l ih =>
    intro c hc
    by_cases hd : d = '{'
    · subst hd; simp [List.takeWhile] at hc
    · have : decide (d ≠ '{') = true := by simpa using hd
      simp only [List.cons_append, List.takeWhile_cons, this, if_true, List.mem_cons] at hc
      rcases hc with h | h
      · exact h ▸ List.mem_cons_self
      · exact List.mem_cons_of_mem _ (ih c h)

/-- the text in front of the first `{` of `l ++ '{' :: rest` resp. of `l` holds no backtick if `l`
holds none -/
theorem lang_part_no_backtick (l : Line) (h : ∀ c ∈ l, c ≠ '`') (rest : Line) :
    ((l ++ '{' :: rest).takeWhile (· ≠ '{')).contains '`' = false ∧
    (l.takeWhile (· ≠ '{')).contains '`' = false := by
  constructor
  · exact no_backtick_contains _ (fun c hc => h c (mem_takeWhile_stop l rest c hc))
  · exact no_backtick_contains _ (fun c hc => h c ((List.takeWhile_sublist _).subset hc))

/-- the fence line without configuration -/
theorem fence_reread (n : Nat) (hn : 3 ≤ n) (lang : Line) (hl : LangOK lang) :
    fencePure (backticks n ++ lang) = some (backticks n, lang, []) := by
  cases lang with
  | nil =>
    have hb : isBareFence (backticks n) = true := by
      unfold isBareFence
      have h1 : byteLen (backticks n) = n := by
        induction n with
        | zero => rfl
        | succ m ih =>
          have e : backticks (m + 1) = '`' :: backticks m := by simp [backticks, List.replicate_succ]
          have h1 : ('`' : Char).utf8Size = 1 := rfl
          cases Nat.lt_or_ge m 3 with
          | inl hlt =>
            have : m = 2 := by omega
            subst this; rfl
          | inr hge => rw [e, byteLen, ih hge, h1]; omega
      have h2 : (backticks n).all (· = '`') = true := by
        simp [backticks, List.all_replicate]
      simp [h1, h2, hn]
    simp [fencePure, hb]
  | cons c r =>
    have hc := hl c (by simp)
    have hnb : isBareFence (backticks n ++ c :: r) = false :=
      isBareFence_false_of_mem _ c (by simp) hc.1
    simp only [fencePure, hnb, Bool.false_eq_true, if_false]
    rw [scanNone_backticks n [] (c :: r)]
    simp only [List.nil_append, scanNonePure, ne_eq, hc.1, not_false_eq_true, if_true]
    have hlen : ¬ (backticks n).length < 3 := by simp [backticks]; omega
    have hbt : ((c :: r).takeWhile (· ≠ '{')).contains '`' = false := by
      exact (lang_part_no_backtick (c :: r) (fun x hx => (hl x hx).1) []).2
    simp only [hlen, hbt, Bool.false_eq_true, if_false]
    have := scanSome_skip (backticks n) r (fun x hx => (hl x (by simp [hx])).2.1) [c] []
    simp only [List.append_nil] at this
    rw [this]
    simp only [scanSomePure, List.singleton_append]
    rw [trim_ok (c :: r) hl]

/-- the fence line with configuration -/
theorem fence_reread_config (n : Nat) (hn : 3 ≤ n) (lang : Line) (hl : LangOK lang) (cfg : Line) :
    fencePure (backticks n ++ lang ++ ' ' :: '{' :: (cfg ++ ['}']))
      = some (backticks n, lang, '{' :: (cfg ++ ['}'])) := by
  have hnb : isBareFence (backticks n ++ lang ++ ' ' :: '{' :: (cfg ++ ['}'])) = false :=
    isBareFence_false_of_mem _ ' ' (by simp) (by decide)
  simp only [fencePure, hnb, Bool.false_eq_true, if_false]
  rw [List.append_assoc, scanNone_backticks n [] _]
  have hlen : ¬ (backticks n).length < 3 := by simp [backticks]; omega
  cases lang with
  | nil =>
    have hsp : (' ' : Char) ≠ '`' := by decide
    have hb0 : ((' ' :: '{' :: (cfg ++ ['}'])).takeWhile (· ≠ '{')).contains '`' = false := by
      have := (lang_part_no_backtick [' '] (by simp) (cfg ++ ['}'])).1
      simpa using this
    simp only [List.nil_append, scanNonePure, ne_eq, hsp, not_false_eq_true, if_true, hlen, if_false,
      hb0, Bool.false_eq_true, scanSomePure]
    rw [trimEnd_braces]
    rfl
  | cons c r =>
    have hc := hl c (by simp)
    have hb1 : ((c :: (r ++ ' ' :: '{' :: (cfg ++ ['}']))).takeWhile (· ≠ '{')).contains '`' = false := by
      have := (lang_part_no_backtick (c :: r ++ [' ']) (by
        intro x hx
        simp only [List.mem_append, List.mem_singleton] at hx
        rcases hx with hx | hx
        · exact (hl x hx).1
        · subst hx; decide) (cfg ++ ['}'])).1
      simpa using this
    simp only [List.nil_append, List.cons_append, scanNonePure, ne_eq, hc.1, not_false_eq_true, if_true,
      hlen, if_false, hb1, Bool.false_eq_true]
    have := scanSome_skip (backticks n) r (fun x hx => (hl x (by simp [hx])).2.1) [c]
      (' ' :: '{' :: (cfg ++ ['}']))
    rw [this]
    have hsp : (' ' : Char) ≠ '{' := by decide
    simp only [scanSomePure, hsp, if_false, if_true, List.singleton_append]
    rw [trimEnd_braces, trim_ok_space (c :: r) hl]

/-! ## the whole fence line of a rewritten block -/

theorem dropWhile_idem (p : Char → Bool) (l : Line) : (l.dropWhile p).dropWhile p = l.dropWhile p := by
  induction l with
  | nil => rfl
  | cons c r ih =>
    by_cases hc : p c = true
    · simp [List.dropWhile, hc, ih]
    · have hc : p c = false := by simpa using hc
      simp [List.dropWhile, hc]

theorem stripBraces_braces (u : Line) (hu : u ≠ []) : stripBraces ('{' :: (u ++ ['}'])) = some u := by
  unfold stripBraces
  have h2 : (u ++ ['}']).reverse = '}' :: u.reverse := by simp
  simp only [h2]
  have : u.reverse.isEmpty = false := by simpa using hu
  simp [this]

/-! ### `trim_start_matches([' ', '\t'])` (`blankStart`, since fix 15b47d2) -/

theorem blankStart_idem (t : Line) : blankStart (blankStart t) = blankStart t := by
  induction t with
  | nil => rfl
  | cons c r ih =>
    by_cases hc : c = ' ' ∨ c = '\t'
    · simp only [blankStart, hc, if_true, ih]
    · simp only [blankStart, hc, if_false]

theorem isWhite_of_blank {c : Char} (hc : c = ' ' ∨ c = '\t') : isWhite c = true := by
  rcases hc with h | h <;> subst h <;> decide

theorem trimStart_blankStart (t : Line) : trimStart (blankStart t) = trimStart t := by
  induction t with
  | nil => rfl
  | cons c r ih =>
    by_cases hc : c = ' ' ∨ c = '\t'
    · simp only [blankStart, hc, if_true, ih]
      simp [trimStart, List.dropWhile, isWhite_of_blank hc]
    · simp only [blankStart, hc, if_false]

theorem trim_blankStart (t : Line) : trim (blankStart t) = trim t := by
  simp only [trim, trimStart_blankStart]

theorem blankStart_ne_nil {t : Line} (h : (trim t).isEmpty = false) : blankStart t ≠ [] := by
  intro hb
  have h1 := trim_blankStart t
  rw [hb] at h1
  rw [← h1] at h
  exact absurd h (by decide)

theorem mem_blankStart {c : Char} {t : Line} (h : c ∈ blankStart t) : c ∈ t := by
  induction t with
  | nil => exact h
  | cons d r ih =>
    by_cases hd : d = ' ' ∨ d = '\t'
    · simp only [blankStart, hd, if_true] at h
      exact List.mem_cons_of_mem _ (ih h)
    · simpa only [blankStart, hd, if_false] using h

/-- the texts of the configuration lines the tokenizer reads from the fence line `update` writes for a block
with the configuration lines `cfg`: none if they hold white space only, otherwise one, the joined text without
its leading blanks and tabs (`trim_start_matches([' ', '\t'])`, what YAML skips itself) -/
def writtenCfg (cfg : Numbered) : List Line :=
  if (trim (joinNumbered cfg)).isEmpty then [] else [blankStart (joinNumbered cfg)]

/-- The fence line that `update` writes for a block (`n ≥ 3` backticks, the language, the
configuration suffix) is read back by the fence recogniser with the same backticks and language
and with a configuration that `update` writes in the same way again: the text `writtenCfg cfg`. -/
theorem fence_line_reread_cfg (n : Nat) (hn : 3 ≤ n) (lang : Line) (hl : LangOK lang) (cfg : Numbered) :
    ∃ config', fencePure (backticks n ++ lang ++ configSuffix cfg) = some (backticks n, lang, config') ∧
      (∀ j, configSuffix (cfgLines j config') = configSuffix cfg) ∧
      ∀ j, (cfgLines j config').map (·.2) = writtenCfg cfg := by
  by_cases he : (trim (joinNumbered cfg)).isEmpty = true
  · refine ⟨[], ?_, ?_, ?_⟩
    · simp only [configSuffix, he, if_true, List.append_nil]
      exact fence_reread n hn lang hl
    · intro j
      have h1 : configSuffix cfg = [] := by simp only [configSuffix, he, if_true]
      have h2 : configSuffix (cfgLines j []) = [] := by rfl
      rw [h1, h2]
    · intro j
      simp only [writtenCfg, he, if_true]
      rfl
  · have he : (trim (joinNumbered cfg)).isEmpty = false := by simpa using he
    unfold writtenCfg
    generalize ht : joinNumbered cfg = t at he
    have hu : blankStart t ≠ [] := blankStart_ne_nil he
    refine ⟨'{' :: (blankStart t ++ ['}']), ?_, ?_, ?_⟩
    · simp only [configSuffix, ht, he, Bool.false_eq_true, if_false]
      exact fence_reread_config n hn lang hl (blankStart t)
    · intro j
      have hj : joinNumbered [(j, blankStart t)] = blankStart t := by simp [joinNumbered, joinNl]
      have hi : blankStart (blankStart t) = blankStart t := blankStart_idem t
      have htr : trim (blankStart t) = trim t := trim_blankStart t
      simp only [cfgLines, stripBraces_braces _ hu, configSuffix, hj, ht, htr, he, hi]
    · intro j
      simp only [cfgLines, stripBraces_braces _ hu, he, Bool.false_eq_true, if_false, List.map_cons, List.map_nil]

theorem fence_line_reread (n : Nat) (hn : 3 ≤ n) (lang : Line) (hl : LangOK lang) (cfg : Numbered) :
    ∃ config', fencePure (backticks n ++ lang ++ configSuffix cfg) = some (backticks n, lang, config') ∧
      ∀ j, configSuffix (cfgLines j config') = configSuffix cfg := by
  obtain ⟨c, h1, h2, _⟩ := fence_line_reread_cfg n hn lang hl cfg
  exact ⟨c, h1, h2⟩

end Scrut.Update
