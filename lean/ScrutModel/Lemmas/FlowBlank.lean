import ScrutModel.Model.ConfigRender
/-!
# `parseFlow` does not see blanks directly behind the opening brace

`update` writes the inline configuration of a block without its leading white space
(`config_text.trim_start()`).  Where that white space is YAML blanks (spaces, tabs) the flow parser
reads the same mapping: `parseFlow_skipWs`.  The fuel of `parseMapV` (one unit per entry) does not
matter once it exceeds the length of the text: `parseMapV_fuel`.
-/
namespace Scrut.Yaml

theorem skipWs_length_le : ∀ (cs : List Char), (skipWs cs).length ≤ cs.length
  | [] => Nat.le_refl _
  | c :: r => by
    unfold skipWs
    split
    · exact Nat.le_trans (skipWs_length_le r) (Nat.le_succ _)
    · exact Nat.le_refl _

theorem skipWs_idem : ∀ (cs : List Char), skipWs (skipWs cs) = skipWs cs
  | [] => rfl
  | c :: r => by
    by_cases h : isBlank c = true
    · simp only [skipWs, h, if_true]; exact skipWs_idem r
    · have h' : isBlank c = false := by simpa using h
      simp [skipWs, h']

theorem skipWs_append_of_nonblank (d : Char) (hd : isBlank d = false) (rest : List Char) :
    ∀ (t : List Char), skipWs (t ++ d :: rest) = skipWs t ++ d :: rest
  | [] => by simp [skipWs, hd]
  | c :: r => by
    by_cases h : isBlank c = true
    · simp only [List.cons_append, skipWs, h, if_true]; exact skipWs_append_of_nonblank d hd rest r
    · have h' : isBlank c = false := by simpa using h
      simp [skipWs, h']

theorem plainGo_length : ∀ (cs acc : List Char) (a r : List Char), plainGo cs acc = some (a, r) → r.length ≤ cs.length := by
  intro cs
  induction cs with
  | nil =>
    intro acc a r h
    simp only [plainGo, Option.some.injEq, Prod.mk.injEq] at h
    rw [← h.2]; exact Nat.le_refl _
  | cons c rest ih =>
    intro acc a r h
    unfold plainGo at h
    repeat' split at h
    all_goals first
      | (simp only [Option.some.injEq, Prod.mk.injEq] at h; rw [← h.2]; exact Nat.le_refl _)
      | exact Nat.le_trans (ih _ a r h) (Nat.le_succ _)
      | (exfalso; simp at h; done)

theorem scanQuoted_len : ∀ (n : Nat) (cs : List Char), cs.length ≤ n → ∀ (acc : List Char) (s r : List Char),
    scanQuoted cs acc = some (s, r) → r.length ≤ cs.length
  | _, [], _, acc, s, r, h => by simp [scanQuoted] at h
  | 0, c :: rest, hn, _, _, _, _ => by simp at hn
  | n + 1, c :: rest, hn, acc, s, r, h => by
    have hn' : rest.length ≤ n := by simpa using hn
    unfold scanQuoted at h
    split at h
    · simp only [Option.some.injEq, Prod.mk.injEq] at h
      rw [← h.2]; exact Nat.le_succ _
    · split at h
      · split at h
        · cases h
        · rename_i e rest1
          have hn1 : rest1.length ≤ n := by simp at hn'; omega
          split at h
          · split at h
            · rename_i a b r'
              split at h
              · have := scanQuoted_len n r' (by simp at hn1; omega) _ s r h
                simp only [List.length_cons]; omega
              · cases h
            · cases h
          · split at h
            · split at h
              · rename_i a b c' d r'
                split at h
                · have := scanQuoted_len n r' (by simp at hn1; omega) _ s r h
                  simp only [List.length_cons]; omega
                · cases h
              · cases h
            · split at h
              · split at h
                · rename_i a b c' d e' f g h' r'
                  split at h
                  · have := scanQuoted_len n r' (by simp at hn1; omega) _ s r h
                    simp only [List.length_cons]; omega
                  · cases h
                · cases h
              · split at h
                · have := scanQuoted_len n rest1 hn1 _ s r h
                  simp only [List.length_cons]; omega
                · cases h
      · have := scanQuoted_len n rest hn' _ s r h
        simp only [List.length_cons]; omega

theorem scanQuoted_length (cs acc s r : List Char) (h : scanQuoted cs acc = some (s, r)) :
    r.length ≤ cs.length :=
  scanQuoted_len cs.length cs (Nat.le_refl _) acc s r h

theorem scanScalar_length (cs : List Char) (s : Scalar) (r : List Char) (h : scanScalar cs = some (s, r)) :
    r.length ≤ cs.length := by
  unfold scanScalar at h
  split at h
  · cases h
  · rename_i rest
    cases hq : scanQuoted rest [] with
    | none => simp [hq] at h
    | some x =>
      obtain ⟨t, r'⟩ := x
      simp only [hq, Option.map_some, Option.some.injEq, Prod.mk.injEq] at h
      have := scanQuoted_length rest [] t r' hq
      rw [← h.2]; simp only [List.length_cons]; omega
  · rename_i c rest _
    split at h
    · cases hp : plainGo (c :: rest) [] with
      | none => simp [hp] at h
      | some x =>
        obtain ⟨a, r'⟩ := x
        simp only [hp, Option.map_some, Option.some.injEq, Prod.mk.injEq] at h
        have := plainGo_length (c :: rest) [] a r' hp
        rw [← h.2]; exact this
    · cases h

theorem parseKey_length (cs : List Char) (k : Scalar) (r : List Char) (h : parseKey cs = some (k, r)) :
    r.length ≤ cs.length := by
  unfold parseKey at h
  cases hs : scanScalar cs with
  | none => simp [hs] at h
  | some x =>
    obtain ⟨k', r1⟩ := x
    simp only [hs] at h
    have h1 := scanScalar_length cs k' r1 hs
    split at h
    · rename_i r' heq
      split at h
      · cases h
      · simp only [Option.some.injEq, Prod.mk.injEq] at h
        have h2 := skipWs_length_le r1
        rw [heq] at h2
        have h3 := skipWs_length_le r'
        rw [← h.2]
        simp only [List.length_cons] at h2
        omega
    · cases h

theorem scanValS_length (cs : List Char) (s : Scalar) (r : List Char) (h : scanValS cs = some (s, r)) :
    r.length ≤ cs.length := by
  unfold scanValS at h
  split at h
  · simp only [Option.some.injEq, Prod.mk.injEq] at h; rw [← h.2]; exact Nat.le_refl _
  · simp only [Option.some.injEq, Prod.mk.injEq] at h; rw [← h.2]; exact Nat.le_refl _
  · exact scanScalar_length cs s r h

theorem parseMapS_length : ∀ (f : Nat) (cs : List Char) (l : List (Scalar × Scalar)) (r : List Char),
    parseMapS f cs = some (l, r) → r.length ≤ cs.length
  | 0, _, _, _, h => by simp [parseMapS] at h
  | f + 1, cs, l, r, h => by
    unfold parseMapS at h
    have h0 := skipWs_length_le cs
    split at h
    · rename_i r0 heq
      simp only [Option.some.injEq, Prod.mk.injEq] at h
      rw [heq] at h0; rw [← h.2]; simp only [List.length_cons] at h0; omega
    · rename_i cs' _
      cases hk : parseKey (skipWs cs) with
      | none => simp [hk] at h
      | some x =>
        obtain ⟨k, r1⟩ := x
        simp only [hk] at h
        have h1 := parseKey_length _ k r1 hk
        cases hv : scanValS r1 with
        | none => simp [hv] at h
        | some y =>
          obtain ⟨v, r2⟩ := y
          simp only [hv] at h
          have h2 := scanValS_length _ v r2 hv
          have h3 := skipWs_length_le r2
          split at h
          · rename_i r' heq
            rw [heq] at h3
            simp only [List.length_cons] at h3
            cases hm : parseMapS f r' with
            | none => simp [hm] at h
            | some z =>
              obtain ⟨l', r''⟩ := z
              simp only [hm, Option.some.injEq, Prod.mk.injEq] at h
              have h4 := parseMapS_length f r' l' r'' hm
              rw [← h.2]; omega
          · rename_i r' heq
            rw [heq] at h3
            simp only [List.length_cons] at h3
            simp only [Option.some.injEq, Prod.mk.injEq] at h
            rw [← h.2]; omega
          · cases h

theorem scanVal_length (cs : List Char) (v : Val) (r : List Char) (h : scanVal cs = some (v, r)) :
    r.length ≤ cs.length := by
  unfold scanVal at h
  split at h
  · rename_i r0
    cases hm : parseMapS (r0.length + 1) r0 with
    | none => simp [hm] at h
    | some x =>
      obtain ⟨l, r'⟩ := x
      simp only [hm, Option.map_some, Option.some.injEq, Prod.mk.injEq] at h
      have := parseMapS_length _ r0 l r' hm
      rw [← h.2]; simp only [List.length_cons]; omega
  · cases hs : scanValS cs with
    | none => simp [hs] at h
    | some x =>
      obtain ⟨s, r'⟩ := x
      simp only [hs, Option.map_some, Option.some.injEq, Prod.mk.injEq] at h
      have := scanValS_length cs s r' hs
      rw [← h.2]; exact this

/-- one round of `parseMapV`, the recursive call abstracted -/
def stepV (rec : List Char → Option (Ast × List Char)) (cs : List Char) : Option (Ast × List Char) :=
  match skipWs cs with
  | '}' :: r => some ([], r)
  | cs' =>
    match parseKey cs' with
    | none => none
    | some (k, r) =>
      match scanVal r with
      | none => none
      | some (v, r) =>
        match skipWs r with
        | ',' :: r' =>
          (match rec r' with
           | none => none
           | some (l, r'') => some ((k, v) :: l, r''))
        | '}' :: r' => some ([(k, v)], r')
        | _ => none

theorem parseMapV_succ (f : Nat) (cs : List Char) : parseMapV (f + 1) cs = stepV (parseMapV f) cs := by
  rw [parseMapV]; rfl

theorem stepV_congr (rec1 rec2 : List Char → Option (Ast × List Char)) (cs : List Char)
    (h : ∀ r, r.length < cs.length → rec1 r = rec2 r) : stepV rec1 cs = stepV rec2 cs := by
  have h0 := skipWs_length_le cs
  unfold stepV
  split
  · rfl
  · cases hk : parseKey (skipWs cs) with
    | none => rfl
    | some x =>
      obtain ⟨k, r1⟩ := x
      have h1 := parseKey_length _ k r1 hk
      dsimp only
      cases hv : scanVal r1 with
      | none => rfl
      | some y =>
        obtain ⟨v, r2⟩ := y
        have h2 := scanVal_length _ v r2 hv
        have h3 := skipWs_length_le r2
        dsimp only
        split
        · rename_i r' heq
          rw [heq] at h3
          simp only [List.length_cons] at h3
          rw [h r' (by omega)]
        · rfl
        · rfl

/-- the fuel of `parseMapV` does not matter once it exceeds the length of the text -/
theorem parseMapV_fuel : ∀ (n m : Nat) (cs : List Char), cs.length < n → cs.length < m →
    parseMapV n cs = parseMapV m cs
  | 0, _, _, h, _ => by omega
  | _ + 1, 0, _, _, h => by omega
  | n + 1, m + 1, cs, hn, hm => by
    rw [parseMapV_succ, parseMapV_succ]
    exact stepV_congr _ _ cs (fun r hr => parseMapV_fuel n m r (by omega) (by omega))

theorem parseMapV_skipWs (n : Nat) (cs : List Char) : parseMapV n (skipWs cs) = parseMapV n cs := by
  cases n with
  | zero => rfl
  | succ f => rw [parseMapV_succ, parseMapV_succ]; unfold stepV; rw [skipWs_idem]

theorem isBlank_not_break {c : Char} (h : isBlank c = true) : isBreak c = false := by
  have : c = ' ' ∨ c = '\t' := by simpa [isBlank] using h
  rcases this with rfl | rfl <;> decide

theorem isBlank_readable {c : Char} (h : isBlank c = true) : readable c = true := by
  have : c = ' ' ∨ c = '\t' := by simpa [isBlank] using h
  rcases this with rfl | rfl <;> decide

theorem any_isBreak_skipWs : ∀ (t : List Char), (skipWs t).any isBreak = t.any isBreak
  | [] => rfl
  | c :: r => by
    by_cases h : isBlank c = true
    · simp only [skipWs, h, if_true, List.any_cons, isBlank_not_break h, Bool.false_or]
      exact any_isBreak_skipWs r
    · have h' : isBlank c = false := by simpa using h
      simp [skipWs, h']

theorem all_readable_skipWs : ∀ (t : List Char), (skipWs t).all readable = t.all readable
  | [] => rfl
  | c :: r => by
    by_cases h : isBlank c = true
    · simp only [skipWs, h, if_true, List.all_cons, isBlank_readable h, Bool.true_and]
      exact all_readable_skipWs r
    · have h' : isBlank c = false := by simpa using h
      simp [skipWs, h']

/-- **blanks directly behind the opening brace of a flow mapping are not seen**: the text between the
braces without its leading spaces and tabs deserializes to the same result (value, error, panic or
"outside the modelled subset") -/
theorem parseFlow_skipWs (t : List Char) :
    parseFlow ('{' :: (skipWs t ++ ['}'])) = parseFlow ('{' :: (t ++ ['}'])) := by
  have hb : ('{' :: (skipWs t ++ ['}'])).any isBreak = ('{' :: (t ++ ['}'])).any isBreak := by
    simp only [List.any_cons, List.any_append, any_isBreak_skipWs]
  have hr : ('{' :: (skipWs t ++ ['}'])).all readable = ('{' :: (t ++ ['}'])).all readable := by
    simp only [List.all_cons, List.all_append, all_readable_skipWs]
  have hbr : isBlank '}' = false := by decide
  have ha : parseAst ('{' :: (skipWs t ++ ['}'])) = parseAst ('{' :: (t ++ ['}'])) := by
    have hd : ∀ r, dropSpaces ('{' :: r) = '{' :: r := by intro r; simp [dropSpaces]
    unfold parseAst
    rw [hd, hd]
    have e : parseMapV ((skipWs t ++ ['}']).length + 1) (skipWs t ++ ['}'])
        = parseMapV ((t ++ ['}']).length + 1) (t ++ ['}']) := by
      rw [← parseMapV_skipWs _ (t ++ ['}']), skipWs_append_of_nonblank '}' hbr [] t]
      apply parseMapV_fuel
      · omega
      · have := skipWs_length_le t
        simp only [List.length_append, List.length_cons, List.length_nil]; omega
    simp only [e]
  unfold parseFlow
  rw [hb, hr, ha]

/-! ## a text without `:` is no mapping (a configuration of Unicode white space only) -/

theorem plainGo_mem : ∀ (cs acc : List Char) (a r : List Char), plainGo cs acc = some (a, r) → ∀ x ∈ r, x ∈ cs := by
  intro cs
  induction cs with
  | nil =>
    intro acc a r h
    simp only [plainGo, Option.some.injEq, Prod.mk.injEq] at h
    rw [← h.2]; intro x hx; exact hx
  | cons c rest ih =>
    intro acc a r h
    unfold plainGo at h
    repeat' split at h
    all_goals first
      | (simp only [Option.some.injEq, Prod.mk.injEq] at h; rw [← h.2]; intro x hx; exact hx)
      | (intro x hx; exact List.mem_cons_of_mem _ (ih _ a r h x hx))
      | (exfalso; simp at h; done)

theorem mem_skipWs : ∀ (t : List Char) (x : Char), x ∈ skipWs t → x ∈ t
  | [], _, h => h
  | c :: r, x, h => by
    unfold skipWs at h
    split at h
    · exact List.mem_cons_of_mem _ (mem_skipWs r x h)
    · exact h

/-- a key that does not start with a double quote is followed by a `:` of the text -/
theorem parseKey_colon (d : Char) (rest : List Char) (hd : d ≠ '"') (k : Scalar) (r : List Char)
    (h : parseKey (d :: rest) = some (k, r)) : ':' ∈ d :: rest := by
  unfold parseKey at h
  cases hs : scanScalar (d :: rest) with
  | none => simp [hs] at h
  | some x =>
    obtain ⟨k', r1⟩ := x
    simp only [hs] at h
    have hr1 : ∀ x ∈ r1, x ∈ d :: rest := by
      unfold scanScalar at hs
      split at hs
      · cases hs
      · rename_i heq; cases heq; exact absurd rfl hd
      · rename_i c rest' _ heq
        cases heq
        split at hs
        · cases hp : plainGo (d :: rest) [] with
          | none => simp [hp] at hs
          | some y =>
            obtain ⟨a, r'⟩ := y
            simp only [hp, Option.map_some, Option.some.injEq, Prod.mk.injEq] at hs
            rw [← hs.2]
            exact plainGo_mem (d :: rest) [] a r' hp
        · cases hs
    split at h
    · rename_i r' heq
      apply hr1
      apply mem_skipWs
      rw [heq]
      simp
    · cases h

theorem skipWs_head_nonblank : ∀ (t : List Char) (d : Char) (r : List Char), skipWs t = d :: r → isBlank d = false
  | [], _, _, h => by cases h
  | c :: t, d, r, h => by
    unfold skipWs at h
    split at h
    · exact skipWs_head_nonblank t d r h
    · rename_i hc
      cases h
      simpa using hc

/-- a text between the braces in which no `:` occurs and that does not start with a blank, `}` or `"` is no
mapping -/
theorem parseAst_no_colon (d : Char) (rest : List Char) (hb : isBlank d = false) (h1 : d ≠ '}') (h2 : d ≠ '"')
    (hc : ':' ∉ d :: rest) : parseAst ('{' :: d :: rest) = none := by
  have hk : parseKey (d :: rest) = none := by
    cases hp : parseKey (d :: rest) with
    | none => rfl
    | some x => exact absurd (parseKey_colon d rest h2 x.1 x.2 hp) hc
  have hd : dropSpaces ('{' :: d :: rest) = '{' :: d :: rest := by simp [dropSpaces]
  have hs : skipWs (d :: rest) = d :: rest := by simp [skipWs, hb]
  have hm : parseMapV ((d :: rest).length + 1) (d :: rest) = none := by
    rw [parseMapV_succ]
    unfold stepV
    rw [hs]
    split
    · rename_i heq
      cases heq
      exact absurd rfl h1
    · simp only [hk]
  unfold parseAst
  rw [hd]
  simp only [hm]

end Scrut.Yaml
