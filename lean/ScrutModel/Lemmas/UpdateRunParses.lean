import ScrutModel.Lemmas.UpdateRunConfig
import ScrutModel.Lemmas.UpdateRunFront
/-!
# The document `update` writes parses

The hypothesis "IF the written document parses" of the document-level theorems (U3, U4), discharged: the tokens
of the written document are those of the original (`Reread`); a line, a front-matter, a foreign block is accepted
as before; the configuration of a scrut block is accepted as before (`blankStart_eq_skipWs`, `Yaml.parseFlow_skipWs`); the
code lines of a rewritten block are the lines of the text of its outcome -- the command lines, then expectation
lines that compile and at most one exit code line, the line behind the command no continuation --, which the
line parser accepts (`addAll_after`).
-/
namespace Scrut.UpdateRun
open Scrut Scrut.TestRun Scrut.Markdown Scrut.Update Scrut.LineParser Scrut.GenLemmas Scrut.EscLemmas

/-- lines that the line parser (between two tests) accepts as one test -/
def LinesParse (expOk : Markdown.Line → Bool) (ls : List Markdown.Line) : Prop :=
  ∃ (c0 : Markdown.Line) (more after : List Markdown.Line),
    ls = ('$' :: ' ' :: c0) :: (more.map contLine ++ after) ∧ NotCont after ∧
    (∀ e ∈ expLines after, expOk e = true ∧ isExitCodeForm e = false) ∧ (exitCodes after).length ≤ 1

theorem addAll_code_ok (expOk : Markdown.Line → Bool) (s : LineParser.State Cfg) (hc : Markdown.Clean s) (k : Nat)
    {ls : List Markdown.Line} (h : LinesParse expOk ls) :
    ∃ s', addAll expOk s (number k ls) = .ok s' ∧ s'.command ≠ [] ∧ s'.allowMultipleCommands = false := by
  obtain ⟨c0, more, after, rfl, hn, hexp, hcodes⟩ := h
  simp only [number, addAll, addBody_cmd expOk s hc]
  rw [number_append, addAll_append]
  have hconts := addAll_conts expOk more
    { s with inCommand := true, outputStartIndex := some k, command := [c0] } (k + 1) rfl (by simp) hc.amc
  rw [hconts]
  simp only []
  obtain ⟨ic, hic⟩ := addAll_after expOk after
    { s with inCommand := true, outputStartIndex := some k, command := [c0] ++ more }
    (k + 1 + (more.map contLine).length) (by simp) hc.amc (fun _ => hn) hexp
    (by simp only [hc.code]; exact hcodes)
  rw [hic]
  exact ⟨_, rfl, by simp, hc.amc⟩

/-- a scrut block token with an accepted configuration and acceptable code lines is accepted -/
theorem stepTok_test_ok (env : Env) (st : PState) (hc : Markdown.Clean st.lp) (lang : Markdown.Line)
    (cfg cm cd : Numbered)
    (hcfg : cfg.isEmpty = true ∨ env.testCfgOk (joinNumbered cfg) = true)
    (hcd : cd = [] ∨ ∃ k ls, cd = number k ls ∧ LinesParse env.expOk ls) :
    ∃ st', stepTok env st (.test lang cfg cm cd) = .ok st' ∧ Markdown.Clean st'.lp := by
  have hcfg' : ∃ c, (if cfg.isEmpty then (.ok none : Except Markdown.Err Cfg) else
      if env.testCfgOk (joinNumbered cfg) then .ok (some (joinNumbered cfg)) else .error .testConfigYaml) = .ok c := by
    by_cases he : cfg.isEmpty = true
    · exact ⟨none, by simp [he]⟩
    · rcases hcfg with h | h
      · exact absurd h he
      · exact ⟨some (joinNumbered cfg), by simp [he, h]⟩
  obtain ⟨c, hcc⟩ := hcfg'
  have hclean : Markdown.Clean (st.lp.setConfig c) := ⟨hc.cmd, hc.exps, hc.code, hc.osi, hc.amc⟩
  rcases hcd with rfl | ⟨k, ls, rfl, hls⟩
  · refine ⟨{ st with lp := st.lp.setConfig c, titleParagraph := [] }, ?_, hclean⟩
    simp only [stepTok, hcc, addAll, List.getLast?_nil]
  · obtain ⟨s', h1, h2, h3⟩ := addAll_code_ok env.expOk _ hclean k hls
    have hne : number k ls ≠ [] := by
      obtain ⟨c0, more, after, rfl, _⟩ := hls
      simp [number]
    obtain ⟨i, l, hl⟩ : ∃ i l, (number k ls).getLast? = some (i, l) := by
      cases h : (number k ls).getLast? with
      | none => exact absurd (List.getLast?_eq_none_iff.mp h) hne
      | some p => exact ⟨p.1, p.2, rfl⟩
    have he : s'.command.isEmpty = false := by cases hh : s'.command <;> simp_all
    simp only [stepTok, hcc, h1, hl, State.endTestcase, he, Bool.false_eq_true, if_false]
    exact ⟨_, rfl, ⟨rfl, rfl, rfl, rfl, by simpa [State.flush] using h3⟩⟩

/-- an accepted scrut block token has an accepted configuration -/
theorem stepTok_test_cfg {env : Env} {st st2 : PState} {lang : Markdown.Line} {cfg cm cd : Numbered}
    (h : stepTok env st (.test lang cfg cm cd) = .ok st2) :
    cfg.isEmpty = true ∨ env.testCfgOk (joinNumbered cfg) = true := by
  by_cases he : cfg.isEmpty = true
  · exact Or.inl he
  · by_cases ht : env.testCfgOk (joinNumbered cfg) = true
    · exact Or.inr ht
    · exfalso
      simp [stepTok, he, ht] at h

/-- the configuration text `update` writes is accepted if the original one is -/
theorem testCfgOk_written {cfg cfg' : Numbered} (hw : cfg'.map (·.2) = writtenCfg cfg)
    (h : cfg.isEmpty = true ∨ testCfgOk (joinNumbered cfg) = true) :
    cfg'.isEmpty = true ∨ testCfgOk (joinNumbered cfg') = true := by
  unfold writtenCfg at hw
  by_cases he : (trim (joinNumbered cfg)).isEmpty = true
  · simp only [he, if_true, List.map_eq_nil_iff] at hw
    subst hw
    exact Or.inl rfl
  · have he' : (trim (joinNumbered cfg)).isEmpty = false := by simpa using he
    simp only [he', Bool.false_eq_true, if_false] at hw
    have hc' : cfg.isEmpty = false := by
      cases cfg with
      | nil => exact absurd rfl he
      | cons a r => rfl
    have h' : testCfgOk (joinNumbered cfg) = true := by
      rcases h with h | h
      · rw [hc'] at h; cases h
      · exact h
    match cfg', hw with
    | [], hw => simp at hw
    | [a], hw =>
      right
      have ha : a.2 = blankStart (joinNumbered cfg) := by simpa using hw
      have e' : joinNumbered [a] = a.2 := by simp [joinNumbered, LineParser.joinNl]
      rw [e', ha]
      unfold testCfgOk at h' ⊢
      rw [blankStart_eq_skipWs, Yaml.parseFlow_skipWs]
      exact h'
    | _ :: _ :: _, hw => simp at hw

theorem parseTokens_cons_ok {env : Env} {st st1 : PState} {t : Tok} {r : List Tok}
    (h : parseTokens env st (t :: r) = .ok st1) :
    ∃ st2, stepTok env st t = .ok st2 ∧ parseTokens env st2 r = .ok st1 := by
  simp only [parseTokens] at h
  cases h1 : stepTok env st t with
  | error e => simp [h1] at h
  | ok st2 => exact ⟨st2, rfl, by simpa [h1] using h⟩

theorem parseTokens_cons_of {env : Env} {st st2 st1 : PState} {t : Tok} {r : List Tok}
    (h1 : stepTok env st t = .ok st2) (h2 : parseTokens env st2 r = .ok st1) :
    parseTokens env st (t :: r) = .ok st1 := by
  simp only [parseTokens, h1, h2]

/-- the code lines of a scrut block token carry consecutive indices -/
def CodeNumbered : Tok → Prop
  | .test _ _ _ cd => ∃ k, cd = number k (cd.map (·.2))
  | _ => True

theorem number_suffix : ∀ (a b : Numbered) (i : Nat) (body : List Markdown.Line), a ++ b = number i body →
    b = number (i + a.length) (b.map (·.2))
  | [], b, i, body, h => by
    simp only [List.nil_append] at h
    subst h
    simp [Update.number_map_snd]
  | x :: a, b, i, [], h => by simp [number] at h
  | x :: a, b, i, l :: body, h => by
    simp only [number, List.cons_append, List.cons.injEq] at h
    have := number_suffix a b (i + 1) body h.2
    have e : i + (x :: a).length = i + 1 + a.length := by simp; omega
    rw [e]
    exact this

theorem covers_numbered {L : List Markdown.Line} {i : Nat} {lines : List Markdown.Line} {toks : List Tok}
    (h : Covers L i lines toks) : ∀ t ∈ toks, CodeNumbered t := by
  induction h with
  | nil i => intro t ht; simp at ht
  | line i l rest toks _ _ ih =>
    intro t ht
    rcases List.mem_cons.mp ht with rfl | ht
    · trivial
    · exact ih t ht
  | frontClosed i body rest toks _ _ ih =>
    intro t ht
    rcases List.mem_cons.mp ht with rfl | ht
    · trivial
    · exact ih t ht
  | frontOpen i body _ =>
    intro t ht
    have : t = .docConfig (number (i + 1) body) := by simpa using ht
    subst this; trivial
  | verbClosed i opener bt language config body closer rest toks _ _ _ _ _ ih =>
    intro t ht
    rcases List.mem_cons.mp ht with rfl | ht
    · trivial
    · exact ih t ht
  | verbOpen i opener bt language config body _ _ _ =>
    intro t ht
    have : t = .verbatim i language (opener :: body) := by simpa using ht
    subst this; trivial
  | testClosed i opener bt language config body closer rest toks comments code _ _ _ _ hcc _ ih =>
    intro t ht
    rcases List.mem_cons.mp ht with rfl | ht
    · exact ⟨_, number_suffix comments code (i + 1) body hcc⟩
    · exact ih t ht
  | testOpen i opener bt language config body comments code _ _ _ hcc =>
    intro t ht
    have : t = .test language (cfgLines i config) comments code := by simpa using ht
    subst this
    exact ⟨_, number_suffix comments code (i + 1) body hcc⟩

/-- **the tokens of the written document are accepted if those of the original are** -/
theorem parseTokens_reread {gens : List (Option (List Char))} {k : Nat} {toks toks' : List Tok}
    (h : Reread gens k toks toks') :
    ∀ (st st' st1 : PState), Markdown.Clean st.lp → Markdown.Clean st'.lp →
      parseTokens parseEnv st toks = .ok st1 →
      cfgTexts toks' = (cfgsOf toks).map writtenCfg →
      (∀ (j : Nat) (g : List Char), gens[j]? = some (some g) → LinesParse expOk (splitLines g)) →
      (∀ t ∈ toks', CodeNumbered t) →
      ∃ st1', parseTokens parseEnv st' toks' = .ok st1' := by
  induction h with
  | nil k => intro st st' st1 _ _ _ _ _ _; exact ⟨st', rfl⟩
  | line k i i' l r r' _ ih =>
    intro st st' st1 hc hc' hp hcw hgens hnum
    obtain ⟨st2, h1, h2⟩ := parseTokens_cons_ok hp
    have hc2 := (stepTok_inv parseEnv st st2 hc _ h1).1
    obtain ⟨st2', h1', hc2'⟩ : ∃ st2', stepTok parseEnv st' (.line i' l) = .ok st2' ∧ Markdown.Clean st2'.lp := by
      simp only [stepTok]
      cases extractTitle parseEnv.isLetter l with
      | some title => exact ⟨_, rfl, ⟨hc'.cmd, hc'.exps, hc'.code, hc'.osi, hc'.amc⟩⟩
      | none => exact ⟨_, rfl, hc'⟩
    obtain ⟨st1', hh⟩ := ih st2 st2' st1 hc2 hc2' h2 (by simpa only [cfgTexts, cfgsOf] using hcw)
      hgens (fun t ht => hnum t (by simp [ht]))
    exact ⟨st1', parseTokens_cons_of h1' hh⟩
  | front k ls ls' r r' hl _ ih =>
    intro st st' st1 hc hc' hp hcw hgens hnum
    obtain ⟨st2, h1, h2⟩ := parseTokens_cons_ok hp
    have hc2 := (stepTok_inv parseEnv st st2 hc _ h1).1
    obtain ⟨st2', h1', hc2'⟩ : ∃ st2', stepTok parseEnv st' (.docConfig ls') = .ok st2' ∧ Markdown.Clean st2'.lp :=
      ⟨{ st' with docConfigs := st'.docConfigs ++ [joinNumbered ls'] }, by simp [stepTok, parseEnv], hc'⟩
    obtain ⟨st1', hh⟩ := ih st2 st2' st1 hc2 hc2' h2 (by simpa only [cfgTexts, cfgsOf] using hcw)
      hgens (fun t ht => hnum t (by simp [ht]))
    exact ⟨st1', parseTokens_cons_of h1' hh⟩
  | verbatim k s s' lang ls r r' _ ih =>
    intro st st' st1 hc hc' hp hcw hgens hnum
    obtain ⟨st2, h1, h2⟩ := parseTokens_cons_ok hp
    have hc2 := (stepTok_inv parseEnv st st2 hc _ h1).1
    have hlang : lang.isEmpty = false := by
      cases hh : lang.isEmpty with
      | false => rfl
      | true => simp [stepTok, hh] at h1
    obtain ⟨st2', h1', hc2'⟩ : ∃ st2', stepTok parseEnv st' (.verbatim s' lang ls) = .ok st2' ∧ Markdown.Clean st2'.lp :=
      ⟨st', by simp [stepTok, hlang], hc'⟩
    obtain ⟨st1', hh⟩ := ih st2 st2' st1 hc2 hc2' h2 (by simpa only [cfgTexts, cfgsOf] using hcw)
      hgens (fun t ht => hnum t (by simp [ht]))
    exact ⟨st1', parseTokens_cons_of h1' hh⟩
  | testNoCode k lang cfg cfg' cm cm' r r' _ _ _ ih =>
    intro st st' st1 hc hc' hp hcw hgens hnum
    obtain ⟨st2, h1, h2⟩ := parseTokens_cons_ok hp
    have hc2 := (stepTok_inv parseEnv st st2 hc _ h1).1
    simp only [cfgTexts, cfgsOf, List.map_cons, List.cons.injEq] at hcw
    obtain ⟨st2', h1', hc2'⟩ := stepTok_test_ok parseEnv st' hc' lang cfg' cm' []
      (testCfgOk_written hcw.1 (stepTok_test_cfg h1)) (Or.inl rfl)
    obtain ⟨st1', hh⟩ := ih st2 st2' st1 hc2 hc2' h2 hcw.2
      hgens (fun t ht => hnum t (by simp [ht]))
    exact ⟨st1', parseTokens_cons_of h1' hh⟩
  | testCode k lang cfg cfg' cm cm' cd cd' g r r' hcd hgk _ _ hcd' hne' _ ih =>
    intro st st' st1 hc hc' hp hcw hgens hnum
    obtain ⟨st2, h1, h2⟩ := parseTokens_cons_ok hp
    have hc2 := (stepTok_inv parseEnv st st2 hc _ h1).1
    simp only [cfgTexts, cfgsOf, List.map_cons, List.cons.injEq] at hcw
    obtain ⟨k', hk'⟩ : ∃ k', cd' = number k' (cd'.map (·.2)) := hnum (.test lang cfg' cm' cd') (by simp)
    obtain ⟨st2', h1', hc2'⟩ := stepTok_test_ok parseEnv st' hc' lang cfg' cm' cd'
      (testCfgOk_written hcw.1 (stepTok_test_cfg h1))
      (Or.inr ⟨k', splitLines g, by rw [← hcd']; exact hk', hgens k g hgk⟩)
    obtain ⟨st1', hh⟩ := ih st2 st2' st1 hc2 hc2' h2 hcw.2
      hgens (fun t ht => hnum t (by simp [ht]))
    exact ⟨st1', parseTokens_cons_of h1' hh⟩

theorem expOk_of_compile {o : Markdown.Line} {e : CExp} (h : compile o = .ok e) : expOk o = true := by
  unfold compile compileWith at h
  unfold expOk
  cases hp : Grammar.parse grammarParams o with
  | error x => simp [hp] at h
  | ok x => rfl

/-- the lines of every text handed to `generate_update` are accepted by the line parser -/
theorem gens_parse {isOther : Char → Bool} (hC : AsciiContract isOther) {content : List Char}
    {runs : List Ran} {text : List Char} {results : List Gen.UpdResult}
    (h : updateDocument isOther content runs = .updated text results)
    (hcr : NoStrayCR content) {p : Parsed} (hp : parseMarkdown parseEnv content = .ok p)
    (hcodes : ∀ r ∈ runs, 0 ≤ r.code ∧ r.code ≤ 255) (hq : QuantFree content results)
    {gens : List (Option (List Char))} (hg : docGens isOther content runs = some gens) :
    ∀ (j : Nat) (g : List Char), gens[j]? = some (some g) → LinesParse expOk (splitLines g) := by
  obtain ⟨tests, ht⟩ := docTests_of_result isOther content runs (Or.inr ⟨text, results, h⟩)
  obtain ⟨p0, hp0, _, hprep⟩ := docTests_spec ht
  rw [hp] at hp0
  cases hp0
  rw [updateDocument_of_docTests isOther content runs tests ht] at h
  obtain ⟨_, hlen, _, os, hj, hres, _, _⟩ := updateTests_updated h
  have hgens : gens = os.map (·.2) := by
    simp only [docGens, docOutcomes, ht, hj, Option.map_some, Option.some.injEq] at hg
    exact hg.symm
  have hb : Pairs (fun b tc => BlockOf parseEnv.expOk b.1 b.2 tc) (testBlocks (docToks content)) p.tests :=
    (parseLines_inv parseEnv (splitLines content) p hp).2
  intro j g hgj
  rw [hgens, List.getElem?_map] at hgj
  cases hoj : os[j]? with
  | none => simp [hoj] at hgj
  | some o =>
    simp only [hoj, Option.map_some, Option.some.injEq] at hgj
    obtain ⟨u, r, hu, hr, hot⟩ := judgeAll_get isOther tests runs os hj j o hoj
    have ho : o = (o.1, some g) := by rw [← hgj]
    rw [ho] at hot
    obtain ⟨t, htj, hprepj⟩ := hprep.get' j u hu
    obtain ⟨b, hbj, hblk⟩ := hb.get' j t htj
    have hclean : ∀ l ∈ b.2, Update.Clean l := by
      intro l hl
      have hm := docToks_code_mem content b (List.mem_of_getElem? hbj) l hl
      exact ⟨splitLines_no_nl content l hm, hcr l hm⟩
    obtain ⟨ex, newOrigs, c0, more, _, _, hpass, _, hsplit, hnoexit⟩ :=
      outcome_block_lines hC hblk hclean hprepj hot
    obtain ⟨hcode0, hcode1⟩ := hcodes r (List.mem_of_getElem? hr)
    have hcomp : u.Compiled := (prepareU_compiled hprepj).1
    have hquant : (∃ d, o.1 = .malformed d) → Unquantified u := by
      rintro ⟨d, hd⟩
      refine hq tests ht j u d hu ?_
      rw [hres, List.getElem?_map, hoj, Option.map_some, hd]
    obtain ⟨newExps, hne, _⟩ := hpass hcomp hquant
    have hnoexit' : ∀ o ∈ newOrigs, extractExitCode o = none :=
      fun o h => extractExitCode_of_not_form (hnoexit o h)
    refine ⟨c0, more, afterLines newOrigs r.code, by rw [hsplit]; simp, afterLines_notCont newOrigs r.code, ?_, ?_⟩
    · rw [expLines_afterLines newOrigs hnoexit' r.code hcode0 hcode1]
      intro e he
      refine ⟨?_, hnoexit e he⟩
      obtain ⟨i, hi, rfl⟩ := List.getElem_of_mem he
      obtain ⟨x, _, hx⟩ := hne.get i _ (List.getElem?_eq_getElem hi)
      exact expOk_of_compile hx
    · rw [exitCodes_afterLines newOrigs hnoexit' r.code hcode0 hcode1]
      split <;> simp

/-- **the written document parses** -/
theorem written_parses {isOther : Char → Bool} (hC : AsciiContract isOther) {content : List Char}
    {runs : List Ran} {text : List Char} {results : List Gen.UpdResult}
    (h : updateDocument isOther content runs = .updated text results)
    (hcr : NoStrayCR content) {p : Parsed} (hp : parseMarkdown parseEnv content = .ok p)
    (hcodes : ∀ r ∈ runs, 0 ≤ r.code ∧ r.code ≤ 255) (hq : QuantFree content results) :
    ∃ p', parseMarkdown parseEnv text = .ok p' := by
  have hf := frontClosed_of_updated h
  obtain ⟨gens, hg, hrr, hcw⟩ := run_reread_cfg h hcr hf
  have hgens := gens_parse hC h hcr hp hcodes hq hg
  have hnum : ∀ t ∈ docToks text, CodeNumbered t := by
    obtain ⟨toks, ht, hc⟩ := tokenize_covers [Gen.language] (splitLines text)
    rw [tokenize_docToks] at ht
    cases ht
    exact covers_numbered hc
  have hpt : ∃ st, parseTokens parseEnv {} (docToks content) = .ok st := by
    unfold parseMarkdown parseLines at hp
    have e : tokenize parseEnv.languages (splitLines content) = .ok (docToks content) := tokenize_docToks content
    rw [e] at hp
    simp only at hp
    cases hs : parseTokens parseEnv {} (docToks content) with
    | error e => simp [hs] at hp
    | ok st => exact ⟨st, rfl⟩
  obtain ⟨st, hst⟩ := hpt
  obtain ⟨st1', hst'⟩ := parseTokens_reread hrr {} {} st ⟨rfl, rfl, rfl, rfl, rfl⟩ ⟨rfl, rfl, rfl, rfl, rfl⟩ hst hcw
    hgens hnum
  refine ⟨{ docConfigs := st1'.docConfigs, tests := st1'.lp.testcases }, ?_⟩
  unfold parseMarkdown parseLines
  have e : tokenize parseEnv.languages (splitLines text) = .ok (docToks text) := tokenize_docToks text
  rw [e]
  simp only [hst']

/-- **U4**: updating the written document again with the same runs writes nothing -- no hypothesis about the
written document is left: it parses (`written_parses`), with the same configurations (`sameConfigs_of_guard`),
and an unterminated front-matter cannot occur (`frontClosed_of_updated`) -/
theorem run_idempotent_final {isOther : Char → Bool} (hC : AsciiContract isOther) {content : List Char}
    {runs : List Ran} {text : List Char} {results : List Gen.UpdResult}
    (h : updateDocument isOther content runs = .updated text results)
    (hcr : NoStrayCR content) {p : Parsed} (hp : parseMarkdown parseEnv content = .ok p)
    (hcodes : ∀ r ∈ runs, 0 ≤ r.code ∧ r.code ≤ 255) (hq : QuantFree content results) :
    ∃ rs, updateDocument isOther text runs = .unchanged rs := by
  obtain ⟨p', hp'⟩ := written_parses hC h hcr hp hcodes hq
  exact run_idempotent_guarded hC h hcr (frontClosed_of_updated h) hp hp' hcodes hq

/-- **U3** without the guard `FrontClosed` -/
theorem run_same_commands_final {isOther : Char → Bool} (hC : AsciiContract isOther) {content : List Char}
    {runs : List Ran} {text : List Char} {results : List Gen.UpdResult}
    (h : updateDocument isOther content runs = .updated text results)
    (hcr : NoStrayCR content)
    {p p' : Parsed} (hp : parseMarkdown parseEnv content = .ok p) (hp' : parseMarkdown parseEnv text = .ok p') :
    p'.tests.map (·.command) = p.tests.map (·.command) :=
  run_same_commands_parsed hC h hcr (frontClosed_of_updated h) hp hp'

end Scrut.UpdateRun
