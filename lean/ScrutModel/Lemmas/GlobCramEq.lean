import ScrutModel.Lemmas.Glob
/-! The Cram-compat glob and the plain glob agree on backslash-free patterns (on newline-free text). -/
namespace Scrut.Glob

/-- the token a character stands for when no escape is involved -/
def tokOf (c : Char) : Tok := if c = '*' then .many else if c = '?' then .one else .lit c

theorem cramTok_no_backslash (p : List Char) (h : '\\' ∉ p) : cramTok p false = p.map tokOf := by
  induction p with
  | nil => rfl
  | cons c rest ih =>
    have hc : c ≠ '\\' := fun e => h (by simp [e])
    have hr : '\\' ∉ rest := fun e => h (by simp [e])
    simp only [cramTok, if_neg hc, List.map_cons, tokOf, ih hr]
    by_cases h1 : c = '*'
    · simp [h1]
    · by_cases h2 : c = '?'
      · simp [h2]
      · simp [h1, h2]

theorem anySuffixNoNl_eq_anySuffix {f g : List Char → Bool} :
    ∀ s : List Char, '\n' ∉ s → (∀ t, '\n' ∉ t → f t = g t) → anySuffixNoNl f s = anySuffix g s := by
  intro s
  induction s with
  | nil => intro h hfg; simp only [anySuffixNoNl, anySuffix]; exact hfg [] (by simp)
  | cons c s ih =>
    intro h hfg
    have hc : c ≠ '\n' := fun e => h (by simp [e])
    have hs : '\n' ∉ s := fun e => h (by simp [e])
    have hb : (c != '\n') = true := by simpa using hc
    simp only [anySuffixNoNl, anySuffix, hfg (c :: s) h, ih hs hfg, hb, Bool.true_and]

theorem tokGo_map_eq_globGo (p : List Char) : ∀ s : List Char, '\n' ∉ s →
    tokGo (p.map tokOf) s = globGo p s := by
  induction p with
  | nil => intro s _; rfl
  | cons c p ih =>
    intro s hs
    by_cases h1 : c = '*'
    · subst h1
      simp only [List.map_cons, tokOf, if_true, tokGo, globGo]
      exact anySuffixNoNl_eq_anySuffix s hs ih
    · by_cases h2 : c = '?'
      · subst h2
        have : tokOf '?' = .one := by simp [tokOf]
        cases s with
        | nil => simp [this, tokGo, globGo]
        | cons d s =>
          have hd : d ≠ '\n' := fun e => hs (by simp [e])
          have hs' : '\n' ∉ s := fun e => hs (by simp [e])
          have hb : (d != '\n') = true := by simpa using hd
          simp [this, tokGo, globGo, hb, ih s hs']
      · have : tokOf c = .lit c := by simp [tokOf, h1, h2]
        cases s with
        | nil => simp [this, tokGo, globGo, h1]
        | cons d s =>
          have hs' : '\n' ∉ s := fun e => hs (by simp [e])
          have hbeq : (c == d) = decide (c = d) := by
            by_cases hcd : c = d <;> simp [hcd]
          simp [this, tokGo, globGo, h1, h2, ih s hs', hbeq]

theorem globGo_simplify (p s : List Char) : globGo (simplify p) s = globGo p s := by
  rw [Bool.eq_iff_iff, globGo_iff, globGo_iff, simplify_rel]

/-- Cram glob = plain glob when the pattern has no backslash -/
theorem cramMatch_eq_globMatch (p s : List Char) (hp : '\\' ∉ p) (hs : '\n' ∉ s) :
    cramMatch p s = globMatch p s := by
  unfold cramMatch cramTokens globMatch
  rw [cramTok_no_backslash p hp, tokGo_map_eq_globGo p s hs, globGo_simplify]

theorem cramRule_eq_globRule (e line : List Char) (he : '\\' ∉ e) (hl : IsLine line) :
    cramRuleMatches e line = globRuleMatches e line := by
  unfold cramRuleMatches globRuleMatches
  rw [trimNewlines_of_isLine hl]
  exact cramMatch_eq_globMatch e _ he hl

end Scrut.Glob
