import ScrutModel.Model.Divider
import ScrutModel.Lemmas.Template
/-! Round trip of the divider protocol: `iterate (joinStream …) = payloads`. -/
namespace Scrut.Divider
open Scrut.Template

/-! ### decimal numbers -/

theorem digit_toNat (n : Nat) : (digit n).toNat = 48 + n % 10 := by
  unfold digit
  rw [UInt8.toNat_ofNat']
  have : n % 10 < 10 := Nat.mod_lt _ (by decide)
  omega

theorem digitVal?_digit (n : Nat) : digitVal? (digit n) = some (n % 10) := by
  unfold digitVal?
  rw [digit_toNat]
  have : n % 10 < 10 := Nat.mod_lt _ (by decide)
  have h1 : 48 ≤ 48 + n % 10 ∧ 48 + n % 10 ≤ 57 := by omega
  simp only [h1, and_self, if_true]
  congr 1; omega

theorem digit_ne (n : Nat) (b : UInt8) (hb : b.toNat < 48 ∨ 57 < b.toNat) : digit n ≠ b := by
  intro h
  have := digit_toNat n
  rw [h] at this
  have : n % 10 < 10 := Nat.mod_lt _ (by decide)
  omega

theorem decF_snoc (fuel n : Nat) : ∃ f, decF fuel n = f ++ [digit n] := by
  cases fuel with
  | zero => exact ⟨[], rfl⟩
  | succ k =>
    unfold decF
    by_cases h : n < 10
    · exact ⟨[], by simp [h]⟩
    · exact ⟨decF k (n / 10), by simp [h]⟩

theorem decF_digits : ∀ (fuel n : Nat) (b : UInt8), b ∈ decF fuel n → ∃ k, b = digit k := by
  intro fuel
  induction fuel with
  | zero => intro n b hb; simp [decF] at hb; exact ⟨n, hb⟩
  | succ k ih =>
    intro n b hb
    unfold decF at hb
    by_cases h : n < 10
    · simp [h] at hb; exact ⟨n, hb⟩
    · simp only [h, if_false, List.mem_append, List.mem_singleton] at hb
      rcases hb with hb | hb
      · exact ih _ _ hb
      · exact ⟨n, hb⟩

theorem dec_not_mem (n : Nat) (b : UInt8) (hb : b.toNat < 48 ∨ 57 < b.toNat) : b ∉ dec n := by
  intro h
  obtain ⟨k, hk⟩ := decF_digits n n b h
  exact digit_ne k b hb hk.symm

theorem dec_ne_nil (n : Nat) : dec n ≠ [] := by
  obtain ⟨f, hf⟩ := decF_snoc n n
  unfold dec; rw [hf]; simp

theorem parseDigitsFrom_snoc : ∀ (xs : Bytes) (a : Nat) (d : UInt8),
    parseDigitsFrom a (xs ++ [d]) =
      (parseDigitsFrom a xs).bind (fun v => (digitVal? d).map (fun k => v * 10 + k)) := by
  intro xs
  induction xs with
  | nil =>
    intro a d
    simp only [List.nil_append, parseDigitsFrom]
    cases digitVal? d <;> simp [parseDigitsFrom]
  | cons x xs ih =>
    intro a d
    simp only [List.cons_append, parseDigitsFrom]
    cases digitVal? x with
    | none => simp
    | some k => simp [ih]

theorem parseDigitsFrom_decF : ∀ (fuel n : Nat), n ≤ fuel → parseDigitsFrom 0 (decF fuel n) = some n := by
  intro fuel
  induction fuel with
  | zero =>
    intro n hn
    have : n = 0 := Nat.le_zero.1 hn
    subst this
    simp [decF, parseDigitsFrom, digitVal?_digit]
  | succ k ih =>
    intro n hn
    unfold decF
    by_cases h : n < 10
    · simp only [h, if_true, parseDigitsFrom, digitVal?_digit]
      congr 1
      simp [Nat.mod_eq_of_lt h]
    · simp only [h, if_false]
      rw [parseDigitsFrom_snoc, ih (n / 10) (by omega), digitVal?_digit]
      simp only [Option.bind_some, Option.map_some]
      congr 1; omega

theorem parseDigits_dec (n : Nat) : parseDigits (dec n) = some n := by
  unfold parseDigits
  simp only [dec_ne_nil, if_false]
  exact parseDigitsFrom_decF n n (Nat.le_refl _)

theorem dec_head (n : Nat) : ∃ k r, dec n = digit k :: r := by
  cases h : dec n with
  | nil => exact absurd h (dec_ne_nil n)
  | cons b r =>
    obtain ⟨k, hk⟩ := decF_digits n n b (by unfold dec at h; rw [h]; simp)
    exact ⟨k, r, by rw [hk]⟩

theorem parseUsize_dec (n : Nat) (hn : n < 2 ^ 64) : parseUsize (dec n) = some n := by
  obtain ⟨k, r, h⟩ := dec_head n
  have h43 : digit k ≠ 43 := digit_ne k 43 (by decide)
  have hp := parseDigits_dec n
  rw [h] at hp
  unfold parseUsize
  rw [h]
  simp only [h43, if_false, hp, hn, if_true]

theorem parseI32_dec (n : Nat) (hn : n < 2 ^ 31) : parseI32 (dec n) = some (n : Int) := by
  obtain ⟨k, r, h⟩ := dec_head n
  have h43 : digit k ≠ 43 := digit_ne k 43 (by decide)
  have h45 : digit k ≠ 45 := digit_ne k 45 (by decide)
  have hp := parseDigits_dec n
  rw [h] at hp
  unfold parseI32
  rw [h]
  simp only [h45, h43, if_false, hp, hn, if_true]

/-! ### lines -/

theorem splitLines_line : ∀ (xs cur rest : Bytes), LF ∉ xs →
    splitLines cur (xs ++ LF :: rest) = (cur ++ xs ++ [LF]) :: splitLines [] rest := by
  intro xs
  induction xs with
  | nil => intro cur rest _; simp [splitLines]
  | cons x xs ih =>
    intro cur rest h
    have hx : x ≠ LF := fun e => h (by simp [e])
    have hxs : LF ∉ xs := fun e => h (by simp [e])
    simp only [List.cons_append, splitLines, hx, if_false]
    rw [ih (cur ++ [x]) rest hxs]
    simp

theorem trimNewlines_snoc_lf (x : Bytes) : trimNewlines (x ++ [LF]) = trimNewlines x := by
  simp [trimNewlines, List.dropWhile]

theorem trimNewlines_snoc_ne (y : Bytes) (d : UInt8) (h : d ≠ LF) : trimNewlines (y ++ [d]) = y ++ [d] := by
  simp [trimNewlines, List.dropWhile, h]

theorem trimNewlines_prefix (x : Bytes) : trimNewlines x <+: x := by
  unfold trimNewlines
  have h := List.dropWhile_suffix (fun b => decide (b = LF)) (l := x.reverse)
  have := (List.reverse_prefix (l₁ := List.dropWhile (fun b => decide (b = LF)) x.reverse) (l₂ := x.reverse)).2 h
  simpa using this

/-! ### the divider prefix and the salted divider start -/

theorem PREFIX_ne_nil : PREFIX ≠ [] := by decide

/-- a pattern none of whose proper non-empty suffixes is a prefix of it cannot start inside the
text in front of its own occurrence -/
theorem stripPrefix_overlap_none (pat t post : Bytes)
    (hub : ∀ k, 0 < k → k < pat.length → ¬ pat.drop k <+: pat)
    (ht : t ≠ []) (hno : ¬ pat <:+: t) :
    stripPrefix? pat (t ++ pat ++ post) = none := by
  rw [stripPrefix?_eq_none_iff]
  rintro ⟨r, hr⟩
  rw [List.append_assoc] at hr
  rcases List.append_eq_append_iff.1 hr with ⟨a', h1, _⟩ | ⟨c', h1, h2⟩
  · exact hno ⟨[], a', by simp [h1]⟩
  · have hc' : c' ≠ [] := by
      intro e; subst e
      exact hno ⟨[], [], by simp at h1; simp [← h1]⟩
    have hlen : pat.length = t.length + c'.length := by rw [h1]; simp
    have hk0 : 0 < t.length := List.length_pos_iff.2 ht
    have hk1 : t.length < pat.length := by
      have : 0 < c'.length := List.length_pos_iff.2 hc'
      omega
    have hdrop : pat.drop t.length = c' := by
      conv => lhs; rw [h1]
      simp
    have hpre : c' <+: pat := by
      rcases List.append_eq_append_iff.1 h2 with ⟨x, hx, _⟩ | ⟨x, hx, _⟩
      · have : c'.length = pat.length + x.length := by rw [hx]; simp
        omega
      · exact ⟨x, hx.symm⟩
    have := hub t.length hk0 hk1
    rw [hdrop] at this
    exact this hpre

theorem needle_ne_nil (salt : Bytes) : needle salt ≠ [] := by simp [needle, PREFIX]

/-- the shape of the divider start: eight `~`, then `E`, then bytes that are not `~` -/
theorem needle_shape (salt : Bytes) (h126 : (126 : UInt8) ∉ salt) :
    ∃ T, needle salt = 126 :: 126 :: 126 :: 126 :: 126 :: 126 :: 126 :: 126 :: 69 :: T ∧ ∀ x ∈ T, x ≠ (126 : UInt8) := by
  refine ⟨[88,69,67,68,73,86,73,68,69,82,58,58] ++ salt ++ SEP, by simp [needle, PREFIX], ?_⟩
  intro x hx
  simp only [List.mem_append] at hx
  rcases hx with (hx | hx) | hx
  · intro e; subst e; revert hx; decide
  · intro e; subst e; exact h126 hx
  · intro e; subst e; revert hx; decide

/-- no proper non-empty suffix of the divider start is a prefix of it (salt without `~`) -/
theorem needle_unbordered (salt : Bytes) (h126 : (126 : UInt8) ∉ salt) :
    ∀ k, 0 < k → k < (needle salt).length → ¬ (needle salt).drop k <+: needle salt := by
  intro k hk0 hk1 hpre
  obtain ⟨T, hT, htail⟩ := needle_shape salt h126
  have h69 : (69 : UInt8) ≠ 126 := by decide
  rw [hT] at hpre hk1
  rcases k with _ | _ | _ | _ | _ | _ | _ | _ | k
  · omega
  all_goals try (simp [List.cons_prefix_cons, h69] at hpre; done)
  · -- k ≥ 8: the suffix starts with a byte that is not `~`
    have hd : List.drop (k + 1 + 1 + 1 + 1 + 1 + 1 + 1 + 1)
        (126 :: 126 :: 126 :: 126 :: 126 :: 126 :: 126 :: 126 :: 69 :: T) = List.drop k (69 :: T) := by
      simp
    rw [hd] at hpre
    cases hx : List.drop k (69 :: T) with
    | nil =>
      have := List.drop_eq_nil_iff.1 hx
      simp only [List.length_cons] at this hk1
      omega
    | cons x xs =>
      rw [hx] at hpre
      have hx126 : x = 126 := (List.cons_prefix_cons.1 hpre).1
      have hmem : x ∈ (69 :: T : Bytes) := List.mem_of_mem_drop (by rw [hx]; simp)
      rcases List.mem_cons.1 hmem with h | h
      · exact h69 (h ▸ hx126)
      · exact htail x h hx126

theorem splitFirst_needle (salt cur tail : Bytes) (h126 : (126 : UInt8) ∉ salt) (h : ¬ needle salt <:+: cur) :
    splitFirst (needle salt) (cur ++ needle salt ++ tail) = some (cur, tail) := by
  apply splitFirst_append_of_none (needle salt) cur tail (needle_ne_nil salt)
  intro t ht hsuf
  exact stripPrefix_overlap_none (needle salt) t tail (needle_unbordered salt h126) ht
    (fun hin => h (List.IsInfix.trans hin hsuf.isInfix))

theorem splitFirst_sep (s t : Bytes) (hs : COLON ∉ s) : splitFirst SEP (s ++ SEP ++ t) = some (s, t) := by
  apply splitFirst_append_of_none SEP s t (by decide)
  intro u hu hsuf
  cases u with
  | nil => exact absurd rfl hu
  | cons x u' =>
    have hx : x ∈ s := hsuf.subset (by simp)
    have hne : COLON ≠ x := fun e => hs (e ▸ hx)
    simp [SEP, stripPrefix?, hne]

/-! ### the parser on the two kinds of lines -/

/-- what follows the divider start: index and exit code -/
def tailOf (i c : Nat) : Bytes := dec i ++ SEP ++ dec c

/-- text of a divider line without its LF, after the prefix -/
def body (salt : Bytes) (i c : Nat) : Bytes := salt ++ SEP ++ dec i ++ SEP ++ dec c

theorem needle_tail (salt : Bytes) (i c : Nat) : needle salt ++ tailOf i c = PREFIX ++ body salt i c := by
  simp [needle, tailOf, body]

theorem body_snoc (salt : Bytes) (i c : Nat) : ∃ g, body salt i c = g ++ [digit c] := by
  obtain ⟨f, hf⟩ := decF_snoc c c
  refine ⟨salt ++ SEP ++ dec i ++ SEP ++ f, ?_⟩
  unfold body dec
  rw [hf]; simp

theorem lf_not_mem_body (salt : Bytes) (i c : Nat) (hsl : LF ∉ salt) : LF ∉ PREFIX ++ body salt i c := by
  have h1 : LF ∉ PREFIX := by decide
  have h2 : LF ∉ SEP := by decide
  have h3 := dec_not_mem i LF (by decide)
  have h4 := dec_not_mem c LF (by decide)
  simp only [body, List.mem_append, not_or]
  exact ⟨h1, ⟨⟨⟨⟨hsl, h2⟩, h3⟩, h2⟩, h4⟩⟩

/-- `parse_divider_bytes` on the slice that starts at the divider start -/
theorem parseDivider_bare (salt : Bytes) (i c : Nat) (hs : COLON ∉ salt) (hi : i < 2 ^ 64) (hc : c < 2 ^ 31) :
    parseDivider (needle salt ++ tailOf i c) = some (.found none i (c : Int)) := by
  obtain ⟨g, hg⟩ := body_snoc salt i c
  have hd : digit c ≠ LF := digit_ne c LF (by decide)
  have htrim : trimNewlines (PREFIX ++ body salt i c) = PREFIX ++ body salt i c := by
    rw [hg]
    have : PREFIX ++ (g ++ [digit c]) = (PREFIX ++ g) ++ [digit c] := by simp
    rw [this, trimNewlines_snoc_ne _ _ hd]
  have hsp : splitFirst PREFIX (PREFIX ++ body salt i c) = some ([], body salt i c) := by
    have := splitFirst_append_of_none PREFIX [] (body salt i c) PREFIX_ne_nil
      (fun t ht hsuf => absurd (List.suffix_nil.1 hsuf) ht)
    simpa using this
  have h58 : COLON ∉ dec i := dec_not_mem i COLON (by decide)
  have hb : body salt i c = salt ++ SEP ++ (dec i ++ SEP ++ dec c) := by simp [body]
  rw [needle_tail]
  unfold parseDivider
  simp only [htrim, hsp]
  rw [hb]
  simp only [splitFirst_sep salt _ hs, splitFirst_sep (dec i) _ h58, parseUsize_dec i hi, parseI32_dec c hc]
  simp

theorem parseSalted_divider (salt cur : Bytes) (i c : Nat) (hs : COLON ∉ salt) (h126 : (126 : UInt8) ∉ salt)
    (hcur : ¬ needle salt <:+: cur) (hi : i < 2 ^ 64) (hc : c < 2 ^ 31) :
    parseSalted salt (cur ++ (PREFIX ++ body salt i c) ++ [LF]) =
      some (.found (if cur = [] then none else some cur) i (c : Int)) := by
  obtain ⟨g, hg⟩ := body_snoc salt i c
  have hd : digit c ≠ LF := digit_ne c LF (by decide)
  have htrim : trimNewlines (cur ++ (PREFIX ++ body salt i c) ++ [LF]) = cur ++ needle salt ++ tailOf i c := by
    rw [trimNewlines_snoc_lf, hg]
    have : cur ++ (PREFIX ++ (g ++ [digit c])) = (cur ++ PREFIX ++ g) ++ [digit c] := by simp
    rw [this, trimNewlines_snoc_ne _ _ hd]
    have := needle_tail salt i c
    rw [hg] at this
    simp only [List.append_assoc] at this ⊢
    rw [this]
  unfold parseSalted
  simp only [htrim, splitFirst_needle salt cur _ h126 hcur, parseDivider_bare salt i c hs hi hc]

theorem parseSalted_plain (salt cur : Bytes) (hcur : ¬ needle salt <:+: cur) :
    parseSalted salt (cur ++ [LF]) = some .notFound := by
  have h : splitFirst (needle salt) (trimNewlines (cur ++ [LF])) = none := by
    rw [trimNewlines_snoc_lf, splitFirst_none_iff]
    exact fun hin => hcur (List.IsInfix.trans hin (trimNewlines_prefix cur).isInfix)
  unfold parseSalted
  simp only [h]

/-! ### one test's chunk, then the whole stream -/

theorem chunk_eq (salt : Bytes) (i c : Nat) (payload : Bytes) :
    chunk salt i payload c = payload ++ ((PREFIX ++ body salt i c) ++ [LF]) := by
  simp [chunk, body]

theorem iterLines_chunk (limit : Option Nat) (salt : Bytes) (hs : COLON ∉ salt) (hsl : LF ∉ salt)
    (h126 : (126 : UInt8) ∉ salt)
    (i c : Nat) (hi : i < 2 ^ 64) (hc : c < 2 ^ 31) (hl : ∀ n, limit = some n → i < n) (rest : Bytes) :
    ∀ (payload cur : Bytes) (buf : List Bytes), ¬ needle salt <:+: (cur ++ payload) →
      iterLines salt limit (splitLines cur (chunk salt i payload c ++ rest)) buf i =
        match iterLines salt limit (splitLines [] rest) [] (i + 1) with
        | .ok r => .ok ((buf.flatten ++ cur ++ payload, (c : Int)) :: r)
        | .error e => .error e := by
  intro payload
  generalize hR : iterLines salt limit (splitLines [] rest) [] (i + 1) = R
  induction payload with
  | nil =>
    intro cur buf hno
    simp only [List.append_nil] at hno
    rw [chunk_eq]
    have hline := splitLines_line (PREFIX ++ body salt i c) cur rest (lf_not_mem_body salt i c hsl)
    simp only [List.nil_append, List.append_assoc, List.singleton_append] at hline ⊢
    rw [hline]
    have hp := parseSalted_divider salt cur i c hs h126 hno hi hc
    simp only [List.append_assoc] at hp
    unfold iterLines
    simp only [hp, ne_eq, not_true_eq_false, if_false]
    simp only [hR]
    cases hlim : limit with
    | none => by_cases hcur : cur = [] <;> cases R <;> simp [hcur]
    | some n =>
      have hn : ¬ n ≤ i := by have := hl n hlim; omega
      by_cases hcur : cur = [] <;> cases R <;> simp [hcur, hn]
  | cons b p ih =>
    intro cur buf hno
    have hstep : chunk salt i (b :: p) c ++ rest = b :: (chunk salt i p c ++ rest) := by simp [chunk]
    rw [hstep]
    by_cases hb : b = LF
    · subst hb
      have hcur : ¬ needle salt <:+: cur := fun hin => hno (List.IsInfix.trans hin (List.prefix_append _ _).isInfix)
      have hp' : ¬ needle salt <:+: ([] ++ p) := fun hin =>
        hno (List.IsInfix.trans hin (by simpa using (List.suffix_append (cur ++ [LF]) p).isInfix))
      simp only [splitLines, if_true]
      unfold iterLines
      simp only [parseSalted_plain salt cur hcur]
      rw [ih [] (buf ++ [cur ++ [LF]]) hp']
      cases R <;> simp
    · have hno' : ¬ needle salt <:+: ((cur ++ [b]) ++ p) := by simpa using hno
      simp only [splitLines, hb, if_false]
      rw [ih (cur ++ [b]) buf hno']
      cases R <;> simp

theorem noSalted_iff (salt p : Bytes) : noSalted salt p = true ↔ ¬ needle salt <:+: p := by
  unfold noSalted
  rw [Option.isNone_iff_eq_none, splitFirst_none_iff]

theorem iterLines_joinStream (limit : Option Nat) (salt : Bytes) (hs : COLON ∉ salt) (hsl : LF ∉ salt)
    (h126 : (126 : UInt8) ∉ salt) :
    ∀ (tests : List (Bytes × Nat)) (i : Nat),
      (∀ t ∈ tests, noSalted salt t.1 = true ∧ t.2 < 2 ^ 31) → i + tests.length ≤ 2 ^ 64 →
      (∀ n, limit = some n → i + tests.length ≤ n) →
      iterLines salt limit (splitLines [] (joinStream salt i tests)) [] i =
        .ok (tests.map fun t => (t.1, (t.2 : Int))) := by
  intro tests
  induction tests with
  | nil => intro i _ _ _; simp [joinStream, splitLines, iterLines]
  | cons t r ih =>
    intro i hall hlen hlim
    obtain ⟨p, c⟩ := t
    have ht := hall (p, c) (by simp)
    have hno : ¬ needle salt <:+: ([] ++ p) := by simpa using (noSalted_iff salt p).1 ht.1
    simp only [List.length_cons] at hlen hlim
    simp only [joinStream]
    rw [iterLines_chunk limit salt hs hsl h126 i c (by omega) ht.2 (fun n hn => by have := hlim n hn; omega)
      (joinStream salt (i + 1) r) p [] [] hno]
    rw [ih (i + 1) (fun t ht' => hall t (by simp [ht'])) (by omega) (fun n hn => by have := hlim n hn; omega)]
    simp

/-! ### `execute_all` on the streams a shell produces -/

theorem firstSkip_none (skip : Int) : ∀ (l : List (Bytes × Int)) (i : Nat),
    (∀ t ∈ l, t.2 ≠ skip) → firstSkip skip l i = none := by
  intro l
  induction l with
  | nil => intro i _; rfl
  | cons t r ih =>
    intro i h
    obtain ⟨o, c⟩ := t
    have hc : c ≠ skip := h (o, c) (by simp)
    simp only [firstSkip, hc, if_false]
    exact ih _ (fun t ht => h t (by simp [ht]))

theorem zipErr_map (k : Bytes × Bytes × Nat → Int) : ∀ tests : List (Bytes × Bytes × Nat),
    zipErr (tests.map fun t => (t.1, (t.2.2 : Int))) (tests.map fun t => (t.2.1, k t)) =
      tests.map fun t => ⟨t.1, t.2.1, (t.2.2 : Int)⟩ := by
  intro tests
  induction tests with
  | nil => rfl
  | cons t r ih => simp [zipErr, ih]

theorem zipErr_nil : ∀ tests : List (Bytes × Nat),
    zipErr (tests.map fun t => (t.1, (t.2 : Int))) [] = tests.map fun t => ⟨t.1, [], (t.2 : Int)⟩ := by
  intro tests
  induction tests with
  | nil => rfl
  | cons t r ih => simp [zipErr, ih]

/-- separated streams: STDOUT carries payload and exit code, STDERR the payload; the code on the
STDERR dividers (`ec`: since the exit code is taken by `__SCRUT_EXIT_CODE=$?` it is the test's own
code; before, it was that of the preceding `echo`, 0) only has to parse, its value is ignored -/
theorem executeAll_separate (salt : Bytes) (hs : COLON ∉ salt) (hsl : LF ∉ salt) (h126 : (126 : UInt8) ∉ salt)
    (skip scriptExit : Int)
    (tests : List (Bytes × Bytes × Nat)) (ec : Bytes × Bytes × Nat → Nat)
    (hse : scriptExit ≠ skip) (hlen : tests.length ≤ 2 ^ 64)
    (hg : ∀ t ∈ tests, noSalted salt t.1 = true ∧ noSalted salt t.2.1 = true ∧ t.2.2 < 2 ^ 31 ∧ (t.2.2 : Int) ≠ skip)
    (hec : ∀ t ∈ tests, ec t < 2 ^ 31) :
    executeAll salt tests.length false skip scriptExit
        (joinStream salt 0 (tests.map fun t => (t.1, t.2.2)))
        (joinStream salt 0 (tests.map fun t => (t.2.1, ec t))) =
      .ok (tests.map fun t => ⟨t.1, t.2.1, (t.2.2 : Int)⟩) := by
  have hout := iterLines_joinStream none salt hs hsl h126 (tests.map fun t => (t.1, t.2.2)) 0
    (by
      intro t ht
      obtain ⟨u, hu, rfl⟩ := List.mem_map.1 ht
      exact ⟨(hg u hu).1, (hg u hu).2.2.1⟩)
    (by simpa using hlen) (by intro n hn; cases hn)
  have herr := iterLines_joinStream (some tests.length) salt hs hsl h126 (tests.map fun t => (t.2.1, ec t)) 0
    (by
      intro t ht
      obtain ⟨u, hu, rfl⟩ := List.mem_map.1 ht
      exact ⟨(hg u hu).2.1, hec u hu⟩)
    (by simpa using hlen) (by intro n hn; cases hn; simp)
  have hskip : firstSkip skip ((tests.map fun t => (t.1, t.2.2)).map fun t => (t.1, (t.2 : Int))) 0 = none := by
    apply firstSkip_none
    intro t ht
    simp only [List.map_map, List.mem_map, Function.comp] at ht
    obtain ⟨u, hu, rfl⟩ := ht
    exact (hg u hu).2.2.2
  unfold executeAll iterate splitAtNewline
  simp only [hse, if_false, hout, hskip, List.length_map, ne_eq, not_true_eq_false, herr]
  simp only [List.map_map, Function.comp_def]
  exact congrArg ExecResult.ok (zipErr_map (fun t => ((ec t : Nat) : Int)) tests)

/-- merged streams (`output_stream: combined`): only STDOUT is split -/
theorem executeAll_combined (salt : Bytes) (hs : COLON ∉ salt) (hsl : LF ∉ salt) (h126 : (126 : UInt8) ∉ salt)
    (skip scriptExit : Int)
    (tests : List (Bytes × Nat)) (stderr : Bytes) (hse : scriptExit ≠ skip) (hlen : tests.length ≤ 2 ^ 64)
    (hg : ∀ t ∈ tests, noSalted salt t.1 = true ∧ t.2 < 2 ^ 31 ∧ (t.2 : Int) ≠ skip) :
    executeAll salt tests.length true skip scriptExit (joinStream salt 0 tests) stderr =
      .ok (tests.map fun t => ⟨t.1, [], (t.2 : Int)⟩) := by
  have hout := iterLines_joinStream none salt hs hsl h126 tests 0
    (fun t ht => ⟨(hg t ht).1, (hg t ht).2.1⟩) (by simpa using hlen) (by intro n hn; cases hn)
  have hskip : firstSkip skip (tests.map fun t => (t.1, (t.2 : Int))) 0 = none := by
    apply firstSkip_none
    intro t ht
    obtain ⟨u, hu, rfl⟩ := List.mem_map.1 ht
    exact (hg u hu).2.2
  unfold executeAll iterate splitAtNewline
  simp only [hse, if_false, hout, hskip, List.length_map, ne_eq, not_true_eq_false, if_true]
  exact congrArg ExecResult.ok (zipErr_nil tests)

/-! ## the script text (`compile_script`) -/

/-- the footer of test `index`: what `compile_script` pushes behind the expression -/
def footerLines (salt : List Char) (combined : Bool) (index : Nat) : List (List Char) :=
  [[], assignLine, echoLine salt index] ++
    (if combined then [] else [echoErrLine salt index]) ++ [unsetLine]

theorem testLines_eq (salt : List Char) (combined : Bool) (index : Nat) (expr : List Char) :
    testLines salt combined index expr = expr :: footerLines salt combined index := by
  cases combined <;> rfl

theorem scriptLines_append (salt : List Char) (combined : Bool) : ∀ (pre post : List (List Char)) (i : Nat),
    scriptLines salt combined i (pre ++ post) =
      scriptLines salt combined i pre ++ scriptLines salt combined (i + pre.length) post := by
  intro pre
  induction pre with
  | nil => intro post i; simp [scriptLines]
  | cons e es ih =>
    intro post i
    simp only [List.cons_append, scriptLines, ih, List.append_assoc, List.length_cons]
    rw [show i + 1 + es.length = i + (es.length + 1) by omega]

theorem qmark_not_mem_dec (k : Nat) : '?' ∉ (dec k).map (fun b => Char.ofNat b.toNat) := by
  intro h
  obtain ⟨b, hb, he⟩ := List.mem_map.1 h
  obtain ⟨d, rfl⟩ := decF_digits _ _ b hb
  rw [digit_toNat] at he
  have hall : ∀ m, m < 10 → Char.ofNat (48 + m) ≠ '?' := by decide
  exact hall (d % 10) (Nat.mod_lt _ (by decide)) he

theorem qmark_not_mem_dividerText (salt : List Char) (k : Nat) (hs : '?' ∉ salt) :
    '?' ∉ dividerText salt k := by
  have hd := qmark_not_mem_dec k
  have hp : '?' ∉ PREFIX.map (fun b => Char.ofNat b.toNat) := by decide
  have he : '?' ∉ EXITVAR := by decide
  simp only [dividerText, List.mem_append, not_or]
  refine ⟨⟨⟨⟨⟨hp, hs⟩, by decide⟩, hd⟩, by decide⟩, he⟩

theorem qmark_not_mem_echoLine (salt : List Char) (k : Nat) (hs : '?' ∉ salt) :
    '?' ∉ echoLine salt k := by
  have h := qmark_not_mem_dividerText salt k hs
  simp only [echoLine, List.mem_append, not_or]
  exact ⟨⟨by decide, h⟩, by decide⟩

theorem qmark_not_mem_echoErrLine (salt : List Char) (k : Nat) (hs : '?' ∉ salt) :
    '?' ∉ echoErrLine salt k := by
  have h := qmark_not_mem_dividerText salt k hs
  simp only [echoErrLine, List.mem_append, not_or]
  exact ⟨⟨by decide, h⟩, by decide⟩

theorem intercalate_cons_cons {α : Type} (sep a b : List α) (l : List (List α)) :
    sep.intercalate (a :: b :: l) = a ++ sep ++ sep.intercalate (b :: l) := by
  simp [List.intercalate, List.intersperse]


theorem intercalate_append {α : Type} (sep : List α) : ∀ (l1 l2 : List (List α)), l1 ≠ [] → l2 ≠ [] →
    sep.intercalate (l1 ++ l2) = sep.intercalate l1 ++ sep ++ sep.intercalate l2 := by
  intro l1
  induction l1 with
  | nil => intro l2 h; exact absurd rfl h
  | cons a t ih =>
    intro l2 _ h2
    cases t with
    | nil =>
      cases l2 with
      | nil => exact absurd rfl h2
      | cons b l => simp [List.intercalate, List.intersperse]
    | cons b t =>
      rw [List.cons_append, List.cons_append, intercalate_cons_cons, ← List.cons_append,
        ih l2 (by simp) h2, intercalate_cons_cons]
      simp [List.append_assoc]

/-- the text of an expression with its footer -/
theorem intercalate_testLines (salt : List Char) (combined : Bool) (k : Nat) (e : List Char) :
    [NL].intercalate (testLines salt combined k e) =
      e ++ [NL, NL] ++ assignLine ++ [NL] ++ echoLine salt k ++ [NL] ++
        (if combined then [] else echoErrLine salt k ++ [NL]) ++ unsetLine := by
  cases combined <;> simp [testLines, List.intercalate, List.intersperse]

theorem testLines_ne_nil (salt : List Char) (combined : Bool) (k : Nat) (e : List Char) :
    testLines salt combined k e ≠ [] := by simp [testLines]

theorem scriptLines_ne_nil (salt : List Char) (combined : Bool) (k : Nat) (e : List Char) (es : List (List Char)) :
    scriptLines salt combined k (e :: es) ≠ [] := by simp [scriptLines, testLines]

/-- `compile_script`, around any one of its expressions -/
theorem compileScript_at (salt : List Char) (combined : Bool) (exports pre : List (List Char))
    (e : List Char) (post : List (List Char)) :
    ∃ head tail : List Char,
      compileScript salt combined exports (pre ++ e :: post) =
        head ++ (e ++ [NL, NL] ++ assignLine ++ [NL] ++ echoLine salt pre.length ++ [NL] ++
          (if combined then [] else echoErrLine salt pre.length ++ [NL]) ++ unsetLine) ++ tail ∧
      (head = [] ∨ head.getLast? = some NL) ∧ (tail = [] ∨ tail.head? = some NL) := by
  have hne : pre ++ e :: post ≠ [] := by simp
  unfold compileScript
  rw [if_neg hne, scriptLines_append, ← List.append_assoc]
  simp only [scriptLines, Nat.zero_add]
  rw [← intercalate_testLines]
  generalize hH : exports ++ scriptLines salt combined 0 pre = H
  generalize hT : scriptLines salt combined (pre.length + 1) post = T
  have hmid := testLines_ne_nil salt combined pre.length e
  by_cases h1 : H = [] <;> by_cases h2 : T = []
  · exact ⟨[], [], by simp [h1, h2], Or.inl rfl, Or.inl rfl⟩
  · refine ⟨[], [NL] ++ [NL].intercalate T, ?_, Or.inl rfl, Or.inr rfl⟩
    rw [h1, List.nil_append, intercalate_append _ _ _ hmid h2]
    simp [List.append_assoc]
  · refine ⟨[NL].intercalate H ++ [NL], [], ?_, Or.inr (by simp), Or.inl rfl⟩
    rw [h2, List.append_nil, intercalate_append _ _ _ h1 hmid]
    simp [List.append_assoc]
  · refine ⟨[NL].intercalate H ++ [NL], [NL] ++ [NL].intercalate T, ?_, Or.inr (by simp), Or.inr rfl⟩
    rw [intercalate_append _ _ _ h1 (by simp [hmid]), intercalate_append _ _ _ hmid h2]
    simp [List.append_assoc]

/-- a line of the script that holds a `?` is one of the expressions or the assignment -/
theorem scriptLines_qmark (salt : List Char) (combined : Bool) (hs : '?' ∉ salt) :
    ∀ (exprs : List (List Char)) (i : Nat) (l : List Char), l ∈ scriptLines salt combined i exprs → '?' ∈ l →
      l ∈ exprs ∨ l = assignLine := by
  intro exprs
  induction exprs with
  | nil => intro i l h; simp [scriptLines] at h
  | cons e es ih =>
    intro i l h hq
    simp only [scriptLines, List.mem_append] at h
    rcases h with h | h
    · have hu : '?' ∉ unsetLine := by decide
      have h1 := qmark_not_mem_echoLine salt i hs
      have h2 := qmark_not_mem_echoErrLine salt i hs
      rw [testLines_eq] at h
      rcases List.mem_cons.1 h with rfl | h
      · exact Or.inl (List.mem_cons_self ..)
      · have hf : l = [] ∨ l = assignLine ∨ l = echoLine salt i ∨ l = echoErrLine salt i ∨ l = unsetLine := by
          cases combined <;> simp [footerLines] at h <;> rcases h with h | h | h | h <;> simp [h]
        rcases hf with rfl | rfl | rfl | rfl | rfl
        · simp at hq
        · exact Or.inr rfl
        · exact absurd hq h1
        · exact absurd hq h2
        · exact absurd hq hu
    · rcases ih (i + 1) l h hq with h | h
      · exact Or.inl (List.mem_cons_of_mem _ h)
      · exact Or.inr h

end Scrut.Divider
