import ScrutModel.Model.Crlf
/-! `replace_crlf` (the loop) computes the specification and never panics. -/
namespace Scrut.Crlf

theorem spec_of_findCrlf_none : ∀ bs : List UInt8, findCrlf bs = none → replaceCrlfSpec bs = bs := by
  intro bs
  induction bs with
  | nil => intro _; rfl
  | cons a t ih =>
    intro h
    unfold findCrlf at h
    by_cases hc : a = CR ∧ t.head? = some LF
    · simp [hc] at h
    · simp only [hc, if_false, Option.map_eq_none_iff] at h
      unfold replaceCrlfSpec
      simp only [hc, if_false, ih h]

theorem spec_of_findCrlf_some : ∀ (bs : List UInt8) (i : Nat), findCrlf bs = some i →
    i + 1 ≤ bs.length ∧ replaceCrlfSpec bs = bs.take i ++ replaceCrlfSpec (bs.drop (i + 1)) := by
  intro bs
  induction bs with
  | nil => intro i h; simp [findCrlf] at h
  | cons a t ih =>
    intro i h
    unfold findCrlf at h
    by_cases hc : a = CR ∧ t.head? = some LF
    · simp only [hc, and_self, if_true, Option.some.injEq] at h
      subst h
      constructor
      · simp
      · conv => lhs; unfold replaceCrlfSpec
        simp [hc]
    · simp only [hc, if_false, Option.map_eq_some_iff] at h
      obtain ⟨j, hj, rfl⟩ := h
      obtain ⟨h1, h2⟩ := ih j hj
      constructor
      · simp; omega
      · conv => lhs; unfold replaceCrlfSpec
        simp only [hc, if_false]
        rw [h2]
        simp

theorem crlfLoop_eq : ∀ (fuel : Nat) (replaced rest : List UInt8) (index : Nat),
    findCrlf rest = some index → rest.length ≤ fuel →
    crlfLoop fuel replaced rest index = some (replaced ++ replaceCrlfSpec rest) := by
  intro fuel
  induction fuel with
  | zero =>
    intro replaced rest index h hl
    have : rest = [] := List.length_eq_zero_iff.1 (Nat.le_zero.1 hl)
    subst this
    simp [findCrlf] at h
  | succ fuel ih =>
    intro replaced rest index h hl
    obtain ⟨h1, h2⟩ := spec_of_findCrlf_some rest index h
    have hle : index ≤ rest.length := by omega
    unfold crlfLoop
    simp only [sliceTo?, sliceFrom?, hle, h1, if_true]
    cases hn : findCrlf (rest.drop (index + 1)) with
    | none =>
      simp only
      rw [h2, spec_of_findCrlf_none _ hn]
      simp
    | some next =>
      simp only
      have hlen : (rest.drop (index + 1)).length ≤ fuel := by
        simp only [List.length_drop]; omega
      rw [ih (replaced ++ rest.take index) (rest.drop (index + 1)) next hn hlen, h2]
      simp

/-- the loop of `replace_crlf` never slices out of range and returns the specified bytes -/
theorem replaceCrlf_eq_spec (bs : List UInt8) : replaceCrlf bs = some (replaceCrlfSpec bs) := by
  unfold replaceCrlf
  cases h : findCrlf bs with
  | none => simp [spec_of_findCrlf_none bs h]
  | some i =>
    simp only
    rw [crlfLoop_eq bs.length [] bs i h (Nat.le_refl _)]
    simp

/-- nothing is added or reordered: the result is a sub-sequence of the input -/
theorem spec_sublist : ∀ bs : List UInt8, (replaceCrlfSpec bs).Sublist bs := by
  intro bs
  induction bs with
  | nil => exact List.Sublist.slnil
  | cons a t ih =>
    unfold replaceCrlfSpec
    by_cases hc : a = CR ∧ t.head? = some LF
    · simp only [hc, and_self, if_true]; exact List.Sublist.cons _ ih
    · simp only [hc, if_false]; exact List.Sublist.cons_cons _ ih

/-- only CR bytes can be dropped -/
theorem spec_filter_ne_cr : ∀ bs : List UInt8,
    (replaceCrlfSpec bs).filter (· ≠ CR) = bs.filter (· ≠ CR) := by
  intro bs
  induction bs with
  | nil => rfl
  | cons a t ih =>
    unfold replaceCrlfSpec
    by_cases hc : a = CR ∧ t.head? = some LF
    · simp only [hc, and_self, if_true, ih]
      simp
    · simp only [hc, if_false]
      simp only [ne_eq, decide_not] at ih
      simp [List.filter_cons, ih]

/-- an output without CR LF is untouched -/
theorem spec_id_of_no_crlf (bs : List UInt8) (h : findCrlf bs = none) : replaceCrlfSpec bs = bs :=
  spec_of_findCrlf_none bs h

theorem renderOutput_keep (stripAnsi : Option Bool) (strip : List UInt8 → Option (List UInt8)) (bs : List UInt8)
    (hs : stripAnsi ≠ some true) : renderOutput (some true) stripAnsi strip bs = some bs := by
  simp [renderOutput, hs]

theorem renderOutput_no_strip (keepCrlf stripAnsi : Option Bool) (strip : List UInt8 → Option (List UInt8)) (bs : List UInt8)
    (hs : stripAnsi ≠ some true) :
    renderOutput keepCrlf stripAnsi strip bs = some (if keepCrlf = some true then bs else replaceCrlfSpec bs) := by
  by_cases hk : keepCrlf = some true
  · simp [renderOutput, hs, hk]
  · simp [renderOutput, hs, hk, replaceCrlf_eq_spec]

theorem renderOutput_strip (keepCrlf : Option Bool) (strip : List UInt8 → Option (List UInt8)) (bs : List UInt8) :
    renderOutput keepCrlf (some true) strip bs = strip (if keepCrlf = some true then bs else replaceCrlfSpec bs) := by
  by_cases hk : keepCrlf = some true
  · simp [renderOutput, hk]
  · simp [renderOutput, hk, replaceCrlf_eq_spec]

end Scrut.Crlf
