import ScrutModel.Lemmas.EscapingRoundTrip
/-!
# The documented grammar of `(escaped)` expressions, and the two-pass decoder
-/
namespace Scrut.EscLemmas
open Scrut.Utf8 Scrut.Esc Scrut.EscF

/-- `\a \b \e \f \r \t \v` -/
def ctlVal (d : Char) : Option UInt8 :=
  if d = 'a' then some 7 else if d = 'b' then some 8 else if d = 'e' then some 27
  else if d = 'f' then some 12 else if d = 'r' then some 13 else if d = 't' then some 9
  else if d = 'v' then some 11 else none

/-- the documented reading of an escaped expression: `\xHH` (two hex digits), `\0OO` (two octal
digits), `\\`, the control letters, any other `\c` stays `\c`, everything else is its UTF-8 -/
inductive Unescape : List Char → List UInt8 → Prop
  | nil : Unescape [] []
  | lit (c : Char) (r : List Char) (bs : List UInt8) : c ≠ '\\' → Unescape r bs →
      Unescape (c :: r) (String.utf8EncodeChar c ++ bs)
  | hex (h1 h2 : Char) (a b : Nat) (r : List Char) (bs : List UInt8) :
      hexVal h1 = some a → hexVal h2 = some b → Unescape r bs →
      Unescape ('\\' :: 'x' :: h1 :: h2 :: r) (UInt8.ofNat (a * 16 + b) :: bs)
  | oct (o1 o2 : Char) (a b : Nat) (r : List Char) (bs : List UInt8) :
      octVal o1 = some a → octVal o2 = some b → Unescape r bs →
      Unescape ('\\' :: '0' :: o1 :: o2 :: r) (UInt8.ofNat (a * 8 + b) :: bs)
  | backslash (r : List Char) (bs : List UInt8) : Unescape r bs → Unescape ('\\' :: '\\' :: r) (92 :: bs)
  | ctl (d : Char) (v : UInt8) (r : List Char) (bs : List UInt8) : ctlVal d = some v → Unescape r bs →
      Unescape ('\\' :: d :: r) (v :: bs)
  | other (d : Char) (r : List Char) (bs : List UInt8) :
      d ≠ 'x' → d ≠ '0' → d ≠ '\\' → ctlVal d = none → Unescape r bs →
      Unescape ('\\' :: d :: r) (92 :: (String.utf8EncodeChar d ++ bs))

theorem hexVal_ne {c : Char} {a : Nat} (h : hexVal c = some a) : c ≠ '\\' ∧ c ≠ '+' := by
  constructor <;> (intro he; subst he; simp [hexVal] at h)

theorem octVal_ne {c : Char} {a : Nat} (h : octVal c = some a) : c ≠ '\\' ∧ c ≠ '+' := by
  constructor <;> (intro he; subst he; simp [octVal] at h)

theorem unescapeTabs_0 (r : List Char) :
    unescapeTabs ('\\' :: '0' :: r) = '\\' :: '0' :: unescapeTabs r := by
  rw [unescapeTabs]; simp

theorem resolve_0 (o1 o2 : Char) (a b : Nat) (h1p : o1 ≠ '+') (ha : octVal o1 = some a)
    (hb : octVal o2 = some b) (r : List Char) :
    resolve ('\\' :: '0' :: o1 :: o2 :: r) = (resolve r).map (UInt8.ofNat (a * 8 + b) :: ·) := by
  rw [resolve.eq_def]; simp (decide := true) [parsePair, h1p, ha, hb]
  cases resolve r <;> simp

theorem Tok.hex {h1 h2 : Char} {a b : Nat} (ha : hexVal h1 = some a) (hb : hexVal h2 = some b) :
    Tok ['\\', 'x', h1, h2] [UInt8.ofNat (a * 16 + b)] := by
  intro r
  have ⟨n1, p1⟩ := hexVal_ne ha
  have ⟨n2, _⟩ := hexVal_ne hb
  simp only [List.cons_append, List.nil_append]
  rw [unescapeTabs_x, unescapeTabs_cons_ne n1, unescapeTabs_cons_ne n2, resolve_x _ _ _ _ p1 ha hb]

theorem Tok.oct {o1 o2 : Char} {a b : Nat} (ha : octVal o1 = some a) (hb : octVal o2 = some b) :
    Tok ['\\', '0', o1, o2] [UInt8.ofNat (a * 8 + b)] := by
  intro r
  have ⟨n1, p1⟩ := octVal_ne ha
  have ⟨n2, _⟩ := octVal_ne hb
  simp only [List.cons_append, List.nil_append]
  rw [unescapeTabs_0, unescapeTabs_cons_ne n1, unescapeTabs_cons_ne n2, resolve_0 _ _ _ _ p1 ha hb]

theorem Tok.ctl {d : Char} {v : UInt8} (h : ctlVal d = some v) : Tok ['\\', d] [v] := by
  intro r
  simp only [List.cons_append, List.nil_append]
  unfold ctlVal at h
  repeat' split at h
  all_goals first
    | (simp at h; done)
    | (subst_vars
       simp only [Option.some.injEq] at h
       subst h
       rw [unescapeTabs]
       simp (decide := true) only [if_true, if_false, List.cons_append, List.nil_append]
       rw [resolve_cons_ne (by decide)]
       rfl)

theorem Tok.other {d : Char} (hx : d ≠ 'x') (h0 : d ≠ '0') (hb : d ≠ '\\') (hc : ctlVal d = none) :
    Tok ['\\', d] (92 :: String.utf8EncodeChar d) := by
  intro r
  simp only [List.cons_append, List.nil_append]
  have hd : d ≠ 'a' ∧ d ≠ 'b' ∧ d ≠ 'e' ∧ d ≠ 'f' ∧ d ≠ 'r' ∧ d ≠ 't' ∧ d ≠ 'v' := by
    unfold ctlVal at hc
    refine ⟨?_, ?_, ?_, ?_, ?_, ?_, ?_⟩ <;> (intro he; subst he; simp (decide := true) at hc)
  rw [unescapeTabs]
  simp only [hd, if_true, if_false, List.cons_append, List.nil_append]
  rw [resolve.eq_def]
  simp [h0, hx, hb]

/-- every expression of the documented grammar is read by the two passes as its documented bytes -/
theorem Unescape.tok {e : List Char} {bs : List UInt8} (h : Unescape e bs) : Tok e bs := by
  induction h with
  | nil => exact Tok.nil
  | lit c r bs hc _ ih => exact Tok.append (Tok.char hc) ih
  | hex h1 h2 a b r bs ha hb _ ih => exact Tok.append (Tok.hex ha hb) ih
  | oct o1 o2 a b r bs ha hb _ ih => exact Tok.append (Tok.oct ha hb) ih
  | backslash r bs _ ih => exact Tok.append (Tok.byte 92 (by decide)) ih
  | ctl d v r bs hv _ ih => exact Tok.append (Tok.ctl hv) ih
  | other d r bs hx h0 hb hc _ ih =>
    have := Tok.append (Tok.other hx h0 hb hc) ih
    simpa using this

/-- **two passes implement the documented grammar** (one direction): `Unescape e bs → decode e = some bs` -/
theorem decode_of_Unescape {e : List Char} {bs : List UInt8} (h : Unescape e bs) : decode e = some bs :=
  h.tok.decode_eq

end Scrut.EscLemmas
