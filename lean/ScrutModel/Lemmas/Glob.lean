import ScrutModel.Model.Glob
/-! Specification relations for the two glob kinds and the proofs that the executable matchers
decide exactly these relations. -/
namespace Scrut.Glob

/-- The documented meaning of a glob: `?` is exactly one character, `*` is any run of characters
(also the empty one), every other character stands for itself, and the *whole* text is consumed. -/
inductive GlobRel : List Char → List Char → Prop
  | nil : GlobRel [] []
  | lit {c p s} : c ≠ '*' → c ≠ '?' → GlobRel p s → GlobRel (c :: p) (c :: s)
  | one {c p s} : GlobRel p s → GlobRel ('?' :: p) (c :: s)
  | star {p s t} (r : List Char) : t = r ++ s → GlobRel p s → GlobRel ('*' :: p) t

theorem anySuffix_iff (f : List Char → Bool) (s : List Char) :
    anySuffix f s = true ↔ ∃ r t, s = r ++ t ∧ f t = true := by
  induction s with
  | nil =>
    simp only [anySuffix]
    constructor
    · intro h; exact ⟨[], [], rfl, h⟩
    · rintro ⟨r, t, h, ht⟩
      have : t = [] := by
        have := congrArg List.length h
        simp at this
        exact List.eq_nil_of_length_eq_zero (by omega)
      subst this; exact ht
  | cons c s ih =>
    simp only [anySuffix, Bool.or_eq_true, ih]
    constructor
    · rintro (h | ⟨r, t, h, ht⟩)
      · exact ⟨[], c :: s, rfl, h⟩
      · exact ⟨c :: r, t, by simp [h], ht⟩
    · rintro ⟨r, t, h, ht⟩
      cases r with
      | nil => left; simp at h; subst h; exact ht
      | cons d r =>
        right
        simp at h
        exact ⟨r, t, h.2, ht⟩

theorem globRel_star_inv {p s : List Char} (h : GlobRel ('*' :: p) s) :
    ∃ r t, s = r ++ t ∧ GlobRel p t := by
  cases h with
  | lit h1 _ _ => exact absurd rfl h1
  | star r e h => exact ⟨r, _, e, h⟩

theorem globGo_iff (p s : List Char) : globGo p s = true ↔ GlobRel p s := by
  induction p generalizing s with
  | nil =>
    cases s with
    | nil => simp [globGo]; exact GlobRel.nil
    | cons c s => simp [globGo]; intro h; cases h
  | cons pc p ih =>
    by_cases hstar : pc = '*'
    · subst hstar
      simp only [globGo, if_true, anySuffix_iff]
      constructor
      · rintro ⟨r, t, rfl, ht⟩
        exact GlobRel.star r rfl ((ih t).1 ht)
      · intro h
        obtain ⟨r, t, rfl, ht⟩ := globRel_star_inv h
        exact ⟨r, t, rfl, (ih t).2 ht⟩
    · cases s with
      | nil =>
        simp only [globGo, if_neg hstar]
        constructor
        · intro h; cases h
        · intro h
          cases h with
          | star r _ h' => exact absurd rfl hstar
      | cons c s =>
        simp only [globGo, if_neg hstar, Bool.and_eq_true, Bool.or_eq_true, decide_eq_true_eq, ih]
        constructor
        · rintro ⟨hq | hc, h⟩
          · subst hq; exact GlobRel.one h
          · subst hc
            by_cases hq : pc = '?'
            · subst hq; exact GlobRel.one h
            · exact GlobRel.lit hstar hq h
        · intro h
          cases h with
          | lit _ _ h' => exact ⟨Or.inr rfl, h'⟩
          | one h' => exact ⟨Or.inl rfl, h'⟩
          | star r _ h' => exact absurd rfl hstar

/-- `**` means the same as `*` -/
theorem globRel_star_star (p s : List Char) : GlobRel ('*' :: '*' :: p) s ↔ GlobRel ('*' :: p) s := by
  constructor
  · intro h
    obtain ⟨r, t, rfl, ht⟩ := globRel_star_inv h
    obtain ⟨r', t', rfl, ht'⟩ := globRel_star_inv ht
    exact GlobRel.star (r ++ r') (by simp) ht'
  · intro h
    obtain ⟨r, t, rfl, ht⟩ := globRel_star_inv h
    exact GlobRel.star r rfl (GlobRel.star [] rfl ht)

theorem globRel_cons_congr {p q : List Char} (h : ∀ s, GlobRel p s ↔ GlobRel q s) (c : Char) (s : List Char) :
    GlobRel (c :: p) s ↔ GlobRel (c :: q) s := by
  constructor
  · intro hr
    cases hr with
    | lit h1 h2 h' => exact GlobRel.lit h1 h2 ((h _).1 h')
    | one h' => exact GlobRel.one ((h _).1 h')
    | star r e h' => exact GlobRel.star r e ((h _).1 h')
  · intro hr
    cases hr with
    | lit h1 h2 h' => exact GlobRel.lit h1 h2 ((h _).2 h')
    | one h' => exact GlobRel.one ((h _).2 h')
    | star r e h' => exact GlobRel.star r e ((h _).2 h')

/-- the simplification done by `WildMatch::new` does not change the meaning -/
theorem simplify_rel (p : List Char) : ∀ s, GlobRel (simplify p) s ↔ GlobRel p s := by
  induction p with
  | nil => intro s; simp [simplify]
  | cons c rest ih =>
    intro s
    by_cases h : c = '*' ∧ rest.head? = some '*'
    · simp only [simplify, if_pos h]
      obtain ⟨hc, hr⟩ := h
      subst hc
      cases rest with
      | nil => simp at hr
      | cons d rest' =>
        simp at hr
        subst hr
        rw [ih s, globRel_star_star]
    · simp only [simplify, if_neg h]
      exact globRel_cons_congr ih c s

theorem globMatch_iff (p s : List Char) : globMatch p s = true ↔ GlobRel p s := by
  unfold globMatch
  rw [globGo_iff, simplify_rel]

/-! ## Lines -/

/-- a line as `split_at_newline` hands it to a rule: no newline except possibly the last character -/
def IsLine (l : List Char) : Prop := '\n' ∉ dropFinalNewline l

instance (l : List Char) : Decidable (IsLine l) := by unfold IsLine; infer_instance

theorem dropWhile_nl_of_not_mem {l : List Char} (h : '\n' ∉ l) :
    (l.reverse.dropWhile (· == '\n')).reverse = l := by
  cases hl : l.reverse with
  | nil => simp at hl; subst hl; rfl
  | cons c r =>
    have hc : c ∈ l := by
      have : c ∈ l.reverse := by rw [hl]; simp
      simpa using this
    have hne : c ≠ '\n' := fun e => h (e ▸ hc)
    have : (c == '\n') = false := by simpa using hne
    rw [List.dropWhile_cons, this]
    simp only [Bool.false_eq_true, if_false]
    rw [← hl, List.reverse_reverse]

theorem trimNewlines_of_isLine {l : List Char} (h : IsLine l) : trimNewlines l = dropFinalNewline l := by
  unfold IsLine at h
  unfold trimNewlines
  unfold dropFinalNewline at h ⊢
  by_cases hl : l.getLast? = some '\n'
  · simp only [hl, if_true] at h ⊢
    have hsplit : l = l.dropLast ++ ['\n'] := by
      have hne : l ≠ [] := by intro e; subst e; simp at hl
      have := List.dropLast_concat_getLast hne
      rw [List.getLast?_eq_some_getLast hne] at hl
      simp at hl
      rw [hl] at this
      exact this.symm
    have : l.reverse = '\n' :: l.dropLast.reverse := by
      conv => lhs; rw [hsplit]
      simp
    rw [this, List.dropWhile_cons]
    simp only [beq_self_eq_true, if_true]
    exact dropWhile_nl_of_not_mem h
  · simp only [hl, if_false] at h ⊢
    exact dropWhile_nl_of_not_mem h

/-! ## Cram-compat glob -/

/-- Meaning of the token list the Cram glob compiles to (an anchored regex): a literal is
itself, `.` is one character other than newline, `.*` any run of such characters. -/
inductive TokRel : List Tok → List Char → Prop
  | nil : TokRel [] []
  | lit {c p s} : TokRel p s → TokRel (.lit c :: p) (c :: s)
  | one {c p s} : c ≠ '\n' → TokRel p s → TokRel (.one :: p) (c :: s)
  | many {p s t} (r : List Char) : t = r ++ s → '\n' ∉ r → TokRel p s → TokRel (.many :: p) t

theorem anySuffixNoNl_iff (f : List Char → Bool) (s : List Char) :
    anySuffixNoNl f s = true ↔ ∃ r t, s = r ++ t ∧ '\n' ∉ r ∧ f t = true := by
  induction s with
  | nil =>
    simp only [anySuffixNoNl]
    constructor
    · intro h; exact ⟨[], [], rfl, by simp, h⟩
    · rintro ⟨r, t, h, _, ht⟩
      have : t = [] := by
        have := congrArg List.length h
        simp at this
        exact List.eq_nil_of_length_eq_zero (by omega)
      subst this; exact ht
  | cons c s ih =>
    simp only [anySuffixNoNl, Bool.or_eq_true, Bool.and_eq_true, ih, bne_iff_ne, ne_eq]
    constructor
    · rintro (h | ⟨hc, r, t, h, hr, ht⟩)
      · exact ⟨[], c :: s, rfl, by simp, h⟩
      · refine ⟨c :: r, t, by simp [h], ?_, ht⟩
        simp only [List.mem_cons, not_or]
        exact ⟨fun e => hc e.symm, hr⟩
    · rintro ⟨r, t, h, hr, ht⟩
      cases r with
      | nil => left; simp at h; subst h; exact ht
      | cons d r =>
        right
        simp at h
        simp only [List.mem_cons, not_or] at hr
        obtain ⟨rfl, h2⟩ := h
        exact ⟨fun e => hr.1 e.symm, r, t, h2, hr.2, ht⟩

theorem tokGo_iff (p : List Tok) (s : List Char) : tokGo p s = true ↔ TokRel p s := by
  induction p generalizing s with
  | nil =>
    cases s with
    | nil => simp [tokGo]; exact TokRel.nil
    | cons c s => simp [tokGo]; intro h; cases h
  | cons t p ih =>
    cases t with
    | many =>
      simp only [tokGo, anySuffixNoNl_iff]
      constructor
      · rintro ⟨r, t, rfl, hr, ht⟩
        exact TokRel.many r rfl hr ((ih t).1 ht)
      · intro h
        cases h with
        | many r e hr h' => exact ⟨r, _, e, hr, (ih _).2 h'⟩
    | one =>
      cases s with
      | nil => simp only [tokGo]; constructor <;> intro h <;> cases h
      | cons c s =>
        simp only [tokGo, Bool.and_eq_true, bne_iff_ne, ne_eq, ih]
        constructor
        · rintro ⟨hc, h⟩; exact TokRel.one hc h
        · intro h; cases h with | one hc h' => exact ⟨hc, h'⟩
    | lit x =>
      cases s with
      | nil => simp only [tokGo]; constructor <;> intro h <;> cases h
      | cons c s =>
        simp only [tokGo, Bool.and_eq_true, beq_iff_eq, ih]
        constructor
        · rintro ⟨rfl, h⟩; exact TokRel.lit h
        · intro h; cases h with | lit h' => exact ⟨rfl, h'⟩

theorem cramMatch_iff (p s : List Char) : cramMatch p s = true ↔ TokRel (cramTokens p) s := tokGo_iff _ _

end Scrut.Glob
