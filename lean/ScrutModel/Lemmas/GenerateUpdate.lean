import ScrutModel.Lemmas.GenerateCreate
import ScrutModel.Lemmas.DiffWF
/-!
# C09: `generate_testcase` for a test with expectations (`scrut update`)
-/
namespace Scrut.GenLemmas
open Scrut.Utf8 Scrut.Esc Scrut.EscLemmas Scrut.Rules Scrut.Gen Scrut.Diff
open Scrut.Grammar (Params parse)

/-! ### the create path is the special case "no expectations" -/

theorem rangeFrom_cons {a b : Nat} (h : a < b) : rangeFrom a b = a :: rangeFrom (a + 1) b := by
  rw [← rangeFrom_append (Nat.le_succ a) h, rangeFrom_succ]; rfl

theorem linesAt_range (pre ls : List (List UInt8)) :
    linesAt (pre ++ ls) (rangeFrom pre.length (pre.length + ls.length)) = some ls := by
  induction ls generalizing pre with
  | nil => simp [linesAt]
  | cons l ls ih =>
    rw [rangeFrom_cons (by simp)]
    have h := ih (pre ++ [l])
    simp only [List.length_append, List.length_cons, List.length_nil, List.append_assoc,
      List.singleton_append] at h
    have h2 : pre.length + (ls.length + 1) = pre.length + (0 + 1) + ls.length := by omega
    simp only [linesAt, List.length_cons, h2, h]
    simp

theorem linesAt_all (ls : List (List UInt8)) : linesAt ls (rangeFrom 0 ls.length) = some ls := by
  simpa using linesAt_range [] ls

/-- a generated (or no) first line: the exit code stays behind the expectation lines -/
theorem withExitCode_false (body : List Char) (code : Int) :
    withExitCode false body code = body ++ exitCodeOpt code := by
  simp [withExitCode]

theorem withExitCode_not_cont (k : Bool) (body : List Char) (code : Int) (h : body.take 2 ≠ ['>', ' ']) :
    withExitCode k body code = body ++ exitCodeOpt code := by
  simp [withExitCode, h]

theorem withExitCode_cont (body : List Char) (code : Int) (h : body.take 2 = ['>', ' ']) :
    withExitCode true body code = exitCodeLine code ++ body := by
  simp [withExitCode, h]

theorem generateTestcase_ok (m : Mode) (isOther : Char → Bool) (cmd : List Char) (out : List UInt8)
    (lines : List (List UInt8)) (code : Int) :
    generateTestcase m isOther cmd .ok out code = generateTestcaseUpd m isOther cmd [] .ok lines code := by
  unfold generateTestcase generateTestcaseUpd
  cases expression cmd <;> simp [withExitCode]

theorem generateTestcase_invalidExit (m : Mode) (isOther : Char → Bool) (cmd : List Char) (out : List UInt8)
    (origs : List (List Char)) (actual code : Int) :
    generateTestcase m isOther cmd (.invalidExit actual) out code =
      generateTestcaseUpd m isOther cmd origs (.invalidExit actual) (Newline.splitAtNewline out) code := by
  unfold generateTestcase generateTestcaseUpd
  cases expression cmd <;> simp

theorem diffBody_unexpected_all (m : Mode) (isOther : Char → Bool) (origs : List (List Char))
    (ls : List (List UInt8)) :
    diffBody m isOther origs ls [.unexpected (rangeFrom 0 ls.length)] = expectationLines m isOther ls := by
  simp only [diffBody, linesAt_all, Option.bind_some]
  cases expectationLines m isOther ls <;> simp

theorem generateTestcase_malformed (m : Mode) (isOther : Char → Bool) (cmd : List Char) (out : List UInt8)
    (ls : List (List UInt8)) (code : Int) :
    generateTestcase m isOther cmd (.malformed ls) out code =
      generateTestcaseUpd m isOther cmd [] (.malformed [.unexpected (rangeFrom 0 ls.length)]) ls code := by
  unfold generateTestcase generateTestcaseUpd
  cases expression cmd with
  | none => rfl
  | some ex =>
    have hk : firstKept [.unexpected (rangeFrom 0 ls.length)] = false := by
      simp only [firstKept]; split <;> rfl
    simp only [diffBody_unexpected_all, hk, withExitCode_false, List.append_assoc]

/-- `createResult` is `validate` (`updResult`) of a test without expectations and without expected
exit code -/
theorem generateTestcase_create_upd (m : Mode) (isOther : Char → Bool) (cmd : List Char) (out : List UInt8)
    (code : Int) (es : Nat → Diff.Exp) (mt : Nat → Nat → Bool) :
    generateTestcase m isOther cmd (createResult out code) out code =
      generateTestcaseUpd m isOther cmd []
        (updResult none (diff 0 (Newline.splitAtNewline out).length es mt) code)
        (Newline.splitAtNewline out) code := by
  rw [diff_no_expectations]
  unfold createResult updResult
  by_cases hc : code = 0
  · subst hc
    cases hs : Newline.splitAtNewline out with
    | nil => simpa [hasDiff] using generateTestcase_ok m isOther cmd out [] 0
    | cons l ls =>
      have := generateTestcase_malformed m isOther cmd out (l :: ls) 0
      simpa [hasDiff] using this
  · simpa [hc] using generateTestcase_invalidExit m isOther cmd out [] code code

/-- `InvalidExitCode`: whatever the expectations were, the text is what `create` writes for the
output and the actual exit code -/
theorem generateTestcaseUpd_invalidExit_create (m : Mode) (isOther : Char → Bool) (cmd : List Char)
    (origs : List (List Char)) (out : List UInt8) (actual code : Int) :
    generateTestcaseUpd m isOther cmd origs (.invalidExit actual) (Newline.splitAtNewline out) code =
      generateTestcase m isOther cmd (createResult out actual) out actual := by
  cases hex : expression cmd with
  | none => simp [generateTestcaseUpd, generateTestcase, hex]
  | some ex =>
    rw [generateTestcase_create m isOther cmd ex out actual hex]
    simp [generateTestcaseUpd, hex]

/-! ### the updated expectation list -/

/-- one entry of the expectation list `update` writes: expectation `ei` of the test as it was
(`original_string`), or the expectation generated for output line `li` -/
inductive Slot where
  | kept (ei : Nat)
  | gen (li : Nat)
  deriving DecidableEq, Repr

def DL.slots : DL → List Slot
  | .matched ei _ => [.kept ei]
  | .unmatched _ => []
  | .unexpected ls => ls.map .gen

/-- the expectation list `generate_testcase` writes for `MalformedOutput(d)` -/
def slots (d : List DL) : List Slot := d.flatMap DL.slots

/-- the text of one entry, with its line feed -/
def slotText (m : Mode) (isOther : Char → Bool) (origs : List (List Char)) (lines : List (List UInt8)) :
    Slot → Option (List Char)
  | .kept ei => origs[ei]?.map assureNewlineC
  | .gen li => (lines[li]?.bind (expectationLine m isOther)).map (· ++ ['\n'])

def slotsText (m : Mode) (isOther : Char → Bool) (origs : List (List Char)) (lines : List (List UInt8)) :
    List Slot → Option (List Char)
  | [] => some []
  | s :: r =>
    match slotText m isOther origs lines s, slotsText m isOther origs lines r with
    | some a, some b => some (a ++ b)
    | _, _ => none

theorem slotsText_append (m : Mode) (isOther : Char → Bool) (origs : List (List Char))
    (lines : List (List UInt8)) (a b : List Slot) :
    slotsText m isOther origs lines (a ++ b) =
      match slotsText m isOther origs lines a, slotsText m isOther origs lines b with
      | some x, some y => some (x ++ y)
      | _, _ => none := by
  induction a with
  | nil => simp only [List.nil_append, slotsText]; cases slotsText m isOther origs lines b <;> rfl
  | cons s a ih =>
    simp only [List.cons_append, slotsText, ih]
    cases slotText m isOther origs lines s <;> cases slotsText m isOther origs lines a <;>
      cases slotsText m isOther origs lines b <;> simp

theorem slotsText_gen (m : Mode) (isOther : Char → Bool) (origs : List (List Char))
    (lines : List (List UInt8)) (is : List Nat) :
    slotsText m isOther origs lines (is.map .gen) = (linesAt lines is).bind (expectationLines m isOther) := by
  induction is with
  | nil => rfl
  | cons i is ih =>
    simp only [List.map_cons, slotsText, ih, slotText, linesAt]
    cases hi : lines[i]? with
    | none => simp
    | some l =>
      cases hr : linesAt lines is with
      | none => cases expectationLine m isOther l <;> simp
      | some r =>
        simp only [Option.bind_some, expectationLines]
        cases expectationLine m isOther l <;> cases expectationLines m isOther r <;> simp

/-- the body `generate_testcase` writes for `MalformedOutput(d)` is the text of the entries of
`slots d`, one after the other -/
theorem diffBody_eq_slots (m : Mode) (isOther : Char → Bool) (origs : List (List Char))
    (lines : List (List UInt8)) (d : List DL) :
    diffBody m isOther origs lines d = slotsText m isOther origs lines (slots d) := by
  induction d with
  | nil => rfl
  | cons x d ih =>
    have hs : slots (x :: d) = DL.slots x ++ slots d := by simp [slots]
    rw [hs, slotsText_append, ← ih]
    cases x with
    | matched ei ls =>
      simp only [diffBody, DL.slots, slotsText, slotText]
      cases origs[ei]? <;> cases diffBody m isOther origs lines d <;> simp
    | unmatched ei =>
      simp only [diffBody, DL.slots, slotsText]
      cases diffBody m isOther origs lines d <;> rfl
    | unexpected ls =>
      simp only [diffBody, DL.slots, slotsText_gen]
      cases (linesAt lines ls).bind (expectationLines m isOther) <;>
        cases diffBody m isOther origs lines d <;> rfl

/-! ### where the exit code line goes (fix cfef990) -/

/-- is the first entry of the list a retained expectation -/
def headKept : List Slot → Bool
  | .kept _ :: _ => true
  | _ => false

/-- `first_kept` of `generate_testcase` is: the first entry of the written list is a retained one -/
theorem firstKept_slots (d : List DL) : firstKept d = headKept (slots d) := by
  induction d with
  | nil => rfl
  | cons x d ih =>
    have hs : slots (x :: d) = DL.slots x ++ slots d := by simp [slots]
    rw [hs]
    cases x with
    | matched ei ls => rfl
    | unmatched ei => simpa [firstKept, DL.slots] using ih
    | unexpected ls =>
      cases ls with
      | nil => simpa [firstKept, DL.slots] using ih
      | cons i r => simp [firstKept, DL.slots, headKept]

theorem headKept_gen (ls : List Nat) : headKept (ls.map .gen) = false := by cases ls <;> rfl

/-- `starts_with("> ")` of a text whose first line is `assure_newline` of `o` looks at `o` only -/
theorem take2_assureNewlineC (o rest : List Char) :
    ((assureNewlineC o ++ rest).take 2 == ['>', ' ']) = (o.take 2 == ['>', ' ']) := by
  unfold assureNewlineC
  match o with
  | [] => simp
  | [c] =>
    by_cases hc : c = '\n'
    · subst hc
      cases rest <;> simp
    · simp [hc]
  | a :: b :: r => split <;> simp

/-- `starts_with("> ")` of a list of expectation texts written one after the other: the first text decides -/
def contHead : List (List Char) → Bool
  | o :: _ => o.take 2 == ['>', ' ']
  | [] => false

/-- the first line written behind the command is a RETAINED original text that starts like a continuation
line (`> `) -/
def contFirst (origs : List (List Char)) : List Slot → Bool
  | .kept ei :: _ => match origs[ei]? with | some o => o.take 2 == ['>', ' '] | none => false
  | _ => false

theorem withExitCode_contHead (origs : List (List Char)) (code : Int) :
    withExitCode true (origs.flatMap assureNewlineC) code =
      if contHead origs then exitCodeLine code ++ origs.flatMap assureNewlineC
      else origs.flatMap assureNewlineC ++ exitCodeOpt code := by
  cases origs with
  | nil => simp [withExitCode, contHead]
  | cons o r =>
    simp only [withExitCode, List.flatMap_cons, take2_assureNewlineC, contHead, Bool.true_and]

/-- **the placement of the exit code line**, `MalformedOutput`: in front iff the first entry is a
retained text starting with `> `; otherwise behind the expectation lines and only if not 0 -/
theorem withExitCode_slots (m : Mode) (isOther : Char → Bool) (origs : List (List Char))
    (lines : List (List UInt8)) (sl : List Slot) (body : List Char) (code : Int)
    (h : slotsText m isOther origs lines sl = some body) :
    withExitCode (headKept sl) body code =
      if contFirst origs sl then exitCodeLine code ++ body else body ++ exitCodeOpt code := by
  cases sl with
  | nil => simp [headKept, contFirst, withExitCode_false]
  | cons s r =>
    cases s with
    | gen li => simp [headKept, contFirst, withExitCode_false]
    | kept ei =>
      simp only [slotsText, slotText] at h
      cases ho : origs[ei]? with
      | none => simp [ho] at h
      | some o =>
        cases hr : slotsText m isOther origs lines r with
        | none => simp [ho, hr] at h
        | some t =>
          simp only [ho, hr, Option.map_some, Option.some.injEq] at h
          subst h
          simp only [headKept, contFirst, ho, withExitCode, take2_assureNewlineC, Bool.true_and]

/-- a list that starts with a GENERATED line never has its exit code in front: a generated line does not
start with `> ` (`line_ok`), so `first_kept` makes no difference for it -/
theorem withExitCode_headKept_true {P : Params} (hP : StdParams P) (m : Mode) (isOther : Char → Bool)
    (hC : m = .unicode → AsciiContract isOther) (origs : List (List Char))
    (lines : List (List UInt8)) (hl : ∀ l ∈ lines, Newline.IsLine l) (sl : List Slot) (body : List Char) (code : Int)
    (h : slotsText m isOther origs lines sl = some body) :
    withExitCode (headKept sl) body code = withExitCode true body code := by
  cases sl with
  | nil =>
    simp only [slotsText, Option.some.injEq] at h
    subst h
    simp [headKept, withExitCode]
  | cons s r =>
    cases s with
    | kept ei => rfl
    | gen li =>
      simp only [slotsText, slotText] at h
      cases hli : lines[li]? with
      | none => simp [hli] at h
      | some l =>
        obtain ⟨t, ht, hok⟩ := line_ok hP m isOther hC (hl l (List.mem_of_getElem? hli))
        cases hr : slotsText m isOther origs lines r with
        | none => simp [hli, ht, hr] at h
        | some rest =>
          simp only [hli, Option.bind_some, ht, hr, Option.map_some, Option.some.injEq] at h
          subst h
          have hnc : ((t ++ ['\n']) ++ rest).take 2 ≠ ['>', ' '] := by
            have hs := (commandLead_none_strip hok.no_lead).2
            match t, hs with
            | [], _ => simp
            | [c], _ => simp
            | a :: b :: r, hs =>
              intro he
              have : a = '>' ∧ b = ' ' := by simpa using he
              simp [LineParser.stripPrefix, this.1, this.2] at hs
          show withExitCode false _ code = _
          rw [withExitCode_false, withExitCode_not_cont true _ code hnc]

/-- `generate_testcase`, branch `Ok`, spelled out -/
theorem generateTestcaseUpd_ok_text (m : Mode) (isOther : Char → Bool) (cmd ex : List Char)
    (origs : List (List Char)) (lines : List (List UInt8)) (code : Int) (hex : expression cmd = some ex) :
    generateTestcaseUpd m isOther cmd origs .ok lines code =
      some (if contHead origs then ex ++ exitCodeLine code ++ origs.flatMap assureNewlineC
            else ex ++ origs.flatMap assureNewlineC ++ exitCodeOpt code) := by
  simp only [generateTestcaseUpd, hex, withExitCode_contHead]
  split <;> simp

/-- `generate_testcase`, branch `MalformedOutput`, spelled out -/
theorem generateTestcaseUpd_malformed_text (m : Mode) (isOther : Char → Bool) (cmd ex : List Char)
    (origs : List (List Char)) (lines : List (List UInt8)) (d : List DL) (code : Int)
    (hex : expression cmd = some ex) :
    generateTestcaseUpd m isOther cmd origs (.malformed d) lines code =
      (slotsText m isOther origs lines (slots d)).map (fun b =>
        if contFirst origs (slots d) then ex ++ exitCodeLine code ++ b else ex ++ b ++ exitCodeOpt code) := by
  simp only [generateTestcaseUpd, hex, diffBody_eq_slots, firstKept_slots]
  cases hb : slotsText m isOther origs lines (slots d) with
  | none => rfl
  | some b =>
    simp only [Option.map_some, withExitCode_slots m isOther origs lines (slots d) b code hb]
    split <;> simp

/-! ### every entry matches "its" line -/

def SlotOK (mt : Nat → Nat → Bool) (s : Slot) (l : Nat) : Prop :=
  match s with
  | .kept ei => mt ei l = true
  | .gen li => li = l

def SlotsOK (mt : Nat → Nat → Bool) : List Slot → List Nat → Prop
  | [], [] => True
  | s :: ss, l :: ls => SlotOK mt s l ∧ SlotsOK mt ss ls
  | _, _ => False

theorem SlotsOK.append {mt : Nat → Nat → Bool} : ∀ {a : List Slot} {la : List Nat} {b : List Slot} {lb : List Nat},
    SlotsOK mt a la → SlotsOK mt b lb → SlotsOK mt (a ++ b) (la ++ lb)
  | [], [], _, _, _, hb => by simpa using hb
  | [], _ :: _, _, _, ha, _ => by simp [SlotsOK] at ha
  | _ :: _, [], _, _, ha, _ => by simp [SlotsOK] at ha
  | s :: a, l :: la, b, lb, ha, hb => by
    simp only [SlotsOK, List.cons_append] at ha ⊢
    exact ⟨ha.1, SlotsOK.append ha.2 hb⟩

theorem SlotsOK.get {mt : Nat → Nat → Bool} : ∀ {a : List Slot} {la : List Nat}, SlotsOK mt a la →
    a.length = la.length ∧ ∀ k (h : k < a.length) (h' : k < la.length), SlotOK mt a[k] la[k]
  | [], [], _ => ⟨rfl, by intro k h; simp at h⟩
  | [], _ :: _, ha => by simp [SlotsOK] at ha
  | _ :: _, [], ha => by simp [SlotsOK] at ha
  | s :: a, l :: la, ha => by
    simp only [SlotsOK] at ha
    obtain ⟨h1, h2⟩ := SlotsOK.get ha.2
    refine ⟨by simp [h1], ?_⟩
    intro k h h'
    cases k with
    | zero => simpa using ha.1
    | succ k => simpa using h2 k (by simpa using h) (by simpa using h')

theorem slotsOK_gen (mt : Nat → Nat → Bool) (ls : List Nat) : SlotsOK mt (ls.map .gen) ls := by
  induction ls with
  | nil => trivial
  | cons l ls ih => exact ⟨rfl, ih⟩

theorem slotsOK_of_good (n m : Nat) (es : Nat → Exp) (mt : Nat → Nat → Bool)
    (hq : ∀ i, (es i).multiline = false) (d : List DL) (hgood : ∀ x ∈ d, DL.Good n m es mt x) :
    SlotsOK mt (slots d) (linesOf d) := by
  induction d with
  | nil => trivial
  | cons x d ih =>
    have hs : slots (x :: d) = DL.slots x ++ slots d := by simp [slots]
    have hl : linesOf (x :: d) = DL.lines x ++ linesOf d := by simp [linesOf]
    rw [hs, hl]
    refine SlotsOK.append ?_ (ih (fun y hy => hgood y (List.mem_cons_of_mem _ hy)))
    have hx := hgood x (by simp)
    cases x with
    | matched ei ls =>
      obtain ⟨_, _, hm, hlen⟩ := hx
      have h1 := hlen (hq ei)
      match ls, h1 with
      | [l], _ => exact ⟨(hm l (by simp)).2, trivial⟩
    | unmatched ei => trivial
    | unexpected ls => exact slotsOK_gen mt ls

theorem rangeFrom_zero_get (m k : Nat) (h : k < (rangeFrom 0 m).length) : (rangeFrom 0 m)[k] = k := by
  simp [rangeFrom]

/-- **the updated list, entry by entry**: without multiline expectations the list `update` writes
has exactly one entry per output line, in line order: entry `k` is a retained expectation that
matches line `k`, or the expectation generated for line `k` -/
theorem slots_spec (n m : Nat) (es : Nat → Exp) (mt : Nat → Nat → Bool)
    (hq : ∀ i, (es i).multiline = false) :
    (slots (diff n m es mt)).length = m ∧
    ∀ k (h : k < (slots (diff n m es mt)).length),
      (∃ ei, (slots (diff n m es mt))[k] = .kept ei ∧ mt ei k = true) ∨
      (slots (diff n m es mt))[k] = .gen k := by
  have wf := diff_wf n m es mt
  obtain ⟨hlen, hget⟩ := (slotsOK_of_good n m es mt hq _ wf.good).get
  rw [wf.cover] at hlen
  have hm : (rangeFrom 0 m).length = m := by simp [rangeFrom]
  refine ⟨by omega, ?_⟩
  intro k h
  have hk : k < (linesOf (diff n m es mt)).length := by rw [wf.cover]; omega
  have := hget k h hk
  have hk2 : (linesOf (diff n m es mt))[k] = k := by
    have : (linesOf (diff n m es mt))[k]? = (rangeFrom 0 m)[k]? := by rw [wf.cover]
    rw [List.getElem?_eq_getElem hk, List.getElem?_eq_getElem (by omega), rangeFrom_zero_get] at this
    exact Option.some.inj this
  rw [hk2] at this
  cases hs : (slots (diff n m es mt))[k] with
  | kept ei => rw [hs] at this; exact Or.inl ⟨ei, rfl, this⟩
  | gen li => rw [hs] at this; right; rw [show li = k from this]

/-! ### the retained expectations keep their order -/

def keptIdx : List Slot → List Nat
  | [] => []
  | .kept ei :: r => ei :: keptIdx r
  | .gen _ :: r => keptIdx r

theorem keptIdx_append (a b : List Slot) : keptIdx (a ++ b) = keptIdx a ++ keptIdx b := by
  induction a with
  | nil => rfl
  | cons s a ih => cases s <;> simp [keptIdx, ih]

theorem keptIdx_gen (ls : List Nat) : keptIdx (ls.map .gen) = [] := by
  induction ls with
  | nil => rfl
  | cons l ls ih => simpa [keptIdx] using ih

theorem keptIdx_sublist (d : List DL) : (keptIdx (slots d)).Sublist (idxOf d) := by
  induction d with
  | nil => exact List.Sublist.slnil
  | cons x d ih =>
    have hs : slots (x :: d) = DL.slots x ++ slots d := by simp [slots]
    have hl : idxOf (x :: d) = DL.idx x ++ idxOf d := by simp [idxOf]
    rw [hs, hl, keptIdx_append]
    cases x with
    | matched ei ls => simpa [DL.slots, DL.idx, keptIdx] using ih
    | unmatched ei => simpa [DL.slots, DL.idx, keptIdx] using ih.cons ei
    | unexpected ls => simpa [DL.slots, DL.idx, keptIdx_gen] using ih

/-- the retained expectations are in range and keep their order (each at most once) -/
theorem keptIdx_sorted (n m : Nat) (es : Nat → Exp) (mt : Nat → Nat → Bool) :
    (keptIdx (slots (diff n m es mt))).Pairwise (· < ·) ∧ ∀ i ∈ keptIdx (slots (diff n m es mt)), i < n := by
  have wf := diff_wf n m es mt
  exact ⟨wf.idx_sorted.sublist (keptIdx_sublist _), fun i hi => wf.idx_lt i ((keptIdx_sublist _).subset hi)⟩

/-! ### the updated list passes -/

/-- the quantifiers of the updated list: those of the retained expectations, those of the generated ones -/
def updQuant (es gq : Nat → Exp) (sl : List Slot) (k : Nat) : Exp :=
  match sl[k]? with
  | some (.kept ei) => es ei
  | some (.gen li) => gq li
  | none => ⟨false, false⟩

/-- the match matrix of the updated list: entry `k` against line `j` -/
def updMatrix (mt gm : Nat → Nat → Bool) (sl : List Slot) (k j : Nat) : Bool :=
  match sl[k]? with
  | some (.kept ei) => mt ei j
  | some (.gen li) => gm li j
  | none => false

theorem update_no_diff (n m : Nat) (es gq : Nat → Exp) (mt gm : Nat → Nat → Bool)
    (hq : ∀ i, es i = ⟨false, false⟩) (hgq : ∀ i, gq i = ⟨false, false⟩)
    (hgm : ∀ i, i < m → gm i i = true) :
    (∀ k, updQuant es gq (slots (diff n m es mt)) k = ⟨false, false⟩) ∧
    hasDiff (diff (slots (diff n m es mt)).length m (updQuant es gq (slots (diff n m es mt)))
      (updMatrix mt gm (slots (diff n m es mt)))) = false := by
  obtain ⟨hlen, hspec⟩ := slots_spec n m es mt (fun i => by rw [hq i])
  have hquant : ∀ k, updQuant es gq (slots (diff n m es mt)) k = ⟨false, false⟩ := by
    intro k
    unfold updQuant
    split
    · exact hq _
    · exact hgq _
    · rfl
  refine ⟨hquant, ?_⟩
  have key := Scrut.Props.C03.C03_own_lines m (updQuant es gq (slots (diff n m es mt)))
    (updMatrix mt gm (slots (diff n m es mt))) hquant ?_
  · rw [hlen]; exact key
  · intro k hk
    have hk' : k < (slots (diff n m es mt)).length := by omega
    unfold updMatrix
    rw [List.getElem?_eq_getElem hk']
    rcases hspec k hk' with ⟨ei, h1, h2⟩ | h1
    · rw [h1]; exact h2
    · rw [h1]; exact hgm k hk

end Scrut.GenLemmas
