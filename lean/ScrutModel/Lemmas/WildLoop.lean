import ScrutModel.Lemmas.Glob
/-! The wildmatch crate's iterative loop with a single backtrack point (`wildLoop`, transliterated in
`Model/Glob.lean`) computes the recursive denotation `globGo`, and the fuel handed to it by
`wildMatch` is always sufficient.

State `(p, c, rest, bt)`; specification of the state: `globGo p (c :: rest) || alt bt` where the
backtrack point `(ps, m)` stands for "`*` followed by `ps`, the `*` consuming at least the character
in front of `m`" (`anySuffix (globGo ps) m`).

Why a new `*` may forget the old backtrack point (`alt_discard`): the pattern since the old
point, `pre`, contains no `*` and has consumed exactly `|pre|` characters; any later start of
`pre ++ '*' :: p'` therefore reaches `'*' :: p'` at or after the current position, and `*` absorbs
the difference. -/
namespace Scrut.Glob

theorem globGo_nil_right (q : List Char) : globGo q [] = wildFinish q := by
  induction q with
  | nil => rfl
  | cons pc q ih =>
    by_cases h : pc = '*'
    · subst h
      simp only [globGo, if_true, anySuffix, ih]
      simp [wildFinish]
    · have hb : (pc == '*') = false := by simpa using h
      simp [globGo, if_neg h, wildFinish, hb]

/-- a `*`-free prefix of the pattern consumes exactly its own length -/
theorem globGo_starfree_prefix (pre q : List Char) : ∀ t : List Char, '*' ∉ pre →
    globGo (pre ++ q) t = true → pre.length ≤ t.length ∧ globGo q (t.drop pre.length) = true := by
  induction pre with
  | nil => intro t _ h; exact ⟨Nat.zero_le _, by simpa using h⟩
  | cons x pre ih =>
    intro t hmem h
    have hx : x ≠ '*' := fun e => hmem (by simp [e])
    have hpre : '*' ∉ pre := fun e => hmem (by simp [e])
    cases t with
    | nil => simp [globGo, if_neg hx] at h
    | cons d t =>
      simp only [List.cons_append, globGo, if_neg hx, Bool.and_eq_true] at h
      have := ih t hpre h.2
      exact ⟨by simp only [List.length_cons]; omega, by simpa using this.2⟩

/-- the alternative kept in the backtrack point -/
def alt : Option (List Char × List Char) → Bool
  | none => false
  | some (ps, m) => anySuffix (globGo ps) m

/-- relation between the current position and the backtrack point -/
def Inv (p rest : List Char) : Option (List Char × List Char) → Prop
  | none => True
  | some (ps, m) => ∃ pre : List Char, '*' ∉ pre ∧ ps = pre ++ p ∧ rest <:+ m ∧ rest.length + pre.length = m.length

/-- bound on the remaining iterations -/
def mu (p rest : List Char) : Option (List Char × List Char) → Nat
  | none => p.length + rest.length * (p.length + 2)
  | some (ps, m) => p.length + m.length * (ps.length + 2)

theorem anySuffix_of_suffix {f : List Char → Bool} {t u : List Char} (hs : t <:+ u)
    (h : anySuffix f t = true) : anySuffix f u = true := by
  rw [anySuffix_iff] at h ⊢
  obtain ⟨r, t', rfl, ht'⟩ := h
  obtain ⟨r0, rfl⟩ := hs
  exact ⟨r0 ++ r, t', by simp, ht'⟩

theorem alt_discard {p' rest : List Char} {bt : Option (List Char × List Char)} (c : Char)
    (hinv : Inv ('*' :: p') rest bt) (h : alt bt = true) :
    anySuffix (globGo p') (c :: rest) = true := by
  cases bt with
  | none => simp [alt] at h
  | some b =>
    obtain ⟨ps, m⟩ := b
    obtain ⟨pre, hpre, rfl, hsuf, hlen⟩ := hinv
    simp only [alt] at h
    rw [anySuffix_iff] at h
    obtain ⟨r, t, rfl, ht⟩ := h
    obtain ⟨hle, hgo⟩ := globGo_starfree_prefix pre ('*' :: p') t hpre ht
    simp only [globGo, if_true] at hgo
    -- `t.drop |pre|` is a suffix of `r ++ t` that is not longer than `rest`
    have h1 : t.drop pre.length <:+ r ++ t :=
      (List.drop_suffix _ _).trans (List.suffix_append _ _)
    have h2 : (t.drop pre.length).length ≤ rest.length := by
      simp only [List.length_drop, List.length_append] at hlen ⊢
      omega
    have h3 : t.drop pre.length <:+ rest := List.suffix_of_suffix_length_le h1 hsuf h2
    exact anySuffix_of_suffix (h3.trans (List.suffix_cons _ _)) hgo

theorem alt_false_at_end {pc : Char} {p' : List Char} {bt : Option (List Char × List Char)}
    (hpc : pc ≠ '*') (hinv : Inv (pc :: p') [] bt) : alt bt = false := by
  cases bt with
  | none => rfl
  | some b =>
    obtain ⟨ps, m⟩ := b
    obtain ⟨pre, hpre, rfl, _, hlen⟩ := hinv
    cases hb : alt (some (pre ++ pc :: p', m)) with
    | false => rfl
    | true =>
      exfalso
      simp only [alt] at hb
      rw [anySuffix_iff] at hb
      obtain ⟨r, t, rfl, ht⟩ := hb
      have hpre' : '*' ∉ pre ++ [pc] := by
        simp only [List.mem_append, List.mem_singleton, not_or]
        exact ⟨hpre, fun e => hpc e.symm⟩
      have heq : pre ++ pc :: p' = (pre ++ [pc]) ++ p' := by simp
      rw [heq] at ht
      have := (globGo_starfree_prefix (pre ++ [pc]) p' t hpre' ht).1
      simp only [List.length_append, List.length_cons, List.length_nil] at this hlen
      omega

theorem alt_step (ps : List Char) (c' : Char) (m' : List Char) :
    (globGo ps (c' :: m') || alt (some (ps, m'))) = alt (some (ps, c' :: m')) := by
  simp [alt, anySuffix]

/-- the branch taken on a mismatch or when the pattern is exhausted -/
def backtrackStep (fuel : Nat) : Option (List Char × List Char) → Option Bool
  | some (ps, m) =>
    match m with
    | c' :: m' => wildLoop fuel ps c' m' (some (ps, m'))
    | [] => some (wildFinish ps)
  | none => some false

theorem backtrackStep_spec (fuel : Nat)
    (ih : ∀ (p : List Char) (c : Char) (rest : List Char) (bt : Option (List Char × List Char)),
      Inv p rest bt → mu p rest bt < fuel → wildLoop fuel p c rest bt = some (globGo p (c :: rest) || alt bt))
    (p : List Char) (c : Char) (rest : List Char) (bt : Option (List Char × List Char))
    (hmu : mu p rest bt < fuel + 1) (hp : globGo p (c :: rest) = false) :
    backtrackStep fuel bt = some (globGo p (c :: rest) || alt bt) := by
  rw [hp, Bool.false_or]
  cases bt with
  | none => rfl
  | some b =>
    obtain ⟨ps, m⟩ := b
    cases m with
    | nil => simp [backtrackStep, alt, anySuffix, globGo_nil_right]
    | cons c' m' =>
      have hinv' : Inv ps m' (some (ps, m')) :=
        ⟨[], by simp, by simp, List.suffix_refl _, by simp⟩
      have hmu' : mu ps m' (some (ps, m')) < fuel := by
        simp only [mu, List.length_cons] at hmu ⊢
        rw [Nat.succ_mul] at hmu
        omega
      simp only [backtrackStep]
      rw [ih ps c' m' (some (ps, m')) hinv' hmu', alt_step]

theorem wildLoop_spec : ∀ (fuel : Nat) (p : List Char) (c : Char) (rest : List Char)
    (bt : Option (List Char × List Char)), Inv p rest bt → mu p rest bt < fuel →
    wildLoop fuel p c rest bt = some (globGo p (c :: rest) || alt bt) := by
  intro fuel
  induction fuel with
  | zero => intro p c rest bt _ h; omega
  | succ fuel ih =>
    intro p c rest bt hinv hmu
    cases p with
    | nil =>
      simp only [wildLoop]
      exact backtrackStep_spec fuel ih [] c rest bt hmu (by simp [globGo])
    | cons pc p' =>
      by_cases hstar : pc = '*'
      · subst hstar
        simp only [wildLoop, if_true]
        have hinv' : Inv p' rest (some (p', rest)) :=
          ⟨[], by simp, by simp, List.suffix_refl _, by simp⟩
        have hmu' : mu p' rest (some (p', rest)) < fuel := by
          cases bt with
          | none =>
            simp only [mu, List.length_cons] at hmu ⊢
            have : rest.length * (p'.length + 2) ≤ rest.length * (p'.length + 1 + 2) :=
              Nat.mul_le_mul_left _ (by omega)
            omega
          | some b =>
            obtain ⟨ps, m⟩ := b
            obtain ⟨pre, _, rfl, hsuf, hlen⟩ := hinv
            simp only [mu, List.length_cons, List.length_append] at hmu ⊢
            have h1 : rest.length ≤ m.length := by omega
            have : rest.length * (p'.length + 2) ≤ m.length * (pre.length + (p'.length + 1) + 2) :=
              Nat.mul_le_mul h1 (by omega)
            omega
        rw [ih p' c rest (some (p', rest)) hinv' hmu']
        congr 1
        have hspec : (globGo p' (c :: rest) || alt (some (p', rest))) = globGo ('*' :: p') (c :: rest) := by
          simp [alt, globGo, anySuffix]
        rw [hspec]
        cases halt : alt bt with
        | false => simp
        | true =>
          have := alt_discard c hinv halt
          simp only [globGo, if_true, this, Bool.or_self]
      · by_cases hm : pc = '?' ∨ pc = c
        · simp only [wildLoop, if_neg hstar, if_pos hm]
          have hmb : (decide (pc = '?') || decide (pc = c)) = true := by
            rcases hm with h | h <;> simp [h]
          cases rest with
          | nil =>
            simp only []
            rw [alt_false_at_end hstar hinv]
            simp [globGo, if_neg hstar, hmb, globGo_nil_right]
          | cons c' rest' =>
            simp only []
            have hinv' : Inv p' rest' bt := by
              cases bt with
              | none => trivial
              | some b =>
                obtain ⟨ps, m⟩ := b
                obtain ⟨pre, hpre, rfl, hsuf, hlen⟩ := hinv
                refine ⟨pre ++ [pc], ?_, by simp, (List.suffix_cons _ _).trans hsuf, ?_⟩
                · simp only [List.mem_append, List.mem_singleton, not_or]
                  exact ⟨hpre, fun e => hstar e.symm⟩
                · simp only [List.length_cons, List.length_append, List.length_nil] at hlen ⊢
                  omega
            have hmu' : mu p' rest' bt < fuel := by
              cases bt with
              | none =>
                simp only [mu, List.length_cons] at hmu ⊢
                have : rest'.length * (p'.length + 2) ≤ (rest'.length + 1) * (p'.length + 1 + 2) :=
                  Nat.mul_le_mul (by omega) (by omega)
                omega
              | some b =>
                obtain ⟨ps, m⟩ := b
                simp only [mu, List.length_cons] at hmu ⊢
                omega
            rw [ih p' c' rest' bt hinv' hmu']
            simp [globGo, if_neg hstar, hmb]
        · simp only [wildLoop, if_neg hstar, if_neg hm]
          have hmb : (decide (pc = '?') || decide (pc = c)) = false := by
            simp only [not_or] at hm
            simp [hm.1, hm.2]
          exact backtrackStep_spec fuel ih (pc :: p') c rest bt hmu (by simp [globGo, if_neg hstar, hmb])

/-- the fuel `wildMatch` passes is enough for every pattern and input, and the crate's loop
computes `globMatch` -/
theorem wildMatch_eq (p s : List Char) : wildMatch p s = some (globMatch p s) := by
  unfold wildMatch globMatch
  simp only []
  by_cases hq : (simplify p).isEmpty = true
  · simp only [hq, if_true]
    have : simplify p = [] := by simpa using hq
    rw [this]; rfl
  · simp only [hq]
    cases s with
    | nil => simp [globGo_nil_right]
    | cons c rest =>
      have hmu : mu (simplify p) rest none < wildFuel (simplify p) (c :: rest) := by
        simp only [mu, wildFuel, List.length_cons]
        have : rest.length * ((simplify p).length + 2) ≤ (rest.length + 1 + 2) * ((simplify p).length + 2) :=
          Nat.mul_le_mul_right _ (by omega)
        rw [Nat.mul_comm ((simplify p).length + 2)]
        have h2 : (rest.length + 1 + 2) * ((simplify p).length + 2) =
            rest.length * ((simplify p).length + 2) + 3 * ((simplify p).length + 2) := by
          rw [Nat.add_assoc, Nat.add_mul]
        omega
      have := wildLoop_spec _ (simplify p) c rest none trivial hmu
      simp only [alt, Bool.or_false] at this
      simpa using this

end Scrut.Glob
