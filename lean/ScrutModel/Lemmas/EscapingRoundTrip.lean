import ScrutModel.Model.RulesStr
/-!
# Decoding what the escaper writes gives back the bytes (token-wise, both passes)

`Tok t bs`: the piece of text `t`, followed by anything, is consumed by the two decoder passes as
exactly the bytes `bs`. Every piece the escaper writes is such a token; tokens compose.
-/
namespace Scrut.EscLemmas
open Scrut.Utf8 Scrut.Esc Scrut.EscF

theorem unescapeTabs_cons_ne {c : Char} (h : c ≠ '\\') (r : List Char) :
    unescapeTabs (c :: r) = c :: unescapeTabs r := by
  cases r with
  | nil => simp [unescapeTabs]
  | cons d rest => simp [unescapeTabs, h]

theorem unescapeTabs_x (r : List Char) :
    unescapeTabs ('\\' :: 'x' :: r) = '\\' :: 'x' :: unescapeTabs r := by
  rw [unescapeTabs]; simp

theorem resolve_cons_ne {c : Char} (h : c ≠ '\\') (r : List Char) :
    resolve (c :: r) = (resolve r).map (String.utf8EncodeChar c ++ ·) := by
  rw [resolve.eq_def]; simp [h]

theorem resolve_bs_bs (r : List Char) :
    resolve ('\\' :: '\\' :: r) = (resolve r).map (UInt8.ofNat 92 :: ·) := by
  rw [resolve.eq_def]; simp (decide := true)

theorem resolve_x (h1 h2 : Char) (a b : Nat) (h1p : h1 ≠ '+') (ha : hexVal h1 = some a)
    (hb : hexVal h2 = some b) (r : List Char) :
    resolve ('\\' :: 'x' :: h1 :: h2 :: r) = (resolve r).map (UInt8.ofNat (a * 16 + b) :: ·) := by
  rw [resolve.eq_def]; simp (decide := true) [parsePair, h1p, ha, hb]
  cases resolve r <;> simp

/-- the two passes read `t` (in front of anything) as the bytes `bs` -/
def Tok (t : List Char) (bs : List UInt8) : Prop :=
  ∀ r, resolve (unescapeTabs (t ++ r)) = (resolve (unescapeTabs r)).map (bs ++ ·)

theorem Tok.nil : Tok [] [] := by
  intro r; simp only [List.nil_append]; cases resolve (unescapeTabs r) <;> simp

theorem Tok.append {t1 t2 : List Char} {b1 b2 : List UInt8} (h1 : Tok t1 b1) (h2 : Tok t2 b2) :
    Tok (t1 ++ t2) (b1 ++ b2) := by
  intro r
  rw [List.append_assoc, h1, h2]
  cases resolve (unescapeTabs r) <;> simp

theorem Tok.flatMap {α : Type} (f : α → List Char) (g : α → List UInt8) (l : List α)
    (h : ∀ a ∈ l, Tok (f a) (g a)) : Tok (l.flatMap f) (l.flatMap g) := by
  induction l with
  | nil => exact Tok.nil
  | cons a l ih =>
    simp only [List.flatMap_cons]
    exact Tok.append (h a (by simp)) (ih (fun x hx => h x (by simp [hx])))

theorem Tok.decode_eq {t : List Char} {bs : List UInt8} (h : Tok t bs) : EscF.decode t = some bs := by
  have := h []
  simpa [EscF.decode, unescapeTabs, resolve] using this

/-- a character other than the backslash stands for its UTF-8 encoding -/
theorem Tok.char {c : Char} (h : c ≠ '\\') : Tok [c] (String.utf8EncodeChar c) := by
  intro r
  simp [unescapeTabs_cons_ne h, resolve_cons_ne h]

theorem printable_facts : ∀ v, v < 127 → 32 ≤ v → v ≠ 92 →
    Char.ofNat v ≠ '\\' ∧ String.utf8EncodeChar (Char.ofNat v) = [UInt8.ofNat v] := by decide

theorem hex_facts : ∀ v, v < 16 →
    hexChar v ≠ '\\' ∧ hexChar v ≠ '+' ∧ hexVal (hexChar v) = some v := by decide

theorem ctrl_facts : ∀ v, v < 14 → (v = 13 ∨ v = 9 ∨ v = 7 ∨ v = 8 ∨ v = 12 ∨ v = 11) →
    Char.ofNat v ≠ '\\' ∧ String.utf8EncodeChar (Char.ofNat v) = [UInt8.ofNat v] := by decide

/-- what pass 1 makes of the token written for byte `b` -/
def pass1Tok (b : UInt8) : List Char :=
  let v := b.toNat
  if v = 13 ∨ v = 9 ∨ v = 7 ∨ v = 8 ∨ v = 12 ∨ v = 11 then [Char.ofNat v]
  else byteToAscii b

theorem pass1_tok (b : UInt8) (hb : b.toNat ≠ 10) (r : List Char) :
    unescapeTabs (byteToAscii b ++ r) = pass1Tok b ++ unescapeTabs r := by
  have hlt : b.toNat < 256 := b.toNat_lt
  unfold pass1Tok byteToAscii byteToAsciiN
  simp only
  generalize b.toNat = v at *
  by_cases h13 : v = 13; · subst h13; simp [unescapeTabs]
  by_cases h9 : v = 9; · subst h9; simp [unescapeTabs]
  by_cases h7 : v = 7; · subst h7; simp [unescapeTabs]
  by_cases h8 : v = 8; · subst h8; simp [unescapeTabs]
  by_cases h12 : v = 12; · subst h12; simp [unescapeTabs]
  by_cases h11 : v = 11; · subst h11; simp [unescapeTabs]
  by_cases h92 : v = 92; · subst h92; simp [unescapeTabs]
  simp only [hb, h13, h9, h7, h8, h12, h11, h92, if_false, false_or]
  by_cases hp : 32 ≤ v ∧ v ≤ 126
  · simp only [hp, and_self, if_true]
    have := (printable_facts v (by omega) hp.1 h92).1
    simp [unescapeTabs_cons_ne this]
  · simp only [hp, if_false]
    have h1 := (hex_facts (v / 16) (by omega)).1
    have h2 := (hex_facts (v % 16) (by omega)).1
    rw [List.cons_append, List.cons_append, List.cons_append, List.cons_append, List.nil_append,
      unescapeTabs_x, unescapeTabs_cons_ne h1, unescapeTabs_cons_ne h2]; simp

theorem pass2_tok (b : UInt8) (hb : b.toNat ≠ 10) (r : List Char) :
    resolve (pass1Tok b ++ r) = (resolve r).map (b :: ·) := by
  have hlt : b.toNat < 256 := b.toNat_lt
  have hbv : UInt8.ofNat b.toNat = b := by simp
  unfold pass1Tok byteToAscii byteToAsciiN
  simp only
  generalize hv : b.toNat = v at *
  by_cases hc : v = 13 ∨ v = 9 ∨ v = 7 ∨ v = 8 ∨ v = 12 ∨ v = 11
  · simp only [hc, if_true]
    obtain ⟨hne, hutf⟩ := ctrl_facts v (by omega) hc
    simp [resolve_cons_ne hne, hutf, hbv]
  · simp only [hc, if_false]
    have h13 : v ≠ 13 := fun h => hc (by simp [h])
    have h9 : v ≠ 9 := fun h => hc (by simp [h])
    have h7 : v ≠ 7 := fun h => hc (by simp [h])
    have h8 : v ≠ 8 := fun h => hc (by simp [h])
    have h12 : v ≠ 12 := fun h => hc (by simp [h])
    have h11 : v ≠ 11 := fun h => hc (by simp [h])
    simp only [hb, h13, h9, h7, h8, h12, h11, if_false]
    by_cases h92 : v = 92
    · subst h92; simp [resolve_bs_bs, ← hbv]
    · simp only [h92, if_false]
      by_cases hp : 32 ≤ v ∧ v ≤ 126
      · simp only [hp, and_self, if_true]
        obtain ⟨hne, hutf⟩ := printable_facts v (by omega) hp.1 h92
        simp [resolve_cons_ne hne, hutf, hbv]
      · simp only [hp, if_false]
        obtain ⟨_, hp1, hx1⟩ := hex_facts (v / 16) (by omega)
        obtain ⟨_, _, hx2⟩ := hex_facts (v % 16) (by omega)
        have hsum : v / 16 * 16 + v % 16 = v := by omega
        simp [resolve_x _ _ _ _ hp1 hx1 hx2, hsum, hbv]

/-- the rendering of a byte other than LF is a token for that byte -/
theorem Tok.byte (b : UInt8) (hb : b.toNat ≠ 10) : Tok (byteToAscii b) [b] := by
  intro r
  rw [pass1_tok b hb, pass2_tok b hb]
  cases resolve (unescapeTabs r) <;> simp

theorem Tok.encodeAscii (l : List UInt8) (h : ∀ b ∈ l, b.toNat ≠ 10) : Tok (encodeAscii l) l := by
  have := Tok.flatMap byteToAscii (fun b => [b]) l (fun b hb => Tok.byte b (h b hb))
  simpa [Scrut.Esc.encodeAscii] using this

/-- **ascii core**: decoding the escaped rendering gives back the bytes. -/
theorem decode_encodeAscii (l : List UInt8) (h : ∀ b ∈ l, b.toNat ≠ 10) :
    decode (encodeAscii l) = some l := (Tok.encodeAscii l h).decode_eq

end Scrut.EscLemmas
