import ScrutModel.Lemmas.GenerateMarkdown
import ScrutModel.Lemmas.GeneratePrintable
import ScrutModel.Lemmas.CramInv
/-!
# C09, the last hop for Cram: the document `scrut create --format cram` prints is parsed back as
one test with the command, the generated expectation lines and the exit code

`cramDoc (generateTestcase …)` is every line of the generated text behind two blanks; that is the
rendering (`Cram.render 2`) of a document that consists of ONE test of `C07_wellformed`'s grammar.
-/
namespace Scrut.GenLemmas
open Scrut.Utf8 Scrut.Esc Scrut.EscLemmas Scrut.Gen Scrut.LineParser
open Scrut.Update (unlines)

/-! ### `cram_indented` on a text given by its lines -/

theorem splitOnNl_line (l t : List Char) (hnl : '\n' ∉ l) :
    ∀ cur, splitOnNl (l ++ '\n' :: t) cur = (cur ++ l) :: splitOnNl t [] := by
  induction l with
  | nil => intro cur; simp [splitOnNl]
  | cons c r ih =>
    intro cur
    have hc : c ≠ '\n' := fun h => hnl (by simp [h])
    have hr : '\n' ∉ r := fun h => hnl (by simp [h])
    simp only [List.cons_append, splitOnNl, hc, if_false]
    rw [ih hr]
    simp

theorem splitOnNl_last (l : List Char) (hnl : '\n' ∉ l) : ∀ cur, splitOnNl l cur = [cur ++ l] := by
  induction l with
  | nil => intro cur; simp [splitOnNl]
  | cons c r ih =>
    intro cur
    have hc : c ≠ '\n' := fun h => hnl (by simp [h])
    have hr : '\n' ∉ r := fun h => hnl (by simp [h])
    simp only [splitOnNl, hc, if_false]
    rw [ih hr]
    simp

/-- the text `l0⏎l1⏎…⏎ln` (no final line feed) of non-empty list of lines -/
theorem splitOnNl_joinNl : ∀ (ls : List (List Char)), ls ≠ [] → (∀ l ∈ ls, '\n' ∉ l) →
    splitOnNl (Gen.joinNl ls) [] = ls
  | [], h, _ => absurd rfl h
  | [l], _, hnl => by simpa [Gen.joinNl] using splitOnNl_last l (hnl l (by simp)) []
  | l :: l2 :: rest, _, hnl => by
    simp only [Gen.joinNl]
    rw [splitOnNl_line l _ (hnl l (by simp)) []]
    rw [splitOnNl_joinNl (l2 :: rest) (by simp) (fun x hx => hnl x (by simp [hx]))]
    simp

theorem unlines_eq_joinNl : ∀ (ls : List (List Char)), ls ≠ [] → unlines ls = Gen.joinNl ls ++ ['\n']
  | [], h => absurd rfl h
  | [l], _ => by simp [unlines, Gen.joinNl]
  | l :: l2 :: rest, _ => by
    have := unlines_eq_joinNl (l2 :: rest) (by simp)
    simp only [unlines, List.flatMap_cons] at this ⊢
    simp only [Gen.joinNl]
    rw [this]
    simp

theorem cram_unlines_eq : ∀ (ls : List (List Char)), ls ≠ [] → Cram.unlines ls = Gen.joinNl ls ++ ['\n']
  | [], h => absurd rfl h
  | [l], _ => by simp [Cram.unlines, Gen.joinNl]
  | l :: l2 :: rest, _ => by
    have := cram_unlines_eq (l2 :: rest) (by simp)
    simp only [Cram.unlines] at this ⊢
    simp only [Gen.joinNl]
    rw [this]
    simp

/-- **`cram_indented`** of a text given by its lines: every line behind the indentation -/
theorem cramIndented_unlines (indent : List Char) (ls : List (List Char)) (hne : ls ≠ [])
    (hnl : ∀ l ∈ ls, '\n' ∉ l) :
    cramIndented indent (unlines ls) = Cram.unlines (ls.map (indent ++ ·)) := by
  have hu := unlines_eq_joinNl ls hne
  have hnotempty : (unlines ls).isEmpty = false := by rw [hu]; simp
  have hstrip : stripSuffix? ['\n'] (unlines ls) = some (Gen.joinNl ls) := by
    rw [hu]
    simp [stripSuffix?, List.isSuffixOf_iff_suffix]
  unfold cramIndented
  simp only [hnotempty, Bool.false_eq_true, if_false, hstrip]
  rw [splitOnNl_joinNl ls hne hnl, cram_unlines_eq _ (by simpa using hne)]


/-! ### the test that is written -/

/-- the exit code line below the expectations -/
def exitBody (code : Int) : List Cram.BodyLine := if code ≠ 0 then [.exit (showInt code)] else []

/-- the one test of the generated Cram document -/
def createTestItem (c0 : List Char) (more ts : List (List Char)) (code : Int) : Cram.TestItem :=
  { cmd := c0, conts := more.map .cont, body := ts.map .exp ++ exitBody code }

/-- what is used of every generated text -/
structure CramTextOK (expOk : List Char → Bool) (t : List Char) : Prop where
  no_nl : Cram.noNl t = true
  no_lead : commandLead t = none
  no_exit : isExitCodeForm t = false
  exp_ok : expOk t = true

theorem generated_lines_cram (c0 : List Char) (more ts : List (List Char)) (code : Int) :
    ((('$' :: ' ' :: c0) :: more.map (fun x => '>' :: ' ' :: x)) ++ ts ++ exitLines code).map
        (Cram.indentOf 2 ++ ·)
      = Cram.renderLines (Cram.indentOf 2) [.test (createTestItem c0 more ts code)] := by
  have hx : (exitLines code).map (Cram.indentOf 2 ++ ·)
      = (exitBody code).map (Cram.renderBody (Cram.indentOf 2)) := by
    unfold exitLines exitBody
    split <;> simp [Cram.renderBody]
  have h1 : more.map (fun x => Cram.indentOf 2 ++ '>' :: ' ' :: x)
      = (more.map Cram.ContLine.cont).map (Cram.renderCont (Cram.indentOf 2)) := by
    simp [List.map_map, Function.comp_def, Cram.renderCont]
  have h2 : ts.map (fun x => Cram.indentOf 2 ++ x)
      = (ts.map Cram.BodyLine.exp).map (Cram.renderBody (Cram.indentOf 2)) := by
    simp [List.map_map, Function.comp_def, Cram.renderBody]
  simp only [Cram.renderLines, Cram.renderItem, Cram.renderTest, createTestItem, List.append_nil,
    List.map_append, List.map_cons, List.cons_append]
  rw [← h1, ← h2, ← hx]
  simp [List.map_map, Function.comp_def]

set_option maxRecDepth 100000 in
theorem exit_digits_ok : ∀ c : Nat, c < 256 →
    Cram.exitOk (Nat.toDigits 10 c) = true ∧ digitsVal (Nat.toDigits 10 c) = c := by decide

theorem exitDigits_body (ts : List (List Char)) (code : Int) :
    Cram.exitDigits (ts.map Cram.BodyLine.exp ++ exitBody code)
      = if code ≠ 0 then [showInt code] else [] := by
  induction ts with
  | nil =>
    unfold exitBody
    split <;> simp [Cram.exitDigits]
  | cons t r ih => simpa [Cram.exitDigits] using ih

theorem expTexts_body (ts : List (List Char)) (code : Int) :
    Cram.expTexts (ts.map Cram.BodyLine.exp ++ exitBody code) = ts := by
  induction ts with
  | nil =>
    unfold exitBody
    split <;> simp [Cram.expTexts]
  | cons t r ih => simp [Cram.expTexts, ih]

theorem contTexts_conts (more : List (List Char)) : Cram.contTexts (more.map Cram.ContLine.cont) = more := by
  induction more with
  | nil => rfl
  | cons t r ih => simp [Cram.contTexts, ih]

theorem showInt_nat (code : Int) (h0 : 0 ≤ code) : showInt code = Nat.toDigits 10 code.toNat := by
  simp [showInt, Int.not_lt.mpr h0]

/-- the generated test satisfies the guard of `C07_wellformed` -/
theorem createTestItem_ok (expOk : List Char → Bool) (c0 : List Char) (more ts : List (List Char))
    (hcmd : ∀ l ∈ c0 :: more, Cram.noNl l = true) (hts : ∀ t ∈ ts, CramTextOK expOk t)
    (code : Int) (h0 : 0 ≤ code) (h1 : code ≤ 255) :
    Cram.docOk expOk 2 [.test (createTestItem c0 more ts code)] = true := by
  have hex : ∀ b ∈ exitBody code, Cram.bodyLineOk expOk b = true := by
    intro b hb
    unfold exitBody at hb
    split at hb
    · have : b = .exit (showInt code) := by simpa using hb
      subst this
      rw [showInt_nat code h0]
      exact (exit_digits_ok code.toNat (by omega)).1
    · cases hb
  have hbody : ∀ b ∈ ts.map Cram.BodyLine.exp ++ exitBody code, Cram.bodyLineOk expOk b = true := by
    intro b hb
    rcases List.mem_append.mp hb with h | h
    · obtain ⟨t, ht, rfl⟩ := List.mem_map.mp h
      have ok := hts t ht
      have hs : Cram.startsWith ['$', ' '] t = false := by
        simp [Cram.startsWith, (commandLead_none_strip ok.no_lead).1]
      simp [Cram.bodyLineOk, Cram.expTextOk, ok.no_nl, ok.exp_ok, hs, ok.no_exit]
    · exact hex b h
  have hfirst : Cram.firstBodyOk (ts.map Cram.BodyLine.exp ++ exitBody code) = true := by
    cases ts with
    | nil =>
      unfold exitBody
      split <;> simp [Cram.firstBodyOk]
    | cons t r =>
      have ok := hts t (by simp)
      simp [Cram.firstBodyOk, Cram.startsWith, (commandLead_none_strip ok.no_lead).2]
  have hlen : (Cram.exitDigits (ts.map Cram.BodyLine.exp ++ exitBody code)).length ≤ 1 := by
    rw [exitDigits_body]
    split <;> simp
  have hconts : (more.map Cram.ContLine.cont).all Cram.contLineOk = true := by
    simp only [List.all_eq_true, List.mem_map]
    rintro x ⟨t, ht, rfl⟩
    exact hcmd t (by simp [ht])
  simp only [Cram.docOk, List.all_cons, List.all_nil, Bool.and_true, Cram.itemOk, Cram.testOk,
    createTestItem, hcmd c0 (by simp), hconts, hfirst, Bool.true_and, Bool.and_eq_true,
    decide_eq_true_eq, List.all_eq_true]
  exact ⟨hbody, hlen⟩

/-- **the Cram document `create` prints is parsed back as one test** -/
theorem create_cram_parses (expOk : List Char → Bool) (c0 : List Char) (more ts : List (List Char))
    (hcmd : ∀ l ∈ c0 :: more, Cram.noNl l = true) (hts : ∀ t ∈ ts, CramTextOK expOk t)
    (code : Int) (h0 : 0 ≤ code) (h1 : code ≤ 255) :
    Cram.parseCram expOk 2 (cramDoc
        (unlines (('$' :: ' ' :: c0) :: more.map (fun x => '>' :: ' ' :: x)) ++ unlines ts ++ exitCodeOpt code))
      = .ok (Cram.DocConfig.defaultCram,
          [{ title := []
             command := c0 :: more
             exitCode := if code ≠ 0 then some code.toNat else none
             expectations := ts
             lineNumber := 1
             config := some Cram.TCConfig.defaultCram }]) := by
  have hg : unlines (('$' :: ' ' :: c0) :: more.map (fun x => '>' :: ' ' :: x)) ++ unlines ts ++ exitCodeOpt code
      = unlines ((('$' :: ' ' :: c0) :: more.map (fun x => '>' :: ' ' :: x)) ++ ts ++ exitLines code) := by
    rw [exitCodeOpt_unlines, ← unlines_append, ← unlines_append]
  have hnl_of : ∀ l : List Char, Cram.noNl l = true → '\n' ∉ l := by
    intro l h hm
    simp only [Cram.noNl, List.all_eq_true] at h
    have := h '\n' hm
    simp at this
  have hlines_nl : ∀ l ∈ ((('$' :: ' ' :: c0) :: more.map (fun x => '>' :: ' ' :: x)) ++ ts ++ exitLines code),
      '\n' ∉ l := by
    intro l hl
    simp only [List.cons_append, List.mem_cons, List.mem_append, List.mem_map] at hl
    rcases hl with rfl | (⟨x, hx, rfl⟩ | hl) | hl
    · have := hnl_of c0 (hcmd c0 (by simp))
      simp [this]
    · have := hnl_of x (hcmd x (by simp [hx]))
      simp [this]
    · exact hnl_of l (hts l hl).no_nl
    · by_cases hc : code = 0
      · simp [exitLines, hc] at hl
      · have : l = '[' :: (showInt code ++ [']']) := by simpa [exitLines, hc] using hl
        rw [this]; exact exitLine_no_nl code h0 h1
  rw [hg]
  unfold cramDoc
  have hind : ([' ', ' '] : List Char) = Cram.indentOf 2 := rfl
  rw [hind, cramIndented_unlines _ _ (by simp) hlines_nl, generated_lines_cram]
  have hw := Cram.parseCram_render expOk 1 [.test (createTestItem c0 more ts code)]
    (createTestItem_ok expOk c0 more ts hcmd hts code h0 h1)
  have hr : Cram.render (1 + 1) [.test (createTestItem c0 more ts code)]
      = Cram.unlines (Cram.renderLines (Cram.indentOf 2) [.test (createTestItem c0 more ts code)]) := rfl
  rw [← hr, hw]
  have hexit : Cram.exitOf (ts.map Cram.BodyLine.exp ++ exitBody code)
      = if code ≠ 0 then some code.toNat else none := by
    unfold Cram.exitOf
    rw [exitDigits_body]
    by_cases hc : code = 0
    · simp [hc]
    · simp only [ne_eq, hc, not_false_eq_true, if_true]
      rw [showInt_nat code h0, (exit_digits_ok code.toNat (by omega)).2]
  simp only [Cram.CramDoc.tests, Cram.testsFrom, Cram.testOf, createTestItem, hexit, expTexts_body,
    contTexts_conts]
  rfl


theorem mem_joinNl : ∀ (ls : List (List Char)) (l : List Char), l ∈ ls → ∀ c ∈ l, c ∈ Gen.joinNl ls
  | [], _, h, _, _ => by simp at h
  | [a], l, h, c, hc => by
    have : l = a := by simpa using h
    subst this
    simpa [Gen.joinNl] using hc
  | a :: b :: r, l, h, c, hc => by
    simp only [Gen.joinNl, List.mem_append, List.mem_cons]
    rcases List.mem_cons.mp h with rfl | h
    · exact Or.inl hc
    · exact Or.inr (Or.inr (mem_joinNl (b :: r) l h c hc))

/-- **`create --format cram`, end to end** -/
theorem create_cram_end_to_end {P : Grammar.Params} (hP : StdParams P) (m : Esc.Mode) (isOther : Char → Bool)
    (hC : m = .unicode → AsciiContract isOther) (expOk : List Char → Bool)
    (hexp : ∀ t e, Grammar.parse P t = .ok e → expOk t = true)
    (cfg : ConfigDiff) (c0 : List Char) (more : List (List Char)) (hlines : ∀ l ∈ c0 :: more, '\n' ∉ l)
    (hcr : ∀ l ∈ c0 :: more, '\r' ∉ l)
    (out : List UInt8) (code : Int) (h0 : 0 ≤ code) (h1 : code ≤ 255) :
    ∃ doc ts, create .cram m isOther cfg (Gen.joinNl (c0 :: more)) out code = some doc ∧
      ts.length = (Newline.splitAtNewline out).length ∧
      (∀ i (h : i < (Newline.splitAtNewline out).length),
        expectationLine m isOther (Newline.splitAtNewline out)[i] = ts[i]?) ∧
      Cram.parseCram expOk 2 doc
        = .ok (Cram.DocConfig.defaultCram,
            [{ title := []
               command := c0 :: more
               exitCode := if code ≠ 0 then some code.toNat else none
               expectations := ts
               lineNumber := 1
               config := some Cram.TCConfig.defaultCram }]) := by
  have hex := expression_lines c0 more hlines
  obtain ⟨ts, hlen, hget, hts⟩ := expectationLines_some m isOther hC _ (Newline.splitAtNewline_isLine out)
  have htsok : ∀ t ∈ ts, CramTextOK expOk t := by
    intro t ht
    obtain ⟨i, hi, rfl⟩ := List.getElem_of_mem ht
    have hi' : i < (Newline.splitAtNewline out).length := by omega
    have h1' := hget i hi'
    obtain ⟨t', ht', hok⟩ := line_ok hP m isOther hC
      (Newline.splitAtNewline_isLine out _ (List.getElem_mem hi'))
    have : t' = ts[i] := by
      rw [ht', List.getElem?_eq_getElem hi] at h1'
      exact Option.some.inj h1'
    subst this
    obtain ⟨e, he, _⟩ := hok.parses
    have hpr := expectationLine_printable m isOther hC _ _ ht'
    refine ⟨?_, hok.no_lead, hok.no_exit, hexp _ e he⟩
    simp only [Cram.noNl, List.all_eq_true]
    intro c hc
    have := charOK_not_ctl hC (hpr c hc)
    simp [this.1, this.2]
  have hcmd : ∀ l ∈ c0 :: more, Cram.noNl l = true := by
    intro l hl
    simp only [Cram.noNl, List.all_eq_true]
    intro c hc
    have h1 : c ≠ '\n' := fun e => hlines l hl (e ▸ hc)
    have h2 : c ≠ '\r' := fun e => hcr l hl (e ▸ hc)
    simp [h1, h2]
  refine ⟨_, ts, ?_, hlen, hget, create_cram_parses expOk c0 more ts hcmd htsok code h0 h1⟩
  unfold create
  rw [generateTestcase_create m isOther _ _ out code hex, hts]
  rfl

/-- the same for a command given as its text: ANY text without carriage return (the empty one, one that ends
in line feeds); the command lines read back are the pieces of `split('\n')`, whose `join("\n")` is the text -/
theorem create_cram_end_to_end_cmd {P : Grammar.Params} (hP : StdParams P) (m : Esc.Mode) (isOther : Char → Bool)
    (hC : m = .unicode → AsciiContract isOther) (expOk : List Char → Bool)
    (hexp : ∀ t e, Grammar.parse P t = .ok e → expOk t = true)
    (cfg : ConfigDiff) (cmd : List Char) (hcr : '\r' ∉ cmd)
    (out : List UInt8) (code : Int) (h0 : 0 ≤ code) (h1 : code ≤ 255) :
    ∃ doc ts, create .cram m isOther cfg cmd out code = some doc ∧
      ts.length = (Newline.splitAtNewline out).length ∧
      (∀ i (h : i < (Newline.splitAtNewline out).length),
        expectationLine m isOther (Newline.splitAtNewline out)[i] = ts[i]?) ∧
      Cram.parseCram expOk 2 doc
        = .ok (Cram.DocConfig.defaultCram,
            [{ title := []
               command := splitNl cmd []
               exitCode := if code ≠ 0 then some code.toNat else none
               expectations := ts
               lineNumber := 1
               config := some Cram.TCConfig.defaultCram }]) := by
  cases hs : splitNl cmd [] with
  | nil => exact absurd hs (splitNl_ne_nil cmd [])
  | cons c0 more =>
    have hnl := splitNl_no_nl cmd [] (by simp)
    rw [hs] at hnl
    have hj := joinNl_splitNl cmd []
    rw [hs, List.nil_append] at hj
    have hcr' : ∀ l ∈ c0 :: more, '\r' ∉ l := by
      intro l hl hr
      apply hcr
      rw [← hj]
      exact mem_joinNl (c0 :: more) l hl '\r' hr
    have := create_cram_end_to_end hP m isOther hC expOk hexp cfg c0 more hnl hcr' out code h0 h1
    rw [hj] at this
    exact this

end Scrut.GenLemmas
