import ScrutModel.Model.MarkdownSpec
/-!
# Lemmas about the Markdown model

1. the byte-offset slicing of `extract_code_block_start` never fails and equals a pure
   character-level function (`fencePure`);
2. hence the tokenizer never crashes and equals the pure `runP`;
3. the loops of the tokenizer (`front` / `verb` / `test`) consume the lines up to and including
   the first closing line, or everything; from this `Covers`.
-/
namespace Scrut.Markdown
open Scrut.LineParser

/-! ## bytes -/

theorem byteLen_append (a b : Line) : byteLen (a ++ b) = byteLen a + byteLen b := by
  induction a with
  | nil => simp [byteLen]
  | cons c r ih => simp [byteLen, ih, Nat.add_assoc]

theorem splitAtByte_append (p r : Line) : splitAtByte (p ++ r) (byteLen p) = some (p, r) := by
  induction p with
  | nil => cases r <;> simp [byteLen, splitAtByte]
  | cons c p ih =>
    have hpos : 0 < c.utf8Size := Char.utf8Size_pos c
    obtain ⟨k, hk⟩ : ∃ k, byteLen (c :: p) = k + 1 := ⟨c.utf8Size + byteLen p - 1, by simp [byteLen]; omega⟩
    have hle : c.utf8Size ≤ k + 1 := by simp [byteLen] at hk; omega
    have hsub : k + 1 - c.utf8Size = byteLen p := by simp [byteLen] at hk; omega
    rw [hk]
    simp only [List.cons_append, splitAtByte, hle, if_true, hsub, ih]

theorem slice_mid (p m r : Line) : slice (p ++ m ++ r) (byteLen p) (byteLen (p ++ m)) = .ok m := by
  unfold slice
  rw [List.append_assoc, splitAtByte_append]
  simp only [byteLen_append, Nat.le_add_right, if_true, Nat.add_sub_cancel_left]
  rw [splitAtByte_append]

theorem slice_prefix (p r : Line) : slice (p ++ r) 0 (byteLen p) = .ok p := by
  have := slice_mid [] p r
  simpa [byteLen] using this

theorem sliceFrom_append (p r : Line) : sliceFrom (p ++ r) (byteLen p) = .ok r := by
  unfold sliceFrom
  rw [splitAtByte_append]

/-! ## `extract_code_block_start` is a pure function on characters -/

/-- after the language started: `pre` = the backticks, `mid` = the language so far -/
def scanSomePure (pre : Line) : Line → Line → Option (Line × Line × Line)
  | mid, [] => some (pre, trim mid, [])
  | mid, ch :: rest =>
    if ch = '{' then some (pre, trim mid, trimEnd (ch :: rest)) else scanSomePure pre (mid ++ [ch]) rest

/-- still in the backticks `pre` -/
def scanNonePure : Line → Line → Option (Line × Line × Line)
  | _, [] => none
  | pre, ch :: rest =>
    if ch ≠ '`' then
      (if pre.length < 3 then none
       else if ((ch :: rest).takeWhile (· ≠ '{')).contains '`' then none else scanSomePure pre [ch] rest)
    else scanNonePure (pre ++ [ch]) rest

def fencePure (line : Line) : Option (Line × Line × Line) :=
  if isBareFence line then some (line, [], []) else scanNonePure [] line

theorem scanFence_some (line pre : Line) :
    ∀ (rem mid : Line), line = pre ++ mid ++ rem →
      scanFence line rem (byteLen (pre ++ mid)) (some (byteLen pre)) = .ok (scanSomePure pre mid rem) := by
  intro rem
  induction rem with
  | nil =>
    intro mid h
    subst h
    simp only [scanFence, scanSomePure, List.append_nil]
    rw [slice_prefix, sliceFrom_append]
    rfl
  | cons ch rest ih =>
    intro mid h
    simp only [scanFence, scanSomePure]
    split
    · subst h
      rw [List.append_assoc pre mid, slice_prefix]
      rw [← List.append_assoc pre mid, slice_mid, sliceFrom_append]
      rfl
    · have h' : line = pre ++ (mid ++ [ch]) ++ rest := by simp [h]
      have := ih (mid ++ [ch]) h'
      simpa [byteLen_append, byteLen, Nat.add_assoc] using this

theorem scanFence_none (line : Line) :
    ∀ (rem pre : Line), line = pre ++ rem → byteLen pre = pre.length →
      scanFence line rem pre.length none = .ok (scanNonePure pre rem) := by
  intro rem
  induction rem with
  | nil => intro pre _ _; simp [scanFence, scanNonePure]
  | cons ch rest ih =>
    intro pre h hb
    simp only [scanFence, scanNonePure]
    split
    · split
      · rfl
      · have hs : sliceFrom line pre.length = .ok (ch :: rest) := by
          rw [h, ← hb]; exact sliceFrom_append pre (ch :: rest)
        rw [hs]
        simp only []
        split
        · rfl
        · have h' : line = pre ++ [ch] ++ rest := by simp [h]
          have := scanFence_some line pre rest [ch] h'
          simpa [byteLen_append, byteLen, hb] using this
    · rename_i hch
      have hch : ch = '`' := by simpa using hch
      subst hch
      have h' : line = (pre ++ ['`']) ++ rest := by simp [h]
      have hb' : byteLen (pre ++ ['`']) = (pre ++ ['`']).length := by
        simp [byteLen_append, byteLen, hb]; rfl
      have := ih (pre ++ ['`']) h' hb'
      have h1 : ('`' : Char).utf8Size = 1 := rfl
      simpa [h1] using this

theorem extractCodeBlockStart_eq (line : Line) : extractCodeBlockStart line = .ok (fencePure line) := by
  unfold extractCodeBlockStart fencePure
  split
  · rfl
  · have := scanFence_none line line [] (by simp) (by simp [byteLen])
    simpa using this

/-! ## the fence recogniser accepts exactly the fence lines of the property (`isFenceLine`) -/

theorem scanSomePure_isSome (pre : Line) : ∀ (rem mid : Line), ∃ r, scanSomePure pre mid rem = some r := by
  intro rem
  induction rem with
  | nil => intro mid; exact ⟨_, rfl⟩
  | cons ch rest ih =>
    intro mid
    simp only [scanSomePure]
    split
    · exact ⟨_, rfl⟩
    · exact ih _

theorem scanSomePure_fst (pre : Line) : ∀ (rem mid : Line) (r : Line × Line × Line),
    scanSomePure pre mid rem = some r → r.1 = pre := by
  intro rem
  induction rem with
  | nil => intro mid r h; simp only [scanSomePure] at h; injection h with h; subst h; rfl
  | cons ch rest ih =>
    intro mid r h
    simp only [scanSomePure] at h
    split at h
    · injection h with h; subst h; rfl
    · exact ih _ r h

theorem fence_cons_tick (rest : Line) :
    fenceTicks ('`' :: rest) = '`' :: fenceTicks rest ∧ fenceInfo ('`' :: rest) = fenceInfo rest := by
  simp [fenceTicks, fenceInfo]

theorem fence_cons_other (ch : Char) (rest : Line) (h : ch ≠ '`') :
    fenceTicks (ch :: rest) = [] ∧ fenceInfo (ch :: rest) = ch :: rest := by
  simp [fenceTicks, fenceInfo, h]

/-- `scanNonePure` in terms of the run of backticks and the rest behind it -/
theorem scanNonePure_none_iff : ∀ (rem pre : Line),
    scanNonePure pre rem = none ↔
      (fenceInfo rem = [] ∨ pre.length + (fenceTicks rem).length < 3 ∨
        ((fenceInfo rem).takeWhile (· ≠ '{')).contains '`' = true) := by
  intro rem
  induction rem with
  | nil => intro pre; simp [scanNonePure, fenceInfo]
  | cons ch rest ih =>
    intro pre
    simp only [scanNonePure]
    by_cases hch : ch = '`'
    · subst hch
      simp only [ne_eq, not_true_eq_false, if_false]
      rw [ih, (fence_cons_tick rest).1, (fence_cons_tick rest).2]
      simp only [List.length_append, List.length_cons, List.length_nil]
      constructor
      · intro h
        rcases h with h | h | h
        · exact Or.inl h
        · exact Or.inr (Or.inl (by omega))
        · exact Or.inr (Or.inr h)
      · intro h
        rcases h with h | h | h
        · exact Or.inl h
        · exact Or.inr (Or.inl (by omega))
        · exact Or.inr (Or.inr h)
    · rw [(fence_cons_other ch rest hch).1, (fence_cons_other ch rest hch).2]
      simp only [ne_eq, hch, not_false_eq_true, if_true, List.length_nil, Nat.add_zero]
      constructor
      · intro h
        split at h
        · rename_i h3; exact Or.inr (Or.inl h3)
        · split at h
          · rename_i h4; exact Or.inr (Or.inr h4)
          · obtain ⟨r, hr⟩ := scanSomePure_isSome pre rest [ch]
            rw [hr] at h; cases h
      · intro h
        rcases h with h | h | h
        · cases h
        · rw [if_pos h]
        · split
          · rfl
          · simp only [h, if_true]

theorem scanNonePure_fst : ∀ (rem pre : Line) (r : Line × Line × Line),
    scanNonePure pre rem = some r → r.1 = pre ++ fenceTicks rem := by
  intro rem
  induction rem with
  | nil => intro pre r h; simp [scanNonePure] at h
  | cons ch rest ih =>
    intro pre r h
    simp only [scanNonePure] at h
    by_cases hch : ch = '`'
    · subst hch
      simp only [ne_eq, not_true_eq_false, if_false] at h
      rw [ih _ r h, (fence_cons_tick rest).1]
      simp
    · simp only [ne_eq, hch, not_false_eq_true, if_true] at h
      split at h
      · cases h
      · split at h
        · cases h
        · rw [scanSomePure_fst pre rest [ch] r h, (fence_cons_other ch rest hch).1]
          simp

theorem byteLen_backticks (l : Line) (h : l.all (· = '`') = true) : byteLen l = l.length := by
  induction l with
  | nil => rfl
  | cons c r ih =>
    simp only [List.all_cons, Bool.and_eq_true, decide_eq_true_eq] at h
    obtain ⟨hc, hr⟩ := h
    subst hc
    have h1 : ('`' : Char).utf8Size = 1 := rfl
    simp only [byteLen, ih hr, h1, List.length_cons]
    omega

theorem takeWhile_all (l : Line) (h : l.all (· = '`') = true) : fenceTicks l = l ∧ fenceInfo l = [] := by
  induction l with
  | nil => exact ⟨rfl, rfl⟩
  | cons c r ih =>
    simp only [List.all_cons, Bool.and_eq_true, decide_eq_true_eq] at h
    obtain ⟨hc, hr⟩ := h
    subst hc
    obtain ⟨h1, h2⟩ := ih hr
    unfold fenceTicks fenceInfo at *
    simp [h1, h2]

theorem all_of_info_nil (l : Line) (h : fenceInfo l = []) : l.all (· = '`') = true := by
  induction l with
  | nil => rfl
  | cons c r ih =>
    unfold fenceInfo at h ih
    by_cases hc : c = '`'
    · subst hc
      simp only [List.dropWhile_cons, decide_true, if_true] at h
      simp [ih h]
    · have hd : decide (c = '`') = false := by simpa using hc
      simp [hd] at h

/-- **The code's fence recogniser and the property's notion of a fence line agree**: a line is
reported as the start of a code block iff it is three or more backticks followed by an info string
without backtick. -/
theorem fencePure_isSome_iff (l : Line) : (fencePure l).isSome = isFenceLine l := by
  unfold fencePure
  split
  · rename_i hb
    unfold isBareFence at hb
    simp only [Bool.and_eq_true, decide_eq_true_eq] at hb
    obtain ⟨h1, h2⟩ := takeWhile_all l hb.2
    have h3 := byteLen_backticks l hb.2
    have h4 : 3 ≤ l.length := by omega
    unfold isFenceLine fenceLang
    rw [h1, h2]
    simp [h4]
  · rename_i hb
    cases hs : scanNonePure [] l with
    | none =>
      have := (scanNonePure_none_iff l []).mp hs
      unfold isFenceLine fenceLang
      rcases this with h | h | h
      · have hall := all_of_info_nil l h
        obtain ⟨h1, _⟩ := takeWhile_all l hall
        have h3 := byteLen_backticks l hall
        have h4 : ¬ 3 ≤ l.length := by
          intro h4
          apply hb
          unfold isBareFence
          simp [hall, h3, h4]
        rw [h1]
        simp [h4]
      · simp only [List.length_nil, Nat.zero_add] at h
        have : ¬ 3 ≤ (fenceTicks l).length := by omega
        simp [this]
      · rw [h]; simp
    | some r =>
      have hne : scanNonePure [] l ≠ none := by rw [hs]; simp
      rw [Ne, scanNonePure_none_iff] at hne
      unfold isFenceLine fenceLang
      simp only [not_or, List.length_nil, Nat.zero_add, Nat.not_lt, Bool.not_eq_true] at hne
      rw [hne.2.2]
      simp [hne.2.1]

/-- … and the fence it reports is the run of backticks at the start of the line -/
theorem fencePure_fst (l : Line) (r : Line × Line × Line) (h : fencePure l = some r) : r.1 = fenceTicks l := by
  unfold fencePure at h
  split at h
  · rename_i hb
    unfold isBareFence at hb
    simp only [Bool.and_eq_true, decide_eq_true_eq] at hb
    injection h with h
    subst h
    exact (takeWhile_all l hb.2).1.symm
  · simpa using scanNonePure_fst l [] r h

theorem fence_iff_spec (l : Line) :
    extractCodeBlockStart l = .ok none ↔ isFenceLine l = false := by
  rw [extractCodeBlockStart_eq, ← fencePure_isSome_iff]
  cases fencePure l <;> simp

/-! ## the tokenizer never crashes and is the pure `runP` -/

@[simp] theorem csub_succ_one (n : Nat) : csub (n + 1) 1 = .ok n := by
  simp [csub]

/-- `run` without the checked operations -/
def runP (languages : List Line) : Mode → Bool → Nat → List Line → List Tok
  | m, _, _, [] => m.flushTok
  | .top, cs, li, l :: rest =>
    if !cs && l = frontMatterFence then runP languages (.front []) cs (li + 1) rest
    else
      match fencePure l with
      | some (bt, language, config) =>
        if !languages.contains language then runP languages (.verb bt li language [l]) true (li + 1) rest
        else
          match stripBraces config with
          | some c => runP languages (.test bt language [(li, c)] [] []) true (li + 1) rest
          | none => runP languages (.test bt language [] [] []) true (li + 1) rest
      | none => .line li l :: runP languages .top (cs || !(trim l).isEmpty) (li + 1) rest
  | .front acc, cs, li, l :: rest =>
    if l = frontMatterFence then .docConfig acc :: runP languages .top cs (li + 1) rest
    else runP languages (.front (acc ++ [(li, l)])) cs (li + 1) rest
  | .verb bt start language acc, cs, li, l :: rest =>
    if startsWith l bt then .verbatim start language (acc ++ [l]) :: runP languages .top cs (li + 1) rest
    else runP languages (.verb bt start language (acc ++ [l])) cs (li + 1) rest
  | .test bt language cfg comments code, cs, li, l :: rest =>
    if startsWith l bt then .test language cfg comments code :: runP languages .top cs (li + 1) rest
    else if code.isEmpty && isComment l then
      runP languages (.test bt language cfg (comments ++ [(li, l)]) code) cs (li + 1) rest
    else runP languages (.test bt language cfg comments (code ++ [(li, l)])) cs (li + 1) rest

theorem run_eq (languages : List Line) (lines : List Line) :
    ∀ (m : Mode) (cs : Bool) (li : Nat), run languages m cs li lines = .ok (runP languages m cs li lines) := by
  induction lines with
  | nil => intro m cs li; cases m <;> simp [run, runP]
  | cons l rest ih =>
    intro m cs li
    cases m with
    | top =>
      simp only [run, runP, extractCodeBlockStart_eq, csub_succ_one]
      generalize fencePure l = f
      split
      · exact ih _ _ _
      · rcases f with _ | ⟨bt, language, config⟩
        · simp only [ih]
        · simp only []
          split
          · exact ih _ _ _
          · cases stripBraces config <;> simp only [] <;> exact ih _ _ _
    | front acc =>
      simp only [run, runP, csub_succ_one]
      split
      · rw [ih]
      · exact ih _ _ _
    | verb bt start language acc =>
      simp only [run, runP]
      split
      · rw [ih]
      · exact ih _ _ _
    | test bt language cfg comments code =>
      simp only [run, runP, csub_succ_one]
      split
      · rw [ih]
      · split
        · exact ih _ _ _
        · exact ih _ _ _

theorem tokenize_eq (languages : List Line) (lines : List Line) :
    tokenize languages lines = .ok (runP languages .top false 0 lines) := run_eq _ _ _ _ _

/-! ## the loops -/

theorem number_append (i : Nat) (a b : List Line) :
    number i (a ++ b) = number i a ++ number (i + a.length) b := by
  induction a generalizing i with
  | nil => simp [number]
  | cons l r ih => simp [number, ih, Nat.add_assoc, Nat.add_comm 1]

theorem front_loop (L : List Line) (cs : Bool) (lines : List Line) :
    ∀ (acc : Numbered) (li : Nat),
      (∃ body rest, lines = body ++ frontMatterFence :: rest ∧ (∀ x ∈ body, x ≠ frontMatterFence) ∧
        runP L (.front acc) cs li lines
          = .docConfig (acc ++ number li body) :: runP L .top cs (li + body.length + 1) rest)
      ∨ ((∀ x ∈ lines, x ≠ frontMatterFence) ∧
        runP L (.front acc) cs li lines = [.docConfig (acc ++ number li lines)]) := by
  induction lines with
  | nil => intro acc li; right; simp [runP, Mode.flushTok, number]
  | cons l rest ih =>
    intro acc li
    by_cases h : l = frontMatterFence
    · left
      refine ⟨[], rest, by simp [h], by simp, ?_⟩
      simp [runP, h, number]
    · rcases ih (acc ++ [(li, l)]) (li + 1) with ⟨body, rest', h1, h2, h3⟩ | ⟨h2, h3⟩
      · left
        refine ⟨l :: body, rest', by simp [h1], ?_, ?_⟩
        · intro x hx
          rcases List.mem_cons.mp hx with rfl | hx
          · exact h
          · exact h2 x hx
        · simp only [runP, h, if_false, h3, number, List.length_cons, List.append_assoc, List.cons_append, List.nil_append]
          congr 2
          omega
      · right
        refine ⟨?_, ?_⟩
        · intro x hx
          rcases List.mem_cons.mp hx with rfl | hx
          · exact h
          · exact h2 x hx
        · simp [runP, h, h3, number]

theorem verb_loop (L : List Line) (cs : Bool) (bt : Line) (start : Nat) (language : Line) (lines : List Line) :
    ∀ (acc : List Line) (li : Nat),
      (∃ body closer rest, lines = body ++ closer :: rest ∧ (∀ x ∈ body, startsWith x bt = false) ∧
        startsWith closer bt = true ∧
        runP L (.verb bt start language acc) cs li lines
          = .verbatim start language (acc ++ (body ++ [closer])) :: runP L .top cs (li + body.length + 1) rest)
      ∨ ((∀ x ∈ lines, startsWith x bt = false) ∧
        runP L (.verb bt start language acc) cs li lines = [.verbatim start language (acc ++ lines)]) := by
  induction lines with
  | nil => intro acc li; right; simp [runP, Mode.flushTok]
  | cons l rest ih =>
    intro acc li
    by_cases h : startsWith l bt = true
    · left
      refine ⟨[], l, rest, by simp, by simp, h, ?_⟩
      simp [runP, h]
    · have h : startsWith l bt = false := by simpa using h
      rcases ih (acc ++ [l]) (li + 1) with ⟨body, closer, rest', h1, h2, hc, h3⟩ | ⟨h2, h3⟩
      · left
        refine ⟨l :: body, closer, rest', by simp [h1], ?_, hc, ?_⟩
        · intro x hx
          rcases List.mem_cons.mp hx with rfl | hx
          · exact h
          · exact h2 x hx
        · have ha : li + 1 + body.length + 1 = li + (body.length + 1) + 1 := by omega
          simp only [runP, h, h3, List.length_cons, ha]
          simp
      · right
        refine ⟨?_, ?_⟩
        · intro x hx
          rcases List.mem_cons.mp hx with rfl | hx
          · exact h
          · exact h2 x hx
        · simp [runP, h, h3]

theorem test_loop (L : List Line) (cs : Bool) (bt language : Line) (cfg : Numbered) (lines : List Line) :
    ∀ (cm cd : Numbered) (li : Nat),
      (∃ body closer rest cm' cd', lines = body ++ closer :: rest ∧ (∀ x ∈ body, startsWith x bt = false) ∧
        startsWith closer bt = true ∧ cm' ++ cd' = cm ++ cd ++ number li body ∧
        runP L (.test bt language cfg cm cd) cs li lines
          = .test language cfg cm' cd' :: runP L .top cs (li + body.length + 1) rest)
      ∨ (∃ cm' cd', (∀ x ∈ lines, startsWith x bt = false) ∧ cm' ++ cd' = cm ++ cd ++ number li lines ∧
        runP L (.test bt language cfg cm cd) cs li lines = [.test language cfg cm' cd']) := by
  induction lines with
  | nil => intro cm cd li; right; exact ⟨cm, cd, by simp, by simp [number], by simp [runP, Mode.flushTok]⟩
  | cons l rest ih =>
    intro cm cd li
    by_cases h : startsWith l bt = true
    · left
      exact ⟨[], l, rest, cm, cd, by simp, by simp, h, by simp [number], by simp [runP, h]⟩
    · have h : startsWith l bt = false := by simpa using h
      by_cases hc : (cd.isEmpty && isComment l) = true
      · have hcd : cd = [] := by
          have : cd.isEmpty = true := by
            cases hh : cd.isEmpty <;> simp [hh] at hc ⊢
          simpa using this
        rcases ih (cm ++ [(li, l)]) cd (li + 1) with ⟨body, closer, rest', cm', cd', h1, h2, hcl, h4, h3⟩ | ⟨cm', cd', h2, h4, h3⟩
        · left
          refine ⟨l :: body, closer, rest', cm', cd', by simp [h1], ?_, hcl, ?_, ?_⟩
          · intro x hx
            rcases List.mem_cons.mp hx with rfl | hx
            · exact h
            · exact h2 x hx
          · rw [h4, hcd]; simp [number]
          · have ha : li + 1 + body.length + 1 = li + (body.length + 1) + 1 := by omega
            simp only [runP, h, hc, if_true, h3, List.length_cons, ha]
            simp
        · right
          refine ⟨cm', cd', ?_, ?_, ?_⟩
          · intro x hx
            rcases List.mem_cons.mp hx with rfl | hx
            · exact h
            · exact h2 x hx
          · rw [h4, hcd]; simp [number]
          · simp [runP, h, hc, h3]
      · rcases ih cm (cd ++ [(li, l)]) (li + 1) with ⟨body, closer, rest', cm', cd', h1, h2, hcl, h4, h3⟩ | ⟨cm', cd', h2, h4, h3⟩
        · left
          refine ⟨l :: body, closer, rest', cm', cd', by simp [h1], ?_, hcl, ?_, ?_⟩
          · intro x hx
            rcases List.mem_cons.mp hx with rfl | hx
            · exact h
            · exact h2 x hx
          · rw [h4]; simp [number]
          · have ha : li + 1 + body.length + 1 = li + (body.length + 1) + 1 := by omega
            simp only [runP, h, hc, h3, List.length_cons, ha]
            simp
        · right
          refine ⟨cm', cd', ?_, ?_, ?_⟩
          · intro x hx
            rcases List.mem_cons.mp hx with rfl | hx
            · exact h
            · exact h2 x hx
          · rw [h4]; simp [number]
          · simp [runP, h, hc, h3]

/-! ## the tokens partition the document -/

theorem runP_top_cons (L : List Line) (cs : Bool) (li : Nat) (l : Line) (rest : List Line) :
    runP L .top cs li (l :: rest) =
      if !cs && l = frontMatterFence then runP L (.front []) cs (li + 1) rest
      else
        match fencePure l with
        | some (bt, language, config) =>
          if !L.contains language then runP L (.verb bt li language [l]) true (li + 1) rest
          else runP L (.test bt language (cfgLines li config) [] []) true (li + 1) rest
        | none => .line li l :: runP L .top (cs || !(trim l).isEmpty) (li + 1) rest := by
  simp only [runP]
  split
  · rfl
  · rcases fencePure l with _ | ⟨bt, language, config⟩
    · rfl
    · simp only [cfgLines]
      split
      · rfl
      · cases stripBraces config <;> rfl

theorem covers_top (L : List Line) :
    ∀ (n : Nat) (lines : List Line), lines.length ≤ n →
      ∀ (cs : Bool) (li : Nat), Covers L li lines (runP L .top cs li lines) := by
  intro n
  induction n with
  | zero =>
    intro lines h cs li
    have : lines = [] := List.eq_nil_of_length_eq_zero (by omega)
    subst this
    simp only [runP, Mode.flushTok]
    exact .nil li
  | succ n ih =>
    intro lines h cs li
    cases lines with
    | nil => simp only [runP, Mode.flushTok]; exact .nil li
    | cons l rest =>
      have hr : rest.length ≤ n := by simp at h; omega
      rw [runP_top_cons]
      split
      · rename_i hfm
        have hl : l = frontMatterFence := by simp at hfm; exact hfm.2
        subst hl
        rcases front_loop L cs rest [] (li + 1) with ⟨body, rest', h1, h2, h3⟩ | ⟨h2, h3⟩
        · rw [h3, h1]
          have hlen : rest'.length ≤ n := by rw [h1] at hr; simp at hr; omega
          have ha : li + 1 + body.length + 1 = li + body.length + 2 := by omega
          rw [ha]
          simpa using Covers.frontClosed li body rest' _ h2 (ih rest' hlen cs (li + body.length + 2))
        · rw [h3]
          simpa using Covers.frontOpen (languages := L) li rest h2
      · cases hf : fencePure l with
        | none =>
          simp only []
          exact .line li l rest _ (by rw [extractCodeBlockStart_eq, hf]) (ih rest hr _ _)
        | some t =>
          obtain ⟨bt, language, config⟩ := t
          have hx : extractCodeBlockStart l = .ok (some (bt, language, config)) := by
            rw [extractCodeBlockStart_eq, hf]
          simp only []
          split
          · rename_i hlang
            have hlang : L.contains language = false := by simpa using hlang
            rcases verb_loop L true bt li language rest [l] (li + 1) with ⟨body, closer, rest', h1, h2, hc, h3⟩ | ⟨h2, h3⟩
            · rw [h3, h1]
              have hlen : rest'.length ≤ n := by rw [h1] at hr; simp at hr; omega
              have ha : li + 1 + body.length + 1 = li + body.length + 2 := by omega
              rw [ha]
              simpa using Covers.verbClosed li l bt language config body closer rest' _ hx hlang h2 hc
                (ih rest' hlen true (li + body.length + 2))
            · rw [h3]
              simpa using Covers.verbOpen li l bt language config rest hx hlang h2
          · rename_i hlang
            have hlang : L.contains language = true := by simpa using hlang
            rcases test_loop L true bt language (cfgLines li config) rest [] [] (li + 1) with
              ⟨body, closer, rest', cm', cd', h1, h2, hc, h4, h3⟩ | ⟨cm', cd', h2, h4, h3⟩
            · rw [h3, h1]
              have hlen : rest'.length ≤ n := by rw [h1] at hr; simp at hr; omega
              have ha : li + 1 + body.length + 1 = li + body.length + 2 := by omega
              rw [ha]
              exact Covers.testClosed li l bt language config body closer rest' _ cm' cd' hx hlang h2 hc
                (by simpa using h4) (ih rest' hlen true (li + body.length + 2))
            · rw [h3]
              exact Covers.testOpen li l bt language config rest cm' cd' hx hlang h2 (by simpa using h4)

theorem tokenize_covers (L : List Line) (lines : List Line) :
    ∃ toks, tokenize L lines = .ok toks ∧ Covers L 0 lines toks :=
  ⟨_, tokenize_eq L lines, covers_top L lines.length lines (Nat.le_refl _) false 0⟩

/-! ## unterminated constructs extend to the end of the document -/

theorem fencePure_frontMatterFence : fencePure frontMatterFence = none := by decide

theorem unterminated_front (L : List Line) (li : Nat) (body : List Line)
    (hb : ∀ x ∈ body, x ≠ frontMatterFence) :
    run L .top false li (frontMatterFence :: body) = .ok [.docConfig (number (li + 1) body)] := by
  rw [run_eq, runP_top_cons]
  simp only [Bool.not_false, Bool.true_and, decide_true, if_true]
  rcases front_loop L false body [] (li + 1) with ⟨b, r, h1, _, _⟩ | ⟨_, h3⟩
  · exact absurd rfl (hb frontMatterFence (by rw [h1]; simp))
  · rw [h3]; simp

theorem opener_ne_front {l bt language config : Line}
    (hx : extractCodeBlockStart l = .ok (some (bt, language, config))) : l ≠ frontMatterFence := by
  intro h
  subst h
  rw [extractCodeBlockStart_eq, fencePure_frontMatterFence] at hx
  cases hx

theorem fencePure_of {l bt language config : Line}
    (hx : extractCodeBlockStart l = .ok (some (bt, language, config))) :
    fencePure l = some (bt, language, config) := by
  rw [extractCodeBlockStart_eq] at hx
  injection hx

theorem unterminated_verbatim (L : List Line) (cs : Bool) (li : Nat) (opener bt language config : Line)
    (body : List Line)
    (hx : extractCodeBlockStart opener = .ok (some (bt, language, config)))
    (hl : L.contains language = false) (hb : ∀ x ∈ body, startsWith x bt = false) :
    run L .top cs li (opener :: body) = .ok [.verbatim li language (opener :: body)] := by
  rw [run_eq, runP_top_cons]
  have h1 : (!cs && decide (opener = frontMatterFence)) = false := by simp [opener_ne_front hx]
  simp only [h1, fencePure_of hx, hl]
  rcases verb_loop L true bt li language body [opener] (li + 1) with ⟨b, c, r, h1, h2, hc, _⟩ | ⟨_, h3⟩
  · have := hb c (by rw [h1]; simp)
    rw [hc] at this
    cases this
  · simp [h3]

theorem unterminated_test (L : List Line) (cs : Bool) (li : Nat) (opener bt language config : Line)
    (body : List Line)
    (hx : extractCodeBlockStart opener = .ok (some (bt, language, config)))
    (hl : L.contains language = true) (hb : ∀ x ∈ body, startsWith x bt = false) :
    ∃ comments code, run L .top cs li (opener :: body) = .ok [.test language (cfgLines li config) comments code]
      ∧ comments ++ code = number (li + 1) body := by
  rw [run_eq, runP_top_cons]
  have h1 : (!cs && decide (opener = frontMatterFence)) = false := by simp [opener_ne_front hx]
  simp only [h1, fencePure_of hx, hl]
  rcases test_loop L true bt language (cfgLines li config) body [] [] (li + 1) with
    ⟨b, c, r, _, _, h1, h2, hc, _, _⟩ | ⟨cm, cd, _, h4, h3⟩
  · have := hb c (by rw [h1]; simp)
    rw [hc] at this
    cases this
  · exact ⟨cm, cd, by simp [h3], by simpa using h4⟩

/-! ## the parser adds no crash -/

theorem addAll_ne_crash (expOk : Line → Bool) (code : Numbered) :
    ∀ (s : LineParser.State Cfg), addAll expOk s code ≠ .error .crash := by
  induction code with
  | nil => intro s; simp [addAll]
  | cons x rest ih =>
    intro s
    obtain ⟨i, l⟩ := x
    simp only [addAll]
    split
    · simp
    · exact ih _

theorem stepTok_ne_crash (env : Env) (st : PState) (t : Tok) : stepTok env st t ≠ .error .crash := by
  cases t with
  | line i l => simp only [stepTok]; split <;> simp
  | docConfig ls => simp only [stepTok]; split <;> simp
  | verbatim s lang ls => simp only [stepTok]; split <;> simp
  | test lang cfg cm cd =>
    simp only [stepTok]
    split
    · rename_i e he
      split at he
      · cases he
      · split at he <;> cases he
        simp
    · rename_i c hc
      split
      · rename_i e he
        intro h
        cases h
        exact addAll_ne_crash _ _ _ he
      · split
        · split <;> simp
        · simp

theorem parseTokens_ne_crash (env : Env) (toks : List Tok) :
    ∀ (st : PState), parseTokens env st toks ≠ .error .crash := by
  induction toks with
  | nil => intro st; simp [parseTokens]
  | cons t rest ih =>
    intro st
    simp only [parseTokens]
    split
    · rename_i e he
      intro h
      cases h
      exact stepTok_ne_crash _ _ _ he
    · exact ih _

theorem parseLines_ne_crash (env : Env) (lines : List Line) : parseLines env lines ≠ .error .crash := by
  simp only [parseLines, tokenize_eq]
  split
  · rename_i e he
    intro h
    cases h
    exact parseTokens_ne_crash _ _ _ he
  · simp

end Scrut.Markdown
