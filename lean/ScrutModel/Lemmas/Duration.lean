import ScrutModel.Model.Duration
/-! Proof that humantime's parser reads back what its formatter writes (model level). -/
namespace Scrut.Dur

theorem run_cons_ok {st st' : St} {c : Char} {cs : List Char} (h : step st c = .ok st') :
    run st (c :: cs) = run st' cs := by
  simp [run, h, bind, Except.bind]

theorem digit_facts : ∀ k, k < 10 →
    isDigit (Char.ofNat (48 + k)) = true ∧ digitVal (Char.ofNat (48 + k)) = k := by
  decide

/-- the number loop started in `parse_first_char` or in the first inner loop with `n = 0` -/
def NumStart (out : Out) (s : St) : Prop := (∃ any, s = .first any out) ∨ s = .num 0 out

theorem step_start_digit {out : Out} {s : St} (hs : NumStart out s) (k : Nat) (hk : k < 10) :
    step s (Char.ofNat (48 + k)) = .ok (.num k out) := by
  have ⟨hd, hv⟩ := digit_facts k hk
  rcases hs with ⟨any, rfl⟩ | rfl
  · simp [step, hd, hv, pure, Except.pure]
  · have h1 : ckMul 0 10 = .ok 0 := by simp [ckMul]
    have h2 : ckAdd 0 k = .ok k := by
      have : k ≤ U64MAX := by simp only [U64MAX]; omega
      simp [ckAdd, this]
    simp [step, hd, hv, h1, h2, bind, Except.bind, pure, Except.pure]

theorem step_num_digit (n : Nat) (out : Out) (k : Nat) (hk : k < 10) (hb : n * 10 + k ≤ U64MAX) :
    step (.num n out) (Char.ofNat (48 + k)) = .ok (.num (n * 10 + k) out) := by
  have ⟨hd, hv⟩ := digit_facts k hk
  have h1 : ckMul n 10 = .ok (n * 10) := by
    have : n * 10 ≤ U64MAX := by omega
    simp [ckMul, this]
  have h2 : ckAdd (n * 10) k = .ok (n * 10 + k) := by simp [ckAdd, hb]
  simp [step, hd, hv, h1, h2, bind, Except.bind, pure, Except.pure]

theorem run_digits (out : Out) (s : St) (hs : NumStart out s) :
    ∀ (fuel n : Nat) (acc tail : List Char), n < fuel → n ≤ U64MAX →
      run s (digitsAux fuel n acc ++ tail) = run (.num n out) (acc ++ tail) := by
  intro fuel
  induction fuel with
  | zero => intro n _ _ h; omega
  | succ fuel ih =>
    intro n acc tail hlt hb
    have hk : n % 10 < 10 := Nat.mod_lt _ (by decide)
    simp only [digitsAux]
    by_cases h0 : n / 10 = 0
    · simp only [h0, if_true]
      have hn : n % 10 = n := by omega
      rw [List.cons_append, run_cons_ok (step_start_digit hs _ hk), hn]
    · simp only [h0, if_false]
      rw [ih (n / 10) _ tail (by omega) (by omega), List.cons_append,
        run_cons_ok (step_num_digit (n / 10) out _ hk (by omega))]
      have : n / 10 * 10 + n % 10 = n := by omega
      rw [this]

theorem run_natDigits (out : Out) (s : St) (hs : NumStart out s) (n : Nat) (tail : List Char)
    (hb : n ≤ U64MAX) : run s (natDigits n ++ tail) = run (.num n out) tail := by
  have := run_digits out s hs (n + 1) n [] tail (by omega) hb
  simpa [natDigits] using this

/-- letters that are neither digits nor white space -/
def pureLetter (c : Char) : Bool := isLetter c && !isDigit c && !isWs c

theorem step_num_letter (n : Nat) (out : Out) (c : Char) (h : pureLetter c = true) :
    step (.num n out) c = .ok (.unit n none [c] out) := by
  simp only [pureLetter, Bool.and_eq_true, Bool.not_eq_true'] at h
  simp [step, h.1.1, h.1.2, h.2, pure, Except.pure]

theorem step_unit_letter (n : Nat) (fr : Option (Nat × Nat)) (u : List Char) (out : Out) (c : Char)
    (h : pureLetter c = true) : step (.unit n fr u out) c = .ok (.unit n fr (u ++ [c]) out) := by
  simp only [pureLetter, Bool.and_eq_true, Bool.not_eq_true'] at h
  simp [step, h.1.1, h.1.2, h.2, pure, Except.pure]

theorem run_unit_letters (n : Nat) (fr : Option (Nat × Nat)) (out : Out) :
    ∀ (l u tail : List Char), l.all pureLetter = true →
      run (.unit n fr u out) (l ++ tail) = run (.unit n fr (u ++ l) out) tail := by
  intro l
  induction l with
  | nil => intro u tail _; simp
  | cons c l ih =>
    intro u tail h
    simp only [List.all_cons, Bool.and_eq_true] at h
    rw [List.cons_append, run_cons_ok (step_unit_letter n fr u out c h.1), ih _ _ h.2]
    simp

theorem run_num_letters (n : Nat) (out : Out) (l tail : List Char) (hne : l ≠ [])
    (h : l.all pureLetter = true) :
    run (.num n out) (l ++ tail) = run (.unit n none l out) tail := by
  cases l with
  | nil => exact absurd rfl hne
  | cons c l =>
    simp only [List.all_cons, Bool.and_eq_true] at h
    rw [List.cons_append, run_cons_ok (step_num_letter n out c h.1), run_unit_letters n none out l [c] tail h.2]
    simp

theorem letters_pure :
    ∀ c ∈ ['y', 'e', 'a', 'r', 's', 'm', 'o', 'n', 't', 'h', 'd', 'u'], pureLetter c = true := by
  decide

theorem text_mem (u : FU) (v : Nat) :
    ∀ c ∈ u.text v, c ∈ ['y', 'e', 'a', 'r', 's', 'm', 'o', 'n', 't', 'h', 'd', 'u'] := by
  cases u <;> by_cases hv : v > 1 <;> simp [FU.text, hv]

theorem text_letters (u : FU) (v : Nat) : (u.text v).all pureLetter = true ∧ u.text v ≠ [] := by
  constructor
  · rw [List.all_eq_true]
    intro c hc
    exact letters_pure c (text_mem u v c hc)
  · cases u <;> simp [FU.text]

def FU.pu : FU → PU
  | .year => .y | .month => .mo | .day => .d | .h => .h | .m => .m | .s => .s
  | .ms => .ms | .us => .us | .ns => .ns

def FU.secOf : FU → Nat
  | .year => 31557600 | .month => 2630016 | .day => 86400 | .h => 3600 | .m => 60 | .s => 1
  | _ => 0

def FU.nsOf : FU → Nat
  | .ms => 1000000 | .us => 1000 | .ns => 1
  | _ => 0

theorem unitOf_text (u : FU) (v : Nat) : unitOf (u.text v) = some u.pu := by
  cases u <;> by_cases hv : v > 1 <;> simp only [FU.text, hv, if_true, if_false, List.append_nil] <;> rfl

theorem addCurrent_plain (sec nsec : Nat) (out : Out) (h1 : out.nanos + nsec < NS)
    (h2 : out.secs + sec ≤ U64MAX) :
    addCurrent sec nsec out = .ok ⟨out.secs + sec, out.nanos + nsec⟩ := by
  have hu : out.nanos + nsec ≤ U64MAX := by simp only [NS, U64MAX] at *; omega
  have hn : ¬ (out.nanos + nsec > NS) := by omega
  have hne : ¬ (out.nanos + nsec = NS) := by omega
  simp [addCurrent, ckAdd, hu, hn, hne, h2, bind, Except.bind, pure, Except.pure]

theorem ckMul_ok (a b : Nat) (h : a * b ≤ U64MAX) : ckMul a b = .ok (a * b) := by simp [ckMul, h]

theorem unitMain_ok (u : FU) (v : Nat) (hS : v * u.secOf ≤ U64MAX) (hN : v * u.nsOf ≤ U64MAX) :
    unitMain u.pu v = .ok (v * u.secOf, v * u.nsOf) := by
  cases u <;> simp only [FU.secOf, FU.nsOf] at hS hN <;>
    simp only [FU.secOf, FU.nsOf, FU.pu, unitMain, Nat.mul_zero, Nat.mul_one] <;>
    first
      | rfl
      | (rw [ckMul_ok _ _ hS]; rfl)
      | (rw [ckMul_ok _ _ hN]; rfl)

theorem parseUnit_text (u : FU) (v : Nat) (out : Out)
    (h1 : out.nanos + v * u.nsOf < NS) (h2 : out.secs + v * u.secOf ≤ U64MAX) :
    parseUnit v none (u.text v) out = .ok ⟨out.secs + v * u.secOf, out.nanos + v * u.nsOf⟩ := by
  have hm : unitMain u.pu v = .ok (v * u.secOf, v * u.nsOf) := by
    apply unitMain_ok
    · omega
    · simp only [NS, U64MAX] at *
      omega
  simp [parseUnit, unitOf_text, hm, addCurrent_plain _ _ _ h1 h2, bind, Except.bind, pure, Except.pure]

def totS : List (Nat × FU) → Nat
  | [] => 0
  | (v, u) :: r => v * u.secOf + totS r

def totN : List (Nat × FU) → Nat
  | [] => 0
  | (v, u) :: r => v * u.nsOf + totN r

/-- every value is its own bound: a non-zero multiplier exists for every unit -/
theorem le_mul_unit (u : FU) (v : Nat) : v ≤ v * u.secOf ∨ v ≤ v * u.nsOf := by
  cases u <;> simp only [FU.secOf, FU.nsOf] <;> omega

def fin (r : R St) : R Out := r >>= finish

theorem fin_run_nil (st : St) : fin (run st []) = finish st := by
  simp [fin, run, bind, Except.bind, pure, Except.pure]

/-- after a completed item (`started = true`): the pending unit is added when the next blank or
the end of the text is seen -/
theorem pending (l : List (Nat × FU)) : ∀ (out : Out) (v : Nat) (u : FU),
    out.secs + v * u.secOf + totS l ≤ U64MAX → out.nanos + v * u.nsOf + totN l < NS →
    fin (run (.unit v none (u.text v) out) (renderItems true l)) =
      .ok ⟨out.secs + v * u.secOf + totS l, out.nanos + v * u.nsOf + totN l⟩ := by
  induction l with
  | nil =>
    intro out v u h1 h2
    simp only [totS, totN, Nat.add_zero] at h1 h2
    simp only [renderItems, fin_run_nil, finish, totS, totN, Nat.add_zero]
    exact parseUnit_text u v out h2 h1
  | cons it r ih =>
    intro out v u h1 h2
    obtain ⟨v', u'⟩ := it
    simp only [totS, totN] at h1 h2
    by_cases hz : v' = 0
    · subst hz
      simp only [renderItems, if_true, totS, totN, Nat.zero_mul, Nat.zero_add]
      simp only [Nat.zero_mul, Nat.zero_add] at h1 h2
      exact ih out v u h1 h2
    · simp only [renderItems, hz, if_false, if_true, totS, totN]
      have hp := parseUnit_text u v out (by omega) (by omega)
      have hstep : step (.unit v none (u.text v) out) ' ' =
          .ok (.first true ⟨out.secs + v * u.secOf, out.nanos + v * u.nsOf⟩) := by
        have hd : isDigit ' ' = false := by decide
        have hw : isWs ' ' = true := by decide
        simp [step, hd, hw, hp, bind, Except.bind, pure, Except.pure]
      have hv' : v' ≤ U64MAX := by
        have := le_mul_unit u' v'
        simp only [NS, U64MAX] at *
        rcases this with h | h <;> omega
      have ⟨hl, hne⟩ := text_letters u' v'
      rw [List.singleton_append, run_cons_ok hstep,
        run_natDigits _ _ (Or.inl ⟨true, rfl⟩) v' _ hv', run_num_letters _ _ _ _ hne hl,
        ih _ v' u' (by simp only; omega) (by simp only; omega)]
      simp only [Out.mk.injEq, Except.ok.injEq]
      omega

/-- before the first item (`started = false`) -/
theorem start (l : List (Nat × FU)) : ∀ (out : Out),
    (∃ it ∈ l, it.1 ≠ 0) → out.secs + totS l ≤ U64MAX → out.nanos + totN l < NS →
    fin (run (.first false out) (renderItems false l)) = .ok ⟨out.secs + totS l, out.nanos + totN l⟩ := by
  induction l with
  | nil => intro out h; simp at h
  | cons it r ih =>
    intro out hex h1 h2
    obtain ⟨v', u'⟩ := it
    simp only [totS, totN] at h1 h2
    by_cases hz : v' = 0
    · subst hz
      simp only [renderItems, if_true, totS, totN, Nat.zero_mul, Nat.zero_add]
      simp only [Nat.zero_mul, Nat.zero_add] at h1 h2
      apply ih out _ h1 h2
      obtain ⟨it, hmem, hne⟩ := hex
      simp only [List.mem_cons] at hmem
      rcases hmem with rfl | hmem
      · exact absurd rfl hne
      · exact ⟨it, hmem, hne⟩
    · simp only [renderItems, hz, if_false, totS, totN, Bool.false_eq_true, List.nil_append]
      have hv' : v' ≤ U64MAX := by
        have := le_mul_unit u' v'
        simp only [NS, U64MAX] at *
        rcases this with h | h <;> omega
      have ⟨hl, hne⟩ := text_letters u' v'
      rw [run_natDigits _ _ (Or.inl ⟨false, rfl⟩) v' _ hv', run_num_letters _ _ _ _ hne hl,
        pending r out v' u' (by omega) (by omega)]
      simp only [Out.mk.injEq, Except.ok.injEq]
      omega

theorem items_tot (secs nanos : Nat) : totS (items secs nanos) = secs ∧ totN (items secs nanos) = nanos := by
  simp only [items, totS, totN, FU.secOf, FU.nsOf]
  omega

theorem items_nonzero (secs nanos : Nat) (h : ¬ (secs = 0 ∧ nanos = 0)) :
    ∃ it ∈ items secs nanos, it.1 ≠ 0 := by
  have ⟨h1, h2⟩ := items_tot secs nanos
  refine Classical.byContradiction fun hno => h ?_
  have hall : ∀ it ∈ items secs nanos, it.1 = 0 := by
    intro it hm
    exact Classical.byContradiction fun hne => hno ⟨it, hm, hne⟩
  have hz : ∀ l : List (Nat × FU), (∀ it ∈ l, it.1 = 0) → totS l = 0 ∧ totN l = 0 := by
    intro l
    induction l with
    | nil => intro _; simp [totS, totN]
    | cons a r ih =>
      intro hl
      obtain ⟨v, u⟩ := a
      have hv : v = 0 := hl (v, u) (by simp)
      have := ih (fun it hm => hl it (by simp [hm]))
      simp [totS, totN, hv, this]
  have := hz _ hall
  omega

/-- **duration round trip** -/
theorem duration_roundtrip (secs nanos : Nat) (hn : nanos < NS) (hs : secs ≤ U64MAX) :
    parseDuration (formatDuration secs nanos) = .ok ⟨secs, nanos⟩ := by
  by_cases h0 : secs = 0 ∧ nanos = 0
  · obtain ⟨rfl, rfl⟩ := h0
    simp only [formatDuration, and_self, if_true]
    rfl
  · simp only [formatDuration, h0, if_false]
    have ⟨h1, h2⟩ := items_tot secs nanos
    have hmain := start (items secs nanos) ⟨0, 0⟩ (items_nonzero secs nanos h0)
      (by simp only [h1]; omega) (by simp only [h2]; omega)
    simp only [h1, h2, Nat.zero_add] at hmain
    unfold parseDuration
    by_cases hz : renderItems false (items secs nanos) = ['0']
    · rw [hz] at hmain
      have : fin (run (.first false ⟨0, 0⟩) ['0']) = .error .err := rfl
      rw [this] at hmain
      cases hmain
    · simp only [hz, if_false]
      exact hmain

end Scrut.Dur
