import ScrutModel.Lemmas.CramCount
/-! Indented lines that are not below a command are an error (since fix 67abd12), for every document. -/
namespace Scrut.Cram
open Scrut.LineParser

theorem endTestcase_command {s s' : St} {i : Nat} (he : s.endTestcase i = .ok s') : s'.command = [] := by
  unfold State.endTestcase at he
  split at he
  · next hemp =>
    have hs : s = s' := by
      repeat' split at he
      all_goals first | (cases he; rfl) | cases he
    subst hs
    simpa using hemp
  · cases he; simp [State.flush]

theorem closed_run (expOk : List Char → Bool) (ind : List Char) (pre : List (List Char)) {s s' : St} {i : Nat}
    (b : Bool) (hb : b = true → s.command = []) (he : run expOk ind s i pre = .ok s')
    (hc : closedAfterGo ind b pre = true) : s'.command = [] := by
  induction pre generalizing s i b with
  | nil =>
    simp only [run] at he; cases he
    exact hb (by simpa [closedAfterGo] using hc)
  | cons l ls ih =>
    simp only [run] at he
    split at he
    · cases he
    · next s1 hs1 =>
      unfold step at hs1
      unfold closedAfterGo at hc
      split at hs1
      · next hcm =>
        cases hs1
        simp only [hcm, if_true] at hc
        exact ih b hb he hc
      · next hcm =>
        simp only [hcm, Bool.false_eq_true, if_false] at hc
        split at hs1
        · next hemp =>
          simp only [hemp, if_true] at hc
          refine ih true (fun _ => ?_) he hc
          split at hs1
          · exact endTestcase_command hs1
          · next hnb =>
            cases hs1
            simp only [State.hasBody, Bool.or_eq_true, Bool.not_eq_true', not_or, Bool.not_eq_false] at hnb
            simpa using hnb.1
        · next hemp =>
          simp only [hemp, Bool.false_eq_true, if_false] at hc
          split at hs1
          · next body hbody =>
            simp only [hbody] at hc
            exact ih false (by simp) he hc
          · next hnone =>
            simp only [hnone] at hc
            refine ih true (fun _ => ?_) he hc
            split at hs1
            · cases hs1
            · next s0 hs0 =>
              cases hs1
              exact endTestcase_command (s' := s0) hs0

theorem step_orphan (expOk : List Char → Bool) (ind : List Char) (s : St) (i : Nat) (line : List Char)
    (hc : s.command = []) (hl : isBodyLine ind line = true) : ∃ e, step expOk ind s i line = .error e := by
  simp only [isBodyLine, Bool.and_eq_true, Bool.not_eq_true'] at hl
  obtain ⟨⟨h1, h2⟩, h3⟩ := hl
  cases hs : stripPrefix ind line with
  | none => simp [hs] at h3
  | some body =>
    simp only [hs, Option.isNone_iff_eq_none] at h3
    simp only [step, h1, h2, hs, Bool.false_eq_true, if_false, State.addBody, hc, List.isEmpty_nil, Bool.or_true,
      if_true, h3, State.addBodyRest]
    cases s.inCommand <;> simp
    · cases stripPrefix ['>', ' '] body <;> simp

theorem run_append (expOk : List Char → Bool) (ind : List Char) (a b : List (List Char)) (s : St) (i : Nat) :
    run expOk ind s i (a ++ b) =
      (match run expOk ind s i a with
       | .error e => .error e
       | .ok s' => run expOk ind s' (i + a.length) b) := by
  induction a generalizing s i with
  | nil => simp [run]
  | cons l ls ih =>
    simp only [List.cons_append, run]
    cases step expOk ind s i l with
    | error e => rfl
    | ok s1 =>
      have : i + (l :: ls).length = i + 1 + ls.length := by simp; omega
      simp only [ih, this]

/-- a body line while no command is open makes the document fail -/
theorem parseLines_orphan (expOk : List Char → Bool) (ind : List Char) (pre post : List (List Char))
    (line : List Char) (hp : closedAfter ind pre = true) (hl : isBodyLine ind line = true) :
    ∃ e, parseLines expOk ind (pre ++ line :: post) = .error e := by
  unfold parseLines
  rw [run_append]
  cases hr : run expOk ind (State.new true) 0 pre with
  | error e => exact ⟨e, rfl⟩
  | ok s =>
    have hc : s.command = [] := closed_run expOk ind pre true (fun _ => rfl) hr hp
    obtain ⟨e, he⟩ := step_orphan expOk ind s (0 + pre.length) line hc hl
    exact ⟨e, by simp only [run, he]⟩

theorem parseCram_orphan (expOk : List Char → Bool) (n : Nat) (text : List Char) (pre post : List (List Char))
    (line : List Char) (ht : lines text = pre ++ line :: post)
    (hp : closedAfter (indentOf n) pre = true) (hl : isBodyLine (indentOf n) line = true) :
    ∃ e, parseCram expOk n text = .error e := by
  obtain ⟨e, he⟩ := parseLines_orphan expOk (indentOf n) pre post line hp hl
  exact ⟨e, by simp [parseCram, parseCramTests, ht, he]⟩

end Scrut.Cram
