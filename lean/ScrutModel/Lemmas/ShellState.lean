import ScrutModel.Model.ShellState
/-!
# Lemmas about the state-carrying model (`ScrutModel.Model.ShellState`)

* `perProcess_eq_session` — abstract simulation: a transparent carrier makes per-process execution
  indistinguishable from one session.
* `vars_carried` — the concrete variable carrier is transparent along benign histories.
-/
namespace Scrut.Shell

/-! ## Part 1: abstract simulation -/

section Abstract
variable {σ Snip Out File : Type}

theorem perProcess_eq_session
    (run : Snip → σ → σ × Out) (restore : Option File → σ) (persist : σ → File)
    (E : σ → σ → Prop)
    (Etrans : ∀ a b c, E a b → E b c → E a c)
    (respects : ∀ c s t, E s t → (run c s).2 = (run c t).2 ∧ E (run c s).1 (run c t).1)
    (CarrierTransparent : ∀ s, E (restore (some (persist s))) s)
    (hs : List (Snip × Bool)) (f : Option File) (s : σ) (h0 : E (restore f) s) :
    perProcess run restore persist hs f = session run hs s := by
  induction hs generalizing f s with
  | nil => simp [perProcess, session]
  | cons p rest ih =>
    obtain ⟨c, d⟩ := p
    have hr := respects c _ _ h0
    cases d with
    | true =>
      simp only [perProcess, session, if_true]
      rw [ih f s h0]
    | false =>
      simp only [perProcess, session, Bool.false_eq_true, if_false]
      rw [hr.1, ih (some (persist (run c (restore f)).1)) (run c s).1
        (Etrans _ _ _ (CarrierTransparent _) hr.2)]

end Abstract

/-! ## Part 2: the variable carrier -/

/-- a history is benign for the variable carrier: it creates no read-only variable, never unsets a
variable that the processes inherit from scrut's own environment, and touches no excluded name -/
def Benign (excluded : Nat → Bool) (inherited : Vars) (hs : List (Action × Bool)) : Prop :=
  ∀ p ∈ hs, match p.1 with
    | .readonly _ _ => False
    | .unset n => lookup inherited n = none ∧ excluded n = false
    | .assign n _ => excluded n = false
    | .export n _ => excluded n = false
    | .other => True

/-- the same condition for one action -/
def BenignAct (excluded : Nat → Bool) (inherited : Vars) (a : Action) : Prop :=
  match a with
    | .readonly _ _ => False
    | .unset n => lookup inherited n = none ∧ excluded n = false
    | .assign n _ => excluded n = false
    | .export n _ => excluded n = false
    | .other => True

theorem Benign.head {excluded : Nat → Bool} {inherited : Vars} {a : Action} {d : Bool}
    {rest : List (Action × Bool)} (h : Benign excluded inherited ((a, d) :: rest)) :
    BenignAct excluded inherited a :=
  h (a, d) List.mem_cons_self

theorem Benign.tail {excluded : Nat → Bool} {inherited : Vars} {p : Action × Bool}
    {rest : List (Action × Bool)} (h : Benign excluded inherited (p :: rest)) :
    Benign excluded inherited rest :=
  fun q hq => h q (List.mem_cons_of_mem _ hq)

/-- extensional equality of variable stores: same binding for every name -/
def Ext (a b : Vars) : Prop := ∀ n, lookup a n = lookup b n

theorem Ext.refl (a : Vars) : Ext a a := fun _ => rfl

theorem Ext.trans {a b c : Vars} (h₁ : Ext a b) (h₂ : Ext b c) : Ext a c :=
  fun n => (h₁ n).trans (h₂ n)

/-! ### `lookup` of the store operations -/

theorem lookup_nil (n : Nat) : lookup [] n = none := rfl

theorem lookup_cons (x : Var) (xs : Vars) (n : Nat) :
    lookup (x :: xs) n = if x.name = n then some x else lookup xs n := by
  unfold lookup
  by_cases h : x.name = n <;> simp [h]

theorem lookup_name {vs : Vars} {n : Nat} {v : Var} (h : lookup vs n = some v) : v.name = n := by
  induction vs with
  | nil => simp [lookup_nil] at h
  | cons x xs ih =>
    rw [lookup_cons] at h
    by_cases hx : x.name = n
    · simp [hx] at h; subst h; exact hx
    · simp [hx] at h; exact ih h

theorem lookup_mem {vs : Vars} {n : Nat} {v : Var} (h : lookup vs n = some v) : v ∈ vs := by
  induction vs with
  | nil => simp [lookup_nil] at h
  | cons x xs ih =>
    rw [lookup_cons] at h
    by_cases hx : x.name = n
    · simp [hx] at h; subst h; exact List.mem_cons_self
    · simp [hx] at h; exact List.mem_cons_of_mem _ (ih h)

theorem lookup_eq_none_of_not_mem {vs : Vars} {n : Nat} (h : n ∉ vs.map (·.name)) :
    lookup vs n = none := by
  induction vs with
  | nil => rfl
  | cons x xs ih =>
    rw [lookup_cons]
    simp only [List.map_cons, List.mem_cons, not_or] at h
    have hx : ¬ x.name = n := fun e => h.1 e.symm
    simp [hx, ih h.2]

theorem lookup_append (a b : Vars) (n : Nat) :
    lookup (a ++ b) n = (lookup a n).or (lookup b n) := by
  induction a with
  | nil => simp [lookup_nil]
  | cons x xs ih =>
    rw [List.cons_append, lookup_cons, lookup_cons]
    by_cases hx : x.name = n <;> simp [hx, ih]

theorem lookup_remove (vs : Vars) (n m : Nat) :
    lookup (remove vs n) m = if n = m then none else lookup vs m := by
  induction vs with
  | nil => simp [remove, lookup_nil]
  | cons x xs ih =>
    unfold remove at ih ⊢
    by_cases hx : x.name = n
    · have : List.filter (fun v : Var => decide (v.name ≠ n)) (x :: xs)
          = List.filter (fun v : Var => decide (v.name ≠ n)) xs := by
        simp [hx]
      rw [this, ih, lookup_cons]
      by_cases hm : n = m
      · simp [hm]
      · have : ¬ x.name = m := fun e => hm (hx ▸ e)
        simp [hm, this]
    · have : List.filter (fun v : Var => decide (v.name ≠ n)) (x :: xs)
          = x :: List.filter (fun v : Var => decide (v.name ≠ n)) xs := by
        simp [hx]
      rw [this, lookup_cons, ih, lookup_cons]
      by_cases hm : n = m
      · have : ¬ x.name = m := fun e => hx (e.trans hm.symm)
        simp [hm, this]
      · simp [hm]

theorem lookup_setVar (vs : Vars) (v : Var) (n : Nat) :
    lookup (setVar vs v) n = if v.name = n then some v else lookup vs n := by
  unfold setVar
  rw [lookup_append, lookup_remove, lookup_cons, lookup_nil]
  by_cases h : v.name = n
  · simp [h]
  · simp [h]

theorem lookup_persistVars (excluded : Nat → Bool) {vs : Vars}
    (hro : ∀ v ∈ vs, v.readonly = false) (n : Nat) :
    lookup (persistVars excluded vs) n = if excluded n = true then none else lookup vs n := by
  induction vs with
  | nil => simp [persistVars, lookup_nil]
  | cons x xs ih =>
    have hx : x.readonly = false := hro x List.mem_cons_self
    have ih' := ih (fun v hv => hro v (List.mem_cons_of_mem _ hv))
    unfold persistVars at ih' ⊢
    by_cases he : excluded x.name = true
    · have : List.filter (fun v : Var => !v.readonly && !excluded v.name) (x :: xs)
          = List.filter (fun v : Var => !v.readonly && !excluded v.name) xs := by
        simp [he]
      rw [this, ih', lookup_cons]
      by_cases hn : x.name = n
      · subst hn; simp [he]
      · simp [hn]
    · have : List.filter (fun v : Var => !v.readonly && !excluded v.name) (x :: xs)
          = x :: List.filter (fun v : Var => !v.readonly && !excluded v.name) xs := by
        simp [he, hx]
      rw [this, lookup_cons, ih', lookup_cons]
      by_cases hn : x.name = n
      · subst hn; simp [he]
      · simp [hn]

/-- sourcing a file with at most one binding per name: the file's binding wins, otherwise the
    base binding stays -/
theorem lookup_foldl_setVar (f : Vars) (hf : (f.map (·.name)).Nodup) (base : Vars) (n : Nat) :
    lookup (f.foldl setVar base) n = (lookup f n).or (lookup base n) := by
  induction f generalizing base with
  | nil => simp [lookup_nil]
  | cons x xs ih =>
    simp only [List.map_cons, List.nodup_cons] at hf
    rw [List.foldl_cons, ih hf.2, lookup_setVar, lookup_cons]
    by_cases hx : x.name = n
    · have : lookup xs n = none := lookup_eq_none_of_not_mem (hx ▸ hf.1)
      simp [hx, this]
    · simp [hx]

/-! ### membership and uniqueness of names -/

theorem mem_remove {vs : Vars} {n : Nat} {w : Var} (h : w ∈ remove vs n) : w ∈ vs :=
  (List.mem_filter.mp h).1

theorem mem_setVar {vs : Vars} {v w : Var} (h : w ∈ setVar vs v) : w ∈ vs ∨ w = v := by
  unfold setVar at h
  rcases List.mem_append.mp h with h | h
  · exact Or.inl (mem_remove h)
  · exact Or.inr (by simpa using h)

theorem mem_foldl_setVar {f base : Vars} {w : Var} (h : w ∈ f.foldl setVar base) :
    w ∈ base ∨ w ∈ f := by
  induction f generalizing base with
  | nil => exact Or.inl h
  | cons x xs ih =>
    rw [List.foldl_cons] at h
    rcases ih h with h | h
    · rcases mem_setVar h with h | h
      · exact Or.inl h
      · exact Or.inr (h ▸ List.mem_cons_self)
    · exact Or.inr (List.mem_cons_of_mem _ h)

theorem nodup_filter_names (p : Var → Bool) {vs : Vars} (h : (vs.map (·.name)).Nodup) :
    ((vs.filter p).map (·.name)).Nodup := by
  induction vs with
  | nil => simp
  | cons x xs ih =>
    simp only [List.map_cons, List.nodup_cons] at h
    by_cases hp : p x = true
    · rw [List.filter_cons_of_pos hp]
      simp only [List.map_cons, List.nodup_cons]
      refine ⟨fun hm => h.1 ?_, ih h.2⟩
      obtain ⟨w, hw, hwn⟩ := List.mem_map.mp hm
      exact List.mem_map.mpr ⟨w, (List.mem_filter.mp hw).1, hwn⟩
    · rw [List.filter_cons_of_neg hp]
      exact ih h.2

theorem nodup_remove {vs : Vars} (n : Nat) (h : (vs.map (·.name)).Nodup) :
    ((remove vs n).map (·.name)).Nodup :=
  nodup_filter_names _ h

theorem nodup_setVar {vs : Vars} (v : Var) (h : (vs.map (·.name)).Nodup) :
    ((setVar vs v).map (·.name)).Nodup := by
  unfold setVar
  rw [List.map_append, List.nodup_append]
  refine ⟨nodup_remove _ h, by simp, ?_⟩
  intro a ha b hb
  obtain ⟨w, hw, hwn⟩ := List.mem_map.mp ha
  have hne : w.name ≠ v.name := by simpa using (List.mem_filter.mp hw).2
  have hb' : b = v.name := by simpa using hb
  rw [← hwn, hb']
  exact hne

theorem nodup_foldl_setVar (f : Vars) {base : Vars} (h : (base.map (·.name)).Nodup) :
    ((f.foldl setVar base).map (·.name)).Nodup := by
  induction f generalizing base with
  | nil => exact h
  | cons x xs ih => exact ih (nodup_setVar x h)

/-! ### actions and observations respect `Ext` -/

theorem act_ext {a b : Vars} (h : Ext a b) (x : Action) : Ext (act a x) (act b x) := by
  intro m
  cases x with
  | assign n v =>
    simp only [act, h n]
    cases lookup b n with
    | none => simp only [lookup_setVar, h m]
    | some old =>
      cases hr : old.readonly with
      | true => simp only [hr, if_true, h m]
      | false => simp only [hr, Bool.false_eq_true, if_false, lookup_setVar, h m]
  | «export» n v =>
    simp only [act, h n]
    cases lookup b n with
    | none => simp only [lookup_setVar, h m]
    | some old =>
      cases hr : old.readonly with
      | true => simp only [hr, if_true, h m]
      | false => simp only [hr, Bool.false_eq_true, if_false, lookup_setVar, h m]
  | unset n =>
    simp only [act, h n]
    cases lookup b n with
    | none => exact h m
    | some old =>
      cases hr : old.readonly with
      | true => simp only [hr, if_true, h m]
      | false => simp only [hr, Bool.false_eq_true, if_false, lookup_remove, h m]
  | «readonly» n v =>
    simp only [act, h n]
    cases lookup b n with
    | none => simp only [lookup_setVar, h m]
    | some old =>
      cases hr : old.readonly with
      | true => simp only [hr, if_true, h m]
      | false => simp only [hr, Bool.false_eq_true, if_false, lookup_setVar, h m]
  | other => exact h m

theorem observe_ext {a b : Vars} (h : Ext a b) (probes : List Nat) :
    observe probes a = observe probes b := by
  unfold observe
  apply List.map_congr_left
  intro n _
  rw [h n]

/-! ### the invariant of process states along a benign history -/

structure Good (excluded : Nat → Bool) (inherited s : Vars) : Prop where
  /-- (I1) no variable is read-only -/
  noRO : ∀ v ∈ s, v.readonly = false
  /-- (I2) every inherited name is still bound -/
  keeps : ∀ n, lookup inherited n ≠ none → lookup s n ≠ none
  /-- (I3) at most one binding per name -/
  nodup : (s.map (·.name)).Nodup
  /-- (I4) excluded names hold their inherited binding -/
  excl : ∀ n, excluded n = true → lookup s n = lookup inherited n

theorem good_inherited (excluded : Nat → Bool) (inherited : Vars)
    (hnodup : (inherited.map (·.name)).Nodup) (hro : ∀ v ∈ inherited, v.readonly = false) :
    Good excluded inherited inherited :=
  ⟨hro, fun _ h => h, hnodup, fun _ _ => rfl⟩

theorem good_setVar {excluded : Nat → Bool} {inherited s : Vars} (g : Good excluded inherited s)
    (w : Var) (hw : w.readonly = false) (he : excluded w.name = false) :
    Good excluded inherited (setVar s w) where
  noRO := by
    intro v hv
    rcases mem_setVar hv with hv | hv
    · exact g.noRO v hv
    · exact hv ▸ hw
  keeps := by
    intro n hn
    rw [lookup_setVar]
    by_cases h : w.name = n
    · simp [h]
    · simp only [h, if_false]; exact g.keeps n hn
  nodup := nodup_setVar w g.nodup
  excl := by
    intro n hn
    rw [lookup_setVar]
    have h : ¬ w.name = n := by
      intro e; rw [e, hn] at he; exact Bool.noConfusion he
    simp only [h, if_false]; exact g.excl n hn

theorem good_remove {excluded : Nat → Bool} {inherited s : Vars} (g : Good excluded inherited s)
    (n : Nat) (hi : lookup inherited n = none) (he : excluded n = false) :
    Good excluded inherited (remove s n) where
  noRO := fun v hv => g.noRO v (mem_remove hv)
  keeps := by
    intro m hm
    rw [lookup_remove]
    have h : ¬ n = m := by
      intro e; rw [e] at hi; exact hm hi
    simp only [h, if_false]; exact g.keeps m hm
  nodup := nodup_remove n g.nodup
  excl := by
    intro m hm
    rw [lookup_remove]
    have h : ¬ n = m := by
      intro e; rw [e, hm] at he; exact Bool.noConfusion he
    simp only [h, if_false]; exact g.excl m hm

theorem good_act {excluded : Nat → Bool} {inherited s : Vars} (g : Good excluded inherited s)
    (a : Action) (hb : BenignAct excluded inherited a) :
    Good excluded inherited (act s a) := by
  cases a with
  | assign n v =>
    have he : excluded n = false := hb
    cases hl : lookup s n with
    | none =>
      have : act s (.assign n v) = setVar s ⟨n, v, false, false⟩ := by simp [act, hl]
      rw [this]; exact good_setVar g _ rfl he
    | some old =>
      have hr : old.readonly = false := g.noRO old (lookup_mem hl)
      have hn : old.name = n := lookup_name hl
      have : act s (.assign n v) = setVar s { old with value := v } := by simp [act, hl, hr]
      rw [this]; exact good_setVar g _ hr (by rw [hn]; exact he)
  | «export» n v =>
    have he : excluded n = false := hb
    cases hl : lookup s n with
    | none =>
      have : act s (.export n v) = setVar s ⟨n, v, true, false⟩ := by simp [act, hl]
      rw [this]; exact good_setVar g _ rfl he
    | some old =>
      have hr : old.readonly = false := g.noRO old (lookup_mem hl)
      have hn : old.name = n := lookup_name hl
      have : act s (.export n v) = setVar s { old with value := v, exported := true } := by
        simp [act, hl, hr]
      rw [this]; exact good_setVar g _ hr (by rw [hn]; exact he)
  | unset n =>
    have hb' : lookup inherited n = none ∧ excluded n = false := hb
    cases hl : lookup s n with
    | none =>
      have : act s (.unset n) = s := by simp [act, hl]
      rw [this]; exact g
    | some old =>
      have hr : old.readonly = false := g.noRO old (lookup_mem hl)
      have : act s (.unset n) = remove s n := by simp [act, hl, hr]
      rw [this]; exact good_remove g n hb'.1 hb'.2
  | «readonly» n v => exact False.elim hb
  | other => exact g

/-- the variable carrier is transparent on good states -/
theorem restore_persist_ext {excluded : Nat → Bool} {inherited s : Vars}
    (g : Good excluded inherited s) :
    Ext (restoreVars inherited (some (persistVars excluded s))) s := by
  intro n
  have hnd : ((persistVars excluded s).map (·.name)).Nodup := nodup_filter_names _ g.nodup
  show lookup ((persistVars excluded s).foldl setVar inherited) n = lookup s n
  rw [lookup_foldl_setVar _ hnd, lookup_persistVars excluded g.noRO]
  by_cases he : excluded n = true
  · simp only [he, if_true, Option.none_or]; exact (g.excl n he).symm
  · simp only [he]
    cases hl : lookup s n with
    | some v => simp
    | none =>
      show lookup inherited n = none
      cases hi : lookup inherited n with
      | none => rfl
      | some v => exact absurd hl (g.keeps n (by simp [hi]))

theorem good_restore_persist {excluded : Nat → Bool} {inherited s : Vars}
    (hnodup : (inherited.map (·.name)).Nodup) (hro : ∀ v ∈ inherited, v.readonly = false)
    (g : Good excluded inherited s) :
    Good excluded inherited (restoreVars inherited (some (persistVars excluded s))) where
  noRO := by
    intro v hv
    have hv' : v ∈ (persistVars excluded s).foldl setVar inherited := hv
    rcases mem_foldl_setVar hv' with h | h
    · exact hro v h
    · exact g.noRO v (List.mem_filter.mp h).1
  keeps := by
    intro n hn
    rw [restore_persist_ext g n]; exact g.keeps n hn
  nodup := nodup_foldl_setVar _ hnodup
  excl := by
    intro n hn
    rw [restore_persist_ext g n]; exact g.excl n hn

/-! ### the refinement for benign histories -/

theorem vars_carried_aux (excluded : Nat → Bool) (inherited : Vars) (probes : List Nat)
    (hnodup : (inherited.map (·.name)).Nodup) (hro : ∀ v ∈ inherited, v.readonly = false)
    (hs : List (Action × Bool)) (hb : Benign excluded inherited hs)
    (f : Option Vars) (vs : Vars)
    (g : Good excluded inherited (restoreVars inherited f))
    (e : Ext (restoreVars inherited f) vs) :
    runPerProcess excluded inherited probes hs f = runSession probes hs vs := by
  induction hs generalizing f vs with
  | nil => simp [runPerProcess, runSession]
  | cons p rest ih =>
    obtain ⟨a, d⟩ := p
    have ha : BenignAct excluded inherited a := hb.head
    have hrest : Benign excluded inherited rest := hb.tail
    have e' : Ext (act (restoreVars inherited f) a) (act vs a) := act_ext e a
    cases d with
    | true =>
      simp only [runPerProcess, runSession, if_true]
      rw [ih hrest f vs g e]
    | false =>
      have g' : Good excluded inherited (act (restoreVars inherited f) a) := good_act g a ha
      simp only [runPerProcess, runSession, Bool.false_eq_true, if_false]
      rw [observe_ext e' probes,
        ih hrest (some (persistVars excluded (act (restoreVars inherited f) a))) (act vs a)
          (good_restore_persist hnodup hro g') ((restore_persist_ext g').trans e')]

theorem vars_carried (excluded : Nat → Bool) (inherited : Vars) (probes : List Nat)
    (hnodup : (inherited.map (·.name)).Nodup)
    (hro : ∀ v ∈ inherited, v.readonly = false)
    (hs : List (Action × Bool)) (hb : Benign excluded inherited hs) :
    runPerProcess excluded inherited probes hs none = runSession probes hs inherited :=
  vars_carried_aux excluded inherited probes hnodup hro hs hb none inherited
    (good_inherited excluded inherited hnodup hro) (Ext.refl _)

end Scrut.Shell
