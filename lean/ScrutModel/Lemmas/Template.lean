import ScrutModel.Model.Template
/-! Lemmas about `stripPrefix?`, `splitFirst`, `replaceAll` and the template rendering. -/
namespace Scrut.Template

variable {α : Type} [DecidableEq α]

theorem stripPrefix?_eq_some_iff (p s r : List α) : stripPrefix? p s = some r ↔ s = p ++ r := by
  induction p generalizing s with
  | nil => simp [stripPrefix?, eq_comm]
  | cons x xs ih =>
    cases s with
    | nil => simp [stripPrefix?]
    | cons c cs =>
      by_cases h : x = c
      · subst h; simp [stripPrefix?, ih]
      · simp [stripPrefix?, h]
        intro h'; exact absurd h'.symm h

theorem stripPrefix?_append (p r : List α) : stripPrefix? p (p ++ r) = some r :=
  (stripPrefix?_eq_some_iff p (p ++ r) r).2 rfl

theorem stripPrefix?_eq_none_iff (p s : List α) : stripPrefix? p s = none ↔ ¬ p <+: s := by
  constructor
  · intro h ⟨r, hr⟩
    rw [← hr, stripPrefix?_append] at h
    cases h
  · intro h
    cases hs : stripPrefix? p s with
    | none => rfl
    | some r => exact absurd ⟨r, ((stripPrefix?_eq_some_iff p s r).1 hs).symm⟩ h

/-- the split is a decomposition of the subject around the pattern -/
theorem splitFirst_sound (pat : List α) : ∀ (s a b : List α), splitFirst pat s = some (a, b) → s = a ++ pat ++ b := by
  intro s
  induction s with
  | nil =>
    intro a b h
    by_cases hp : pat = []
    · simp [splitFirst, hp] at h; simp [h, hp]
    · simp [splitFirst, hp] at h
  | cons c cs ih =>
    intro a b h
    unfold splitFirst at h
    cases hs : stripPrefix? pat (c :: cs) with
    | some rest =>
      simp [hs] at h
      obtain ⟨rfl, rfl⟩ := h
      simpa using (stripPrefix?_eq_some_iff pat (c :: cs) rest).1 hs
    | none =>
      simp [hs] at h
      obtain ⟨a', h', rfl⟩ := h
      have := ih a' b h'
      simp [this]

theorem splitFirst_length (pat : List α) (s a b : List α) (h : splitFirst pat s = some (a, b)) :
    s.length = a.length + pat.length + b.length := by
  have := splitFirst_sound pat s a b h
  rw [this]; simp; omega

/-- `splitFirst` finds nothing exactly when the pattern is not a contiguous sub-list -/
theorem splitFirst_none_iff (pat s : List α) : splitFirst pat s = none ↔ ¬ pat <:+: s := by
  induction s with
  | nil =>
    by_cases hp : pat = []
    · simp [splitFirst, hp]
    · simp [splitFirst, hp]
  | cons c cs ih =>
    unfold splitFirst
    cases hs : stripPrefix? pat (c :: cs) with
    | some rest =>
      simp
      have := (stripPrefix?_eq_some_iff pat (c :: cs) rest).1 hs
      exact ⟨[], rest, by simp [this]⟩
    | none =>
      have hnp := (stripPrefix?_eq_none_iff pat (c :: cs)).1 hs
      simp only [Option.map_eq_none_iff, ih]
      constructor
      · intro h hin
        rcases List.infix_cons_iff.1 hin with h1 | h1
        · exact hnp h1
        · exact h h1
      · intro h hin
        exact h (List.infix_cons_iff.2 (Or.inr hin))

theorem splitFirst_append_of_none (pat pre post : List α) (hpat : pat ≠ [])
    (hnone : ∀ t, t ≠ [] → t <:+ pre → stripPrefix? pat (t ++ pat ++ post) = none) :
    splitFirst pat (pre ++ pat ++ post) = some (pre, post) := by
  induction pre with
  | nil =>
    cases hp : pat with
    | nil => exact absurd hp hpat
    | cons x xs =>
      have := stripPrefix?_append (x :: xs) post
      simp only [List.nil_append, List.cons_append] at this ⊢
      unfold splitFirst
      simp [this]
  | cons c cs ih =>
    have h1 := hnone (c :: cs) (by simp) (List.suffix_refl _)
    have ih' := ih (fun t ht hsuf => hnone t ht (List.IsSuffix.trans hsuf (List.suffix_cons c cs)))
    simp only [List.cons_append] at h1 ⊢
    unfold splitFirst
    simp only [h1]
    simp only [List.append_assoc] at ih' ⊢
    simp [ih']

/-! ### `replaceAll` -/

theorem replaceAllF_fuel (pat rep : List α) (hpat : pat ≠ []) :
    ∀ (n : Nat) (s : List α), s.length ≤ n → replaceAllF pat rep n s = replaceAllF pat rep s.length s := by
  intro n
  induction n using Nat.strongRecOn with
  | _ n ih =>
    intro s hn
    cases n with
    | zero =>
      have : s = [] := List.length_eq_zero_iff.1 (Nat.le_zero.1 hn)
      subst this; rfl
    | succ n =>
      cases hs : s with
      | nil =>
        simp [replaceAllF, splitFirst, hpat]
      | cons c cs =>
        simp only [List.length_cons, replaceAllF]
        cases hsp : splitFirst pat (c :: cs) with
        | none => rfl
        | some ab =>
          obtain ⟨a, b⟩ := ab
          have hl := splitFirst_length pat (c :: cs) a b hsp
          have hpl : 0 < pat.length := List.length_pos_iff.2 hpat
          simp only [List.length_cons] at hl
          have hb : b.length ≤ cs.length := by omega
          have hb' : b.length ≤ n := by
            have : (c :: cs).length ≤ n + 1 := by rw [← hs]; exact hn
            simp only [List.length_cons] at this; omega
          simp only
          rw [ih n (Nat.lt_succ_self n) b hb']
          by_cases hcs : cs.length = n
          · rw [hcs, ih n (Nat.lt_succ_self n) b hb']
          · have hlt : cs.length < n + 1 := by
              have : (c :: cs).length ≤ n + 1 := by rw [← hs]; exact hn
              simp only [List.length_cons] at this; omega
            rw [ih cs.length hlt b hb]

/-- a subject without the pattern is returned unchanged -/
theorem replaceAll_of_not_occurs (pat rep s : List Char) (h : splitFirst pat s = none) :
    replaceAll pat rep s = s := by
  unfold replaceAll
  by_cases hp : pat = []
  · subst hp
    cases s <;> simp [splitFirst, stripPrefix?] at h
  · simp only [hp, if_false]
    cases hs : s with
    | nil => rfl
    | cons c cs =>
      rw [hs] at h
      simp [replaceAllF, h]

/-- exactly one occurrence: the pattern is replaced, everything around it is kept -/
theorem replaceAll_once (pat rep s a b : List Char) (hp : pat ≠ [])
    (h1 : splitFirst pat s = some (a, b)) (h2 : splitFirst pat b = none) :
    replaceAll pat rep s = a ++ rep ++ b := by
  unfold replaceAll
  simp only [hp, if_false]
  cases hs : s with
  | nil =>
    rw [hs] at h1
    simp [splitFirst, hp] at h1
  | cons c cs =>
    rw [hs] at h1
    simp only [List.length_cons, replaceAllF, h1]
    cases hcs : cs.length with
    | zero => simp [replaceAllF]
    | succ k => simp [replaceAllF, h2]

theorem PH_EXPR_ne_nil : PH_EXPR ≠ [] := by simp [PH_EXPR]

/-- the hypothesis `exprOnce` unfolded -/
theorem exprOnce_iff (t : List Char) :
    exprOnce t = true ↔ ∃ pre post, splitFirst PH_EXPR t = some (pre, post) ∧ splitFirst PH_EXPR post = none := by
  unfold exprOnce
  cases h : splitFirst PH_EXPR t with
  | none => simp
  | some ab =>
    obtain ⟨a, b⟩ := ab
    simp only [Option.isNone_iff_eq_none, Option.some.injEq, Prod.mk.injEq]
    constructor
    · intro hb; exact ⟨a, b, ⟨rfl, rfl⟩, hb⟩
    · rintro ⟨_, _, ⟨rfl, rfl⟩, hb⟩; exact hb

/-- core of C13_expression_verbatim -/
theorem render_verbatim (tpl stateDir name excluded envNames : List Char) (detached : Bool)
    (h : exprOnce (substOthers tpl stateDir name excluded envNames detached) = true) :
    ∃ pre post : List Char,
      substOthers tpl stateDir name excluded envNames detached = pre ++ PH_EXPR ++ post ∧
      ¬ PH_EXPR <:+: post ∧
      ∀ expr : List Char, render tpl stateDir name excluded envNames detached expr = pre ++ expr ++ post := by
  obtain ⟨pre, post, h1, h2⟩ := (exprOnce_iff _).1 h
  refine ⟨pre, post, splitFirst_sound _ _ _ _ h1, (splitFirst_none_iff _ _).1 h2, ?_⟩
  intro expr
  exact replaceAll_once PH_EXPR expr _ pre post PH_EXPR_ne_nil h1 h2

end Scrut.Template
