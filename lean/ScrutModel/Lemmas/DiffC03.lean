import ScrutModel.Lemmas.DiffC01

namespace Scrut.Diff

/-! C03: completeness of the greedy matcher under one-line-lookahead determinism. -/

variable (n m : Nat) (es : Nat → Exp) (mt : Nat → Nat → Bool)

/-- `k` can be reached from `i` by skipping only optional expectations -/
def Reach (i k : Nat) : Prop := i ≤ k ∧ k < n ∧ ∀ j, i ≤ j → j < k → (es j).optional = true

/-- expectations that may legally take the next line in configuration `(i, o)`;
    `o = true` means expectation `i` is multiline and already holds a line -/
def Cand (i : Nat) (o : Bool) (k : Nat) : Prop :=
  if o then k = i ∨ Reach n es (i+1) k else Reach n es i k

def nextI (k : Nat) : Nat := if (es k).multiline then k else k + 1
def nextO (k : Nat) : Bool := (es k).multiline

/-- the NFA for `e1{q1} … en{qn}` accepts lines `j..m` from configuration `(i, o)` -/
inductive NAcc : Nat → Bool → Nat → Prop
  | done {i o} : (∀ t, (if o then i + 1 else i) ≤ t → t < n → (es t).optional = true) → NAcc i o m
  | step {i o j k} : j < m → Cand n es i o k → mt k j = true →
      NAcc (nextI es k) (nextO es k) (j+1) → NAcc i o j

/-- one-line-lookahead determinism along the reading of lines `j..m` -/
inductive Det : Nat → Bool → Nat → Prop
  | done {i o j} : m ≤ j → Det i o j
  | step {i o j} : j < m →
      (∀ k k', Cand n es i o k → mt k j = true → Cand n es i o k' → mt k' j = true → k = k') →
      (∀ k, Cand n es i o k → mt k j = true → Det (nextI es k) (nextO es k) (j+1)) → Det i o j

theorem Det.mono {i o i' o' j} (h : Det n m es mt i o j)
    (hsub : ∀ k, Cand n es i' o' k → Cand n es i o k) : Det n m es mt i' o' j := by
  cases h with
  | done h => exact .done h
  | step hj hu hn =>
    exact .step hj (fun k k' c1 m1 c2 m2 => hu k k' (hsub k c1) m1 (hsub k' c2) m2)
      (fun k c mk => hn k (hsub k c) mk)

theorem reach_self {i : Nat} (h : i < n) : Reach n es i i := ⟨Nat.le_refl _, h, by intro j h1 h2; omega⟩

theorem cand_self {i : Nat} {o : Bool} (h : i < n) : Cand n es i o i := by
  unfold Cand; split
  · left; rfl
  · exact reach_self n es h

theorem reach_mono {i i' k : Nat} (h : Reach n es i' k) (hle : i ≤ i')
    (hopt : ∀ j, i ≤ j → j < i' → (es j).optional = true) : Reach n es i k := by
  obtain ⟨h1, h2, h3⟩ := h
  refine ⟨by omega, h2, fun j hj1 hj2 => ?_⟩
  by_cases hj : j < i'
  · exact hopt j hj1 hj
  · exact h3 j (by omega) hj2

theorem loop_complete (ei li : Nat) (ms : Option Nat) (acc : List DL) :
    (∀ s, ms = some s → (es ei).multiline = true) → allMatched acc →
    NAcc n m es mt ei ms.isSome li → Det n m es mt ei ms.isSome li →
    allMatched (loop n m es mt ei li ms acc).2.2.2 ∧
    NAcc n m es mt (loop n m es mt ei li ms acc).1 (loop n m es mt ei li ms acc).2.2.1.isSome
      (loop n m es mt ei li ms acc).2.1 := by
  fun_induction loop n m es mt ei li ms acc
  all_goals intro hopen hall hacc hdet
  case case8 => exact ⟨hall, hacc⟩
  case case1 ei li ms acc hlt hm hmul hy _ =>
    exfalso
    obtain ⟨hy1, hy2, hy3⟩ := hy
    cases hdet with
    | done h => omega
    | step hj hu hn =>
      have c2 : Cand n es ei ms.isSome (ei+1) := by
        unfold Cand; split
        · right; exact reach_self n es hy1
        · rename_i ho
          simp [ho] at hy2
          exact ⟨by omega, hy1, by intro j h1 h2; have : j = ei := by omega
                                   subst this; exact hy2⟩
      have := hu ei (ei+1) (cand_self n es hlt.1) hm c2 hy3
      omega
  case case2 ei li ms acc hlt hm hmul hy ih =>
    have hnI : nextI es ei = ei := by simp [nextI, hmul]
    have hnO : nextO es ei = true := by simp [nextO, hmul]
    cases hdet with
    | done h => omega
    | step hj hu hn =>
      cases hacc with
      | done _ => omega
      | step hj' hc hmk hrest =>
        rename_i k
        have hk : k = ei := hu k ei hc hmk (cand_self n es hlt.1) hm
        subst hk
        rw [hnI, hnO] at hrest
        have hd := hn k (cand_self n es hlt.1) hm
        rw [hnI, hnO] at hd
        exact ih (fun _ _ => hmul) hall (by simpa using hrest) (by simpa using hd)
  case case3 ei li ms acc hlt hm hmul ih =>
    have hms : ms = none := by
      cases ms with
      | none => rfl
      | some s => have := hopen s rfl; simp [this] at hmul
    subst hms
    have hmul' : (es ei).multiline = false := by simpa using hmul
    have hnI : nextI es ei = ei + 1 := by simp [nextI, hmul']
    have hnO : nextO es ei = false := by simp [nextO, hmul']
    cases hdet with
    | done h => omega
    | step hj hu hn =>
      cases hacc with
      | done _ => omega
      | step hj' hc hmk hrest =>
        rename_i k
        have hk : k = ei := hu k ei hc hmk (cand_self n es hlt.1) hm
        subst hk
        rw [hnI, hnO] at hrest
        have hd := hn k (cand_self n es hlt.1) hm
        rw [hnI, hnO] at hd
        refine ih (by simp) ?_ (by simpa using hrest) (by simpa using hd)
        intro x hx; simp at hx; rcases hx with hx | hx
        · exact hall x hx
        · exact ⟨_, _, hx⟩
  case case4 ei li acc hlt hm s ih =>
    have hsub : ∀ k, Cand n es (ei+1) false k → Cand n es ei true k := by
      intro k hk; simp [Cand] at hk ⊢; right; exact hk
    have hd : Det n m es mt (ei+1) false li := Det.mono n m es mt (by simpa using hdet) hsub
    have ha : NAcc n m es mt (ei+1) false li := by
      cases hacc with
      | done _ => omega
      | step hj' hc hmk hrest =>
        rename_i k
        simp [Cand] at hc
        rcases hc with hc | hc
        · subst hc; simp [hmk] at hm
        · exact .step hj' (by simpa [Cand] using hc) hmk hrest
    refine ih (by simp) ?_ (by simpa using ha) (by simpa using hd)
    intro x hx; simp at hx; rcases hx with hx | hx
    · exact hall x hx
    · exact ⟨_, _, hx⟩
  case case5 ei li acc hlt hm k hk hge ih =>
    have hk' := findFrom_some hk
    simp at hacc hdet
    -- the accepting run uses some candidate k' ≥ ei+1; k is the first match so k ≤ k', hence k is a candidate too
    cases hacc with
    | done _ => omega
    | step hj' hc hmk hrest =>
      rename_i k'
      simp [Cand] at hc
      have hk'ne : k' ≠ ei := by intro h; subst h; simp [hmk] at hm
      have hkle : k ≤ k' := by
        by_cases h : k ≤ k'
        · exact h
        · exfalso
          have := hk'.2.2.2 k' (by have := hc.1; omega) (by omega)
          simp [hmk] at this
      have hreach : Reach n es ei k := ⟨by omega, by have := hc.2.1; omega, fun j h1 h2 => hc.2.2 j h1 (by omega)⟩
      have hopt : ∀ j, ei ≤ j → j < k → (es j).optional = true := hreach.2.2
      have hsub : ∀ x, Cand n es k false x → Cand n es ei false x := by
        intro x hx; simp [Cand] at hx ⊢; exact reach_mono n es hx (by omega) hopt
      have hd : Det n m es mt k false li := Det.mono n m es mt hdet hsub
      cases hdet with
      | done h => omega
      | step hj hu hn =>
        have hkk : k = k' := hu k k' (by simpa [Cand] using hreach) hk'.2.2.1 (by simpa [Cand] using hc) hmk
        subst hkk
        have ha : NAcc n m es mt k false li :=
          .step hj' (by simpa [Cand] using reach_self n es hreach.2.1) hmk hrest
        refine ih (by simp) ?_ (by simpa using ha) (by simpa using hd)
        intro x hx; simp at hx; rcases hx with hx | hx
        · exact hall x hx
        · exfalso
          simp [unmatchedOf] at hx
          obtain ⟨i, ⟨hi1, hi2⟩, _⟩ := hx
          have := mem_rangeFrom.1 hi1
          have := hopt i this.1 this.2
          simp [this] at hi2
  case case6 ei li acc hlt hm hk l hl hge ih =>
    exfalso
    simp at hacc
    cases hacc with
    | done _ => omega
    | step hj' hc hmk hrest =>
      rename_i k'
      simp [Cand] at hc
      by_cases h : k' = ei
      · subst h; simp [hmk] at hm
      · have := findFrom_none hk k' (by have := hc.1; omega) (by have := hc.2.1; omega)
        simp [hmk] at this
  case case7 ei li acc hlt hm hk hl ih =>
    exfalso
    simp at hacc
    cases hacc with
    | done _ => omega
    | step hj' hc hmk hrest =>
      rename_i k'
      simp [Cand] at hc
      by_cases h : k' = ei
      · subst h; simp [hmk] at hm
      · have := findFrom_none hk k' (by have := hc.1; omega) (by have := hc.2.1; omega)
        simp [hmk] at this

theorem unmatchedOf_eq_nil {a b : Nat} (h : ∀ t, a ≤ t → t < b → (es t).optional = true) :
    unmatchedOf es a b = [] := by
  simp [unmatchedOf]
  intro t ht
  have := mem_rangeFrom.1 ht
  exact h t this.1 this.2

theorem allMatched_append {a b : List DL} (ha : allMatched a) (hb : allMatched b) : allMatched (a ++ b) := by
  intro x hx; rcases List.mem_append.1 hx with h | h
  · exact ha x h
  · exact hb x h

/-- **C03** (model level): under determinism, every accepted output is reported as a match. -/
theorem C03_complete (hacc : NAcc n m es mt 0 false 0) (hdet : Det n m es mt 0 false 0) :
    hasDiff (diff n m es mt) = false := by
  rw [hasDiff_false_iff]
  have hc := loop_complete n m es mt 0 0 none [] (by simp) (by intro x hx; simp at hx)
    (by simpa using hacc) (by simpa using hdet)
  have hinv := loop_inv n m es mt 0 0 none [] (linv_init n m es mt)
  have hexit := loop_exit n m es mt 0 0 none []
  unfold diff
  generalize loop n m es mt 0 0 none [] = r at hinv hexit hc
  obtain ⟨ei, li, ms, acc⟩ := r
  obtain ⟨hall, hnacc⟩ := hc
  simp only at hall hnacc hexit
  have hli := hinv.li_le
  have hopen := hinv.open_
  simp only at hli hopen
  cases ms with
  | some s =>
    obtain ⟨hs1, hs2, hs3, hs4⟩ := hopen s rfl
    have hlim : li = m := by omega
    subst hlim
    simp only [Nat.lt_irrefl, if_false]
    simp at hnacc
    cases hnacc with
    | step hj _ _ _ => omega
    | done hopt =>
      simp at hopt
      rw [unmatchedOf_eq_nil es hopt]
      simp
      exact allMatched_append hall (by intro x hx; simp at hx; exact ⟨_, _, hx⟩)
  | none =>
    simp at hnacc
    simp only
    cases hnacc with
    | step hj hc _ _ =>
      exfalso
      simp [Cand] at hc
      have := hc.1; have := hc.2.1
      omega
    | done hopt =>
      simp at hopt
      rw [unmatchedOf_eq_nil es hopt]
      simp
      exact hall

end Scrut.Diff
