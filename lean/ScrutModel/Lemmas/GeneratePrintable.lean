import ScrutModel.Lemmas.Generate
/-!
# C09: every character `generate_expectation_line` writes is printable

ascii mode: printable ASCII; unicode mode: no `is_other` character (control, format, unassigned,
private use, surrogate). In particular no generated text holds a carriage return or a line feed, so
a document parser that splits at line ends (and drops a carriage return in front of them) reads
every generated line back as it was written.
-/
namespace Scrut.GenLemmas
open Scrut.Utf8 Scrut.Esc Scrut.EscLemmas Scrut.Gen

/-- what "printable" means in mode `m` -/
def CharOK (m : Mode) (isOther : Char → Bool) (c : Char) : Prop :=
  match m with
  | .ascii => PrintableAscii c
  | .unicode => isOther c = false

theorem charOK_of_printable {m : Mode} {isOther : Char → Bool} (hC : m = .unicode → AsciiContract isOther)
    {c : Char} (h : PrintableAscii c) : CharOK m isOther c := by
  cases m with
  | ascii => exact h
  | unicode => exact not_other_of_printable (hC rfl) h

theorem charOK_escapedExpectation (m : Mode) (isOther : Char → Bool)
    (hC : m = .unicode → AsciiContract isOther) (line : List UInt8) :
    ∀ c ∈ escapedExpectation m isOther line, CharOK m isOther c := by
  cases m with
  | ascii => exact ascii_printable isOther line
  | unicode => exact unicode_printable isOther (hC rfl) line

theorem mods_printable : (∀ c ∈ noEolMod, PrintableAscii c) ∧ (∀ c ∈ equalMod, PrintableAscii c) ∧
    (∀ c ∈ escapedMod, PrintableAscii c) ∧ (∀ c ∈ x20NoEol, PrintableAscii c) ∧
    (∀ c ∈ hexEscape '$', PrintableAscii c) ∧ (∀ c ∈ hexEscape '>', PrintableAscii c) := by decide

theorem charOK_body (m : Mode) (isOther : Char → Bool) (hC : m = .unicode → AsciiContract isOther)
    (line : List UInt8) : ∀ c ∈ expectationBody m isOther line, CharOK m isOther c := by
  intro c hc
  have hE := charOK_escapedExpectation m isOther hC (trimNewlines line)
  unfold expectationBody at hc
  simp only at hc
  split at hc
  · exact hE c hc
  · split at hc
    · rcases List.mem_append.mp hc with h | h
      · exact hE c h
      · exact charOK_of_printable hC (mods_printable.1 c h)
    · split at hc
      · rcases List.mem_append.mp hc with h | h
        · exact hE c h
        · exact charOK_of_printable hC (mods_printable.2.1 c h)
      · exact hE c hc

theorem mem_guardNoEol {c : Char} {e : List Char} (h : c ∈ guardNoEol e) : c ∈ e ∨ PrintableAscii c := by
  unfold guardNoEol at h
  split at h
  · rename_i body hb
    unfold stripSuffix? at hb
    split at hb
    · have hb' : e.take (e.length - (noEolMod ++ escapedMod).length) = body := by simpa using hb
      rcases List.mem_append.mp h with h | h
      · rcases List.mem_append.mp h with h | h
        · exact Or.inl (List.mem_of_mem_take (hb' ▸ h))
        · exact Or.inr (mods_printable.2.2.2.1 c h)
      · exact Or.inr (mods_printable.2.2.1 c h)
    · cases hb
  · exact Or.inl h

theorem mem_doubleBackslash {c : Char} {t : List Char} (h : c ∈ Grammar.doubleBackslash t) : c ∈ t ∨ c = '\\' := by
  unfold Grammar.doubleBackslash at h
  simp only [List.mem_flatMap] at h
  obtain ⟨x, hx, hc⟩ := h
  split at hc
  · rename_i hxb
    right
    simp at hc
    rcases hc with rfl | rfl <;> rfl
  · left
    have : c = x := by simpa using hc
    rw [this]; exact hx

/-- the decoded text of a line the escaper leaves as it is -/
theorem charOK_decoded {m : Mode} {isOther : Char → Bool} {content : List UInt8} {cs : List Char}
    (hu : hasUnprintable m isOther content = false) (hd : utf8Decode content = some cs) :
    ∀ c ∈ cs, CharOK m isOther c := by
  intro c hc
  cases m with
  | unicode =>
    simp only [hasUnprintable, hasUnprintableUnicode, hd, List.any_eq_false] at hu
    show isOther c = false
    have := hu c hc
    simpa using this
  | ascii =>
    have hu' : hasUnprintableAscii content = false := hu
    have hdec := utf8Decode_printable hu'
    rw [hdec] at hd
    have : cs = asciiText content := (Option.some.inj hd).symm
    subst this
    simp only [asciiText, List.mem_map] at hc
    obtain ⟨b, hb, rfl⟩ := hc
    simp only [hasUnprintableAscii, List.any_eq_false, printableByte, Bool.not_eq_true,
      Bool.not_eq_false', Bool.and_eq_true, decide_eq_true_eq] at hu'
    have := hu' b hb
    exact ofNat_printable _ this.1 this.2

/-- **every character of a generated expectation line is printable** -/
theorem expectationLine_printable (m : Mode) (isOther : Char → Bool)
    (hC : m = .unicode → AsciiContract isOther) (line : List UInt8) (t : List Char)
    (ht : expectationLine m isOther line = some t) : ∀ c ∈ t, CharOK m isOther c := by
  unfold expectationLine at ht
  obtain ⟨e, he, rfl⟩ := Option.map_eq_some_iff.mp ht
  have hB := charOK_body m isOther hC line
  have hbs : CharOK m isOther '\\' := charOK_of_printable hC (by decide)
  have hlead : ∀ ch, commandLead (expectationBody m isOther line) = some ch →
      ∀ c ∈ hexEscape ch, PrintableAscii c := by
    intro ch hch
    rcases (commandLead_some hch).1 with rfl | rfl
    · exact mods_printable.2.2.2.2.1
    · exact mods_printable.2.2.2.2.2
  have he_ok : ∀ c ∈ e, CharOK m isOther c := by
    unfold escapeLead at he
    simp only at he
    split at he
    · have : expectationBody m isOther line = e := by simpa using he
      rw [← this]; exact hB
    · rename_i ch hch
      split at he
      · have : hexEscape ch ++ (expectationBody m isOther line).drop 1 = e := by simpa using he
        rw [← this]
        intro c hc
        rcases List.mem_append.mp hc with h | h
        · exact charOK_of_printable hC (hlead ch hch c h)
        · exact hB c (List.mem_of_mem_drop h)
      · rename_i hu
        have hu' : hasUnprintable m isOther (trimNewlines line) = false := by simpa using hu
        split at he
        · rename_i x rest hd
          have : hexEscape ch ++ Grammar.doubleBackslash rest ++ escapedMod = e := by simpa using he
          rw [← this]
          intro c hc
          rcases List.mem_append.mp hc with h | h
          · rcases List.mem_append.mp h with h | h
            · exact charOK_of_printable hC (hlead ch hch c h)
            · rcases mem_doubleBackslash h with h | rfl
              · exact charOK_decoded hu' hd c (List.mem_cons_of_mem _ h)
              · exact hbs
          · exact charOK_of_printable hC (mods_printable.2.2.1 c h)
        · cases he
  intro c hc
  rcases mem_guardNoEol hc with h | h
  · exact he_ok c h
  · exact charOK_of_printable hC h

/-- no carriage return, no line feed -/
theorem charOK_not_ctl {m : Mode} {isOther : Char → Bool} (hC : m = .unicode → AsciiContract isOther)
    {c : Char} (h : CharOK m isOther c) : c ≠ '\r' ∧ c ≠ '\n' := by
  cases m with
  | ascii =>
    have h' : PrintableAscii c := h
    constructor <;> (intro e; subst e; revert h'; decide)
  | unicode =>
    have h' : isOther c = false := h
    have hc := hC rfl
    constructor
    · intro e; subst e
      have := (hc '\r' (by decide)).mpr (Or.inl (by decide))
      rw [this] at h'; cases h'
    · intro e; subst e
      have := (hc '\n' (by decide)).mpr (Or.inl (by decide))
      rw [this] at h'; cases h'

end Scrut.GenLemmas
