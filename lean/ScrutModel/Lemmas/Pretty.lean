import ScrutModel.Model.Pretty
import ScrutModel.Lemmas.DiffWF
/-! Lemmas about the renderer model (C19). -/
namespace Scrut.Pretty
open Scrut.Diff (DL)

/-! ### every difference is among the pretty items, and nothing else is -/

theorem unm_mem_itemsGo (msl : Nat) (i : Nat) :
    ∀ (d : List DL) (k : Nat) (last : Option Nat), DL.unmatched i ∈ d → Item.unm i ∈ itemsGo msl d k last := by
  intro d
  induction d with
  | nil => intro k last h; simp at h
  | cons e rest ih =>
    intro k last h
    cases e with
    | matched j ls =>
      simp at h
      simp only [itemsGo, List.mem_append]
      exact Or.inr (ih _ _ h)
    | unmatched j =>
      simp at h
      simp only [itemsGo, List.mem_cons]
      rcases h with h | h
      · exact Or.inl (by rw [h])
      · exact Or.inr (ih _ _ h)
    | unexpected ls =>
      simp at h
      simp only [itemsGo, List.mem_append]
      exact Or.inr (ih _ _ h)

theorem unx_mem_itemsGo (msl : Nat) (l : Nat) (ls : List Nat) (hl : l ∈ ls) :
    ∀ (d : List DL) (k : Nat) (last : Option Nat), DL.unexpected ls ∈ d → Item.unx l ∈ itemsGo msl d k last := by
  intro d
  induction d with
  | nil => intro k last h; simp at h
  | cons e rest ih =>
    intro k last h
    cases e with
    | matched j ls' =>
      simp at h
      simp only [itemsGo, List.mem_append]
      exact Or.inr (ih _ _ h)
    | unmatched j =>
      simp at h
      simp only [itemsGo, List.mem_cons]
      exact Or.inr (ih _ _ h)
    | unexpected ls' =>
      simp at h
      simp only [itemsGo, List.mem_append]
      rcases h with h | h
      · subst h; exact Or.inl (List.mem_map.2 ⟨l, hl, rfl⟩)
      · exact Or.inr (ih _ _ h)

/-- where an item comes from -/
def Item.From (d : List DL) : Item → Prop
  | .ctx i ls => DL.matched i ls ∈ d
  | .ell => True
  | .unm i => DL.unmatched i ∈ d
  | .unx l => ∃ ls, DL.unexpected ls ∈ d ∧ l ∈ ls

theorem Item.From.mono {d : List DL} {e : DL} {x : Item} (h : Item.From d x) : Item.From (e :: d) x := by
  cases x with
  | ctx i ls => exact List.mem_cons_of_mem _ h
  | ell => trivial
  | unm i => exact List.mem_cons_of_mem _ h
  | unx l => obtain ⟨ls, h1, h2⟩ := h; exact ⟨ls, List.mem_cons_of_mem _ h1, h2⟩

theorem mem_ctxItems {s f : Bool} {i : Nat} {ls : List Nat} {x : Item} (h : x ∈ ctxItems s f i ls) :
    x = Item.ctx i ls ∨ x = Item.ell := by
  unfold ctxItems at h
  cases s <;> cases f <;> simp at h <;> simp [h]

theorem itemsGo_sound (msl : Nat) :
    ∀ (d : List DL) (k : Nat) (last : Option Nat), ∀ x ∈ itemsGo msl d k last, Item.From d x := by
  intro d
  induction d with
  | nil => intro k last x h; simp [itemsGo] at h
  | cons e rest ih =>
    intro k last x h
    cases e with
    | matched j ls =>
      simp only [itemsGo, List.mem_append] at h
      rcases h with h | h
      · rcases mem_ctxItems h with h | h
        · subst h; exact List.mem_cons_self
        · subst h; trivial
      · exact (ih _ _ x h).mono
    | unmatched j =>
      simp only [itemsGo, List.mem_cons] at h
      rcases h with h | h
      · subst h; exact List.mem_cons_self
      · exact (ih _ _ x h).mono
    | unexpected ls =>
      simp only [itemsGo, List.mem_append, List.mem_map] at h
      rcases h with ⟨l, hl, rfl⟩ | h
      · exact ⟨ls, List.mem_cons_self, hl⟩
      · exact (ih _ _ x h).mono

/-! ### checked arithmetic -/

theorem digits_pos (n : Nat) : 1 ≤ digits n := by
  unfold digits; split <;> omega

theorem digits_mono : ∀ (a b : Nat), a ≤ b → digits a ≤ digits b := by
  intro a
  induction a using Nat.strongRecOn with
  | _ a ih =>
    intro b hab
    by_cases ha : a < 10
    · rw [digits.eq_1 a]; simp only [ha, if_true]; exact digits_pos b
    · have hb : ¬ b < 10 := by omega
      rw [digits.eq_1 a, digits.eq_1 b]; simp only [ha, hb, if_false]
      have := ih (a / 10) (by omega) (b / 10) (Nat.div_le_div_right hab)
      omega

theorem pad_isSome {w num : Nat} (h : digits num ≤ w) : (pad w num).isSome := by
  unfold pad subU; split <;> simp [h]

theorem allSome_isSome {α β : Type} (f : α → Option β) :
    ∀ (l : List α), (∀ x ∈ l, (f x).isSome) → (allSome (l.map f)).isSome := by
  intro l
  induction l with
  | nil => intro _; simp [allSome]
  | cons a r ih =>
    intro h
    have ha := h a List.mem_cons_self
    have hr := ih (fun x hx => h x (List.mem_cons_of_mem _ hx))
    cases hfa : f a with
    | none => rw [hfa] at ha; simp at ha
    | some b =>
      simp only [List.map, hfa, allSome]
      cases hr' : allSome (r.map f) with
      | none => rw [hr'] at hr; simp at hr
      | some _ => simp

theorem allSome_mem {α β : Type} (f : α → Option β) :
    ∀ (l : List α) (r : List β), allSome (l.map f) = some r → ∀ x ∈ l, ∃ y, f x = some y ∧ y ∈ r := by
  intro l
  induction l with
  | nil => intro r _ x hx; simp at hx
  | cons a t ih =>
    intro r h x hx
    cases hfa : f a with
    | none => simp [allSome, hfa] at h
    | some b =>
      simp only [List.map, hfa, allSome] at h
      cases ht : allSome (t.map f) with
      | none => rw [ht] at h; simp at h
      | some r' =>
        rw [ht] at h; simp at h; subst h
        simp at hx
        rcases hx with hx | hx
        · subst hx; exact ⟨b, hfa, List.mem_cons_self⟩
        · obtain ⟨y, hy1, hy2⟩ := ih r' ht x hx
          exact ⟨y, hy1, List.mem_cons_of_mem _ hy2⟩

theorem mslOk_of_bound (msl : Nat) :
    ∀ (d : List DL) (k : Nat) (last : Option Nat), (∀ l, last = some l → l < k) →
      msl + (k + d.length) < USIZE → mslOk msl d k last = true := by
  intro d
  induction d with
  | nil => intro _ _ _ _; simp [mslOk]
  | cons e rest ih =>
    intro k last hl hb
    simp only [List.length_cons] at hb
    cases e with
    | matched j ls =>
      simp only [mslOk, Bool.and_eq_true, Bool.or_eq_true]
      refine ⟨Or.inr ⟨?_, ?_⟩, ih _ _ (fun l h => by have := hl l h; omega) (by omega)⟩
      · cases last with
        | none => rfl
        | some l => have := hl l rfl; simp [addU]; omega
      · cases nextErr rest (k + 1) with
        | none => rfl
        | some _ => simp [addU]; omega
    | unmatched j =>
      simp only [mslOk]
      exact ih _ _ (fun l h => by cases h; omega) (by omega)
    | unexpected ls =>
      simp only [mslOk]
      refine ih _ _ (fun l h => ?_) (by omega)
      split at h
      · have := hl l h; omega
      · cases h; omega

/-- what the padding and `lines[0]` need from a diff (decidable; implied by C02's `WF`) -/
def EntryOk (ml : Nat → Bool) (nexp cnt : Nat) : DL → Prop
  | .matched i ls => i < nexp ∧ (ml i = false → ls ≠ []) ∧ ∀ l ∈ ls, l < cnt
  | .unmatched i => i < nexp
  | .unexpected ls => ∀ l ∈ ls, l < cnt

def Dom (c : Cfg) (d : List DL) : Prop :=
  (c.abs = true → 1 ≤ c.lineNumber + c.shellLines) ∧
  c.msl + d.length < USIZE ∧
  ∀ e ∈ d, EntryOk c.ml c.nexp (countOut d) e

theorem display_isSome (ml : Nat → Bool) (base nexp : Nat) (d : List DL)
    (hd : ∀ e ∈ d, EntryOk ml nexp (countOut d) e) (x : Item) (hx : Item.From d x) :
    (display ml base (width base nexp d) x).isSome := by
  have key : ∀ v, v + 1 ≤ max (countOut d) nexp → (pad (width base nexp d) (base + v + 1)).isSome := by
    intro v hv
    apply pad_isSome
    unfold width
    apply digits_mono
    omega
  cases x with
  | ell => simp [display]
  | unm i =>
    have hi : i < nexp := hd _ hx
    have := key i (by omega)
    simp only [display]
    cases h : pad (width base nexp d) (base + i + 1) with
    | none => rw [h] at this; simp at this
    | some _ => simp
  | unx l =>
    obtain ⟨ls, h1, h2⟩ := hx
    have hl : l < countOut d := hd _ h1 l h2
    have := key l (by omega)
    simp only [display]
    cases h : pad (width base nexp d) (base + l + 1) with
    | none => rw [h] at this; simp at this
    | some _ => simp
  | ctx i ls =>
    obtain ⟨hi, hne, hls⟩ := hd _ hx
    have h1 := key i (by omega)
    simp only [display]
    cases hp : pad (width base nexp d) (base + i + 1) with
    | none => rw [hp] at h1; simp at h1
    | some _ =>
      by_cases hm : ml i = true
      · simp [hm, hp, pad, subU]
      · simp only [hm]
        have hm' : ml i = false := by simpa using hm
        cases ls with
        | nil => exact absurd rfl (hne hm')
        | cons l0 _ =>
          have h2 := key l0 (by have := hls l0 List.mem_cons_self; omega)
          cases hp2 : pad (width base nexp d) (base + l0 + 1) with
          | none => rw [hp2] at h2; simp at h2
          | some _ => simp [hp, hp2]

theorem prettyRender_isSome (c : Cfg) (d : List DL) (h : Dom c d) : (prettyRender c d).isSome := by
  obtain ⟨h1, h2, h3⟩ := h
  unfold prettyRender
  have hb : ∃ b, lineBase c = some b := by
    unfold lineBase subU
    by_cases ha : c.abs = true
    · have := h1 ha; simp [ha, this]
    · simp [ha]
  obtain ⟨b, hb⟩ := hb
  simp only [hb]
  rw [mslOk_of_bound c.msl d 0 none (by intro l h; cases h) (by omega)]
  simp only [if_true]
  have := allSome_isSome (display c.ml b (width b c.nexp d)) (prettyItems c.msl d)
    (fun x hx => display_isSome c.ml b c.nexp d h3 x (itemsGo_sound c.msl d 0 none x hx))
  cases hh : allSome ((prettyItems c.msl d).map (display c.ml b (width b c.nexp d))) with
  | none => rw [hh] at this; simp at this
  | some _ => simp

/-! ### C02's well-formedness gives `Dom` -/

theorem countOut_eq (d : List DL) : countOut d = (Scrut.Diff.linesOf d).length := by
  induction d with
  | nil => rfl
  | cons e r ih =>
    cases e <;> simp [countOut, Scrut.Diff.linesOf, Scrut.Diff.DL.lines, ih] <;>
      simp [Scrut.Diff.linesOf] at ih ⊢ <;> omega

end Scrut.Pretty

namespace Scrut.Pretty
open Scrut.Diff (DL)

theorem mem_linesOf {d : List DL} {e : DL} (he : e ∈ d) {l : Nat} (hl : l ∈ e.lines) :
    l ∈ Scrut.Diff.linesOf d := by
  simp only [Scrut.Diff.linesOf, List.mem_flatMap]
  exact ⟨e, he, hl⟩

theorem mem_idxOf {d : List DL} {e : DL} (he : e ∈ d) {i : Nat} (hi : i ∈ e.idx) :
    i ∈ Scrut.Diff.idxOf d := by
  simp only [Scrut.Diff.idxOf, List.mem_flatMap]
  exact ⟨e, he, hi⟩

/-- every diff the matcher can produce (C02) is in the domain where rendering cannot panic -/
theorem dom_of_WF (n m : Nat) (es : Nat → Scrut.Diff.Exp) (mt : Nat → Nat → Bool) (d : List DL)
    (wf : Scrut.Diff.WF n m es mt d) (msl : Nat) (abs : Bool) (lineNumber shellLines : Nat)
    (hs : 1 ≤ shellLines) (hm : msl + d.length < USIZE) :
    Dom { msl, abs, lineNumber, shellLines, nexp := n, ml := fun i => (es i).multiline } d := by
  refine ⟨fun _ => by simp only; omega, hm, ?_⟩
  intro e he
  have hcnt : countOut d = m := by
    rw [countOut_eq, wf.cover]; simp [Scrut.Diff.rangeFrom]
  have hline : ∀ l ∈ e.lines, l < countOut d := by
    intro l hl
    have := mem_linesOf he hl
    rw [wf.cover] at this
    have := (Scrut.Diff.mem_rangeFrom.1 this).2
    omega
  have hidx : ∀ i ∈ e.idx, i < n := fun i hi => wf.idx_lt i (mem_idxOf he hi)
  have hg := wf.good e he
  cases e with
  | matched i ls =>
    exact ⟨hidx i (by simp [Scrut.Diff.DL.idx]), fun _ => hg.2.1, fun l hl => hline l (by simpa [Scrut.Diff.DL.lines] using hl)⟩
  | unmatched i => exact hidx i (by simp [Scrut.Diff.DL.idx])
  | unexpected ls => exact fun l hl => hline l (by simpa [Scrut.Diff.DL.lines] using hl)

/-! ### the unified diff shows every difference -/

def US.Inv (s : US) : Prop := (s.ulines ≠ [] → s.ustart.isSome) ∧ (s.xlines ≠ [] → s.xstart.isSome)

theorem US.inv_empty : US.Inv {} := ⟨fun h => absurd rfl h, fun h => absurd rfl h⟩

theorem flushed_inv (s : US) (h : s.Inv) : (flushed s).Inv := by
  unfold flushed; split
  · exact US.inv_empty
  · exact h

theorem minus_mem_hunk (ln : Nat) (s : US) (h : s.Inv) (i : Nat) (hi : i ∈ s.ulines) : UE.minus i ∈ hunk ln s := by
  have hs : s.ustart.isSome := h.1 (List.ne_nil_of_mem hi)
  unfold hunk
  cases hu : s.ustart with
  | none => rw [hu] at hs; simp at hs
  | some u =>
    simp only [List.mem_cons, List.mem_append, List.mem_map]
    exact Or.inr (Or.inl ⟨i, hi, rfl⟩)

theorem plus_mem_hunk (ln : Nat) (s : US) (h : s.Inv) (l : Nat) (hl : l ∈ s.xlines) : UE.plus l ∈ hunk ln s := by
  have hs : s.xstart.isSome := h.2 (List.ne_nil_of_mem hl)
  unfold hunk
  cases hx : s.xstart with
  | none => rw [hx] at hs; simp at hs
  | some x =>
    cases hu : s.ustart with
    | none =>
      simp only [List.mem_cons, List.mem_append, List.mem_map]
      exact Or.inr (Or.inr ⟨l, hl, rfl⟩)
    | some u =>
      simp only [List.mem_cons, List.mem_append, List.mem_map]
      exact Or.inr (Or.inr ⟨l, hl, rfl⟩)

theorem unifiedGo_shows (ln : Nat) :
    ∀ (d : List DL) (ei : Nat) (s : US), s.Inv →
      (∀ i, (i ∈ s.ulines ∨ DL.unmatched i ∈ d) → UE.minus i ∈ unifiedGo ln d ei s) ∧
      (∀ l, (l ∈ s.xlines ∨ ∃ ls, DL.unexpected ls ∈ d ∧ l ∈ ls) → UE.plus l ∈ unifiedGo ln d ei s) := by
  intro d
  induction d with
  | nil =>
    intro ei s hs
    refine ⟨fun i hi => ?_, fun l hl => ?_⟩
    · rcases hi with hi | hi
      · exact minus_mem_hunk ln s hs i hi
      · simp at hi
    · rcases hl with hl | ⟨ls, h1, _⟩
      · exact plus_mem_hunk ln s hs l hl
      · simp at h1
  | cons e rest ih =>
    intro ei s hs
    cases e with
    | matched j ls =>
      have := ih j (flushed s) (flushed_inv s hs)
      refine ⟨fun i hi => ?_, fun l hl => ?_⟩
      · simp only [unifiedGo, List.mem_append]
        rcases hi with hi | hi
        · exact Or.inl (minus_mem_hunk ln s hs i hi)
        · simp at hi; exact Or.inr (this.1 i (Or.inr hi))
      · simp only [unifiedGo, List.mem_append]
        rcases hl with hl | ⟨ls', h1, h2⟩
        · exact Or.inl (plus_mem_hunk ln s hs l hl)
        · simp at h1; exact Or.inr (this.2 l (Or.inr ⟨ls', h1, h2⟩))
    | unmatched j =>
      have hinv : US.Inv { s with ustart := s.ustart.orElse fun _ => some j, ulines := s.ulines ++ [j] } := by
        refine ⟨fun _ => ?_, hs.2⟩
        cases s.ustart <;> simp [Option.orElse]
      have := ih j _ hinv
      refine ⟨fun i hi => ?_, fun l hl => ?_⟩
      · simp only [unifiedGo]
        apply this.1
        rcases hi with hi | hi
        · exact Or.inl (by simp [hi])
        · simp at hi
          rcases hi with hi | hi
          · exact Or.inl (by simp [hi])
          · exact Or.inr hi
      · simp only [unifiedGo]
        apply this.2
        rcases hl with hl | ⟨ls', h1, h2⟩
        · exact Or.inl hl
        · simp at h1; exact Or.inr ⟨ls', h1, h2⟩
    | unexpected ls =>
      have hinv : US.Inv { s with xstart := s.xstart.orElse fun _ => some ei, xlines := s.xlines ++ ls } := by
        refine ⟨hs.1, fun _ => ?_⟩
        cases s.xstart <;> simp [Option.orElse]
      refine ⟨fun i hi => ?_, fun l hl => ?_⟩
      · simp only [unifiedGo]
        split
        · simp only [List.mem_append]
          rcases hi with hi | hi
          · exact Or.inl (minus_mem_hunk ln _ hinv i hi)
          · simp at hi; exact Or.inr ((ih ei _ (flushed_inv _ hinv)).1 i (Or.inr hi))
        · apply (ih ei _ hinv).1
          rcases hi with hi | hi
          · exact Or.inl hi
          · simp at hi; exact Or.inr hi
      · have hl' : l ∈ s.xlines ++ ls ∨ ∃ ls', DL.unexpected ls' ∈ rest ∧ l ∈ ls' := by
          rcases hl with hl | ⟨ls', h1, h2⟩
          · exact Or.inl (by simp [hl])
          · simp at h1
            rcases h1 with h1 | h1
            · subst h1; exact Or.inl (by simp [h2])
            · exact Or.inr ⟨ls', h1, h2⟩
        simp only [unifiedGo]
        split
        · simp only [List.mem_append]
          rcases hl' with hl' | hl'
          · exact Or.inl (plus_mem_hunk ln _ hinv l hl')
          · exact Or.inr ((ih ei _ (flushed_inv _ hinv)).2 l (Or.inr hl'))
        · exact (ih ei _ hinv).2 l hl'

/-! ### trailing white space: the split is at a character boundary -/

theorem utf8Len_append (a b : List Char) : utf8Len (a ++ b) = utf8Len a + utf8Len b := by
  induction a with
  | nil => simp [utf8Len]
  | cons c r ih => simp [utf8Len, ih]; omega

theorem splitAtByte_append (p s : List Char) : splitAtByte (p ++ s) (utf8Len p) = some (p, s) := by
  induction p with
  | nil => cases s <;> simp [splitAtByte, utf8Len]
  | cons c r ih =>
    have hc : 0 < c.utf8Size := Char.utf8Size_pos c
    simp only [List.cons_append, splitAtByte, utf8Len]
    have h0 : ¬ (c.utf8Size + utf8Len r = 0) := by omega
    have h1 : c.utf8Size ≤ c.utf8Size + utf8Len r := by omega
    simp only [h0, h1, if_true, if_false, Nat.add_sub_cancel_left, ih, Option.map]

theorem trim_append_trailing (cs : List Char) : trimEndWs cs ++ trailingWs cs = cs := by
  unfold trimEndWs trailingWs
  rw [← List.reverse_append, List.takeWhile_append_dropWhile, List.reverse_reverse]

theorem split_at_spaceStart (cs : List Char) :
    splitAtByte cs (spaceStartIndex cs) = some (trimEndWs cs, trailingWs cs) := by
  have := splitAtByte_append (trimEndWs cs) (trailingWs cs)
  rw [trim_append_trailing] at this
  exact this

theorem highlight_eq (cs : List Char) :
    highlight cs = some (trimEndWs cs ++ (trailingWs cs).map renderSpace) := by
  unfold highlight
  simp only [split_at_spaceStart, Option.map]
  split
  · rfl
  · rename_i h
    have hlen : utf8Len cs = utf8Len (trimEndWs cs) + utf8Len (trailingWs cs) := by
      rw [← utf8Len_append, trim_append_trailing]
    have ht : trailingWs cs = [] := by
      cases htr : trailingWs cs with
      | nil => rfl
      | cons c r =>
        exfalso
        have hc : 0 < c.utf8Size := Char.utf8Size_pos c
        rw [htr] at hlen
        simp only [utf8Len] at hlen
        unfold spaceStartIndex at h
        omega
    have := trim_append_trailing cs
    rw [ht] at this ⊢
    simp at this
    simp [this]

/-! ### outer loops -/

theorem prettySections_not_pass (os : List OC) (p : Nat) (h : p ∈ prettySections os) :
    ∃ o ∈ os, o.pos = p ∧ o.kind ≠ .ok ∧ o.kind ≠ .skipped := by
  simp only [prettySections, List.mem_map, List.mem_filter] at h
  obtain ⟨o, ⟨ho, hk⟩, hp⟩ := h
  refine ⟨o, ho, hp, ?_, ?_⟩ <;> intro hc <;> simp [hc] at hk

theorem prettySections_complete (os : List OC) (o : OC) (ho : o ∈ os) (h1 : o.kind ≠ .ok) (h2 : o.kind ≠ .skipped) :
    o.pos ∈ prettySections os := by
  simp only [prettySections, List.mem_map, List.mem_filter]
  exact ⟨o, ⟨ho, by simp [h1, h2]⟩, rfl⟩

theorem diffSections_not_pass (os : List OC) (l : List Nat) (h : diffSections os = some l) (p : Nat) (hp : p ∈ l) :
    ∃ o ∈ os, o.pos = p ∧ (o.kind = .malformed ∨ o.kind = .exitcode ∨ o.kind = .internal) := by
  unfold diffSections at h
  simp only at h
  split at h
  · cases h
  · simp only [Option.some.injEq] at h
    subst h
    simp only [List.mem_map, List.mem_filter] at hp
    obtain ⟨o, ⟨ho, hk⟩, hpos⟩ := hp
    have ho' : o ∈ os := by
      split at ho
      · exact (List.mem_mergeSort).1 ho
      · exact ho
    refine ⟨o, ho', hpos, ?_⟩
    have hk' : (o.kind = Kind.malformed ∨ o.kind = Kind.exitcode) ∨ o.kind = Kind.internal := by simpa using hk
    rcases hk' with (h | h) | h
    · exact Or.inl h
    · exact Or.inr (Or.inl h)
    · exact Or.inr (Or.inr h)

end Scrut.Pretty

namespace Scrut.Pretty
open Scrut.Diff (DL)

/-- a successful rendering contains the `-` line of every unmatched expectation and the `+` line
    of every unexpected output line, with their numbers -/
theorem rendered_shows (c : Cfg) (d : List DL) (w : Nat) (lines : List Line)
    (h : prettyRender c d = some (w, lines)) :
    ∃ base, lineBase c = some base ∧
      (∀ i, DL.unmatched i ∈ d → Line.unm (base + i + 1) (c.ml i) ∈ lines) ∧
      (∀ ls l, DL.unexpected ls ∈ d → l ∈ ls → Line.unx (base + l + 1) ∈ lines) := by
  unfold prettyRender at h
  cases hb : lineBase c with
  | none => rw [hb] at h; simp at h
  | some base =>
    rw [hb] at h
    simp only at h
    split at h
    · cases ha : allSome ((prettyItems c.msl d).map (display c.ml base (width base c.nexp d))) with
      | none => rw [ha] at h; simp at h
      | some r =>
        rw [ha] at h
        simp at h
        obtain ⟨_, hr⟩ := h
        subst hr
        refine ⟨base, rfl, fun i hi => ?_, fun ls l h1 h2 => ?_⟩
        · obtain ⟨y, hy1, hy2⟩ := allSome_mem _ _ _ ha (Item.unm i) (unm_mem_itemsGo c.msl i d 0 none hi)
          simp only [display] at hy1
          cases hp : pad (width base c.nexp d) (base + i + 1) with
          | none => rw [hp] at hy1; simp at hy1
          | some _ => rw [hp] at hy1; simp at hy1; subst hy1; exact hy2
        · obtain ⟨y, hy1, hy2⟩ := allSome_mem _ _ _ ha (Item.unx l) (unx_mem_itemsGo c.msl l ls h2 d 0 none h1)
          simp only [display] at hy1
          cases hp : pad (width base c.nexp d) (base + l + 1) with
          | none => rw [hp] at hy1; simp at hy1
          | some _ => rw [hp] at hy1; simp at hy1; subst hy1; exact hy2
    · simp at h

end Scrut.Pretty

namespace Scrut.Pretty
open Scrut.Diff (DL)

instance (ml : Nat → Bool) (nexp cnt : Nat) : DecidablePred (EntryOk ml nexp cnt) := by
  intro e; cases e <;> unfold EntryOk <;> infer_instance

instance (c : Cfg) (d : List DL) : Decidable (Dom c d) := by
  unfold Dom; infer_instance

end Scrut.Pretty
