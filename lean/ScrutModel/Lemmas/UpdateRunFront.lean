import ScrutModel.Lemmas.UpdateRunProps
/-!
# A document that `update` writes has no unterminated front-matter

The front-matter is recognised only in front of the first content (`content_start`), and an unterminated one
extends to the end of the document: behind it there is no test, so `scrut update` skips the document ("no
testcases").  Hence the guard `FrontClosed` of the document-level theorems follows from
`updateDocument … = .updated …` (`frontClosed_of_updated`).
-/
namespace Scrut.UpdateRun
open Scrut Scrut.TestRun Scrut.Markdown Scrut.Update

/-- no front-matter token -/
def NoFrontTok (toks : List Tok) : Prop := ∀ t ∈ toks, ∀ ls, t ≠ .docConfig ls

theorem frontClosed_of_noFrontTok (N : Nat) : ∀ (toks : List Tok) (pos : Nat), NoFrontTok toks →
    frontClosed N pos toks = true
  | [], _, _ => rfl
  | .line _ _ :: r, pos, h => by
    rw [frontClosed_line]; exact frontClosed_of_noFrontTok N r _ (fun t ht => h t (by simp [ht]))
  | .verbatim _ _ _ :: r, pos, h => by
    rw [frontClosed_verbatim]; exact frontClosed_of_noFrontTok N r _ (fun t ht => h t (by simp [ht]))
  | .test _ _ _ _ :: r, pos, h => by
    rw [frontClosed_test]; exact frontClosed_of_noFrontTok N r _ (fun t ht => h t (by simp [ht]))
  | .docConfig ls :: r, pos, h => absurd rfl (h _ (by simp) ls)

/-- once content has started (`content_start`), the tokenizer emits no front-matter token -/
theorem runP_noFrontTok (L : List Markdown.Line) : ∀ (src : List Markdown.Line) (m : Mode) (li : Nat),
    (∀ acc, m ≠ .front acc) → NoFrontTok (runP L m true li src)
  | [], m, li, hm => by
    cases m with
    | top => intro t ht; simp [runP, Mode.flushTok] at ht
    | front acc => exact absurd rfl (hm acc)
    | verb bt s lang acc =>
      intro t ht ls
      simp only [runP, Mode.flushTok, List.mem_singleton] at ht
      subst ht; intro h; cases h
    | test bt lang cfg cm cd =>
      intro t ht ls
      simp only [runP, Mode.flushTok, List.mem_singleton] at ht
      subst ht; intro h; cases h
  | l :: rest, m, li, hm => by
    cases m with
    | top =>
      rw [runP_top_cons]
      simp only [Bool.not_true, Bool.false_and, Bool.false_eq_true, if_false]
      cases hf : fencePure l with
      | none =>
        simp only [Bool.true_or]
        intro t ht ls
        rcases List.mem_cons.mp ht with rfl | ht
        · intro h; cases h
        · exact runP_noFrontTok L rest .top _ (fun _ h => by cases h) t ht ls
      | some x =>
        obtain ⟨bt, lang, config⟩ := x
        simp only []
        split
        · exact runP_noFrontTok L rest _ _ (fun _ h => by cases h)
        · exact runP_noFrontTok L rest _ _ (fun _ h => by cases h)
    | front acc => exact absurd rfl (hm acc)
    | verb bt s lang acc =>
      simp only [runP]
      split
      · intro t ht ls
        rcases List.mem_cons.mp ht with rfl | ht
        · intro h; cases h
        · exact runP_noFrontTok L rest .top _ (fun _ h => by cases h) t ht ls
      · exact runP_noFrontTok L rest _ _ (fun _ h => by cases h)
    | test bt lang cfg cm cd =>
      simp only [runP]
      split
      · intro t ht ls
        rcases List.mem_cons.mp ht with rfl | ht
        · intro h; cases h
        · exact runP_noFrontTok L rest .top _ (fun _ h => by cases h) t ht ls
      · split
        · exact runP_noFrontTok L rest _ _ (fun _ h => by cases h)
        · exact runP_noFrontTok L rest _ _ (fun _ h => by cases h)

/-- in front of the first content: every front-matter is closed, or the document holds no test -/
theorem frontClosed_or_no_tests (L : List Markdown.Line) : ∀ (n : Nat) (src : List Markdown.Line), src.length ≤ n →
    ∀ (li N : Nat), li + src.length = N →
      frontClosed N li (runP L .top false li src) = true ∨ testBlocks (runP L .top false li src) = [] := by
  intro n
  induction n with
  | zero =>
    intro src hlen li N _
    have : src = [] := List.eq_nil_of_length_eq_zero (by omega)
    subst this
    left; rfl
  | succ n ih =>
    intro src hlen li N hN
    cases src with
    | nil => left; rfl
    | cons l rest =>
      have hr : rest.length ≤ n := by simp at hlen; omega
      have hN1 : li + 1 + rest.length = N := by simp at hN; omega
      rw [runP_top_cons]
      by_cases hfm : l = frontMatterFence
      · simp only [hfm, Bool.not_false, Bool.true_and, decide_true, if_true]
        rcases front_loop L false rest [] (li + 1) with ⟨body, rest', h1, _, h3⟩ | ⟨_, h3⟩
        · rw [h3]
          have hlen' : rest'.length ≤ n := by rw [h1] at hr; simp at hr; omega
          have hN' : li + 1 + body.length + 1 + rest'.length = N := by
            rw [h1] at hN1; simp at hN1; omega
          rcases ih rest' hlen' (li + 1 + body.length + 1) N hN' with hc | hn
          · left
            simp only [List.nil_append, frontClosed, number_length, Bool.and_eq_true, decide_eq_true_eq]
            have ej : li + body.length + 2 = li + 1 + body.length + 1 := by omega
            rw [ej]
            exact ⟨by omega, hc⟩
          · right
            simpa only [testBlocks] using hn
        · right
          rw [h3]; rfl
      · have hfm' : (!false && decide (l = frontMatterFence)) = false := by simp [hfm]
        simp only [hfm', Bool.false_eq_true, if_false]
        cases hf : fencePure l with
        | none =>
          simp only [Bool.false_or]
          by_cases hcs : (!(trim l).isEmpty) = true
          · left
            rw [hcs, frontClosed_line]
            exact frontClosed_of_noFrontTok N _ _ (runP_noFrontTok L rest .top _ (fun _ h => by cases h))
          · have hcs' : (!(trim l).isEmpty) = false := by simpa using hcs
            rw [hcs']
            rcases ih rest hr (li + 1) N hN1 with hc | hn
            · left; rw [frontClosed_line]; exact hc
            · right; simpa only [testBlocks] using hn
        | some x =>
          obtain ⟨bt, lang, config⟩ := x
          left
          simp only []
          split
          · exact frontClosed_of_noFrontTok N _ _ (runP_noFrontTok L rest _ _ (fun _ h => by cases h))
          · exact frontClosed_of_noFrontTok N _ _ (runP_noFrontTok L rest _ _ (fun _ h => by cases h))

/-- a document with a test has no unterminated front-matter -/
theorem frontClosed_of_tests {content : List Char} {tests : List UTest} (ht : docTests content = some tests)
    (hne : tests ≠ []) : FrontClosed content := by
  rcases frontClosed_or_no_tests [Gen.language] (splitLines content).length (splitLines content) (Nat.le_refl _)
    0 (splitLines content).length (by simp) with h | h
  · exact h
  · exfalso
    have hl := docTests_length ht
    have h' : testBlocks (docToks content) = [] := h
    rw [h'] at hl
    exact hne (List.eq_nil_of_length_eq_zero hl)

/-- **the guard `FrontClosed` holds for every document that `update` writes** -/
theorem frontClosed_of_updated {isOther : Char → Bool} {content : List Char} {runs : List Ran}
    {text : List Char} {results : List Gen.UpdResult}
    (h : updateDocument isOther content runs = .updated text results) : FrontClosed content := by
  obtain ⟨tests, ht⟩ := docTests_of_result isOther content runs (Or.inr ⟨text, results, h⟩)
  rw [updateDocument_of_docTests isOther content runs tests ht] at h
  exact frontClosed_of_tests ht (updateTests_updated h).1

end Scrut.UpdateRun
