import ScrutModel.Model.StripAnsi
/-!
# `strip_ansi_sequences_bytes`: only escape sequences go, nothing is added, reordered or changed
-/
namespace Scrut.StripAnsi

theorem dropOne_suffix (p : UInt8 → Bool) (l : List UInt8) : dropOne p l <:+ l := by
  cases l with
  | nil => exact List.suffix_refl _
  | cons b r =>
    simp only [dropOne]
    split
    · exact List.suffix_cons b r
    · exact List.suffix_refl _

theorem skipString_suffix : ∀ l : List UInt8, skipString l <:+ l
  | [] => List.suffix_refl _
  | b :: r => by
    simp only [skipString]
    split
    · exact List.suffix_cons b r
    · split
      · rename_i r' _
        exact (List.suffix_cons _ r').trans (List.suffix_cons _ _)
      · exact (skipString_suffix r).trans (List.suffix_cons b r)

theorem afterEsc_suffix (l : List UInt8) : afterEsc l <:+ l := by
  cases l with
  | nil => exact List.suffix_refl _
  | cons b r =>
    simp only [afterEsc]
    split
    · exact (dropOne_suffix _ _).trans (((List.dropWhile_suffix _).trans (List.dropWhile_suffix _)).trans
        (List.suffix_cons b r))
    · split
      · exact (skipString_suffix r).trans (List.suffix_cons b r)
      · exact (dropOne_suffix _ _).trans (List.dropWhile_suffix _)

theorem afterEsc_length (l : List UInt8) : (afterEsc l).length ≤ l.length :=
  (afterEsc_suffix l).length_le

/-- **nothing is added, changed or reordered**: the result is a subsequence of the input -/
theorem stripFuel_sublist : ∀ (n : Nat) (l : List UInt8), (stripFuel n l).Sublist l
  | 0, l => by simp [stripFuel]
  | n + 1, [] => by simp [stripFuel]
  | n + 1, b :: r => by
    unfold stripFuel
    split
    · exact ((stripFuel_sublist n (afterEsc r)).trans (afterEsc_suffix r).sublist).trans
        (List.sublist_cons_self b r)
    · exact (stripFuel_sublist n r).cons₂ b

/-- **no `ESC` is left** -/
theorem esc_not_mem_stripFuel : ∀ (n : Nat) (l : List UInt8), esc ∉ stripFuel n l
  | 0, l => by simp [stripFuel]
  | n + 1, [] => by simp [stripFuel]
  | n + 1, b :: r => by
    unfold stripFuel
    split
    · exact esc_not_mem_stripFuel n (afterEsc r)
    · rename_i hb
      intro h
      rcases List.mem_cons.mp h with h | h
      · exact hb h.symm
      · exact esc_not_mem_stripFuel n r h

/-- **bytes without `ESC` are left as they are** (TAB, CR, BEL, invalid UTF-8, …) -/
theorem stripFuel_no_esc : ∀ (n : Nat) (l : List UInt8), esc ∉ l → l.length ≤ n → stripFuel n l = l
  | 0, l, _, hn => by
    have : l = [] := List.length_eq_zero_iff.mp (Nat.le_zero.mp hn)
    subst this; rfl
  | n + 1, [], _, _ => rfl
  | n + 1, b :: r, h, hn => by
    have hb : b ≠ esc := fun e => h (by simp [e])
    have hr : esc ∉ r := fun e => h (by simp [e])
    simp only [stripFuel, hb, if_false]
    rw [stripFuel_no_esc n r hr (by simpa using hn)]

/-- more fuel than bytes changes nothing -/
theorem stripFuel_enough (n : Nat) : ∀ (l : List UInt8), l.length ≤ n → stripFuel n l = stripFuel l.length l := by
  induction n using Nat.strongRecOn with
  | _ n ih =>
    intro l hn
    cases n with
    | zero =>
      have : l = [] := List.length_eq_zero_iff.mp (Nat.le_zero.mp hn)
      subst this; rfl
    | succ n =>
      cases l with
      | nil => rfl
      | cons b r =>
        have hr : r.length ≤ n := by simpa using hn
        simp only [stripFuel, List.length_cons]
        split
        · have h1 := afterEsc_length r
          rw [ih n (Nat.lt_succ_self n) (afterEsc r) (by omega),
            ih r.length (by omega) (afterEsc r) h1]
        · rw [ih n (Nat.lt_succ_self n) r hr]

theorem strip_nil : strip [] = [] := rfl

theorem strip_cons_ne {b : UInt8} (hb : b ≠ esc) (r : List UInt8) : strip (b :: r) = b :: strip r := by
  simp [strip, stripFuel, hb]

/-- an `ESC` and the sequence it introduces are skipped -/
theorem strip_esc (r : List UInt8) : strip (esc :: r) = strip (afterEsc r) := by
  simp only [strip, stripFuel, List.length_cons, if_true]
  exact stripFuel_enough r.length (afterEsc r) (afterEsc_length r)

theorem strip_sublist (l : List UInt8) : (strip l).Sublist l := stripFuel_sublist _ l
theorem esc_not_mem_strip (l : List UInt8) : esc ∉ strip l := esc_not_mem_stripFuel _ l
theorem strip_no_esc (l : List UInt8) (h : esc ∉ l) : strip l = l := stripFuel_no_esc _ l h (Nat.le_refl _)
theorem strip_idempotent (l : List UInt8) : strip (strip l) = strip l := strip_no_esc _ (esc_not_mem_strip l)

/-- bytes without `ESC` in front of the rest come out as they are -/
theorem strip_append_no_esc (pre post : List UInt8) (h : esc ∉ pre) : strip (pre ++ post) = pre ++ strip post := by
  induction pre with
  | nil => rfl
  | cons b r ih =>
    have hb : b ≠ esc := fun e => h (by simp [e])
    have hr : esc ∉ r := fun e => h (by simp [e])
    rw [List.cons_append, strip_cons_ne hb, ih hr, List.cons_append]

theorem dropWhile_all {p : UInt8 → Bool} (a rest : List UInt8) (h : ∀ x ∈ a, p x = true) :
    (a ++ rest).dropWhile p = rest.dropWhile p := by
  induction a with
  | nil => rfl
  | cons x a ih =>
    simp only [List.cons_append, List.dropWhile_cons, h x (by simp), if_true]
    exact ih (fun y hy => h y (by simp [hy]))

theorem final_not_param {f : UInt8} (h : isCsiFinal f = true) : isParam f = false := by
  simp only [isCsiFinal, isParam, Bool.and_eq_true, decide_eq_true_eq] at *
  simp only [Bool.and_eq_false_iff, decide_eq_false_iff_not]
  omega

theorem final_not_inter {f : UInt8} (h : isCsiFinal f = true) : isInter f = false := by
  simp only [isCsiFinal, isInter, Bool.and_eq_true, decide_eq_true_eq] at *
  simp only [Bool.and_eq_false_iff, decide_eq_false_iff_not]
  omega

theorem inter_not_param {f : UInt8} (h : isInter f = true) : isParam f = false := by
  simp only [isInter, isParam, Bool.and_eq_true, decide_eq_true_eq] at *
  simp only [Bool.and_eq_false_iff, decide_eq_false_iff_not]
  omega

/-- **a CSI sequence is removed as a whole** (`ESC [`, parameters, intermediates, final byte) -/
theorem strip_csi (ps is : List UInt8) (f : UInt8) (post : List UInt8)
    (hp : ∀ x ∈ ps, isParam x = true) (hi : ∀ x ∈ is, isInter x = true) (hf : isCsiFinal f = true) :
    strip (esc :: 0x5b :: (ps ++ (is ++ f :: post))) = strip post := by
  rw [strip_esc]
  have h1 : (ps ++ (is ++ f :: post)).dropWhile isParam = is ++ f :: post := by
    rw [dropWhile_all ps _ hp]
    cases is with
    | nil => simp [List.dropWhile_cons, final_not_param hf]
    | cons x xs => simp [List.dropWhile_cons, inter_not_param (hi x (by simp))]
  have h2 : (is ++ f :: post).dropWhile isInter = f :: post := by
    rw [dropWhile_all is _ hi]
    simp [List.dropWhile_cons, final_not_inter hf]
  simp only [afterEsc, if_true, h1, h2, dropOne, hf]

end Scrut.StripAnsi
