import ScrutModel.Model.Cram
import ScrutModel.Model.Markdown
/-!
# A line of the form `^\[[0-9]+\]$` never becomes an expectation

`add_testcase_body` on a line of the exit-code form: the exit code of the test (number fits into an
`i32`), or an error -- never an output expectation (before the fix `exitCodeOutOfRange`, a line
such as `[2147483648]` was silently read as the expectation `[2147483648]` of kind equal).
The invariant `NoExitForm` carries that through every operation of the `LineParser`.
-/
namespace Scrut.LineParser

theorem isExitCodeForm_head {line : List Char} (h : isExitCodeForm line = true) :
    ∃ r, line = '[' :: r := by
  unfold isExitCodeForm at h
  split at h
  · exact ⟨_, rfl⟩
  · cases h

theorem stripPrefix_bracket (c : Char) (hc : c ≠ '[') (r : List Char) :
    stripPrefix [c, ' '] ('[' :: r) = none := by
  simp [stripPrefix, hc]

/-- **`add_testcase_body` on a line of the exit-code form**, whatever the state and the mode:
the errors in the order of the code, else the exit code is set; the expectations stay as they are -/
theorem addBody_exitForm {κ} (expOk : List Char → Bool) (s : State κ) (line : List Char) (i : Nat)
    (h : isExitCodeForm line = true) :
    s.addBody expOk line i =
      if s.command.isEmpty then .error (.bodyWithoutCommand (i + 1))
      else match extractExitCode line with
        | none => .error (.exitCodeOutOfRange (i + 1))
        | some c =>
          if s.exitCode.isSome then .error (.exitCodeTwice (i + 1))
          else .ok ({ s with inCommand := false, exitCode := some c }, .exitCode) := by
  obtain ⟨r, rfl⟩ := isExitCodeForm_head h
  have hA : (if (s.allowMultipleCommands || s.command.isEmpty) = true then stripPrefix ['$', ' '] ('[' :: r)
      else none) = none := by split <;> simp [stripPrefix]
  have hB : (if s.inCommand = true then stripPrefix ['>', ' '] ('[' :: r) else none) = none := by
    split <;> simp [stripPrefix]
  unfold State.addBody
  rw [hA]
  simp only []
  unfold State.addBodyRest
  rw [hB]
  simp only []
  cases hc : s.command.isEmpty with
  | true => simp
  | false =>
    cases hx : extractExitCode ('[' :: r) with
    | none => simp [exitCodeOverflows, h, hx]
    | some c => simp [exitCodeOverflows, hx]

/-- a successful step on a line of the exit-code form is an exit code step: the number fits, and
nothing is appended to the expectations -/
theorem addBody_exitForm_ok {κ} (expOk : List Char → Bool) {s s' : State κ} {line : List Char} {i : Nat}
    {ct : CodeType} (h : isExitCodeForm line = true) (he : s.addBody expOk line i = .ok (s', ct)) :
    ct = .exitCode ∧ s'.expectations = s.expectations ∧ s.exitCode = none ∧
      ∃ c, extractExitCode line = some c ∧ c ≤ i32Max ∧ s'.exitCode = some c := by
  rw [addBody_exitForm expOk s line i h] at he
  split at he
  · cases he
  · have hle : ∀ c, extractExitCode line = some c → c ≤ i32Max := by
      intro c hc
      rw [extractExitCode_eq] at hc
      simp [h] at hc
      omega
    split at he
    · cases he
    · rename_i c hc
      split at he
      · cases he
      · rename_i hs
        cases he
        refine ⟨rfl, rfl, ?_, c, hc, hle c hc, rfl⟩
        cases hh : s.exitCode with
        | none => rfl
        | some v => simp [hh] at hs

/-- a step that appends an expectation: the line has not the exit-code form -/
theorem addBody_expectation_not_form {κ} (expOk : List Char → Bool) {s s' : State κ} {line : List Char}
    {i : Nat} (he : s.addBody expOk line i = .ok (s', .expectation)) : isExitCodeForm line = false := by
  cases hf : isExitCodeForm line with
  | false => rfl
  | true => have := (addBody_exitForm_ok expOk hf he).1; cases this

/-- no expectation -- of the test being collected, of the tests pushed -- has the exit-code form -/
def NoExitForm {κ} (s : State κ) : Prop :=
  (∀ e ∈ s.expectations, isExitCodeForm e = false) ∧
  ∀ t ∈ s.testcases, ∀ e ∈ t.expectations, isExitCodeForm e = false

theorem NoExitForm.new {κ} (b : Bool) : NoExitForm (State.new b : State κ) := by
  constructor <;> intro _ h <;> cases h

theorem NoExitForm.setTitle {κ} {s : State κ} (h : NoExitForm s) (t : List Char) : NoExitForm (s.setTitle t) := h
theorem NoExitForm.setConfig {κ} {s : State κ} (h : NoExitForm s) (c : κ) : NoExitForm (s.setConfig c) := h

theorem NoExitForm.endTestcase {κ} {s s' : State κ} {i : Nat} (h : NoExitForm s)
    (he : s.endTestcase i = .ok s') : NoExitForm s' := by
  unfold State.endTestcase at he
  split at he
  · split at he
    · cases he
    · split at he
      · cases he
      · cases he; exact h
  · cases he
    refine ⟨(by intro _ hm; simp [State.flush] at hm), ?_⟩
    intro t ht e hm
    simp only [State.flush, List.mem_append, List.mem_singleton] at ht
    rcases ht with ht | rfl
    · exact h.2 t ht e hm
    · exact h.1 e hm

theorem NoExitForm.addBody {κ} (expOk : List Char → Bool) {s s' : State κ} {line : List Char} {i : Nat}
    {ct : CodeType} (h : NoExitForm s) (he : s.addBody expOk line i = .ok (s', ct)) : NoExitForm s' := by
  cases hf : isExitCodeForm line with
  | true =>
    rw [addBody_exitForm expOk s line i hf] at he
    split at he
    · cases he
    · split at he
      · cases he
      · split at he
        · cases he
        · cases he; exact h
  | false =>
    unfold State.addBody at he
    split at he
    · dsimp only at he
      split at he
      · cases he
      · rename_i s1 hs1
        have h1 : NoExitForm s1 := by
          split at hs1
          · exact NoExitForm.endTestcase (s := { s with inCommand := true }) h hs1
          · cases hs1; exact h
        cases he
        split <;> exact h1
    · unfold State.addBodyRest at he
      split at he
      · split at he
        · cases he
        · cases he; exact h
      · dsimp only at he
        split at he
        · cases he
        · split at he
          · cases he
          · split at he
            · split at he
              · cases he
              · cases he; exact h
            · split at he
              · cases he
                refine ⟨?_, h.2⟩
                intro e hm
                simp only [List.mem_append, List.mem_singleton] at hm
                rcases hm with hm | rfl
                · exact h.1 e hm
                · exact hf
              · cases he

end Scrut.LineParser

/-! ## the Cram parser -/
namespace Scrut.Cram
open Scrut.LineParser

theorem step_noExitForm (expOk : List Char → Bool) (ind : List Char) {s s' : St} {i : Nat} {l : List Char}
    (h : NoExitForm s) (he : step expOk ind s i l = .ok s') : NoExitForm s' := by
  unfold step at he
  split at he
  · cases he; exact h
  · split at he
    · split at he
      · exact h.endTestcase he
      · cases he; exact h
    · split at he
      · split at he
        · cases he
        · rename_i s1 ct hs1
          cases he
          exact (h.addBody expOk hs1).setConfig _
      · split at he
        · cases he
        · rename_i s1 hs1
          cases he
          exact (h.endTestcase hs1).setTitle _

theorem run_noExitForm (expOk : List Char → Bool) (ind : List Char) :
    ∀ (ls : List (List Char)) {s s' : St} {i : Nat}, NoExitForm s → run expOk ind s i ls = .ok s' →
      NoExitForm s'
  | [], s, s', i, h, he => by simp only [run] at he; cases he; exact h
  | l :: ls, s, s', i, h, he => by
    simp only [run] at he
    split at he
    · cases he
    · rename_i s1 hs1
      exact run_noExitForm expOk ind ls (step_noExitForm expOk ind h hs1) he

theorem finish_noExitForm {s s' : St} {n : Nat} (h : NoExitForm s) (he : finish s n = .ok s') :
    NoExitForm s' := by
  unfold finish at he
  split at he
  · exact (h.setConfig _).endTestcase he
  · cases he; exact h

/-- no test of a parsed Cram document has an expectation of the exit-code form -/
theorem parseLines_noExitForm (expOk : List Char → Bool) (ind : List Char) (ls : List (List Char))
    {ts : List Test} (he : parseLines expOk ind ls = .ok ts) :
    ∀ t ∈ ts, ∀ e ∈ t.expectations, isExitCodeForm e = false := by
  unfold parseLines at he
  split at he
  · cases he
  · rename_i s hs
    split at he
    · cases he
    · rename_i s2 hs2
      cases he
      exact (finish_noExitForm (run_noExitForm expOk ind ls (NoExitForm.new true) hs) hs2).2

end Scrut.Cram

/-! ## the Markdown parser -/
namespace Scrut.Markdown
open Scrut.LineParser

theorem addAll_noExitForm (expOk : Line → Bool) :
    ∀ (code : Numbered) {s s' : LineParser.State Cfg}, NoExitForm s → addAll expOk s code = .ok s' →
      NoExitForm s'
  | [], s, s', h, he => by simp only [addAll] at he; cases he; exact h
  | (i, l) :: rest, s, s', h, he => by
    simp only [addAll] at he
    split at he
    · cases he
    · rename_i s1 ct hs1
      exact addAll_noExitForm expOk rest (h.addBody expOk hs1) he

theorem stepTok_noExitForm (env : Env) {st st' : PState} {tok : Tok} (h : NoExitForm st.lp)
    (he : stepTok env st tok = .ok st') : NoExitForm st'.lp := by
  cases tok with
  | docConfig lines =>
    simp only [stepTok] at he
    split at he
    · cases he; exact h
    · cases he
  | line i l =>
    simp only [stepTok] at he
    split at he
    · cases he; exact h.setTitle _
    · cases he; exact h
  | verbatim start language body =>
    simp only [stepTok] at he
    split at he
    · cases he
    · cases he; exact h
  | test lang configLines comments codeLines =>
    simp only [stepTok] at he
    split at he
    · cases he
    · rename_i cfg hcfg
      split at he
      · cases he
      · rename_i lp hlp
        have h1 : NoExitForm lp := addAll_noExitForm env.expOk codeLines (h.setConfig cfg) hlp
        split at he
        · split at he
          · cases he
          · rename_i lp2 hlp2
            cases he
            exact h1.endTestcase hlp2
        · cases he; exact h1

theorem parseTokens_noExitForm (env : Env) :
    ∀ (toks : List Tok) {st st' : PState}, NoExitForm st.lp → parseTokens env st toks = .ok st' →
      NoExitForm st'.lp
  | [], st, st', h, he => by simp only [parseTokens] at he; cases he; exact h
  | t :: rest, st, st', h, he => by
    simp only [parseTokens] at he
    split at he
    · cases he
    · rename_i st1 hst1
      exact parseTokens_noExitForm env rest (stepTok_noExitForm env h hst1) he

/-- no test of a parsed Markdown document has an expectation of the exit-code form -/
theorem parseLines_noExitForm (env : Env) (lines : List Line) {p : Parsed}
    (he : parseLines env lines = .ok p) :
    ∀ t ∈ p.tests, ∀ e ∈ t.expectations, isExitCodeForm e = false := by
  unfold parseLines at he
  split at he
  · cases he
  · rename_i toks _
    split at he
    · cases he
    · rename_i st hst
      cases he
      exact (parseTokens_noExitForm env toks (NoExitForm.new false) hst).2

end Scrut.Markdown
