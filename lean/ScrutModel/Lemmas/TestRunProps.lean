import ScrutModel.Lemmas.TestRun
import ScrutModel.Lemmas.Crlf
import ScrutModel.Lemmas.DiffC01
import ScrutModel.Lemmas.Markdown
import ScrutModel.Lemmas.Divider
/-!
# Property theorems about the INTEGRATED model `Model/TestRun.lean`

The piece theorems (C01 about `Diff.diff`, C05 / C15 / C20 about `Exec`) are lifted through the
composition `runTests` → `testDocument` → `testDocumentBytes`, for all documents and all runs.

Reading aids (definitions used by the statements in `Props/C01, C05, C15, C20`):

* `selectedStream t r` : the recorded bytes of the stream `TestCase::validate` compares;
* `hitsSkip t r`       : the command of `t` ended with `t`'s skip code;
* `skips tests runs`   : some test of the document did;
* `verdict t r`        : the verdict of a judged test, written without `Exec`;
* `Matched exps lines a` : the assignment `a` of the output lines to the compiled expectations
  witnesses membership in `e1{q1} … en{qn}` (the C01 conclusion on `Rule.matches`).

Structure of the proofs: `execLoop_codes` (the executor loop when every command completes),
`judge_codes` (result mapping without detached outputs), `zipOuts_spec`, then the master
statement `runTests_report`, from which T1 (`runTests_one_result`), T2 (`runTests_ok_sound`,
`runTests_ok_complete`, `runTests_verdict_iff`) and T4 (`runTests_skip_all`, `runTests_verdicts`)
are read off; `accepts_sound` is T3.  Totality (`runTests_total`: the lossy decoder never runs out of
fuel, `render_output` never panics) turns the master statement into the closed form `runTests_eq`.
Lifting: `testDocumentBytes_report_iff` (`DocTests`), `testDocumentBytes_parseError_iff`.
Single-script path: `runScript_report` (T1, all-or-none skip); T2 and T4 in terms of the runs, for
all documents and runs, are in `Lemmas/TestRunScript.lean` (`runScript_ok_sound_full`,
`runScript_skip`), which uses the pieces at the end of this file.  The examples at the end are closed documents evaluated by the kernel
(`decide +kernel`: no axiom beyond the three standard ones, no `native_decide`).
-/
namespace Scrut.Exec

/-- the executor loop when the runner returns, for every test case, a COMPLETED command (status
`code c`), whatever limit it is handed: it ends `skipped` iff some command ended with the skip code
of its test case, and otherwise returns exactly the given outputs, one per test case. -/
theorem execLoop_codes (limit : Option Nat) (runner : Runner) :
    ∀ (tcs : List TC) (os : List Out) (idx now : Nat) (acc : List Out) (limits : List (Option Nat)),
      os.length = tcs.length →
      (∀ j o, os[j]? = some o → (∃ c, o.status = .code c) ∧ ∀ lim, (runner (idx + j) lim).1 = o) →
      ((∃ k, (execLoop limit runner tcs idx now acc limits).1 = .skipped k) ∧
          ∃ (j : Nat) (tc : TC) (o : Out), tcs[j]? = some tc ∧ os[j]? = some o ∧ o.status = .code (skipCodeOf tc)) ∨
      ((execLoop limit runner tcs idx now acc limits).1 = .ok (acc ++ os) ∧
          ∀ (j : Nat) (tc : TC) (o : Out), tcs[j]? = some tc → os[j]? = some o → o.status ≠ .code (skipCodeOf tc)) := by
  intro tcs
  induction tcs with
  | nil =>
    intro os idx now acc limits hlen _
    have : os = [] := List.eq_nil_of_length_eq_zero (by simpa using hlen)
    subst this
    right
    exact ⟨by simp [execLoop], by simp⟩
  | cons tc rest ih =>
    intro os idx now acc limits hlen hr
    cases os with
    | nil => simp at hlen
    | cons o os =>
      obtain ⟨⟨c, hc⟩, hrun⟩ := hr 0 o (by simp)
      have hrun' : ∀ lim, (runner idx lim).1 = o := by simpa using hrun
      rw [execLoop_cons, hrun', hc]
      by_cases hk : c = skipCodeOf tc
      · left
        refine ⟨⟨idx, by simp [hk]⟩, 0, tc, o, by simp, by simp, by rw [hc, hk]⟩
      · simp only [hk, if_false]
        have hlen' : os.length = rest.length := by simpa using hlen
        have hr' : ∀ j o', os[j]? = some o' →
            (∃ c, o'.status = .code c) ∧ ∀ lim, (runner (idx + 1 + j) lim).1 = o' := by
          intro j o' hj
          have := hr (j + 1) o' (by simpa using hj)
          refine ⟨this.1, ?_⟩
          intro lim
          have h2 := this.2 lim
          rwa [show idx + (j + 1) = idx + 1 + j by omega] at h2
        rcases ih os (idx + 1) (startOf limit tc now + (runner idx (limOf limit tc now)).2) (acc ++ [o])
            (limits ++ [limOf limit tc now]) hlen' hr' with ⟨hs, j, tc', o', h1, h2, h3⟩ | ⟨hok, hno⟩
        · left
          exact ⟨hs, j + 1, tc', o', by simpa using h1, by simpa using h2, h3⟩
        · right
          refine ⟨by rw [hok]; simp, ?_⟩
          intro j tc' o' h1 h2
          cases j with
          | zero =>
            simp at h1 h2
            subst h1 h2
            rw [hc]
            intro he
            cases he
            exact hk rfl
          | succ j => exact hno j tc' o' (by simpa using h1) (by simpa using h2)

/-- the result mapping without detached outputs: one outcome per test case, in order -/
theorem judge_codes : ∀ (tcs : List TC) (os : List Out) (k : Nat), os.length = tcs.length →
    (∀ o ∈ os, o.status ≠ .detached) → (judge tcs os k).map (·.1) = List.range' k tcs.length := by
  intro tcs
  induction tcs with
  | nil => intro os k _ _; cases os <;> simp [judge]
  | cons tc rest ih =>
    intro os k hlen hd
    cases os with
    | nil => simp at hlen
    | cons o os =>
      have h0 : o.status ≠ .detached := hd o (by simp)
      have := ih os (k + 1) (by simpa using hlen) (fun o' ho' => hd o' (by simp [ho']))
      simp [judge, h0, this, List.range'_succ]

/-- the exit status of a run over ONE processed document: 50 iff some verdict is a failure, else 0 -/
theorem exitStatus_one (os : List Outcome) :
    exitStatus [some os] = if os.any (fun o => isFailure o.2) then 50 else 0 := by
  cases h : os.any (fun o => isFailure o.2) <;> simp [exitStatus, h]

/-- … spelled out: 50 iff some verdict is a failure, 0 iff none is, never 1 -/
theorem exitStatus_one_spec (os : List Outcome) :
    (exitStatus [some os] = 50 ↔ ∃ o ∈ os, isFailure o.2 = true) ∧
    (exitStatus [some os] = 0 ↔ ∀ o ∈ os, isFailure o.2 = false) ∧
    exitStatus [some os] ≠ 1 := by
  rw [exitStatus_one]
  cases hany : os.any (fun o => isFailure o.2) with
  | true =>
    have hex := List.any_eq_true.1 hany
    refine ⟨⟨fun _ => hex, fun _ => rfl⟩, ⟨fun h0 => by simp at h0, ?_⟩, by simp⟩
    intro hall
    obtain ⟨o, ho, hf⟩ := hex
    rw [hall o ho] at hf
    cases hf
  | false =>
    have hall := List.any_eq_false.1 hany
    refine ⟨⟨fun h50 => by simp at h50, ?_⟩, ⟨fun _ o ho => by simpa using hall o ho, fun _ => rfl⟩, by simp⟩
    rintro ⟨o, ho, hf⟩
    exact absurd hf (hall o ho)

/-- the single-script executor on a script that ended with an exit code: the parsed outputs, one
per test case, or a skipped document -/
theorem execScript_code_cases (tcs : List TC) (c : Int) (outs : List Out) (r : ExecResult)
    (h : execScript tcs (.code c) outs = some r) :
    (r = .ok outs ∧ outs.length = tcs.length) ∨ ∃ i, r = .skipped i := by
  unfold execScript at h
  simp only at h
  split at h
  · cases h; exact Or.inr ⟨0, rfl⟩
  · split at h
    · cases h; exact Or.inr ⟨_, rfl⟩
    · split at h
      · cases h
      · rename_i hl
        cases h
        exact Or.inl ⟨rfl, by simpa using hl⟩

/-- `validate` behind the exit-code gate -/
theorem validate_code_eq (tc : TC) (o : Out) (c : Int) (h : o.status = .code c)
    (hc : c = tc.expected.getD 0) :
    validate tc o = if selected tc o then .ok else .malformed := by
  unfold validate
  simp [h, hc]

end Scrut.Exec

namespace Scrut.TestRun
open Scrut

/-! ## definitions to read the statements -/

/-- the recorded bytes of the stream `TestCase::validate` compares: `stderr` iff
`output_stream: stderr`, else what was recorded as stdout (under `combined`: both) -/
def selectedStream (t : Test) (r : Ran) : Option Bytes :=
  (record t.cfg r).map (fun p => if t.cfg.outputStream = some .stderr then p.2 else p.1)

/-- the command of `t` ended with `t`'s skip code (`skip_document_code`, 80 unless configured) -/
def hitsSkip (t : Test) (r : Ran) : Bool := decide (r.code = t.cfg.skipCode.getD 80)

/-- some test of the document ended with its skip code -/
def skips (tests : List Test) (runs : List Ran) : Bool :=
  (tests.zip runs).any (fun p => hitsSkip p.1 p.2)

/-- the selected stream is accepted by the test's expectations -/
def outputAccepted (t : Test) (r : Ran) : Bool :=
  (selectedStream t r).bind (accepts t.exps) == some true

/-- the verdict on a judged test, spelled out: exit-code gate, then the selected stream -/
def verdict (t : Test) (r : Ran) : Exec.Verdict :=
  if r.code ≠ t.expected.getD 0 then .invalidExit r.code (t.expected.getD 0)
  else if outputAccepted t r then .ok else .malformed

/-- `a[j]` = index of the expectation output line `j` is matched by: every line is matched (no
gaps), in order, by an expectation whose rule matches it; every non-optional expectation receives
at least one line, every non-multiline one at most one -/
structure Matched (exps : List CExp) (lines : List Bytes) (a : List Nat) : Prop where
  total : a.length = lines.length
  inOrder : a.Pairwise (· ≤ ·)
  isMatch : ∀ (j i : Nat) (l : Bytes), a[j]? = some i → lines[j]? = some l →
    ∃ e : CExp, exps[i]? = some e ∧ e.rule.matches l = some true
  atLeast : ∀ (i : Nat) (e : CExp), exps[i]? = some e → e.optional = false → i ∈ a
  atMost : ∀ (i : Nat) (e : CExp), exps[i]? = some e → e.multiline = false → a.count i ≤ 1

/-! ## small facts about the pieces -/

theorem mapM_option_spec {α β : Type} (f : α → Option β) :
    ∀ (l : List α) (l' : List β), l.mapM f = some l' →
      l'.length = l.length ∧ ∀ (i : Nat) (x : α), l[i]? = some x → ∃ y, l'[i]? = some y ∧ f x = some y := by
  intro l
  induction l with
  | nil => intro l' h; simp at h; subst h; simp
  | cons a l ih =>
    intro l' h
    rw [List.mapM_cons] at h
    cases hfa : f a with
    | none => simp [hfa] at h
    | some b =>
      cases hl : l.mapM f with
      | none => simp [hfa, hl] at h
      | some bs =>
        simp [hfa, hl] at h
        subst h
        obtain ⟨h1, h2⟩ := ih bs hl
        refine ⟨by simp [h1], ?_⟩
        intro i x hx
        cases i with
        | zero => simp at hx; subst hx; exact ⟨b, by simp, hfa⟩
        | succ i => simpa using h2 i x (by simpa using hx)

theorem mapM_except_length {ε α β : Type} (f : α → Except ε β) :
    ∀ (l : List α) (l' : List β), l.mapM f = .ok l' → l'.length = l.length := by
  intro l
  induction l with
  | nil => intro l' h; simp [pure, Except.pure] at h; subst h; rfl
  | cons a l ih =>
    intro l' h
    rw [List.mapM_cons] at h
    cases hfa : f a with
    | error e => simp [hfa, bind, Except.bind] at h
    | ok b =>
      cases hl : l.mapM f with
      | error e => simp [hfa, hl, bind, Except.bind] at h
      | ok bs =>
        simp [hfa, hl, bind, Except.bind, pure, Except.pure] at h
        subst h
        simp [ih bs hl]

/-- `SubprocessRunner::run` records something for every completed command: `render_output` cannot
panic (`Crlf.replaceCrlf_eq_spec`) -/
theorem record_some (c : Yaml.Cfg) (r : Ran) : ∃ so se, record c r = some (so, se) := by
  have hr : ∀ raw, ∃ b, render c raw = some b := by
    intro raw
    unfold render
    by_cases hs : c.stripAnsi = some true
    · rw [hs, Crlf.renderOutput_strip]; exact ⟨_, rfl⟩
    · rw [Crlf.renderOutput_no_strip _ _ _ _ hs]; exact ⟨_, rfl⟩
  unfold record
  by_cases hc : c.outputStream = some .combined
  · obtain ⟨o, ho⟩ := hr (r.stdout ++ r.stderr)
    obtain ⟨e, he⟩ := hr []
    exact ⟨o, e, by simp [hc, ho, he]⟩
  · obtain ⟨o, ho⟩ := hr r.stdout
    obtain ⟨e, he⟩ := hr r.stderr
    exact ⟨o, e, by simp [hc, ho, he]⟩

/-- the output of a completed command carries its exit code -/
theorem out_status {t : Test} {r : Ran} {o : Exec.Out} (h : t.out r = .ok o) :
    o.status = .code r.code := by
  unfold Test.out at h
  split at h
  · cases h
  · split at h
    · cases h; rfl
    · cases h

/-- a judged test never makes the composition crash -/
theorem out_ne_crash (t : Test) (r : Ran) : t.out r ≠ .error .crash := by
  obtain ⟨so, se, h⟩ := record_some t.cfg r
  unfold Test.out
  rw [h]
  simp only
  split <;> simp

theorem skipCodeOf_tc (t : Test) (a : Bool) : Exec.skipCodeOf (t.tc a) = t.cfg.skipCode.getD 80 := rfl

theorem hitsSkip_iff (t : Test) (r : Ran) : hitsSkip t r = true ↔ r.code = t.cfg.skipCode.getD 80 := by
  simp [hitsSkip]

theorem skips_iff (tests : List Test) (runs : List Ran) :
    skips tests runs = true ↔
      ∃ (i : Nat) (t : Test) (r : Ran), tests[i]? = some t ∧ runs[i]? = some r ∧ hitsSkip t r = true := by
  unfold skips
  rw [List.any_eq_true]
  constructor
  · rintro ⟨⟨t, r⟩, hm, hp⟩
    obtain ⟨i, hi, he⟩ := List.getElem_of_mem hm
    have hz : (tests.zip runs)[i]? = some (t, r) := by rw [List.getElem?_eq_getElem hi, he]
    rw [List.getElem?_zip_eq_some] at hz
    exact ⟨i, t, r, hz.1, hz.2, hp⟩
  · rintro ⟨i, t, r, h1, h2, h3⟩
    have hz : (tests.zip runs)[i]? = some (t, r) := List.getElem?_zip_eq_some.2 ⟨h1, h2⟩
    exact ⟨(t, r), List.mem_of_getElem? hz, h3⟩

theorem skips_false_iff (tests : List Test) (runs : List Ran) :
    skips tests runs = false ↔
      ∀ (i : Nat) (t : Test) (r : Ran), tests[i]? = some t → runs[i]? = some r → hitsSkip t r = false := by
  constructor
  · intro h i t r h1 h2
    cases hh : hitsSkip t r with
    | false => rfl
    | true =>
      have := (skips_iff tests runs).2 ⟨i, t, r, h1, h2, hh⟩
      rw [h] at this; cases this
  · intro h
    cases hs : skips tests runs with
    | false => rfl
    | true =>
      obtain ⟨i, t, r, h1, h2, h3⟩ := (skips_iff tests runs).1 hs
      rw [h i t r h1 h2] at h3; cases h3

/-- **one test, composed**: the verdict `TestCase::validate` gives on what the runner recorded -/
theorem validate_eq_verdict (t : Test) (r : Ran) (o : Exec.Out) (a : Bool) (h : t.out r = .ok o) :
    Exec.validate (t.tc a) o = verdict t r := by
  have hst := out_status h
  unfold verdict
  by_cases hc : r.code = t.expected.getD 0
  · simp only [hc, ne_eq, not_true_eq_false, if_false]
    have hiff := test_succeeds_iff t r o a h
    by_cases hacc : outputAccepted t r = true
    · rw [if_pos hacc]
      apply hiff.2
      refine ⟨hc, ?_⟩
      unfold outputAccepted selectedStream at hacc
      obtain ⟨so, se, hrec⟩ := record_some t.cfg r
      refine ⟨so, se, hrec, ?_⟩
      simpa [hrec] using hacc
    · rw [if_neg hacc]
      have hne : Exec.validate (t.tc a) o ≠ .ok := by
        intro hok
        apply hacc
        obtain ⟨_, so, se, hrec, hs⟩ := hiff.1 hok
        unfold outputAccepted selectedStream
        simp [hrec, hs]
      have hv := Exec.validate_code_eq (t.tc a) o r.code hst hc
      rw [hv] at hne ⊢
      by_cases hsel : Exec.selected (t.tc a) o = true
      · simp [hsel] at hne
      · simp [hsel]
  · rw [if_pos hc]
    have := Exec.validate_wrong_code (t.tc a) o r.code hst hc
    simpa [Test.tc] using this

/-- `zipOuts` pairs test `i` with run `i` -/
theorem zipOuts_spec : ∀ (tests : List Test) (runs : List Ran) (outs : List Exec.Out),
    tests.length ≤ runs.length → zipOuts tests runs = .ok outs →
    outs.length = tests.length ∧
    ∀ (i : Nat) (t : Test) (r : Ran), tests[i]? = some t → runs[i]? = some r →
      ∃ o, outs[i]? = some o ∧ t.out r = .ok o := by
  intro tests
  induction tests with
  | nil => intro runs outs _ h; simp [zipOuts] at h; subst h; simp
  | cons t ts ih =>
    intro runs outs hlen h
    cases runs with
    | nil => simp at hlen
    | cons r rs =>
      unfold zipOuts at h
      cases ho : t.out r with
      | error e => simp [ho] at h
      | ok o =>
        cases hz : zipOuts ts rs with
        | error e => simp [ho, hz] at h
        | ok os =>
          simp [ho, hz] at h
          subst h
          obtain ⟨h1, h2⟩ := ih rs os (by simpa using hlen) hz
          refine ⟨by simp [h1], ?_⟩
          intro i t' r' ht hr
          cases i with
          | zero => simp at ht hr; subst ht hr; exact ⟨o, by simp, ho⟩
          | succ i => simpa using h2 i t' r' (by simpa using ht) (by simpa using hr)

/-- `zipOuts` fails only as unsupported (a cell of a match matrix outside the model) -/
theorem zipOuts_ne_crash : ∀ (tests : List Test) (runs : List Ran), zipOuts tests runs ≠ .error .crash := by
  intro tests
  induction tests with
  | nil => intro runs; simp [zipOuts]
  | cons t ts ih =>
    intro runs
    cases runs with
    | nil => simp [zipOuts]
    | cons r rs =>
      unfold zipOuts
      have h1 := out_ne_crash t r
      have h2 := ih rs
      cases ho : t.out r with
      | error e =>
        cases e with
        | crash => exact absurd ho h1
        | unsupported => simp
      | ok o =>
        cases hz : zipOuts ts rs with
        | error e =>
          cases e with
          | crash => exact absurd hz h2
          | unsupported => simp
        | ok os => simp

/-! ## the composition is total: no cell of a match matrix is outside the model -/

/-- a chunk of the lossy decoder leaves a suffix that is not longer than what it was given -/
theorem lossyStep_length (b0 : UInt8) (r0 : Bytes) : (lossyStep b0 r0).2.length ≤ r0.length := by
  unfold lossyStep
  simp only
  repeat' split
  all_goals simp only [List.length_cons]
  all_goals omega

theorem lossyLoop_some : ∀ (fuel : Nat) (bs : Bytes), bs.length ≤ fuel → ∃ cs, lossyLoop fuel bs = some cs := by
  intro fuel
  induction fuel with
  | zero =>
    intro bs h
    have : bs = [] := List.eq_nil_of_length_eq_zero (by omega)
    subst this
    exact ⟨[], rfl⟩
  | succ fuel ih =>
    intro bs h
    cases bs with
    | nil => exact ⟨[], rfl⟩
    | cons b0 r0 =>
      have hl := lossyStep_length b0 r0
      obtain ⟨cs, hcs⟩ := ih (lossyStep b0 r0).2 (by simp at h; omega)
      refine ⟨(lossyStep b0 r0).1 :: cs, ?_⟩
      simp only [lossyLoop]
      rw [hcs]
      rfl

/-- `String::from_utf8_lossy` never runs out of fuel -/
theorem fromUtf8Lossy_some (bs : Bytes) : ∃ cs, fromUtf8Lossy bs = some cs :=
  lossyLoop_some bs.length bs (Nat.le_refl _)

/-- every rule decides every line -/
theorem matches_some (r : Rule) (line : Bytes) : ∃ b, r.matches line = some b := by
  cases r with
  | equal e => exact ⟨_, rfl⟩
  | noEol e => exact ⟨_, rfl⟩
  | escaped b => exact ⟨_, rfl⟩
  | glob p =>
    obtain ⟨cs, h⟩ := fromUtf8Lossy_some line
    exact ⟨Glob.globRuleMatches p cs, by simp [Rule.matches, h]⟩
  | cramGlob p =>
    cases hd : Utf8.utf8Decode line with
    | none => exact ⟨false, by simp [Rule.matches, hd]⟩
    | some cs => exact ⟨Glob.cramRuleMatches p cs, by simp [Rule.matches, hd]⟩

theorem mapM_option_total {α β : Type} (f : α → Option β) (hf : ∀ x, ∃ y, f x = some y) :
    ∀ l : List α, ∃ l', l.mapM f = some l' := by
  intro l
  induction l with
  | nil => exact ⟨[], by simp⟩
  | cons a l ih =>
    obtain ⟨b, hb⟩ := hf a
    obtain ⟨bs, hbs⟩ := ih
    exact ⟨b :: bs, by rw [List.mapM_cons, hb, hbs]; rfl⟩

/-- the expectations of a test decide every stream -/
theorem accepts_some (exps : List CExp) (stream : Bytes) : ∃ b, accepts exps stream = some b := by
  unfold accepts diffOf matrix
  obtain ⟨tbl, h⟩ := mapM_option_total
    (fun e : CExp => (Newline.splitAtNewline stream).mapM (fun l => e.rule.matches l))
    (fun e => mapM_option_total _ (fun l => matches_some e.rule l) _) exps
  exact ⟨_, by simp only [h]; rfl⟩

theorem out_ok (t : Test) (r : Ran) : ∃ o, t.out r = .ok o := by
  obtain ⟨so, se, h⟩ := record_some t.cfg r
  obtain ⟨ao, hao⟩ := accepts_some t.exps so
  obtain ⟨ae, hae⟩ := accepts_some t.exps se
  exact ⟨⟨.code r.code, ao, ae⟩, by simp [Test.out, h, hao, hae]⟩

theorem zipOuts_ok : ∀ (tests : List Test) (runs : List Ran), ∃ outs, zipOuts tests runs = .ok outs := by
  intro tests
  induction tests with
  | nil => intro runs; exact ⟨[], by simp [zipOuts]⟩
  | cons t ts ih =>
    intro runs
    cases runs with
    | nil => exact ⟨[], by simp [zipOuts]⟩
    | cons r rs =>
      obtain ⟨o, ho⟩ := out_ok t r
      obtain ⟨os, hos⟩ := ih rs
      exact ⟨o :: os, by simp [zipOuts, ho, hos]⟩

/-- **`runTests` is total on the prepared tests**: given a run for every test it reports; it never
crashes, never answers `unsupported` -/
theorem runTests_total (tests : List Test) (runs : List Ran) (h : tests.length ≤ runs.length) :
    ∃ outcomes status, runTests tests runs = .report outcomes status := by
  obtain ⟨outs, ho⟩ := zipOuts_ok tests runs
  obtain ⟨tcs, htc⟩ := mapM_option_total (fun t : Test => (accepts t.exps []).map t.tc)
    (fun t => by obtain ⟨b, hb⟩ := accepts_some t.exps []; exact ⟨t.tc b, by simp [hb]⟩) tests
  unfold runTests
  rw [if_neg (by omega), ho, htc]
  exact ⟨_, _, rfl⟩

/-! ## `runTests`: inversion, pairing, master statement -/

/-- the runner `runTests` hands to the executor: the completed run of test `i`, no time passes -/
def runnerOf (outs : List Exec.Out) : Exec.Runner := fun i _ =>
  match outs.toArray[i]? with
  | some o => (o, 0)
  | none => (⟨.unknown, false, false⟩, 0)

/-- a report comes from exactly one path through `runTests` -/
theorem runTests_report_inv {tests : List Test} {runs : List Ran} {outcomes : List Exec.Outcome}
    {status : Nat} (h : runTests tests runs = .report outcomes status) :
    tests.length ≤ runs.length ∧ ∃ outs tcs, zipOuts tests runs = .ok outs ∧
      tests.mapM (fun t => (accepts t.exps []).map t.tc) = some tcs ∧
      outcomes = Exec.runDocument tcs (Exec.execAll none (runnerOf outs) tcs).1 ∧
      status = Exec.exitStatus [some outcomes] := by
  unfold runTests at h
  split at h
  · cases h
  · rename_i hlen
    split at h
    · cases h
    · cases h
    · cases h
    · rename_i outs tcs hz hm
      simp only [Result.report.injEq] at h
      obtain ⟨h1, h2⟩ := h
      refine ⟨Nat.le_of_not_lt hlen, outs, tcs, hz, hm, h1.symm, ?_⟩
      rw [← h2, ← h1]

/-- test `i`, run `i`, output `i` and `Exec` test case `i` belong together -/
theorem paired {tests : List Test} {runs : List Ran} {outs : List Exec.Out} {tcs : List Exec.TC}
    (hlen : tests.length ≤ runs.length) (hz : zipOuts tests runs = .ok outs)
    (hm : tests.mapM (fun t => (accepts t.exps []).map t.tc) = some tcs) :
    outs.length = tests.length ∧ tcs.length = tests.length ∧
    ∀ i, i < tests.length → ∃ (t : Test) (r : Ran) (o : Exec.Out) (a : Bool),
      tests[i]? = some t ∧ runs[i]? = some r ∧ outs[i]? = some o ∧ tcs[i]? = some (t.tc a) ∧
        t.out r = .ok o := by
  obtain ⟨ho1, ho2⟩ := zipOuts_spec tests runs outs hlen hz
  obtain ⟨ht1, ht2⟩ := mapM_option_spec _ tests tcs hm
  refine ⟨ho1, ht1, ?_⟩
  intro i hi
  have hti : tests[i]? = some tests[i] := List.getElem?_eq_getElem hi
  have hri : runs[i]? = some (runs[i]'(by omega)) := List.getElem?_eq_getElem (by omega)
  obtain ⟨o, hoi, hout⟩ := ho2 i _ _ hti hri
  obtain ⟨tc, htc, hmap⟩ := ht2 i _ hti
  cases ha : accepts tests[i].exps [] with
  | none => simp [ha] at hmap
  | some a =>
    simp [ha] at hmap
    exact ⟨tests[i], runs[i]'(by omega), o, a, hti, hri, hoi, by rw [htc, hmap], hout⟩

/-- **master statement about `runTests`**: a report exists only when every test has a run; its
exit status is that of one processed document; and EITHER some test ended with its skip code and
every test is reported `skipped`, OR none did and the outcomes are, in document order, one per
test, the verdict `verdict tests[i] runs[i]`. -/
theorem runTests_report {tests : List Test} {runs : List Ran} {outcomes : List Exec.Outcome}
    {status : Nat} (h : runTests tests runs = .report outcomes status) :
    tests.length ≤ runs.length ∧
    status = (if outcomes.any (fun o => Exec.isFailure o.2) then 50 else 0) ∧
    ((skips tests runs = true ∧
        outcomes = (List.range tests.length).map (fun i => (i, Exec.Verdict.skipped))) ∨
     (skips tests runs = false ∧ outcomes.map (·.1) = List.range tests.length ∧
        ∀ (i : Nat) (v : Exec.Verdict), (i, v) ∈ outcomes ↔
          ∃ (t : Test) (r : Ran), tests[i]? = some t ∧ runs[i]? = some r ∧ v = verdict t r)) := by
  obtain ⟨hlen, outs, tcs, hz, hm, hout, hst⟩ := runTests_report_inv h
  obtain ⟨hol, htl, hp⟩ := paired hlen hz hm
  refine ⟨hlen, by rw [hst, Exec.exitStatus_one], ?_⟩
  have hrun : ∀ (j : Nat) (o : Exec.Out), outs[j]? = some o →
      (∃ c, o.status = .code c) ∧ ∀ lim, (runnerOf outs (0 + j) lim).1 = o := by
    intro j o hj
    have hjl : j < tests.length := by
      have := (List.getElem?_eq_some_iff.1 hj).1
      omega
    obtain ⟨t, r, o', a, _, _, ho', _, hout'⟩ := hp j hjl
    rw [hj] at ho'
    cases ho'
    refine ⟨⟨r.code, out_status hout'⟩, ?_⟩
    intro lim
    simp [runnerOf, hj]
  rcases Exec.execLoop_codes (Exec.totalLimit none) (runnerOf outs) tcs outs 0 0 [] []
      (by omega) hrun with ⟨⟨k, hk⟩, j, tc, o, h1, h2, h3⟩ | ⟨hok, hno⟩
  · left
    have hk' : (Exec.execAll none (runnerOf outs) tcs).1 = .skipped k := hk
    rw [hk', Exec.runDocument_skipped, htl] at hout
    refine ⟨?_, hout⟩
    have hjl : j < tests.length := by
      have := (List.getElem?_eq_some_iff.1 h1).1
      omega
    obtain ⟨t, r, o', a, ht, hr, ho', htc', hout'⟩ := hp j hjl
    rw [h2] at ho'
    cases ho'
    rw [h1] at htc'
    cases htc'
    rw [out_status hout', skipCodeOf_tc] at h3
    exact (skips_iff tests runs).2 ⟨j, t, r, ht, hr, (hitsSkip_iff t r).2 (Exec.Status.code.inj h3)⟩
  · right
    have hok' : (Exec.execAll none (runnerOf outs) tcs).1 = .ok outs := by
      rw [List.nil_append] at hok; exact hok
    rw [hok', Exec.runDocument_ok] at hout
    have hnd : ∀ o ∈ outs, o.status ≠ .detached := by
      intro o ho
      obtain ⟨j, hj, he⟩ := List.getElem_of_mem ho
      obtain ⟨⟨c, hc⟩, _⟩ := hrun j o (by rw [List.getElem?_eq_getElem hj, he])
      rw [hc]
      simp
    refine ⟨?_, ?_, ?_⟩
    · rw [skips_false_iff]
      intro i t r ht hr
      have hil : i < tests.length := (List.getElem?_eq_some_iff.1 ht).1
      obtain ⟨t', r', o, a, ht', hr', ho, htc, hout'⟩ := hp i hil
      rw [ht] at ht'
      rw [hr] at hr'
      cases ht'
      cases hr'
      have := hno i _ o htc ho
      rw [out_status hout', skipCodeOf_tc] at this
      cases hh : hitsSkip t r with
      | false => rfl
      | true =>
        exfalso
        apply this
        rw [(hitsSkip_iff t r).1 hh]
    · rw [hout, Exec.judge_codes tcs outs 0 (by omega) hnd, htl, List.range_eq_range']
    · intro i v
      rw [hout, Exec.mem_judge_zero]
      constructor
      · rintro ⟨tc, o, h1, h2, _, h4⟩
        have hil : i < tests.length := by
          have := (List.getElem?_eq_some_iff.1 h1).1
          omega
        obtain ⟨t, r, o', a, ht, hr, ho', htc', hout'⟩ := hp i hil
        rw [h2] at ho'
        cases ho'
        rw [h1] at htc'
        cases htc'
        exact ⟨t, r, ht, hr, by rw [h4, validate_eq_verdict t r o a hout']⟩
      · rintro ⟨t, r, ht, hr, hv⟩
        have hil : i < tests.length := (List.getElem?_eq_some_iff.1 ht).1
        obtain ⟨t', r', o, a, ht', hr', ho, htc, hout'⟩ := hp i hil
        rw [ht] at ht'
        rw [hr] at hr'
        cases ht'
        cases hr'
        refine ⟨_, o, htc, ho, hnd o (List.mem_of_getElem? ho), ?_⟩
        rw [hv, validate_eq_verdict t r o a hout']

/-! ## T3: `accepts` through the matcher (C01 on the compiled expectations) -/

/-- a cell of the match matrix is `Rule.matches` of that expectation on that line -/
theorem matrix_cell {exps : List CExp} {lines : List Bytes} {tbl : List (List Bool)}
    (h : matrix exps lines = some tbl) (i j : Nat) (e : CExp) (l : Bytes)
    (he : exps[i]? = some e) (hl : lines[j]? = some l) :
    e.rule.matches l = some (cell tbl i j) := by
  obtain ⟨_, h2⟩ := mapM_option_spec _ exps tbl h
  obtain ⟨row, hrow, hm⟩ := h2 i e he
  obtain ⟨_, h3⟩ := mapM_option_spec _ lines row hm
  obtain ⟨y, hy, hmy⟩ := h3 j l hl
  rw [hmy]
  simp [cell, hrow, hy]

/-- **no false pass, composed**: if the expectations accept the stream, the lines of the stream
(`split_at_newline`) are assigned to the compiled expectations without gaps, in order, each line
to an expectation whose RULE matches it, and the quantifiers are respected. -/
theorem accepts_sound {exps : List CExp} {stream : Bytes} (h : accepts exps stream = some true) :
    ∃ a, Matched exps (Newline.splitAtNewline stream) a := by
  obtain ⟨d, hd, hdiff⟩ := (accepts_true_iff exps stream).1 h
  unfold diffOf at hd
  simp only at hd
  cases hm : matrix exps (Newline.splitAtNewline stream) with
  | none => simp [hm] at hd
  | some tbl =>
    simp only [hm, Option.map_some, Option.some.injEq] at hd
    subst hd
    obtain ⟨a, ha⟩ := Diff.C01_no_false_pass _ _ _ _ hdiff
    refine ⟨a, ha.total, ha.inOrder, ?_, ?_, ?_⟩
    · intro j i l hj hl
      obtain ⟨hjl, hji⟩ := List.getElem?_eq_some_iff.1 hj
      have hin : i < exps.length := ha.inRange i (by rw [← hji]; exact List.getElem_mem hjl)
      have hcell := ha.isMatch j hjl
      rw [hji] at hcell
      refine ⟨exps[i], List.getElem?_eq_getElem hin, ?_⟩
      rw [matrix_cell hm i j exps[i] l (List.getElem?_eq_getElem hin) hl, hcell]
    · intro i e he hopt
      have hin : i < exps.length := (List.getElem?_eq_some_iff.1 he).1
      exact ha.atLeast i hin (by simp [quant, he, hopt])
    · intro i e he hmul
      have hin : i < exps.length := (List.getElem?_eq_some_iff.1 he).1
      exact ha.atMost i hin (by simp [quant, he, hmul])

/-! ## reading the master statement: T1, T2, T4 for `runTests` -/

theorem verdict_ok_iff (t : Test) (r : Ran) :
    verdict t r = .ok ↔
      r.code = t.expected.getD 0 ∧
        ∃ s, selectedStream t r = some s ∧ accepts t.exps s = some true := by
  unfold verdict outputAccepted
  by_cases hc : r.code = t.expected.getD 0
  · cases hs : selectedStream t r with
    | none => simp [hc]
    | some s =>
      cases ha : accepts t.exps s with
      | none => simp [hc, ha]
      | some b => cases b <;> simp [hc, ha]
  · simp [hc]

/-- the verdicts of judged completed commands: success, wrong exit code, wrong output -/
theorem verdict_kinds (t : Test) (r : Ran) :
    verdict t r = .ok ∨ verdict t r = .invalidExit r.code (t.expected.getD 0) ∨
      verdict t r = .malformed := by
  unfold verdict
  by_cases hc : r.code = t.expected.getD 0
  · by_cases ha : outputAccepted t r = true <;> simp [hc, ha]
  · simp [hc]

theorem verdict_ne_skipped (t : Test) (r : Ran) : verdict t r ≠ .skipped := by
  rcases verdict_kinds t r with h | h | h <;> rw [h] <;> simp

theorem not_failure_skipped_list (n : Nat) :
    ((List.range n).map (fun i => (i, Exec.Verdict.skipped))).any (fun o => Exec.isFailure o.2) = false := by
  rw [List.any_eq_false]
  intro o ho
  obtain ⟨j, _, rfl⟩ := List.mem_map.1 ho
  simp [Exec.isFailure]

/-- **T1 for `runTests`**: every test case gets exactly one result, in document order; the exit
status is 50 iff some verdict is a failure, 0 otherwise, never 1. -/
theorem runTests_one_result {tests : List Test} {runs : List Ran} {outcomes : List Exec.Outcome}
    {status : Nat} (h : runTests tests runs = .report outcomes status) :
    outcomes.map (·.1) = List.range tests.length ∧
    (status = 50 ↔ ∃ o ∈ outcomes, Exec.isFailure o.2 = true) ∧
    (status = 0 ↔ ∀ o ∈ outcomes, Exec.isFailure o.2 = false) ∧
    status ≠ 1 := by
  obtain ⟨_, hst, hcases⟩ := runTests_report h
  refine ⟨?_, ?_⟩
  · rcases hcases with ⟨_, ho⟩ | ⟨_, ho, _⟩
    · rw [ho, List.map_map]
      have : ((fun (x : Exec.Outcome) => x.1) ∘ fun j => (j, Exec.Verdict.skipped)) = id := rfl
      rw [this, List.map_id]
    · exact ho
  · cases hany : outcomes.any (fun o => Exec.isFailure o.2) with
    | true =>
      rw [hany] at hst
      simp only [if_true] at hst
      have hex := List.any_eq_true.1 hany
      refine ⟨⟨fun _ => hex, fun _ => hst⟩, ⟨?_, ?_⟩, by omega⟩
      · intro h0; omega
      · intro hall
        obtain ⟨o, ho, hf⟩ := hex
        rw [hall o ho] at hf
        cases hf
    | false =>
      rw [hany] at hst
      simp only [Bool.false_eq_true, if_false] at hst
      have hall := List.any_eq_false.1 hany
      refine ⟨⟨fun h50 => by omega, ?_⟩ , ⟨fun _ o ho => by simpa using hall o ho, fun _ => hst⟩, by omega⟩
      rintro ⟨o, ho, hf⟩
      exact absurd hf (hall o ho)

/-- which results `runTests` has: `missingRun` when fewer runs than tests are given, a report
otherwise -- no parse error, no crash, no executor error, never `unsupported` -/
theorem runTests_kinds (tests : List Test) (runs : List Ran) :
    (runs.length < tests.length → runTests tests runs = .missingRun) ∧
    (tests.length ≤ runs.length → ∃ outcomes status, runTests tests runs = .report outcomes status) := by
  refine ⟨?_, runTests_total tests runs⟩
  intro h
  unfold runTests
  rw [if_pos h]

/-- the outcomes `scrut test` reports for a document, spelled out -/
def expectedOutcomes (tests : List Test) (runs : List Ran) : List Exec.Outcome :=
  if skips tests runs then (List.range tests.length).map (fun i => (i, Exec.Verdict.skipped))
  else (tests.zip runs).mapIdx (fun i p => (i, verdict p.1 p.2))

/-- **`runTests` in closed form**: given a run for every test, the report is `expectedOutcomes`
with the exit status of its verdicts -/
theorem runTests_eq (tests : List Test) (runs : List Ran) (hlen : tests.length ≤ runs.length) :
    runTests tests runs = .report (expectedOutcomes tests runs)
      (if (expectedOutcomes tests runs).any (fun o => Exec.isFailure o.2) then 50 else 0) := by
  obtain ⟨outcomes, status, h⟩ := runTests_total tests runs hlen
  obtain ⟨_, hst, hcases⟩ := runTests_report h
  have ho : outcomes = expectedOutcomes tests runs := by
    unfold expectedOutcomes
    rcases hcases with ⟨hs, ho⟩ | ⟨hs, hfst, hmem⟩
    · rw [hs, if_pos rfl, ho]
    · rw [hs]
      simp only [Bool.false_eq_true, if_false]
      have hol : outcomes.length = tests.length := by
        have := congrArg List.length hfst
        simpa using this
      apply List.ext_getElem?
      intro i
      rw [List.getElem?_mapIdx]
      by_cases hi : i < tests.length
      · have hio : i < outcomes.length := by omega
        have h1 : (outcomes.map (·.1))[i]? = some i := by rw [hfst, List.getElem?_range hi]
        rw [List.getElem?_map, List.getElem?_eq_getElem hio] at h1
        simp only [Option.map_some, Option.some.injEq] at h1
        have hmemi : (i, outcomes[i].2) ∈ outcomes := by
          have : outcomes[i] = (i, outcomes[i].2) := Prod.ext h1 rfl
          rw [← this]
          exact List.getElem_mem hio
        obtain ⟨t, r, ht, hr, hv⟩ := (hmem i _).1 hmemi
        have hz : (tests.zip runs)[i]? = some (t, r) := List.getElem?_zip_eq_some.2 ⟨ht, hr⟩
        rw [List.getElem?_eq_getElem hio, hz]
        simp only [Option.map_some, Option.some.injEq]
        rw [← hv]
        exact Prod.ext h1 rfl
      · have h1 : outcomes[i]? = none := List.getElem?_eq_none (by omega)
        have h2 : (tests.zip runs)[i]? = none :=
          List.getElem?_eq_none (by rw [List.length_zip]; omega)
        rw [h1, h2]
        rfl
  rw [h, hst, ho]

/-- **the verdict of every test** of a reported document in which no test ended with its skip
code: `(i, v)` is reported iff `v` is the verdict on test `i` and run `i` -/
theorem runTests_verdict_iff {tests : List Test} {runs : List Ran} {outcomes : List Exec.Outcome}
    {status : Nat} (h : runTests tests runs = .report outcomes status)
    (hs : skips tests runs = false) (i : Nat) (v : Exec.Verdict) :
    (i, v) ∈ outcomes ↔
      ∃ (t : Test) (r : Ran), tests[i]? = some t ∧ runs[i]? = some r ∧ v = verdict t r := by
  obtain ⟨_, _, hcases⟩ := runTests_report h
  rcases hcases with ⟨hs', _⟩ | ⟨_, _, hmem⟩
  · rw [hs] at hs'; cases hs'
  · exact hmem i v

/-- **T2 for `runTests`** (no false success): a test reported `success` has a run that ended with
the expected exit code (0 if none is written) and whose selected stream is accepted by the test's
expectations; and no test of the document ended with its skip code. -/
theorem runTests_ok_sound {tests : List Test} {runs : List Ran} {outcomes : List Exec.Outcome}
    {status i : Nat} (h : runTests tests runs = .report outcomes status)
    (hi : (i, Exec.Verdict.ok) ∈ outcomes) :
    ∃ (t : Test) (r : Ran), tests[i]? = some t ∧ runs[i]? = some r ∧
      r.code = t.expected.getD 0 ∧
      (∃ s, selectedStream t r = some s ∧ accepts t.exps s = some true) ∧
      skips tests runs = false := by
  obtain ⟨_, _, hcases⟩ := runTests_report h
  rcases hcases with ⟨_, ho⟩ | ⟨hs, _, hmem⟩
  · rw [ho] at hi
    obtain ⟨j, _, he⟩ := List.mem_map.1 hi
    cases he
  · obtain ⟨t, r, ht, hr, hv⟩ := (hmem i .ok).1 hi
    obtain ⟨hc, hacc⟩ := (verdict_ok_iff t r).1 hv.symm
    exact ⟨t, r, ht, hr, hc, hacc, hs⟩

/-- **T2, converse**: in a reported document in which no test ended with its skip code, a test
whose run ended with the expected exit code and whose selected stream is accepted is reported
`success` -/
theorem runTests_ok_complete {tests : List Test} {runs : List Ran} {outcomes : List Exec.Outcome}
    {status i : Nat} {t : Test} {r : Ran} (h : runTests tests runs = .report outcomes status)
    (hs : skips tests runs = false) (ht : tests[i]? = some t) (hr : runs[i]? = some r)
    (hc : r.code = t.expected.getD 0)
    (hacc : ∃ s, selectedStream t r = some s ∧ accepts t.exps s = some true) :
    (i, Exec.Verdict.ok) ∈ outcomes := by
  obtain ⟨_, _, hcases⟩ := runTests_report h
  rcases hcases with ⟨hs', _⟩ | ⟨_, _, hmem⟩
  · rw [hs] at hs'; cases hs'
  · exact (hmem i .ok).2 ⟨t, r, ht, hr, ((verdict_ok_iff t r).2 ⟨hc, hacc⟩).symm⟩

/-- **T2 + T3 for `runTests`**: behind a reported `success` there is an assignment of the lines of
the selected stream to the test's compiled expectations -/
theorem runTests_ok_matched {tests : List Test} {runs : List Ran} {outcomes : List Exec.Outcome}
    {status i : Nat} (h : runTests tests runs = .report outcomes status)
    (hi : (i, Exec.Verdict.ok) ∈ outcomes) :
    ∃ (t : Test) (r : Ran) (s : Bytes) (a : List Nat), tests[i]? = some t ∧ runs[i]? = some r ∧
      r.code = t.expected.getD 0 ∧ selectedStream t r = some s ∧
      Matched t.exps (Newline.splitAtNewline s) a := by
  obtain ⟨t, r, ht, hr, hc, ⟨s, hs, hacc⟩, _⟩ := runTests_ok_sound h hi
  obtain ⟨a, ha⟩ := accepts_sound hacc
  exact ⟨t, r, s, a, ht, hr, hc, hs, ha⟩

/-- **T4 for `runTests`** (skip): if some test's command ended with that test's skip code, every
test of the document is reported `skipped` and the exit status is 0 -/
theorem runTests_skip_all {tests : List Test} {runs : List Ran} {outcomes : List Exec.Outcome}
    {status : Nat} (h : runTests tests runs = .report outcomes status)
    (hs : skips tests runs = true) :
    outcomes = (List.range tests.length).map (fun i => (i, Exec.Verdict.skipped)) ∧ status = 0 := by
  obtain ⟨_, hst, hcases⟩ := runTests_report h
  rcases hcases with ⟨_, ho⟩ | ⟨hs', _⟩
  · refine ⟨ho, ?_⟩
    rw [hst, ho, not_failure_skipped_list]
    rfl
  · rw [hs] at hs'; cases hs'

/-- **T4 for `runTests`** (nothing else skips): a test is reported `skipped` only if some test of
the document ended with its skip code; all other verdicts are `success`, wrong exit code or wrong
output -- a completed command is never reported as timed out or as an internal error -/
theorem runTests_verdicts {tests : List Test} {runs : List Ran} {outcomes : List Exec.Outcome}
    {status : Nat} (h : runTests tests runs = .report outcomes status) :
    (∀ i, (i, Exec.Verdict.skipped) ∈ outcomes ↔ (i < tests.length ∧ skips tests runs = true)) ∧
    (∀ o ∈ outcomes, o.2 = .ok ∨ o.2 = .malformed ∨ o.2 = .skipped ∨ ∃ c e, o.2 = .invalidExit c e) := by
  obtain ⟨_, _, hcases⟩ := runTests_report h
  rcases hcases with ⟨hs, ho⟩ | ⟨hs, _, hmem⟩
  · subst ho
    constructor
    · intro i
      simp [hs]
    · intro o ho
      obtain ⟨j, _, rfl⟩ := List.mem_map.1 ho
      simp
  · constructor
    · intro i
      rw [hmem, hs]
      constructor
      · rintro ⟨t, r, _, _, hv⟩
        exact absurd hv.symm (verdict_ne_skipped t r)
      · rintro ⟨_, hf⟩; cases hf
    · rintro ⟨i, v⟩ ho
      obtain ⟨t, r, _, _, hv⟩ := (hmem i v).1 ho
      subst hv
      rcases verdict_kinds t r with hk | hk | hk
      · exact Or.inl hk
      · exact Or.inr (Or.inr (Or.inr ⟨_, _, hk⟩))
      · exact Or.inr (Or.inl hk)

/-! ## lifting to `testDocument` / `testDocumentBytes` -/

/-- `read_file` cannot panic (`Crlf.replaceCrlf_eq_spec`) -/
theorem readFile_ne_crash (bytes : Bytes) : readFile bytes ≠ .error .crash := by
  unfold readFile
  rw [Crlf.replaceCrlf_eq_spec]
  simp only
  split <;> simp

/-- a report on a document comes from its parsed, prepared tests -/
theorem testDocument_report_inv {text : List Char} {runs : List Ran} {outcomes : List Exec.Outcome}
    {status : Nat} (h : testDocument text runs = .report outcomes status) :
    ∃ p tests, Markdown.parseMarkdown parseEnv text = .ok p ∧
      p.docConfigs.all frontMatterHarmless = true ∧ p.tests.mapM prepare = .ok tests ∧
      tests.length = p.tests.length ∧ runTests tests runs = .report outcomes status := by
  unfold testDocument at h
  split at h
  · cases h
  · cases h
  · rename_i p hp
    by_cases hf : p.docConfigs.all frontMatterHarmless = true
    · simp only [hf, Bool.not_true, Bool.false_eq_true, if_false] at h
      split at h
      · cases h
      · cases h
      · rename_i tests hm
        exact ⟨p, tests, hp, hf, hm, mapM_except_length _ _ _ hm, h⟩
    · simp [hf] at h

theorem testDocumentBytes_report_inv {bytes : Bytes} {runs : List Ran}
    {outcomes : List Exec.Outcome} {status : Nat}
    (h : testDocumentBytes bytes runs = .report outcomes status) :
    ∃ text p tests, readFile bytes = .ok text ∧ Markdown.parseMarkdown parseEnv text = .ok p ∧
      p.docConfigs.all frontMatterHarmless = true ∧ p.tests.mapM prepare = .ok tests ∧
      tests.length = p.tests.length ∧ runTests tests runs = .report outcomes status := by
  unfold testDocumentBytes at h
  split at h
  · cases h
  · cases h
  · rename_i text ht
    obtain ⟨p, tests, h1, h2, h3, h4, h5⟩ := testDocument_report_inv h
    exact ⟨text, p, tests, ht, h1, h2, h3, h4, h5⟩

/-- the other direction: on the report path `testDocumentBytes` IS `runTests` -/
theorem testDocumentBytes_eq_runTests {bytes : Bytes} {runs : List Ran} {text : List Char}
    {p : Markdown.Parsed} {tests : List Test} (h1 : readFile bytes = .ok text)
    (h2 : Markdown.parseMarkdown parseEnv text = .ok p)
    (h3 : p.docConfigs.all frontMatterHarmless = true) (h4 : p.tests.mapM prepare = .ok tests) :
    testDocumentBytes bytes runs = runTests tests runs := by
  unfold testDocumentBytes testDocument
  simp [h1, h2, h3, h4]

/-- **which result on which path**: the result is `parseError` (exit status 1, nothing reported)
exactly when the bytes are not UTF-8 (after CR LF → LF) or the Markdown parser rejects the text -/
theorem testDocumentBytes_parseError_iff (bytes : Bytes) (runs : List Ran) :
    testDocumentBytes bytes runs = .parseError ↔
      readFile bytes = .error .notUtf8 ∨
      ∃ text e, readFile bytes = .ok text ∧ Markdown.parseMarkdown parseEnv text = .error e := by
  unfold testDocumentBytes
  cases hr : readFile bytes with
  | error e =>
    cases e with
    | crash => exact absurd hr (readFile_ne_crash bytes)
    | notUtf8 => simp
  | ok text =>
    simp only [reduceCtorEq, false_or, Except.ok.injEq, exists_and_left, exists_eq_left']
    unfold testDocument
    cases hp : Markdown.parseMarkdown parseEnv text with
    | error e =>
      cases e with
      | crash => exact absurd hp (Markdown.parseLines_ne_crash _ _)
      | _ => simp
    | ok p =>
      simp only [reduceCtorEq, exists_false, iff_false]
      by_cases hf : p.docConfigs.all frontMatterHarmless = true
      · simp only [hf, Bool.not_true, Bool.false_eq_true, if_false]
        split
        · simp
        · simp
        · rename_i tests _
          by_cases hl : tests.length ≤ runs.length
          · obtain ⟨o, s, hk⟩ := runTests_total tests runs hl
            rw [hk]; simp
          · rw [(runTests_kinds tests runs).1 (by omega)]; simp
      · simp [hf]

/-- `tests` are the prepared test cases of the document `bytes`: it can be read, parsed, its
front-matter is of the recognised harmless shape, and every test case is inside the composition -/
def DocTests (bytes : Bytes) (tests : List Test) : Prop :=
  ∃ text p, readFile bytes = .ok text ∧ Markdown.parseMarkdown parseEnv text = .ok p ∧
    p.docConfigs.all frontMatterHarmless = true ∧ p.tests.mapM prepare = .ok tests

/-- **the lifting**: `scrut test` on the bytes of a document reports exactly what `runTests`
reports on the document's prepared tests -/
theorem testDocumentBytes_report_iff (bytes : Bytes) (runs : List Ran)
    (outcomes : List Exec.Outcome) (status : Nat) :
    testDocumentBytes bytes runs = .report outcomes status ↔
      ∃ tests, DocTests bytes tests ∧ runTests tests runs = .report outcomes status := by
  constructor
  · intro h
    obtain ⟨text, p, tests, h1, h2, h3, h4, _, h6⟩ := testDocumentBytes_report_inv h
    exact ⟨tests, ⟨text, p, h1, h2, h3, h4⟩, h6⟩
  · rintro ⟨tests, ⟨text, p, h1, h2, h3, h4⟩, h6⟩
    rw [testDocumentBytes_eq_runTests h1 h2 h3 h4, h6]

/-- **`scrut test` on the bytes of a document in closed form** -/
theorem testDocumentBytes_eq {bytes : Bytes} {tests : List Test} (runs : List Ran)
    (hd : DocTests bytes tests) (hlen : tests.length ≤ runs.length) :
    testDocumentBytes bytes runs = .report (expectedOutcomes tests runs)
      (if (expectedOutcomes tests runs).any (fun o => Exec.isFailure o.2) then 50 else 0) := by
  obtain ⟨text, p, h1, h2, h3, h4⟩ := hd
  rw [testDocumentBytes_eq_runTests h1 h2 h3 h4, runTests_eq tests runs hlen]

/-- a document whose tests are inside the composition and fewer runs than tests: `missingRun` -/
theorem testDocumentBytes_missingRun {bytes : Bytes} {tests : List Test} (runs : List Ran)
    (hd : DocTests bytes tests) (hlen : runs.length < tests.length) :
    testDocumentBytes bytes runs = .missingRun := by
  obtain ⟨text, p, h1, h2, h3, h4⟩ := hd
  rw [testDocumentBytes_eq_runTests h1 h2 h3 h4, (runTests_kinds tests runs).1 hlen]

/-- **T1 lifted**: a report on the bytes of a document has one result per test case OF THE PARSED
DOCUMENT, in document order, and the exit status 0 / 50 of its verdicts -/
theorem testDocumentBytes_one_result {bytes : Bytes} {runs : List Ran}
    {outcomes : List Exec.Outcome} {status : Nat}
    (h : testDocumentBytes bytes runs = .report outcomes status) :
    ∃ text p tests, readFile bytes = .ok text ∧ Markdown.parseMarkdown parseEnv text = .ok p ∧
      p.tests.mapM prepare = .ok tests ∧
      outcomes.map (·.1) = List.range p.tests.length ∧
      (status = 50 ↔ ∃ o ∈ outcomes, Exec.isFailure o.2 = true) ∧
      (status = 0 ↔ ∀ o ∈ outcomes, Exec.isFailure o.2 = false) ∧
      status ≠ 1 := by
  obtain ⟨text, p, tests, h1, h2, _, h4, h5, h6⟩ := testDocumentBytes_report_inv h
  obtain ⟨r1, r2, r3, r4⟩ := runTests_one_result h6
  exact ⟨text, p, tests, h1, h2, h4, by rw [r1, h5], r2, r3, r4⟩

/-- the same for the text of a document -/
theorem testDocument_one_result {text : List Char} {runs : List Ran}
    {outcomes : List Exec.Outcome} {status : Nat}
    (h : testDocument text runs = .report outcomes status) :
    ∃ p tests, Markdown.parseMarkdown parseEnv text = .ok p ∧ p.tests.mapM prepare = .ok tests ∧
      outcomes.map (·.1) = List.range p.tests.length ∧
      (status = 50 ↔ ∃ o ∈ outcomes, Exec.isFailure o.2 = true) ∧
      (status = 0 ↔ ∀ o ∈ outcomes, Exec.isFailure o.2 = false) ∧
      status ≠ 1 := by
  obtain ⟨p, tests, h2, _, h4, h5, h6⟩ := testDocument_report_inv h
  obtain ⟨r1, r2, r3, r4⟩ := runTests_one_result h6
  exact ⟨p, tests, h2, h4, by rw [r1, h5], r2, r3, r4⟩

/-- **T2 lifted** (no false success) -/
theorem testDocumentBytes_ok_sound {bytes : Bytes} {runs : List Ran}
    {outcomes : List Exec.Outcome} {status i : Nat}
    (h : testDocumentBytes bytes runs = .report outcomes status)
    (hi : (i, Exec.Verdict.ok) ∈ outcomes) :
    ∃ (tests : List Test) (t : Test) (r : Ran), DocTests bytes tests ∧
      tests[i]? = some t ∧ runs[i]? = some r ∧ r.code = t.expected.getD 0 ∧
      (∃ s, selectedStream t r = some s ∧ accepts t.exps s = some true) ∧
      skips tests runs = false := by
  obtain ⟨tests, hd, hr⟩ := (testDocumentBytes_report_iff _ _ _ _).1 h
  obtain ⟨t, r, h1, h2, h3, h4, h5⟩ := runTests_ok_sound hr hi
  exact ⟨tests, t, r, hd, h1, h2, h3, h4, h5⟩

/-- **T2 + T3 lifted**: behind a reported `success` the lines of the selected stream are matched
by the compiled expectations of that test of the document -/
theorem testDocumentBytes_ok_matched {bytes : Bytes} {runs : List Ran}
    {outcomes : List Exec.Outcome} {status i : Nat}
    (h : testDocumentBytes bytes runs = .report outcomes status)
    (hi : (i, Exec.Verdict.ok) ∈ outcomes) :
    ∃ (tests : List Test) (t : Test) (r : Ran) (s : Bytes) (a : List Nat), DocTests bytes tests ∧
      tests[i]? = some t ∧ runs[i]? = some r ∧ r.code = t.expected.getD 0 ∧
      selectedStream t r = some s ∧ Matched t.exps (Newline.splitAtNewline s) a := by
  obtain ⟨tests, hd, hr⟩ := (testDocumentBytes_report_iff _ _ _ _).1 h
  obtain ⟨t, r, s, a, h1, h2, h3, h4, h5⟩ := runTests_ok_matched hr hi
  exact ⟨tests, t, r, s, a, hd, h1, h2, h3, h4, h5⟩

/-- **T2 converse, lifted** -/
theorem testDocumentBytes_ok_complete {bytes : Bytes} {runs : List Ran}
    {outcomes : List Exec.Outcome} {status i : Nat} {tests : List Test} {t : Test} {r : Ran}
    (h : testDocumentBytes bytes runs = .report outcomes status) (hd : DocTests bytes tests)
    (hs : skips tests runs = false) (ht : tests[i]? = some t) (hr : runs[i]? = some r)
    (hc : r.code = t.expected.getD 0)
    (hacc : ∃ s, selectedStream t r = some s ∧ accepts t.exps s = some true) :
    (i, Exec.Verdict.ok) ∈ outcomes := by
  obtain ⟨text, p, h1, h2, h3, h4⟩ := hd
  rw [testDocumentBytes_eq_runTests h1 h2 h3 h4] at h
  exact runTests_ok_complete h hs ht hr hc hacc

/-- **T4 lifted** -/
theorem testDocumentBytes_skip {bytes : Bytes} {runs : List Ran}
    {outcomes : List Exec.Outcome} {status : Nat}
    (h : testDocumentBytes bytes runs = .report outcomes status) :
    ∃ tests, DocTests bytes tests ∧
      (skips tests runs = true →
        outcomes = (List.range tests.length).map (fun i => (i, Exec.Verdict.skipped)) ∧ status = 0) ∧
      (∀ i, (i, Exec.Verdict.skipped) ∈ outcomes ↔ (i < tests.length ∧ skips tests runs = true)) ∧
      (∀ o ∈ outcomes, o.2 = .ok ∨ o.2 = .malformed ∨ o.2 = .skipped ∨ ∃ c e, o.2 = .invalidExit c e) := by
  obtain ⟨tests, hd, hr⟩ := (testDocumentBytes_report_iff _ _ _ _).1 h
  obtain ⟨v1, v2⟩ := runTests_verdicts hr
  exact ⟨tests, hd, fun hs => runTests_skip_all hr hs, v1, v2⟩

/-! ## a concrete document (non-vacuity of the hypotheses above), evaluated by the kernel

Two test cases: the first compares stdout with one `equal` expectation; the second is configured
`output_stream: stderr`, has a glob expectation, an optional `equal` expectation and expects the exit
code 3. -/

def exBytes : Bytes := Utf8.utf8
  "# t\n\n```scrut\n$ echo a\na\n```\n\n```scrut {output_stream: stderr}\n$ cmd\nb* (glob)\nc (?)\n[3]\n```\n".toList

/-- `a\n` on stdout, exit 0; `x` on stdout, `bb\r\n` on stderr, exit 3 -/
def exRuns : List Ran := [⟨[97, 10], [], 0⟩, ⟨[120], [98, 98, 13, 10], 3⟩]
/-- … the second command writes a second line `x\n` to stderr -/
def exRunsBad : List Ran := [⟨[97, 10], [], 0⟩, ⟨[120], [98, 98, 13, 10, 120, 10], 3⟩]
/-- … the second command ends with 80 -/
def exRunsSkip : List Ran := [⟨[97, 10], [], 0⟩, ⟨[120], [], 80⟩]

def exTests : List Test :=
  [⟨{ outputStream := some .stdout, skipCode := some 80 }, [⟨.equal [97], false, false⟩], none⟩,
   ⟨{ outputStream := some .stderr, skipCode := some 80 },
    [⟨.glob ['b', '*'], false, false⟩, ⟨.equal [99], true, false⟩], some 3⟩]

def exText : List Char :=
  "# t\n\n```scrut\n$ echo a\na\n```\n\n```scrut {output_stream: stderr}\n$ cmd\nb* (glob)\nc (?)\n[3]\n```\n".toList

def exParsed : Markdown.Parsed :=
  { docConfigs := [],
    tests := [
      { title := ['t'], command := ["echo a".toList], exitCode := none, expectations := [['a']],
        lineNumber := 4, config := some none },
      { title := [], command := ["cmd".toList], exitCode := some 3,
        expectations := ["b* (glob)".toList, "c (?)".toList], lineNumber := 9,
        config := some (some "output_stream: stderr".toList) }] }

deriving instance DecidableEq for Except
deriving instance DecidableEq for Test

/-- `exTests` are the prepared tests of the example document -/
theorem ex_docTests : DocTests exBytes exTests :=
  ⟨exText, exParsed, by decide +kernel, by decide +kernel, by decide +kernel, by decide +kernel⟩

theorem ex_report : testDocumentBytes exBytes exRuns = .report [(0, .ok), (1, .ok)] 0 := by
  decide +kernel
theorem ex_report_bad :
    testDocumentBytes exBytes exRunsBad = .report [(0, .ok), (1, .malformed)] 50 := by
  decide +kernel
theorem ex_report_skip :
    testDocumentBytes exBytes exRunsSkip = .report [(0, .skipped), (1, .skipped)] 0 := by
  decide +kernel
theorem ex_runTests : runTests exTests exRuns = .report [(0, .ok), (1, .ok)] 0 := by
  decide +kernel
theorem ex_not_utf8 : testDocumentBytes [0x23, 0xff] [] = .parseError := by decide +kernel
/-- a scrut block without a command is a parse error -/
theorem ex_parse_error :
    testDocumentBytes (Utf8.utf8 "```scrut\nfoo\n```\n".toList) [] = .parseError := by decide +kernel
theorem ex_accepts : accepts [⟨.glob ['b', '*'], false, false⟩, ⟨.equal [99], true, false⟩] [98, 98, 10] = some true := by
  decide +kernel

/-! ## the single-script path (section 6 of the model): one result per test, exit status -/

theorem zipErr_length : ∀ (outs errs : List (Bytes × Int)), (Divider.zipErr outs errs).length = outs.length := by
  intro outs
  induction outs with
  | nil => intro errs; simp [Divider.zipErr]
  | cons o r ih =>
    intro errs
    obtain ⟨ob, oc⟩ := o
    cases errs with
    | nil => simp [Divider.zipErr, ih]
    | cons e es => obtain ⟨eb, ec⟩ := e; simp [Divider.zipErr, ih]

theorem zipScriptOuts_spec : ∀ (tests : List Test) (zs : List Divider.Out) (xs : List Exec.Out),
    zipScriptOuts tests zs = some xs → tests.length ≤ zs.length →
    xs.length = tests.length ∧ ∀ x ∈ xs, ∃ c, x.status = .code c := by
  intro tests
  induction tests with
  | nil => intro zs xs h _; simp [zipScriptOuts] at h; subst h; simp
  | cons t ts ih =>
    intro zs xs h hlen
    cases zs with
    | nil => simp at hlen
    | cons z zs =>
      unfold zipScriptOuts at h
      cases hx : scriptOut t z with
      | none => simp [hx] at h
      | some x =>
        cases hxs : zipScriptOuts ts zs with
        | none => simp [hx, hxs] at h
        | some xs' =>
          simp [hx, hxs] at h
          subst h
          obtain ⟨h1, h2⟩ := ih zs xs' hxs (by simpa using hlen)
          refine ⟨by simp [h1], ?_⟩
          intro y hy
          rcases List.mem_cons.1 hy with rfl | hy
          · unfold scriptOut at hx
            split at hx
            · cases hx; exact ⟨_, rfl⟩
            · cases hx
          · exact h2 y hy

/-- what `BashScriptExecutor::execute_all` can return in the composition: the document is
skipped, or there is exactly one output per test case, each with an exit code -/
theorem execScriptBytes_ok {tests : List Test} {tcs : List Exec.TC} {runs : List SRan}
    {r : Exec.ExecResult} (hl : tcs.length = tests.length)
    (h : execScriptBytes tests tcs runs = .ok r) :
    (∃ i, r = .skipped i) ∨
    ∃ xs, r = .ok xs ∧ xs.length = tests.length ∧ ∀ x ∈ xs, ∃ c, x.status = .code c := by
  unfold execScriptBytes at h
  split at h
  · cases h
  · rename_i cfg _
    simp only at h
    split at h
    · rename_i stdout stderr _ _
      split at h
      · split at h
        · cases h; exact Or.inl ⟨0, rfl⟩
        · cases h
      · rename_i outs _
        split at h
        · cases h
        · rename_i z hz
          rcases Exec.execScript_code_cases _ _ _ _ hz with ⟨_, hlen⟩ | ⟨i, hi⟩
          · split at h
            · cases h
            · cases h
            · rename_i errs _
              split at h
              · rename_i xs hxs
                cases h
                have hlz : tests.length ≤ (Divider.zipErr outs errs).length := by
                  rw [zipErr_length]
                  simp at hlen
                  omega
                obtain ⟨h1, h2⟩ := zipScriptOuts_spec tests _ xs hxs hlz
                exact Or.inr ⟨xs, rfl, h1, h2⟩
              · cases h
          · cases hi
        · rename_i r' hnok hr'
          cases h
          rcases Exec.execScript_code_cases _ _ _ _ hr' with ⟨hok, _⟩ | ⟨i, hi⟩
          · exact absurd hok (fun he => hnok _ he)
          · exact Or.inl ⟨i, hi⟩
    · cases h

/-- **master statement about `runScript`**: a report of the single-script executor lists every test
as `skipped`, or lists one verdict per test, in order, none of them `skipped`, timeout or internal -/
theorem runScript_report {tests : List Test} {runs : List SRan} {outcomes : List Exec.Outcome}
    {status : Nat} (h : runScript tests runs = .report outcomes status) :
    tests.length ≤ runs.length ∧ status = Exec.exitStatus [some outcomes] ∧
    (outcomes = (List.range tests.length).map (fun i => (i, Exec.Verdict.skipped)) ∨
     (outcomes.map (·.1) = List.range tests.length ∧
      ∀ o ∈ outcomes, o.2 = .ok ∨ o.2 = .malformed ∨ ∃ c e, o.2 = .invalidExit c e)) := by
  unfold runScript at h
  split at h
  · cases h
  · rename_i hlen
    simp only at h
    split at h
    · cases h
    · split at h
      · cases h
      · rename_i tcs htc
        have hl : tcs.length = tests.length := (mapM_option_spec _ tests tcs htc).1
        split at h
        · cases h
        · cases h
        · cases h
        · rename_i r hr
          simp only [Result.report.injEq] at h
          obtain ⟨h1, h2⟩ := h
          refine ⟨Nat.le_of_not_lt hlen, by rw [← h2, ← h1], ?_⟩
          rcases execScriptBytes_ok hl hr with ⟨i, hi⟩ | ⟨xs, hxs, hxl, hxc⟩
          · left
            rw [← h1, hi, Exec.runDocument_skipped, hl]
          · right
            have hnd : ∀ x ∈ xs, x.status ≠ .detached := by
              intro x hx
              obtain ⟨c, hc⟩ := hxc x hx
              rw [hc]; simp
            rw [← h1, hxs, Exec.runDocument_ok]
            refine ⟨by rw [Exec.judge_codes tcs xs 0 (by omega) hnd, hl, List.range_eq_range'], ?_⟩
            rintro ⟨i, v⟩ ho
            obtain ⟨tc, x, _, hx, _, hv⟩ := (Exec.mem_judge_zero tcs xs i v).1 ho
            obtain ⟨c, hc⟩ := hxc x (List.mem_of_getElem? hx)
            show v = _ ∨ v = _ ∨ ∃ c e, v = _
            rw [hv]
            unfold Exec.validate
            rw [hc]
            simp only
            split
            · exact Or.inr (Or.inr ⟨_, _, rfl⟩)
            · split
              · exact Or.inl rfl
              · exact Or.inr (Or.inl rfl)

/-- **T1 for `runScript`** -/
theorem runScript_one_result {tests : List Test} {runs : List SRan} {outcomes : List Exec.Outcome}
    {status : Nat} (h : runScript tests runs = .report outcomes status) :
    outcomes.map (·.1) = List.range tests.length ∧
    (status = 50 ↔ ∃ o ∈ outcomes, Exec.isFailure o.2 = true) ∧
    (status = 0 ↔ ∀ o ∈ outcomes, Exec.isFailure o.2 = false) ∧
    status ≠ 1 := by
  obtain ⟨_, hst, hcases⟩ := runScript_report h
  refine ⟨?_, by rw [hst]; exact Exec.exitStatus_one_spec outcomes⟩
  rcases hcases with ho | ⟨ho, _⟩
  · rw [ho, List.map_map]
    have : ((fun (x : Exec.Outcome) => x.1) ∘ fun j => (j, Exec.Verdict.skipped)) = id := rfl
    rw [this, List.map_id]
  · exact ho

/-- **T4 for `runScript`** (all or none): one `skipped` verdict means every test is `skipped`, and
then the exit status is 0 -/
theorem runScript_skip_all_or_none {tests : List Test} {runs : List SRan}
    {outcomes : List Exec.Outcome} {status : Nat}
    (h : runScript tests runs = .report outcomes status)
    (hs : ∃ o ∈ outcomes, o.2 = Exec.Verdict.skipped) :
    outcomes = (List.range tests.length).map (fun i => (i, Exec.Verdict.skipped)) ∧ status = 0 := by
  obtain ⟨_, hst, hcases⟩ := runScript_report h
  rcases hcases with ho | ⟨_, hv⟩
  · refine ⟨ho, ?_⟩
    rw [hst, Exec.exitStatus_one, ho, not_failure_skipped_list]
    rfl
  · obtain ⟨o, ho, hsk⟩ := hs
    rcases hv o ho with h1 | h1 | ⟨c, e, h1⟩ <;> rw [h1] at hsk <;> cases hsk

/-- a report on a Cram document comes from its parsed, prepared tests -/
theorem testCramDocumentBytes_report_inv {bytes : Bytes} {runs : List SRan}
    {outcomes : List Exec.Outcome} {status : Nat}
    (h : testCramDocumentBytes bytes runs = .report outcomes status) :
    ∃ text pre ts tests, readFile bytes = .ok text ∧ Cram.parseCram expOk 2 text = .ok (pre, ts) ∧
      ts.mapM prepareCram = .ok tests ∧ tests.length = ts.length ∧
      runScript tests runs = .report outcomes status := by
  unfold testCramDocumentBytes at h
  split at h
  · cases h
  · cases h
  · rename_i text ht
    unfold testCramDocument at h
    split at h
    · cases h
    · rename_i pre ts hp
      split at h
      · cases h
      · cases h
      · rename_i tests hm
        exact ⟨text, pre, ts, tests, ht, hp, hm, mapM_except_length _ _ _ hm, h⟩

/-- a report on a Markdown document under `--cram-compat` comes from its parsed, prepared tests -/
theorem testDocumentCompatBytes_report_inv {bytes : Bytes} {runs : List SRan}
    {outcomes : List Exec.Outcome} {status : Nat}
    (h : testDocumentCompatBytes bytes runs = .report outcomes status) :
    ∃ text p tests, readFile bytes = .ok text ∧ Markdown.parseMarkdown parseEnv text = .ok p ∧
      p.tests.mapM prepareCompat = .ok tests ∧ tests.length = p.tests.length ∧
      runScript tests runs = .report outcomes status := by
  unfold testDocumentCompatBytes at h
  split at h
  · cases h
  · cases h
  · rename_i text ht
    unfold testDocumentCompat at h
    split at h
    · cases h
    · cases h
    · rename_i p hp
      by_cases hf : p.docConfigs.all frontMatterHarmless = true
      · simp only [hf, Bool.not_true, Bool.false_eq_true, if_false] at h
        split at h
        · cases h
        · cases h
        · rename_i tests hm
          exact ⟨text, p, tests, ht, hp, hm, mapM_except_length _ _ _ hm, h⟩
      · simp [hf] at h

/-- **T1 lifted, Cram document** -/
theorem testCramDocumentBytes_one_result {bytes : Bytes} {runs : List SRan}
    {outcomes : List Exec.Outcome} {status : Nat}
    (h : testCramDocumentBytes bytes runs = .report outcomes status) :
    ∃ text pre ts, readFile bytes = .ok text ∧ Cram.parseCram expOk 2 text = .ok (pre, ts) ∧
      outcomes.map (·.1) = List.range ts.length ∧
      (status = 50 ↔ ∃ o ∈ outcomes, Exec.isFailure o.2 = true) ∧
      (status = 0 ↔ ∀ o ∈ outcomes, Exec.isFailure o.2 = false) ∧
      status ≠ 1 := by
  obtain ⟨text, pre, ts, tests, h1, h2, _, h4, h5⟩ := testCramDocumentBytes_report_inv h
  obtain ⟨r1, r2, r3, r4⟩ := runScript_one_result h5
  exact ⟨text, pre, ts, h1, h2, by rw [r1, h4], r2, r3, r4⟩

/-- **T1 lifted, Markdown under `--cram-compat`** -/
theorem testDocumentCompatBytes_one_result {bytes : Bytes} {runs : List SRan}
    {outcomes : List Exec.Outcome} {status : Nat}
    (h : testDocumentCompatBytes bytes runs = .report outcomes status) :
    ∃ text p, readFile bytes = .ok text ∧ Markdown.parseMarkdown parseEnv text = .ok p ∧
      outcomes.map (·.1) = List.range p.tests.length ∧
      (status = 50 ↔ ∃ o ∈ outcomes, Exec.isFailure o.2 = true) ∧
      (status = 0 ↔ ∀ o ∈ outcomes, Exec.isFailure o.2 = false) ∧
      status ≠ 1 := by
  obtain ⟨text, p, tests, h1, h2, _, h4, h5⟩ := testDocumentCompatBytes_report_inv h
  obtain ⟨r1, r2, r3, r4⟩ := runScript_one_result h5
  exact ⟨text, p, h1, h2, by rw [r1, h4], r2, r3, r4⟩

/-! ## the single-script path: pieces for `Lemmas/TestRunScript.lean`

Through the divider protocol: what the one script writes (`scriptStream`) is cut at the divider
lines (`Divider.iterate`) into exactly the bytes each test's own command wrote
(`Divider.iterLines_joinStream`); here for a script that runs to its end and at most 2^64 test
cases, the general case is `TestRunScript.iterLines_scriptStream`. -/

theorem salt_colon : Divider.COLON ∉ modelSalt := by decide
theorem salt_lf : Divider.LF ∉ modelSalt := by decide
theorem salt_tilde : (126 : UInt8) ∉ modelSalt := by decide

theorem scriptStream_noleave (pay : SRan → Bytes) (code : SRan → Nat) :
    ∀ (runs : List SRan) (i : Nat), (∀ r ∈ runs, r.leaves = false) →
      scriptStream pay code i runs = Divider.joinStream modelSalt i (runs.map fun r => (pay r, code r)) := by
  intro runs
  induction runs with
  | nil => intro i _; rfl
  | cons r rs ih =>
    intro i h
    have hr : r.leaves = false := h r (by simp)
    simp only [scriptStream, hr, Bool.false_eq_true, if_false, List.map_cons, Divider.joinStream]
    rw [ih (i + 1) (fun r' hr' => h r' (by simp [hr']))]

/-- the round trip of the divider protocol on what the script writes to one stream -/
theorem iterate_scriptStream (limit : Option Nat) (pay : SRan → Bytes) (code : SRan → Nat)
    (runs : List SRan) (hleave : ∀ r ∈ runs, r.leaves = false)
    (hpay : ∀ r ∈ runs, Divider.noSalted modelSalt (pay r) = true ∧ code r < 2 ^ 31)
    (hlen : runs.length ≤ 2 ^ 64) (hlim : ∀ n, limit = some n → runs.length ≤ n) :
    Divider.iterate modelSalt limit (scriptStream pay code 0 runs) =
      .ok (runs.map fun r => (pay r, (code r : Int))) := by
  rw [scriptStream_noleave pay code runs 0 hleave]
  unfold Divider.iterate Divider.splitAtNewline
  rw [Divider.iterLines_joinStream limit modelSalt salt_colon salt_lf salt_tilde _ 0
    (by
      intro t ht
      obtain ⟨r, hr, rfl⟩ := List.mem_map.1 ht
      exact hpay r hr)
    (by simpa using hlen) (by intro n hn; simpa using hlim n hn)]
  simp [List.map_map, Function.comp_def]

/-- what the one script's stdout carries for a test: under `combined` both streams -/
def payOut (cfg : Compiled) (r : SRan) : Bytes :=
  if cfg.outputStream = some .combined then r.ran.stdout ++ r.ran.stderr else r.ran.stdout
/-- … and its stderr: nothing under `combined` -/
def payErr (cfg : Compiled) (r : SRan) : Bytes :=
  if cfg.outputStream = some .combined then [] else r.ran.stderr

theorem zipErr_maps {α : Type} (f g : α → Bytes) (c : α → Int) (k : α → Int) : ∀ l : List α,
    Divider.zipErr (l.map fun r => (f r, c r)) (l.map fun r => (g r, k r)) =
      l.map fun r => ⟨f r, g r, c r⟩ := by
  intro l
  induction l with
  | nil => rfl
  | cons a l ih => simp [Divider.zipErr, ih]

theorem zipErr_maps_nil {α : Type} (f : α → Bytes) (c : α → Int) : ∀ l : List α,
    Divider.zipErr (l.map fun r => (f r, c r)) [] = l.map fun r => ⟨f r, [], c r⟩ := by
  intro l
  induction l with
  | nil => rfl
  | cons a l ih => simp [Divider.zipErr, ih]

theorem codeOk_spec {r : SRan} (h : codeOk r = true) :
    r.ran.code.toNat < 2 ^ 31 ∧ ((r.ran.code.toNat : Nat) : Int) = r.ran.code := by
  simp [codeOk] at h
  constructor
  · omega
  · omega

/-- the bytes `validate` compares for test `t` in the single-script executor: what the test's own
command wrote to the stream its `output_stream` selects (`cfg` = the compiled configuration of
the one script) -/
def scriptSelected (cfg : Compiled) (t : Test) (r : SRan) : Bytes :=
  if t.cfg.outputStream = some .stderr then payErr cfg r else payOut cfg r

theorem zipScriptOuts_index : ∀ (tests : List Test) (zs : List Divider.Out) (xs : List Exec.Out),
    zipScriptOuts tests zs = some xs →
    ∀ (i : Nat) (t : Test) (z : Divider.Out), tests[i]? = some t → zs[i]? = some z →
      ∃ x, xs[i]? = some x ∧ scriptOut t z = some x := by
  intro tests
  induction tests with
  | nil => intro zs xs _ i t z ht; simp at ht
  | cons t0 ts ih =>
    intro zs xs h i t z ht hz
    cases zs with
    | nil => simp at hz
    | cons z0 zs =>
      unfold zipScriptOuts at h
      cases hx : scriptOut t0 z0 with
      | none => simp [hx] at h
      | some x0 =>
        cases hxs : zipScriptOuts ts zs with
        | none => simp [hx, hxs] at h
        | some xs' =>
          simp [hx, hxs] at h
          subst h
          cases i with
          | zero => simp at ht hz; subst ht hz; exact ⟨x0, by simp, hx⟩
          | succ i => simpa using ih zs xs' hxs i t z (by simpa using ht) (by simpa using hz)

/-- `tests` are the prepared tests of the Cram document `bytes` -/
def CramDocTests (bytes : Bytes) (tests : List Test) : Prop :=
  ∃ text pre ts, readFile bytes = .ok text ∧ Cram.parseCram expOk 2 text = .ok (pre, ts) ∧
    ts.mapM prepareCram = .ok tests

/-! ### a Cram document and a Markdown document under `--cram-compat`, evaluated by the kernel -/

/-- two test cases; the second expects the exit code 1 -/
def exCramBytes : Bytes := Utf8.utf8 "  $ echo a\n  a\n  $ false\n  [1]\n".toList
/-- … its second command ends with 0 -/
def exCramRuns : List SRan := [⟨⟨[97, 10], [], 0⟩, false⟩, ⟨⟨[], [], 0⟩, false⟩]
/-- … its second command ends with the skip code -/
def exCramRunsSkip : List SRan := [⟨⟨[97, 10], [], 0⟩, false⟩, ⟨⟨[], [], 80⟩, false⟩]

theorem ex_cram_report :
    testCramDocumentBytes exCramBytes exCramRuns = .report [(0, .ok), (1, .invalidExit 0 1)] 50 := by
  decide +kernel
theorem ex_cram_skip :
    testCramDocumentBytes exCramBytes exCramRunsSkip = .report [(0, .skipped), (1, .skipped)] 0 := by
  decide +kernel
theorem ex_compat_report :
    testDocumentCompatBytes (Utf8.utf8 "# t\n\n```scrut\n$ echo a\na\n```\n".toList)
      [⟨⟨[97, 10], [], 0⟩, false⟩] = .report [(0, .ok)] 0 := by
  decide +kernel

/-- the prepared tests of `exCramBytes`: `TestCaseConfig::default_cram()` on both -/
def exCramTests : List Test :=
  [⟨cramDefaults, [⟨.equal [97], false, false⟩], none⟩, ⟨cramDefaults, [], some 1⟩]

theorem ex_cramDocTests : CramDocTests exCramBytes exCramTests :=
  ⟨"  $ echo a\n  a\n  $ false\n  [1]\n".toList, _,
    [{ title := [], command := ["echo a".toList], exitCode := none, expectations := [['a']], lineNumber := 1,
       config := some { detached := none, keepCrlf := some true, outputStream := some .combined,
                        skipDocumentCode := some 80, stripAnsiEscaping := none, timeoutSecs := none,
                        waitSet := false, environment := [] } },
     { title := [], command := ["false".toList], exitCode := some 1, expectations := [], lineNumber := 3,
       config := some { detached := none, keepCrlf := some true, outputStream := some .combined,
                        skipDocumentCode := some 80, stripAnsiEscaping := none, timeoutSecs := none,
                        waitSet := false, environment := [] } }],
    by decide +kernel, rfl, by decide +kernel⟩

end Scrut.TestRun
