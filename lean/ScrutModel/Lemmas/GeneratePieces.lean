import ScrutModel.Lemmas.EscapingGuard
import ScrutModel.Model.Generate
/-!
# Escaped text as a sequence of pieces (for C09)

Everything the generator writes in front of ` (escaped)` is a concatenation of *pieces*
(`EscLemmas.Rep`, `Lemmas/EscapingPieces.lean`): a piece is a token of the two-pass decoder (`Tok`)
that is either a single character or starts with a backslash, and the only piece containing a blank
is the blank itself. That is what makes the rewrites of `generate_expectation_line` sound:
replacing a blank by `\x20` and replacing the first character by its `\xHH` form exchange one piece
for another one that stands for the same bytes. This file adds the one piece sequence that only
the generator writes (`text.replace('\\', "\\\\")`).
-/
namespace Scrut.GenLemmas
open Scrut.Utf8 Scrut.Esc Scrut.EscF Scrut.Rules Scrut.EscLemmas

/-- `text.replace('\\', "\\\\")` is a piece sequence for the text -/
theorem rep_doubleBackslash (t : List Char) (hlf : NoLF (utf8 t)) :
    Rep (Grammar.doubleBackslash t) (utf8 t) := by
  unfold Grammar.doubleBackslash utf8
  apply Rep.flatMap
  intro c hc
  have hlf' : NoLF (String.utf8EncodeChar c) := fun b hb => hlf b (mem_utf8 hc b hb)
  by_cases hb : c = '\\'
  · subst hb
    simp only [if_true, utf8EncodeChar_backslash]
    exact Rep.single backslashPiece
  · simp only [hb, if_false]
    exact Rep.single (charPiece hb hlf')

end Scrut.GenLemmas
