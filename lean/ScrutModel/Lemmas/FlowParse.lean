import ScrutModel.Lemmas.ConfigRender
/-! Framing lemmas: the flow parser reads back a rendered AST whose plain scalars are "tokens". -/
namespace Scrut.Yaml
open Scrut.Dur

/-- characters a plain scalar may contain anywhere without ending it, that are not line breaks and
that the YAML reader accepts -/
def tokChar (c : Char) : Bool :=
  !isFlowInd c && !(c = ':') && !(c = '#') && !isBreak c && readable c

def startOk : List Char → Bool
  | [] => false
  | c :: r =>
    if c = '-' then (match r with | d :: _ => !isBlank d | [] => false)
    else !isBlank c && !isIndicator c

def lastOk (p : List Char) : Bool :=
  match p.reverse with
  | l :: _ => !isBlank l
  | [] => false

/-- a plain scalar that is read back as itself in front of `,`, `}` or `: ` -/
def Tok (p : List Char) : Bool := p.all tokChar && startOk p && lastOk p

/-- every character is fine for the reader and is not a line break -/
def okChar (c : Char) : Bool := !isBreak c && readable c

theorem tokChar_ok {c : Char} (h : tokChar c = true) : okChar c = true := by
  simp only [tokChar, Bool.and_eq_true] at h
  simp [okChar, h.1.2, h.2]

theorem plainGo_tok : ∀ (p acc rest : List Char), p.all tokChar = true →
    plainGo (p ++ rest) acc = plainGo rest (p.reverse ++ acc) := by
  intro p
  induction p with
  | nil => intro acc rest _; simp
  | cons c p ih =>
    intro acc rest h
    simp only [List.all_cons, Bool.and_eq_true] at h
    have hc := h.1
    simp only [tokChar, Bool.and_eq_true, Bool.not_eq_true', decide_eq_false_iff_not] at hc
    obtain ⟨⟨⟨⟨h1, h2⟩, h3⟩, _⟩, _⟩ := hc
    rw [List.cons_append, plainGo.eq_def]
    simp only [h1, h2, h3, Bool.false_eq_true, if_false, decide_false, Bool.false_and]
    rw [ih _ _ h.2]
    simp

/-- what may follow a plain scalar -/
def Stop (rest : List Char) : Prop :=
  (∃ r, rest = ',' :: r) ∨ (∃ r, rest = '}' :: r) ∨ (∃ r, rest = ':' :: ' ' :: r)

theorem plainGo_stop (acc rest : List Char) (h : Stop rest) : plainGo rest acc = some (acc, rest) := by
  rcases h with ⟨r, rfl⟩ | ⟨r, rfl⟩ | ⟨r, rfl⟩
  · rw [plainGo.eq_def]; simp [isFlowInd]
  · rw [plainGo.eq_def]; simp [isFlowInd]
  · rw [plainGo.eq_def]; simp [isFlowInd, isBlank]

theorem dropBlanks_lastOk (p : List Char) (h : lastOk p = true) : dropBlanks p.reverse = p.reverse := by
  unfold lastOk at h
  cases hp : p.reverse with
  | nil => rfl
  | cons l r =>
    rw [hp] at h
    simp only [Bool.not_eq_true'] at h
    simp [dropBlanks, h]

theorem scanScalar_tok (p rest : List Char) (h : Tok p = true) (hs : Stop rest) :
    scanScalar (p ++ rest) = some (.plain p, rest) := by
  simp only [Tok, Bool.and_eq_true] at h
  obtain ⟨⟨hall, hstart⟩, hlast⟩ := h
  cases p with
  | nil => simp [startOk] at hstart
  | cons c r =>
    have hq : c ≠ '"' := by
      intro hc; subst hc; simp [startOk, isIndicator, isBlank] at hstart
    have hso : plainStartOk c (r ++ rest) = true := by
      unfold startOk at hstart
      unfold plainStartOk
      by_cases hm : c = '-'
      · subst hm
        cases r with
        | nil => simp at hstart
        | cons d r' => simpa [isBlank] using hstart
      · simp only [hm, if_false, Bool.and_eq_true, Bool.not_eq_true'] at hstart
        simp [hstart.1, hm, hstart.2]
    have hgo := plainGo_tok (c :: r) [] rest hall
    rw [plainGo_stop _ _ hs] at hgo
    rw [List.cons_append] at hgo ⊢
    unfold scanScalar
    split
    · rename_i heq; cases heq
    · rename_i rest' heq
      simp only [List.cons.injEq] at heq
      exact absurd heq.1 hq
    · rename_i c' rest' hne heq
      simp only [List.cons.injEq] at heq
      obtain ⟨rfl, rfl⟩ := heq
      simp only [hso, if_true, hgo, Option.map_some, List.append_nil]
      rw [dropBlanks_lastOk _ hlast]
      simp

/-- scalars of a rendered AST that the parser reads back -/
def GoodS : Scalar → Bool
  | .plain p => Tok p
  | .quoted _ => true

theorem scanScalar_good (s : Scalar) (rest : List Char) (h : GoodS s = true) (hs : Stop rest) :
    scanScalar (s.render ++ rest) = some (s, rest) := by
  cases s with
  | plain p => exact scanScalar_tok p rest h hs
  | quoted q => exact scan_jsonQuote q rest

/-- the rendering of a good scalar starts with a character that is no blank, `,`, `}` -/
theorem good_head (s : Scalar) (h : GoodS s = true) :
    ∃ c r, s.render = c :: r ∧ isBlank c = false ∧ c ≠ '}' ∧ c ≠ ',' ∧ c ≠ '{' := by
  cases s with
  | quoted q => exact ⟨'"', _, rfl, by decide, by decide, by decide, by decide⟩
  | plain p =>
    simp only [GoodS, Tok, Bool.and_eq_true] at h
    obtain ⟨⟨hall, hstart⟩, _⟩ := h
    cases p with
    | nil => simp [startOk] at hstart
    | cons c r =>
      simp only [List.all_cons, Bool.and_eq_true, tokChar, Bool.not_eq_true', decide_eq_false_iff_not] at hall
      obtain ⟨⟨⟨⟨⟨h1, _⟩, _⟩, _⟩, _⟩, _⟩ := hall
      refine ⟨c, r, rfl, ?_, ?_, ?_, ?_⟩
      · unfold startOk at hstart
        by_cases hm : c = '-'
        · subst hm; decide
        · simp only [hm, if_false, Bool.and_eq_true, Bool.not_eq_true'] at hstart
          exact hstart.1
      all_goals (intro hc; subst hc; simp [isFlowInd] at h1)

theorem skipWs_head {c : Char} {r : List Char} (h : isBlank c = false) : skipWs (c :: r) = c :: r := by
  simp [skipWs, h]

theorem utf8Len_append (a b : List Char) : utf8Len (a ++ b) = utf8Len a + utf8Len b := by
  induction a with
  | nil => simp [utf8Len]
  | cons c a ih => simp [utf8Len, ih]; omega

/-- `key: ` in front of a value that does not start with a blank -/
theorem parseKey_good (k : Scalar) (tail : List Char) (hk : GoodS k = true)
    (hlen : utf8Len k.render ≤ 1024) (ht : skipWs tail = tail) :
    parseKey (k.render ++ (':' :: ' ' :: tail)) = some (k, tail) := by
  have hscan := scanScalar_good k (':' :: ' ' :: tail) hk (Or.inr (Or.inr ⟨tail, rfl⟩))
  unfold parseKey
  rw [hscan]
  have h1 : skipWs (':' :: ' ' :: tail) = ':' :: ' ' :: tail := skipWs_head (by decide)
  have h2 : skipWs (' ' :: tail) = tail := by simp [skipWs, isBlank, ht]
  simp only [h1, h2]
  rw [utf8Len_append]
  have : ¬ (utf8Len k.render + utf8Len (':' :: ' ' :: tail) > 1024 + utf8Len (':' :: ' ' :: tail)) := by omega
  simp [this]

/-- what may follow a value inside a mapping -/
def Sep (t : List Char) : Prop := (∃ r, t = ',' :: r) ∨ (∃ r, t = '}' :: r)

theorem Sep.stop {t : List Char} (h : Sep t) : Stop t := by
  rcases h with h | h
  · exact Or.inl h
  · exact Or.inr (Or.inl h)

theorem Sep.skip {t : List Char} (h : Sep t) : skipWs t = t := by
  rcases h with ⟨r, rfl⟩ | ⟨r, rfl⟩ <;> exact skipWs_head (by decide)

theorem scanValS_good (v : Scalar) (t : List Char) (hv : GoodS v = true) (ht : Sep t) :
    scanValS (v.render ++ t) = some (v, t) := by
  obtain ⟨c, r, hr, _, h1, h2, _⟩ := good_head v hv
  have := scanScalar_good v t hv ht.stop
  rw [hr, List.cons_append] at this ⊢
  unfold scanValS
  split
  · rename_i heq; simp only [List.cons.injEq] at heq; exact absurd heq.1 h2
  · rename_i heq; simp only [List.cons.injEq] at heq; exact absurd heq.1 h1
  · exact this

def GoodKS (kv : Scalar × Scalar) : Bool :=
  GoodS kv.1 && GoodS kv.2 && decide (utf8Len kv.1.render ≤ 1024)

theorem good_skip (s : Scalar) (t : List Char) (h : GoodS s = true) : skipWs (s.render ++ t) = s.render ++ t := by
  obtain ⟨c, r, hr, hb, _⟩ := good_head s h
  rw [hr, List.cons_append]
  exact skipWs_head hb

/-- one `key: value` entry of a nested mapping: parser state after the value -/
theorem parseMapS_entry (kv : Scalar × Scalar) (f : Nat) (t : List Char) (h : GoodKS kv = true)
    (res : Option (List (Scalar × Scalar) × List Char))
    (hres : (match t with
      | ',' :: r' => (match parseMapS f r' with | none => none | some (l, r'') => some (kv :: l, r''))
      | '}' :: r' => some ([kv], r')
      | _ => none) = res) (ht : Sep t) :
    parseMapS (f + 1) (renderKS kv ++ t) = res := by
  obtain ⟨k, v⟩ := kv
  simp only [GoodKS, Bool.and_eq_true, decide_eq_true_eq] at h
  obtain ⟨⟨hk, hv⟩, hlen⟩ := h
  obtain ⟨c, kr, hr, hb, hbrace, _⟩ := good_head k hk
  have hkey := parseKey_good k (v.render ++ t) hk hlen (good_skip v t hv)
  have hval := scanValS_good v t hv ht
  simp only [renderKS, List.append_assoc, List.cons_append] at hkey ⊢
  rw [parseMapS]
  have hsk : skipWs (k.render ++ (':' :: ' ' :: (v.render ++ t))) = k.render ++ (':' :: ' ' :: (v.render ++ t)) :=
    good_skip k _ hk
  rw [hsk]
  split
  · rename_i heq
    rw [hr, List.cons_append] at heq
    simp only [List.cons.injEq] at heq
    exact absurd heq.1 hbrace
  · simp only [hkey, hval, ht.skip]
    exact hres

theorem parseMapS_blank (f : Nat) (cs : List Char) : parseMapS f (' ' :: cs) = parseMapS f cs := by
  cases f with
  | zero => simp [parseMapS]
  | succ f =>
    rw [parseMapS, parseMapS]
    have : skipWs (' ' :: cs) = skipWs cs := by simp [skipWs, isBlank]
    rw [this]

theorem parseMapS_entries : ∀ (kvs : List (Scalar × Scalar)) (fuel : Nat) (rest : List Char),
    kvs.all GoodKS = true → kvs.length < fuel →
    parseMapS fuel (joinComma (kvs.map renderKS) ++ ('}' :: rest)) = some (kvs, rest) := by
  intro kvs
  induction kvs with
  | nil =>
    intro fuel rest _ hf
    cases fuel with
    | zero => simp at hf
    | succ f =>
      simp only [List.map_nil, joinComma, List.nil_append]
      rw [parseMapS]
      have : skipWs ('}' :: rest) = '}' :: rest := skipWs_head (by decide)
      rw [this]
      simp
  | cons kv r ih =>
    intro fuel rest hall hf
    simp only [List.all_cons, Bool.and_eq_true] at hall
    cases fuel with
    | zero => simp at hf
    | succ f =>
      cases r with
      | nil =>
        simp only [List.map_cons, List.map_nil, joinComma]
        exact parseMapS_entry kv f _ hall.1 _ rfl (Or.inr ⟨rest, rfl⟩)
      | cons kv2 r2 =>
        simp only [List.map_cons, joinComma, List.append_assoc, List.cons_append]
        refine parseMapS_entry kv f _ hall.1 _ ?_ (Or.inl ⟨_, rfl⟩)
        simp only
        rw [parseMapS_blank]
        have := ih f rest hall.2 (by simp only [List.length_cons] at hf ⊢; omega)
        simp only [List.map_cons] at this
        rw [this]

theorem len_joinComma : ∀ (l : List (List Char)), (∀ x ∈ l, x ≠ []) → l.length ≤ (joinComma l).length := by
  intro l
  induction l with
  | nil => intro _; simp [joinComma]
  | cons a r ih =>
    intro h
    have ha : 1 ≤ a.length := by
      have := h a (by simp)
      cases a with
      | nil => exact absurd rfl this
      | cons _ _ => simp
    cases r with
    | nil => simp [joinComma]; omega
    | cons b r' =>
      have := ih (fun x hx => h x (by simp [hx]))
      simp only [joinComma, List.length_append, List.length_cons] at this ⊢
      omega

def GoodV : Val → Bool
  | .sc s => GoodS s
  | .map kvs => kvs.all GoodKS

def GoodKV (kv : Scalar × Val) : Bool :=
  GoodS kv.1 && GoodV kv.2 && decide (utf8Len kv.1.render ≤ 1024)

theorem scanVal_good (v : Val) (t : List Char) (hv : GoodV v = true) (ht : Sep t) :
    scanVal (v.render ++ t) = some (v, t) := by
  cases v with
  | sc s =>
    obtain ⟨c, r, hr, _, _, _, h3⟩ := good_head s hv
    have := scanValS_good s t hv ht
    simp only [Val.render] at this ⊢
    rw [hr, List.cons_append] at this ⊢
    unfold scanVal
    split
    · rename_i heq; simp only [List.cons.injEq] at heq; exact absurd heq.1 h3
    · rw [this]; rfl
  | map kvs =>
    simp only [Val.render, List.cons_append, List.append_assoc, List.nil_append]
    unfold scanVal
    simp only
    have hlen : kvs.length < (joinComma (kvs.map renderKS) ++ ('}' :: t)).length + 1 := by
      have := len_joinComma (kvs.map renderKS) (by
        intro x hx
        simp only [List.mem_map] at hx
        obtain ⟨kv, _, rfl⟩ := hx
        simp [renderKS])
      simp only [List.length_map] at this
      simp only [List.length_append, List.length_cons]
      omega
    rw [parseMapS_entries kvs _ t hv hlen]
    rfl

theorem goodV_skip (v : Val) (t : List Char) (h : GoodV v = true) : skipWs (v.render ++ t) = v.render ++ t := by
  cases v with
  | sc s => exact good_skip s t h
  | map kvs => simp only [Val.render, List.cons_append]; exact skipWs_head (by decide)

theorem parseMapV_entry (kv : Scalar × Val) (f : Nat) (t : List Char) (h : GoodKV kv = true)
    (res : Option (Ast × List Char))
    (hres : (match t with
      | ',' :: r' => (match parseMapV f r' with | none => none | some (l, r'') => some (kv :: l, r''))
      | '}' :: r' => some ([kv], r')
      | _ => none) = res) (ht : Sep t) :
    parseMapV (f + 1) (renderKV kv ++ t) = res := by
  obtain ⟨k, v⟩ := kv
  simp only [GoodKV, Bool.and_eq_true, decide_eq_true_eq] at h
  obtain ⟨⟨hk, hv⟩, hlen⟩ := h
  obtain ⟨c, kr, hr, hb, hbrace, _⟩ := good_head k hk
  have hkey := parseKey_good k (v.render ++ t) hk hlen (goodV_skip v t hv)
  have hval := scanVal_good v t hv ht
  simp only [renderKV, List.append_assoc, List.cons_append] at hkey ⊢
  rw [parseMapV]
  have hsk : skipWs (k.render ++ (':' :: ' ' :: (v.render ++ t))) = k.render ++ (':' :: ' ' :: (v.render ++ t)) :=
    good_skip k _ hk
  rw [hsk]
  split
  · rename_i heq
    rw [hr, List.cons_append] at heq
    simp only [List.cons.injEq] at heq
    exact absurd heq.1 hbrace
  · simp only [hkey, hval, ht.skip]
    exact hres

theorem parseMapV_blank (f : Nat) (cs : List Char) : parseMapV f (' ' :: cs) = parseMapV f cs := by
  cases f with
  | zero => simp [parseMapV]
  | succ f =>
    rw [parseMapV, parseMapV]
    have : skipWs (' ' :: cs) = skipWs cs := by simp [skipWs, isBlank]
    rw [this]

theorem parseMapV_entries : ∀ (a : Ast) (fuel : Nat) (rest : List Char),
    a.all GoodKV = true → a.length < fuel →
    parseMapV fuel (joinComma (a.map renderKV) ++ ('}' :: rest)) = some (a, rest) := by
  intro a
  induction a with
  | nil =>
    intro fuel rest _ hf
    cases fuel with
    | zero => simp at hf
    | succ f =>
      simp only [List.map_nil, joinComma, List.nil_append]
      rw [parseMapV]
      have : skipWs ('}' :: rest) = '}' :: rest := skipWs_head (by decide)
      rw [this]
      simp
  | cons kv r ih =>
    intro fuel rest hall hf
    simp only [List.all_cons, Bool.and_eq_true] at hall
    cases fuel with
    | zero => simp at hf
    | succ f =>
      cases r with
      | nil =>
        simp only [List.map_cons, List.map_nil, joinComma]
        exact parseMapV_entry kv f _ hall.1 _ rfl (Or.inr ⟨rest, rfl⟩)
      | cons kv2 r2 =>
        simp only [List.map_cons, joinComma, List.append_assoc, List.cons_append]
        refine parseMapV_entry kv f _ hall.1 _ ?_ (Or.inl ⟨_, rfl⟩)
        simp only
        rw [parseMapV_blank]
        have := ih f rest hall.2 (by simp only [List.length_cons] at hf ⊢; omega)
        simp only [List.map_cons] at this
        rw [this]

/-- **the flow parser reads back every rendered AST whose plain scalars are tokens** -/
theorem parseAst_render (a : Ast) (h : a.all GoodKV = true) : parseAst (Ast.render a) = some a := by
  unfold parseAst Ast.render
  have hd : dropSpaces ('{' :: (joinComma (a.map renderKV) ++ ['}'])) = '{' :: (joinComma (a.map renderKV) ++ ['}']) := by
    simp [dropSpaces]
  rw [hd]
  simp only
  have hlen : a.length < (joinComma (a.map renderKV) ++ ['}']).length + 1 := by
    have := len_joinComma (a.map renderKV) (by
      intro x hx
      simp only [List.mem_map] at hx
      obtain ⟨kv, _, rfl⟩ := hx
      simp [renderKV])
    simp only [List.length_map] at this
    simp only [List.length_append, List.length_cons]
    omega
  rw [parseMapV_entries a _ [] h hlen]
  simp [skipWs]

end Scrut.Yaml
