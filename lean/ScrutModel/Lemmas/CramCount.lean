import ScrutModel.Lemmas.CramInv
/-! For **every** document that parses: the tests are in one-to-one, order-preserving correspondence
with the indented `$ ` lines (line number and first command line). -/
namespace Scrut.Cram
open Scrut.LineParser

/-- finished tests, then the open one -/
def keys (s : St) : List (Nat × Option (List Char)) :=
  s.testcases.map keyOf ++
    (match s.command with
     | [] => []
     | c :: _ => [(s.outputStartIndex.getD 0 + 1, some c)])

/-- `output_start_index` is set exactly while a command is open; `allow_multiple_commands` -/
def Started (s : St) : Prop :=
  (s.command ≠ [] → s.outputStartIndex.isSome = true) ∧ (s.command = [] → s.outputStartIndex = none) ∧
    s.allowMultipleCommands = true

theorem endTestcase_keys {s s' : St} {i : Nat} (h : Started s) (he : s.endTestcase i = .ok s') :
    keys s' = keys s ∧ s'.command = [] ∧ Started s' := by
  cases hcmd : s.command with
  | nil =>
    simp only [State.endTestcase, hcmd, List.isEmpty_nil, if_true] at he
    have hs : s = s' := by
      repeat' split at he
      all_goals first | (cases he; rfl) | cases he
    subst hs
    exact ⟨rfl, hcmd, h⟩
  | cons c cs =>
    obtain ⟨o, ho⟩ := Option.isSome_iff_exists.mp (h.1 (by simp [hcmd]))
    simp only [State.endTestcase, hcmd, List.isEmpty_cons, Bool.false_eq_true, if_false] at he
    cases he
    refine ⟨by simp [keys, State.flush, keyOf, hcmd, ho], by simp [State.flush], ?_⟩
    exact ⟨by simp [State.flush], by simp [State.flush], h.2.2⟩

theorem addBodyRest_shape (expOk : List Char → Bool) {s s' : St} {body : List Char} {i : Nat} {ct : CodeType}
    (he : s.addBodyRest expOk body i = .ok (s', ct)) :
    s'.testcases = s.testcases ∧ s'.outputStartIndex = s.outputStartIndex ∧
      s'.allowMultipleCommands = s.allowMultipleCommands ∧
      (s'.command = s.command ∨ (s.command ≠ [] ∧ ∃ l, s'.command = s.command ++ [l])) := by
  unfold State.addBodyRest at he
  split at he
  · split at he
    · cases he
    · next hne =>
      cases he
      exact ⟨rfl, rfl, rfl, Or.inr ⟨by simpa using hne, _, rfl⟩⟩
  · dsimp only at he
    split at he
    · cases he
    · split at he
      · cases he
      · split at he
        · split at he
          · cases he
          · cases he; exact ⟨rfl, rfl, rfl, Or.inl rfl⟩
        · split at he
          · cases he; exact ⟨rfl, rfl, rfl, Or.inl rfl⟩
          · cases he

theorem addBody_keys (expOk : List Char → Bool) {s s' : St} {body : List Char} {i : Nat} {ct : CodeType}
    (h : Started s) (he : s.addBody expOk body i = .ok (s', ct)) :
    Started s' ∧
      keys s' = keys s ++ (match stripPrefix ['$', ' '] body with
        | some c => [(i + 1, some c)]
        | none => []) := by
  obtain ⟨h1, h2, ha⟩ := h
  cases hsp : stripPrefix ['$', ' '] body with
  | some l =>
    cases hcmd : s.command with
    | nil =>
      have ho := h2 hcmd
      simp [State.addBody, ha, hsp, hcmd, ho] at he
      obtain ⟨rfl, _⟩ := he
      exact ⟨⟨by simp, by simp, rfl⟩, by simp [keys, hcmd]⟩
    | cons c cs =>
      obtain ⟨o, ho⟩ := Option.isSome_iff_exists.mp (h1 (by simp [hcmd]))
      simp [State.addBody, State.endTestcase, State.flush, ha, hsp, hcmd, ho] at he
      obtain ⟨rfl, _⟩ := he
      exact ⟨⟨by simp, by simp, rfl⟩, by simp [keys, hcmd, ho, keyOf]⟩
  | none =>
    have he' : s.addBodyRest expOk body i = .ok (s', ct) := by
      simpa [State.addBody, ha, hsp] using he
    obtain ⟨e1, e2, e3, e4⟩ := addBodyRest_shape expOk he'
    rcases e4 with e4 | ⟨hne, l, e4⟩
    · refine ⟨⟨by rw [e4, e2]; exact h1, by rw [e4, e2]; exact h2, by rw [e3]; exact ha⟩, ?_⟩
      simp [keys, e1, e2, e4]
    · cases hcmd : s.command with
      | nil => exact absurd hcmd hne
      | cons c cs =>
        refine ⟨⟨fun _ => by rw [e2]; exact h1 hne, fun hc => by simp [e4, hcmd] at hc, by rw [e3]; exact ha⟩, ?_⟩
        simp [keys, e1, e2, e4, hcmd]


theorem cmdOf_nil (ind : List Char) : cmdOf ind [] = none := by
  cases ind <;> simp [cmdOf, isComment, stripPrefix]

theorem step_keys (expOk : List Char → Bool) (ind : List Char) {s s' : St} {line : List Char} {i : Nat}
    (h : Started s) (he : step expOk ind s i line = .ok s') :
    Started s' ∧ keys s' = keys s ++ (match cmdOf ind line with
      | some c => [(i + 1, some c)]
      | none => []) := by
  unfold step at he
  split at he
  · next hc => cases he; simp [cmdOf, hc, h]
  · next hnc =>
    split at he
    · next hemp =>
      have : line = [] := by simpa using hemp
      subst this
      rw [cmdOf_nil]
      split at he
      · have := endTestcase_keys h he
        simp [this.1, this.2.2]
      · cases he; simp [h]
    · split at he
      · next body hbody =>
        split at he
        · cases he
        · next s1 ct hs1 =>
          cases he
          have := addBody_keys expOk h hs1
          refine ⟨?_, ?_⟩
          · exact this.1
          · have hk : keys (s1.setConfig TCConfig.defaultCram) = keys s1 := rfl
            rw [hk, this.2]
            simp [cmdOf, hnc, hbody]
      · next hnone =>
        split at he
        · cases he
        · next s1 hs1 =>
          cases he
          have := endTestcase_keys h hs1
          refine ⟨this.2.2, ?_⟩
          have hk : keys (s1.setTitle line) = keys s1 := rfl
          rw [hk, this.1]
          simp [cmdOf, hnc, hnone]

theorem run_keys (expOk : List Char → Bool) (ind : List Char) (ls : List (List Char)) {s s' : St} {i : Nat}
    (h : Started s) (he : run expOk ind s i ls = .ok s') :
    Started s' ∧ keys s' = keys s ++ cmdLinesFrom ind i ls := by
  induction ls generalizing s i with
  | nil => simp only [run] at he; cases he; simp [cmdLinesFrom, h]
  | cons l ls ih =>
    simp only [run] at he
    split at he
    · cases he
    · next s1 hs1 =>
      have h1 := step_keys expOk ind h hs1
      have h2 := ih h1.1 he
      refine ⟨h2.1, ?_⟩
      rw [h2.2, h1.2]
      simp only [cmdLinesFrom]
      cases cmdOf ind l <;> simp

theorem finish_keys {s s' : St} {n : Nat} (h : Started s) (he : finish s n = .ok s') :
    s'.testcases.map keyOf = keys s := by
  unfold finish at he
  split at he
  · have := endTestcase_keys (s := s.setConfig TCConfig.defaultCram) h he
    have hk : keys (s.setConfig TCConfig.defaultCram) = keys s := rfl
    rw [← hk, ← this.1]
    simp [keys, this.2.1]
  · next hnb =>
    cases he
    have : s.command = [] := by
      simp only [State.hasBody, Bool.or_eq_true, Bool.not_eq_true', not_or, Bool.not_eq_false] at hnb
      simpa using hnb.1
    simp [keys, this]

/-- the tests of every parsed document, in order = its command lines, in order -/
theorem parseLines_keys (expOk : List Char → Bool) (ind : List Char) (ls : List (List Char)) (ts : List Test)
    (h : parseLines expOk ind ls = .ok ts) : ts.map keyOf = cmdLinesFrom ind 0 ls := by
  unfold parseLines at h
  split at h
  · cases h
  · next s hs =>
    split at h
    · cases h
    · next s2 hs2 =>
      cases h
      have g0 : Started (State.new true : St) := ⟨by simp [State.new], by simp [State.new], rfl⟩
      have h1 := run_keys expOk ind ls g0 hs
      rw [finish_keys h1.1 hs2, h1.2]
      simp [keys, State.new]

theorem parseCram_keys (expOk : List Char → Bool) (n : Nat) (text : List Char) (dc : DocConfig) (ts : List Test)
    (h : parseCram expOk n text = .ok (dc, ts)) :
    ts.map keyOf = cmdLinesFrom (indentOf n) 0 (lines text) :=
  parseLines_keys expOk _ _ ts (parseCram_ok h).2

end Scrut.Cram
