import ScrutModel.Lemmas.RenderChars
/-! The pieces written by `to_yaml_one_liner` are tokens, and the typed layer reads them back. -/
namespace Scrut.Yaml
open Scrut.Dur

def digitList : List Char := ['0', '1', '2', '3', '4', '5', '6', '7', '8', '9']
def letterList : List Char := ['y', 'e', 'a', 'r', 's', 'm', 'o', 'n', 't', 'h', 'd', 'u']

theorem digit_mem : ∀ k, k < 10 → Char.ofNat (48 + k) ∈ digitList := by decide

theorem digitsAux_mem : ∀ (fuel n : Nat) (acc : List Char), (∀ c ∈ acc, c ∈ digitList) →
    ∀ c ∈ digitsAux fuel n acc, c ∈ digitList := by
  intro fuel
  induction fuel with
  | zero => intro n acc h; simpa [digitsAux] using h
  | succ f ih =>
    intro n acc h
    have hd := digit_mem (n % 10) (Nat.mod_lt _ (by decide))
    have h' : ∀ c ∈ Char.ofNat (48 + n % 10) :: acc, c ∈ digitList := by
      intro c hc
      simp only [List.mem_cons] at hc
      rcases hc with rfl | hc
      · exact hd
      · exact h c hc
    simp only [digitsAux]
    split
    · exact h'
    · exact ih _ _ h'

theorem natDigits_mem (n : Nat) : ∀ c ∈ natDigits n, c ∈ digitList :=
  digitsAux_mem _ _ [] (by simp)

theorem digitsAux_ne : ∀ (fuel n : Nat) (acc : List Char), acc ≠ [] → digitsAux fuel n acc ≠ [] := by
  intro fuel
  induction fuel with
  | zero => intro n acc h; simpa [digitsAux] using h
  | succ f ih =>
    intro n acc _
    simp only [digitsAux]
    split
    · simp
    · exact ih _ _ (by simp)

theorem natDigits_ne (n : Nat) : natDigits n ≠ [] := by
  unfold natDigits
  simp only [digitsAux]
  split
  · simp
  · exact digitsAux_ne _ _ _ (by simp)

/-- first character of a non-empty list -/
def headIn (S : List Char) (l : List Char) : Prop := ∃ c r, l = c :: r ∧ c ∈ S

theorem natDigits_head (n : Nat) : headIn digitList (natDigits n) := by
  cases h : natDigits n with
  | nil => exact absurd h (natDigits_ne n)
  | cons c r => exact ⟨c, r, rfl, natDigits_mem n c (by rw [h]; simp)⟩

theorem headIn_append {S : List Char} {a : List Char} (b : List Char) (h : headIn S a) : headIn S (a ++ b) := by
  obtain ⟨c, r, rfl, hc⟩ := h
  exact ⟨c, r ++ b, rfl, hc⟩

theorem lastOk_append (a b : List Char) (hb : b ≠ []) : lastOk (a ++ b) = lastOk b := by
  unfold lastOk
  rw [List.reverse_append]
  cases h : b.reverse with
  | nil => simp at h; exact absurd h hb
  | cons l r => simp

theorem text_lastOk (u : FU) (v : Nat) : lastOk (u.text v) = true := by
  cases u <;> by_cases hv : v > 1 <;> simp only [FU.text, hv, if_true, if_false, List.append_nil] <;> rfl

theorem allowed_tok : ∀ c ∈ digitList ++ letterList ++ [' ', '-'], tokChar c = true := by decide

theorem renderItems_mem : ∀ (l : List (Nat × FU)) (st : Bool), ∀ c ∈ renderItems st l,
    c ∈ digitList ++ letterList ++ [' ', '-'] := by
  intro l
  induction l with
  | nil => intro st c hc; simp [renderItems] at hc
  | cons it r ih =>
    intro st c hc
    obtain ⟨v, u⟩ := it
    simp only [renderItems] at hc
    split at hc
    · exact ih st c hc
    · simp only [List.mem_append] at hc ⊢
      rcases hc with hc | hc | hc | hc
      · cases st <;> simp at hc
        subst hc; simp
      · exact Or.inl (Or.inl (natDigits_mem v c hc))
      · exact Or.inl (Or.inr (text_mem u v c hc))
      · have := ih true c hc
        simpa only [List.mem_append] using this

theorem renderItems_last : ∀ (l : List (Nat × FU)) (st : Bool), renderItems st l ≠ [] →
    lastOk (renderItems st l) = true := by
  intro l
  induction l with
  | nil => intro st h; simp [renderItems] at h
  | cons it r ih =>
    intro st hne
    obtain ⟨v, u⟩ := it
    simp only [renderItems] at hne ⊢
    split
    · rename_i hz; simp only [hz, if_true] at hne; exact ih st hne
    · rw [lastOk_append, lastOk_append]
      · by_cases hr : renderItems true r = []
        · rw [hr, List.append_nil]; exact text_lastOk u v
        · rw [lastOk_append _ _ hr]; exact ih true hr
      · have := (text_letters u v).2
        intro h; simp at h; exact this h.1
      · have := natDigits_ne v
        intro h; simp at h; exact this h.1

theorem renderItems_head : ∀ (l : List (Nat × FU)), renderItems false l ≠ [] →
    headIn digitList (renderItems false l) := by
  intro l
  induction l with
  | nil => intro h; simp [renderItems] at h
  | cons it r ih =>
    intro hne
    obtain ⟨v, u⟩ := it
    simp only [renderItems] at hne ⊢
    split
    · rename_i hz; simp only [hz, if_true] at hne; exact ih hne
    · simp only [Bool.false_eq_true, if_false, List.nil_append]
      exact headIn_append _ (natDigits_head v)

theorem startOk_digit {p : List Char} (h : headIn digitList p) : startOk p = true := by
  obtain ⟨c, r, rfl, hc⟩ := h
  have : ∀ c ∈ digitList, (c ≠ '-') ∧ isBlank c = false ∧ isIndicator c = false := by decide
  obtain ⟨h1, h2, h3⟩ := this c hc
  simp [startOk, h1, h2, h3]

/-- a `Duration` of the model -/
def WFd (d : Nat × Nat) : Prop := d.1 ≤ U64MAX ∧ d.2 < NS

theorem durText_parse (d : Nat × Nat) (h : WFd d) : parseDuration (durText d) = .ok ⟨d.1, d.2⟩ :=
  duration_roundtrip d.1 d.2 h.2 h.1

theorem durText_ne (d : Nat × Nat) (h : WFd d) : durText d ≠ [] ∧ durText d ≠ ['n', 'u', 'l', 'l'] := by
  have hp := durText_parse d h
  constructor
  · intro he
    rw [he] at hp
    have : parseDuration [] = .error .err := rfl
    rw [this] at hp; cases hp
  · intro he
    rw [he] at hp
    have : parseDuration ['n', 'u', 'l', 'l'] = .error .err := rfl
    rw [this] at hp; cases hp

theorem durText_tok (d : Nat × Nat) (h : WFd d) : Tok (durText d) = true := by
  have hne := (durText_ne d h).1
  unfold durText formatDuration at hne ⊢
  split
  · rfl
  · rename_i h0
    simp only [h0, if_false] at hne
    simp only [Tok, Bool.and_eq_true]
    refine ⟨⟨?_, startOk_digit (renderItems_head _ hne)⟩, renderItems_last _ _ hne⟩
    rw [List.all_eq_true]
    intro c hc
    exact allowed_tok c (renderItems_mem _ _ c hc)

theorem fieldOf_name (f : Field) : fieldOf f.name = some f := by cases f <;> rfl

theorem name_tok (f : Field) : GoodS (.plain f.name) = true ∧ utf8Len (Scalar.plain f.name).render ≤ 1024 := by
  cases f <;> exact ⟨rfl, by decide⟩

theorem interpGo_optEntry {α : Type} (o : Option α) (f : Field) (v : α → Val) (tail : Ast) (c0 : Cfg)
    (upd : Option α → Cfg)
    (hset : ∀ a, o = some a → setField f (v a) c0 = .ok (upd (some a))) (hnone : upd none = c0) :
    interpGo (optEntry o f v tail) c0 = interpGo tail (upd o) := by
  cases o with
  | none => simp [optEntry, hnone]
  | some a => simp [optEntry, interpGo, Scalar.text, fieldOf_name, hset a rfl, bind, Except.bind]

theorem knownKeys_optEntry {α : Type} (o : Option α) (f : Field) (v : α → Val) (tail : Ast) :
    knownKeys (optEntry o f v tail) = (if o.isSome then [f] else []) ++ knownKeys tail := by
  cases o <;> simp [optEntry, knownKeys, Scalar.text, fieldOf_name]

theorem all_optEntry {α : Type} (o : Option α) (f : Field) (v : α → Val) (tail : Ast)
    (hv : ∀ a, o = some a → GoodV (v a) = true) (ht : tail.all GoodKV = true) :
    (optEntry o f v tail).all GoodKV = true := by
  cases o with
  | none => simpa [optEntry] using ht
  | some a =>
    have := name_tok f
    simp only [optEntry, List.all_cons, GoodKV, ht, hv a rfl, this.1, Bool.and_true, Bool.true_and,
      decide_eq_true_eq]
    exact this.2

theorem dur_good (d : Nat × Nat) (h : WFd d) : GoodV (.sc (.plain (durText d))) = true := durText_tok d h

theorem optEntry_none {α : Type} (f : Field) (v : α → Val) (tail : Ast) : optEntry none f v tail = tail := rfl

theorem stream_facts (s : Stream) (c0 : Cfg) :
    GoodV (.sc (.plain s.text)) = true ∧
    setField .os (.sc (.plain s.text)) c0 = .ok { c0 with outputStream := some s } := by
  cases s <;> exact ⟨rfl, rfl⟩

theorem bool_good (b : Bool) : GoodV (.sc (.plain (boolText b))) = true := by cases b <;> rfl

theorem bool_opt (b : Bool) : optBool (.sc (.plain (boolText b))) = .ok (some b) := by cases b <;> rfl

theorem dur_set (d : Nat × Nat) (h : WFd d) (c0 : Cfg) :
    setField .to (.sc (.plain (durText d))) c0 = .ok { c0 with timeout := some d } := by
  have ⟨h1, h2⟩ := durText_ne d h
  have hp := durText_parse d h
  simp [setField, optDur, Scalar.text, h1, h2, durOf, hp, bind, Except.bind, pure, Except.pure]

/-- configurations made of the scalar keys `output_stream`, `keep_crlf`, `timeout`, `detached`,
`strip_ansi_escaping` (any subset, any values) -/
def ScalarOnly (c : Cfg) : Prop :=
  c.skipCode = none ∧ c.wait = none ∧ c.env = [] ∧ ∀ d, c.timeout = some d → WFd d

theorem one_liner_scalars (c : Cfg) (h : ScalarOnly c) : parseFlow (toOneLiner c) = .ok c := by
  obtain ⟨os, kc, to, de, sk, sa, wt, env⟩ := c
  obtain ⟨h1, h2, h3, hd⟩ := h
  simp only at h1 h2 h3 hd
  subst h1 h2 h3
  apply parseFlow_render
  · -- every piece is a token
    simp only [toAst, optEntry_none, List.isEmpty_nil, if_true]
    apply all_optEntry _ _ _ _ (fun s _ => (stream_facts s {}).1)
    apply all_optEntry _ _ _ _ (fun b _ => bool_good b)
    apply all_optEntry _ _ _ _ (fun d hd' => dur_good d (hd d hd'))
    apply all_optEntry _ _ _ _ (fun b _ => bool_good b)
    apply all_optEntry _ _ _ _ (fun b _ => bool_good b)
    rfl
  · -- the typed layer
    have hk : nodupB (knownKeys (toAst ⟨os, kc, to, de, none, sa, none, []⟩)) = true := by
      simp only [toAst, optEntry_none, List.isEmpty_nil, if_true, knownKeys_optEntry]
      cases os <;> cases kc <;> cases to <;> cases de <;> cases sa <;> rfl
    unfold interp
    rw [hk]
    simp only [if_true, toAst, optEntry_none, List.isEmpty_nil]
    rw [interpGo_optEntry os .os _ _ {} (fun o => { outputStream := o })
          (fun s _ => (stream_facts s {}).2) rfl,
        interpGo_optEntry kc .kc _ _ _ (fun o => { outputStream := os, keepCrlf := o })
          (fun b _ => by simp [setField, bool_opt, bind, Except.bind, pure, Except.pure]) rfl,
        interpGo_optEntry to .to _ _ _ (fun o => { outputStream := os, keepCrlf := kc, timeout := o })
          (fun d hd' => dur_set d (hd d hd') _) rfl,
        interpGo_optEntry de .de _ _ _ (fun o => { outputStream := os, keepCrlf := kc, timeout := to, detached := o })
          (fun b _ => by simp [setField, bool_opt, bind, Except.bind, pure, Except.pure]) rfl,
        interpGo_optEntry sa .sa _ _ _
          (fun o => { outputStream := os, keepCrlf := kc, timeout := to, detached := de, stripAnsi := o })
          (fun b _ => by simp [setField, bool_opt, bind, Except.bind, pure, Except.pure]) rfl]
    rfl

end Scrut.Yaml
