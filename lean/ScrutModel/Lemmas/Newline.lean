import ScrutModel.Model.Newline
namespace Scrut.Newline

theorem splitAux_flatten (bs cur : List UInt8) : (splitAux bs cur).flatten = cur ++ bs := by
  induction bs generalizing cur with
  | nil =>
    simp only [splitAux]
    split
    · rename_i h; simp [List.isEmpty_iff.1 h]
    · simp
  | cons b rest ih =>
    simp only [splitAux]
    split
    · simp [ih]
    · simp [ih]

/-- the lines concatenate back to the output, whatever the output is -/
theorem splitAtNewline_flatten (bs : List UInt8) : (splitAtNewline bs).flatten = bs := by
  simp [splitAtNewline, splitAux_flatten]

theorem splitAux_isLine (bs cur : List UInt8) (hcur : ∀ x ∈ cur, x ≠ LF) :
    ∀ l ∈ splitAux bs cur, IsLine l := by
  induction bs generalizing cur with
  | nil =>
    intro l hl
    simp only [splitAux] at hl
    split at hl
    · simp at hl
    · rename_i hne
      simp at hl
      subst hl
      refine ⟨by intro h; simp [h] at hne, ?_⟩
      intro i hi heq
      exact absurd heq (hcur _ (List.getElem_mem hi))
  | cons b rest ih =>
    intro l hl
    simp only [splitAux] at hl
    split at hl
    · rename_i hb
      simp at hl
      rcases hl with rfl | hl
      · refine ⟨by simp, ?_⟩
        intro i hi heq
        simp at hi
        by_cases hlt : i < cur.length
        · rw [List.getElem_append_left hlt] at heq
          exact absurd heq (hcur _ (List.getElem_mem hlt))
        · simp; omega
      · exact ih [] (by simp) l hl
    · rename_i hb
      exact ih (cur ++ [b]) (by
        intro x hx
        simp at hx
        rcases hx with hx | rfl
        · exact hcur x hx
        · exact hb) l hl

/-- every piece is a line: non-empty, LF only as its last byte -/
theorem splitAtNewline_isLine (bs : List UInt8) : ∀ l ∈ splitAtNewline bs, IsLine l :=
  splitAux_isLine bs [] (by simp)

end Scrut.Newline
