import ScrutModel.Model.Utf8
/-!
# The UTF-8 decoder of the model is sound: what it decodes re-encodes to the same bytes
-/
namespace Scrut.Utf8

theorem val_ofNat (n : Nat) (h : n.isValidChar) : (Char.ofNat n).val.toNat = n := by
  simp [Char.ofNat, h, Char.ofNatAux]

theorem enc1 (n : Nat) (h : n < 0x80) : String.utf8EncodeChar (Char.ofNat n) = [UInt8.ofNat n] := by
  have hv := val_ofNat n (Or.inl (by omega))
  simp only [String.utf8EncodeChar, hv]
  rw [if_pos (by omega)]

theorem enc2 (n : Nat) (h1 : 0x80 ≤ n) (h2 : n ≤ 0x7ff) :
    String.utf8EncodeChar (Char.ofNat n) = [UInt8.ofNat (n / 64 % 32 + 0xc0), UInt8.ofNat (n % 64 + 0x80)] := by
  have hv := val_ofNat n (Or.inl (by omega))
  simp only [String.utf8EncodeChar, hv]
  rw [if_neg (by omega), if_pos (by omega)]

theorem enc3 (n : Nat) (h1 : 0x800 ≤ n) (h2 : n ≤ 0xffff) (h3 : n < 0xd800 ∨ 0xdfff < n) :
    String.utf8EncodeChar (Char.ofNat n) =
      [UInt8.ofNat (n / 4096 % 16 + 0xe0), UInt8.ofNat (n / 64 % 64 + 0x80), UInt8.ofNat (n % 64 + 0x80)] := by
  have hv := val_ofNat n (by rcases h3 with h | h; exact Or.inl h; exact Or.inr ⟨h, by omega⟩)
  simp only [String.utf8EncodeChar, hv]
  rw [if_neg (by omega), if_neg (by omega), if_pos (by omega)]

theorem enc4 (n : Nat) (h1 : 0x10000 ≤ n) (h2 : n ≤ 0x10ffff) :
    String.utf8EncodeChar (Char.ofNat n) =
      [UInt8.ofNat (n / 262144 % 8 + 0xf0), UInt8.ofNat (n / 4096 % 64 + 0x80), UInt8.ofNat (n / 64 % 64 + 0x80), UInt8.ofNat (n % 64 + 0x80)] := by
  have hv := val_ofNat n (Or.inr ⟨by omega, by omega⟩)
  simp only [String.utf8EncodeChar, hv]
  rw [if_neg (by omega), if_neg (by omega), if_neg (by omega)]

theorem ofNat_toNat' (b : UInt8) (n : Nat) (h : n = b.toNat) : UInt8.ofNat n = b := by
  subst h; simp

/-- **soundness of the decoder**: a decoded text is the text whose UTF-8 encoding the bytes are -/
theorem utf8Decode_sound : ∀ (bs : List UInt8) (cs : List Char), utf8Decode bs = some cs → utf8 cs = bs := by
  intro bs
  fun_induction utf8Decode bs <;> intro cs h
  all_goals try (simp at h; done)
  · subst_vars; simp at h; subst h; rfl
  all_goals
    simp only [Option.map_eq_some_iff] at h
    obtain ⟨cs', h1', rfl⟩ := h
    rename_i ih
    have := ih cs' h1'
    simp only [utf8, List.flatMap_cons] at this ⊢
    rw [this]
  · rename_i b0 r0 v0 hlt
    rw [enc1 _ hlt]; simp [v0]
  · rename_i b0 v0 hn b1 r v1 h0 h1
    have e0 : v0 = b0.toNat := rfl
    have e1 : v1 = b1.toNat := rfl
    clear_value v0 v1
    rw [enc2 _ (by omega) (by omega), ofNat_toNat' b0 _ (by omega), ofNat_toNat' b1 _ (by omega)]; rfl
  · rename_i b0 v0 hn b1 v1 h0 b2 r v2 h1 h2
    have e0 : v0 = b0.toNat := rfl
    have e1 : v1 = b1.toNat := rfl
    have e2 : v2 = b2.toNat := rfl
    clear_value v0 v1 v2
    have hb : 128 ≤ v1 ∧ v1 ≤ 191 ∧ 128 ≤ v2 ∧ v2 ≤ 191 ∧ (v0 = 224 → 160 ≤ v1) ∧ (v0 = 237 → v1 ≤ 159) := by
      split at h2 <;> split at h2 <;> omega
    clear h2
    rw [enc3 _ (by omega) (by omega) (by omega),
      ofNat_toNat' b0 _ (by omega), ofNat_toNat' b1 _ (by omega), ofNat_toNat' b2 _ (by omega)]; rfl
  · rename_i b0 v0 hn b1 v1 h0 b2 v2 h1 b3 r v3 h2 h3
    have e0 : v0 = b0.toNat := rfl
    have e1 : v1 = b1.toNat := rfl
    have e2 : v2 = b2.toNat := rfl
    have e3 : v3 = b3.toNat := rfl
    clear_value v0 v1 v2 v3
    have hb : 128 ≤ v1 ∧ v1 ≤ 191 ∧ 128 ≤ v2 ∧ v2 ≤ 191 ∧ 128 ≤ v3 ∧ v3 ≤ 191 ∧ (v0 = 240 → 144 ≤ v1) ∧ (v0 = 244 → v1 ≤ 143) := by
      split at h3 <;> split at h3 <;> omega
    clear h3
    rw [enc4 _ (by omega) (by omega),
      ofNat_toNat' b0 _ (by omega), ofNat_toNat' b1 _ (by omega), ofNat_toNat' b2 _ (by omega), ofNat_toNat' b3 _ (by omega)]; rfl

/-- bytes below 0x80 are valid UTF-8: the text with those code points -/
theorem utf8Decode_ascii (bs : List UInt8) (h : ∀ b ∈ bs, b.toNat < 0x80) :
    utf8Decode bs = some (bs.map (fun b => Char.ofNat b.toNat)) := by
  induction bs with
  | nil => simp [utf8Decode]
  | cons b r ih =>
    have hb := h b (by simp)
    rw [utf8Decode.eq_def]
    simp [hb, ih (fun x hx => h x (by simp [hx]))]

theorem ofNat_toNat_char (c : Char) : Char.ofNat c.toNat = c := by
  have hv : c.toNat.isValidChar := c.valid
  apply Char.ext
  apply UInt32.toNat_inj.mp
  exact val_ofNat c.toNat hv

theorem tn (n : Nat) (h : n < 256) : (UInt8.ofNat n).toNat = n := by simp [Nat.mod_eq_of_lt h]

theorem utf8Decode_encodeChar (c : Char) (r : List UInt8) :
    utf8Decode (String.utf8EncodeChar c ++ r) = (utf8Decode r).map (c :: ·) := by
  have hv : c.val.toNat = c.toNat := rfl
  have hvalid : c.toNat < 0xd800 ∨ (0xdfff < c.toNat ∧ c.toNat < 0x110000) := c.valid
  have hc := ofNat_toNat_char c
  generalize c.toNat = v at *
  simp only [String.utf8EncodeChar, hv]
  split
  · rw [List.cons_append, List.nil_append, utf8Decode.eq_def]
    simp only [tn v (by omega)]
    rw [if_pos (by omega), hc]
  · split
    · rw [List.cons_append, List.cons_append, List.nil_append, utf8Decode.eq_def]
      simp only [tn (v / 64 % 32 + 192) (by omega), tn (v % 64 + 128) (by omega)]
      rw [if_neg (by omega), if_pos (by omega), if_pos (by omega)]
      have : (v / 64 % 32 + 192) % 32 * 64 + (v % 64 + 128) % 64 = v := by omega
      rw [this, hc]
    · split
      · rw [List.cons_append, List.cons_append, List.cons_append, List.nil_append, utf8Decode.eq_def]
        simp only [tn (v / 4096 % 16 + 224) (by omega), tn (v / 64 % 64 + 128) (by omega), tn (v % 64 + 128) (by omega)]
        rw [if_neg (by omega), if_neg (by omega), if_pos (by omega), if_pos (by split <;> split <;> omega)]
        have : (v / 4096 % 16 + 224) % 16 * 4096 + (v / 64 % 64 + 128) % 64 * 64 + (v % 64 + 128) % 64 = v := by omega
        rw [this, hc]
      · rw [List.cons_append, List.cons_append, List.cons_append, List.cons_append, List.nil_append, utf8Decode.eq_def]
        simp only [tn (v / 262144 % 8 + 240) (by omega), tn (v / 4096 % 64 + 128) (by omega), tn (v / 64 % 64 + 128) (by omega), tn (v % 64 + 128) (by omega)]
        rw [if_neg (by omega), if_neg (by omega), if_neg (by omega), if_pos (by omega), if_pos (by split <;> split <;> omega)]
        have : (v / 262144 % 8 + 240) % 8 * 262144 + (v / 4096 % 64 + 128) % 64 * 4096 + (v / 64 % 64 + 128) % 64 * 64 + (v % 64 + 128) % 64 = v := by omega
        rw [this, hc]

/-- **completeness of the decoder**: every text's encoding decodes to the text -/
theorem utf8Decode_utf8 (cs : List Char) : utf8Decode (utf8 cs) = some cs := by
  induction cs with
  | nil => simp [utf8, utf8Decode]
  | cons c cs ih =>
    simp only [utf8, List.flatMap_cons] at ih ⊢
    rw [utf8Decode_encodeChar, ih]; rfl

end Scrut.Utf8
