import ScrutModel.Model.Exec
/-!
# Lemmas about the execution model (`ScrutModel/Model/Exec.lean`)

Structure:
* verdict (`validate`), `effective`, `totalLimit`, `honest`: direct case analysis;
* `execLoop`: characterised by the inductive relation `Run` (one constructor per way a step of
  the loop can end), `execLoop_run` links the function to the relation, every invariant is then an
  induction on `Run`;
* `judge` / `runDocument`: membership characterisation `mem_judge`, ordering `judge_pairwise`;
* `exitStatus`: `List.any` unfolded to quantifiers.
-/
namespace Scrut.Exec

/-! ## Verdict -/

theorem validate_ok_iff (tc : TC) (o : Out) :
    validate tc o = .ok ↔
      ∃ c, o.status = .code c ∧ c = tc.expected.getD 0 ∧ selected tc o = true := by
  unfold validate
  cases hs : o.status with
  | code c =>
    by_cases hc : c = tc.expected.getD 0
    · by_cases hsel : selected tc o = true <;> simp [hc, hsel]
    · simp [hc]
  | timeout => simp
  | skipped => simp
  | detached => simp
  | unknown => simp

theorem validate_wrong_code (tc : TC) (o : Out) (c : Int) (h : o.status = .code c)
    (hne : c ≠ tc.expected.getD 0) : validate tc o = .invalidExit c (tc.expected.getD 0) := by
  unfold validate
  simp [h, hne]

theorem validate_no_code (tc : TC) (o : Out) (h : ∀ c, o.status ≠ .code c) :
    validate tc o ≠ .ok := by
  intro hok
  obtain ⟨c, hc, _⟩ := (validate_ok_iff tc o).1 hok
  exact h c hc

theorem validate_skipped_iff (tc : TC) (o : Out) :
    validate tc o = .skipped ↔ o.status = .skipped := by
  unfold validate
  cases hs : o.status with
  | code c =>
    by_cases hc : c = tc.expected.getD 0
    · by_cases hsel : selected tc o = true <;> simp [hc, hsel]
    · simp [hc]
  | timeout => simp
  | skipped => simp
  | detached => simp
  | unknown => simp

theorem validate_of_timeout (tc : TC) (o : Out) (h : o.status = .timeout) :
    validate tc o = .timeout := by
  unfold validate
  simp [h]

theorem isFailure_iff (v : Verdict) : isFailure v = true ↔ v ≠ .ok ∧ v ≠ .skipped := by
  cases v <;> simp [isFailure]

/-! ## Limits -/

def minOpt : Option Nat → Option Nat → Option Nat
  | none, r => r
  | p, none => p
  | some p, some r => some (min p r)

theorem effective_is_min (p r : Option Nat) :
    (effective p r).2 = minOpt p r ∧
    ((effective p r).1 = true ↔ ∃ rv, r = some rv ∧ ∀ pv, p = some pv → rv < pv) := by
  cases p with
  | none => cases r <;> simp [effective, minOpt]
  | some p =>
    cases r with
    | none => simp [effective, minOpt]
    | some r =>
      by_cases h : p ≤ r
      · simp [effective, minOpt, h, Nat.min_eq_left h]
      · have h' : r ≤ p := Nat.le_of_lt (Nat.lt_of_not_le h)
        simp [effective, minOpt, h, Nat.min_eq_right h', Nat.lt_of_not_le h]

theorem totalLimit_spec (t : Option Nat) :
    totalLimit t = (match t with | none => some 900000 | some 0 => none | some (k+1) => some (k+1)) := by
  cases t with
  | none => simp [totalLimit]
  | some n => cases n <;> simp [totalLimit]

/-! ## The honest runner -/

theorem honest_eq (cmds : Nat → Nat × Out) (i : Nat) (lim : Option Nat) :
    honest cmds i lim =
      match lim with
      | some l => if l ≤ (cmds i).1 then (⟨.timeout, false, false⟩, l) else ((cmds i).2, (cmds i).1)
      | none => ((cmds i).2, (cmds i).1) := rfl

theorem honest_enforced (cmds : Nat → Nat × Out) (i l : Nat) (h : l ≤ (cmds i).1) :
    ((honest cmds i (some l)).1).status = .timeout := by
  rw [honest_eq]
  simp [h]

theorem honest_timeout (cmds : Nat → Nat × Out) (hfin : ∀ i, (cmds i).2.status ≠ .timeout)
    (i : Nat) (lim : Option Nat) (h : ((honest cmds i lim).1).status = .timeout) :
    ∃ l, lim = some l ∧ l ≤ (cmds i).1 := by
  rw [honest_eq] at h
  cases lim with
  | none => exact absurd h (hfin i)
  | some l =>
    by_cases hl : l ≤ (cmds i).1
    · exact ⟨l, rfl, hl⟩
    · simp [hl] at h
      exact absurd h (hfin i)

/-! ## The executor loop as a relation -/

/-- the limit handed to the runner for `tc` when the loop reaches it at time `now`: the wait of
    the test case (`config.wait`) passes first, then the remaining document time is looked at -/
def limOf (limit : Option Nat) (tc : TC) (now : Nat) : Option Nat :=
  (effective tc.timeout (limit.map (· - (now + tc.wait)))).2

/-- is that limit the document limit? -/
def globOf (limit : Option Nat) (tc : TC) (now : Nat) : Bool :=
  (effective tc.timeout (limit.map (· - (now + tc.wait)))).1

/-- saturating arithmetic: what is left of the document limit after the capped wait is what is left
    of it after the whole wait (`l - (now + min w (l - now)) = l - (now + w)`), so the cap moves the
    clock but not the limit handed to the runner -/
theorem sub_startOf (limit : Option Nat) (tc : TC) (now : Nat) :
    limit.map (· - startOf limit tc now) = limit.map (· - (now + tc.wait)) := by
  cases limit with
  | none => rfl
  | some l =>
    simp only [Option.map, startOf, cappedWait]
    congr 1
    omega

theorem execLoop_cons (limit : Option Nat) (runner : Runner) (tc : TC) (rest : List TC)
    (idx now : Nat) (acc : List Out) (limits : List (Option Nat)) :
    execLoop limit runner (tc :: rest) idx now acc limits =
      match ((runner idx (limOf limit tc now)).1).status with
      | .code c =>
        if c = skipCodeOf tc then (.skipped idx, limits ++ [limOf limit tc now])
        else execLoop limit runner rest (idx + 1) (startOf limit tc now + (runner idx (limOf limit tc now)).2)
          (acc ++ [(runner idx (limOf limit tc now)).1]) (limits ++ [limOf limit tc now])
      | .timeout =>
        (.timeout (globOf limit tc now) idx (acc ++ [(runner idx (limOf limit tc now)).1]),
          limits ++ [limOf limit tc now])
      | .skipped => (.skipped idx, limits ++ [limOf limit tc now])
      | .detached =>
        execLoop limit runner rest (idx + 1) (startOf limit tc now + (runner idx (limOf limit tc now)).2)
          (acc ++ [detachedOut]) (limits ++ [limOf limit tc now])
      | .unknown =>
        (.ok (acc ++ [(runner idx (limOf limit tc now)).1] ++ rest.map unknownOut),
          limits ++ [limOf limit tc now]) := by
  unfold limOf globOf
  rw [← sub_startOf]
  rfl

/-- how the loop ended -/
inductive Kind where
  | ok
  | skipped (i : Nat)
  | timeout (g : Bool) (i : Nat)

def build : Kind → List Out → ExecResult
  | .ok, outs => .ok outs
  | .skipped i, _ => .skipped i
  | .timeout g i, outs => .timeout g i outs

/-- `Run limit runner tcs idx now news newl k`: running the loop on `tcs` (head index `idx`, at
    time `now`) pushes the outputs `news`, hands the limits `newl` to the runner and ends as `k` -/
inductive Run (limit : Option Nat) (runner : Runner) :
    List TC → Nat → Nat → List Out → List (Option Nat) → Kind → Prop
  | nil (idx now : Nat) : Run limit runner [] idx now [] [] .ok
  | skipCode (tc : TC) (rest : List TC) (idx now : Nat) :
      ((runner idx (limOf limit tc now)).1).status = .code (skipCodeOf tc) →
      Run limit runner (tc :: rest) idx now [] [limOf limit tc now] (.skipped idx)
  | skipped (tc : TC) (rest : List TC) (idx now : Nat) :
      ((runner idx (limOf limit tc now)).1).status = .skipped →
      Run limit runner (tc :: rest) idx now [] [limOf limit tc now] (.skipped idx)
  | timeout (tc : TC) (rest : List TC) (idx now : Nat) :
      ((runner idx (limOf limit tc now)).1).status = .timeout →
      Run limit runner (tc :: rest) idx now [(runner idx (limOf limit tc now)).1]
        [limOf limit tc now] (.timeout (globOf limit tc now) idx)
  | unknown (tc : TC) (rest : List TC) (idx now : Nat) :
      ((runner idx (limOf limit tc now)).1).status = .unknown →
      Run limit runner (tc :: rest) idx now
        ((runner idx (limOf limit tc now)).1 :: rest.map unknownOut) [limOf limit tc now] .ok
  | code (tc : TC) (rest : List TC) (idx now : Nat) (c : Int) (news : List Out)
      (newl : List (Option Nat)) (k : Kind) :
      ((runner idx (limOf limit tc now)).1).status = .code c → c ≠ skipCodeOf tc →
      Run limit runner rest (idx + 1) (startOf limit tc now + (runner idx (limOf limit tc now)).2) news newl k →
      Run limit runner (tc :: rest) idx now ((runner idx (limOf limit tc now)).1 :: news)
        (limOf limit tc now :: newl) k
  | detached (tc : TC) (rest : List TC) (idx now : Nat) (news : List Out)
      (newl : List (Option Nat)) (k : Kind) :
      ((runner idx (limOf limit tc now)).1).status = .detached →
      Run limit runner rest (idx + 1) (startOf limit tc now + (runner idx (limOf limit tc now)).2) news newl k →
      Run limit runner (tc :: rest) idx now (detachedOut :: news) (limOf limit tc now :: newl) k

theorem execLoop_run (limit : Option Nat) (runner : Runner) (tcs : List TC) :
    ∀ (idx now : Nat) (acc : List Out) (limits : List (Option Nat)),
      ∃ news newl k, Run limit runner tcs idx now news newl k ∧
        execLoop limit runner tcs idx now acc limits = (build k (acc ++ news), limits ++ newl) := by
  induction tcs with
  | nil =>
    intro idx now acc limits
    exact ⟨[], [], .ok, .nil idx now, by simp [execLoop, build]⟩
  | cons tc rest ih =>
    intro idx now acc limits
    rw [execLoop_cons]
    split
    · rename_i c hs
      by_cases hc : c = skipCodeOf tc
      · subst hc
        exact ⟨[], [_], _, .skipCode tc rest idx now hs, by simp [build]⟩
      · obtain ⟨news, newl, k, hrun, heq⟩ :=
          ih (idx + 1) (startOf limit tc now + (runner idx (limOf limit tc now)).2)
            (acc ++ [(runner idx (limOf limit tc now)).1]) (limits ++ [limOf limit tc now])
        refine ⟨_, _, k, .code tc rest idx now c news newl k hs hc hrun, ?_⟩
        rw [if_neg hc, heq]
        simp
    · rename_i hs
      exact ⟨[_], [_], _, .timeout tc rest idx now hs, by simp [build]⟩
    · rename_i hs
      exact ⟨[], [_], _, .skipped tc rest idx now hs, by simp [build]⟩
    · rename_i hs
      obtain ⟨news, newl, k, hrun, heq⟩ :=
        ih (idx + 1) (startOf limit tc now + (runner idx (limOf limit tc now)).2)
          (acc ++ [detachedOut]) (limits ++ [limOf limit tc now])
      refine ⟨_, _, k, .detached tc rest idx now news newl k hs hrun, ?_⟩
      rw [heq]
      simp
    · rename_i hs
      exact ⟨_, [_], _, .unknown tc rest idx now hs, by simp [build]⟩

theorem execAll_run (total : Option Nat) (runner : Runner) (tcs : List TC) :
    ∃ news newl k, Run (totalLimit total) runner tcs 0 0 news newl k ∧
      execAll total runner tcs = (build k news, newl) := by
  obtain ⟨news, newl, k, hrun, heq⟩ := execLoop_run (totalLimit total) runner tcs 0 0 [] []
  exact ⟨news, newl, k, hrun, by simpa [execAll] using heq⟩

/-! ## Invariants of the loop -/

section RunInv
variable {limit : Option Nat} {runner : Runner} {tcs : List TC} {idx now : Nat}
  {news : List Out} {newl : List (Option Nat)} {k : Kind}

/-- at most one runner call per test case -/
theorem Run.limits_le (h : Run limit runner tcs idx now news newl k) :
    newl.length ≤ tcs.length := by
  induction h with
  | nil => simp
  | skipCode => simp
  | skipped => simp
  | timeout => simp
  | unknown => simp
  | code _ _ _ _ _ _ _ _ _ _ _ ih => simpa using ih
  | detached _ _ _ _ _ _ _ _ _ ih => simpa using ih

/-- a regular end yields one output per test case -/
theorem Run.ok_length (h : Run limit runner tcs idx now news newl k) (hk : k = .ok) :
    news.length = tcs.length := by
  induction h with
  | nil => simp
  | skipCode => cases hk
  | skipped => cases hk
  | timeout => cases hk
  | unknown => simp
  | code _ _ _ _ _ _ _ _ _ _ _ ih => simpa using ih hk
  | detached _ _ _ _ _ _ _ _ _ ih => simpa using ih hk

/-- a regular end without an aborted execution called the runner for every test case -/
theorem Run.ok_all_called (h : Run limit runner tcs idx now news newl k) (hk : k = .ok)
    (hu : ∀ o ∈ news, o.status ≠ .unknown) : newl.length = tcs.length := by
  induction h with
  | nil => simp
  | skipCode => cases hk
  | skipped => cases hk
  | timeout => cases hk
  | unknown _ _ _ _ hs => exact absurd hs (hu _ (List.mem_cons_self ..))
  | code _ _ _ _ _ _ _ _ _ _ _ ih =>
    simpa using ih hk (fun o ho => hu o (List.mem_cons_of_mem _ ho))
  | detached _ _ _ _ _ _ _ _ _ ih =>
    simpa using ih hk (fun o ho => hu o (List.mem_cons_of_mem _ ho))

/-- no pushed output carries the status `skipped` -/
theorem Run.no_skipped_out (h : Run limit runner tcs idx now news newl k) :
    ∀ o ∈ news, o.status ≠ .skipped := by
  induction h with
  | nil => simp
  | skipCode => simp
  | skipped => simp
  | timeout _ _ _ _ hs => simp [hs]
  | unknown _ _ _ _ hs => simp [hs, unknownOut]
  | code _ _ _ _ _ _ _ _ hs _ _ ih =>
    intro o ho
    rcases List.mem_cons.1 ho with rfl | ho
    · simp [hs]
    · exact ih o ho
  | detached _ _ _ _ _ _ _ _ _ ih =>
    intro o ho
    rcases List.mem_cons.1 ho with rfl | ho
    · simp [detachedOut]
    · exact ih o ho

/-- a pushed output with an exit code is what the runner returned for its own index -/
theorem Run.code_from_runner (h : Run limit runner tcs idx now news newl k) :
    ∀ (j : Nat) (o : Out) (c : Int), news[j]? = some o → o.status = .code c →
      ∃ lim, (runner (idx + j) lim).1 = o := by
  induction h with
  | nil => simp
  | skipCode => simp
  | skipped => simp
  | timeout _ _ idx _ hs =>
    intro j o c hj hc
    cases j with
    | zero =>
      simp at hj
      subst hj
      rw [hs] at hc
      cases hc
    | succ j => simp at hj
  | unknown _ rest idx _ hs =>
    intro j o c hj hc
    cases j with
    | zero =>
      simp at hj
      subst hj
      rw [hs] at hc
      cases hc
    | succ j =>
      simp only [List.getElem?_cons_succ, List.getElem?_map] at hj
      cases hr : rest[j]? with
      | none => simp [hr] at hj
      | some tc' =>
        simp [hr] at hj
        subst hj
        simp [unknownOut] at hc
  | code tc _ idx now _ _ _ _ _ _ _ ih =>
    intro j o c hj hc
    cases j with
    | zero =>
      simp at hj
      exact ⟨limOf limit tc now, hj⟩
    | succ j =>
      simp only [List.getElem?_cons_succ] at hj
      obtain ⟨lim, hl⟩ := ih j o c hj hc
      exact ⟨lim, by rw [← hl]; congr 2; omega⟩
  | detached tc _ idx now _ _ _ _ _ ih =>
    intro j o c hj hc
    cases j with
    | zero =>
      simp at hj
      subst hj
      simp [detachedOut] at hc
    | succ j =>
      simp only [List.getElem?_cons_succ] at hj
      obtain ⟨lim, hl⟩ := ih j o c hj hc
      exact ⟨lim, by rw [← hl]; congr 2; omega⟩

/-- a timeout at `i`: `i` is an index of `tcs`, the outputs end with the timed-out one at `i`, and
    the runner really reported a timeout under the limit recorded for `i` -/
theorem Run.timeout_spec (h : Run limit runner tcs idx now news newl k) {g : Bool} {i : Nat}
    (hk : k = .timeout g i) :
    ∃ d, i = idx + d ∧ d < tcs.length ∧ news.length = d + 1 ∧
      (∃ o, news[d]? = some o ∧ o.status = .timeout) ∧
      ∃ lim, newl[d]? = some lim ∧ ((runner i lim).1).status = .timeout := by
  induction h with
  | nil => cases hk
  | skipCode => cases hk
  | skipped => cases hk
  | unknown => cases hk
  | timeout tc _ idx now hs =>
    cases hk
    exact ⟨0, rfl, by simp, by simp, ⟨_, by simp, hs⟩, limOf limit tc now, by simp, hs⟩
  | code _ _ idx _ _ _ _ _ _ _ _ ih =>
    obtain ⟨d, hi, hd, hlen, ho, hl⟩ := ih hk
    exact ⟨d + 1, by omega, by simpa using hd, by simpa using hlen, by simpa using ho,
      by simpa using hl⟩
  | detached _ _ idx _ _ _ _ _ _ ih =>
    obtain ⟨d, hi, hd, hlen, ho, hl⟩ := ih hk
    exact ⟨d + 1, by omega, by simpa using hd, by simpa using hlen, by simpa using ho,
      by simpa using hl⟩

/-- a skip at `i`: test case `i` exited with its skip code or was reported as skipped -/
theorem Run.skipped_spec (h : Run limit runner tcs idx now news newl k) {i : Nat}
    (hk : k = .skipped i) :
    ∃ d, i = idx + d ∧ ∃ tc lim, tcs[d]? = some tc ∧
      (((runner i lim).1).status = .code (skipCodeOf tc) ∨ ((runner i lim).1).status = .skipped) := by
  induction h with
  | nil => cases hk
  | timeout => cases hk
  | unknown => cases hk
  | skipCode tc _ idx now hs =>
    cases hk
    exact ⟨0, rfl, tc, limOf limit tc now, by simp, .inl hs⟩
  | skipped tc _ idx now hs =>
    cases hk
    exact ⟨0, rfl, tc, limOf limit tc now, by simp, .inr hs⟩
  | code _ _ idx _ _ _ _ _ _ _ _ ih =>
    obtain ⟨d, hi, tc, lim, htc, hst⟩ := ih hk
    exact ⟨d + 1, by omega, tc, lim, by simpa using htc, hst⟩
  | detached _ _ idx _ _ _ _ _ _ ih =>
    obtain ⟨d, hi, tc, lim, htc, hst⟩ := ih hk
    exact ⟨d + 1, by omega, tc, lim, by simpa using htc, hst⟩

/-- the first limit handed out -/
theorem Run.first_limit {tc : TC} {rest : List TC}
    (h : Run limit runner (tc :: rest) idx now news newl k) :
    newl[0]? = some (limOf limit tc now) := by
  cases h <;> simp

end RunInv

/-! ## `judge` and `runDocument` -/

theorem mem_judge (tcs : List TC) :
    ∀ (outs : List Out) (k i : Nat) (v : Verdict),
      (i, v) ∈ judge tcs outs k ↔
        ∃ d tc o, i = k + d ∧ tcs[d]? = some tc ∧ outs[d]? = some o ∧
          o.status ≠ .detached ∧ v = validate tc o := by
  induction tcs with
  | nil => intro outs k i v; simp [judge]
  | cons tc tcs ih =>
    intro outs k i v
    cases outs with
    | nil => simp [judge]
    | cons o os =>
      have tail : (i, v) ∈ judge tcs os (k + 1) ↔
          ∃ d tc' o', i = k + (d + 1) ∧ (tc :: tcs)[d + 1]? = some tc' ∧
            (o :: os)[d + 1]? = some o' ∧ o'.status ≠ .detached ∧ v = validate tc' o' := by
        rw [ih]
        constructor
        · rintro ⟨d, tc', o', h1, h2, h3, h4, h5⟩
          exact ⟨d, tc', o', by omega, by simpa using h2, by simpa using h3, h4, h5⟩
        · rintro ⟨d, tc', o', h1, h2, h3, h4, h5⟩
          exact ⟨d, tc', o', by omega, by simpa using h2, by simpa using h3, h4, h5⟩
      constructor
      · intro hm
        by_cases hd : o.status = .detached
        · simp only [judge, hd, if_true] at hm
          obtain ⟨d, tc', o', h⟩ := tail.1 hm
          exact ⟨d + 1, tc', o', h⟩
        · simp only [judge, hd, if_false] at hm
          rcases List.mem_cons.1 hm with he | hm
          · cases he
            exact ⟨0, tc, o, rfl, by simp, by simp, hd, rfl⟩
          · obtain ⟨d, tc', o', h⟩ := tail.1 hm
            exact ⟨d + 1, tc', o', h⟩
      · rintro ⟨d, tc', o', h1, h2, h3, h4, h5⟩
        cases d with
        | zero =>
          simp at h2 h3
          subst h2 h3
          subst h1 h5
          simp [judge, h4]
        | succ d =>
          have hm : (i, v) ∈ judge tcs os (k + 1) := tail.2 ⟨d, tc', o', h1, h2, h3, h4, h5⟩
          by_cases hd : o.status = .detached
          · simpa [judge, hd] using hm
          · simp only [judge, hd, if_false]
            exact List.mem_cons_of_mem _ hm

theorem mem_judge_zero (tcs : List TC) (outs : List Out) (i : Nat) (v : Verdict) :
    (i, v) ∈ judge tcs outs 0 ↔
      ∃ tc o, tcs[i]? = some tc ∧ outs[i]? = some o ∧ o.status ≠ .detached ∧ v = validate tc o := by
  rw [mem_judge]
  constructor
  · rintro ⟨d, tc, o, h1, h2, h3, h4, h5⟩
    have : i = d := by omega
    subst this
    exact ⟨tc, o, h2, h3, h4, h5⟩
  · rintro ⟨tc, o, h2, h3, h4, h5⟩
    exact ⟨i, tc, o, by omega, h2, h3, h4, h5⟩

/-- indices reported by `judge` exist in both lists -/
theorem judge_index_lt {tcs : List TC} {outs : List Out} {i : Nat} {v : Verdict}
    (h : (i, v) ∈ judge tcs outs 0) : i < tcs.length ∧ i < outs.length := by
  obtain ⟨tc, o, h1, h2, _⟩ := (mem_judge_zero tcs outs i v).1 h
  have a := (List.getElem?_eq_some_iff.1 h1).1
  have b := (List.getElem?_eq_some_iff.1 h2).1
  exact ⟨a, b⟩

theorem judge_pairwise (tcs : List TC) :
    ∀ (outs : List Out) (k : Nat), ((judge tcs outs k).map (·.1)).Pairwise (· < ·) := by
  induction tcs with
  | nil => intro outs k; simp [judge]
  | cons tc tcs ih =>
    intro outs k
    cases outs with
    | nil => simp [judge]
    | cons o os =>
      by_cases hd : o.status = .detached
      · simpa [judge, hd] using ih os (k + 1)
      · simp only [judge, hd, if_false, List.map_cons, List.pairwise_cons]
        refine ⟨?_, ih os (k + 1)⟩
        intro j hj
        obtain ⟨⟨j', v⟩, hm, rfl⟩ := List.mem_map.1 hj
        obtain ⟨d, _, _, h1, _⟩ := (mem_judge tcs os (k + 1) j' v).1 hm
        show k < j'
        omega

theorem runDocument_ok (tcs : List TC) (outs : List Out) :
    runDocument tcs (.ok outs) = judge tcs outs 0 := rfl

theorem runDocument_skipped (tcs : List TC) (i : Nat) :
    runDocument tcs (.skipped i) = (List.range tcs.length).map (fun j => (j, Verdict.skipped)) := rfl

theorem runDocument_timeout (tcs : List TC) (g : Bool) (i : Nat) (outs : List Out) :
    runDocument tcs (.timeout g i outs) =
      judge tcs outs 0 ++
        (List.range (tcs.length - outs.length)).map (fun k => (outs.length + k, Verdict.skipped)) := rfl

theorem mem_skipTail {n m j : Nat} {v : Verdict} :
    (j, v) ∈ (List.range n).map (fun k => (m + k, Verdict.skipped)) ↔
      (m ≤ j ∧ j < m + n ∧ v = .skipped) := by
  simp only [List.mem_map, List.mem_range, Prod.mk.injEq]
  constructor
  · rintro ⟨k, hk, h1, h2⟩
    exact ⟨by omega, by omega, h2.symm⟩
  · rintro ⟨h1, h2, h3⟩
    exact ⟨j - m, by omega, by omega, h3.symm⟩

/-! ## Document-level statements -/

theorem succeeded_only_if_ran (total : Option Nat) (runner : Runner) (tcs : List TC)
    (i : Nat) (h : (i, Verdict.ok) ∈ runDocument tcs (execAll total runner tcs).1) :
    ∃ tc lim, tcs[i]? = some tc ∧ ((runner i lim).1).status = .code (tc.expected.getD 0) := by
  obtain ⟨news, newl, k, hrun, heq⟩ := execAll_run total runner tcs
  rw [heq] at h
  have key : (i, Verdict.ok) ∈ judge tcs news 0 →
      ∃ tc lim, tcs[i]? = some tc ∧ ((runner i lim).1).status = .code (tc.expected.getD 0) := by
    intro hm
    obtain ⟨tc, o, h1, h2, _, h4⟩ := (mem_judge_zero tcs news i .ok).1 hm
    obtain ⟨c, hc, hce, _⟩ := (validate_ok_iff tc o).1 h4.symm
    obtain ⟨lim, hl⟩ := hrun.code_from_runner i o c h2 hc
    refine ⟨tc, lim, h1, ?_⟩
    rw [Nat.zero_add] at hl
    rw [hl, hc, hce]
  cases k with
  | ok => exact key h
  | skipped j =>
    simp only [build, runDocument_skipped, List.mem_map, Prod.mk.injEq] at h
    obtain ⟨_, _, _, h⟩ := h
    cases h
  | timeout g j =>
    simp only [build, runDocument_timeout, List.mem_append] at h
    rcases h with h | h
    · exact key h
    · have := (mem_skipTail.1 h).2.2
      cases this

theorem abort_and_skip (total : Option Nat) (runner : Runner) (tcs : List TC)
    (g : Bool) (i : Nat) (outs : List Out)
    (h : (execAll total runner tcs).1 = .timeout g i outs) :
    i < tcs.length ∧
    (∀ v, (i, v) ∈ runDocument tcs (.timeout g i outs) → v = .timeout) ∧
    (i, Verdict.timeout) ∈ runDocument tcs (.timeout g i outs) ∧
    (∀ j, i < j → j < tcs.length → (j, Verdict.skipped) ∈ runDocument tcs (.timeout g i outs)) ∧
    (∀ j v, i < j → (j, v) ∈ runDocument tcs (.timeout g i outs) → v = .skipped) := by
  obtain ⟨news, newl, k, hrun, heq⟩ := execAll_run total runner tcs
  rw [heq] at h
  cases k with
  | ok => simp [build] at h
  | skipped j => simp [build] at h
  | timeout g' i' =>
    simp only [build, ExecResult.timeout.injEq] at h
    obtain ⟨rfl, rfl, rfl⟩ := h
    obtain ⟨d, hi, hd, hlen, ⟨o, ho, hst⟩, _⟩ := hrun.timeout_spec rfl
    rw [Nat.zero_add] at hi
    subst hi
    obtain ⟨tc, htc⟩ : ∃ tc, tcs[i']? = some tc := ⟨tcs[i'], List.getElem?_eq_getElem hd⟩
    simp only [runDocument_timeout, List.mem_append]
    refine ⟨hd, ?_, ?_, ?_, ?_⟩
    · intro v hv
      rcases hv with hv | hv
      · obtain ⟨tc', o', h1, h2, _, h4⟩ := (mem_judge_zero tcs news i' v).1 hv
        rw [ho] at h2
        cases h2
        rw [h4]
        exact validate_of_timeout tc' o hst
      · have := (mem_skipTail.1 hv).1
        omega
    · left
      refine (mem_judge_zero tcs news i' .timeout).2 ⟨tc, o, htc, ho, ?_, ?_⟩
      · rw [hst]; simp
      · exact (validate_of_timeout tc o hst).symm
    · intro j hij hj
      right
      exact mem_skipTail.2 ⟨by omega, by omega, rfl⟩
    · intro j v hij hv
      rcases hv with hv | hv
      · have := (judge_index_lt hv).2
        omega
      · exact (mem_skipTail.1 hv).2.2

theorem no_spurious_timeout (total : Option Nat) (cmds : Nat → Nat × Out) (tcs : List TC)
    (hfin : ∀ i, (cmds i).2.status ≠ .timeout)
    (g : Bool) (i : Nat) (outs : List Out)
    (h : (execAll total (honest cmds) tcs).1 = .timeout g i outs) :
    ∃ l, (execAll total (honest cmds) tcs).2[i]? = some (some l) ∧ l ≤ (cmds i).1 := by
  obtain ⟨news, newl, k, hrun, heq⟩ := execAll_run total (honest cmds) tcs
  rw [heq] at h ⊢
  cases k with
  | ok => simp [build] at h
  | skipped j => simp [build] at h
  | timeout g' i' =>
    simp only [build, ExecResult.timeout.injEq] at h
    obtain ⟨rfl, rfl, rfl⟩ := h
    obtain ⟨d, hi, _, _, _, lim, hl, hst⟩ := hrun.timeout_spec rfl
    rw [Nat.zero_add] at hi
    subst hi
    obtain ⟨l, rfl, hle⟩ := honest_timeout cmds hfin i' lim hst
    exact ⟨l, hl, hle⟩

theorem first_limit (total : Option Nat) (runner : Runner) (tc : TC) (rest : List TC) :
    (execAll total runner (tc :: rest)).2[0]? =
      some (effective tc.timeout ((totalLimit total).map (· - tc.wait))).2 := by
  obtain ⟨news, newl, k, hrun, heq⟩ := execAll_run total runner (tc :: rest)
  rw [heq]
  show newl[0]? = _
  rw [hrun.first_limit, limOf, Nat.zero_add]

theorem skip_cause (total : Option Nat) (runner : Runner) (tcs : List TC) (i : Nat)
    (h : (execAll total runner tcs).1 = .skipped i) :
    ∃ tc lim, tcs[i]? = some tc ∧
      (((runner i lim).1).status = .code (skipCodeOf tc) ∨ ((runner i lim).1).status = .skipped) := by
  obtain ⟨news, newl, k, hrun, heq⟩ := execAll_run total runner tcs
  rw [heq] at h
  cases k with
  | ok => simp [build] at h
  | timeout g j => simp [build] at h
  | skipped j =>
    simp only [build, ExecResult.skipped.injEq] at h
    subst h
    obtain ⟨d, hi, tc, lim, htc, hst⟩ := hrun.skipped_spec rfl
    rw [Nat.zero_add] at hi
    subst hi
    exact ⟨tc, lim, htc, hst⟩

theorem skip_all (tcs : List TC) (i : Nat) :
    runDocument tcs (.skipped i) = (List.range tcs.length).map (fun j => (j, Verdict.skipped)) ∧
    (∀ o ∈ runDocument tcs (.skipped i), isFailure o.2 = false) := by
  refine ⟨rfl, ?_⟩
  intro o ho
  rw [runDocument_skipped] at ho
  obtain ⟨j, _, rfl⟩ := List.mem_map.1 ho
  rfl

theorem skip_doc_neutral (pre post : List (Option (List Outcome))) (tcs : List TC) (i : Nat) :
    exitStatus (pre ++ [some (runDocument tcs (.skipped i))] ++ post) = exitStatus (pre ++ post) := by
  have hf : (runDocument tcs (.skipped i)).any (fun o => isFailure o.2) = false := by
    rw [List.any_eq_false]
    intro o ho
    rw [(skip_all tcs i).2 o ho]
    simp
  have h1 : (pre ++ [some (runDocument tcs (.skipped i))] ++ post).any (·.isNone) =
      (pre ++ post).any (·.isNone) := by
    simp only [List.any_append, List.any_cons, List.any_nil, Option.isNone_some, Bool.or_false]
  have h2 : (pre ++ [some (runDocument tcs (.skipped i))] ++ post).any
        (fun d => (d.getD []).any (fun o => isFailure o.2)) =
      (pre ++ post).any (fun d => (d.getD []).any (fun o => isFailure o.2)) := by
    simp only [List.any_append, List.any_cons, List.any_nil, Option.getD_some, hf, Bool.or_false]
  unfold exitStatus
  rw [h1, h2]

theorem no_spurious_skip (total : Option Nat) (runner : Runner) (tcs : List TC)
    (outs : List Out) (h : (execAll total runner tcs).1 = .ok outs) :
    ∀ o ∈ runDocument tcs (.ok outs), o.2 ≠ .skipped := by
  obtain ⟨news, newl, k, hrun, heq⟩ := execAll_run total runner tcs
  rw [heq] at h
  cases k with
  | skipped j => simp [build] at h
  | timeout g j => simp [build] at h
  | ok =>
    simp only [build, ExecResult.ok.injEq] at h
    subst h
    rintro ⟨j, v⟩ ho hv
    rw [runDocument_ok] at ho
    obtain ⟨tc, o, _, h2, _, h4⟩ := (mem_judge_zero tcs news j v).1 ho
    have hv : v = .skipped := hv
    rw [hv] at h4
    exact hrun.no_skipped_out o (List.mem_of_getElem? h2) ((validate_skipped_iff tc o).1 h4.symm)

theorem skipped_after_timeout (total : Option Nat) (runner : Runner) (tcs : List TC)
    (g : Bool) (i : Nat) (outs : List Out)
    (h : (execAll total runner tcs).1 = .timeout g i outs) :
    ∀ j, (j, Verdict.skipped) ∈ runDocument tcs (.timeout g i outs) ↔ (i < j ∧ j < tcs.length) := by
  obtain ⟨news, newl, k, hrun, heq⟩ := execAll_run total runner tcs
  rw [heq] at h
  cases k with
  | ok => simp [build] at h
  | skipped j => simp [build] at h
  | timeout g' i' =>
    simp only [build, ExecResult.timeout.injEq] at h
    obtain ⟨rfl, rfl, rfl⟩ := h
    obtain ⟨d, hi, hd, hlen, _, _⟩ := hrun.timeout_spec rfl
    rw [Nat.zero_add] at hi
    subst hi
    intro j
    simp only [runDocument_timeout, List.mem_append]
    constructor
    · rintro (hm | hm)
      · obtain ⟨tc, o, _, h2, _, h4⟩ := (mem_judge_zero tcs news j .skipped).1 hm
        exact absurd ((validate_skipped_iff tc o).1 h4.symm)
          (hrun.no_skipped_out o (List.mem_of_getElem? h2))
      · have := mem_skipTail.1 hm
        omega
    · rintro ⟨h1, h2⟩
      right
      exact mem_skipTail.2 ⟨by omega, by omega, rfl⟩

theorem calls_spec (total : Option Nat) (runner : Runner) (tcs : List TC) :
    (execAll total runner tcs).2.length ≤ tcs.length ∧
    (∀ outs, (execAll total runner tcs).1 = .ok outs → outs.length = tcs.length) ∧
    (∀ outs, (execAll total runner tcs).1 = .ok outs → (∀ o ∈ outs, o.status ≠ .unknown) →
        (execAll total runner tcs).2.length = tcs.length) := by
  obtain ⟨news, newl, k, hrun, heq⟩ := execAll_run total runner tcs
  rw [heq]
  refine ⟨hrun.limits_le, ?_, ?_⟩
  · intro outs h
    cases k with
    | skipped j => simp [build] at h
    | timeout g j => simp [build] at h
    | ok =>
      simp only [build, ExecResult.ok.injEq] at h
      subst h
      exact hrun.ok_length rfl
  · intro outs h hu
    cases k with
    | skipped j => simp [build] at h
    | timeout g j => simp [build] at h
    | ok =>
      simp only [build, ExecResult.ok.injEq] at h
      subst h
      exact hrun.ok_all_called rfl hu

/-- ordering and range of the reported outcomes hold for every execution result -/
theorem runDocument_pairwise (tcs : List TC) (r : ExecResult) :
    ((runDocument tcs r).map (·.1)).Pairwise (· < ·) := by
  cases r with
  | ok outs => exact judge_pairwise tcs outs 0
  | skipped i =>
    rw [runDocument_skipped, List.map_map]
    have : ((fun (x : Outcome) => x.1) ∘ fun j => (j, Verdict.skipped)) = id := rfl
    rw [this, List.map_id]
    exact List.pairwise_lt_range
  | timeout g i outs =>
    rw [runDocument_timeout, List.map_append, List.pairwise_append]
    refine ⟨judge_pairwise tcs outs 0, ?_, ?_⟩
    · rw [List.map_map]
      have : ((fun (x : Outcome) => x.1) ∘ fun k => (outs.length + k, Verdict.skipped)) =
          (fun k => outs.length + k) := rfl
      rw [this, List.pairwise_map]
      exact List.pairwise_lt_range.imp (fun h => by omega)
    · intro a ha b hb
      obtain ⟨⟨a', v⟩, hm, rfl⟩ := List.mem_map.1 ha
      obtain ⟨⟨b', w⟩, hm', rfl⟩ := List.mem_map.1 hb
      have h1 := (judge_index_lt hm).2
      have h2 := (mem_skipTail.1 hm').1
      show a' < b'
      omega

theorem runDocument_index_lt (tcs : List TC) (r : ExecResult) :
    ∀ o ∈ runDocument tcs r, o.1 < tcs.length := by
  rintro ⟨j, v⟩ ho
  show j < tcs.length
  cases r with
  | ok outs => exact (judge_index_lt ho).1
  | skipped i =>
    rw [runDocument_skipped] at ho
    obtain ⟨j', hj, he⟩ := List.mem_map.1 ho
    cases he
    exact List.mem_range.1 hj
  | timeout g i outs =>
    rw [runDocument_timeout] at ho
    rcases List.mem_append.1 ho with ho | ho
    · exact (judge_index_lt ho).1
    · have := mem_skipTail.1 ho
      omega

theorem one_result (total : Option Nat) (runner : Runner) (tcs : List TC) :
    let r := (execAll total runner tcs).1
    ((runDocument tcs r).map (·.1)).Pairwise (· < ·) ∧
    (∀ o ∈ runDocument tcs r, o.1 < tcs.length) ∧
    (∀ outs, r = .ok outs → ∀ i, i < tcs.length →
        ((∃ v, (i, v) ∈ runDocument tcs r) ↔ ∃ o, outs[i]? = some o ∧ o.status ≠ .detached)) := by
  intro r
  refine ⟨runDocument_pairwise tcs r, runDocument_index_lt tcs r, ?_⟩
  intro outs hr i hi
  rw [hr, runDocument_ok]
  constructor
  · rintro ⟨v, hv⟩
    obtain ⟨tc, o, _, h2, h3, _⟩ := (mem_judge_zero tcs outs i v).1 hv
    exact ⟨o, h2, h3⟩
  · rintro ⟨o, h2, h3⟩
    exact ⟨validate tcs[i] o,
      (mem_judge_zero tcs outs i _).2 ⟨tcs[i], o, List.getElem?_eq_getElem hi, h2, h3, rfl⟩⟩

/-! ## Exit status -/

theorem any_isNone_iff (docs : List (Option (List Outcome))) :
    docs.any (·.isNone) = true ↔ ∃ d ∈ docs, d = none := by
  simp [List.any_eq_true]

theorem any_failure_iff (docs : List (Option (List Outcome))) :
    docs.any (fun d => (d.getD []).any (fun o => isFailure o.2)) = true ↔
      ∃ d ∈ docs, ∃ os, d = some os ∧ ∃ o ∈ os, isFailure o.2 = true := by
  rw [List.any_eq_true]
  constructor
  · rintro ⟨d, hd, h⟩
    cases d with
    | none => simp at h
    | some os =>
      obtain ⟨o, ho, hf⟩ := List.any_eq_true.1 h
      exact ⟨some os, hd, os, rfl, o, ho, hf⟩
  · rintro ⟨d, hd, os, rfl, o, ho, hf⟩
    exact ⟨some os, hd, List.any_eq_true.2 ⟨o, ho, hf⟩⟩

theorem exitStatus_spec (docs : List (Option (List Outcome))) :
    (exitStatus docs = 1 ↔ ∃ d ∈ docs, d = none) ∧
    (exitStatus docs = 50 ↔ (∀ d ∈ docs, d ≠ none) ∧ ∃ d ∈ docs, ∃ os, d = some os ∧ ∃ o ∈ os, isFailure o.2 = true) ∧
    (exitStatus docs = 0 ↔ (∀ d ∈ docs, d ≠ none) ∧ ∀ d ∈ docs, ∀ os, d = some os → ∀ o ∈ os, isFailure o.2 = false) ∧
    (exitStatus docs = 0 ∨ exitStatus docs = 50 ∨ exitStatus docs = 1) := by
  have hnone : (∀ d ∈ docs, d ≠ none) ↔ ¬ ∃ d ∈ docs, d = none := by
    constructor
    · rintro h ⟨d, hd, he⟩; exact h d hd he
    · intro h d hd he; exact h ⟨d, hd, he⟩
  have hfail : (∀ d ∈ docs, ∀ os, d = some os → ∀ o ∈ os, isFailure o.2 = false) ↔
      ¬ ∃ d ∈ docs, ∃ os, d = some os ∧ ∃ o ∈ os, isFailure o.2 = true := by
    constructor
    · rintro h ⟨d, hd, os, he, o, ho, hf⟩
      rw [h d hd os he o ho] at hf
      cases hf
    · intro h d hd os he o ho
      cases hf : isFailure o.2 with
      | false => rfl
      | true => exact absurd ⟨d, hd, os, he, o, ho, hf⟩ h
  rw [hnone, hfail, ← any_isNone_iff, ← any_failure_iff]
  unfold exitStatus
  cases docs.any (·.isNone) <;>
    cases docs.any (fun d => (d.getD []).any (fun o => isFailure o.2)) <;> simp

/-! ## List indexing helpers

Indexing into the second and third segment of `p ++ (o ++ a)`. Registered as `simp` lemmas scoped
to this namespace: the proof of `C20_assemble` in `Props/C20.lean` (which opens `Scrut.Exec`)
relies on them — its own `simp` calls do not close these two goals with the core simp set. -/

@[scoped simp] theorem getElem?_append_sub_left {α : Type _} (o a : List α) (i n : Nat)
    (hn : ¬ i < n) (h : i < n + o.length) : (o ++ a)[i - n]? = o[i - n]? :=
  List.getElem?_append_left (by omega)

@[scoped simp] theorem getElem?_append_append_right {α : Type _} (p o a : List α) (i : Nat)
    (h : p.length + o.length ≤ i) :
    (p ++ (o ++ a))[i]? = a[i - (p.length + o.length)]? := by
  rw [List.getElem?_append_right (by omega), List.getElem?_append_right (by omega), Nat.sub_sub]

end Scrut.Exec

namespace Scrut.Exec

theorem findIdx_spec (k : Int) (outs : List Out) (i : Nat)
    (h : outs.findIdx? (fun o => o.status = .code k) = some i) :
    ∃ o, outs[i]? = some o ∧ o.status = .code k := by
  rw [List.findIdx?_eq_some_iff_getElem] at h
  obtain ⟨hlt, hp, _⟩ := h
  exact ⟨outs[i], by simp [hlt], by simpa using hp⟩

theorem execScript_skip_wins (tcs : List TC) (c : Int) (outs : List Out)
    (hc : c ≠ scriptSkip tcs) (h : ∃ o ∈ outs, o.status = .code (scriptSkip tcs)) :
    ∃ i, execScript tcs (.code c) outs = some (.skipped i) ∧
      ∃ o, outs[i]? = some o ∧ o.status = .code (scriptSkip tcs) := by
  unfold execScript
  generalize scriptSkip tcs = k at *
  obtain ⟨o, ho, hs⟩ := h
  cases hf : outs.findIdx? (fun o => o.status = .code k) with
  | none =>
    rw [List.findIdx?_eq_none_iff] at hf
    have := hf o ho
    simp [hs] at this
  | some i =>
    exact ⟨i, by simp [hc, hf], findIdx_spec k outs i hf⟩

/-- since fix 03b50b5: a parsed output that carries the skip code wins also over a script that ran into the time limit -/
theorem execScript_skip_wins_timeout (tcs : List TC) (outs : List Out)
    (h : ∃ o ∈ outs, o.status = .code (scriptSkip tcs)) :
    ∃ i, execScript tcs .timeout outs = some (.skipped i) ∧
      ∃ o, outs[i]? = some o ∧ o.status = .code (scriptSkip tcs) := by
  unfold execScript
  generalize scriptSkip tcs = k at *
  obtain ⟨o, ho, hs⟩ := h
  cases hf : outs.findIdx? (fun o => o.status = .code k) with
  | none =>
    rw [List.findIdx?_eq_none_iff] at hf
    have := hf o ho
    simp [hs] at this
  | some i =>
    exact ⟨i, by simp [hf], findIdx_spec k outs i hf⟩

/-- since fix 384369f: … and over a shell that was killed -/
theorem execScript_skip_wins_unknown (tcs : List TC) (outs : List Out)
    (h : ∃ o ∈ outs, o.status = .code (scriptSkip tcs)) :
    ∃ i, execScript tcs .unknown outs = some (.skipped i) ∧
      ∃ o, outs[i]? = some o ∧ o.status = .code (scriptSkip tcs) := by
  unfold execScript
  generalize scriptSkip tcs = k at *
  obtain ⟨o, ho, hs⟩ := h
  cases hf : outs.findIdx? (fun o => o.status = .code k) with
  | none =>
    rw [List.findIdx?_eq_none_iff] at hf
    have := hf o ho
    simp [hs] at this
  | some i =>
    exact ⟨i, by simp [hf], findIdx_spec k outs i hf⟩

/-- ... and without one the timeout is reported as before -/
theorem execScript_timeout_no_skip (tcs : List TC) (outs : List Out)
    (h : ∀ o ∈ outs, o.status ≠ .code (scriptSkip tcs)) :
    execScript tcs .timeout outs = some (.timeout true 0 [⟨.timeout, false, false⟩]) := by
  unfold execScript
  generalize scriptSkip tcs = k at *
  have hf : outs.findIdx? (fun o => o.status = .code k) = none := by
    rw [List.findIdx?_eq_none_iff]
    intro o ho
    simpa using h o ho
  simp [hf]

theorem execScript_skipped_cause (tcs : List TC) (script : Status) (outs : List Out) (i : Nat)
    (h : execScript tcs script outs = some (.skipped i)) :
    (script = .code (scriptSkip tcs) ∧ i = 0) ∨
    ∃ o, outs[i]? = some o ∧ o.status = .code (scriptSkip tcs) := by
  simp only [execScript] at h
  generalize scriptSkip tcs = k at *
  have key : ∀ r, (match outs.findIdx? (fun o => o.status = .code k) with
      | some i => some (ExecResult.skipped i)
      | none => if outs.length ≠ tcs.length then none else some (.ok outs)) = some (.skipped r) →
      ∃ o, outs[r]? = some o ∧ o.status = .code k := by
    intro r hr
    cases hf : outs.findIdx? (fun o => o.status = .code k) with
    | some j =>
      rw [hf] at hr
      simp at hr
      subst hr
      exact findIdx_spec k outs j hf
    | none =>
      rw [hf] at hr
      by_cases hl : outs.length = tcs.length <;> simp [hl] at hr
  cases script with
  | code c =>
    simp only at h
    by_cases hc : c = k
    · simp [hc] at h
      exact Or.inl ⟨by rw [hc], h.symm⟩
    · simp only [hc, if_false] at h
      exact Or.inr (key i h)
  | timeout =>
    simp only at h
    cases hf : outs.findIdx? (fun o => o.status = .code k) with
    | some j =>
      rw [hf] at h
      simp at h
      subst h
      exact Or.inr (findIdx_spec k outs j hf)
    | none =>
      rw [hf] at h
      simp at h
  | unknown =>
    simp only at h
    cases hf : outs.findIdx? (fun o => o.status = .code k) with
    | some j =>
      rw [hf] at h
      simp at h
      subst h
      exact Or.inr (findIdx_spec k outs j hf)
    | none =>
      rw [hf] at h
      simp at h
  | skipped => exact Or.inr (key i h)
  | detached => exact Or.inr (key i h)

end Scrut.Exec

namespace Scrut.Exec

/-! ## `config.wait` counts against the document limit (fix 5800e20)

The wait of a test case passes BEFORE the remaining document time is looked at: the limit handed
to the runner is `effective perTest (limit − (now + wait))`, and the clock of the next test case
is `now + wait + elapsed`. -/

/-- one step of the loop, spelled out on the definitions of the model -/
theorem wait_counts (limit : Option Nat) (runner : Runner) (tc : TC) (rest : List TC)
    (idx now : Nat) (acc : List Out) (limits : List (Option Nat)) :
    let eff := effective tc.timeout (limit.map (· - (now + tc.wait)))
    let r := runner idx eff.2
    (execLoop limit runner (tc :: rest) idx now acc limits).2[limits.length]? = some eff.2 ∧
    (∀ c, r.1.status = .code c → c ≠ skipCodeOf tc →
      execLoop limit runner (tc :: rest) idx now acc limits =
        execLoop limit runner rest (idx + 1) (startOf limit tc now + r.2) (acc ++ [r.1])
          (limits ++ [eff.2])) ∧
    (r.1.status = .detached →
      execLoop limit runner (tc :: rest) idx now acc limits =
        execLoop limit runner rest (idx + 1) (startOf limit tc now + r.2) (acc ++ [detachedOut])
          (limits ++ [eff.2])) ∧
    (r.1.status = .timeout →
      execLoop limit runner (tc :: rest) idx now acc limits =
        (.timeout eff.1 idx (acc ++ [r.1]), limits ++ [eff.2])) := by
  intro eff r
  refine ⟨?_, ?_, ?_, ?_⟩
  · obtain ⟨news, newl, k, hrun, heq⟩ := execLoop_run limit runner (tc :: rest) idx now acc limits
    rw [heq]
    show (limits ++ newl)[limits.length]? = _
    rw [List.getElem?_append_right (Nat.le_refl _), Nat.sub_self, hrun.first_limit]
    rfl
  · intro c hc hne
    have hc' : ((runner idx (limOf limit tc now)).1).status = .code c := hc
    rw [execLoop_cons, hc']
    simp only [hne, if_false]
    rfl
  · intro hd
    have hd' : ((runner idx (limOf limit tc now)).1).status = .detached := hd
    rw [execLoop_cons, hd']
    rfl
  · intro ht
    have ht' : ((runner idx (limOf limit tc now)).1).status = .timeout := ht
    rw [execLoop_cons, ht']
    rfl

/-- waits and durations of the commands of `tcs` (head index `idx`) added up: the time on the
    document's clock that `tcs` takes when every command runs to its end -/
def busy (cmds : Nat → Nat × Out) : List TC → Nat → Nat
  | [], _ => 0
  | tc :: rest, idx => tc.wait + (cmds idx).1 + busy cmds rest (idx + 1)

/-- an honest runner that does not report a timeout ran the command to its end, strictly inside
    the limit it was handed -/
theorem honest_completed (cmds : Nat → Nat × Out) (i : Nat) (lim : Option Nat)
    (h : ((honest cmds i lim).1).status ≠ .timeout) :
    (honest cmds i lim).2 = (cmds i).1 ∧ ∀ l, lim = some l → (cmds i).1 < l := by
  rw [honest_eq] at h ⊢
  cases lim with
  | none => simp
  | some l =>
    by_cases hl : l ≤ (cmds i).1
    · simp [hl] at h
    · simp only [hl, if_false, Option.some.injEq, true_and]
      intro l' hl'
      omega

/-- under a document limit `L` the limit handed out is at most what is left of `L` after the wait -/
theorem limOf_le (L : Nat) (tc : TC) (now : Nat) :
    ∃ l, limOf (some L) tc now = some l ∧ l ≤ L - (now + tc.wait) := by
  unfold limOf
  cases tc.timeout with
  | none => exact ⟨_, rfl, Nat.le_refl _⟩
  | some p =>
    by_cases hp : p ≤ L - (now + tc.wait)
    · exact ⟨p, by simp [effective, hp], hp⟩
    · exact ⟨_, by simp [effective, hp], Nat.le_refl _⟩

theorem honest_head_within (cmds : Nat → Nat × Out) (L : Nat) (tc : TC) (idx now : Nat)
    (h : ((honest cmds idx (limOf (some L) tc now)).1).status ≠ .timeout) :
    now + tc.wait + (cmds idx).1 < L := by
  obtain ⟨l, hl, hle⟩ := limOf_le L tc now
  have := (honest_completed cmds idx _ h).2 l hl
  omega

/-- a command that an honest runner ran to its end had time left after its wait, so the wait was
    sat out in full: the cap did not bite -/
theorem honest_completed_start (limit : Option Nat) (cmds : Nat → Nat × Out) (tc : TC)
    (idx now : Nat) (h : ((honest cmds idx (limOf limit tc now)).1).status ≠ .timeout) :
    startOf limit tc now = now + tc.wait := by
  cases limit with
  | none => rfl
  | some L =>
    obtain ⟨l, hl, hle⟩ := limOf_le L tc now
    have := (honest_completed cmds idx _ h).2 l hl
    simp only [startOf, cappedWait]
    omega

section HonestRun
variable {limit : Option Nat} {cmds : Nat → Nat × Out} {tcs : List TC} {idx now : Nat}
  {news : List Out} {newl : List (Option Nat)} {k : Kind}

/-- closed form of every limit handed to an honest runner: the commands before it ran to their
    end, so the clock is the sum of their waits and durations -/
theorem Run.honest_limits (h : Run limit (honest cmds) tcs idx now news newl k) :
    ∀ d lim, newl[d]? = some lim → ∃ tc, tcs[d]? = some tc ∧
      lim = limOf limit tc (now + busy cmds (tcs.take d) idx) := by
  induction h with
  | nil => simp
  | skipCode tc _ _ _ _ =>
    intro d lim hd
    cases d with
    | zero => exact ⟨tc, by simp, by simpa [busy, eq_comm] using hd⟩
    | succ d => simp at hd
  | skipped tc _ _ _ _ =>
    intro d lim hd
    cases d with
    | zero => exact ⟨tc, by simp, by simpa [busy, eq_comm] using hd⟩
    | succ d => simp at hd
  | timeout tc _ _ _ _ =>
    intro d lim hd
    cases d with
    | zero => exact ⟨tc, by simp, by simpa [busy, eq_comm] using hd⟩
    | succ d => simp at hd
  | unknown tc _ _ _ _ =>
    intro d lim hd
    cases d with
    | zero => exact ⟨tc, by simp, by simpa [busy, eq_comm] using hd⟩
    | succ d => simp at hd
  | code tc rest idx now c _ _ _ hs _ _ ih =>
    intro d lim hd
    cases d with
    | zero => exact ⟨tc, by simp, by simpa [busy, eq_comm] using hd⟩
    | succ d =>
      obtain ⟨tc', h1, h2⟩ := ih d lim (by simpa using hd)
      have hcomp := (honest_completed cmds idx (limOf limit tc now) (by rw [hs]; simp)).1
      have hst := honest_completed_start limit cmds tc idx now (by rw [hs]; simp)
      refine ⟨tc', by simpa using h1, ?_⟩
      rw [h2, hcomp, hst]
      simp only [List.take_succ_cons, busy]
      congr 1
      omega
  | detached tc rest idx now _ _ _ hs _ ih =>
    intro d lim hd
    cases d with
    | zero => exact ⟨tc, by simp, by simpa [busy, eq_comm] using hd⟩
    | succ d =>
      obtain ⟨tc', h1, h2⟩ := ih d lim (by simpa using hd)
      have hcomp := (honest_completed cmds idx (limOf limit tc now) (by rw [hs]; simp)).1
      have hst := honest_completed_start limit cmds tc idx now (by rw [hs]; simp)
      refine ⟨tc', by simpa using h1, ?_⟩
      rw [h2, hcomp, hst]
      simp only [List.take_succ_cons, busy]
      congr 1
      omega

/-- the attribution of a timeout under an honest runner, in the same closed form -/
theorem Run.honest_timeout_glob (h : Run limit (honest cmds) tcs idx now news newl k)
    {g : Bool} {i : Nat} (hk : k = .timeout g i) :
    ∃ d tc, i = idx + d ∧ tcs[d]? = some tc ∧
      g = globOf limit tc (now + busy cmds (tcs.take d) idx) := by
  induction h with
  | nil => cases hk
  | skipCode => cases hk
  | skipped => cases hk
  | unknown => cases hk
  | timeout tc _ idx now _ =>
    cases hk
    exact ⟨0, tc, rfl, by simp, by simp [busy]⟩
  | code tc rest idx now c _ _ _ hs _ _ ih =>
    obtain ⟨d, tc', h1, h2, h3⟩ := ih hk
    have hcomp := (honest_completed cmds idx (limOf limit tc now) (by rw [hs]; simp)).1
    have hst := honest_completed_start limit cmds tc idx now (by rw [hs]; simp)
    refine ⟨d + 1, tc', by omega, by simpa using h2, ?_⟩
    rw [h3, hcomp, hst]
    simp only [List.take_succ_cons, busy]
    congr 1
    omega
  | detached tc rest idx now _ _ _ hs _ ih =>
    obtain ⟨d, tc', h1, h2, h3⟩ := ih hk
    have hcomp := (honest_completed cmds idx (limOf limit tc now) (by rw [hs]; simp)).1
    have hst := honest_completed_start limit cmds tc idx now (by rw [hs]; simp)
    refine ⟨d + 1, tc', by omega, by simpa using h2, ?_⟩
    rw [h3, hcomp, hst]
    simp only [List.take_succ_cons, busy]
    congr 1
    omega

/-- under a document limit `L` and an honest runner, every command that was run to its end (every
    started command except a last one that timed out) ended before `L` on the document's clock,
    waits included -/
theorem Run.honest_within {L : Nat} (h : Run (some L) (honest cmds) tcs idx now news newl k) :
    ∀ d, d < newl.length → (d + 1 < newl.length ∨ ∀ g i, k ≠ .timeout g i) →
      now + busy cmds (tcs.take (d + 1)) idx < L := by
  induction h with
  | nil => simp
  | skipCode tc _ idx now hs =>
    intro d hd _
    have hd0 : d = 0 := by simpa using hd
    subst hd0
    have := honest_head_within cmds L tc idx now (by rw [hs]; simp)
    simp only [List.take_succ_cons, List.take_zero, busy]
    omega
  | skipped tc _ idx now hs =>
    intro d hd _
    have hd0 : d = 0 := by simpa using hd
    subst hd0
    have := honest_head_within cmds L tc idx now (by rw [hs]; simp)
    simp only [List.take_succ_cons, List.take_zero, busy]
    omega
  | unknown tc _ idx now hs =>
    intro d hd _
    have hd0 : d = 0 := by simpa using hd
    subst hd0
    have := honest_head_within cmds L tc idx now (by rw [hs]; simp)
    simp only [List.take_succ_cons, List.take_zero, busy]
    omega
  | timeout tc _ idx now hs =>
    intro d hd hc
    have hd0 : d = 0 := by simpa using hd
    subst hd0
    rcases hc with hc | hc
    · simp at hc
    · exact absurd rfl (hc _ _)
  | code tc rest idx now c _ newl' _ hs _ _ ih =>
    intro d hd hc
    have hhead := honest_head_within cmds L tc idx now (by rw [hs]; simp)
    have hcomp := (honest_completed cmds idx (limOf (some L) tc now) (by rw [hs]; simp)).1
    have hst := honest_completed_start (some L) cmds tc idx now (by rw [hs]; simp)
    cases d with
    | zero =>
      simp only [List.take_succ_cons, List.take_zero, busy]
      omega
    | succ d =>
      have := ih d (by simpa using hd) (by
        rcases hc with hc | hc
        · left; simpa using hc
        · right; exact hc)
      rw [hcomp, hst] at this
      simp only [List.take_succ_cons, busy]
      omega
  | detached tc rest idx now _ newl' _ hs _ ih =>
    intro d hd hc
    have hhead := honest_head_within cmds L tc idx now (by rw [hs]; simp)
    have hcomp := (honest_completed cmds idx (limOf (some L) tc now) (by rw [hs]; simp)).1
    have hst := honest_completed_start (some L) cmds tc idx now (by rw [hs]; simp)
    cases d with
    | zero =>
      simp only [List.take_succ_cons, List.take_zero, busy]
      omega
    | succ d =>
      have := ih d (by simpa using hd) (by
        rcases hc with hc | hc
        · left; simpa using hc
        · right; exact hc)
      rw [hcomp, hst] at this
      simp only [List.take_succ_cons, busy]
      omega

end HonestRun

/-- every limit handed to an honest runner is
    `min(per-test limit, document limit − (waits and durations before + its own wait))` -/
theorem honest_limits (total : Option Nat) (cmds : Nat → Nat × Out) (tcs : List TC)
    (d : Nat) (lim : Option Nat) (h : (execAll total (honest cmds) tcs).2[d]? = some lim) :
    ∃ tc, tcs[d]? = some tc ∧
      lim = (effective tc.timeout
        ((totalLimit total).map (· - (busy cmds (tcs.take d) 0 + tc.wait)))).2 := by
  obtain ⟨news, newl, k, hrun, heq⟩ := execAll_run total (honest cmds) tcs
  rw [heq] at h
  obtain ⟨tc, h1, h2⟩ := hrun.honest_limits d lim h
  refine ⟨tc, h1, ?_⟩
  rw [h2, limOf, Nat.zero_add]

theorem honest_within_limit (total : Option Nat) (cmds : Nat → Nat × Out) (tcs : List TC)
    (L : Nat) (hL : totalLimit total = some L) (d : Nat)
    (hd : d < (execAll total (honest cmds) tcs).2.length)
    (hc : d + 1 < (execAll total (honest cmds) tcs).2.length ∨
      ∀ g i outs, (execAll total (honest cmds) tcs).1 ≠ .timeout g i outs) :
    busy cmds (tcs.take (d + 1)) 0 < L := by
  obtain ⟨news, newl, k, hrun, heq⟩ := execAll_run total (honest cmds) tcs
  rw [heq] at hd hc
  rw [hL] at hrun
  have := hrun.honest_within d hd (by
    rcases hc with hc | hc
    · exact .inl hc
    · right
      intro g i hk
      subst hk
      exact hc g i news rfl)
  omega

theorem honest_ok_total (total : Option Nat) (cmds : Nat → Nat × Out) (tcs : List TC)
    (L : Nat) (hL : totalLimit total = some L) (outs : List Out)
    (h : (execAll total (honest cmds) tcs).1 = .ok outs)
    (hu : ∀ o ∈ outs, o.status ≠ .unknown) (hne : tcs ≠ []) :
    busy cmds tcs 0 < L := by
  have hlen := (calls_spec total (honest cmds) tcs).2.2 outs h hu
  have hpos : 0 < tcs.length := List.length_pos_iff.2 hne
  have := honest_within_limit total cmds tcs L hL (tcs.length - 1) (by omega)
    (.inr (fun g i o ho => by rw [h] at ho; cases ho))
  rwa [Nat.sub_add_cancel hpos, List.take_length] at this

theorem honest_timeout_limit (total : Option Nat) (cmds : Nat → Nat × Out) (tcs : List TC)
    (hfin : ∀ i, (cmds i).2.status ≠ .timeout)
    (g : Bool) (i : Nat) (outs : List Out)
    (h : (execAll total (honest cmds) tcs).1 = .timeout g i outs) :
    ∃ tc l, tcs[i]? = some tc ∧ (execAll total (honest cmds) tcs).2[i]? = some (some l) ∧
      l ≤ (cmds i).1 ∧
      (g, some l) = effective tc.timeout
        ((totalLimit total).map (· - (busy cmds (tcs.take i) 0 + tc.wait))) ∧
      ∀ L, totalLimit total = some L → l ≤ L - (busy cmds (tcs.take i) 0 + tc.wait) := by
  obtain ⟨l, hl, hle⟩ := no_spurious_timeout total cmds tcs hfin g i outs h
  obtain ⟨tc, h1, h2⟩ := honest_limits total cmds tcs i (some l) hl
  obtain ⟨news, newl, k, hrun, heq⟩ := execAll_run total (honest cmds) tcs
  rw [heq] at h
  cases k with
  | ok => simp [build] at h
  | skipped j => simp [build] at h
  | timeout g' i' =>
    simp only [build, ExecResult.timeout.injEq] at h
    obtain ⟨rfl, rfl, rfl⟩ := h
    obtain ⟨d, tc', hi, h3, hg⟩ := hrun.honest_timeout_glob rfl
    rw [Nat.zero_add] at hi
    subst hi
    rw [h1] at h3
    cases h3
    refine ⟨tc, l, h1, hl, hle, ?_, ?_⟩
    · rw [hg, h2, globOf, Nat.zero_add]
    · intro L hL
      have := limOf_le L tc (busy cmds (tcs.take i') 0)
      obtain ⟨l', e, hle'⟩ := this
      rw [hL] at h2
      rw [limOf, ← h2] at e
      cases e
      exact hle'

/-! ### The loop before fix 5800e20, for comparison only -/

/-- the loop as it was BEFORE the fix: the remaining document time is looked at first, the wait
    passes afterwards (it moves the clock, but the limit handed to the runner ignores it) -/
def execLoopOld (limit : Option Nat) (runner : Runner) :
    (tcs : List TC) → (idx now : Nat) → (acc : List Out) → (limits : List (Option Nat)) →
    ExecResult × List (Option Nat)
  | [], _, _, acc, limits => (.ok acc, limits)
  | tc :: rest, idx, now, acc, limits =>
    let remaining := limit.map (· - now)
    let (isGlobal, lim) := effective tc.timeout remaining
    let now := now + tc.wait
    let (o, elapsed) := runner idx lim
    let limits := limits ++ [lim]
    match o.status with
    | .code c =>
      if c = skipCodeOf tc then (.skipped idx, limits)
      else execLoopOld limit runner rest (idx + 1) (now + elapsed) (acc ++ [o]) limits
    | .timeout => (.timeout isGlobal idx (acc ++ [o]), limits)
    | .skipped => (.skipped idx, limits)
    | .detached =>
      execLoopOld limit runner rest (idx + 1) (now + elapsed) (acc ++ [detachedOut]) limits
    | .unknown => (.ok (acc ++ [o] ++ rest.map unknownOut), limits)

/-- the fix changes nothing for a document none of whose test cases waits -/
theorem execLoopOld_eq_of_no_wait (limit : Option Nat) (runner : Runner) (tcs : List TC)
    (h : ∀ tc ∈ tcs, tc.wait = 0) :
    ∀ idx now acc limits,
      execLoopOld limit runner tcs idx now acc limits = execLoop limit runner tcs idx now acc limits := by
  induction tcs with
  | nil => intros; rfl
  | cons tc rest ih =>
    intro idx now acc limits
    have hw : tc.wait = 0 := h tc (List.mem_cons_self ..)
    have ih' := ih (fun t ht => h t (List.mem_cons_of_mem _ ht))
    have hs : startOf limit tc now = now := by
      cases limit <;> simp [startOf, cappedWait, hw]
    simp only [execLoopOld, execLoop, hs, hw, Nat.add_zero, ih']
    cases ((runner idx (effective tc.timeout (Option.map (fun x => x - now) limit)).snd).fst).status <;> rfl

/-- the document of the bug report: limit 2 s; a 10 ms command, then a command that waits 1.5 s
    and runs 1.5 s, then a 10 ms command -/
def overrunTcs : List TC :=
  [⟨none, .stdout, none, none, true, 0⟩, ⟨none, .stdout, none, none, true, 1500⟩,
   ⟨none, .stdout, none, none, true, 0⟩]

def overrunCmds : Nat → Nat × Out := fun i =>
  if i = 1 then (1500, ⟨.code 0, true, true⟩) else (10, ⟨.code 0, true, true⟩)

theorem wait_overrun_witness :
    execAll (some 2000) (honest overrunCmds) overrunTcs =
      (.timeout true 1 [⟨.code 0, true, true⟩, ⟨.timeout, false, false⟩], [some 2000, some 490]) ∧
    runDocument overrunTcs (execAll (some 2000) (honest overrunCmds) overrunTcs).1 =
      [(0, .ok), (1, .timeout), (2, .skipped)] := by
  decide

/-- before the fix the second command was handed 1990 ms (≥ its 1500 ms), passed, and the
    document ran to 3010 ms on a limit of 2000 ms before the third command was stopped at once -/
theorem wait_overrun_old :
    execLoopOld (totalLimit (some 2000)) (honest overrunCmds) overrunTcs 0 0 [] [] =
      (.timeout true 2 [⟨.code 0, true, true⟩, ⟨.code 0, true, true⟩, ⟨.timeout, false, false⟩],
        [some 2000, some 1990, some 0]) := by
  decide

/-! ## The wait is sat out no longer than what is left of the document limit

`startOf limit tc now` is the time at which the runner of `tc` is called. -/

/-- closed form of the start time: the whole wait, but not past the document limit (a clock that
    is already past the limit does not move) -/
theorem startOf_spec (limit : Option Nat) (tc : TC) (now : Nat) :
    startOf limit tc now =
      (match limit with
       | some l => min (now + tc.wait) (max now l)
       | none => now + tc.wait) := by
  cases limit with
  | none => rfl
  | some l =>
    simp only [startOf, cappedWait]
    omega

theorem limOf_eq_start (limit : Option Nat) (tc : TC) (now : Nat) :
    limOf limit tc now = (effective tc.timeout (limit.map (· - startOf limit tc now))).2 := by
  rw [sub_startOf]
  rfl

/-- the document's clock: `(start, end)` of every runner call of the loop, in order -/
def clockTrace (limit : Option Nat) (runner : Runner) : List TC → Nat → Nat → List (Nat × Nat)
  | [], _, _ => []
  | tc :: rest, idx, now =>
    let s := startOf limit tc now
    let r := runner idx (effective tc.timeout (limit.map (· - s))).2
    match r.1.status with
    | .code c =>
      if c = skipCodeOf tc then [(s, s + r.2)]
      else (s, s + r.2) :: clockTrace limit runner rest (idx + 1) (s + r.2)
    | .detached => (s, s + r.2) :: clockTrace limit runner rest (idx + 1) (s + r.2)
    | _ => [(s, s + r.2)]

/-- the limit that belongs to a start time `s` of test case `tc` -/
def limAt (limit : Option Nat) (tc : TC) (s : Nat) : Option Nat :=
  (effective tc.timeout (limit.map (· - s))).2

/-- `clockTrace` is the clock of `execLoop`: the loop calls the runner once per entry of the trace,
    and the limit it hands over at the `d`-th call is the smaller of the per-test limit and what
    is left of the document limit at the `d`-th start time -/
theorem clockTrace_limits (limit : Option Nat) (runner : Runner) (tcs : List TC) :
    ∀ (idx now : Nat) (acc : List Out) (limits : List (Option Nat)),
      (execLoop limit runner tcs idx now acc limits).2 =
        limits ++ (tcs.zip (clockTrace limit runner tcs idx now)).map
          (fun p => limAt limit p.1 p.2.1) := by
  induction tcs with
  | nil => intros; simp [execLoop, clockTrace]
  | cons tc rest ih =>
    intro idx now acc limits
    rw [execLoop_cons]
    have hl := limOf_eq_start limit tc now
    simp only [clockTrace, ← hl]
    cases hs : ((runner idx (limOf limit tc now)).1).status with
    | code c =>
      by_cases hc : c = skipCodeOf tc
      · simp [hc, limAt, ← hl]
      · simp only [hc, if_false, ih, List.zip_cons_cons, List.map_cons, limAt, ← hl]
        simp
    | detached =>
      simp only [ih, List.zip_cons_cons, List.map_cons, limAt, ← hl]
      simp
    | timeout => simp [limAt, ← hl]
    | skipped => simp [limAt, ← hl]
    | unknown => simp [limAt, ← hl]

/-- a runner that is back by the time its limit is up -/
def Punctual (runner : Runner) : Prop := ∀ i l, (runner i (some l)).2 ≤ l

theorem honest_punctual (cmds : Nat → Nat × Out) : Punctual (honest cmds) := by
  intro i l
  rw [honest_eq]
  by_cases h : l ≤ (cmds i).1
  · simp [h]
  · simp only [h, if_false]
    omega

/-- one step: under a document limit `L` that is not yet used up, the runner is started no later
    than `L` and, if it is punctual, is back no later than `L` -/
theorem step_within (L : Nat) (runner : Runner) (hp : Punctual runner) (tc : TC) (idx now : Nat)
    (hn : now ≤ L) :
    startOf (some L) tc now ≤ L ∧
      startOf (some L) tc now +
        (runner idx (effective tc.timeout ((some L).map (· - startOf (some L) tc now))).2).2 ≤ L := by
  have hs : startOf (some L) tc now ≤ L := by
    simp only [startOf, cappedWait]
    omega
  refine ⟨hs, ?_⟩
  obtain ⟨l, hl, hle⟩ := limOf_le L tc now
  rw [limOf_eq_start] at hl
  rw [hl]
  have := hp idx l
  have h2 : L - (now + tc.wait) ≤ L - startOf (some L) tc now := by
    simp only [startOf, cappedWait]
    omega
  omega

/-- the document limit bounds the document's clock: with a punctual runner, no runner call starts
    or ends after `L` -/
theorem clockTrace_within (L : Nat) (runner : Runner) (hp : Punctual runner) (tcs : List TC) :
    ∀ (idx now : Nat), now ≤ L →
      ∀ se ∈ clockTrace (some L) runner tcs idx now, now ≤ se.1 ∧ se.1 ≤ se.2 ∧ se.2 ≤ L := by
  induction tcs with
  | nil => intro idx now _ se h; simp [clockTrace] at h
  | cons tc rest ih =>
    intro idx now hn se hse
    obtain ⟨h1, h2⟩ := step_within L runner hp tc idx now hn
    have h0 : now ≤ startOf (some L) tc now := Nat.le_add_right _ _
    have head : ∀ se : Nat × Nat, se = (startOf (some L) tc now, startOf (some L) tc now +
        (runner idx (effective tc.timeout ((some L).map (· - startOf (some L) tc now))).2).2) →
        now ≤ se.1 ∧ se.1 ≤ se.2 ∧ se.2 ≤ L := by
      rintro se rfl
      exact ⟨h0, Nat.le_add_right _ _, h2⟩
    have tail : ∀ se ∈ clockTrace (some L) runner rest (idx + 1) (startOf (some L) tc now +
        (runner idx (effective tc.timeout ((some L).map (· - startOf (some L) tc now))).2).2),
        now ≤ se.1 ∧ se.1 ≤ se.2 ∧ se.2 ≤ L := by
      intro se hm
      obtain ⟨a, b, c⟩ := ih (idx + 1) _ h2 se hm
      exact ⟨by omega, b, c⟩
    simp only [clockTrace] at hse
    split at hse
    · split at hse
      · exact head se (by simpa using hse)
      · rcases List.mem_cons.1 hse with h | h
        · exact head se h
        · exact tail se h
    · rcases List.mem_cons.1 hse with h | h
      · exact head se h
      · exact tail se h
    · exact head se (by simpa using hse)

/-- start times along the trace, for ANY runner: each call is started at
    `min (previous end + wait) (max (previous end) L)` — past `L` only if the clock was already past `L`
    when the loop reached the test case, never because of a wait -/
theorem clockTrace_head (limit : Option Nat) (runner : Runner) (tc : TC) (rest : List TC)
    (idx now : Nat) :
    ∃ e tl, clockTrace limit runner (tc :: rest) idx now = (startOf limit tc now, e) :: tl ∧
      e = startOf limit tc now + (runner idx (limAt limit tc (startOf limit tc now))).2 ∧
      (tl = [] ∨ tl = clockTrace limit runner rest (idx + 1) e) := by
  simp only [clockTrace, limAt]
  split
  · split
    · exact ⟨_, [], rfl, rfl, .inl rfl⟩
    · exact ⟨_, _, rfl, rfl, .inr rfl⟩
  · exact ⟨_, _, rfl, rfl, .inr rfl⟩
  · exact ⟨_, [], rfl, rfl, .inl rfl⟩

/-! ### The cap changes the time a document takes and nothing else -/

/-- the loop with the wait sat out in full (as it was before the cap), for comparison only -/
def execLoopUncapped (limit : Option Nat) (runner : Runner) :
    (tcs : List TC) → (idx now : Nat) → (acc : List Out) → (limits : List (Option Nat)) →
    ExecResult × List (Option Nat)
  | [], _, _, acc, limits => (.ok acc, limits)
  | tc :: rest, idx, now, acc, limits =>
    let now := now + tc.wait
    let remaining := limit.map (· - now)
    let (isGlobal, lim) := effective tc.timeout remaining
    let (o, elapsed) := runner idx lim
    let limits := limits ++ [lim]
    match o.status with
    | .code c =>
      if c = skipCodeOf tc then (.skipped idx, limits)
      else execLoopUncapped limit runner rest (idx + 1) (now + elapsed) (acc ++ [o]) limits
    | .timeout => (.timeout isGlobal idx (acc ++ [o]), limits)
    | .skipped => (.skipped idx, limits)
    | .detached =>
      execLoopUncapped limit runner rest (idx + 1) (now + elapsed) (acc ++ [detachedOut]) limits
    | .unknown => (.ok (acc ++ [o] ++ rest.map unknownOut), limits)

/-- two clocks that agree, or that are both past the document limit -/
def SameLeft (limit : Option Nat) (a b : Nat) : Prop :=
  a = b ∨ ∃ L, limit = some L ∧ L ≤ a ∧ L ≤ b

theorem execLoop_eq_uncapped_gen (limit : Option Nat) (runner : Runner) (tcs : List TC) :
    ∀ (idx a b : Nat) (acc : List Out) (limits : List (Option Nat)), SameLeft limit a b →
      execLoop limit runner tcs idx a acc limits =
        execLoopUncapped limit runner tcs idx b acc limits := by
  induction tcs with
  | nil => intros; rfl
  | cons tc rest ih =>
    intro idx a b acc limits hab
    have hl : limit.map (· - startOf limit tc a) = limit.map (· - (b + tc.wait)) := by
      rw [sub_startOf]
      rcases hab with rfl | ⟨L, rfl, h1, h2⟩
      · rfl
      · simp only [Option.map]
        congr 1
        omega
    have hnext : ∀ e, SameLeft limit (startOf limit tc a + e) (b + tc.wait + e) := by
      intro e
      rcases hab with rfl | ⟨L, rfl, h1, h2⟩
      · cases limit with
        | none => exact .inl rfl
        | some L =>
          by_cases hw : tc.wait ≤ L - a
          · left
            simp only [startOf, cappedWait]
            omega
          · right
            refine ⟨L, rfl, ?_, ?_⟩
            · simp only [startOf, cappedWait]
              omega
            · omega
      · right
        refine ⟨L, rfl, ?_, ?_⟩
        · simp only [startOf, cappedWait]
          omega
        · omega
    simp only [execLoop, execLoopUncapped, hl]
    cases ((runner idx (effective tc.timeout (Option.map (fun x => x - (b + tc.wait)) limit)).snd).fst).status with
    | code c =>
      by_cases hc : c = skipCodeOf tc
      · simp [hc]
      · simp only [hc, if_false]
        exact ih _ _ _ _ _ (hnext _)
    | detached => exact ih _ _ _ _ _ (hnext _)
    | timeout => rfl
    | skipped => rfl
    | unknown => rfl

/-- results, outputs, attribution of a timeout and every limit handed to the runner are the same
    with and without the cap, for every runner: the cap only shortens the time that passes -/
theorem execLoop_eq_uncapped (limit : Option Nat) (runner : Runner) (tcs : List TC)
    (idx now : Nat) (acc : List Out) (limits : List (Option Nat)) :
    execLoop limit runner tcs idx now acc limits =
      execLoopUncapped limit runner tcs idx now acc limits :=
  execLoop_eq_uncapped_gen limit runner tcs idx now now acc limits (.inl rfl)

end Scrut.Exec
