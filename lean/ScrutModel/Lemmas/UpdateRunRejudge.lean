import ScrutModel.Model.UpdateRun
import ScrutModel.Lemmas.GenerateUpdate
import ScrutModel.Lemmas.UpdateRunAlign
/-!
# C09 through the composition: the expectation list `update` writes, compiled the way `scrut test`
compiles it (`TestRun.compile`), accepts the stream the test was validated against

`Props/C09.lean` proves `C09_update_unquantified_passes` for an abstract match matrix of the
retained expectations and the parsed rules of the generated ones.  Here both are the rules of
`Model/TestRun.lean` (`compile`, `Rule.matches`), the diff is the one `UpdateRun.judge` computes.
-/
namespace Scrut.UpdateRun
open Scrut Scrut.TestRun Scrut.GenLemmas Scrut.Gen Scrut.Diff Scrut.EscLemmas

/-- the grammar of the integrated model has the two parameters C09 needs -/
theorem grammarParams_std : StdParams grammarParams := ⟨fun _ => rfl, fun _ => rfl⟩

/-! ## the match matrix, cell by cell -/

/-- "expectation `i` matches line `j`" -/
def cellOf (exps : List CExp) (lines : List Bytes) (i j : Nat) : Bool :=
  match exps[i]?, lines[j]? with
  | some e, some l => (e.rule.matches l).getD false
  | _, _ => false

theorem matrix_pairs {exps : List CExp} {lines : List Bytes} {tbl : List (List Bool)}
    (h : matrix exps lines = some tbl) :
    Pairs (fun e row => Pairs (fun l b => e.rule.matches l = some b) lines row) exps tbl :=
  (mapM_option_pairs _ exps tbl h).mono (fun _ row hr => mapM_option_pairs _ lines row hr)

theorem matrix_cell {exps : List CExp} {lines : List Bytes} {tbl : List (List Bool)}
    (h : matrix exps lines = some tbl) : cell tbl = cellOf exps lines := by
  have hp := matrix_pairs h
  funext i j
  unfold cell cellOf
  cases he : exps[i]? with
  | none =>
    have : tbl[i]? = none := by
      rw [List.getElem?_eq_none_iff] at he ⊢
      rw [← hp.length_eq]; exact he
    simp [this]
  | some e =>
    obtain ⟨row, hrow, hr⟩ := hp.get i e he
    simp only [hrow]
    cases hl : lines[j]? with
    | none =>
      have : row[j]? = none := by
        rw [List.getElem?_eq_none_iff] at hl ⊢
        rw [← hr.length_eq]; exact hl
      simp [this]
    | some l =>
      obtain ⟨b, hb, hm⟩ := hr.get j l hl
      simp [hb, hm]

theorem mapM_option_total {α β : Type} (f : α → Option β) :
    ∀ (l : List α), (∀ a ∈ l, ∃ b, f a = some b) → ∃ r, l.mapM f = some r
  | [], _ => ⟨[], by simp⟩
  | a :: l, h => by
    obtain ⟨b, hb⟩ := h a (by simp)
    obtain ⟨r, hr⟩ := mapM_option_total f l (fun x hx => h x (by simp [hx]))
    exact ⟨b :: r, by rw [List.mapM_cons, hb, hr]; rfl⟩

theorem matrix_total (exps : List CExp) (lines : List Bytes)
    (h : ∀ e ∈ exps, ∀ l ∈ lines, ∃ b, e.rule.matches l = some b) : ∃ tbl, matrix exps lines = some tbl :=
  mapM_option_total _ exps (fun e he => mapM_option_total _ lines (h e he))

theorem matrix_defined {exps : List CExp} {lines : List Bytes} {tbl : List (List Bool)}
    (h : matrix exps lines = some tbl) : ∀ e ∈ exps, ∀ l ∈ lines, ∃ b, e.rule.matches l = some b := by
  intro e he l hl
  obtain ⟨i, hi, rfl⟩ := List.getElem_of_mem he
  obtain ⟨j, hj, rfl⟩ := List.getElem_of_mem hl
  obtain ⟨row, _, hr⟩ := (matrix_pairs h).get i _ (List.getElem?_eq_getElem hi)
  obtain ⟨b, _, hb⟩ := hr.get j _ (List.getElem?_eq_getElem hj)
  exact ⟨b, hb⟩

/-! ## a generated line, compiled -/

/-- the line written for the output line `l`, compiled by `TestRun.compile`: an unquantified
expectation whose rule matches exactly as the parsed rule of C09 (`strRuleMatches`) says -/
theorem compile_generated {isOther : Char → Bool} (hC : AsciiContract isOther) {l : Bytes} (hl : Newline.IsLine l) :
    ∃ t ge rule, expectationLine .unicode isOther l = some t ∧ LineOK grammarParams l t ∧
      genExp grammarParams .unicode isOther l = some ge ∧
      compile t = .ok ⟨rule, false, false⟩ ∧
      (∀ l', rule.matches l' = some (strRuleMatches ge.kind ge.expr l')) ∧
      strRuleMatches ge.kind ge.expr l = true := by
  obtain ⟨t, ht, hok⟩ := line_ok grammarParams_std .unicode isOther (fun _ => hC) hl
  obtain ⟨e, he, h1, h2, hk, h4⟩ := hok.parses
  have hge : genExp grammarParams .unicode isOther l = some e := by simp [genExp, ht, he]
  rcases hk with hk | hk | hk
  · refine ⟨t, e, .equal e.expr, ht, hok, hge, ?_, ?_, h4⟩
    · simp [compile, compileWith, he, hk, h1, h2]
    · intro l'; rw [hk]; rfl
  · refine ⟨t, e, .noEol e.expr, ht, hok, hge, ?_, ?_, h4⟩
    · simp [compile, compileWith, he, hk, h1, h2]
    · intro l'; rw [hk]; rfl
  · refine ⟨t, e, .escaped e.expr, ht, hok, hge, ?_, ?_, h4⟩
    · simp [compile, compileWith, he, hk, h1, h2]
    · intro l'; rw [hk]; rfl

/-! ## the list `update` writes -/

/-- the text of one entry of the written list, without its line feed -/
def slotOrig (isOther : Char → Bool) (origs : List (List Char)) (lines : List Bytes) : Slot → Option (List Char)
  | .kept ei => origs[ei]?
  | .gen li => lines[li]?.bind (expectationLine .unicode isOther)

/-- what an entry of the written list compiles to -/
def SlotExp (isOther : Char → Bool) (exps : List CExp) (lines : List Bytes) : Slot → CExp → Prop
  | .kept ei, e => exps[ei]? = some e
  | .gen li, e => ∃ l ge rule, lines[li]? = some l ∧ genExp grammarParams .unicode isOther l = some ge ∧
      e = ⟨rule, false, false⟩ ∧ (∀ l', rule.matches l' = some (strRuleMatches ge.kind ge.expr l')) ∧
      strRuleMatches ge.kind ge.expr l = true

/-- "one entry per output line: a retained expectation that matches it, or the one generated for it" -/
def SlotsSpec (mt : Nat → Nat → Bool) (m : Nat) (sl : List Slot) : Prop :=
  sl.length = m ∧ ∀ k (h : k < sl.length), (∃ ei, sl[k] = .kept ei ∧ mt ei k = true) ∨ sl[k] = .gen k

theorem pairs3_of_forall {α β γ : Type} {A : α → β → Prop} {B : β → γ → Prop} {C : α → γ → Prop} :
    ∀ (l : List α), (∀ a ∈ l, ∃ b c, A a b ∧ B b c ∧ C a c) →
      ∃ bs cs, Pairs A l bs ∧ Pairs B bs cs ∧ Pairs C l cs
  | [], _ => ⟨[], [], .nil, .nil, .nil⟩
  | a :: l, h => by
    obtain ⟨b, c, h1, h2, h3⟩ := h a (by simp)
    obtain ⟨bs, cs, g1, g2, g3⟩ := pairs3_of_forall l (fun x hx => h x (by simp [hx]))
    exact ⟨b :: bs, c :: cs, .cons h1 g1, .cons h2 g2, .cons h3 g3⟩

/-- **the written list passes** (core of U5): expectations `exps` compiled from the texts `origs`,
none of them quantified; `lines` the lines of a stream; `sl` a list of entries with one entry per
line (`SlotsSpec` for the real match matrix).  Then every entry has a text, the texts compile, and
the matcher run on the compiled list against the same stream finds no difference. -/
theorem written_list_passes {isOther : Char → Bool} (hC : AsciiContract isOther)
    (origs : List (List Char)) (exps : List CExp) (hcomp : Pairs (fun o e => compile o = .ok e) origs exps)
    (hq : ∀ e ∈ exps, e.optional = false ∧ e.multiline = false)
    (stream : Bytes) (tbl : List (List Bool)) (hm : matrix exps (Newline.splitAtNewline stream) = some tbl)
    (sl : List Slot) (hspec : SlotsSpec (cell tbl) (Newline.splitAtNewline stream).length sl) :
    ∃ newOrigs newExps,
      Pairs (fun s o => slotOrig isOther origs (Newline.splitAtNewline stream) s = some o) sl newOrigs ∧
      Pairs (fun o e => compile o = .ok e) newOrigs newExps ∧
      Pairs (SlotExp isOther exps (Newline.splitAtNewline stream)) sl newExps ∧
      ∃ d', diffOf newExps stream = some d' ∧ hasDiff d' = false := by
  have hcell := matrix_cell hm
  rw [hcell] at hspec
  obtain ⟨hlen, hget⟩ := hspec
  have hisLine := Newline.splitAtNewline_isLine stream
  generalize hlines : Newline.splitAtNewline stream = lines at *
  -- every entry has a text that compiles
  have hslot : ∀ s ∈ sl, ∃ o e, slotOrig isOther origs lines s = some o ∧ compile o = .ok e ∧
      SlotExp isOther exps lines s e := by
    intro s hs
    obtain ⟨k, hk, rfl⟩ := List.getElem_of_mem hs
    rcases hget k hk with ⟨ei, h1, h2⟩ | h1
    · rw [h1]
      unfold cellOf at h2
      cases he : exps[ei]? with
      | none => simp [he] at h2
      | some e =>
        obtain ⟨o, ho, hoe⟩ := hcomp.get' ei e he
        exact ⟨o, e, ho, hoe, he⟩
    · rw [h1]
      have hkm : k < lines.length := by omega
      have hl := hisLine lines[k] (List.getElem_mem hkm)
      obtain ⟨t, ge, rule, ht, _, hge, hc, hmatch, hself⟩ := compile_generated hC hl
      refine ⟨t, ⟨rule, false, false⟩, ?_, hc, lines[k], ge, rule, List.getElem?_eq_getElem hkm, hge, rfl, hmatch, hself⟩
      simp [slotOrig, List.getElem?_eq_getElem hkm, ht]
  obtain ⟨newOrigs, newExps, p1, p2, p3⟩ := pairs3_of_forall sl hslot
  refine ⟨newOrigs, newExps, p1, p2, p3, ?_⟩
  -- the matrix of the new list exists
  have hdef := matrix_defined hm
  have htotal : ∀ e ∈ newExps, ∀ l ∈ lines, ∃ b, e.rule.matches l = some b := by
    intro e he l hl
    obtain ⟨k, hk, rfl⟩ := List.getElem_of_mem he
    obtain ⟨s, hs, hse⟩ := p3.get' k _ (List.getElem?_eq_getElem hk)
    cases s with
    | kept ei => exact hdef _ (List.mem_of_getElem? hse) l hl
    | gen li =>
      obtain ⟨_, ge, rule, _, _, he', hmatch, _⟩ := hse
      rw [he']; exact ⟨_, hmatch l⟩
  obtain ⟨tbl', htbl'⟩ := matrix_total newExps lines htotal
  have hcell' := matrix_cell htbl'
  have hnl : newExps.length = lines.length := by rw [← p3.length_eq, hlen]
  refine ⟨diff newExps.length lines.length (quant newExps) (cell tbl'), ?_, ?_⟩
  · unfold diffOf; rw [hlines]; simp only [htbl', Option.map_some]
  rw [hcell', hnl]
  apply Scrut.Props.C03.C03_own_lines
  · -- no entry carries a quantifier
    intro k
    unfold quant
    cases he : newExps[k]? with
    | none => rfl
    | some e =>
      obtain ⟨s, hs, hse⟩ := p3.get' k e he
      cases s with
      | kept ei =>
        obtain ⟨h1, h2⟩ := hq e (List.mem_of_getElem? hse)
        simp [h1, h2]
      | gen li =>
        obtain ⟨_, _, _, _, _, he', _, _⟩ := hse
        rw [he']
  · -- entry `k` matches line `k`
    intro k hk
    have hks : k < sl.length := by omega
    obtain ⟨e, he, hse⟩ := p3.get k _ (List.getElem?_eq_getElem hks)
    unfold cellOf
    rw [he, List.getElem?_eq_getElem hk]
    simp only
    rcases hget k hks with ⟨ei, h1, h2⟩ | h1
    · rw [h1] at hse
      unfold cellOf at h2
      rw [show exps[ei]? = some e from hse, List.getElem?_eq_getElem hk] at h2
      exact h2
    · rw [h1] at hse
      obtain ⟨l, ge, rule, hl, _, he', hmatch, hself⟩ := hse
      rw [List.getElem?_eq_getElem hk] at hl
      cases hl
      rw [he']
      simp [hmatch, hself]

end Scrut.UpdateRun
