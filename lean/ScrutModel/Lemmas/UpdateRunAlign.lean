import ScrutModel.Lemmas.MarkdownWF
/-!
# Every parsed test comes from one scrut block with code, in order (parser ↔ tokenizer alignment)

The converse of `stepTok_block` (`Lemmas/MarkdownWF.lean`): whatever the document, if
`MarkdownParser::parse` succeeds then its tests are, in order, the readings of the test tokens that
hold code, and each of these blocks has the shape `$ c0`, `> more…`, expectation / exit code lines.
-/
namespace Scrut

/-- two lists related element by element (same length, same order) -/
inductive Pairs {α β : Type} (R : α → β → Prop) : List α → List β → Prop where
  | nil : Pairs R [] []
  | cons {a : α} {b : β} {as : List α} {bs : List β} : R a b → Pairs R as bs → Pairs R (a :: as) (b :: bs)

theorem pairs_append {α β : Type} {R : α → β → Prop} :
    ∀ {a : List α} {b : List β} {c : List α} {d : List β}, Pairs R a b → Pairs R c d →
      Pairs R (a ++ c) (b ++ d)
  | _, _, _, _, .nil, h => h
  | _, _, _, _, .cons h1 h2, h => .cons h1 (pairs_append h2 h)

theorem Pairs.length_eq {α β : Type} {R : α → β → Prop} : ∀ {a : List α} {b : List β}, Pairs R a b → a.length = b.length
  | _, _, .nil => rfl
  | _, _, .cons _ h => by simp [h.length_eq]

theorem Pairs.get {α β : Type} {R : α → β → Prop} : ∀ {a : List α} {b : List β}, Pairs R a b →
    ∀ (i : Nat) (x : α), a[i]? = some x → ∃ y, b[i]? = some y ∧ R x y
  | _, _, .nil, i, x, h => by simp at h
  | _, _, .cons h1 h2, 0, x, h => by simp at h; subst h; exact ⟨_, rfl, h1⟩
  | _, _, .cons h1 h2, i + 1, x, h => by simpa using h2.get i x (by simpa using h)

theorem Pairs.get' {α β : Type} {R : α → β → Prop} : ∀ {a : List α} {b : List β}, Pairs R a b →
    ∀ (i : Nat) (y : β), b[i]? = some y → ∃ x, a[i]? = some x ∧ R x y
  | _, _, .nil, i, x, h => by simp at h
  | _, _, .cons h1 h2, 0, x, h => by simp at h; subst h; exact ⟨_, rfl, h1⟩
  | _, _, .cons h1 h2, i + 1, x, h => by simpa using h2.get' i x (by simpa using h)

theorem Pairs.mono {α β : Type} {R S : α → β → Prop} (hRS : ∀ a b, R a b → S a b) :
    ∀ {a : List α} {b : List β}, Pairs R a b → Pairs S a b
  | _, _, .nil => .nil
  | _, _, .cons h1 h2 => .cons (hRS _ _ h1) (h2.mono hRS)

theorem Pairs.map_eq {α β γ : Type} {R : α → β → Prop} {f : α → γ} {g : β → γ} (hR : ∀ a b, R a b → f a = g b) :
    ∀ {a : List α} {b : List β}, Pairs R a b → a.map f = b.map g
  | _, _, .nil => rfl
  | _, _, .cons h1 h2 => by simp [hR _ _ h1, h2.map_eq hR]

/-- `mapM` in `Option`, element by element -/
theorem mapM_option_pairs {α β : Type} (f : α → Option β) :
    ∀ (l : List α) (r : List β), l.mapM f = some r → Pairs (fun a b => f a = some b) l r
  | [], r, h => by simp at h; subst h; exact .nil
  | a :: l, r, h => by
    rw [List.mapM_cons] at h
    cases ha : f a with
    | none => simp [ha] at h
    | some b =>
      cases hl : l.mapM f with
      | none => simp [ha, hl] at h
      | some bs =>
        simp [ha, hl] at h
        subst h
        exact .cons ha (mapM_option_pairs f l bs hl)

theorem pairs_mapM_option {α β : Type} (f : α → Option β) :
    ∀ {l : List α} {r : List β}, Pairs (fun a b => f a = some b) l r → l.mapM f = some r
  | _, _, .nil => by simp
  | _, _, .cons h1 h2 => by rw [List.mapM_cons, h1, pairs_mapM_option f h2]; rfl

/-- `mapM` in `Except`, element by element -/
theorem mapM_except_pairs {ε α β : Type} (f : α → Except ε β) :
    ∀ (l : List α) (r : List β), l.mapM f = .ok r → Pairs (fun a b => f a = .ok b) l r
  | [], r, h => by
    simp only [List.mapM_nil] at h
    cases h
    exact .nil
  | a :: l, r, h => by
    rw [List.mapM_cons] at h
    cases ha : f a with
    | error e => rw [ha] at h; cases h
    | ok b =>
      cases hl : l.mapM f with
      | error e => rw [ha, hl] at h; cases h
      | ok bs =>
        rw [ha, hl] at h
        cases h
        exact .cons ha (mapM_except_pairs f l bs hl)

theorem pairs_mapM_except {ε α β : Type} (f : α → Except ε β) :
    ∀ {l : List α} {r : List β}, Pairs (fun a b => f a = .ok b) l r → l.mapM f = .ok r
  | _, _, .nil => by simp; rfl
  | _, _, .cons h1 h2 => by rw [List.mapM_cons, h1, pairs_mapM_except f h2]; rfl

end Scrut

namespace Scrut.Markdown
open Scrut.LineParser

/-- the line directly behind the command does not continue it -/
def NotCont (after : List Line) : Prop :=
  match after with
  | a :: _ => stripPrefix ['>', ' '] a = none
  | [] => True

theorem stripPrefix_some : ∀ {p l r : List Char}, stripPrefix p l = some r → l = p ++ r
  | [], l, r, h => by simp [stripPrefix] at h; simp [h]
  | _ :: _, [], r, h => by simp [stripPrefix] at h
  | a :: p, b :: l, r, h => by
    unfold stripPrefix at h
    split at h
    · rename_i hab; subst hab
      rw [stripPrefix_some h]; rfl
    · cases h

/-- the configuration a test token hands to the line parser -/
def cfgOf (cfg : Numbered) : Cfg := if cfg.isEmpty then none else some (joinNumbered cfg)

/-- how the code lines of a block are read into a test -/
def BlockOf (expOk : Line → Bool) (cfg : Numbered) (code : List Line) (t : TestCase Cfg) : Prop :=
  ∃ c0 more after, code = ('$' :: ' ' :: c0) :: (more.map contLine ++ after) ∧ NotCont after ∧
    t.command = c0 :: more ∧ t.expectations = expLines after ∧ t.exitCode = (exitCodes after).head? ∧
    (exitCodes after).length ≤ 1 ∧ (∀ e ∈ expLines after, expOk e = true ∧ isExitCodeForm e = false) ∧ t.config = some (cfgOf cfg)

theorem exitCodes_cons_some {l : Line} {n : Nat} (r : List Line) (h : extractExitCode l = some n) :
    exitCodes (l :: r) = n :: exitCodes r := by simp [exitCodes, h]
theorem exitCodes_cons_none {l : Line} (r : List Line) (h : extractExitCode l = none) :
    exitCodes (l :: r) = exitCodes r := by simp [exitCodes, h]
theorem expLines_cons_some {l : Line} {n : Nat} (r : List Line) (h : extractExitCode l = some n) :
    expLines (l :: r) = expLines r := by simp [expLines, h]
theorem expLines_cons_none {l : Line} (r : List Line) (h : extractExitCode l = none) :
    expLines (l :: r) = l :: expLines r := by simp [expLines, h]

/-- the lines behind the command lines: expectations and at most one exit code -/
theorem addAll_after_inv (expOk : Line → Bool) :
    ∀ (code : Numbered) (s s' : LineParser.State Cfg), s.command ≠ [] → s.allowMultipleCommands = false →
      s.inCommand = false → addAll expOk s code = .ok s' →
      s'.command = s.command ∧ s'.expectations = s.expectations ++ expLines (code.map (·.2)) ∧
      s'.exitCode = s.exitCode.or (exitCodes (code.map (·.2))).head? ∧
      (∀ e ∈ expLines (code.map (·.2)), expOk e = true ∧ isExitCodeForm e = false) ∧
      (match s.exitCode with
        | some _ => exitCodes (code.map (·.2)) = []
        | none => (exitCodes (code.map (·.2))).length ≤ 1) ∧
      s'.testcases = s.testcases ∧ s'.title = s.title ∧ s'.config = s.config ∧
      s'.outputStartIndex = s.outputStartIndex ∧ s'.allowMultipleCommands = false
  | [], s, s', _, h2, _, h => by
    simp only [addAll] at h
    cases h
    refine ⟨rfl, by simp [expLines], by simp [exitCodes], by simp [expLines], ?_, rfl, rfl, rfl, rfl, h2⟩
    cases s.exitCode <;> simp [exitCodes]
  | (i, l) :: rest, s, s', h1, h2, h3, h => by
    obtain ⟨tcs, ttl, cmd, ec, exps, ic, amc, osi, cfg⟩ := s
    simp only at h1 h2 h3
    subst h2; subst h3
    have he : cmd.isEmpty = false := by cases cmd <;> simp_all
    simp only [addAll, State.addBody, he, Bool.or_self, Bool.false_eq_true, if_false,
      State.addBodyRest] at h
    cases hov : exitCodeOverflows l with
    | true => simp [hov] at h
    | false =>
    simp only [hov, Bool.false_eq_true, if_false] at h
    cases hx : extractExitCode l with
    | some n =>
      simp only [hx] at h
      cases ec with
      | some c => simp at h
      | none =>
        simp only [Option.isSome_none, Bool.false_eq_true, if_false] at h
        have ih := addAll_after_inv expOk rest _ s' h1 rfl rfl h
        obtain ⟨g1, g2, g3, g4, g5, g6, g7, g8, g9, g10⟩ := ih
        simp only at g5
        rw [List.map_cons, exitCodes_cons_some _ hx, expLines_cons_some _ hx, g5]
        exact ⟨g1, g2, by simpa using g3, g4, by simp, g6, g7, g8, g9, g10⟩
    | none =>
      simp only [hx] at h
      by_cases hok : expOk l = true
      · simp only [hok, if_true] at h
        have ih := addAll_after_inv expOk rest _ s' h1 rfl rfl h
        obtain ⟨g1, g2, g3, g4, g5, g6, g7, g8, g9, g10⟩ := ih
        rw [List.map_cons, exitCodes_cons_none _ hx, expLines_cons_none _ hx]
        refine ⟨g1, by simpa using g2, g3, ?_, g5, g6, g7, g8, g9, g10⟩
        intro e he'
        rcases List.mem_cons.mp he' with rfl | he'
        · refine ⟨hok, ?_⟩
          simpa [exitCodeOverflows, hx] using hov
        · exact g4 e he'
      · simp [hok] at h

/-- the continuation lines, then the lines behind the command -/
theorem addAll_conts_inv (expOk : Line → Bool) :
    ∀ (code : Numbered) (s s' : LineParser.State Cfg), s.command ≠ [] → s.allowMultipleCommands = false →
      s.inCommand = true → addAll expOk s code = .ok s' →
      ∃ more after, code.map (·.2) = more.map contLine ++ after ∧ NotCont after ∧
        s'.command = s.command ++ more ∧ s'.expectations = s.expectations ++ expLines after ∧
        s'.exitCode = s.exitCode.or (exitCodes after).head? ∧
        (∀ e ∈ expLines after, expOk e = true ∧ isExitCodeForm e = false) ∧
        (match s.exitCode with
          | some _ => exitCodes after = []
          | none => (exitCodes after).length ≤ 1) ∧
        s'.testcases = s.testcases ∧ s'.title = s.title ∧ s'.config = s.config ∧
        s'.outputStartIndex = s.outputStartIndex ∧ s'.allowMultipleCommands = false
  | [], s, s', _, h2, _, h => by
    simp only [addAll] at h
    cases h
    refine ⟨[], [], rfl, trivial, by simp, by simp [expLines], by simp [exitCodes], by simp [expLines], ?_, rfl, rfl, rfl, rfl, h2⟩
    cases s.exitCode <;> simp [exitCodes]
  | (i, l) :: rest, s, s', h1, h2, h3, h => by
    obtain ⟨tcs, ttl, cmd, ec, exps, ic, amc, osi, cfg⟩ := s
    simp only at h1 h2 h3
    subst h2; subst h3
    have he : cmd.isEmpty = false := by cases cmd <;> simp_all
    cases hp : stripPrefix ['>', ' '] l with
    | some x =>
      simp only [addAll, State.addBody, he, Bool.or_self, Bool.false_eq_true, if_false,
        State.addBodyRest, if_true, hp] at h
      have ih := addAll_conts_inv expOk rest _ s' (by simp) rfl rfl h
      obtain ⟨more, after, g0, g0', g1, g2, g3, g4, g5, g6, g7, g8, g9, g10⟩ := ih
      refine ⟨x :: more, after, ?_, g0', by simpa using g1, g2, g3, g4, g5, g6, g7, g8, g9, g10⟩
      have hl : l = contLine x := stripPrefix_some hp
      simp [hl, g0]
    | none =>
      have hsame : addAll expOk ⟨tcs, ttl, cmd, ec, exps, true, false, osi, cfg⟩ ((i, l) :: rest) =
          addAll expOk ⟨tcs, ttl, cmd, ec, exps, false, false, osi, cfg⟩ ((i, l) :: rest) := by
        simp only [addAll, State.addBody, he, Bool.or_self, Bool.false_eq_true, if_false,
          State.addBodyRest, if_true, hp]
      rw [hsame] at h
      obtain ⟨g1, g2, g3, g4, g5, g6, g7, g8, g9, g10⟩ :=
        addAll_after_inv expOk ((i, l) :: rest) _ s' h1 rfl rfl h
      exact ⟨[], ((i, l) :: rest).map (·.2), by simp, by simpa [NotCont] using hp, by simpa using g1, g2, g3, g4, g5, g6, g7, g8, g9, g10⟩

/-- all code lines of a block fed to a clean state: if that succeeds, the block reads `$ c0`,
`> more…`, then expectation / exit code lines -/
theorem addAll_block_inv (expOk : Line → Bool) (code : Numbered) (s s' : LineParser.State Cfg) (hc : Clean s)
    (hne : code ≠ []) (h : addAll expOk s code = .ok s') :
    ∃ c0 more after, code.map (·.2) = ('$' :: ' ' :: c0) :: (more.map contLine ++ after) ∧ NotCont after ∧
      s'.command = c0 :: more ∧ s'.expectations = expLines after ∧ s'.exitCode = (exitCodes after).head? ∧
      (exitCodes after).length ≤ 1 ∧ (∀ e ∈ expLines after, expOk e = true ∧ isExitCodeForm e = false) ∧
      s'.testcases = s.testcases ∧ s'.title = s.title ∧ s'.config = s.config ∧
      s'.allowMultipleCommands = false := by
  obtain ⟨tcs, ttl, cmd, ec, exps, ic, amc, osi, cfg⟩ := s
  obtain ⟨h1, h2, h3, h4, h5⟩ := hc
  simp only at h1 h2 h3 h4 h5
  subst h1; subst h2; subst h3; subst h4; subst h5
  cases code with
  | nil => exact absurd rfl hne
  | cons x rest =>
    obtain ⟨i, l⟩ := x
    cases hp : stripPrefix ['$', ' '] l with
    | none =>
      exfalso
      simp only [addAll, State.addBody, List.isEmpty_nil, Bool.or_true, if_true, hp,
        State.addBodyRest] at h
      split at h
      · simp at h
      · rename_i heq
        split at heq <;> cases heq
    | some c0 =>
      simp only [addAll, State.addBody, List.isEmpty_nil, Bool.or_true, if_true, hp,
        Bool.not_true, Bool.false_eq_true, if_false, Option.isNone_none, List.nil_append] at h
      obtain ⟨more, after, g0, g0', g1, g2, g3, g4, g5, g6, g7, g8, _, g10⟩ :=
        addAll_conts_inv expOk rest _ s' (by simp) rfl rfl h
      have hl : l = '$' :: ' ' :: c0 := stripPrefix_some hp
      refine ⟨c0, more, after, by simp [hl, g0], g0', by simpa using g1, by simpa using g2,
        by simpa using g3, by simpa using g5, g4, g6, g7, g8, g10⟩

/-! ## the whole document -/


/-- the scrut blocks that hold a test (code lines), in order: configuration lines and code texts -/
def testBlocks : List Tok → List (Numbered × List Line)
  | [] => []
  | .test _ cfg _ code :: r =>
    if code.isEmpty then testBlocks r else (cfg, code.map (·.2)) :: testBlocks r
  | .line _ _ :: r => testBlocks r
  | .docConfig _ :: r => testBlocks r
  | .verbatim _ _ _ :: r => testBlocks r

/-- the front-matter texts, in order -/
def frontTexts : List Tok → List Line
  | [] => []
  | .docConfig ls :: r => joinNumbered ls :: frontTexts r
  | .test _ _ _ _ :: r => frontTexts r
  | .line _ _ :: r => frontTexts r
  | .verbatim _ _ _ :: r => frontTexts r

/-- one token: the state stays clean; a test token with code appends exactly one test, the reading
of its code lines; nothing else appends a test -/
theorem stepTok_inv (env : Env) (st st' : PState) (hc : Clean st.lp) (t : Tok) (h : stepTok env st t = .ok st') :
    Clean st'.lp ∧ st'.docConfigs = st.docConfigs ++ frontTexts [t] ∧
    ∃ new, st'.lp.testcases = st.lp.testcases ++ new ∧
      Pairs (fun b tc => BlockOf env.expOk b.1 b.2 tc) (testBlocks [t]) new := by
  cases t with
  | line i l =>
    simp only [stepTok] at h
    split at h
    · cases h
      exact ⟨⟨hc.cmd, hc.exps, hc.code, hc.osi, hc.amc⟩, by simp [frontTexts], [], by simp [State.setTitle], .nil⟩
    · cases h
      exact ⟨hc, by simp [frontTexts], [], by simp, .nil⟩
  | docConfig ls =>
    simp only [stepTok] at h
    split at h
    · cases h
      exact ⟨hc, by simp [frontTexts], [], by simp, .nil⟩
    · cases h
  | verbatim start lang ls =>
    simp only [stepTok] at h
    split at h
    · cases h
    · cases h
      exact ⟨hc, by simp [frontTexts], [], by simp, .nil⟩
  | test lang cfg cm code =>
    simp only [stepTok] at h
    have hcfg : ∀ (x : Except Err Cfg) (c : Cfg), x = .ok c →
        x = (if cfg.isEmpty then (.ok none : Except Err Cfg)
          else if env.testCfgOk (joinNumbered cfg) then .ok (some (joinNumbered cfg)) else .error .testConfigYaml) →
        c = cfgOf cfg := by
      intro x c hx hx'
      rw [hx'] at hx
      unfold cfgOf
      split at hx
      · rename_i he; cases hx; simp [he]
      · rename_i he
        split at hx
        · cases hx; simp [he]
        · cases hx
    split at h
    · cases h
    · rename_i c hceq
      have hc' : c = cfgOf cfg := hcfg _ c hceq rfl
      have hclean : Clean (st.lp.setConfig c) := ⟨hc.cmd, hc.exps, hc.code, hc.osi, hc.amc⟩
      split at h
      · cases h
      · rename_i lp hlp
        by_cases hcode : code = []
        · subst hcode
          simp only [addAll] at hlp
          cases hlp
          simp only [List.getLast?_nil] at h
          cases h
          exact ⟨hclean, by simp [frontTexts], [], by simp [State.setConfig], by simp only [testBlocks, List.isEmpty_nil, if_true]; exact .nil⟩
        · obtain ⟨c0, more, after, g0, g0', g1, g2, g3, g4, g5, g6, g7, g8, g9⟩ :=
            addAll_block_inv env.expOk code _ lp hclean hcode hlp
          cases hl : code.getLast? with
          | none => exact absurd (List.getLast?_eq_none_iff.mp hl) hcode
          | some last =>
            obtain ⟨li, ll⟩ := last
            simp only [hl] at h
            have hne : lp.command.isEmpty = false := by rw [g1]; rfl
            simp only [State.endTestcase, hne, Bool.false_eq_true, if_false] at h
            cases h
            refine ⟨⟨rfl, rfl, rfl, rfl, by simpa [State.flush] using g9⟩, by simp [frontTexts],
              [{ title := lp.title.getD [], command := lp.command, exitCode := lp.exitCode,
                 expectations := lp.expectations, lineNumber := lp.outputStartIndex.getD li + 1,
                 config := lp.config }], ?_, ?_⟩
            · simp [State.flush, g6, State.setConfig]
            · have hie : code.isEmpty = false := by simpa using hcode
              simp only [testBlocks, hie, Bool.false_eq_true, if_false]
              refine .cons ⟨c0, more, after, g0, g0', g1, g2, g3, g4, g5, ?_⟩ .nil
              simp [g8, State.setConfig, hc']

theorem testBlocks_cons (t : Tok) (r : List Tok) : testBlocks (t :: r) = testBlocks [t] ++ testBlocks r := by
  cases t <;> simp [testBlocks]
  split <;> simp

theorem frontTexts_cons (t : Tok) (r : List Tok) : frontTexts (t :: r) = frontTexts [t] ++ frontTexts r := by
  cases t <;> simp [frontTexts]


/-- **alignment**: the tests the parser returns are, in order, the readings of the scrut blocks that
hold code; the front-matter texts are those of the front-matter tokens -/
theorem parseTokens_inv (env : Env) :
    ∀ (toks : List Tok) (st fin : PState), Clean st.lp → parseTokens env st toks = .ok fin →
      Clean fin.lp ∧ fin.docConfigs = st.docConfigs ++ frontTexts toks ∧
      ∃ new, fin.lp.testcases = st.lp.testcases ++ new ∧
        Pairs (fun b tc => BlockOf env.expOk b.1 b.2 tc) (testBlocks toks) new
  | [], st, fin, hc, h => by
    simp only [parseTokens] at h
    cases h
    exact ⟨hc, by simp [frontTexts], [], by simp, .nil⟩
  | t :: r, st, fin, hc, h => by
    simp only [parseTokens] at h
    split at h
    · cases h
    · rename_i st1 h1
      obtain ⟨c1, d1, n1, t1, f1⟩ := stepTok_inv env st st1 hc t h1
      obtain ⟨c2, d2, n2, t2, f2⟩ := parseTokens_inv env r st1 fin c1 h
      refine ⟨c2, ?_, n1 ++ n2, ?_, ?_⟩
      · rw [d2, d1, frontTexts_cons t r, List.append_assoc]
      · rw [t2, t1, List.append_assoc]
      · rw [testBlocks_cons t r]
        exact pairs_append f1 f2

theorem parseLines_inv (env : Env) (lines : List Line) (p : Parsed) (h : parseLines env lines = .ok p) :
    p.docConfigs = frontTexts (runP env.languages .top false 0 lines) ∧
    Pairs (fun b tc => BlockOf env.expOk b.1 b.2 tc) (testBlocks (runP env.languages .top false 0 lines)) p.tests := by
  unfold parseLines at h
  rw [tokenize_eq] at h
  simp only at h
  split at h
  · cases h
  · rename_i st hst
    cases h
    obtain ⟨_, d, n, t, f⟩ := parseTokens_inv env _ {} st ⟨rfl, rfl, rfl, rfl, rfl⟩ hst
    refine ⟨by simpa using d, ?_⟩
    have : st.lp.testcases = n := by simpa [State.new] using t
    rw [this]; exact f

end Scrut.Markdown
