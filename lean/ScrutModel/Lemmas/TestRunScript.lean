import ScrutModel.Lemmas.TestRunProps
import ScrutModel.Lemmas.StripAnsi
/-!
# The single-script path of `scrut test` without the guards of `Lemmas/TestRunProps.lean`

`Model/TestRun.lean` section 6 (`runScript`, `testCramDocumentBytes`, `testDocumentCompatBytes`).

* `replace_crlf` of the WHOLE captured stream (compiled `keep_crlf` not `true`) commutes with the
  divider protocol: the divider line carries no CR and starts with `~`, so a CR at the end of a
  payload cannot pair with it (`spec_scriptStream`); replacing CR LF creates no salted divider start
  (`infix_of_infix_spec`).
* a command that leaves the shell ends the stream: fewer dividers than test cases are found
  (`iterLines_scriptStream`), and the executor reports an execution error unless a skip code was seen
  (`execScriptBytes_inv`).
* the skip decision of the single-script executor in terms of the runs (`scriptSkipHit`).
-/

/-! ## `replace_crlf` and concatenation -/
namespace Scrut.Crlf

/-- a right part that does not start with LF cannot complete a CR LF across the seam -/
theorem spec_append_of_head (a b : List UInt8) (hb : b.head? ≠ some LF) :
    replaceCrlfSpec (a ++ b) = replaceCrlfSpec a ++ replaceCrlfSpec b := by
  induction a with
  | nil => rfl
  | cons x t ih =>
    have hh : ((t ++ b).head? = some LF) = (t.head? = some LF) := by
      cases t with
      | nil => simp [hb]
      | cons y t' => simp
    simp only [List.cons_append, replaceCrlfSpec, hh, ih]
    by_cases hc : x = CR ∧ t.head? = some LF
    · simp only [hc, and_self, if_true]
    · simp only [hc, if_false, List.cons_append]

/-- a left part without CR is kept as it is -/
theorem spec_append_no_cr (a b : List UInt8) (ha : CR ∉ a) :
    replaceCrlfSpec (a ++ b) = a ++ replaceCrlfSpec b := by
  induction a with
  | nil => rfl
  | cons x t ih =>
    have hx : x ≠ CR := fun e => ha (by simp [e])
    have ht : CR ∉ t := fun e => ha (by simp [e])
    simp only [List.cons_append, replaceCrlfSpec, hx, false_and, if_false, ih ht]

theorem spec_cr_lf (t : List UInt8) : replaceCrlfSpec (CR :: LF :: t) = LF :: replaceCrlfSpec t := by
  have h : ¬ ((LF : UInt8) = CR ∧ t.head? = some LF) := fun h => absurd h.1 (by decide)
  simp only [replaceCrlfSpec, List.head?_cons, and_self, if_true, h, if_false]

/-- a text without LF at the start of the replaced bytes is at the start of the bytes -/
theorem prefix_of_prefix_spec : ∀ (q n : List UInt8), LF ∉ n → n <+: replaceCrlfSpec q → n <+: q := by
  intro q
  induction q with
  | nil => intro n _ h; simpa [replaceCrlfSpec] using h
  | cons a t ih =>
    intro n hn h
    by_cases hc : a = CR ∧ t.head? = some LF
    · obtain ⟨ha, ht⟩ := hc
      cases t with
      | nil => simp at ht
      | cons y t' =>
        simp only [List.head?_cons, Option.some.injEq] at ht
        subst ha ht
        rw [spec_cr_lf] at h
        cases n with
        | nil => exact List.nil_prefix
        | cons z n' =>
          have := (List.cons_prefix_cons.1 h).1
          exact absurd (by simp [this]) hn
    · simp only [replaceCrlfSpec, hc, if_false] at h
      cases n with
      | nil => exact List.nil_prefix
      | cons z n' =>
        obtain ⟨hz, hp⟩ := List.cons_prefix_cons.1 h
        have hn' : LF ∉ n' := fun e => hn (by simp [e])
        exact List.cons_prefix_cons.2 ⟨hz, ih n' hn' hp⟩

/-- **replacing CR LF creates no new occurrence of a text without LF** -/
theorem infix_of_infix_spec : ∀ (p n : List UInt8), LF ∉ n → n <:+: replaceCrlfSpec p → n <:+: p := by
  intro p
  induction p with
  | nil => intro n _ h; simpa [replaceCrlfSpec] using h
  | cons a t ih =>
    intro n hn h
    by_cases hc : a = CR ∧ t.head? = some LF
    · simp only [replaceCrlfSpec, hc, and_self, if_true] at h
      exact List.IsInfix.trans (ih n hn h) (List.suffix_cons a t).isInfix
    · have hs : replaceCrlfSpec (a :: t) = a :: replaceCrlfSpec t := by
        simp only [replaceCrlfSpec, hc, if_false]
      rw [hs, List.infix_cons_iff] at h
      rcases h with h | h
      · rw [← hs] at h
        exact (prefix_of_prefix_spec (a :: t) n hn h).isInfix
      · exact List.IsInfix.trans (ih n hn h) (List.suffix_cons a t).isInfix

end Scrut.Crlf

/-! ## the divider parser on bytes without a divider start -/
namespace Scrut.Divider
open Scrut.Template

theorem parseSalted_noneedle (salt l : Bytes) (h : ¬ needle salt <:+: l) :
    parseSalted salt l = some .notFound := by
  have h' : splitFirst (needle salt) (trimNewlines l) = none := by
    rw [splitFirst_none_iff]
    exact fun hin => h (List.IsInfix.trans hin (trimNewlines_prefix l).isInfix)
  unfold parseSalted
  simp only [h']

/-- bytes without a divider start behind the last divider are dropped (what a command that leaves
the shell wrote) -/
theorem iterLines_plain (salt : Bytes) (limit : Option Nat) (i : Nat) :
    ∀ (payload cur : Bytes) (buf : List Bytes), ¬ needle salt <:+: (cur ++ payload) →
      iterLines salt limit (splitLines cur payload) buf i = .ok [] := by
  intro payload
  induction payload with
  | nil =>
    intro cur buf hno
    simp only [List.append_nil] at hno
    by_cases hcur : cur = []
    · simp [splitLines, hcur, iterLines]
    · simp only [splitLines, hcur, if_false]
      unfold iterLines
      simp only [parseSalted_noneedle salt cur hno]
      simp [iterLines]
  | cons b p ih =>
    intro cur buf hno
    by_cases hb : b = LF
    · subst hb
      have hcur : ¬ needle salt <:+: cur := fun hin => hno (List.IsInfix.trans hin (List.prefix_append _ _).isInfix)
      have hp' : ¬ needle salt <:+: ([] ++ p) := fun hin =>
        hno (List.IsInfix.trans hin (by simpa using (List.suffix_append (cur ++ [LF]) p).isInfix))
      simp only [splitLines, if_true]
      unfold iterLines
      simp only [parseSalted_plain salt cur hcur]
      exact ih [] (buf ++ [cur ++ [LF]]) hp'
    · have hno' : ¬ needle salt <:+: ((cur ++ [b]) ++ p) := by simpa using hno
      simp only [splitLines, hb, if_false]
      exact ih (cur ++ [b]) buf hno'

theorem cr_not_mem_body (salt : Bytes) (i c : Nat) (hsl : Crlf.CR ∉ salt) : Crlf.CR ∉ PREFIX ++ body salt i c := by
  have h1 : Crlf.CR ∉ PREFIX := by decide
  have h2 : Crlf.CR ∉ SEP := by decide
  have h3 := dec_not_mem i Crlf.CR (by decide)
  have h4 := dec_not_mem c Crlf.CR (by decide)
  simp only [body, List.mem_append, not_or]
  exact ⟨h1, ⟨⟨⟨⟨hsl, h2⟩, h3⟩, h2⟩, h4⟩⟩

/-- `replace_crlf` of a chunk followed by more: only the payload can change -/
theorem spec_chunk (salt : Bytes) (hsl : Crlf.CR ∉ salt) (i c : Nat) (payload rest : Bytes) :
    Crlf.replaceCrlfSpec (chunk salt i payload c ++ rest) =
      chunk salt i (Crlf.replaceCrlfSpec payload) c ++ Crlf.replaceCrlfSpec rest := by
  have hcr : Crlf.CR ∉ (PREFIX ++ body salt i c) ++ [LF] := by
    intro h
    rcases List.mem_append.1 h with h | h
    · exact cr_not_mem_body salt i c hsl h
    · revert h; decide
  have hhead : (((PREFIX ++ body salt i c) ++ [LF]) ++ rest).head? ≠ some Crlf.LF := by
    simp only [PREFIX, List.cons_append, List.head?_cons, ne_eq, Option.some.injEq]
    decide
  rw [chunk_eq, chunk_eq, List.append_assoc, Crlf.spec_append_of_head _ _ hhead,
    Crlf.spec_append_no_cr _ _ hcr]
  simp

/-! ### a divider whose index does not fit into `usize` (more than 2^64 test cases) -/

theorem parseUsize_dec_big (n : Nat) (hn : ¬ n < 2 ^ 64) : parseUsize (dec n) = none := by
  obtain ⟨k, r, h⟩ := dec_head n
  have h43 : digit k ≠ 43 := digit_ne k 43 (by decide)
  have hp := parseDigits_dec n
  rw [h] at hp
  unfold parseUsize
  rw [h]
  simp only [h43, if_false, hp, hn]

theorem parseDivider_bare_big (salt : Bytes) (i c : Nat) (hs : COLON ∉ salt) (hi : ¬ i < 2 ^ 64) :
    parseDivider (needle salt ++ tailOf i c) = none := by
  obtain ⟨g, hg⟩ := body_snoc salt i c
  have hd : digit c ≠ LF := digit_ne c LF (by decide)
  have htrim : trimNewlines (PREFIX ++ body salt i c) = PREFIX ++ body salt i c := by
    rw [hg]
    have : PREFIX ++ (g ++ [digit c]) = (PREFIX ++ g) ++ [digit c] := by simp
    rw [this, trimNewlines_snoc_ne _ _ hd]
  have hsp : splitFirst PREFIX (PREFIX ++ body salt i c) = some ([], body salt i c) := by
    have := splitFirst_append_of_none PREFIX [] (body salt i c) PREFIX_ne_nil
      (fun t ht hsuf => absurd (List.suffix_nil.1 hsuf) ht)
    simpa using this
  have h58 : COLON ∉ dec i := dec_not_mem i COLON (by decide)
  have hb : body salt i c = salt ++ SEP ++ (dec i ++ SEP ++ dec c) := by simp [body]
  rw [needle_tail]
  unfold parseDivider
  simp only [htrim, hsp]
  rw [hb]
  simp only [splitFirst_sep salt _ hs, splitFirst_sep (dec i) _ h58, parseUsize_dec_big i hi]

theorem parseSalted_divider_big (salt cur : Bytes) (i c : Nat) (hs : COLON ∉ salt) (h126 : (126 : UInt8) ∉ salt)
    (hcur : ¬ needle salt <:+: cur) (hi : ¬ i < 2 ^ 64) :
    parseSalted salt (cur ++ (PREFIX ++ body salt i c) ++ [LF]) = none := by
  obtain ⟨g, hg⟩ := body_snoc salt i c
  have hd : digit c ≠ LF := digit_ne c LF (by decide)
  have htrim : trimNewlines (cur ++ (PREFIX ++ body salt i c) ++ [LF]) = cur ++ needle salt ++ tailOf i c := by
    rw [trimNewlines_snoc_lf, hg]
    have : cur ++ (PREFIX ++ (g ++ [digit c])) = (cur ++ PREFIX ++ g) ++ [digit c] := by simp
    rw [this, trimNewlines_snoc_ne _ _ hd]
    have := needle_tail salt i c
    rw [hg] at this
    simp only [List.append_assoc] at this ⊢
    rw [this]
  unfold parseSalted
  simp only [htrim, splitFirst_needle salt cur _ h126 hcur, parseDivider_bare_big salt i c hs hi]

/-- the parser fails on the divider line of test 2^64 (the index is parsed as `usize`) -/
theorem iterLines_chunk_big (limit : Option Nat) (salt : Bytes) (hs : COLON ∉ salt) (hsl : LF ∉ salt)
    (h126 : (126 : UInt8) ∉ salt) (i c e : Nat) (hi : ¬ i < 2 ^ 64) (rest : Bytes) :
    ∀ (payload cur : Bytes) (buf : List Bytes), ¬ needle salt <:+: (cur ++ payload) →
      iterLines salt limit (splitLines cur (chunk salt i payload c ++ rest)) buf e = .error (.failed e) := by
  intro payload
  induction payload with
  | nil =>
    intro cur buf hno
    simp only [List.append_nil] at hno
    rw [chunk_eq]
    have hline := splitLines_line (PREFIX ++ body salt i c) cur rest (lf_not_mem_body salt i c hsl)
    simp only [List.nil_append, List.append_assoc, List.singleton_append] at hline ⊢
    rw [hline]
    have hp := parseSalted_divider_big salt cur i c hs h126 hno hi
    simp only [List.append_assoc] at hp
    unfold iterLines
    simp only [hp]
  | cons b p ih =>
    intro cur buf hno
    have hstep : chunk salt i (b :: p) c ++ rest = b :: (chunk salt i p c ++ rest) := by simp [chunk]
    rw [hstep]
    by_cases hb : b = LF
    · subst hb
      have hcur : ¬ needle salt <:+: cur := fun hin => hno (List.IsInfix.trans hin (List.prefix_append _ _).isInfix)
      have hp' : ¬ needle salt <:+: ([] ++ p) := fun hin =>
        hno (List.IsInfix.trans hin (by simpa using (List.suffix_append (cur ++ [LF]) p).isInfix))
      simp only [splitLines, if_true]
      unfold iterLines
      simp only [parseSalted_plain salt cur hcur]
      exact ih [] (buf ++ [cur ++ [LF]]) hp'
    · have hno' : ¬ needle salt <:+: ((cur ++ [b]) ++ p) := by simpa using hno
      simp only [splitLines, hb, if_false]
      exact ih (cur ++ [b]) buf hno'

end Scrut.Divider

/-! ## what the one script writes, cut at the divider lines -/
namespace Scrut.TestRun
open Scrut

/-- the runs in front of the first command that leaves the shell -/
def beforeLeave (runs : List SRan) : List SRan := runs.takeWhile (fun r => !r.leaves)

theorem salt_cr : Crlf.CR ∉ modelSalt := by decide

/-- **the divider protocol on what the script writes to stdout**: one output per command in front of
the first one that leaves the shell; what that command wrote is dropped; the parser fails at the
divider of test 2^64 -/
theorem iterLines_scriptStream (pay : SRan → Bytes) (code : SRan → Nat) :
    ∀ (runs : List SRan) (i : Nat),
      (∀ r ∈ runs, Divider.noSalted modelSalt (pay r) = true ∧ code r < 2 ^ 31) → i ≤ 2 ^ 64 →
      Divider.iterLines modelSalt none (Divider.splitLines [] (scriptStream pay code i runs)) [] i =
        if i + (beforeLeave runs).length ≤ 2 ^ 64 then
          .ok ((beforeLeave runs).map fun r => (pay r, (code r : Int)))
        else .error (.failed (2 ^ 64)) := by
  intro runs
  induction runs with
  | nil => intro i _ hi; simp [scriptStream, Divider.splitLines, Divider.iterLines, beforeLeave, hi]
  | cons r rs ih =>
    intro i hall hi
    have hr := hall r (by simp)
    have hno : ¬ Divider.needle modelSalt <:+: ([] ++ pay r) := by
      simpa using (Divider.noSalted_iff modelSalt (pay r)).1 hr.1
    by_cases hlv : r.leaves = true
    · simp only [scriptStream, hlv, if_true, beforeLeave, List.takeWhile_cons, Bool.not_true,
        Bool.false_eq_true, if_false, List.length_nil, Nat.add_zero, hi, List.map_nil]
      exact Divider.iterLines_plain modelSalt none i (pay r) [] [] hno
    · have hlv' : r.leaves = false := by simpa using hlv
      have hbl : beforeLeave (r :: rs) = r :: beforeLeave rs := by
        simp [beforeLeave, hlv']
      simp only [scriptStream, hlv', Bool.false_eq_true, if_false, hbl, List.length_cons, List.map_cons]
      by_cases hi' : i < 2 ^ 64
      · rw [Divider.iterLines_chunk none modelSalt salt_colon salt_lf salt_tilde i (code r) hi' hr.2
          (by intro n hn; cases hn) _ (pay r) [] [] hno]
        rw [ih (i + 1) (fun r' hr' => hall r' (by simp [hr'])) (by omega)]
        by_cases hc : i + ((beforeLeave rs).length + 1) ≤ 2 ^ 64
        · have hc' : i + 1 + (beforeLeave rs).length ≤ 2 ^ 64 := by omega
          simp [hc, hc']
        · have hc' : ¬ i + 1 + (beforeLeave rs).length ≤ 2 ^ 64 := by omega
          simp [hc, hc']
      · have hi2 : i = 2 ^ 64 := by omega
        have hc : ¬ i + ((beforeLeave rs).length + 1) ≤ 2 ^ 64 := by omega
        rw [Divider.iterLines_chunk_big none modelSalt salt_colon salt_lf salt_tilde i (code r) i hi' _ (pay r) [] [] hno]
        simp [hi2]

theorem iterate_scriptStream_gen (pay : SRan → Bytes) (code : SRan → Nat) (runs : List SRan)
    (hpay : ∀ r ∈ runs, Divider.noSalted modelSalt (pay r) = true ∧ code r < 2 ^ 31) :
    Divider.iterate modelSalt none (scriptStream pay code 0 runs) =
      if (beforeLeave runs).length ≤ 2 ^ 64 then
        .ok ((beforeLeave runs).map fun r => (pay r, (code r : Int)))
      else .error (.failed (2 ^ 64)) := by
  unfold Divider.iterate Divider.splitAtNewline
  rw [iterLines_scriptStream pay code runs 0 hpay (Nat.zero_le _)]
  simp

/-- `replace_crlf` of the whole stream replaces in every command's own bytes -/
theorem spec_scriptStream (pay : SRan → Bytes) (code : SRan → Nat) : ∀ (runs : List SRan) (i : Nat),
    Crlf.replaceCrlfSpec (scriptStream pay code i runs) =
      scriptStream (fun r => Crlf.replaceCrlfSpec (pay r)) code i runs := by
  intro runs
  induction runs with
  | nil => intro i; rfl
  | cons r rs ih =>
    intro i
    by_cases hlv : r.leaves = true
    · simp only [scriptStream, hlv, if_true]
    · have hlv' : r.leaves = false := by simpa using hlv
      simp only [scriptStream, hlv', Bool.false_eq_true, if_false]
      rw [Divider.spec_chunk modelSalt salt_cr, ih]

/-! ## `render_output` of the compiled test case -/

/-- the CR LF part of `render_output` of the compiled test case: `replace_crlf` unless the compiled
`keep_crlf` is `true` -/
def rend (cfg : Compiled) (b : Bytes) : Bytes :=
  if cfg.keepCrlf = some true then b else Crlf.replaceCrlfSpec b

/-- `render_output` of the compiled test case on bytes: `rend`, then `strip_ansi_sequences_bytes`
when the compiled `strip_ansi_escaping` is `true` -/
def rendFull (cfg : Compiled) (b : Bytes) : Bytes :=
  if cfg.stripAnsi = some true then StripAnsi.strip (rend cfg b) else rend cfg b

theorem renderOutput_compiled_full (cfg : Compiled) (raw : Bytes) :
    Crlf.renderOutput cfg.keepCrlf cfg.stripAnsi (fun b => some (StripAnsi.strip b)) raw =
      some (rendFull cfg raw) := by
  unfold rendFull rend
  by_cases hs : cfg.stripAnsi = some true
  · rw [hs, Crlf.renderOutput_strip]; simp
  · rw [Crlf.renderOutput_no_strip _ _ _ _ hs]; simp [hs]

theorem esc_not_mem_rend (cfg : Compiled) (b : Bytes) (h : StripAnsi.esc ∉ b) : StripAnsi.esc ∉ rend cfg b := by
  unfold rend
  split
  · exact h
  · exact fun hin => h ((Crlf.spec_sublist b).subset hin)

/-- bytes without `ESC`: the stripping changes nothing -/
theorem rendFull_no_esc (cfg : Compiled) (b : Bytes) (h : cfg.stripAnsi ≠ some true ∨ StripAnsi.esc ∉ b) :
    rendFull cfg b = rend cfg b := by
  unfold rendFull
  by_cases hs : cfg.stripAnsi = some true
  · rcases h with h | h
    · exact absurd hs h
    · simp only [hs, if_true]
      exact StripAnsi.strip_no_esc _ (esc_not_mem_rend cfg b h)
  · simp only [hs, if_false]

theorem renderOutput_compiled (cfg : Compiled) (raw : Bytes)
    (h : cfg.stripAnsi ≠ some true ∨ StripAnsi.esc ∉ raw) :
    Crlf.renderOutput cfg.keepCrlf cfg.stripAnsi (fun b => some (StripAnsi.strip b)) raw =
      some (rend cfg raw) := by
  rw [renderOutput_compiled_full, rendFull_no_esc cfg raw h]

theorem esc_not_mem_chunk (i c : Nat) (payload : Bytes) (h : StripAnsi.esc ∉ payload) :
    StripAnsi.esc ∉ Divider.chunk modelSalt i payload c := by
  have h0 : StripAnsi.esc ∉ modelSalt := by decide
  have h1 : StripAnsi.esc ∉ Divider.PREFIX := by decide
  have h2 : StripAnsi.esc ∉ Divider.SEP := by decide
  have h3 := Divider.dec_not_mem i StripAnsi.esc (by decide)
  have h4 := Divider.dec_not_mem c StripAnsi.esc (by decide)
  have h5 : StripAnsi.esc ∉ [Divider.LF] := by decide
  rw [Divider.chunk_eq]
  simp only [Divider.body, List.mem_append, not_or]
  exact ⟨h, ⟨h1, ⟨⟨⟨⟨h0, h2⟩, h3⟩, h2⟩, h4⟩⟩, h5⟩

/-- what the script writes holds no `ESC` when no command wrote one (the divider lines hold none) -/
theorem esc_not_mem_scriptStream (pay : SRan → Bytes) (code : SRan → Nat) :
    ∀ (runs : List SRan) (i : Nat), (∀ r ∈ runs, StripAnsi.esc ∉ pay r) →
      StripAnsi.esc ∉ scriptStream pay code i runs := by
  intro runs
  induction runs with
  | nil => intro i _; simp [scriptStream]
  | cons r rs ih =>
    intro i h
    have hr := h r (by simp)
    by_cases hlv : r.leaves = true
    · simpa only [scriptStream, hlv, if_true] using hr
    · have hlv' : r.leaves = false := by simpa using hlv
      simp only [scriptStream, hlv', Bool.false_eq_true, if_false, List.mem_append, not_or]
      exact ⟨esc_not_mem_chunk i (code r) (pay r) hr, ih (i + 1) (fun r' hr' => h r' (by simp [hr']))⟩

/-- no command wrote an `ESC` byte (to either stream) -/
def EscFree (runs : List SRan) : Prop :=
  ∀ r ∈ runs, StripAnsi.esc ∉ r.ran.stdout ∧ StripAnsi.esc ∉ r.ran.stderr

/-- the stripping of the WHOLE captured streams is the identity: the compiled `strip_ansi_escaping`
is not `true`, or no command wrote an `ESC` byte.  (Without it the stripping does not commute with
the divider protocol: a sequence a command leaves open runs into the following divider line.) -/
def StripInert (cfg : Compiled) (runs : List SRan) : Prop :=
  cfg.stripAnsi ≠ some true ∨ EscFree runs

theorem rend_scriptStream (cfg : Compiled) (pay : SRan → Bytes) (code : SRan → Nat) (runs : List SRan) (i : Nat) :
    rend cfg (scriptStream pay code i runs) = scriptStream (fun r => rend cfg (pay r)) code i runs := by
  unfold rend
  by_cases hk : cfg.keepCrlf = some true
  · simp only [hk, if_true]
  · simp only [hk, if_false]
    exact spec_scriptStream pay code runs i

theorem lf_not_mem_needle : Crlf.LF ∉ Divider.needle modelSalt := by decide

/-- rendering creates no divider start of this execution -/
theorem noSalted_rend (cfg : Compiled) (p : Bytes) (h : Divider.noSalted modelSalt p = true) :
    Divider.noSalted modelSalt (rend cfg p) = true := by
  unfold rend
  by_cases hk : cfg.keepCrlf = some true
  · simpa only [hk, if_true] using h
  · simp only [hk, if_false]
    rw [Divider.noSalted_iff] at h ⊢
    exact fun hin => h (Crlf.infix_of_infix_spec p _ lf_not_mem_needle hin)

/-! ## the skip decision of the single-script executor in terms of the runs -/

/-- the script's own exit status is the skip code, or a command in front of the first one that
leaves the shell ended with it (its divider line carries it) -/
def scriptSkipHit (skip : Int) (runs : List SRan) : Bool :=
  decide (scriptExit runs = skip) || (beforeLeave runs).any (fun r => decide (r.ran.code = skip))

end Scrut.TestRun

namespace Scrut.Exec

/-- the decisions of `execScript` on a script that ended with an exit code, with their causes -/
theorem execScript_code_inv (tcs : List TC) (c : Int) (outs : List Out) (r : ExecResult)
    (h : execScript tcs (.code c) outs = some r) :
    (r = .ok outs ∧ outs.length = tcs.length ∧ c ≠ scriptSkip tcs ∧
      ∀ o ∈ outs, o.status ≠ .code (scriptSkip tcs)) ∨
    ∃ i, r = .skipped i ∧ (c = scriptSkip tcs ∨ ∃ o ∈ outs, o.status = .code (scriptSkip tcs)) := by
  unfold execScript at h
  simp only at h
  split at h
  · rename_i hc
    cases h; exact Or.inr ⟨0, rfl, Or.inl hc⟩
  · rename_i hc
    split at h
    · rename_i i hf
      cases h
      obtain ⟨o, ho, hs⟩ := findIdx_spec _ outs i hf
      exact Or.inr ⟨i, rfl, Or.inr ⟨o, List.mem_of_getElem? ho, hs⟩⟩
    · rename_i hf
      split at h
      · cases h
      · rename_i hl
        cases h
        rw [List.findIdx?_eq_none_iff] at hf
        exact Or.inl ⟨rfl, by simpa using hl, hc, fun o ho => by simpa using hf o ho⟩

end Scrut.Exec

namespace Scrut.TestRun
open Scrut

theorem scriptSkip_compiled {tests : List Test} {tcs : List Exec.TC} {cfg : Compiled}
    (hl : tcs.length = tests.length) (hcfg : compileTestcase tests = some cfg) :
    Exec.scriptSkip (tcs.map fun tc => { tc with skipCode := cfg.skipCode }) = cfg.skipCode.getD 80 := by
  cases tcs with
  | cons tc rest => rfl
  | nil =>
    have ht : tests = [] := List.length_eq_zero_iff.1 (by simpa using hl.symm)
    subst ht
    simp [compileTestcase, setConsistent] at hcfg
    subst hcfg
    rfl

theorem beforeLeave_subset (runs : List SRan) : ∀ r ∈ beforeLeave runs, r ∈ runs :=
  fun _ hr => (List.takeWhile_prefix _).subset hr

theorem takeWhile_self {α : Type} (p : α → Bool) : ∀ l : List α, l.takeWhile p = l → ∀ x ∈ l, p x = true := by
  intro l
  induction l with
  | nil => intro _ x hx; simp at hx
  | cons a t ih =>
    intro h x hx
    by_cases ha : p a = true
    · simp only [List.takeWhile_cons, ha, if_true, List.cons.injEq, true_and] at h
      rcases List.mem_cons.1 hx with rfl | hx
      · exact ha
      · exact ih h x hx
    · simp [ha] at h

theorem beforeLeave_full {runs : List SRan} (h : (beforeLeave runs).length = runs.length) :
    beforeLeave runs = runs ∧ ∀ r ∈ runs, r.leaves = false := by
  have he : beforeLeave runs = runs := (List.takeWhile_prefix _).eq_of_length h
  refine ⟨he, ?_⟩
  intro r hr
  have := takeWhile_self _ runs he r hr
  simpa using this

/-- **the single-script executor in terms of the runs**: the document is skipped exactly on
`scriptSkipHit`; outputs are handed to validation only when NO command left the shell, and they are,
test by test, `render_output` of the bytes the test's own command wrote and its own exit code -/
theorem execScriptBytes_inv {tests : List Test} {tcs : List Exec.TC} {runs : List SRan}
    {r : Exec.ExecResult} {cfg : Compiled} (hl : tcs.length = tests.length)
    (hrl : runs.length = tests.length) (hcfg : compileTestcase tests = some cfg)
    (hcode : ∀ r ∈ runs, codeOk r = true) (hsalt : ∀ r ∈ runs, saltFree r = true)
    (hstrip : StripInert cfg runs)
    (h : execScriptBytes tests tcs runs = .ok r) :
    ((∃ i, r = .skipped i) ∧ scriptSkipHit (cfg.skipCode.getD 80) runs = true) ∨
    ∃ xs, r = .ok xs ∧ scriptSkipHit (cfg.skipCode.getD 80) runs = false ∧
      (∀ r ∈ runs, r.leaves = false) ∧
      zipScriptOuts tests (runs.map fun r =>
        ⟨rend cfg (payOut cfg r), rend cfg (payErr cfg r), r.ran.code⟩) = some xs := by
  have hskip := scriptSkip_compiled hl hcfg
  have hsaltOut : ∀ r ∈ runs, Divider.noSalted modelSalt (rend cfg (payOut cfg r)) = true ∧
      r.ran.code.toNat < 2 ^ 31 := by
    intro r hr
    refine ⟨noSalted_rend cfg _ ?_, (codeOk_spec (hcode r hr)).1⟩
    have hs := hsalt r hr
    simp only [saltFree, Bool.and_eq_true] at hs
    unfold payOut
    split
    · exact hs.2
    · exact hs.1.1
  have hout := iterate_scriptStream_gen (fun r => rend cfg (payOut cfg r)) (fun r => r.ran.code.toNat) runs hsaltOut
  have hmap : ((beforeLeave runs).map fun r => (rend cfg (payOut cfg r), ((r.ran.code.toNat : Nat) : Int))) =
      (beforeLeave runs).map fun r => (rend cfg (payOut cfg r), r.ran.code) := by
    apply List.map_congr_left
    intro r hr
    rw [(codeOk_spec (hcode r (beforeLeave_subset runs r hr))).2]
  rw [hmap] at hout
  unfold execScriptBytes at h
  have hescOut : cfg.stripAnsi ≠ some true ∨ StripAnsi.esc ∉
      (if decide (cfg.outputStream = some Yaml.Stream.combined) = true then
        scriptStream (fun r => r.ran.stdout ++ r.ran.stderr) (fun r => r.ran.code.toNat) 0 runs
      else scriptStream (fun r => r.ran.stdout) (fun r => r.ran.code.toNat) 0 runs) := by
    rcases hstrip with hs | hs
    · exact Or.inl hs
    · right
      split
      · exact esc_not_mem_scriptStream _ _ runs 0 (fun r hr => by
          simp only [List.mem_append, not_or]; exact hs r hr)
      · exact esc_not_mem_scriptStream _ _ runs 0 (fun r hr => (hs r hr).1)
  have hescErr : cfg.stripAnsi ≠ some true ∨ StripAnsi.esc ∉
      (if decide (cfg.outputStream = some Yaml.Stream.combined) = true then ([] : Bytes)
      else scriptStream (fun r => r.ran.stderr) (fun r => r.ran.code.toNat) 0 runs) := by
    rcases hstrip with hs | hs
    · exact Or.inl hs
    · right
      split
      · simp
      · exact esc_not_mem_scriptStream _ _ runs 0 (fun r hr => (hs r hr).2)
  simp only [hcfg, renderOutput_compiled cfg _ hescOut, renderOutput_compiled cfg _ hescErr] at h
  have hraw : (if decide (cfg.outputStream = some Yaml.Stream.combined) = true then
        scriptStream (fun r => r.ran.stdout ++ r.ran.stderr) (fun r => r.ran.code.toNat) 0 runs
      else scriptStream (fun r => r.ran.stdout) (fun r => r.ran.code.toNat) 0 runs) =
      scriptStream (payOut cfg) (fun r => r.ran.code.toNat) 0 runs := by
    by_cases hc : cfg.outputStream = some .combined
    · have hp : payOut cfg = fun r => r.ran.stdout ++ r.ran.stderr := by funext r; simp [payOut, hc]
      simp [hc, hp]
    · have hp : payOut cfg = fun r => r.ran.stdout := by funext r; simp [payOut, hc]
      simp [hc, hp]
  rw [hraw, rend_scriptStream, hout, hskip] at h
  have hanyT : ∀ o ∈ ((beforeLeave runs).map fun r => (rend cfg (payOut cfg r), r.ran.code)).map
        (fun oc => (⟨.code oc.2, false, false⟩ : Exec.Out)),
      o.status = .code (cfg.skipCode.getD 80) →
      (beforeLeave runs).any (fun r => decide (r.ran.code = cfg.skipCode.getD 80)) = true := by
    intro o ho hs
    simp only [List.map_map, List.mem_map, Function.comp] at ho
    obtain ⟨r', hr', rfl⟩ := ho
    simp only [Exec.Status.code.injEq] at hs
    exact List.any_eq_true.2 ⟨r', hr', by simpa using hs⟩
  by_cases hbig : (beforeLeave runs).length ≤ 2 ^ 64
  · simp only [hbig, if_true, List.length_map] at h
    split at h
    · cases h
    · rename_i z hz
      rcases Exec.execScript_code_inv _ _ _ _ hz with ⟨_, hcount, hne, hnone⟩ | ⟨i, hi, _⟩
      · rw [hskip] at hne hnone
        have hfull : (beforeLeave runs).length = runs.length := by
          simpa [hl, hrl] using hcount
        obtain ⟨hbl, hleave⟩ := beforeLeave_full hfull
        rw [hbl] at h hnone hbig
        have hhit : scriptSkipHit (cfg.skipCode.getD 80) runs = false := by
          unfold scriptSkipHit
          rw [hbl, Bool.or_eq_false_iff]
          refine ⟨by simpa using hne, ?_⟩
          rw [List.any_eq_false]
          intro r' hr'
          have := hnone ⟨.code r'.ran.code, false, false⟩ (by
            simp only [List.map_map, List.mem_map, Function.comp]
            exact ⟨r', hr', rfl⟩)
          simpa using this
        have herr : (if decide (cfg.outputStream = some Yaml.Stream.combined) = true then
              (Except.ok [] : Except Divider.IterErr (List (Divider.Bytes × Int)))
            else Divider.iterate modelSalt (some runs.length)
              (rend cfg (if decide (cfg.outputStream = some Yaml.Stream.combined) = true then []
               else scriptStream (fun r => r.ran.stderr) (fun r => r.ran.code.toNat) 0 runs))) =
            .ok (if cfg.outputStream = some .combined then []
              else runs.map fun r => (rend cfg r.ran.stderr, ((r.ran.code.toNat : Nat) : Int))) := by
          by_cases hc : cfg.outputStream = some .combined
          · simp [hc]
          · simp only [hc, decide_false, Bool.false_eq_true, if_false]
            rw [rend_scriptStream,
              iterate_scriptStream (some runs.length) (fun r => rend cfg r.ran.stderr) (fun r => r.ran.code.toNat) runs hleave ?_
                hbig (by intro n hn; cases hn; exact Nat.le_refl _)]
            intro r hr
            have hs := hsalt r hr
            simp only [saltFree, Bool.and_eq_true] at hs
            exact ⟨noSalted_rend cfg _ hs.1.2, (codeOk_spec (hcode r hr)).1⟩
        rw [herr] at h
        simp only at h
        have hz' : Divider.zipErr (runs.map fun r => (rend cfg (payOut cfg r), r.ran.code))
            (if cfg.outputStream = some .combined then []
              else runs.map fun r => (rend cfg r.ran.stderr, ((r.ran.code.toNat : Nat) : Int))) =
            runs.map fun r => ⟨rend cfg (payOut cfg r), rend cfg (payErr cfg r), r.ran.code⟩ := by
          by_cases hc : cfg.outputStream = some .combined
          · have hre : rend cfg [] = [] := by unfold rend; split <;> rfl
            simp only [hc, if_true, payErr, hre]
            exact zipErr_maps_nil _ _ runs
          · simp only [hc, if_false, payErr]
            exact zipErr_maps _ _ _ (fun r => ((r.ran.code.toNat : Nat) : Int)) runs
        rw [hz'] at h
        split at h
        · rename_i xs hxs
          cases h
          exact Or.inr ⟨xs, rfl, hhit, hleave, hxs⟩
        · cases h
      · cases hi
    · rename_i r' hnok hr'
      cases h
      rcases Exec.execScript_code_inv _ _ _ _ hr' with ⟨hok, _⟩ | ⟨i, hi, hcause⟩
      · exact absurd hok (fun he => hnok _ he)
      · rw [hskip] at hcause
        refine Or.inl ⟨⟨i, hi⟩, ?_⟩
        unfold scriptSkipHit
        rw [Bool.or_eq_true]
        rcases hcause with hc | ⟨o, ho, hs⟩
        · exact Or.inl (by simpa using hc)
        · exact Or.inr (hanyT o ho hs)
  · simp only [hbig, if_false] at h
    split at h
    · rename_i hc
      cases h
      refine Or.inl ⟨⟨0, rfl⟩, ?_⟩
      unfold scriptSkipHit
      rw [Bool.or_eq_true]
      exact Or.inl (by simpa using hc)
    · cases h

/-! ## `runScript` -/

theorem setConsistent_origin {α : Type} [DecidableEq α] : ∀ (vs : List (Option α)) (cur : Option α) (x : α),
    setConsistent cur vs = some (some x) → cur = some x ∨ some x ∈ vs := by
  intro vs
  induction vs with
  | nil =>
    intro cur x h
    simp only [setConsistent, Option.some.injEq] at h
    exact Or.inl h
  | cons v vs ih =>
    intro cur x h
    cases cur with
    | none =>
      simp only [setConsistent] at h
      rcases ih v x h with h1 | h1
      · exact Or.inr (by simp [h1])
      · exact Or.inr (by simp [h1])
    | some c =>
      simp only [setConsistent] at h
      split at h
      · rcases ih (some c) x h with h1 | h1
        · exact Or.inl h1
        · exact Or.inr (by simp [h1])
      · cases h

/-- the five consistent keys of the compiled configuration -/
theorem compileTestcase_inv {tests : List Test} {cfg : Compiled} (h : compileTestcase tests = some cfg) :
    setConsistent none (tests.map (·.cfg.keepCrlf)) = some cfg.keepCrlf ∧
    setConsistent none (tests.map (·.cfg.outputStream)) = some cfg.outputStream ∧
    setConsistent none (tests.map (·.cfg.skipCode)) = some cfg.skipCode ∧
    setConsistent none (tests.map (·.cfg.stripAnsi)) = some cfg.stripAnsi := by
  unfold compileTestcase at h
  split at h
  · rename_i d k o s a _ hk ho hs ha
    split at h
    · cases h
    · cases h
      exact ⟨hk, ho, hs, ha⟩
  · cases h

/-- a compiled `strip_ansi_escaping: true` comes from a test case that sets it -/
theorem compiled_stripAnsi_origin {tests : List Test} {cfg : Compiled} (h : compileTestcase tests = some cfg)
    (hs : cfg.stripAnsi = some true) : ∃ t ∈ tests, t.cfg.stripAnsi = some true := by
  have ha := (compileTestcase_inv h).2.2.2
  rw [hs] at ha
  rcases setConsistent_origin _ none true ha with h1 | h1
  · cases h1
  · obtain ⟨t, ht, he⟩ := List.mem_map.1 h1
    exact ⟨t, ht, he⟩

/-- **the hypothesis of the statements "in terms of the runs" below**: the stripping of the whole
captured streams is the identity -- no test case sets `strip_ansi_escaping: true`, or no command
(of the runs the document uses) wrote an `ESC` byte.  Outside it `strip_ansi_sequences_bytes` runs
over payloads AND divider lines; what holds there is `Props/C16.lean`
(`C16_script_strip_ansi_no_escape`: nothing else changes when there is nothing to strip) and the
evaluated documents `ex_strip_*` below. -/
def ScriptStripInert (tests : List Test) (runs : List SRan) : Prop :=
  (∀ t ∈ tests, t.cfg.stripAnsi ≠ some true) ∨ EscFree (runs.take tests.length)

theorem stripInert_compiled {tests : List Test} {cfg : Compiled} {runs : List SRan}
    (hcfg : compileTestcase tests = some cfg) (h : ScriptStripInert tests runs) :
    StripInert cfg (runs.take tests.length) := by
  rcases h with h | h
  · left
    intro hs
    obtain ⟨t, ht, he⟩ := compiled_stripAnsi_origin hcfg hs
    exact h t ht he
  · exact Or.inr h

/-- the skip code of the one script: the compiled `skip_document_code` (the first one set on a test
case, which every later test case has to repeat; 80 when none is set) -/
def scriptSkipCode (tests : List Test) : Int :=
  match compileTestcase tests with
  | some cfg => cfg.skipCode.getD 80
  | none => 80

/-- the document is skipped by the single-script executor: see `scriptSkipHit` -/
def scriptSkips (tests : List Test) (runs : List SRan) : Bool :=
  scriptSkipHit (scriptSkipCode tests) (runs.take tests.length)

/-- **master statement about `runScript` in terms of the runs** -/
theorem runScript_report_inv {tests : List Test} {runs : List SRan} {outcomes : List Exec.Outcome}
    {status : Nat} (hstrip : ScriptStripInert tests runs)
    (h : runScript tests runs = .report outcomes status) :
    ∃ cfg tcs, compileTestcase tests = some cfg ∧ tests.length ≤ runs.length ∧
      tests.mapM (fun t => (accepts t.exps []).map t.tc) = some tcs ∧
      ((scriptSkips tests runs = true ∧
          outcomes = (List.range tests.length).map (fun i => (i, Exec.Verdict.skipped))) ∨
       (scriptSkips tests runs = false ∧ (∀ r ∈ runs.take tests.length, r.leaves = false) ∧
          ∃ xs, zipScriptOuts tests ((runs.take tests.length).map fun r =>
              ⟨rend cfg (payOut cfg r), rend cfg (payErr cfg r), r.ran.code⟩) = some xs ∧
            outcomes = Exec.judge tcs xs 0)) := by
  unfold runScript at h
  split at h
  · cases h
  · rename_i hrl
    simp only at h
    split at h
    · cases h
    · rename_i hguard
      simp only [Bool.not_eq_true, Bool.not_eq_false', Bool.and_eq_true, List.all_eq_true] at hguard
      split at h
      · cases h
      · rename_i tcs htc
        have hl : tcs.length = tests.length := (mapM_option_spec _ tests tcs htc).1
        split at h
        · cases h
        · cases h
        · cases h
        · rename_i r hr
          simp only [Result.report.injEq] at h
          obtain ⟨h1, _⟩ := h
          cases hcfg : compileTestcase tests with
          | none => unfold execScriptBytes at hr; simp [hcfg] at hr
          | some cfg =>
            have htake : (runs.take tests.length).length = tests.length := by
              rw [List.length_take]; omega
            have hcode : scriptSkipCode tests = cfg.skipCode.getD 80 := by
              unfold scriptSkipCode; rw [hcfg]
            refine ⟨cfg, tcs, rfl, Nat.le_of_not_lt hrl, htc, ?_⟩
            unfold scriptSkips
            rw [hcode]
            rcases execScriptBytes_inv hl htake hcfg hguard.1 hguard.2 (stripInert_compiled hcfg hstrip) hr with
              ⟨⟨k, hk⟩, hhit⟩ | ⟨xs, hxs, hhit, hleave, hzip⟩
            · left
              exact ⟨hhit, by rw [← h1, hk, Exec.runDocument_skipped, hl]⟩
            · right
              exact ⟨hhit, hleave, xs, hzip, by rw [← h1, hxs, Exec.runDocument_ok]⟩

/-- the bytes `validate` compares for test `t` in the single-script executor: `render_output` of the
compiled test case (`replace_crlf` unless the compiled `keep_crlf` is `true`) applied to what the
test's OWN command wrote to the stream its `output_stream` selects -/
def scriptRendered (cfg : Compiled) (t : Test) (r : SRan) : Bytes := rend cfg (scriptSelected cfg t r)

/-- `scriptRendered` is the model's `render_output` (with the compiled `keep_crlf` and
`strip_ansi_escaping`) on the test's own bytes, when the stripping has nothing to strip there -/
theorem scriptRendered_spec (cfg : Compiled) (t : Test) (r : SRan)
    (h : cfg.stripAnsi ≠ some true ∨ StripAnsi.esc ∉ scriptSelected cfg t r) :
    Crlf.renderOutput cfg.keepCrlf cfg.stripAnsi (fun b => some (StripAnsi.strip b)) (scriptSelected cfg t r) =
      some (scriptRendered cfg t r) :=
  renderOutput_compiled cfg _ h

theorem scriptRendered_keep (cfg : Compiled) (t : Test) (r : SRan) (hk : cfg.keepCrlf = some true) :
    scriptRendered cfg t r = scriptSelected cfg t r := by
  simp [scriptRendered, rend, hk]

theorem scriptRendered_replace (cfg : Compiled) (t : Test) (r : SRan) (hk : cfg.keepCrlf ≠ some true) :
    scriptRendered cfg t r = Crlf.replaceCrlfSpec (scriptSelected cfg t r) := by
  simp [scriptRendered, rend, hk]

/-- **T2 for `runScript`, no guards** (no false success): a test reported `success` ended with the
expected exit code, the bytes its OWN command wrote to the selected stream are accepted by its
expectations after `render_output`, no command left the shell and the document is not skipped -/
theorem runScript_ok_sound_full {tests : List Test} {runs : List SRan} {outcomes : List Exec.Outcome}
    {status i : Nat} (hstrip : ScriptStripInert tests runs)
    (h : runScript tests runs = .report outcomes status)
    (hi : (i, Exec.Verdict.ok) ∈ outcomes) :
    ∃ (t : Test) (r : SRan) (cfg : Compiled), tests[i]? = some t ∧ runs[i]? = some r ∧
      compileTestcase tests = some cfg ∧ r.ran.code = t.expected.getD 0 ∧
      accepts t.exps (scriptRendered cfg t r) = some true ∧
      (∀ r ∈ runs.take tests.length, r.leaves = false) ∧ scriptSkips tests runs = false := by
  obtain ⟨cfg, tcs, hcfg, hrl, htc, hcases⟩ := runScript_report_inv hstrip h
  obtain ⟨hl, htcs⟩ := mapM_option_spec _ tests tcs htc
  rcases hcases with ⟨_, ho⟩ | ⟨hhit, hleave, xs, hzip, ho⟩
  · rw [ho] at hi
    obtain ⟨j, _, he⟩ := List.mem_map.1 hi
    cases he
  · rw [ho] at hi
    obtain ⟨tc, x, htci, hxi, _, hv⟩ := (Exec.mem_judge_zero tcs xs i .ok).1 hi
    have hil : i < tests.length := by
      have := (List.getElem?_eq_some_iff.1 htci).1
      omega
    have hti : tests[i]? = some tests[i] := List.getElem?_eq_getElem hil
    have hri : runs[i]? = some (runs[i]'(by omega)) := List.getElem?_eq_getElem (by omega)
    have hzi : ((runs.take tests.length).map fun r =>
        (⟨rend cfg (payOut cfg r), rend cfg (payErr cfg r), r.ran.code⟩ : Divider.Out))[i]? =
        some ⟨rend cfg (payOut cfg (runs[i]'(by omega))), rend cfg (payErr cfg (runs[i]'(by omega))),
          (runs[i]'(by omega)).ran.code⟩ := by
      rw [List.getElem?_map, List.getElem?_take_of_lt hil, hri]
      rfl
    obtain ⟨x', hx', hso⟩ := zipScriptOuts_index tests _ xs hzip i _ _ hti hzi
    rw [hxi] at hx'
    cases hx'
    obtain ⟨tc', htc', hmap⟩ := htcs i _ hti
    rw [htci] at htc'
    cases htc'
    cases ha : accepts tests[i].exps [] with
    | none => simp [ha] at hmap
    | some a =>
      simp only [ha, Option.map_some, Option.some.injEq] at hmap
      subst hmap
      unfold scriptOut at hso
      simp only at hso
      cases hao : accepts tests[i].exps (rend cfg (payOut cfg (runs[i]'(by omega)))) with
      | none => simp [hao] at hso
      | some ao =>
        cases hae : accepts tests[i].exps (rend cfg (payErr cfg (runs[i]'(by omega)))) with
        | none => simp [hao, hae] at hso
        | some ae =>
          simp only [hao, hae, Option.some.injEq] at hso
          subst hso
          obtain ⟨c, hc, hce, hsel⟩ := (Exec.validate_ok_iff _ _).1 hv.symm
          have hcr : c = (runs[i]'(by omega)).ran.code := by cases hc; rfl
          rw [hcr] at hce
          rw [selected_of_out] at hsel
          refine ⟨tests[i], runs[i]'(by omega), cfg, hti, hri, hcfg, hce, ?_, hleave, hhit⟩
          unfold scriptRendered scriptSelected
          by_cases hs : tests[i].cfg.outputStream = some .stderr
          · simp only [hs, if_true] at hsel ⊢; rw [hae, hsel]
          · simp only [hs, if_false] at hsel ⊢; rw [hao, hsel]

/-- **T4 for `runScript` in terms of the runs**: the document is reported `skipped` -- every test,
exit status 0 -- exactly when `scriptSkips`; no other verdict than `success`, wrong output, wrong
exit code or `skipped` is reported (completed commands: no timeouts) -/
theorem runScript_skip {tests : List Test} {runs : List SRan} {outcomes : List Exec.Outcome}
    {status : Nat} (hstrip : ScriptStripInert tests runs)
    (h : runScript tests runs = .report outcomes status) :
    (scriptSkips tests runs = true →
      outcomes = (List.range tests.length).map (fun i => (i, Exec.Verdict.skipped)) ∧ status = 0) ∧
    (∀ i, (i, Exec.Verdict.skipped) ∈ outcomes ↔ (i < tests.length ∧ scriptSkips tests runs = true)) ∧
    (∀ o ∈ outcomes, o.2 = .ok ∨ o.2 = .malformed ∨ o.2 = .skipped ∨ ∃ c e, o.2 = .invalidExit c e) := by
  obtain ⟨_, hst, hkinds⟩ := runScript_report h
  obtain ⟨cfg, tcs, _, hrl, _, hcases⟩ := runScript_report_inv hstrip h
  have hmem : ∀ i, (i, Exec.Verdict.skipped) ∈
      (List.range tests.length).map (fun i => (i, Exec.Verdict.skipped)) ↔ i < tests.length := by
    intro i
    simp [List.mem_map, List.mem_range]
  refine ⟨?_, ?_, ?_⟩
  · intro hs
    rcases hcases with ⟨_, ho⟩ | ⟨hno, _⟩
    · refine ⟨ho, ?_⟩
      rw [hst, Exec.exitStatus_one, ho, not_failure_skipped_list]
      rfl
    · rw [hs] at hno; cases hno
  · intro i
    rcases hcases with ⟨hs, ho⟩ | ⟨hno, _, xs, hzip, ho⟩
    · rw [ho, hmem, hs]; simp
    · rw [hno]
      constructor
      · intro hi
        exfalso
        have hxc := (zipScriptOuts_spec tests _ xs hzip (by
          rw [List.length_map, List.length_take]; omega)).2
        rw [ho] at hi
        obtain ⟨tc, x, _, hx, _, hv⟩ := (Exec.mem_judge_zero tcs xs i .skipped).1 hi
        obtain ⟨c, hc⟩ := hxc x (List.mem_of_getElem? hx)
        unfold Exec.validate at hv
        rw [hc] at hv
        simp only at hv
        split at hv
        · cases hv
        · split at hv <;> cases hv
      · rintro ⟨_, hf⟩; cases hf
  · intro o ho
    rcases hkinds with hall | ⟨_, hv⟩
    · rw [hall] at ho
      obtain ⟨j, _, rfl⟩ := List.mem_map.1 ho
      exact Or.inr (Or.inr (Or.inl rfl))
    · rcases hv o ho with h1 | h1 | h1
      · exact Or.inl h1
      · exact Or.inr (Or.inl h1)
      · exact Or.inr (Or.inr (Or.inr h1))

/-! ## reading `scriptSkips` -/

theorem scriptSkipHit_nil (skip : Int) : scriptSkipHit skip [] = decide (0 = skip) := by
  simp only [scriptSkipHit, scriptExit, beforeLeave, List.takeWhile_nil, List.any_nil, Bool.or_false]
  exact decide_eq_decide.2 Iff.rfl

theorem scriptSkipHit_cons (skip : Int) (r : SRan) (rs : List SRan) :
    scriptSkipHit skip (r :: rs) =
      (decide (r.ran.code = skip) || (!r.leaves && scriptSkipHit skip rs)) := by
  unfold scriptSkipHit beforeLeave
  cases hl : r.leaves <;> simp [scriptExit, hl, Bool.or_left_comm]

/-- the three ways to skip the document: a command in front of which no command left the shell ended
with the skip code -- its divider line carries it, or it is the script's own exit status if that
command itself leaves the shell --, or the skip code is 0 and the script ran to its end (its own
exit status is that of the last `unset`) -/
theorem scriptSkipHit_iff (skip : Int) : ∀ runs : List SRan, scriptSkipHit skip runs = true ↔
    (∃ (i : Nat) (r : SRan), runs[i]? = some r ∧ r.ran.code = skip ∧
      ∀ (j : Nat) (x : SRan), j < i → runs[j]? = some x → x.leaves = false) ∨
    ((∀ x ∈ runs, x.leaves = false) ∧ skip = 0) := by
  intro runs
  induction runs with
  | nil =>
    rw [scriptSkipHit_nil]
    constructor
    · intro h
      exact Or.inr ⟨by simp, by simpa [eq_comm] using h⟩
    · rintro (⟨i, r, hr, _⟩ | ⟨_, h0⟩)
      · simp at hr
      · simp [h0]
  | cons r rs ih =>
    rw [scriptSkipHit_cons, Bool.or_eq_true, Bool.and_eq_true, ih]
    constructor
    · rintro (hc | ⟨hl, hrest⟩)
      · exact Or.inl ⟨0, r, rfl, by simpa using hc, fun j x hj => by omega⟩
      · have hl' : r.leaves = false := by simpa using hl
        rcases hrest with ⟨i, x, hx, hc, hb⟩ | ⟨hall, h0⟩
        · refine Or.inl ⟨i + 1, x, by simpa using hx, hc, ?_⟩
          intro j y hj hy
          cases j with
          | zero => simp at hy; rw [← hy]; exact hl'
          | succ j => exact hb j y (by omega) (by simpa using hy)
        · refine Or.inr ⟨?_, h0⟩
          intro x hx
          rcases List.mem_cons.1 hx with rfl | hx
          · exact hl'
          · exact hall x hx
    · rintro (⟨i, x, hx, hc, hb⟩ | ⟨hall, h0⟩)
      · cases i with
        | zero =>
          simp at hx
          subst hx
          exact Or.inl (by simpa using hc)
        | succ i =>
          have hl' : r.leaves = false := hb 0 r (by omega) rfl
          refine Or.inr ⟨by simp [hl'], Or.inl ⟨i, x, by simpa using hx, hc, ?_⟩⟩
          intro j y hj hy
          exact hb (j + 1) y (by omega) (by simpa using hy)
      · have hl' : r.leaves = false := hall r (by simp)
        exact Or.inr ⟨by simp [hl'], Or.inr ⟨fun x hx => hall x (by simp [hx]), h0⟩⟩

/-- `scriptSkips` in terms of the document's tests and the given runs -/
theorem scriptSkips_iff (tests : List Test) (runs : List SRan) : scriptSkips tests runs = true ↔
    (∃ (i : Nat) (r : SRan), i < tests.length ∧ runs[i]? = some r ∧ r.ran.code = scriptSkipCode tests ∧
      ∀ (j : Nat) (x : SRan), j < i → runs[j]? = some x → x.leaves = false) ∨
    ((∀ x ∈ runs.take tests.length, x.leaves = false) ∧ scriptSkipCode tests = 0) := by
  unfold scriptSkips
  rw [scriptSkipHit_iff]
  constructor
  · rintro (⟨i, r, hr, hc, hb⟩ | h)
    · rw [List.getElem?_take] at hr
      split at hr
      · rename_i hi
        refine Or.inl ⟨i, r, hi, hr, hc, ?_⟩
        intro j x hj hx
        exact hb j x hj (by rw [List.getElem?_take_of_lt (by omega)]; exact hx)
      · cases hr
    · exact Or.inr h
  · rintro (⟨i, r, hi, hr, hc, hb⟩ | h)
    · refine Or.inl ⟨i, r, by rw [List.getElem?_take_of_lt hi]; exact hr, hc, ?_⟩
      intro j x hj hx
      rw [List.getElem?_take_of_lt (by omega)] at hx
      exact hb j x hj hx
    · exact Or.inr h

theorem setConsistent_spec {α : Type} [DecidableEq α] : ∀ (vs : List (Option α)) (cur res : Option α),
    setConsistent cur vs = some res → (cur = none ∨ cur = res) ∧ ∀ v ∈ vs, v = none ∨ v = res := by
  intro vs
  induction vs with
  | nil =>
    intro cur res h
    simp only [setConsistent, Option.some.injEq] at h
    exact ⟨Or.inr h, by simp⟩
  | cons v vs ih =>
    intro cur res h
    cases cur with
    | none =>
      simp only [setConsistent] at h
      obtain ⟨h1, h2⟩ := ih v res h
      refine ⟨Or.inl rfl, ?_⟩
      intro w hw
      rcases List.mem_cons.1 hw with rfl | hw
      · exact h1
      · exact h2 w hw
    | some c =>
      simp only [setConsistent] at h
      split at h
      · rename_i hv
        obtain ⟨h1, h2⟩ := ih (some c) res h
        have hc : some c = res := by
          rcases h1 with h1 | h1
          · cases h1
          · exact h1
        refine ⟨Or.inr hc, ?_⟩
        intro w hw
        rcases List.mem_cons.1 hw with rfl | hw
        · exact Or.inr (hv.trans hc)
        · exact h2 w hw
      · cases h

/-- the compiled skip code is the one every test case that sets a skip code sets -/
theorem compiled_skipCode {tests : List Test} {cfg : Compiled} (h : compileTestcase tests = some cfg) :
    ∀ t ∈ tests, t.cfg.skipCode = none ∨ t.cfg.skipCode = cfg.skipCode := by
  intro t ht
  exact (setConsistent_spec _ none _ (compileTestcase_inv h).2.2.1).2 _ (List.mem_map.2 ⟨t, ht, rfl⟩)

/-- … likewise `keep_crlf` -/
theorem compiled_keepCrlf {tests : List Test} {cfg : Compiled} (h : compileTestcase tests = some cfg) :
    ∀ t ∈ tests, t.cfg.keepCrlf = none ∨ t.cfg.keepCrlf = cfg.keepCrlf := by
  intro t ht
  exact (setConsistent_spec _ none _ (compileTestcase_inv h).1).2 _ (List.mem_map.2 ⟨t, ht, rfl⟩)

/-- … likewise `strip_ansi_escaping` -/
theorem compiled_stripAnsi {tests : List Test} {cfg : Compiled} (h : compileTestcase tests = some cfg) :
    ∀ t ∈ tests, t.cfg.stripAnsi = none ∨ t.cfg.stripAnsi = cfg.stripAnsi := by
  intro t ht
  exact (setConsistent_spec _ none _ (compileTestcase_inv h).2.2.2).2 _ (List.mem_map.2 ⟨t, ht, rfl⟩)

/-! ## `strip_ansi_escaping` in the single-script executor (fix: `set_consistent!(strip_ansi_escaping)`) -/

/-- the test case without the key -/
def clearStrip (t : Test) : Test := { t with cfg := { t.cfg with stripAnsi := none } }

theorem setConsistent_all_none {α : Type} [DecidableEq α] : ∀ (n : Nat),
    setConsistent (none : Option α) (List.replicate n none) = some none := by
  intro n
  induction n with
  | zero => rfl
  | succ n ih => simpa [List.replicate_succ, setConsistent] using ih

theorem setConsistent_all_same {α : Type} [DecidableEq α] (x : α) : ∀ (vs : List (Option α)) (cur : Option α),
    (cur = none ∨ cur = some x) → (∀ v ∈ vs, v = some x) → ∃ a, setConsistent cur vs = some a := by
  intro vs
  induction vs with
  | nil => intro cur _ _; exact ⟨cur, rfl⟩
  | cons v vs ih =>
    intro cur hc hv
    have hv0 : v = some x := hv v (by simp)
    have hvs : ∀ w ∈ vs, w = some x := fun w hw => hv w (by simp [hw])
    rcases hc with hc | hc
    · subst hc
      simp only [setConsistent]
      exact ih v (Or.inr hv0) hvs
    · subst hc
      simp only [setConsistent, hv0, if_true]
      exact ih (some x) (Or.inr rfl) hvs

/-- **an inconsistent key is an execution error** -/
theorem execScriptBytes_strip_inconsistent (tests : List Test) (tcs : List Exec.TC) (runs : List SRan)
    (h : setConsistent none (tests.map (·.cfg.stripAnsi)) = none) :
    execScriptBytes tests tcs runs = .error .exec := by
  have hc : compileTestcase tests = none := by
    unfold compileTestcase
    rw [h]
    split
    · rename_i ha; cases ha
    · rfl
  unfold execScriptBytes
  rw [hc]

theorem compileTestcase_clearStrip {tests : List Test} {a : Option Bool}
    (hcons : setConsistent none (tests.map (·.cfg.stripAnsi)) = some a) :
    compileTestcase tests =
      (compileTestcase (tests.map clearStrip)).map (fun c => { c with stripAnsi := a }) := by
  have e1 : (tests.map clearStrip).map (·.cfg.detached) = tests.map (·.cfg.detached) := by
    rw [List.map_map]; rfl
  have e2 : (tests.map clearStrip).map (·.cfg.keepCrlf) = tests.map (·.cfg.keepCrlf) := by
    rw [List.map_map]; rfl
  have e3 : (tests.map clearStrip).map (·.cfg.outputStream) = tests.map (·.cfg.outputStream) := by
    rw [List.map_map]; rfl
  have e4 : (tests.map clearStrip).map (·.cfg.skipCode) = tests.map (·.cfg.skipCode) := by
    rw [List.map_map]; rfl
  have e5 : (tests.map clearStrip).map (·.cfg.stripAnsi) = List.replicate tests.length none := by
    rw [List.map_map]
    apply List.ext_getElem
    · simp
    · intro i h1 h2; simp [clearStrip]
  have e6 : (tests.map clearStrip).any (·.cfg.timeout.isSome) = tests.any (·.cfg.timeout.isSome) := by
    rw [List.any_map]; rfl
  unfold compileTestcase
  rw [e1, e2, e3, e4, e5, e6, hcons, setConsistent_all_none]
  cases setConsistent none (tests.map (·.cfg.detached)) <;>
    cases setConsistent none (tests.map (·.cfg.keepCrlf)) <;>
    cases setConsistent none (tests.map (·.cfg.outputStream)) <;>
    cases setConsistent none (tests.map (·.cfg.skipCode)) <;> simp only [Option.map] <;>
    split <;> rfl

theorem zipScriptOuts_clearStrip : ∀ (tests : List Test) (outs : List Divider.Out),
    zipScriptOuts (tests.map clearStrip) outs = zipScriptOuts tests outs := by
  intro tests
  induction tests with
  | nil => intro outs; rfl
  | cons t ts ih =>
    intro outs
    cases outs with
    | nil => rfl
    | cons o os =>
      simp only [List.map_cons, zipScriptOuts, ih os]
      rfl

/-- **nothing to strip, nothing changes** (executor): a consistent `strip_ansi_escaping` on runs that
hold no `ESC` byte gives what the document without the key gives -/
theorem execScriptBytes_strip_no_escape (tests : List Test) (tcs : List Exec.TC) (runs : List SRan)
    (a : Option Bool) (hcons : setConsistent none (tests.map (·.cfg.stripAnsi)) = some a)
    (hesc : EscFree runs) :
    execScriptBytes tests tcs runs = execScriptBytes (tests.map clearStrip) tcs runs := by
  unfold execScriptBytes
  rw [compileTestcase_clearStrip hcons]
  simp only [zipScriptOuts_clearStrip]
  cases compileTestcase (tests.map clearStrip) with
  | none => rfl
  | some c =>
    obtain ⟨k, o, s, a'⟩ := c
    have h1 : ∀ r ∈ runs, StripAnsi.esc ∉ r.ran.stdout ++ r.ran.stderr := fun r hr => by
      simp only [List.mem_append, not_or]; exact hesc r hr
    have h2 : ∀ r ∈ runs, StripAnsi.esc ∉ r.ran.stdout := fun r hr => (hesc r hr).1
    have h3 : ∀ r ∈ runs, StripAnsi.esc ∉ r.ran.stderr := fun r hr => (hesc r hr).2
    have hO : ∀ (x : Option Bool) (pay : SRan → Bytes), (∀ r ∈ runs, StripAnsi.esc ∉ pay r) →
        Crlf.renderOutput k x (fun b => some (StripAnsi.strip b))
          (scriptStream pay (fun r => r.ran.code.toNat) 0 runs) =
        some (rend ⟨k, o, s, none⟩ (scriptStream pay (fun r => r.ran.code.toNat) 0 runs)) := by
      intro x pay hp
      exact renderOutput_compiled ⟨k, o, s, x⟩ _ (Or.inr (esc_not_mem_scriptStream pay _ runs 0 hp))
    have hN : ∀ (x : Option Bool),
        Crlf.renderOutput k x (fun b => some (StripAnsi.strip b)) [] = some (rend ⟨k, o, s, none⟩ []) := by
      intro x
      exact renderOutput_compiled ⟨k, o, s, x⟩ [] (Or.inr (by simp))
    simp only [Option.map]
    by_cases hc : o = some .combined
    · simp only [hc, decide_true, if_true, hO _ _ h1, hN]
    · simp only [hc, decide_false, Bool.false_eq_true, if_false, hO _ _ h2, hO _ _ h3]

theorem mapM_tc_clearStrip : ∀ (tests : List Test),
    (tests.map clearStrip).mapM (fun t => (accepts t.exps []).map t.tc) =
      tests.mapM (fun t => (accepts t.exps []).map t.tc) := by
  intro tests
  induction tests with
  | nil => rfl
  | cons t ts ih =>
    simp only [List.map_cons, List.mapM_cons, ih]
    rfl

/-- **nothing to strip, nothing changes** (`runScript`) -/
theorem runScript_strip_no_escape (tests : List Test) (runs : List SRan) (a : Option Bool)
    (hcons : setConsistent none (tests.map (·.cfg.stripAnsi)) = some a)
    (hesc : EscFree (runs.take tests.length)) :
    runScript tests runs = runScript (tests.map clearStrip) runs := by
  unfold runScript
  simp only [List.length_map, mapM_tc_clearStrip]
  split
  · rfl
  · split
    · rfl
    · cases tests.mapM (fun t => (accepts t.exps []).map t.tc) with
      | none => rfl
      | some tcs =>
        simp only [execScriptBytes_strip_no_escape tests tcs _ a hcons hesc]

/-! ### documents with `strip_ansi_escaping`, evaluated by the kernel -/

/-- Markdown under `--cram-compat`, one test with `strip_ansi_escaping: true` expecting the line `foo` -/
def exStripBytes : Bytes := Utf8.utf8 "# t\n\n```scrut {strip_ansi_escaping: true}\n$ cmd\nfoo\n```\n".toList
/-- the same document without the key -/
def exNoStripBytes : Bytes := Utf8.utf8 "# t\n\n```scrut\n$ cmd\nfoo\n```\n".toList
/-- two tests, the key on both -/
def exStrip2Bytes : Bytes := Utf8.utf8
  "# t\n\n```scrut {strip_ansi_escaping: true}\n$ cmd\nfoo\n```\n\n# u\n\n```scrut {strip_ansi_escaping: true}\n$ cmd\nbar\n```\n".toList
/-- two tests, the key on the first one only -/
def exStripDivBytes : Bytes := Utf8.utf8
  "# t\n\n```scrut {strip_ansi_escaping: true}\n$ cmd\nfoo\n```\n\n# u\n\n```scrut\n$ cmd\nbar\n```\n".toList
/-- `ESC [ 1 m foo ESC [ 0 m LF` -/
def exSgrFoo : Bytes := [27, 91, 49, 109, 102, 111, 111, 27, 91, 48, 109, 10]

/-- **the key has an effect under `--cram-compat`**: the SGR sequences are removed, `foo` accepts -/
theorem ex_strip_report :
    testDocumentCompatBytes exStripBytes [⟨⟨exSgrFoo, [], 0⟩, false⟩] = .report [(0, .ok)] 0 := by
  decide +kernel
/-- … without the key the same output is not accepted -/
theorem ex_nostrip_report :
    testDocumentCompatBytes exNoStripBytes [⟨⟨exSgrFoo, [], 0⟩, false⟩] = .report [(0, .malformed)] 50 := by
  decide +kernel
/-- the key on every test case: both outputs stripped -/
theorem ex_strip2_report :
    testDocumentCompatBytes exStrip2Bytes
      [⟨⟨exSgrFoo, [], 0⟩, false⟩, ⟨⟨[27, 91, 51, 49, 109, 98, 97, 114, 10], [], 0⟩, false⟩] =
      .report [(0, .ok), (1, .ok)] 0 := by
  decide +kernel
/-- diverging values: "inconsistent configuration value for strip_ansi_escaping" -/
theorem ex_strip_diverging :
    testDocumentCompatBytes exStripDivBytes [⟨⟨exSgrFoo, [], 0⟩, false⟩, ⟨⟨[98, 97, 114, 10], [], 0⟩, false⟩] =
      .execError := by
  decide +kernel
/-- an unterminated OSC (`ESC ] 0 ; t`) in the first test's output swallows the dividers behind it:
an execution error, not a verdict -/
theorem ex_strip_open_osc :
    testDocumentCompatBytes exStrip2Bytes
      [⟨⟨[102, 111, 111, 10, 27, 93, 48, 59, 116], [], 0⟩, false⟩, ⟨⟨[98, 97, 114, 10], [], 0⟩, false⟩] =
      .execError := by
  decide +kernel
/-- a lone `ESC` at the end of a command's bytes takes the first `~` of the divider line with it -/
theorem ex_strip_lone_esc :
    testDocumentCompatBytes exStripBytes [⟨⟨[102, 111, 111, 10, 27], [], 0⟩, false⟩] = .execError := by
  decide +kernel

/-! ## lifting to the two document functions -/

/-- `tests` are the prepared tests of the Markdown document `bytes` read under `--cram-compat` -/
def CompatDocTests (bytes : Bytes) (tests : List Test) : Prop :=
  ∃ text p, readFile bytes = .ok text ∧ Markdown.parseMarkdown parseEnv text = .ok p ∧
    p.docConfigs.all frontMatterHarmless = true ∧ p.tests.mapM prepareCompat = .ok tests

theorem testCramDocumentBytes_report_iff (bytes : Bytes) (runs : List SRan)
    (outcomes : List Exec.Outcome) (status : Nat) :
    testCramDocumentBytes bytes runs = .report outcomes status ↔
      ∃ tests, CramDocTests bytes tests ∧ runScript tests runs = .report outcomes status := by
  constructor
  · intro h
    obtain ⟨text, pre, ts, tests, h1, h2, h3, _, h5⟩ := testCramDocumentBytes_report_inv h
    exact ⟨tests, ⟨text, pre, ts, h1, h2, h3⟩, h5⟩
  · rintro ⟨tests, ⟨text, pre, ts, h1, h2, h3⟩, h5⟩
    unfold testCramDocumentBytes testCramDocument
    simp only [h1, h2, h3]
    exact h5

theorem testDocumentCompatBytes_report_iff (bytes : Bytes) (runs : List SRan)
    (outcomes : List Exec.Outcome) (status : Nat) :
    testDocumentCompatBytes bytes runs = .report outcomes status ↔
      ∃ tests, CompatDocTests bytes tests ∧ runScript tests runs = .report outcomes status := by
  constructor
  · intro h
    unfold testDocumentCompatBytes at h
    split at h
    · cases h
    · cases h
    · rename_i text ht
      unfold testDocumentCompat at h
      split at h
      · cases h
      · cases h
      · rename_i p hp
        by_cases hf : p.docConfigs.all frontMatterHarmless = true
        · simp only [hf, Bool.not_true, Bool.false_eq_true, if_false] at h
          split at h
          · cases h
          · cases h
          · rename_i tests hm
            exact ⟨tests, ⟨text, p, ht, hp, hf, hm⟩, h⟩
        · simp [hf] at h
  · rintro ⟨tests, ⟨text, p, h1, h2, h3, h4⟩, h5⟩
    unfold testDocumentCompatBytes testDocumentCompat
    simp only [h1, h2, h3, h4, Bool.not_true, Bool.false_eq_true, if_false]
    exact h5

/-- **T2 lifted, Cram document, no guards** -/
theorem testCramDocumentBytes_ok_sound_full {bytes : Bytes} {runs : List SRan}
    {outcomes : List Exec.Outcome} {status i : Nat}
    (hstrip : ∀ tests, CramDocTests bytes tests → ScriptStripInert tests runs)
    (h : testCramDocumentBytes bytes runs = .report outcomes status)
    (hi : (i, Exec.Verdict.ok) ∈ outcomes) :
    ∃ (tests : List Test) (t : Test) (r : SRan) (cfg : Compiled), CramDocTests bytes tests ∧
      tests[i]? = some t ∧ runs[i]? = some r ∧
      compileTestcase tests = some cfg ∧ r.ran.code = t.expected.getD 0 ∧
      accepts t.exps (scriptRendered cfg t r) = some true ∧
      (∀ r ∈ runs.take tests.length, r.leaves = false) ∧ scriptSkips tests runs = false := by
  obtain ⟨tests, hd, hr⟩ := (testCramDocumentBytes_report_iff _ _ _ _).1 h
  obtain ⟨t, r, cfg, h1⟩ := runScript_ok_sound_full (hstrip tests hd) hr hi
  exact ⟨tests, t, r, cfg, hd, h1⟩

/-- **T2 lifted, Markdown under `--cram-compat`, no guards** -/
theorem testDocumentCompatBytes_ok_sound_full {bytes : Bytes} {runs : List SRan}
    {outcomes : List Exec.Outcome} {status i : Nat}
    (hstrip : ∀ tests, CompatDocTests bytes tests → ScriptStripInert tests runs)
    (h : testDocumentCompatBytes bytes runs = .report outcomes status)
    (hi : (i, Exec.Verdict.ok) ∈ outcomes) :
    ∃ (tests : List Test) (t : Test) (r : SRan) (cfg : Compiled), CompatDocTests bytes tests ∧
      tests[i]? = some t ∧ runs[i]? = some r ∧
      compileTestcase tests = some cfg ∧ r.ran.code = t.expected.getD 0 ∧
      accepts t.exps (scriptRendered cfg t r) = some true ∧
      (∀ r ∈ runs.take tests.length, r.leaves = false) ∧ scriptSkips tests runs = false := by
  obtain ⟨tests, hd, hr⟩ := (testDocumentCompatBytes_report_iff _ _ _ _).1 h
  obtain ⟨t, r, cfg, h1⟩ := runScript_ok_sound_full (hstrip tests hd) hr hi
  exact ⟨tests, t, r, cfg, hd, h1⟩

/-- **T4 lifted, Cram document** -/
theorem testCramDocumentBytes_skip {bytes : Bytes} {runs : List SRan}
    {outcomes : List Exec.Outcome} {status : Nat}
    (hstrip : ∀ tests, CramDocTests bytes tests → ScriptStripInert tests runs)
    (h : testCramDocumentBytes bytes runs = .report outcomes status) :
    ∃ tests, CramDocTests bytes tests ∧
      (scriptSkips tests runs = true →
        outcomes = (List.range tests.length).map (fun i => (i, Exec.Verdict.skipped)) ∧ status = 0) ∧
      (∀ i, (i, Exec.Verdict.skipped) ∈ outcomes ↔ (i < tests.length ∧ scriptSkips tests runs = true)) ∧
      (∀ o ∈ outcomes, o.2 = .ok ∨ o.2 = .malformed ∨ o.2 = .skipped ∨ ∃ c e, o.2 = .invalidExit c e) := by
  obtain ⟨tests, hd, hr⟩ := (testCramDocumentBytes_report_iff _ _ _ _).1 h
  exact ⟨tests, hd, runScript_skip (hstrip tests hd) hr⟩

/-- **T4 lifted, Markdown under `--cram-compat`** -/
theorem testDocumentCompatBytes_skip {bytes : Bytes} {runs : List SRan}
    {outcomes : List Exec.Outcome} {status : Nat}
    (hstrip : ∀ tests, CompatDocTests bytes tests → ScriptStripInert tests runs)
    (h : testDocumentCompatBytes bytes runs = .report outcomes status) :
    ∃ tests, CompatDocTests bytes tests ∧
      (scriptSkips tests runs = true →
        outcomes = (List.range tests.length).map (fun i => (i, Exec.Verdict.skipped)) ∧ status = 0) ∧
      (∀ i, (i, Exec.Verdict.skipped) ∈ outcomes ↔ (i < tests.length ∧ scriptSkips tests runs = true)) ∧
      (∀ o ∈ outcomes, o.2 = .ok ∨ o.2 = .malformed ∨ o.2 = .skipped ∨ ∃ c e, o.2 = .invalidExit c e) := by
  obtain ⟨tests, hd, hr⟩ := (testDocumentCompatBytes_report_iff _ _ _ _).1 h
  exact ⟨tests, hd, runScript_skip (hstrip tests hd) hr⟩

/-- **nothing else skips, under the guard "the skip code is not 0"**: a `skipped` verdict means that
the command of some test in front of which no command left the shell ended with the skip code -/
theorem runScript_skipped_cause {tests : List Test} {runs : List SRan} {outcomes : List Exec.Outcome}
    {status i : Nat} (hstrip : ScriptStripInert tests runs)
    (h : runScript tests runs = .report outcomes status)
    (h0 : scriptSkipCode tests ≠ 0) (hi : (i, Exec.Verdict.skipped) ∈ outcomes) :
    ∃ (j : Nat) (r : SRan), j < tests.length ∧ runs[j]? = some r ∧ r.ran.code = scriptSkipCode tests ∧
      ∀ (k : Nat) (x : SRan), k < j → runs[k]? = some x → x.leaves = false := by
  have hs := ((runScript_skip hstrip h).2.1 i).1 hi
  rcases (scriptSkips_iff tests runs).1 hs.2 with hc | ⟨_, hz⟩
  · exact hc
  · exact absurd hz h0

/-! ### documents evaluated by the kernel: `keep_crlf: false`, a command that leaves the shell,
the skip code 0 -/

/-- Markdown under `--cram-compat`, one test with `keep_crlf: false` expecting the line `a` -/
def exCrlfBytes : Bytes := Utf8.utf8 "# t\n\n```scrut {keep_crlf: false}\n$ cmd\na\n```\n".toList
/-- its prepared tests -/
def exCrlfTests : List Test :=
  [⟨{ outputStream := some .combined, keepCrlf := some false, skipCode := some 80 },
    [⟨.equal [97], false, false⟩], none⟩]

theorem ex_crlf_docTests : CompatDocTests exCrlfBytes exCrlfTests :=
  ⟨"# t\n\n```scrut {keep_crlf: false}\n$ cmd\na\n```\n".toList,
    { docConfigs := [],
      tests := [{ title := ['t'], command := ["cmd".toList], exitCode := none, expectations := [['a']],
                  lineNumber := 4, config := some (some "keep_crlf: false".toList) }] },
    by decide +kernel, by decide +kernel, by decide +kernel, by decide +kernel⟩

/-- the command writes `a\r\n`: accepted, CR LF of the whole stream is replaced -/
theorem ex_crlf_report :
    testDocumentCompatBytes exCrlfBytes [⟨⟨[97, 13, 10], [], 0⟩, false⟩] = .report [(0, .ok)] 0 := by
  decide +kernel
/-- the command writes `a\r` without a line feed: the CR in front of the divider text stays -/
theorem ex_crlf_report_cr :
    testDocumentCompatBytes exCrlfBytes [⟨⟨[97, 13], [], 0⟩, false⟩] = .report [(0, .malformed)] 50 := by
  decide +kernel
theorem ex_crlf_runScript :
    runScript exCrlfTests [⟨⟨[97, 13, 10], [], 0⟩, false⟩] = .report [(0, .ok)] 0 := by
  decide +kernel
theorem ex_crlf_rendered :
    compileTestcase exCrlfTests = some ⟨some false, some .combined, some 80, none⟩ ∧
    scriptRendered ⟨some false, some .combined, some 80, none⟩
      ⟨{ outputStream := some .combined, keepCrlf := some false, skipCode := some 80 }, [⟨.equal [97], false, false⟩], none⟩
      ⟨⟨[97, 13, 10], [], 0⟩, false⟩ = [97, 10] := by
  decide +kernel
/-- a CR at the end of an unterminated payload and the divider text form no CR LF -/
theorem ex_chunk_cr :
    Crlf.replaceCrlfSpec (Divider.chunk modelSalt 0 [97, 13] 0) = Divider.chunk modelSalt 0 [97, 13] 0 := by
  decide +kernel

/-- `exCramBytes`, the second command leaves the shell (`exit 1`): fewer dividers than test cases,
an execution error, nothing is reported -/
def exCramRunsLeave : List SRan := [⟨⟨[97, 10], [], 0⟩, false⟩, ⟨⟨[], [], 1⟩, true⟩]
/-- … the first command leaves the shell with the skip code (`exit 80`) -/
def exCramRunsLeaveSkip : List SRan := [⟨⟨[97, 10], [], 80⟩, true⟩, ⟨⟨[], [], 1⟩, false⟩]

theorem ex_cram_leave : testCramDocumentBytes exCramBytes exCramRunsLeave = .execError := by
  decide +kernel
theorem ex_cram_leave_skip :
    testCramDocumentBytes exCramBytes exCramRunsLeaveSkip = .report [(0, .skipped), (1, .skipped)] 0 := by
  decide +kernel
theorem ex_cram_scriptSkips :
    scriptSkipCode exCramTests = 80 ∧ scriptSkips exCramTests exCramRunsSkip = true ∧
    scriptSkips exCramTests exCramRunsLeaveSkip = true ∧ scriptSkips exCramTests exCramRuns = false := by
  decide +kernel

/-- Markdown under `--cram-compat`, one test with `skip_document_code: 0` that expects the exit code 1 -/
def exSkip0Bytes : Bytes := Utf8.utf8 "# t\n\n```scrut {skip_document_code: 0}\n$ false\n[1]\n```\n".toList
def exSkip0Tests : List Test :=
  [⟨{ outputStream := some .combined, keepCrlf := some true, skipCode := some 0 }, [], some 1⟩]
/-- the command ends with 1, as expected, and does not leave the shell -/
def exSkip0Runs : List SRan := [⟨⟨[], [], 1⟩, false⟩]

theorem ex_skip0_docTests : CompatDocTests exSkip0Bytes exSkip0Tests :=
  ⟨"# t\n\n```scrut {skip_document_code: 0}\n$ false\n[1]\n```\n".toList,
    { docConfigs := [],
      tests := [{ title := ['t'], command := ["false".toList], exitCode := some 1, expectations := [],
                  lineNumber := 4, config := some (some "skip_document_code: 0".toList) }] },
    by decide +kernel, by decide +kernel, by decide +kernel, by decide +kernel⟩

/-- **witness**: with the skip code 0 the document is reported `skipped` although no command ended
with the skip code -- the script's own exit status (that of its last `unset`) is compared with it -/
theorem ex_skip0_report :
    testDocumentCompatBytes exSkip0Bytes exSkip0Runs = .report [(0, .skipped)] 0 := by
  decide +kernel
theorem ex_skip0_runScript :
    runScript exSkip0Tests exSkip0Runs = .report [(0, .skipped)] 0 ∧ scriptSkipCode exSkip0Tests = 0 ∧
    ∀ r ∈ exSkip0Runs, r.ran.code ≠ scriptSkipCode exSkip0Tests := by
  decide +kernel

end Scrut.TestRun
