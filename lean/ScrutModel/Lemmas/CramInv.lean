import ScrutModel.Lemmas.Cram
/-! Invariants of the Cram parser loop that hold for **every** document (no well-formedness):
where the texts of commands and expectations come from, and the per-test configuration. -/
namespace Scrut.Cram
open Scrut.LineParser

/-- `x` is the text after the indentation of a non-comment line of `L` -/
def FromBody (L : List (List Char)) (ind : List Char) (x : List Char) : Prop :=
  ∃ line ∈ L, isComment line = false ∧ stripPrefix ind line = some x

/-- `l` is a command line: the text after `$ ` or `> ` of an indented non-comment line -/
def FromCmd (L : List (List Char)) (ind : List Char) (l : List Char) : Prop :=
  FromBody L ind ('$' :: ' ' :: l) ∨ FromBody L ind ('>' :: ' ' :: l)

def TestGood (L : List (List Char)) (ind : List Char) (t : Test) : Prop :=
  t.config = some TCConfig.defaultCram ∧ (∀ l ∈ t.command, FromCmd L ind l) ∧
    (∀ e ∈ t.expectations, FromBody L ind e)

def Good0 (L : List (List Char)) (ind : List Char) (s : St) : Prop :=
  (∀ l ∈ s.command, FromCmd L ind l) ∧ (∀ e ∈ s.expectations, FromBody L ind e) ∧
    (∀ t ∈ s.testcases, TestGood L ind t)

def Good (L : List (List Char)) (ind : List Char) (s : St) : Prop :=
  Good0 L ind s ∧ (s.command ≠ [] → s.config = some TCConfig.defaultCram)

variable {L : List (List Char)} {ind : List Char}

theorem endTestcase_good {s s' : St} {i : Nat} (h : Good L ind s) (he : s.endTestcase i = .ok s') :
    Good L ind s' ∧ s'.command = [] := by
  obtain ⟨⟨hc, hx, ht⟩, hk⟩ := h
  unfold State.endTestcase at he
  split at he
  · next hemp =>
    have hs : s = s' := by
      repeat' split at he
      all_goals first | (cases he; rfl) | cases he
    subst hs
    exact ⟨⟨⟨hc, hx, ht⟩, hk⟩, by simpa using hemp⟩
  · next hne =>
    cases he
    have hne' : s.command ≠ [] := by simpa using hne
    refine ⟨⟨⟨by simp [State.flush], by simp [State.flush], ?_⟩, by simp [State.flush]⟩, by simp [State.flush]⟩
    intro t htm
    simp only [State.flush, List.mem_append, List.mem_singleton] at htm
    rcases htm with htm | rfl
    · exact ht t htm
    · exact ⟨hk hne', hc, hx⟩

theorem addBody_good0 (expOk : List Char → Bool) {s s' : St} {body : List Char} {i : Nat} {ct : CodeType}
    (h : Good L ind s) (hb : FromBody L ind body) (he : s.addBody expOk body i = .ok (s', ct)) :
    Good0 L ind s' := by
  unfold State.addBody at he
  split at he
  · next l hl =>
    -- command start
    have hl' : stripPrefix ['$', ' '] body = some l := by
      split at hl
      · exact hl
      · cases hl
    have hbody := stripPrefix_eq_some hl'
    have hcl : FromCmd L ind l := Or.inl (by simpa [hbody] using hb)
    have hg1 : Good L ind { s with inCommand := true } := h
    dsimp only at he
    split at he
    · cases he
    · next s1 hs1 =>
      have hs1g : Good L ind s1 ∧ (s1.command = [] ∨ s1 = { s with inCommand := true }) := by
        split at hs1
        · have := endTestcase_good hg1 hs1
          exact ⟨this.1, Or.inl this.2⟩
        · cases hs1; exact ⟨hg1, Or.inr rfl⟩
      obtain ⟨⟨⟨hc, hx, ht⟩, _⟩, _⟩ := hs1g
      cases he
      refine ⟨?_, ?_, ?_⟩
      · intro l' hl'
        simp only [List.mem_append, List.mem_singleton] at hl'
        rcases hl' with hl' | rfl
        · split at hl' <;> exact hc _ hl'
        · exact hcl
      · intro e hem
        split at hem <;> exact hx _ hem
      · intro t htm
        split at htm <;> exact ht _ htm
  · -- not a command start
    obtain ⟨⟨hc, hx, ht⟩, _⟩ := h
    unfold State.addBodyRest at he
    split at he
    · next l hl =>
      have hl' : stripPrefix ['>', ' '] body = some l := by
        split at hl
        · exact hl
        · cases hl
      have hbody := stripPrefix_eq_some hl'
      have hcl : FromCmd L ind l := Or.inr (by simpa [hbody] using hb)
      split at he
      · cases he
      · cases he
        refine ⟨?_, hx, ht⟩
        intro l' hl'
        simp only [List.mem_append, List.mem_singleton] at hl'
        rcases hl' with hl' | rfl
        · exact hc _ hl'
        · exact hcl
    · dsimp only at he
      split at he
      · cases he
      · split at he
        · cases he
        · split at he
          · split at he
            · cases he
            · cases he; exact ⟨hc, hx, ht⟩
          · split at he
            · cases he
              refine ⟨hc, ?_, ht⟩
              intro e hem
              simp only [List.mem_append, List.mem_singleton] at hem
              rcases hem with hem | rfl
              · exact hx _ hem
              · exact hb
            · cases he

theorem step_good (expOk : List Char → Bool) {s s' : St} {line : List Char} {i : Nat}
    (h : Good L ind s) (hm : line ∈ L) (he : step expOk ind s i line = .ok s') : Good L ind s' := by
  unfold step at he
  split at he
  · cases he; exact h
  · next hnc =>
    split at he
    · split at he
      · exact (endTestcase_good h he).1
      · cases he; exact h
    · split at he
      · next body hbody =>
        split at he
        · cases he
        · next s1 ct hs1 =>
          cases he
          have := addBody_good0 expOk h ⟨line, hm, by simpa using hnc, hbody⟩ hs1
          exact ⟨this, fun _ => rfl⟩
      · split at he
        · cases he
        · next s1 hs1 =>
          cases he
          have := endTestcase_good h hs1
          obtain ⟨⟨g0, _⟩, hc⟩ := this
          exact ⟨g0, fun hne => absurd hc hne⟩

theorem run_good (expOk : List Char → Bool) (ls : List (List Char)) {s s' : St} {i : Nat}
    (h : Good L ind s) (hm : ∀ l ∈ ls, l ∈ L) (he : run expOk ind s i ls = .ok s') : Good L ind s' := by
  induction ls generalizing s i with
  | nil => simp only [run] at he; cases he; exact h
  | cons l ls ih =>
    simp only [run] at he
    split at he
    · cases he
    · next s1 hs1 =>
      exact ih (step_good expOk h (hm l (by simp)) hs1) (fun x hx => hm x (by simp [hx])) he

theorem finish_good {s s' : St} {n : Nat} (h : Good L ind s) (he : finish s n = .ok s') : Good L ind s' := by
  unfold finish at he
  split at he
  · exact (endTestcase_good (s := s.setConfig TCConfig.defaultCram) ⟨h.1, fun _ => rfl⟩ he).1
  · cases he; exact h

/-- every test of every successfully parsed document -/
theorem parseLines_good (expOk : List Char → Bool) (ind : List Char) (ls : List (List Char)) (ts : List Test)
    (h : parseLines expOk ind ls = .ok ts) : ∀ t ∈ ts, TestGood ls ind t := by
  unfold parseLines at h
  split at h
  · cases h
  · next s hs =>
    split at h
    · cases h
    · next s2 hs2 =>
      cases h
      have g0 : Good ls ind (State.new true : St) :=
        ⟨⟨by simp [State.new], by simp [State.new], by simp [State.new]⟩, by simp [State.new]⟩
      exact (finish_good (run_good expOk ls g0 (fun _ h => h) hs) hs2).1.2.2


theorem parseCram_ok {expOk : List Char → Bool} {n : Nat} {text : List Char} {dc : DocConfig} {ts : List Test}
    (h : parseCram expOk n text = .ok (dc, ts)) :
    dc = DocConfig.defaultCram ∧ parseLines expOk (indentOf n) (lines text) = .ok ts := by
  unfold parseCram parseCramTests at h
  split at h
  · cases h
  · next ts' hts => cases h; exact ⟨rfl, hts⟩

theorem parseCram_sources (expOk : List Char → Bool) (n : Nat) (text : List Char) (dc : DocConfig) (ts : List Test)
    (h : parseCram expOk n text = .ok (dc, ts)) :
    ∀ t ∈ ts,
      (∀ l ∈ t.command, ∃ line ∈ lines text, isComment line = false ∧
        (stripPrefix (indentOf n) line = some ('$' :: ' ' :: l) ∨
         stripPrefix (indentOf n) line = some ('>' :: ' ' :: l))) ∧
      (∀ e ∈ t.expectations, ∃ line ∈ lines text, isComment line = false ∧
        stripPrefix (indentOf n) line = some e) := by
  intro t ht
  have g := parseLines_good expOk _ _ ts (parseCram_ok h).2 t ht
  refine ⟨?_, g.2.2⟩
  intro l hl
  rcases g.2.1 l hl with ⟨line, hm, hc, hs⟩ | ⟨line, hm, hc, hs⟩
  · exact ⟨line, hm, hc, Or.inl hs⟩
  · exact ⟨line, hm, hc, Or.inr hs⟩

theorem parseCram_defaults (expOk : List Char → Bool) (n : Nat) (text : List Char) (dc : DocConfig) (ts : List Test)
    (h : parseCram expOk n text = .ok (dc, ts)) :
    dc = DocConfig.defaultCram ∧ ∀ t ∈ ts, t.config = some TCConfig.defaultCram :=
  ⟨(parseCram_ok h).1, fun t ht => (parseLines_good expOk _ _ ts (parseCram_ok h).2 t ht).1⟩

theorem parseCram_total (expOk : List Char → Bool) (n : Nat) (text : List Char) :
    (∃ e, parseCram expOk n text = .error e) ∨ (∃ ts, parseCram expOk n text = .ok (DocConfig.defaultCram, ts)) := by
  unfold parseCram
  cases parseCramTests expOk n text with
  | error e => exact Or.inl ⟨e, rfl⟩
  | ok ts => exact Or.inr ⟨ts, rfl⟩

theorem parseCram_render (expOk : List Char → Bool) (n : Nat) (d : CramDoc) (h : docOk expOk (n + 1) d = true) :
    parseCram expOk (n + 1) (render (n + 1) d) = .ok (DocConfig.defaultCram, d.tests) := by
  simp [parseCram, parse_render expOk n d h]

/-! ## titles -/

theorem titles_nearest (d : CramDoc) (p l : Option (List Char)) (i : Nat) (seen fresh : Bool)
    (h1 : seen = false → p = none ∧ l = none) (h2 : fresh = true → p = l)
    (h : ownTitles seen fresh d = true) :
    (testsFrom p i d).map (·.title) = nearestTitles l d := by
  induction d generalizing p l i seen fresh with
  | nil => simp [testsFrom, nearestTitles]
  | cons it rest ih =>
    cases it with
    | title t =>
      simp only [testsFrom, nearestTitles]
      exact ih (some t) (some t) (i + 1) true true (by simp) (by simp) (by simpa [ownTitles] using h)
    | blank =>
      simp only [testsFrom, nearestTitles]
      exact ih p l (i + 1) seen fresh h1 h2 (by simpa [ownTitles] using h)
    | comment c =>
      simp only [testsFrom, nearestTitles]
      exact ih p l (i + 1) seen fresh h1 h2 (by simpa [ownTitles] using h)
    | test t =>
      simp only [ownTitles, Bool.and_eq_true, Bool.or_eq_true, Bool.not_eq_true'] at h
      simp only [testsFrom, nearestTitles, List.map_cons, testOf]
      have hhead : p.getD [] = l.getD [] := by
        rcases h.1 with hs | hf
        · obtain ⟨a, b⟩ := h1 hs; simp [a, b]
        · rw [h2 hf]
      rw [hhead, ih none l _ seen false (fun hs => ⟨rfl, (h1 hs).2⟩) (by simp) h.2]

theorem tests_titles_nearest (d : CramDoc) (h : ownTitles false false d = true) :
    d.tests.map (·.title) = nearestTitles none d :=
  titles_nearest d none none 0 false false (by simp) (by simp) h

end Scrut.Cram
