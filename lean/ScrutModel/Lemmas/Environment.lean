import ScrutModel.Model.Environment
import ScrutModel.Lemmas.Namer
/-! Proofs about the model of `TestEnvironment` and of the document loop of `scrut test`. -/
namespace Scrut.Environment
open Scrut.Namer

/-! ### paths -/

theorem below_iff {root p : Path} : below root p = true ↔ root <+: p := by
  simp [below]

theorem below_append (root x : Path) : below root (root ++ x) = true := by
  simp [below_iff]

theorem below_refl (root : Path) : below root root = true := by
  simp [below_iff]

theorem below_trans {a b c : Path} (h1 : below a b = true) (h2 : below b c = true) : below a c = true := by
  rw [below_iff] at *
  exact List.IsPrefix.trans h1 h2

/-- nothing below `w` ⇒ nothing below a path inside `w` -/
theorem not_below_append {w q : Path} (x : Path) (h : below w q = false) : below (w ++ x) q = false := by
  cases h' : below (w ++ x) q with
  | false => rfl
  | true =>
    have := below_trans (below_append w x) h'
    rw [h] at this
    cases this

theorem not_below_of_below {c w q : Path} (hc : below w c = true) (h : below w q = false) : below c q = false := by
  cases h' : below c q with
  | false => rfl
  | true =>
    have := below_trans hc h'
    rw [h] at this
    cases this

theorem append_singleton_ne (w : Path) (n : Name) : w ++ [n] ≠ w := by
  intro h
  have := congrArg List.length h
  simp at this

theorem mem_removeTree {fs : FS} {w p : Path} : p ∈ removeTree fs w ↔ p ∈ fs ∧ below w p = false := by
  simp [removeTree]

/-- removing a fresh root takes away exactly what was added below it -/
theorem removeTree_added {fs : FS} {w : Path} (xs : List Path)
    (hx : ∀ x ∈ xs, below w x = true) (hf : ∀ q ∈ fs, below w q = false) :
    removeTree (xs ++ fs) w = fs := by
  unfold removeTree
  rw [List.filter_append]
  have h1 : xs.filter (fun p => !below w p) = [] := by
    rw [List.filter_eq_nil_iff]
    intro a ha
    simp [hx a ha]
  have h2 : fs.filter (fun p => !below w p) = fs := by
    rw [List.filter_eq_self]
    intro a ha
    simp [hf a ha]
  rw [h1, h2]
  rfl

/-- removing a fresh root from a file system that grew: what was added elsewhere stays -/
theorem removeTree_grown {fs : FS} {w : Path} (xs : List Path) (hf : ∀ q ∈ fs, below w q = false) :
    removeTree (xs ++ fs) w = xs.filter (fun p => !below w p) ++ fs := by
  unfold removeTree
  rw [List.filter_append]
  congr 1
  rw [List.filter_eq_self]
  intro a ha
  simp [hf a ha]

theorem mem_children {fs : FS} {p : Path} {n : Name} : n ∈ children fs p ↔ p ++ [n] ∈ fs := by
  unfold children
  rw [List.mem_filterMap]
  constructor
  · rintro ⟨q, hq, h⟩
    split at h
    · rename_i hd
      obtain ⟨ys, hys⟩ := List.getLast?_eq_some_iff.1 h
      subst hys
      simp at hd
      subst hd
      exact hq
    · cases h
  · intro h
    exact ⟨p ++ [n], h, by simp⟩

theorem existsBelow_false {fs : FS} {p : Path} {n : Name} (h : existsBelow fs p n = false) : p ++ [n] ∉ fs := by
  intro hm
  have : n ∈ children fs p := mem_children.2 hm
  simp [existsBelow, this] at h

/-! ### `TestEnvironment::new` -/

/-- the directories `new` creates -/
def Env.roots (env : Env) : List Path :=
  (if env.work.kind = .userProvided then [] else [env.work.path]) ++ [env.tmp.path]

theorem new_ok {fresh : Oracle} (hF : Fresh fresh) {tmpRoot : Path} {shell : List Char}
    {provided : Option Path} {keep : Bool} {fs fs1 : FS} {env : Env}
    (h : new fresh tmpRoot shell provided keep fs = .ok env fs1) :
    env.shell = shell ∧ env.names = [] ∧ ModeShape tmpRoot provided keep env ∧
    fs1 = env.roots.reverse ++ fs ∧ ∀ c ∈ env.roots, ∀ q ∈ fs, below c q = false := by
  unfold new at h
  cases keep with
  | true =>
    simp only [if_true] at h
    split at h
    · cases h
    · simp only [NewResult.ok.injEq] at h
      obtain ⟨rfl, rfl⟩ := h
      refine ⟨rfl, rfl, ?_, ?_, ?_⟩
      · simp [ModeShape]
      · simp [Env.roots]
      · intro c hc q hq
        simp [Env.roots] at hc
        rcases hc with rfl | rfl
        · exact hF fs tmpRoot pfxExecution q hq
        · exact hF _ tmpRoot pfxTemp q (List.mem_cons_of_mem _ hq)
  | false =>
    simp only [Bool.false_eq_true, if_false] at h
    cases provided with
    | some d =>
      simp only at h
      split at h
      · cases h
      · simp only [NewResult.ok.injEq] at h
        obtain ⟨rfl, rfl⟩ := h
        refine ⟨rfl, rfl, ?_, ?_, ?_⟩
        · simp [ModeShape]
        · simp [Env.roots]
        · intro c hc q hq
          simp [Env.roots] at hc
          subst hc
          exact hF fs d pfxTemp q hq
    | none =>
      simp only at h
      split at h
      · cases h
      · split at h
        · cases h
        · simp only [NewResult.ok.injEq] at h
          obtain ⟨rfl, rfl⟩ := h
          refine ⟨rfl, rfl, ?_, ?_, ?_⟩
          · simp [ModeShape]
          · simp [Env.roots]
          · intro c hc q hq
            have hc' : c = tmpRoot ++ [fresh fs tmpRoot pfxExecution] ∨
                c = tmpRoot ++ [fresh fs tmpRoot pfxExecution] ++ [nameTmp] := by
              simpa [Env.roots] using hc
            rcases hc' with rfl | rfl
            · exact hF fs tmpRoot pfxExecution q hq
            · exact not_below_append [nameTmp] (hF fs tmpRoot pfxExecution q hq)

/-- with a `tempfile` that keeps its contract `new` fails only because a parent directory is
missing, and then it has not touched the file system -/
theorem new_error {fresh : Oracle} (hF : Fresh fresh) {tmpRoot : Path} {shell : List Char}
    {provided : Option Path} {keep : Bool} {fs fs' : FS} {e : NewError}
    (h : new fresh tmpRoot shell provided keep fs = .error e fs') : fs' = fs ∧ e = .noParent := by
  unfold new at h
  cases keep with
  | true =>
    simp only [if_true] at h
    split at h
    · simp only [NewResult.error.injEq] at h
      exact ⟨h.2.symm, h.1.symm⟩
    · cases h
  | false =>
    simp only [Bool.false_eq_true, if_false] at h
    cases provided with
    | some d =>
      simp only at h
      split at h
      · simp only [NewResult.error.injEq] at h
        exact ⟨h.2.symm, h.1.symm⟩
      · cases h
    | none =>
      simp only at h
      split at h
      · simp only [NewResult.error.injEq] at h
        exact ⟨h.2.symm, h.1.symm⟩
      · split at h
        · rename_i hc
          exfalso
          -- `__tmp` below a fresh directory cannot exist
          simp only [List.contains_eq_mem, List.mem_cons, decide_eq_true_eq] at hc
          rcases hc with hc | hc
          · exact append_singleton_ne _ _ hc
          · have := hF fs tmpRoot pfxExecution _ hc
            rw [below_append] at this
            cases this
        · cases h

/-! ### `init_test_file` -/

theorem createRandomSubDirectory_total (fs : FS) (directory : Path) (file : Name) (names : List Name) :
    ∃ r, createRandomSubDirectory fs directory file names = some r := by
  obtain ⟨⟨n, names'⟩, hn⟩ := nextName_terminates names (children fs directory) file
  have hn' : nextName names (existsBelow fs directory) (namerFuel fs directory names) file = some (n, names') := hn
  unfold createRandomSubDirectory
  rw [hn']
  exact ⟨_, rfl⟩

theorem createRandomSubDirectory_spec {fs fs' : FS} {directory d : Path} {file : Name} {names names' : List Name}
    (h : createRandomSubDirectory fs directory file names = some (d, names', fs')) :
    ∃ n, d = directory ++ [n] ∧ n ∉ names ∧ names' = n :: names ∧ d ∉ fs ∧ fs' = d :: fs := by
  unfold createRandomSubDirectory at h
  split at h
  · cases h
  · rename_i n nm hn
    obtain ⟨hfree, hnm⟩ := nextName_free hn
    obtain ⟨hnot, hex⟩ := taken_false hfree
    have hd : directory ++ [n] ∉ fs := existsBelow_false hex
    simp only [Option.some.injEq, Prod.mk.injEq] at h
    obtain ⟨rfl, rfl, rfl⟩ := h
    refine ⟨n, rfl, hnot, hnm, hd, ?_⟩
    simp [hd]

theorem buildWorkDirectory_total (doc : Doc) (env : Env) (fs : FS) : ∃ r, buildWorkDirectory doc env fs = some r := by
  unfold buildWorkDirectory
  obtain ⟨⟨d, nm, fs'⟩, hr⟩ := createRandomSubDirectory_total fs env.work.path doc.file env.names
  split
  · exact ⟨_, rfl⟩
  · rw [hr]; exact ⟨_, rfl⟩

theorem buildWorkDirectory_spec {doc : Doc} {env env' : Env} {fs fs' : FS} {wd : Path}
    (h : buildWorkDirectory doc env fs = some (wd, env', fs')) :
    (env.work.kind = .userProvided ∧ wd = env.work.path ∧ env' = env ∧ fs' = fs) ∨
    (env.work.kind ≠ .userProvided ∧ ∃ n, wd = env.work.path ++ [n] ∧ n ∉ env.names ∧
      env' = { env with names := n :: env.names } ∧ wd ∉ fs ∧ fs' = wd :: fs) := by
  unfold buildWorkDirectory at h
  split at h
  · rename_i hk
    simp only [Option.some.injEq, Prod.mk.injEq] at h
    obtain ⟨rfl, rfl, rfl⟩ := h
    exact Or.inl ⟨hk, rfl, rfl, rfl⟩
  · rename_i hk
    split at h
    · cases h
    · rename_i d nm fs2 hc
      simp only [Option.some.injEq, Prod.mk.injEq] at h
      obtain ⟨rfl, rfl, rfl⟩ := h
      obtain ⟨n, h1, h2, h3, h4, h5⟩ := createRandomSubDirectory_spec hc
      refine Or.inr ⟨?_, n, h1, h2, ?_, h4, h5⟩
      · intro hk'; exact hk hk'
      · rw [h3]

theorem initTestFile_spec {doc : Doc} {env env' : Env} {fs fs' : FS} {wd : Path} {vars : Vars}
    (h : initTestFile doc env fs = some ((wd, vars), env', fs')) :
    buildWorkDirectory doc env fs = some (wd, env', fs') ∧ vars = buildEnvVars doc env' := by
  unfold initTestFile at h
  split at h
  · cases h
  · rename_i hb
    simp only [Option.some.injEq, Prod.mk.injEq] at h
    obtain ⟨⟨rfl, rfl⟩, rfl, rfl⟩ := h
    exact ⟨hb, rfl⟩

theorem initTestFile_total (doc : Doc) (env : Env) (fs : FS) : ∃ r, initTestFile doc env fs = some r := by
  unfold initTestFile
  obtain ⟨⟨wd, env', fs2⟩, hb⟩ := buildWorkDirectory_total doc env fs
  rw [hb]
  exact ⟨_, rfl⟩

/-! ### one turn of the document loop -/

/-- everything the theorems need to know about one document that got an environment -/
structure RunInv (cfg : Cfg) (doc : Doc) (fs fs' : FS) (r : DocRun) : Prop where
  doc_eq : r.doc = doc
  before : r.fsBefore = fs
  after : r.fsAfter = fs'
  after_drop : r.fsAfter = drop r.env r.fsDuring
  shell : r.env.shell = cfg.shell
  shape : ModeShape cfg.tmpRoot cfg.provided cfg.keep r.env
  during : ∃ xs, r.fsDuring = xs ++ fs ∧ ∀ p, p ∈ xs ↔ p ∈ r.scrutCreated ∨ p ∈ r.testsCreated
  fresh : ∀ c ∈ r.scrutCreated, ∀ q ∈ fs, below c q = false
  vars : r.workDir.isSome = true → r.vars = buildEnvVars doc r.env
  wd : ∀ wd, r.workDir = some wd →
    (r.env.work.kind = .userProvided ∧ wd = r.env.work.path) ∨
    (r.env.work.kind ≠ .userProvided ∧ ∃ n, wd = r.env.work.path ++ [n])

theorem runDoc_inv {cfg : Cfg} {fresh : Oracle} (hF : Fresh fresh) {doc : Doc} {fs fs' : FS} {r : DocRun}
    {cont : Bool} (h : runDoc cfg fresh doc fs = some (some r, fs', cont)) : RunInv cfg doc fs fs' r := by
  unfold runDoc at h
  split at h
  · simp at h
  split at h
  · simp at h
  rename_i env fs1 hnew
  obtain ⟨hshell, hnames, hshape, hfs1, hfresh⟩ := new_ok hF hnew
  split at h
  · -- a prepended / appended document cannot be parsed
    simp only [Option.some.injEq, Prod.mk.injEq] at h
    obtain ⟨rfl, rfl, rfl⟩ := h
    refine ⟨rfl, rfl, rfl, rfl, hshell, hshape, ⟨env.roots.reverse, hfs1, ?_⟩, ?_, ?_, ?_⟩
    · intro p
      by_cases hk : env.work.kind = .userProvided <;>
        simp [DocRun.scrutCreated, DocRun.testsCreated, Env.roots, hk, or_comm]
    · intro c hc
      apply hfresh
      by_cases hk : env.work.kind = .userProvided <;>
        simpa [DocRun.scrutCreated, Env.roots, hk] using hc
    · intro h0; simp at h0
    · intro wd h0; simp at h0
  · split at h
    · simp at h
    rename_i wd vars env' fs2 hinit
    obtain ⟨hb, rfl⟩ := initTestFile_spec hinit
    simp only [Option.some.injEq, Prod.mk.injEq] at h
    obtain ⟨rfl, rfl, rfl⟩ := h
    rcases buildWorkDirectory_spec hb with ⟨hk, rfl, rfl, rfl⟩ | ⟨hk, n, rfl, _, rfl, hwd, rfl⟩
    · -- `--work-directory`: the user's directory itself
      refine ⟨rfl, rfl, rfl, rfl, hshell, hshape,
        ⟨doc.mkTmp.map (env'.tmp.path ++ ·) ++ (doc.mkWork.map (env'.work.path ++ ·) ++ env'.roots.reverse), ?_, ?_⟩,
        ?_, ?_, ?_⟩
      · simp [execTests, hfs1]
      · intro p
        simp [DocRun.scrutCreated, DocRun.testsCreated, Env.roots, hk]
        constructor
        · rintro (h1 | h1 | h1)
          · exact Or.inr (Or.inl h1)
          · exact Or.inr (Or.inr h1)
          · exact Or.inl h1
        · rintro (h1 | h1 | h1)
          · exact Or.inr (Or.inr h1)
          · exact Or.inl h1
          · exact Or.inr (Or.inl h1)
      · intro c hc
        apply hfresh
        simpa [DocRun.scrutCreated, Env.roots, hk] using hc
      · intro _; rfl
      · intro wd h0
        simp only [Option.some.injEq] at h0
        exact Or.inl ⟨hk, h0.symm⟩
    · -- a directory of its own below the work directory scrut made
      refine ⟨rfl, rfl, rfl, rfl, hshell, hshape,
        ⟨doc.mkTmp.map (env.tmp.path ++ ·) ++ (doc.mkWork.map ((env.work.path ++ [n]) ++ ·) ++
          ((env.work.path ++ [n]) :: env.roots.reverse)), ?_, ?_⟩, ?_, ?_, ?_⟩
      · simp [execTests, hfs1]
      · intro p
        simp [DocRun.scrutCreated, DocRun.testsCreated, Env.roots, hk]
        constructor
        · rintro (h1 | h1 | h1 | h1 | h1)
          · exact Or.inr (Or.inl h1)
          · exact Or.inr (Or.inr h1)
          · exact Or.inl (Or.inr (Or.inl h1))
          · exact Or.inl (Or.inr (Or.inr h1))
          · exact Or.inl (Or.inl h1)
        · rintro ((h1 | h1 | h1) | h1 | h1)
          · exact Or.inr (Or.inr (Or.inr (Or.inr h1)))
          · exact Or.inr (Or.inr (Or.inl h1))
          · exact Or.inr (Or.inr (Or.inr (Or.inl h1)))
          · exact Or.inl h1
          · exact Or.inr (Or.inl h1)
      · intro c hc q hq
        have hc' : c ∈ env.roots ∨ c = env.work.path ++ [n] := by
          simp [DocRun.scrutCreated, Env.roots, hk] at hc ⊢
          rcases hc with h1 | h1 | h1
          · exact Or.inl (Or.inl h1)
          · exact Or.inr h1
          · exact Or.inl (Or.inr h1)
        rcases hc' with hc' | rfl
        · exact hfresh c hc' q hq
        · apply not_below_append
          apply hfresh _ _ q hq
          simp [Env.roots, hk]
      · intro _; rfl
      · intro wd h0
        simp only [Option.some.injEq] at h0
        exact Or.inr ⟨hk, n, h0.symm⟩

theorem runDoc_none {cfg : Cfg} {fresh : Oracle} (hF : Fresh fresh) {doc : Doc} {fs fs' : FS} {cont : Bool}
    (h : runDoc cfg fresh doc fs = some (none, fs', cont)) : fs' = fs ∧ cont = false := by
  unfold runDoc at h
  split at h
  · simp only [Option.some.injEq, Prod.mk.injEq] at h
    exact ⟨h.2.1.symm, h.2.2.symm⟩
  split at h
  · rename_i e fs2 hnew
    simp only [Option.some.injEq, Prod.mk.injEq, true_and] at h
    obtain ⟨rfl, rfl⟩ := h
    exact ⟨(new_error hF hnew).1, rfl⟩
  split at h
  · simp at h
  · split at h <;> simp at h

theorem runDoc_total (cfg : Cfg) (fresh : Oracle) (doc : Doc) (fs : FS) : ∃ x, runDoc cfg fresh doc fs = some x := by
  unfold runDoc
  split
  · exact ⟨_, rfl⟩
  split
  · exact ⟨_, rfl⟩
  split
  · exact ⟨_, rfl⟩
  · rename_i env fs1 _ _
    obtain ⟨⟨⟨wd, vars⟩, env', fs2⟩, hb⟩ := initTestFile_total doc env fs1
    rw [hb]
    exact ⟨_, rfl⟩

/-! ### consequences of the invariant, per mode -/

theorem RunInv.tests_below {cfg : Cfg} {doc : Doc} {fs fs' : FS} {r : DocRun} (_ : RunInv cfg doc fs fs' r) :
    ∀ p ∈ r.testsCreated, below r.env.tmp.path p = true ∨ ∃ wd, r.workDir = some wd ∧ ∃ rel ∈ r.doc.mkWork, p = wd ++ rel := by
  intro p hp
  unfold DocRun.testsCreated at hp
  split at hp
  · cases hp
  · rename_i wd hwd
    rw [List.mem_append] at hp
    rcases hp with hp | hp
    · obtain ⟨rel, _, rfl⟩ := List.mem_map.1 hp
      exact Or.inl (below_append _ _)
    · obtain ⟨rel, hrel, rfl⟩ := List.mem_map.1 hp
      exact Or.inr ⟨wd, hwd, rel, hrel, rfl⟩

theorem mem_dropDir_of_fresh {d : EnvDir} {fs : FS} {p : Path}
    (hd : d.kind = .ephemeral → below d.path p = false) (hp : p ∈ fs) : p ∈ dropDir d fs := by
  unfold dropDir
  split
  · rename_i hk
    exact mem_removeTree.2 ⟨hp, hd hk⟩
  · exact hp

theorem mem_of_mem_dropDir {d : EnvDir} {fs : FS} {p : Path} (hp : p ∈ dropDir d fs) : p ∈ fs := by
  unfold dropDir at hp
  split at hp
  · exact (mem_removeTree.1 hp).1
  · exact hp

/-- nothing that existed before a document's turn is removed by it -/
theorem RunInv.preserves {cfg : Cfg} {doc : Doc} {fs fs' : FS} {r : DocRun} (inv : RunInv cfg doc fs fs' r) :
    ∀ p ∈ fs, p ∈ fs' := by
  intro p hp
  obtain ⟨xs, hxs, _⟩ := inv.during
  rw [← inv.after, inv.after_drop]
  unfold drop
  apply mem_dropDir_of_fresh
  · intro _
    exact inv.fresh _ (by simp [DocRun.scrutCreated]) p hp
  apply mem_dropDir_of_fresh
  · intro hk
    apply inv.fresh _ _ p hp
    have : r.env.work.kind ≠ .userProvided := by rw [hk]; decide
    simp [DocRun.scrutCreated, this]
  · rw [hxs]; exact List.mem_append_right _ hp

/-- nothing appears after a document's turn that was not there during it -/
theorem RunInv.after_sub_during {cfg : Cfg} {doc : Doc} {fs fs' : FS} {r : DocRun} (inv : RunInv cfg doc fs fs' r) :
    ∀ p ∈ fs', p ∈ r.fsDuring := by
  intro p hp
  rw [← inv.after, inv.after_drop] at hp
  exact mem_of_mem_dropDir (mem_of_mem_dropDir hp)

/-- default mode: the file system after the document's turn is the one before it -/
theorem RunInv.default_restores {cfg : Cfg} {doc : Doc} {fs fs' : FS} {r : DocRun} (inv : RunInv cfg doc fs fs' r)
    (hk : cfg.keep = false) (hp : cfg.provided = none) : fs' = fs := by
  have hshape := inv.shape
  simp only [ModeShape, hk, hp, Bool.false_eq_true, if_false] at hshape
  obtain ⟨hwk, htmp, _⟩ := hshape
  have hne : r.env.work.kind ≠ .userProvided := by rw [hwk]; decide
  obtain ⟨xs, hxs, hmem⟩ := inv.during
  rw [← inv.after, inv.after_drop]
  unfold drop
  have h1 : dropDir r.env.tmp (dropDir r.env.work r.fsDuring) = dropDir r.env.work r.fsDuring := by
    unfold dropDir
    rw [htmp]
  rw [h1]
  unfold dropDir
  rw [hwk, hxs]
  apply removeTree_added
  · intro x hx
    rcases (hmem x).1 hx with hc | ht
    · simp only [DocRun.scrutCreated, hne, if_false, List.mem_append, List.mem_cons,
        List.not_mem_nil, or_false] at hc
      rcases hc with (rfl | hc) | rfl
      · exact below_refl _
      · cases hw : r.workDir with
        | none => simp [hw] at hc
        | some wd =>
          simp [hw] at hc
          rw [hc]
          rcases inv.wd wd hw with ⟨h0, _⟩ | ⟨_, n, hn⟩
          · exact absurd h0 hne
          · rw [hn]; exact below_append _ _
      · rw [htmp]; exact below_append _ _
    · rcases inv.tests_below x ht with hb | ⟨wd, hw, rel, _, rfl⟩
      · rw [htmp] at hb
        exact below_trans (below_append _ _) hb
      · rcases inv.wd wd hw with ⟨h0, _⟩ | ⟨_, n, rfl⟩
        · exact absurd h0 hne
        · rw [List.append_assoc]; exact below_append _ _
  · intro q hq
    exact inv.fresh _ (by simp [DocRun.scrutCreated, hne]) q hq

/-- `--keep-temporary-directories`: dropping the environment removes nothing -/
theorem RunInv.keep_keeps {cfg : Cfg} {doc : Doc} {fs fs' : FS} {r : DocRun} (inv : RunInv cfg doc fs fs' r)
    (hk : cfg.keep = true) : fs' = r.fsDuring := by
  have hshape := inv.shape
  simp only [ModeShape, hk, if_true] at hshape
  obtain ⟨hwk, htk, _⟩ := hshape
  rw [← inv.after, inv.after_drop]
  simp [drop, dropDir, hwk, htk]

/-- `--work-directory d`: what is left is what was there plus what the test cases made in `d`;
nothing at or below `temp.XXXX` remains -/
theorem RunInv.provided_after {cfg : Cfg} {doc : Doc} {fs fs' : FS} {r : DocRun} (inv : RunInv cfg doc fs fs' r)
    (hk : cfg.keep = false) {d : Path} (hp : cfg.provided = some d) :
    r.env.work = ⟨.userProvided, d⟩ ∧ r.env.tmp.kind = .ephemeral ∧ (∃ n, r.env.tmp.path = d ++ [n]) ∧
    (∀ p ∈ fs', below r.env.tmp.path p = false) ∧
    (∀ p ∈ fs', p ∈ fs ∨ ∃ rel ∈ r.doc.mkWork, p = d ++ rel) := by
  have hshape := inv.shape
  simp only [ModeShape, hk, hp, Bool.false_eq_true, if_false] at hshape
  obtain ⟨hw, htk, htn⟩ := hshape
  have hfs' : fs' = removeTree r.fsDuring r.env.tmp.path := by
    rw [← inv.after, inv.after_drop]
    simp [drop, dropDir, hw, htk]
  refine ⟨hw, htk, htn, ?_, ?_⟩
  · intro p hp'
    rw [hfs'] at hp'
    exact (mem_removeTree.1 hp').2
  · intro p hp'
    rw [hfs'] at hp'
    obtain ⟨hmem, hnb⟩ := mem_removeTree.1 hp'
    obtain ⟨xs, hxs, hiff⟩ := inv.during
    rw [hxs, List.mem_append] at hmem
    rcases hmem with hx | hf
    · rcases (hiff p).1 hx with hc | ht
      · simp [DocRun.scrutCreated, hw] at hc
        subst hc
        rw [below_refl] at hnb
        cases hnb
      · rcases inv.tests_below p ht with hb | ⟨wd, hwd, rel, hrel, rfl⟩
        · rw [hb] at hnb; cases hnb
        · rcases inv.wd wd hwd with ⟨_, rfl⟩ | ⟨h0, _⟩
          · rw [hw]; exact Or.inr ⟨rel, hrel, rfl⟩
          · rw [hw] at h0; exact absurd rfl h0
    · exact Or.inl hf

/-! ### the whole loop -/

/-- the recorded documents form a chain: each starts on the file system its predecessor left -/
def Linked (cfg : Cfg) : FS → List DocRun → FS → Prop
  | fs, [], fsEnd => fsEnd = fs
  | fs, r :: rs, fsEnd => RunInv cfg r.doc fs r.fsAfter r ∧ Linked cfg r.fsAfter rs fsEnd

theorem runDocs_total (cfg : Cfg) (fresh : Oracle) (docs : List Doc) : ∀ fs, ∃ R, runDocs cfg fresh fs docs = some R := by
  induction docs with
  | nil => intro fs; exact ⟨_, rfl⟩
  | cons d ds ih =>
    intro fs
    obtain ⟨⟨ro, fs1, cont⟩, hd⟩ := runDoc_total cfg fresh d fs
    obtain ⟨R', hR'⟩ := ih fs1
    simp only [runDocs, hd]
    cases cont with
    | true => simp [hR']
    | false => simp

theorem runDocs_linked {cfg : Cfg} {fresh : Oracle} (hF : Fresh fresh) (docs : List Doc) :
    ∀ (fs : FS) (R : Run), runDocs cfg fresh fs docs = some R →
      Linked cfg fs R.runs R.fs ∧ R.runs.map (·.doc) <+: docs := by
  induction docs with
  | nil =>
    intro fs R h
    simp only [runDocs, Option.some.injEq] at h
    subst h
    exact ⟨rfl, List.prefix_refl _⟩
  | cons d ds ih =>
    intro fs R h
    simp only [runDocs] at h
    split at h
    · cases h
    rename_i ro fs1 cont hd
    split at h
    · rename_i hcont
      subst hcont
      split at h
      · cases h
      rename_i R' hR'
      simp only [Option.some.injEq] at h
      subst h
      obtain ⟨hl, hpre⟩ := ih fs1 R' hR'
      cases ro with
      | none =>
        have := (runDoc_none hF hd).2
        cases this
      | some r =>
        have inv := runDoc_inv hF hd
        have hdoc := inv.doc_eq
        have hafter := inv.after
        refine ⟨?_, ?_⟩
        · show RunInv cfg r.doc fs r.fsAfter r ∧ Linked cfg r.fsAfter R'.runs R'.fs
          rw [hdoc, hafter]
          exact ⟨inv, hl⟩
        · show (r.doc :: R'.runs.map (·.doc)) <+: d :: ds
          rw [hdoc]
          exact List.prefix_cons_inj d |>.2 hpre
    · simp only [Option.some.injEq] at h
      subst h
      cases ro with
      | none =>
        obtain ⟨rfl, _⟩ := runDoc_none hF hd
        exact ⟨rfl, List.nil_prefix⟩
      | some r =>
        have inv := runDoc_inv hF hd
        have hdoc := inv.doc_eq
        have hafter := inv.after
        refine ⟨?_, ?_⟩
        · show RunInv cfg r.doc fs r.fsAfter r ∧ fs1 = r.fsAfter
          rw [hdoc, hafter]
          exact ⟨inv, rfl⟩
        · show [r.doc] <+: d :: ds
          rw [hdoc]
          exact List.prefix_cons_inj d |>.2 List.nil_prefix

theorem runCommand_linked {cfg : Cfg} {fresh : Oracle} (hF : Fresh fresh) {parseOk : Bool} {fs : FS}
    {docs : List Doc} {R : Run} (h : runCommand cfg fresh parseOk fs docs = some R) :
    Linked cfg fs R.runs R.fs ∧ R.runs.map (·.doc) <+: docs := by
  unfold runCommand at h
  split at h
  · exact runDocs_linked hF docs fs R h
  · simp only [Option.some.injEq] at h
    subst h
    exact ⟨rfl, List.nil_prefix⟩

theorem runCommand_total (cfg : Cfg) (fresh : Oracle) (parseOk : Bool) (fs : FS) (docs : List Doc) :
    ∃ R, runCommand cfg fresh parseOk fs docs = some R := by
  unfold runCommand
  split
  · exact runDocs_total cfg fresh docs fs
  · exact ⟨_, rfl⟩

theorem Linked.invs {cfg : Cfg} : ∀ {runs : List DocRun} {fs fsEnd : FS}, Linked cfg fs runs fsEnd →
    ∀ r ∈ runs, RunInv cfg r.doc r.fsBefore r.fsAfter r := by
  intro runs
  induction runs with
  | nil => intro _ _ _ r hr; cases hr
  | cons a rs ih =>
    intro fs fsEnd h r hr
    obtain ⟨inv, hl⟩ := h
    rcases List.mem_cons.1 hr with rfl | hr
    · rw [inv.before]; exact inv
    · exact ih hl r hr

/-- nothing that existed at some point of the loop is gone later -/
theorem Linked.preserves {cfg : Cfg} : ∀ {runs : List DocRun} {fs fsEnd : FS}, Linked cfg fs runs fsEnd →
    (∀ p ∈ fs, p ∈ fsEnd) ∧ ∀ r ∈ runs, ∀ p ∈ fs, p ∈ r.fsBefore := by
  intro runs
  induction runs with
  | nil =>
    intro fs fsEnd h
    cases h
    exact ⟨fun _ hp => hp, fun r hr => by cases hr⟩
  | cons a rs ih =>
    intro fs fsEnd h
    obtain ⟨inv, hl⟩ := h
    obtain ⟨h1, h2⟩ := ih hl
    refine ⟨fun p hp => h1 p (inv.preserves p hp), ?_⟩
    intro r hr p hp
    rcases List.mem_cons.1 hr with rfl | hr
    · rw [inv.before]; exact hp
    · exact h2 r hr p (inv.preserves p hp)

theorem Linked.default {cfg : Cfg} (hk : cfg.keep = false) (hp : cfg.provided = none) :
    ∀ {runs : List DocRun} {fs fsEnd : FS}, Linked cfg fs runs fsEnd →
      fsEnd = fs ∧ ∀ r ∈ runs, r.fsBefore = fs ∧ r.fsAfter = fs := by
  intro runs
  induction runs with
  | nil =>
    intro fs fsEnd h
    cases h
    exact ⟨rfl, fun r hr => by cases hr⟩
  | cons a rs ih =>
    intro fs fsEnd h
    obtain ⟨inv, hl⟩ := h
    have ha : a.fsAfter = fs := inv.default_restores hk hp
    rw [ha] at hl
    obtain ⟨h1, h2⟩ := ih hl
    refine ⟨h1, ?_⟩
    intro r hr
    rcases List.mem_cons.1 hr with rfl | hr
    · exact ⟨inv.before, ha⟩
    · exact h2 r hr

theorem Linked.keep {cfg : Cfg} (hk : cfg.keep = true) :
    ∀ {runs : List DocRun} {fs fsEnd : FS}, Linked cfg fs runs fsEnd →
      ∀ p, p ∈ fsEnd ↔ p ∈ fs ∨ ∃ r ∈ runs, p ∈ r.scrutCreated ∨ p ∈ r.testsCreated := by
  intro runs
  induction runs with
  | nil =>
    intro fs fsEnd h p
    cases h
    simp
  | cons a rs ih =>
    intro fs fsEnd h p
    obtain ⟨inv, hl⟩ := h
    have ha : a.fsAfter = a.fsDuring := inv.keep_keeps hk
    obtain ⟨xs, hxs, hiff⟩ := inv.during
    rw [ih hl p, ha, hxs, List.mem_append, hiff p]
    simp only [List.mem_cons, exists_eq_or_imp]
    constructor
    · rintro ((h1 | h1) | h1)
      · exact Or.inr (Or.inl h1)
      · exact Or.inl h1
      · exact Or.inr (Or.inr h1)
    · rintro (h1 | h1 | h1)
      · exact Or.inl (Or.inr h1)
      · exact Or.inl (Or.inl h1)
      · exact Or.inr h1

theorem Linked.provided {cfg : Cfg} (hk : cfg.keep = false) {d : Path} (hp : cfg.provided = some d) :
    ∀ {runs : List DocRun} {fs fsEnd : FS}, Linked cfg fs runs fsEnd →
      ∀ p ∈ fsEnd, p ∈ fs ∨ ∃ r ∈ runs, ∃ rel ∈ r.doc.mkWork, p = d ++ rel := by
  intro runs
  induction runs with
  | nil =>
    intro fs fsEnd h p hp'
    cases h
    exact Or.inl hp'
  | cons a rs ih =>
    intro fs fsEnd h p hp'
    obtain ⟨inv, hl⟩ := h
    rcases ih hl p hp' with h1 | ⟨r, hr, rel, hrel, rfl⟩
    · rcases (inv.provided_after hk hp).2.2.2.2 p h1 with h2 | ⟨rel, hrel, rfl⟩
      · exact Or.inl h2
      · exact Or.inr ⟨a, List.mem_cons_self, rel, hrel, rfl⟩
    · exact Or.inr ⟨r, List.mem_cons_of_mem _ hr, rel, hrel, rfl⟩

/-- a directory scrut made for a document is in the file system while its test cases run -/
theorem RunInv.created_mem {cfg : Cfg} {doc : Doc} {fs fs' : FS} {r : DocRun} (inv : RunInv cfg doc fs fs' r) :
    ∀ c ∈ r.scrutCreated, c ∈ r.fsDuring := by
  intro c hc
  obtain ⟨xs, hxs, hiff⟩ := inv.during
  rw [hxs]
  exact List.mem_append_left _ ((hiff c).2 (Or.inl hc))

theorem RunInv.workDir_created {cfg : Cfg} {doc : Doc} {fs fs' : FS} {r : DocRun} (_inv : RunInv cfg doc fs fs' r)
    {x : Path} (hx : r.workDir = some x) (hne : r.env.work.kind ≠ .userProvided) : x ∈ r.scrutCreated := by
  simp [DocRun.scrutCreated, hne, hx]

theorem Linked.keep_pairwise {cfg : Cfg} (hk : cfg.keep = true) :
    ∀ {runs : List DocRun} {fs fsEnd : FS}, Linked cfg fs runs fsEnd →
      (runs.filterMap (·.workDir)).Pairwise (· ≠ ·) := by
  intro runs
  induction runs with
  | nil => intro _ _ _; exact List.Pairwise.nil
  | cons a rs ih =>
    intro fs fsEnd h
    obtain ⟨inv, hl⟩ := h
    have hrest := ih hl
    cases hx : a.workDir with
    | none => simpa [List.filterMap_cons, hx] using hrest
    | some x =>
      rw [List.filterMap_cons, hx]
      refine List.pairwise_cons.2 ⟨?_, hrest⟩
      intro y hy hxy
      obtain ⟨b, hb, hby⟩ := List.mem_filterMap.1 hy
      have kindOf : ∀ {r : DocRun} {f f' : FS}, RunInv cfg r.doc f f' r → r.env.work.kind ≠ .userProvided := by
        intro r f f' i
        have hs := i.shape
        simp only [ModeShape, hk, if_true] at hs
        rw [hs.1]; decide
      have hxin : x ∈ a.fsAfter := by
        rw [inv.keep_keeps hk]
        exact inv.created_mem x (inv.workDir_created hx (kindOf inv))
      have hxb : x ∈ b.fsBefore := (Linked.preserves hl).2 b hb x hxin
      have invb := Linked.invs hl b hb
      have := invb.fresh y (invb.workDir_created hby (kindOf invb)) x hxb
      rw [← hxy, below_refl] at this
      cases this

/-! ### several documents in ONE environment: this is where the namer matters -/

theorem initTestFiles_total : ∀ (docs : List Doc) (env : Env) (fs : FS), ∃ r, initTestFiles docs env fs = some r := by
  intro docs
  induction docs with
  | nil => intro env fs; exact ⟨_, rfl⟩
  | cons d ds ih =>
    intro env fs
    obtain ⟨⟨r, env1, fs1⟩, h1⟩ := initTestFile_total d env fs
    obtain ⟨⟨rs, env2, fs2⟩, h2⟩ := ih env1 fs1
    simp only [initTestFiles, h1, h2]
    exact ⟨_, rfl⟩

theorem initTestFiles_spec : ∀ (docs : List Doc) (env : Env) (fs : FS) (out : List (Path × Vars)) (env' : Env) (fs' : FS),
    env.work.kind ≠ .userProvided → initTestFiles docs env fs = some (out, env', fs') →
    (∀ o ∈ out, ∃ n, o.1 = env.work.path ++ [n] ∧ n ∉ env.names ∧ o.1 ∉ fs ∧ o.1 ∈ fs') ∧
    (out.map (·.1)).Pairwise (· ≠ ·) ∧ out.length = docs.length ∧ (∀ p ∈ fs, p ∈ fs') := by
  intro docs
  induction docs with
  | nil =>
    intro env fs out env' fs' _ h
    simp only [initTestFiles, Option.some.injEq, Prod.mk.injEq] at h
    obtain ⟨rfl, rfl, rfl⟩ := h
    exact ⟨fun o ho => (by cases ho), List.Pairwise.nil, rfl, fun _ hp => hp⟩
  | cons d ds ih =>
    intro env fs out env' fs' hk h
    simp only [initTestFiles] at h
    split at h
    · cases h
    rename_i r env1 fs1 h1
    split at h
    · cases h
    rename_i rs env2 fs2 h2
    simp only [Option.some.injEq, Prod.mk.injEq] at h
    obtain ⟨rfl, rfl, rfl⟩ := h
    obtain ⟨wd, vars⟩ := r
    obtain ⟨hb, _⟩ := initTestFile_spec h1
    rcases buildWorkDirectory_spec hb with ⟨hk', _⟩ | ⟨_, n, rfl, hn, rfl, hwd, rfl⟩
    · exact absurd hk' hk
    obtain ⟨i1, i2, i3, i4⟩ := ih { env with names := n :: env.names } _ rs env2 fs2 hk h2
    refine ⟨?_, ?_, by simp [i3], fun p hp => i4 p (List.mem_cons_of_mem _ hp)⟩
    · intro o ho
      rcases List.mem_cons.1 ho with rfl | ho
      · exact ⟨n, rfl, hn, hwd, i4 _ List.mem_cons_self⟩
      · obtain ⟨m, hm, hmn, hmf, hmf'⟩ := i1 o ho
        refine ⟨m, hm, fun hmem => hmn (List.mem_cons_of_mem _ hmem), fun hmem => hmf (List.mem_cons_of_mem _ hmem), hmf'⟩
    · show ((env.work.path ++ [n]) :: rs.map (·.1)).Pairwise (· ≠ ·)
      refine List.pairwise_cons.2 ⟨?_, i2⟩
      intro y hy heq
      obtain ⟨o, ho, rfl⟩ := List.mem_map.1 hy
      obtain ⟨m, hm, hmn, _, _⟩ := i1 o ho
      rw [hm] at heq
      have : n = m := by simpa using heq
      exact hmn (by rw [← this]; exact List.mem_cons_self)

/-! ### environment variables -/

theorem buildEnvVars_names (doc : Doc) (env : Env) :
    (buildEnvVars doc env).map Prod.fst = documentedNames ++ (if doc.cram then cramNames else []) := by
  unfold buildEnvVars
  cases doc.cram <;> rfl

theorem names_nodup : (documentedNames ++ cramNames ++ [vSCRUT_TEST]).Nodup := by decide

theorem buildEnvVars_values (doc : Doc) (env : Env) :
    (buildEnvVars doc env).lookup vTESTDIR = some (render doc.dir) ∧
    (buildEnvVars doc env).lookup vTESTFILE = some doc.file ∧
    (buildEnvVars doc env).lookup vTMPDIR = some (render env.tmp.path) ∧
    (buildEnvVars doc env).lookup vTESTSHELL = some env.shell ∧
    (buildEnvVars doc env).lookup vLANG = some ['C'] ∧
    (buildEnvVars doc env).lookup vLANGUAGE = some ['C'] ∧
    (buildEnvVars doc env).lookup vLC_ALL = some ['C'] ∧
    (buildEnvVars doc env).lookup vTZ = some ['G', 'M', 'T'] ∧
    (buildEnvVars doc env).lookup vCOLUMNS = some ['8', '0'] ∧
    (buildEnvVars doc env).lookup vCDPATH = some [] ∧
    (buildEnvVars doc env).lookup vGREP_OPTIONS = some [] := by
  unfold buildEnvVars
  refine ⟨rfl, rfl, rfl, rfl, rfl, rfl, rfl, rfl, rfl, rfl, rfl⟩

theorem buildEnvVars_cram_values (doc : Doc) (env : Env) (hc : doc.cram = true) :
    (buildEnvVars doc env).lookup vCRAMTMP = some (render env.work.path) ∧
    (buildEnvVars doc env).lookup vTMP = some (render env.tmp.path) ∧
    (buildEnvVars doc env).lookup vTEMP = some (render env.tmp.path) := by
  unfold buildEnvVars
  rw [hc]
  refine ⟨rfl, rfl, rfl⟩

theorem lookup_filter_ne (vars : Vars) (k k' : Name) (h : k ≠ k') :
    (vars.filter (fun kv => kv.1 != k')).lookup k = vars.lookup k := by
  induction vars with
  | nil => rfl
  | cons a t ih =>
    obtain ⟨ka, va⟩ := a
    by_cases hka : ka = k'
    · subst hka
      have h1 : (k == ka) = false := by simpa using h
      simp [List.lookup_cons, h1, ih]
    · have : (ka != k') = true := by simpa using hka
      simp only [List.filter_cons, this, if_true, List.lookup_cons, ih]

theorem count_filter_ne (vars : Vars) (k : Name) :
    ((vars.filter (fun kv => kv.1 != k)).map Prod.fst).count k = 0 := by
  rw [List.count_eq_zero]
  intro hm
  obtain ⟨kv, hkv, rfl⟩ := List.mem_map.1 hm
  simp at hkv

theorem testCaseVars_spec (vars : Vars) (file : List Char) (line : Nat) :
    (testCaseVars vars file line).lookup vSCRUT_TEST = some (scrutTestValue file line) ∧
    ((testCaseVars vars file line).map Prod.fst).count vSCRUT_TEST = 1 ∧
    ∀ k, k ≠ vSCRUT_TEST → (testCaseVars vars file line).lookup k = vars.lookup k := by
  unfold testCaseVars insertVar
  refine ⟨by simp, ?_, ?_⟩
  · rw [List.map_cons, List.count_cons_self, count_filter_ne]
  · intro k hk
    have h1 : (k == vSCRUT_TEST) = false := by simpa using hk
    rw [List.lookup_cons, h1]
    exact lookup_filter_ne vars k vSCRUT_TEST hk

/-! ### the concrete oracle keeps the contract -/

theorem le_foldr_max {l : List Nat} {x : Nat} (h : x ∈ l) : x ≤ l.foldr max 0 := by
  induction l with
  | nil => cases h
  | cons a t ih =>
    simp only [List.foldr_cons]
    rcases List.mem_cons.1 h with rfl | h
    · exact Nat.le_max_left _ _
    · exact Nat.le_trans (ih h) (Nat.le_max_right _ _)

theorem longFresh_fresh : Fresh longFresh := by
  intro fs parent pre q hq
  cases hb : below (parent ++ [longFresh fs parent pre]) q with
  | false => rfl
  | true =>
    exfalso
    obtain ⟨t, rfl⟩ := below_iff.1 hb
    have hmem : longFresh fs parent pre ∈ fs.flatten :=
      List.mem_flatten.2 ⟨_, hq, by simp⟩
    have := le_foldr_max (List.mem_map.2 ⟨_, hmem, rfl⟩ : (longFresh fs parent pre).length ∈ fs.flatten.map List.length)
    simp only [longFresh, List.length_append, List.length_replicate] at this
    unfold maxLen at this
    omega

/-! ### the statements of Props/C18.lean -/

theorem RunInv.not_userProvided {cfg : Cfg} {doc : Doc} {fs fs' : FS} {r : DocRun} (inv : RunInv cfg doc fs fs' r)
    (hmode : cfg.keep = true ∨ cfg.provided = none) : r.env.work.kind ≠ .userProvided := by
  have hs := inv.shape
  unfold ModeShape at hs
  cases hk : cfg.keep with
  | true =>
    simp only [hk, if_true] at hs
    rw [hs.1]; decide
  | false =>
    rcases hmode with h | h
    · rw [hk] at h; cases h
    · simp only [hk, h, Bool.false_eq_true, if_false] at hs
      rw [hs.1]; decide

/-- without `--work-directory`: whatever came into being for a document is new -/
theorem RunInv.made_new {cfg : Cfg} {doc : Doc} {fs fs' : FS} {r : DocRun} (inv : RunInv cfg doc fs fs' r)
    (hne : r.env.work.kind ≠ .userProvided) :
    ∀ p, p ∈ r.scrutCreated ∨ p ∈ r.testsCreated → p ∈ r.fsDuring ∧ p ∉ fs := by
  intro p hp
  obtain ⟨xs, hxs, hiff⟩ := inv.during
  refine ⟨by rw [hxs]; exact List.mem_append_left _ ((hiff p).2 hp), ?_⟩
  intro hpf
  have key : ∃ c ∈ r.scrutCreated, below c p = true := by
    rcases hp with hc | ht
    · exact ⟨p, hc, below_refl p⟩
    · rcases inv.tests_below p ht with hb | ⟨wd, hwd, rel, _, rfl⟩
      · exact ⟨_, by simp [DocRun.scrutCreated], hb⟩
      · exact ⟨wd, inv.workDir_created hwd hne, below_append _ _⟩
  obtain ⟨c, hc, hb⟩ := key
  have := inv.fresh c hc p hpf
  rw [hb] at this
  cases this

theorem workdirs_distinct {cfg : Cfg} {fresh : Oracle} (hF : Fresh fresh)
    (hmode : cfg.keep = true ∨ cfg.provided = none) {parseOk : Bool} {fs0 : FS} {docs : List Doc} {R : Run}
    (h : runCommand cfg fresh parseOk fs0 docs = some R) :
    (∀ r ∈ R.runs, ∀ wd, r.workDir = some wd →
      wd ∈ r.fsDuring ∧ (∀ q ∈ r.fsBefore, below wd q = false) ∧ (∀ q ∈ fs0, below wd q = false)) ∧
    (cfg.keep = true → (R.runs.filterMap (·.workDir)).Pairwise (· ≠ ·)) := by
  obtain ⟨hl, _⟩ := runCommand_linked hF h
  refine ⟨?_, fun hk => Linked.keep_pairwise hk hl⟩
  intro r hr wd hwd
  have inv := Linked.invs hl r hr
  have hc := inv.workDir_created hwd (inv.not_userProvided hmode)
  refine ⟨inv.created_mem wd hc, inv.fresh wd hc, ?_⟩
  intro q hq
  exact inv.fresh wd hc q ((Linked.preserves hl).2 r hr q hq)

theorem workdirs_shared {cfg : Cfg} {fresh : Oracle} (hF : Fresh fresh) (hk : cfg.keep = false) {d : Path}
    (hp : cfg.provided = some d) {parseOk : Bool} {fs0 : FS} {docs : List Doc} {R : Run}
    (h : runCommand cfg fresh parseOk fs0 docs = some R) :
    ∀ r ∈ R.runs, ∀ wd, r.workDir = some wd → wd = d := by
  obtain ⟨hl, _⟩ := runCommand_linked hF h
  intro r hr wd hwd
  have inv := Linked.invs hl r hr
  have hw := (inv.provided_after hk hp).1
  rcases inv.wd wd hwd with ⟨_, rfl⟩ | ⟨h0, _⟩
  · rw [hw]
  · rw [hw] at h0; exact absurd rfl h0

theorem cleanup_default {cfg : Cfg} {fresh : Oracle} (hF : Fresh fresh) (hk : cfg.keep = false)
    (hp : cfg.provided = none) {parseOk : Bool} {fs0 : FS} {docs : List Doc} {R : Run}
    (h : runCommand cfg fresh parseOk fs0 docs = some R) :
    R.fs = fs0 ∧ ∀ r ∈ R.runs, r.fsBefore = fs0 ∧ r.fsAfter = fs0 ∧
      ∀ p, p ∈ r.scrutCreated ∨ p ∈ r.testsCreated → p ∈ r.fsDuring ∧ p ∉ fs0 := by
  obtain ⟨hl, _⟩ := runCommand_linked hF h
  obtain ⟨h1, h2⟩ := Linked.default hk hp hl
  refine ⟨h1, ?_⟩
  intro r hr
  obtain ⟨hb, ha⟩ := h2 r hr
  refine ⟨hb, ha, ?_⟩
  have inv := Linked.invs hl r hr
  have := inv.made_new (inv.not_userProvided (Or.inr hp))
  rw [hb] at this
  exact this

theorem cleanup_keep {cfg : Cfg} {fresh : Oracle} (hF : Fresh fresh) (hk : cfg.keep = true)
    {parseOk : Bool} {fs0 : FS} {docs : List Doc} {R : Run}
    (h : runCommand cfg fresh parseOk fs0 docs = some R) :
    (∀ p, p ∈ R.fs ↔ p ∈ fs0 ∨ ∃ r ∈ R.runs, p ∈ r.scrutCreated ∨ p ∈ r.testsCreated) ∧
    ∀ r ∈ R.runs, r.fsAfter = r.fsDuring ∧ r.env.work.kind = .kept ∧ r.env.tmp.kind = .kept := by
  obtain ⟨hl, _⟩ := runCommand_linked hF h
  refine ⟨Linked.keep hk hl, ?_⟩
  intro r hr
  have inv := Linked.invs hl r hr
  have hs := inv.shape
  simp only [ModeShape, hk, if_true] at hs
  exact ⟨inv.keep_keeps hk, hs.1, hs.2.1⟩

theorem cleanup_work_directory {cfg : Cfg} {fresh : Oracle} (hF : Fresh fresh) (hk : cfg.keep = false)
    {d : Path} (hp : cfg.provided = some d) {parseOk : Bool} {fs0 : FS} {docs : List Doc} {R : Run}
    (h : runCommand cfg fresh parseOk fs0 docs = some R) :
    (∀ p ∈ fs0, p ∈ R.fs) ∧
    (∀ p ∈ R.fs, p ∈ fs0 ∨ ∃ r ∈ R.runs, ∃ rel ∈ r.doc.mkWork, p = d ++ rel) ∧
    ∀ r ∈ R.runs, r.env.work = ⟨.userProvided, d⟩ ∧ r.env.tmp.kind = .ephemeral ∧
      (∃ n, r.env.tmp.path = d ++ [n]) ∧ r.env.tmp.path ∈ r.fsDuring ∧
      (∀ q ∈ r.fsBefore, below r.env.tmp.path q = false) ∧
      ∀ p ∈ r.fsAfter, below r.env.tmp.path p = false := by
  obtain ⟨hl, _⟩ := runCommand_linked hF h
  refine ⟨(Linked.preserves hl).1, Linked.provided hk hp hl, ?_⟩
  intro r hr
  have inv := Linked.invs hl r hr
  obtain ⟨h1, h2, h3, h4, _⟩ := inv.provided_after hk hp
  have hc : r.env.tmp.path ∈ r.scrutCreated := by simp [DocRun.scrutCreated]
  exact ⟨h1, h2, h3, inv.created_mem _ hc, inv.fresh _ hc, h4⟩

theorem preexisting_untouched {cfg : Cfg} {fresh : Oracle} (hF : Fresh fresh)
    {parseOk : Bool} {fs0 : FS} {docs : List Doc} {R : Run}
    (h : runCommand cfg fresh parseOk fs0 docs = some R) :
    (∀ p ∈ fs0, p ∈ R.fs) ∧ ∀ r ∈ R.runs, ∀ p ∈ fs0, p ∈ r.fsBefore ∧ p ∈ r.fsDuring ∧ p ∈ r.fsAfter := by
  obtain ⟨hl, _⟩ := runCommand_linked hF h
  refine ⟨(Linked.preserves hl).1, ?_⟩
  intro r hr p hp
  have inv := Linked.invs hl r hr
  have hb := (Linked.preserves hl).2 r hr p hp
  have ha := inv.preserves p hb
  exact ⟨hb, inv.after_sub_during p ha, ha⟩

theorem created_fresh {cfg : Cfg} {fresh : Oracle} (hF : Fresh fresh)
    {parseOk : Bool} {fs0 : FS} {docs : List Doc} {R : Run}
    (h : runCommand cfg fresh parseOk fs0 docs = some R) :
    ∀ r ∈ R.runs, ModeShape cfg.tmpRoot cfg.provided cfg.keep r.env ∧
      ∀ c ∈ r.scrutCreated, c ∈ r.fsDuring ∧ (∀ q ∈ r.fsBefore, below c q = false) ∧ r.fsAfter = drop r.env r.fsDuring := by
  obtain ⟨hl, _⟩ := runCommand_linked hF h
  intro r hr
  have inv := Linked.invs hl r hr
  exact ⟨inv.shape, fun c hc => ⟨inv.created_mem c hc, inv.fresh c hc, inv.after_drop⟩⟩

theorem env_vars_per_document {cfg : Cfg} {fresh : Oracle} (hF : Fresh fresh)
    {parseOk : Bool} {fs0 : FS} {docs : List Doc} {R : Run}
    (h : runCommand cfg fresh parseOk fs0 docs = some R) :
    R.runs.map (·.doc) <+: docs ∧
    ∀ r ∈ R.runs, r.env.shell = cfg.shell ∧ r.env.tmp.path ∈ r.fsDuring ∧
      (∀ q ∈ r.fsBefore, below r.env.tmp.path q = false) ∧
      (r.workDir.isSome = true → r.vars = buildEnvVars r.doc r.env) := by
  obtain ⟨hl, hpre⟩ := runCommand_linked hF h
  refine ⟨hpre, ?_⟩
  intro r hr
  have inv := Linked.invs hl r hr
  have hc : r.env.tmp.path ∈ r.scrutCreated := by simp [DocRun.scrutCreated]
  exact ⟨inv.shell, inv.created_mem _ hc, inv.fresh _ hc, inv.vars⟩

end Scrut.Environment
