import ScrutModel.Model.RulesStr
/-!
# What the string rules match (for C04 and C11)
-/
namespace Scrut.Rules
open Scrut.Utf8 Scrut.Esc Scrut.EscF

/-- a line after `trim_newlines` of a piece of `split_at_newline`: no line feed inside -/
def NoLF (bs : List UInt8) : Prop := ∀ b ∈ bs, b.toNat ≠ 10

instance (bs : List UInt8) : Decidable (NoLF bs) := by unfold NoLF; infer_instance

theorem trimNewlines_append_lf (bs : List UInt8) : trimNewlines (bs ++ [10]) = trimNewlines bs := by
  simp [trimNewlines]

theorem trimNewlines_of_last (bs : List UInt8) (h : bs.getLast? ≠ some 10) : trimNewlines bs = bs := by
  unfold trimNewlines
  rw [List.getLast?_eq_head?_reverse] at h
  cases hr : bs.reverse with
  | nil => simp [List.reverse_eq_nil_iff.mp hr]
  | cons x r =>
    rw [hr] at h
    have hx : x ≠ 10 := by simpa using h
    have : List.dropWhile (· == 10) (x :: r) = x :: r := by
      have hx' : (x == 10) = false := by simpa using hx
      simp [List.dropWhile, hx']
    rw [this, ← hr, List.reverse_reverse]

theorem NoLF.getLast {bs : List UInt8} (h : NoLF bs) : bs.getLast? ≠ some 10 := by
  intro hl
  have := List.mem_of_getLast? hl
  exact h 10 this (by decide)

theorem trimNewlines_noLF {bs : List UInt8} (h : NoLF bs) : trimNewlines bs = bs :=
  trimNewlines_of_last bs h.getLast

/-- **equal**: the expectation matches exactly the expression followed by a line feed -/
theorem equal_iff' (e : List Char) (line : List UInt8) (h : (utf8 e).getLast? ≠ some 10) :
    equalMatches e line = true ↔ line = utf8 e ++ [10] := by
  have : endsInNewline (utf8 e) = false := by simpa [endsInNewline] using h
  simp only [equalMatches, assureNewline, this, beq_iff_eq]
  exact ⟨fun h => h.symm, fun h => by simp [h]⟩

/-- **no-eol**: the expectation matches exactly the expression without line feed -/
theorem noeol_iff (e : List Char) (line : List UInt8) : noEolMatches e line = true ↔ line = utf8 e := by
  simp only [noEolMatches, beq_iff_eq]
  exact eq_comm

/-- **escaped**: the expectation matches exactly the lines whose content (without trailing line
feeds) is the decoded expression -/
theorem escaped_iff (e : List Char) (bs line : List UInt8) (h : escapedMake e = some bs) :
    (escapedMake e).map (escapedMatches · line) = some true ↔ trimNewlines line = bs := by
  simp only [h, escapedMatches, Option.map_some, Option.some.injEq, beq_iff_eq]
  exact eq_comm

theorem stripNoEol_of_not (e : List Char) (h : endsWithNoEol e = false) : stripNoEol e = e := by
  simp [stripNoEol, h]

/-- the Cram-compat step removes one trailing ` (no-eol)` -/
theorem stripNoEol_append (e : List Char) : stripNoEol (e ++ noEolSuffix) = e := by
  have : endsWithNoEol (e ++ noEolSuffix) = true := by
    simp [endsWithNoEol, List.isSuffixOf_iff_suffix]
  simp [stripNoEol, this]

theorem escapedMake_eq_decode (e : List Char) (h : endsWithNoEol e = false) : escapedMake e = decode e := by
  simp [escapedMake, stripNoEol_of_not e h]

/-- only the line feed character has the byte 0x0A in its UTF-8 encoding -/
theorem lf_of_mem_utf8EncodeChar (c : Char) (h : (10 : UInt8) ∈ String.utf8EncodeChar c) : c = '\n' := by
  have hv : c.val.toNat = c.toNat := rfl
  have hne : ∀ n, 128 ≤ n → n < 256 → (10 : UInt8) ≠ UInt8.ofNat n := by
    intro n h1 h2 he
    have := congrArg UInt8.toNat he
    simp [Nat.mod_eq_of_lt h2] at this
    omega
  simp only [String.utf8EncodeChar, hv] at h
  split at h
  · rename_i h7
    simp only [List.mem_singleton] at h
    have := congrArg UInt8.toNat h
    simp [Nat.mod_eq_of_lt (show c.toNat < 256 by omega)] at this
    apply Char.ext
    apply UInt32.toNat_inj.mp
    show c.toNat = 10
    omega
  · exfalso
    split at h
    · simp only [List.mem_cons, List.not_mem_nil, or_false] at h
      rcases h with h | h
      · exact hne _ (by omega) (by omega) h
      · exact hne _ (by omega) (by omega) h
    · split at h
      · simp only [List.mem_cons, List.not_mem_nil, or_false] at h
        rcases h with h | h | h
        · exact hne _ (by omega) (by omega) h
        · exact hne _ (by omega) (by omega) h
        · exact hne _ (by omega) (by omega) h
      · simp only [List.mem_cons, List.not_mem_nil, or_false] at h
        rcases h with h | h | h | h
        · exact hne _ (by omega) (by omega) h
        · exact hne _ (by omega) (by omega) h
        · exact hne _ (by omega) (by omega) h
        · exact hne _ (by omega) (by omega) h

theorem utf8_last_ne_lf (e : List Char) (h : '\n' ∉ e) : (utf8 e).getLast? ≠ some 10 := by
  intro hl
  have hm := List.mem_of_getLast? hl
  simp only [utf8, List.mem_flatMap] at hm
  obtain ⟨c, hc, hb⟩ := hm
  exact h (lf_of_mem_utf8EncodeChar c hb ▸ hc)

/-- **equal** (C04): for an expression without line feed the expectation matches exactly the
expression followed by one line feed -/
theorem equal_iff (e : List Char) (line : List UInt8) (h : '\n' ∉ e) :
    equalMatches e line = true ↔ line = utf8 e ++ [10] :=
  equal_iff' e line (utf8_last_ne_lf e h)

/-- **escaped** (C04), in terms of the decoder: with `decode (stripNoEol e) = some bs` the
expectation matches `line` iff the content of the line is `bs` -/
theorem escaped_matches_iff (e : List Char) (bs line : List UInt8) (h : decode (stripNoEol e) = some bs) :
    (escapedMake e).map (escapedMatches · line) = some true ↔ trimNewlines line = bs :=
  escaped_iff e bs line h

/-- an expression the decoder rejects gives no expectation -/
theorem escaped_err (e : List Char) (line : List UInt8) (h : decode (stripNoEol e) = none) :
    (escapedMake e).map (escapedMatches · line) = none := by
  simp [escapedMake, h]

end Scrut.Rules
