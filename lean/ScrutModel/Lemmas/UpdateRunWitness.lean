import ScrutModel.Lemmas.UpdateRunParses
/-!
# Concrete documents for the theorems about the integrated model of `scrut update`

Witnesses of the statements that are FALSE as first written (and of the guards that cannot be
dropped), and one ordinary document on which every guard holds (non-vacuity).  Everything is
evaluated at the level of `updateDocument` (the parser, the preparation and the generators reduce
in the kernel; only the matcher `Diff.diff`, a well-founded recursion, is unfolded by `simp`).
-/
namespace Scrut.UpdateRun.Witness
open Scrut Scrut.TestRun Scrut.UpdateRun Scrut.Markdown Scrut.EscLemmas

/-- `char::is_other()` on ASCII (the control characters), nothing else -/
def ctrl (c : Char) : Bool := c.toNat < 0x20 || c.toNat = 0x7f

theorem ctrl_contract : AsciiContract ctrl := by
  intro c _
  simp [ctrl]

/-- the configuration every test of a Markdown document without inline configuration gets -/
def cfgMd : Yaml.Cfg := { outputStream := some .stdout, skipCode := some 80 }

/-- one test, one run: `updateTests` from its pieces -/
theorem updateTests_one (isOther : Char → Bool) (content : List Char) (u : UTest) (r : Ran)
    (recorded : Bytes × Bytes) (res : Gen.UpdResult) (g : List Char)
    (hs : skipsDocument [u] [r] = false) (hrec : record u.test.cfg r = some recorded)
    (hj : judge u.test recorded r.code = some res)
    (hg : Gen.generateTestcaseUpd .unicode isOther u.cmd u.origs res (genLines u.test.cfg recorded res) r.code = some g) :
    updateTests isOther content [u] [r] =
      match Update.generateUpdate [Gen.language] content [some g] with
      | .error .crash => .crash
      | .error _ => .error
      | .ok updated => if updated = content then .unchanged [res] else .updated updated [res] := by
  have hja : judgeAll isOther [u] [r] = .ok [(res, some g)] := by
    simp only [judgeAll, outcomeText, hrec, hj, hg]
  unfold updateTests
  simp only [hs, hja]
  rfl

theorem allPass_one (content : List Char) (u : UTest) (r : Ran) (recorded : Bytes × Bytes)
    (ht : docTests content = some [u]) (hrec : record u.test.cfg r = some recorded)
    (hj : judge u.test recorded r.code = some .ok) : AllPass content [r] := by
  refine ⟨[u], ht, by simp, ?_⟩
  intro i u' r' hu hr
  cases i with
  | zero =>
    simp at hu hr
    subst hu; subst hr
    exact ⟨recorded, hrec, hj⟩
  | succ k => simp at hu

/-! ## W1: a passing document whose last line has no line feed is written (U1 as first stated is false) -/

/-- ```scrut / $ x / a / ``` without final line feed -/
def docNoLf : List Char := ['`', '`', '`', 's', 'c', 'r', 'u', 't', '\n', '$', ' ', 'x', '\n', 'a', '\n', '`', '`', '`']
def utA : UTest := ⟨⟨cfgMd, [⟨.equal [97], false, false⟩], none⟩, ['x'], [['a']]⟩
/-- the command prints `a` and ends in 0 -/
def runA : Ran := ⟨[97, 10], [], 0⟩

theorem docTests_noLf : docTests docNoLf = some [utA] := by rfl

theorem diff_A : diffOf utA.test.exps [97, 10] = some [.matched 0 [0]] := by
  have hm : matrix utA.test.exps (Newline.splitAtNewline [97, 10]) = some [[true]] := by decide
  have hl : (Newline.splitAtNewline [97, 10]).length = 1 := by decide
  unfold diffOf
  simp only [hm, hl, Option.map_some]
  simp [Diff.diff, Diff.loop, Diff.rangeFrom, Diff.unmatchedOf, utA, quant, cell]

theorem judge_A : judge utA.test ([97, 10], []) 0 = some .ok := by
  have : validateStream utA.test.cfg ([97, 10], []) = [97, 10] := by decide
  unfold judge
  rw [this, diff_A]
  decide

theorem allPass_noLf : AllPass docNoLf [runA] :=
  allPass_one docNoLf utA runA ([97, 10], []) docTests_noLf (by decide) judge_A

theorem noLf_written (isOther : Char → Bool) :
    updateDocument isOther docNoLf [runA] = .updated (docNoLf ++ ['\n']) [.ok] := by
  rw [updateDocument_of_docTests _ _ _ _ docTests_noLf,
    updateTests_one isOther docNoLf utA runA ([97, 10], []) .ok ['$', ' ', 'x', '\n', 'a', '\n']
      (by decide) (by decide) judge_A (by rfl)]
  decide

/-! ## W3 (repaired by fix cfef990): an expectation line `> a` behind the exit code line stays behind it

Before the fix the passing test `$ x` / `[1]` / `> a` was rewritten to `$ x` / `> a` / `[1]`, whose command is
`x⏎a` (finding `C10:expectation-read-as-continuation`). -/

/-- ```scrut / $ x / [1] / > a / ``` -/
def docCont : List Char := ['`', '`', '`', 's', 'c', 'r', 'u', 't', '\n', '$', ' ', 'x', '\n', '[', '1', ']', '\n', '>', ' ', 'a', '\n', '`', '`', '`', '\n']
def utCont : UTest := ⟨⟨cfgMd, [⟨.equal [62, 32, 97], false, false⟩], some 1⟩, ['x'], [['>', ' ', 'a']]⟩
/-- the command prints `> a` and ends in 1 -/
def runCont : Ran := ⟨[62, 32, 97, 10], [], 1⟩

theorem docTests_cont : docTests docCont = some [utCont] := by rfl

theorem diff_cont : diffOf utCont.test.exps [62, 32, 97, 10] = some [.matched 0 [0]] := by
  have hm : matrix utCont.test.exps (Newline.splitAtNewline [62, 32, 97, 10]) = some [[true]] := by decide
  have hl : (Newline.splitAtNewline [62, 32, 97, 10]).length = 1 := by decide
  unfold diffOf
  simp only [hm, hl, Option.map_some]
  simp [Diff.diff, Diff.loop, Diff.rangeFrom, Diff.unmatchedOf, utCont, quant, cell]

theorem judge_cont : judge utCont.test ([62, 32, 97, 10], []) 1 = some .ok := by
  have : validateStream utCont.test.cfg ([62, 32, 97, 10], []) = [62, 32, 97, 10] := by decide
  unfold judge
  rw [this, diff_cont]
  decide

theorem allPass_cont : AllPass docCont [runCont] :=
  allPass_one docCont utCont runCont ([62, 32, 97, 10], []) docTests_cont (by decide) judge_cont

/-- the text of the passing test is its own lines, the exit code line in front of `> a`: nothing is written -/
theorem cont_kept (isOther : Char → Bool) :
    updateDocument isOther docCont [runCont] = .unchanged [.ok] := by
  rw [updateDocument_of_docTests _ _ _ _ docTests_cont,
    updateTests_one isOther docCont utCont runCont ([62, 32, 97, 10], []) .ok
      ['$', ' ', 'x', '\n', '[', '1', ']', '\n', '>', ' ', 'a', '\n']
      (by decide) (by decide) judge_cont (by rfl)]
  decide

/-- ```scrut / $ x / [0] / > a / ```: the exit code line that keeps `> a` apart from the command is written
also for 0 -/
def docCont0 : List Char := ['`', '`', '`', 's', 'c', 'r', 'u', 't', '\n', '$', ' ', 'x', '\n', '[', '0', ']', '\n', '>', ' ', 'a', '\n', '`', '`', '`', '\n']
def utCont0 : UTest := ⟨⟨cfgMd, [⟨.equal [62, 32, 97], false, false⟩], some 0⟩, ['x'], [['>', ' ', 'a']]⟩
def runCont0 : Ran := ⟨[62, 32, 97, 10], [], 0⟩

theorem docTests_cont0 : docTests docCont0 = some [utCont0] := by rfl

theorem judge_cont0 : judge utCont0.test ([62, 32, 97, 10], []) 0 = some .ok := by
  have : validateStream utCont0.test.cfg ([62, 32, 97, 10], []) = [62, 32, 97, 10] := by decide
  unfold judge
  rw [this, show utCont0.test.exps = utCont.test.exps from rfl, diff_cont]
  decide

theorem cont0_kept (isOther : Char → Bool) :
    updateDocument isOther docCont0 [runCont0] = .unchanged [.ok] := by
  rw [updateDocument_of_docTests _ _ _ _ docTests_cont0,
    updateTests_one isOther docCont0 utCont0 runCont0 ([62, 32, 97, 10], []) .ok
      ['$', ' ', 'x', '\n', '[', '0', ']', '\n', '>', ' ', 'a', '\n']
      (by decide) (by decide) judge_cont0 (by rfl)]
  decide

/-! ## W2 (repaired by fix 961e96b): a command that ends in an empty continuation line `> ` keeps it

Before the fix `$ x` / `> ` (the command `x⏎`) was written back as `$ x` (finding
`C10:trailing-empty-continuation-dropped`). -/

/-- ```scrut / $ x / > / b / ``` (the command is `x⏎`) -/
def docTrail : List Char := ['`', '`', '`', 's', 'c', 'r', 'u', 't', '\n', '$', ' ', 'x', '\n', '>', ' ', '\n', 'b', '\n', '`', '`', '`', '\n']
/-- what `update` writes for the output `a`: ```scrut / $ x / > / a / ``` -/
def docTrailOut : List Char := ['`', '`', '`', 's', 'c', 'r', 'u', 't', '\n', '$', ' ', 'x', '\n', '>', ' ', '\n', 'a', '\n', '`', '`', '`', '\n']
def utTrail : UTest := ⟨⟨cfgMd, [⟨.equal [98], false, false⟩], none⟩, ['x', '\n'], [['b']]⟩

theorem docTests_trail : docTests docTrail = some [utTrail] := by rfl

theorem diff_trail : diffOf utTrail.test.exps [97, 10] = some [.unmatched 0, .unexpected [0]] := by
  have hm : matrix utTrail.test.exps (Newline.splitAtNewline [97, 10]) = some [[false]] := by decide
  have hl : (Newline.splitAtNewline [97, 10]).length = 1 := by decide
  unfold diffOf
  simp only [hm, hl, Option.map_some]
  simp [Diff.diff, Diff.loop, Diff.rangeFrom, Diff.unmatchedOf, Diff.findFrom, utTrail, quant, cell]

theorem judge_trail : judge utTrail.test ([97, 10], []) 0 = some (.malformed [.unmatched 0, .unexpected [0]]) := by
  have : validateStream utTrail.test.cfg ([97, 10], []) = [97, 10] := by decide
  unfold judge
  rw [this, diff_trail]
  decide

theorem trail_written :
    updateDocument ctrl docTrail [runA] = .updated docTrailOut [.malformed [.unmatched 0, .unexpected [0]]] := by
  rw [updateDocument_of_docTests _ _ _ _ docTests_trail,
    updateTests_one ctrl docTrail utTrail runA ([97, 10], []) (.malformed [.unmatched 0, .unexpected [0]])
      ['$', ' ', 'x', '\n', '>', ' ', '\n', 'a', '\n'] (by decide) (by decide) judge_trail (by decide)]
  decide

theorem trail_commands :
    (parseMarkdown parseEnv docTrail).toOption.map (fun p => p.tests.map (·.shellExpression)) = some [['x', '\n']] ∧
    (parseMarkdown parseEnv docTrailOut).toOption.map (fun p => p.tests.map (·.shellExpression)) = some [['x', '\n']] := by
  decide

/-! ## W4: a command line that ends in a stray carriage return loses it (U3 as first stated is still false)

The one way left in which `update` changes a command: `str::lines()` strips one carriage return in front of the
line feed, so the command line `$ x⏎` written for the command `x␍` reads back as `x` (root cause of the open
findings `C10:stray-carriage-return-dropped` / `C10:not-idempotent-stray-carriage-return`). -/

/-- ```scrut / $ x␍␍ / a / ``` (the command is `x␍`) -/
def docCrCmd : List Char := ['`', '`', '`', 's', 'c', 'r', 'u', 't', '\n', '$', ' ', 'x', '\r', '\r', '\n', 'a', '\n', '`', '`', '`', '\n']
/-- what `update` writes: ```scrut / $ x␍ / a / ``` -/
def docCrCmdOut : List Char := ['`', '`', '`', 's', 'c', 'r', 'u', 't', '\n', '$', ' ', 'x', '\r', '\n', 'a', '\n', '`', '`', '`', '\n']
def utCrCmd : UTest := ⟨⟨cfgMd, [⟨.equal [97], false, false⟩], none⟩, ['x', '\r'], [['a']]⟩

theorem docTests_crCmd : docTests docCrCmd = some [utCrCmd] := by rfl

theorem crCmd_written (isOther : Char → Bool) :
    updateDocument isOther docCrCmd [runA] = .updated docCrCmdOut [.ok] := by
  rw [updateDocument_of_docTests _ _ _ _ docTests_crCmd,
    updateTests_one isOther docCrCmd utCrCmd runA ([97, 10], []) .ok ['$', ' ', 'x', '\r', '\n', 'a', '\n']
      (by decide) (by decide) judge_A (by rfl)]
  decide

theorem crCmd_commands :
    (parseMarkdown parseEnv docCrCmd).toOption.map (fun p => p.tests.map (·.shellExpression)) = some [['x', '\r']] ∧
    (parseMarkdown parseEnv docCrCmdOut).toOption.map (fun p => p.tests.map (·.shellExpression)) = some [['x']] := by
  decide

theorem crCmd_strayCR : ¬ NoStrayCR docCrCmd := by decide

/-! ## an ordinary document: every guard holds -/

/-- `# T` / (blank) / ```scrut / $ x / old / ``` / end -/
def docOrd : List Char := ['#', ' ', 'T', '\n', '\n', '`', '`', '`', 's', 'c', 'r', 'u', 't', '\n', '$', ' ', 'x', '\n', 'o', 'l', 'd', '\n', '`', '`', '`', '\n', 'e', 'n', 'd', '\n']
/-- what `update` writes for the output `new` -/
def docOrdOut : List Char := ['#', ' ', 'T', '\n', '\n', '`', '`', '`', 's', 'c', 'r', 'u', 't', '\n', '$', ' ', 'x', '\n', 'n', 'e', 'w', '\n', '`', '`', '`', '\n', 'e', 'n', 'd', '\n']
def utOld : UTest := ⟨⟨cfgMd, [⟨.equal [111, 108, 100], false, false⟩], none⟩, ['x'], [['o', 'l', 'd']]⟩
def utNew : UTest := ⟨⟨cfgMd, [⟨.equal [110, 101, 119], false, false⟩], none⟩, ['x'], [['n', 'e', 'w']]⟩
/-- the command prints `new` and ends in 0 -/
def runNew : Ran := ⟨[110, 101, 119, 10], [], 0⟩
def parsedOrd : Parsed :=
  { docConfigs := []
    tests := [{ title := ['T'], command := [['x']], exitCode := none, expectations := [['o', 'l', 'd']],
                lineNumber := 4, config := some none }] }

theorem parse_ord : parseMarkdown parseEnv docOrd = .ok parsedOrd := by rfl
theorem docTests_ord : docTests docOrd = some [utOld] := by rfl
theorem docTests_ordOut : docTests docOrdOut = some [utNew] := by rfl

theorem diff_ord : diffOf utOld.test.exps [110, 101, 119, 10] = some [.unmatched 0, .unexpected [0]] := by
  have hm : matrix utOld.test.exps (Newline.splitAtNewline [110, 101, 119, 10]) = some [[false]] := by decide
  have hl : (Newline.splitAtNewline [110, 101, 119, 10]).length = 1 := by decide
  unfold diffOf
  simp only [hm, hl, Option.map_some]
  simp [Diff.diff, Diff.loop, Diff.rangeFrom, Diff.unmatchedOf, Diff.findFrom, utOld, quant, cell]

theorem judge_ord :
    judge utOld.test ([110, 101, 119, 10], []) 0 = some (.malformed [.unmatched 0, .unexpected [0]]) := by
  have : validateStream utOld.test.cfg ([110, 101, 119, 10], []) = [110, 101, 119, 10] := by decide
  unfold judge
  rw [this, diff_ord]
  decide

theorem ord_written :
    updateDocument ctrl docOrd [runNew] = .updated docOrdOut [.malformed [.unmatched 0, .unexpected [0]]] := by
  rw [updateDocument_of_docTests _ _ _ _ docTests_ord,
    updateTests_one ctrl docOrd utOld runNew ([110, 101, 119, 10], []) (.malformed [.unmatched 0, .unexpected [0]])
      ['$', ' ', 'x', '\n', 'n', 'e', 'w', '\n'] (by decide) (by decide) judge_ord (by decide)]
  decide

theorem ord_noStrayCR : NoStrayCR docOrd := by decide
theorem ord_frontClosed : FrontClosed docOrd := by decide
theorem ord_codes : ∀ r ∈ [runNew], 0 ≤ r.code ∧ r.code ≤ 255 := by decide

theorem ord_quantFree : QuantFree docOrd [.malformed [.unmatched 0, .unexpected [0]]] := by
  intro tests ht j u d hu _
  rw [docTests_ord] at ht
  cases ht
  cases j with
  | zero =>
    simp at hu
    subst hu
    decide
  | succ k => simp at hu

theorem diff_new : diffOf utNew.test.exps [110, 101, 119, 10] = some [.matched 0 [0]] := by
  have hm : matrix utNew.test.exps (Newline.splitAtNewline [110, 101, 119, 10]) = some [[true]] := by decide
  have hl : (Newline.splitAtNewline [110, 101, 119, 10]).length = 1 := by decide
  unfold diffOf
  simp only [hm, hl, Option.map_some]
  simp [Diff.diff, Diff.loop, Diff.rangeFrom, Diff.unmatchedOf, utNew, quant, cell]

theorem judge_new : judge utNew.test ([110, 101, 119, 10], []) 0 = some .ok := by
  have : validateStream utNew.test.cfg ([110, 101, 119, 10], []) = [110, 101, 119, 10] := by decide
  unfold judge
  rw [this, diff_new]
  decide

/-- the second run generates the text the first one wrote -/
theorem ord_sameTexts : docGens ctrl docOrdOut [runNew] = docGens ctrl docOrd [runNew] := by
  have h1 : judgeAll ctrl [utOld] [runNew] = .ok [(.malformed [.unmatched 0, .unexpected [0]], some ['$', ' ', 'x', '\n', 'n', 'e', 'w', '\n'])] := by
    have hrec : record utOld.test.cfg runNew = some ([110, 101, 119, 10], []) := by decide
    have hg : Gen.generateTestcaseUpd .unicode ctrl utOld.cmd utOld.origs (.malformed [.unmatched 0, .unexpected [0]])
        (genLines utOld.test.cfg ([110, 101, 119, 10], []) (.malformed [.unmatched 0, .unexpected [0]])) runNew.code
        = some ['$', ' ', 'x', '\n', 'n', 'e', 'w', '\n'] := by decide
    simp only [judgeAll, outcomeText, hrec, show runNew.code = 0 from rfl, judge_ord]
    rw [show runNew.code = 0 from rfl] at hg
    simp only [hg]
  have h2 : judgeAll ctrl [utNew] [runNew] = .ok [(.ok, some ['$', ' ', 'x', '\n', 'n', 'e', 'w', '\n'])] := by
    have hrec : record utNew.test.cfg runNew = some ([110, 101, 119, 10], []) := by decide
    simp only [judgeAll, outcomeText, hrec, show runNew.code = 0 from rfl, judge_new]
    rfl
  simp only [docGens, docOutcomes, docTests_ord, docTests_ordOut, h1, h2]
  rfl

theorem ord_sameConfigs : SameConfigs docOrd docOrdOut := ⟨[utOld], [utNew], docTests_ord, docTests_ordOut, rfl⟩

/-! ## W5 (repaired by fix 15b47d2): white space in front of an inline configuration that is not a YAML blank is kept

`update` used to write the configuration text with `trim_start()`, which drops Unicode `White_Space`; the YAML
parser skips spaces and tabs only.  In `{<U+00A0>output_stream: stderr}` the key is `<U+00A0>output_stream`, an
unknown field, which serde ignores: the test validates STDOUT.  `update` wrote `{output_stream: stderr}`: the test
then validated STDERR, failed, and the next `update` rewrote its expectations
(finding `C10:config-leading-white-space-changes-configuration`, confirmed on the binary, repaired by fix
15b47d2: `trim_start_matches([' ', '\t'])`, `Update.blankStart`).  Now the no-break space stays. -/

/-- the configuration text `<U+00A0>output_stream: stderr` -/
def cfgNbsp : List Char := ['\u00a0', 'o', 'u', 't', 'p', 'u', 't', '_', 's', 't', 'r', 'e', 'a', 'm', ':', ' ', 's', 't', 'd', 'e', 'r', 'r']
/-- ```scrut {<U+00A0>output_stream: stderr} / $ x / a / ``` -/
def docNbsp : List Char := ['`', '`', '`', 's', 'c', 'r', 'u', 't', ' ', '{', '\u00a0', 'o', 'u', 't', 'p', 'u', 't', '_', 's', 't', 'r', 'e', 'a', 'm', ':', ' ', 's', 't', 'd', 'e', 'r', 'r', '}', '\n', '$', ' ', 'x', '\n', 'a', '\n', '`', '`', '`', '\n']
/-- ```scrut {<U+00A0>output_stream: stderr} / $ x / b / ```: `docNbsp` updated on a run that prints `b` -/
def docNbspB : List Char := ['`', '`', '`', 's', 'c', 'r', 'u', 't', ' ', '{', '\u00a0', 'o', 'u', 't', 'p', 'u', 't', '_', 's', 't', 'r', 'e', 'a', 'm', ':', ' ', 's', 't', 'd', 'e', 'r', 'r', '}', '\n', '$', ' ', 'x', '\n', 'b', '\n', '`', '`', '`', '\n']
/-- a blank in front of the no-break space: ```scrut { <U+00A0>output_stream: stderr} / $ x / a / ``` -/
def docSpNbsp : List Char := ['`', '`', '`', 's', 'c', 'r', 'u', 't', ' ', '{', ' ', '\u00a0', 'o', 'u', 't', 'p', 'u', 't', '_', 's', 't', 'r', 'e', 'a', 'm', ':', ' ', 's', 't', 'd', 'e', 'r', 'r', '}', '\n', '$', ' ', 'x', '\n', 'a', '\n', '`', '`', '`', '\n']
/-- what `update` wrote for `docNbsp` UNTIL fix 15b47d2: ```scrut {output_stream: stderr} / $ x / a / ``` -/
def docNbspOut : List Char := ['`', '`', '`', 's', 'c', 'r', 'u', 't', ' ', '{', 'o', 'u', 't', 'p', 'u', 't', '_', 's', 't', 'r', 'e', 'a', 'm', ':', ' ', 's', 't', 'd', 'e', 'r', 'r', '}', '\n', '$', ' ', 'x', '\n', 'a', '\n', '`', '`', '`', '\n']
/-- what the next `update` wrote then: ```scrut {output_stream: stderr} / $ x / b / ``` -/
def docNbspOut2 : List Char := ['`', '`', '`', 's', 'c', 'r', 'u', 't', ' ', '{', 'o', 'u', 't', 'p', 'u', 't', '_', 's', 't', 'r', 'e', 'a', 'm', ':', ' ', 's', 't', 'd', 'e', 'r', 'r', '}', '\n', '$', ' ', 'x', '\n', 'b', '\n', '`', '`', '`', '\n']
/-- the same block with an ordinary space behind the brace: ```scrut { output_stream: stderr} / $ x / a / ``` -/
def docSp : List Char := ['`', '`', '`', 's', 'c', 'r', 'u', 't', ' ', '{', ' ', 'o', 'u', 't', 'p', 'u', 't', '_', 's', 't', 'r', 'e', 'a', 'm', ':', ' ', 's', 't', 'd', 'e', 'r', 'r', '}', '\n', '$', ' ', 'x', '\n', 'a', '\n', '`', '`', '`', '\n']
def cfgErr : Yaml.Cfg := { outputStream := some .stderr, skipCode := some 80 }
def utErr : UTest := ⟨⟨cfgErr, [⟨.equal [97], false, false⟩], none⟩, ['x'], [['a']]⟩
def utB : UTest := ⟨⟨cfgMd, [⟨.equal [98], false, false⟩], none⟩, ['x'], [['b']]⟩
/-- the command prints `a` to STDOUT, `b` to STDERR and ends in 0 -/
def runAB : Ran := ⟨[97, 10], [98, 10], 0⟩
/-- the command prints `b` to STDOUT, `a` to STDERR and ends in 0 -/
def runBA : Ran := ⟨[98, 10], [97, 10], 0⟩

/-- the configuration of the original is the default one: the key `<U+00A0>output_stream` is ignored -/
theorem docTests_nbsp : docTests docNbsp = some [utA] := by rfl
theorem docTests_nbspB : docTests docNbspB = some [utB] := by rfl
theorem docTests_spNbsp : docTests docSpNbsp = some [utA] := by rfl
theorem docTests_nbspOut : docTests docNbspOut = some [utErr] := by rfl
theorem docTests_sp : docTests docSp = some [utErr] := by rfl
theorem parse_sp : (parseMarkdown parseEnv docSp).toOption.isSome = true := by decide
theorem parse_nbsp : (parseMarkdown parseEnv docNbsp).toOption.isSome = true := by decide

/-- **the fence line written keeps the no-break space** (and drops the blank in front of it) -/
theorem nbsp_suffix_kept :
    Update.configSuffix [(0, cfgNbsp)] = ' ' :: '{' :: (cfgNbsp ++ ['}']) ∧
    Update.configSuffix [(0, ' ' :: '\t' :: cfgNbsp)] = ' ' :: '{' :: (cfgNbsp ++ ['}']) := by decide

theorem judge_AB : judge utA.test ([97, 10], [98, 10]) 0 = some .ok := by
  have : validateStream utA.test.cfg ([97, 10], [98, 10]) = [97, 10] := by decide
  unfold judge
  rw [this, diff_A]
  decide

theorem allPass_nbsp : AllPass docNbsp [runAB] :=
  allPass_one docNbsp utA runAB ([97, 10], [98, 10]) docTests_nbsp (by decide) judge_AB

theorem allPass_spNbsp : AllPass docSpNbsp [runAB] :=
  allPass_one docSpNbsp utA runAB ([97, 10], [98, 10]) docTests_spNbsp (by decide) judge_AB

/-- the passing document is its own update: nothing is written (until fix 15b47d2: `.updated docNbspOut`) -/
theorem nbsp_unchanged (isOther : Char → Bool) :
    updateDocument isOther docNbsp [runAB] = .unchanged [.ok] := by
  rw [updateDocument_of_docTests _ _ _ _ docTests_nbsp,
    updateTests_one isOther docNbsp utA runAB ([97, 10], [98, 10]) .ok ['$', ' ', 'x', '\n', 'a', '\n']
      (by decide) (by decide) judge_AB (by rfl)]
  decide

/-- with a blank in front: the passing document is written, the blank is dropped, the no-break space stays -/
theorem spNbsp_written (isOther : Char → Bool) :
    updateDocument isOther docSpNbsp [runAB] = .updated docNbsp [.ok] := by
  rw [updateDocument_of_docTests _ _ _ _ docTests_spNbsp,
    updateTests_one isOther docSpNbsp utA runAB ([97, 10], [98, 10]) .ok ['$', ' ', 'x', '\n', 'a', '\n']
      (by decide) (by decide) judge_AB (by rfl)]
  decide

theorem diff_AB : diffOf utA.test.exps [98, 10] = some [.unmatched 0, .unexpected [0]] := by
  have hm : matrix utA.test.exps (Newline.splitAtNewline [98, 10]) = some [[false]] := by decide
  have hl : (Newline.splitAtNewline [98, 10]).length = 1 := by decide
  unfold diffOf
  simp only [hm, hl, Option.map_some]
  simp [Diff.diff, Diff.loop, Diff.rangeFrom, Diff.unmatchedOf, Diff.findFrom, utA, quant, cell]

theorem judge_BA : judge utA.test ([98, 10], [97, 10]) 0 = some (.malformed [.unmatched 0, .unexpected [0]]) := by
  have : validateStream utA.test.cfg ([98, 10], [97, 10]) = [98, 10] := by decide
  unfold judge
  rw [this, diff_AB]
  decide

/-- on a run that prints `b` to STDOUT the document fails and is written: the fence line is the same, no-break
space included, the expectation is `b` (STDOUT, as before) -/
theorem nbsp_rewritten :
    updateDocument ctrl docNbsp [runBA] = .updated docNbspB [.malformed [.unmatched 0, .unexpected [0]]] := by
  rw [updateDocument_of_docTests _ _ _ _ docTests_nbsp,
    updateTests_one ctrl docNbsp utA runBA ([98, 10], [97, 10]) (.malformed [.unmatched 0, .unexpected [0]])
      ['$', ' ', 'x', '\n', 'b', '\n'] (by decide) (by decide) judge_BA (by decide)]
  decide

theorem diff_B : diffOf utB.test.exps [98, 10] = some [.matched 0 [0]] := by
  have hm : matrix utB.test.exps (Newline.splitAtNewline [98, 10]) = some [[true]] := by decide
  have hl : (Newline.splitAtNewline [98, 10]).length = 1 := by decide
  unfold diffOf
  simp only [hm, hl, Option.map_some]
  simp [Diff.diff, Diff.loop, Diff.rangeFrom, Diff.unmatchedOf, utB, quant, cell]

theorem judge_B : judge utB.test ([98, 10], [97, 10]) 0 = some .ok := by
  have : validateStream utB.test.cfg ([98, 10], [97, 10]) = [98, 10] := by decide
  unfold judge
  rw [this, diff_B]
  decide

/-- … and the second update of it writes nothing -/
theorem nbspB_unchanged (isOther : Char → Bool) :
    updateDocument isOther docNbspB [runBA] = .unchanged [.ok] := by
  rw [updateDocument_of_docTests _ _ _ _ docTests_nbspB,
    updateTests_one isOther docNbspB utB runBA ([98, 10], [97, 10]) .ok ['$', ' ', 'x', '\n', 'b', '\n']
      (by decide) (by decide) judge_B (by rfl)]
  decide

theorem nbsp_noStrayCR : NoStrayCR docNbsp := by decide
theorem nbsp_codes : ∀ r ∈ [runBA], 0 ≤ r.code ∧ r.code ≤ 255 := by decide

theorem nbsp_quantFree : QuantFree docNbsp [.malformed [.unmatched 0, .unexpected [0]]] := by
  intro tests ht j u d hu _
  rw [docTests_nbsp] at ht
  cases ht
  cases j with
  | zero =>
    simp at hu
    subst hu
    decide
  | succ k => simp at hu

/-! ### the record of the behaviour until fix 15b47d2 -/

/-- `format!(" {{{}}}", config_text.trim_start())`: the configuration suffix as it was written until fix 15b47d2 -/
def configSuffixOld (cfg : Markdown.Numbered) : List Char :=
  let text := Markdown.joinNumbered cfg
  if (trim text).isEmpty then [] else ' ' :: '{' :: (trimStart text ++ ['}'])

/-- it dropped the no-break space, which is part of the first key -/
theorem nbsp_suffix_old : configSuffixOld [(0, cfgNbsp)] = ' ' :: '{' :: (cfgNbsp.drop 1 ++ ['}']) := by decide

theorem diff_err : diffOf utErr.test.exps [98, 10] = some [.unmatched 0, .unexpected [0]] := by
  have hm : matrix utErr.test.exps (Newline.splitAtNewline [98, 10]) = some [[false]] := by decide
  have hl : (Newline.splitAtNewline [98, 10]).length = 1 := by decide
  unfold diffOf
  simp only [hm, hl, Option.map_some]
  simp [Diff.diff, Diff.loop, Diff.rangeFrom, Diff.unmatchedOf, Diff.findFrom, utErr, quant, cell]

theorem judge_err : judge utErr.test ([97, 10], [98, 10]) 0 = some (.malformed [.unmatched 0, .unexpected [0]]) := by
  have : validateStream utErr.test.cfg ([97, 10], [98, 10]) = [98, 10] := by decide
  unfold judge
  rw [this, diff_err]
  decide

/-- the document written until fix 15b47d2 is read with ANOTHER configuration, fails on the same run and is
written again -/
theorem nbspOut_written :
    updateDocument ctrl docNbspOut [runAB] = .updated docNbspOut2 [.malformed [.unmatched 0, .unexpected [0]]] := by
  rw [updateDocument_of_docTests _ _ _ _ docTests_nbspOut,
    updateTests_one ctrl docNbspOut utErr runAB ([97, 10], [98, 10]) (.malformed [.unmatched 0, .unexpected [0]])
      ['$', ' ', 'x', '\n', 'b', '\n'] (by decide) (by decide) judge_err (by decide)]
  decide

/-- the same document with an ordinary space: a configuration whose leading blank `update` drops -/
theorem sp_written :
    updateDocument ctrl docSp [runAB] = .updated docNbspOut2 [.malformed [.unmatched 0, .unexpected [0]]] := by
  rw [updateDocument_of_docTests _ _ _ _ docTests_sp,
    updateTests_one ctrl docSp utErr runAB ([97, 10], [98, 10]) (.malformed [.unmatched 0, .unexpected [0]])
      ['$', ' ', 'x', '\n', 'b', '\n'] (by decide) (by decide) judge_err (by decide)]
  decide

theorem sp_noStrayCR : NoStrayCR docSp := by decide
theorem sp_codes : ∀ r ∈ [runAB], 0 ≤ r.code ∧ r.code ≤ 255 := by decide

theorem sp_quantFree : QuantFree docSp [.malformed [.unmatched 0, .unexpected [0]]] := by
  intro tests ht j u d hu _
  rw [docTests_sp] at ht
  cases ht
  cases j with
  | zero =>
    simp at hu
    subst hu
    decide
  | succ k => simp at hu

/-! ## a passing document that is settled, one that is not -/

/-- `docNoLf` with its final line feed -/
def docLf : List Char := docNoLf ++ ['\n']

theorem docTests_lf : docTests docLf = some [utA] := by rfl

theorem allPass_lf : AllPass docLf [runA] :=
  allPass_one docLf utA runA ([97, 10], []) docTests_lf (by decide) judge_A

theorem settled_lf : Settled docLf := by decide

theorem noLf_not_settled : ¬ Settled docNoLf := by decide

end Scrut.UpdateRun.Witness
