import ScrutModel.Lemmas.GeneratePieces
import ScrutModel.Lemmas.Grammar
import ScrutModel.Lemmas.Newline
/-!
# C09: what `generate_expectation_line` writes reads back as an expectation that matches the line
-/
namespace Scrut.GenLemmas
open Scrut.Utf8 Scrut.Esc Scrut.EscF Scrut.Rules Scrut.EscLemmas Scrut.Gen
open Scrut.Grammar (Params Modifier parse makeRule lookupKind orEqual unicodeWhite endsLikeModifier)

/-- `Rule::matches` of the three string rules on the expression bytes an `Expectation` holds
(`EqualRule`, `EqualNoEolRule`, `EscapedRule`; see `Model/RulesStr.lean`) -/
def strRuleMatches (k : Grammar.Kind) (expr line : List UInt8) : Bool :=
  match k with
  | .equal => assureNewline expr == line
  | .noEol => expr == line
  | .escaped => escapedMatches expr line
  | _ => false

/-! ### lines -/

theorem isLine_cases {l : List UInt8} (h : Newline.IsLine l) :
    NoLF (trimNewlines l) ∧
    ((endsWithLF l = true ∧ l = trimNewlines l ++ [10]) ∨ (endsWithLF l = false ∧ l = trimNewlines l)) := by
  obtain ⟨hne, hlf⟩ := h
  rcases List.eq_nil_or_concat l with h0 | ⟨init, last, hcc⟩
  · exact absurd h0 hne
  · rw [List.concat_eq_append] at hcc
    subst hcc
    have hinit : NoLF init := by
      intro b hb hb10
      obtain ⟨i, hi, rfl⟩ := List.getElem_of_mem hb
      have hi' : i < (init ++ [last]).length := by simp; omega
      have := hlf i hi' (by
        rw [List.getElem_append_left hi]
        show init[i] = 10
        exact UInt8.toNat_inj.mp (by simpa using hb10))
      simp at this
      omega
    by_cases hlast : last = 10
    · subst hlast
      have ht : trimNewlines (init ++ [10]) = init := by
        rw [trimNewlines_append_lf, trimNewlines_noLF hinit]
      rw [ht]
      exact ⟨hinit, Or.inl ⟨by simp [endsWithLF], rfl⟩⟩
    · have hall : NoLF (init ++ [last]) := by
        intro b hb
        rcases List.mem_append.mp hb with h | h
        · exact hinit b h
        · have : b = last := by simpa using h
          subst this
          intro h10
          exact hlast (UInt8.toNat_inj.mp (by simpa using h10))
      rw [trimNewlines_noLF hall]
      refine ⟨hall, Or.inr ⟨?_, rfl⟩⟩
      simp [endsWithLF, hlast]

/-! ### `has_unprintable` decides which form the escaper writes -/

theorem utf8_printable {cs : List Char} (h : ∀ c ∈ cs, PrintableAscii c) :
    hasUnprintableAscii (utf8 cs) = false := by
  simp only [hasUnprintableAscii, List.any_eq_false, utf8, List.mem_flatMap]
  rintro b ⟨c, hc, hb⟩
  have hp := h c hc
  unfold PrintableAscii at hp
  have henc : String.utf8EncodeChar c = [UInt8.ofNat c.toNat] := by
    have := enc1 c.toNat (by omega)
    rwa [ofNat_toNat_char] at this
  rw [henc] at hb
  have : b = UInt8.ofNat c.toNat := by simpa using hb
  subst this
  simp [printableByte, tn c.toNat (by omega)]
  omega

theorem written_kind (m : Mode) (isOther : Char → Bool) (hC : m = .unicode → AsciiContract isOther)
    (bs : List UInt8) :
    (written m isOther bs).1 = if hasUnprintable m isOther bs then .escaped else .equal := by
  have key : ∀ b : Bool, lossyEq bs (escapedPrintable m isOther bs) = !b →
      (written m isOther bs).1 = if b then .escaped else .equal := by
    intro b hb
    cases b <;> simp [written, hb]
  apply key
  cases m with
  | ascii =>
    simp only [hasUnprintable, escapedPrintable]
    cases hu : hasUnprintableAscii bs with
    | false => simp [escapedPrintableAscii, hu, lossyEq_printable hu]
    | true =>
      simp only [Bool.not_true]
      cases hl : lossyEq bs (escapedPrintableAscii bs) with
      | false => rfl
      | true =>
        have := utf8_of_lossyEq hl
        have hp := utf8_printable (escapedPrintableAscii_printable bs)
        rw [this, hu] at hp
        cases hp
  | unicode =>
    have hC := hC rfl
    simp only [hasUnprintable, hasUnprintableUnicode, escapedPrintable, escapedPrintableUnicode, lossyEq]
    cases hd : utf8Decode bs with
    | none => simp
    | some cs =>
      simp only
      cases ha : cs.any isOther with
      | false => simp [renderText_of_no_other cs ha]
      | true =>
        simp only [Bool.not_true, beq_eq_false_iff_ne, ne_eq]
        intro heq
        have hno := renderText_not_other hC cs
        rw [← heq] at hno
        have : cs.any isOther = false := by
          simp only [List.any_eq_false]
          intro c hc
          simp [hno c hc]
        rw [ha] at this
        cases this

/-! ### small facts on the syntax tests -/

theorem extractExitCode_paren (t : List Char) : LineParser.extractExitCode (t ++ [')']) = none := by
  unfold LineParser.extractExitCode
  split
  · rename_i rest heq
    cases t with
    | nil => simp at heq
    | cons a r =>
      have hr : rest = r ++ [')'] := by
        have := (List.cons.inj heq).2
        exact this.symm
      subst hr
      simp
  · rfl

/-- the generator's test `is_exit_code` is the parser's `EXIT_CODE_EXPRESSION.is_match` -/
theorem isExitCodeShaped_eq_form (t : List Char) : isExitCodeShaped t = LineParser.isExitCodeForm t := rfl

theorem isExitCodeForm_paren (t : List Char) : LineParser.isExitCodeForm (t ++ [')']) = false := by
  unfold LineParser.isExitCodeForm
  split
  · rename_i rest heq
    cases t with
    | nil => simp at heq
    | cons a r =>
      have hr : rest = r ++ [')'] := by
        have := (List.cons.inj heq).2
        exact this.symm
      subst hr
      simp
  · rfl

theorem extractExitCode_of_not_shaped {t : List Char} (h : isExitCodeShaped t = false) :
    LineParser.extractExitCode t = none := by
  unfold isExitCodeShaped at h
  unfold LineParser.extractExitCode
  split
  · rename_i rest
    simp only at h
    split
    · rename_i revDigits hrev
      simp only [hrev] at h
      simp only [h]
      simp
    · rfl
  · rfl

theorem commandLead_backslash (r : List Char) : commandLead ('\\' :: r) = none := by
  unfold commandLead
  split
  · rename_i c r' heq
    have : c = '\\' := ((List.cons.inj heq).1).symm
    subst this
    simp
  · rfl

theorem commandLead_some {t : List Char} {c : Char} (h : commandLead t = some c) :
    (c = '$' ∨ c = '>') ∧ ∃ r, t = c :: ' ' :: r := by
  unfold commandLead at h
  split at h
  · rename_i c0 r
    split at h
    · rename_i hc
      have : c0 = c := by simpa using h
      subst this
      exact ⟨hc, r, rfl⟩
    · cases h
  · cases h

theorem commandLead_none_strip {t : List Char} (h : commandLead t = none) :
    LineParser.stripPrefix ['$', ' '] t = none ∧ LineParser.stripPrefix ['>', ' '] t = none := by
  unfold commandLead at h
  split at h
  · rename_i c r
    split at h
    · cases h
    · rename_i hc
      have h1 : c ≠ '$' := fun e => hc (Or.inl e)
      have h2 : c ≠ '>' := fun e => hc (Or.inr e)
      simp [LineParser.stripPrefix, Ne.symm h1, Ne.symm h2]
  · rename_i hne
    constructor
    all_goals
      match t, hne with
      | [], _ => rfl
      | [a], _ => simp [LineParser.stripPrefix]
      | a :: b :: r, hne =>
        have hb : b ≠ ' ' := fun e => hne a r (by rw [e])
        simp [LineParser.stripPrefix, Ne.symm hb]

theorem not_mem_nl_of_utf8 {w : List Char} {bs : List UInt8} (h : utf8 w = bs) (hlf : NoLF bs) : '\n' ∉ w := by
  intro hm
  have := mem_utf8 hm 10 (by rw [utf8EncodeChar_lf]; simp)
  rw [h] at this
  exact hlf 10 this (by decide)

/-! ### the last step: ` (no-eol) (escaped)` -/

theorem isSuffixOf_append_right (s w mk : List Char) : (s ++ mk).isSuffixOf (w ++ mk) = s.isSuffixOf w := by
  rw [Bool.eq_iff_iff]
  simp only [List.isSuffixOf_iff_suffix]
  constructor
  · rintro ⟨t, ht⟩
    refine ⟨t, ?_⟩
    have : (t ++ s) ++ mk = w ++ mk := by simpa using ht
    exact List.append_cancel_right this
  · rintro ⟨t, ht⟩
    exact ⟨t, by simp [← ht]⟩

theorem guardNoEol_of_not {t : List Char} (h : (noEolMod ++ escapedMod).isSuffixOf t = false) :
    guardNoEol t = t := by
  simp [guardNoEol, stripSuffix?, h]

theorem guardNoEol_marker_of_not {w : List Char} (h : noEolMod.isSuffixOf w = false) :
    guardNoEol (w ++ escapedMod) = w ++ escapedMod :=
  guardNoEol_of_not (by rw [isSuffixOf_append_right]; exact h)

theorem guardNoEol_marker (body : List Char) :
    guardNoEol (body ++ noEolMod ++ escapedMod) = body ++ x20NoEol ++ escapedMod := by
  have hs : (noEolMod ++ escapedMod).isSuffixOf (body ++ noEolMod ++ escapedMod) = true := by
    rw [isSuffixOf_append_right]
    simp [List.isSuffixOf_iff_suffix]
  have ht : (body ++ noEolMod ++ escapedMod).take
      ((body ++ noEolMod ++ escapedMod).length - (noEolMod ++ escapedMod).length) = body := by
    rw [List.append_assoc]
    apply List.take_left'
    simp
  simp only [guardNoEol, stripSuffix?, hs, if_true, ht]

theorem suffix_cases (w : List Char) :
    noEolMod.isSuffixOf w = false ∨ ∃ body, w = body ++ noEolMod := by
  cases h : noEolMod.isSuffixOf w with
  | false => exact Or.inl rfl
  | true =>
    obtain ⟨t, ht⟩ := List.isSuffixOf_iff_suffix.mp h
    exact Or.inr ⟨t, ht.symm⟩

theorem endsWithNoEol_x20 (body : List Char) : endsWithNoEol (body ++ x20NoEol) = false := by
  simp [endsWithNoEol, List.isSuffixOf, Rules.noEolSuffix, x20NoEol, List.isPrefixOf]

theorem not_suffix_noEol (e : List Char) :
    (noEolMod ++ escapedMod).isSuffixOf (e ++ noEolMod) = false := by
  simp [List.isSuffixOf, noEolMod, escapedMod, marker, List.isPrefixOf]

theorem not_suffix_equal (e : List Char) :
    (noEolMod ++ escapedMod).isSuffixOf (e ++ equalMod) = false := by
  simp [List.isSuffixOf, noEolMod, escapedMod, equalMod, marker, List.isPrefixOf]

theorem marker_eq : escapedMod =
    [' ', '('] ++ Grammar.Kind.escaped.name ++ Grammar.quantStr false false ++ [')'] := by decide

theorem endsLike_of_suffix {e : List Char} (h : (noEolMod ++ escapedMod).isSuffixOf e = true) :
    endsLikeModifier unicodeWhite e = true := by
  obtain ⟨t, ht⟩ := List.isSuffixOf_iff_suffix.mp h
  have hm := Grammar.render_kind_modifier (W := unicodeWhite) (by decide) (t ++ noEolMod) .escaped false false
  have he : e = t ++ noEolMod ++ [' ', '('] ++ Grammar.Kind.escaped.name ++ Grammar.quantStr false false ++ [')'] := by
    rw [← ht, marker_eq]; simp
  rw [he]
  exact Grammar.endsLike_of_modifier (fun _ h => h) hm

/-! ### reading a generated line back -/

/-- the two parameters of the grammar model that matter here, as the real code has them:
`\s` is Unicode white space, and the `escaped` constructor (after the ` (no-eol)` strip, which
`Grammar.makeRule` does itself) is `apply_escaped_filter_bytes` -/
structure StdParams (P : Params) : Prop where
  white : ∀ c, P.isWhite c = unicodeWhite c
  escaped : ∀ e, P.make .escaped e = decode e

/-- the parameters as the real code has them; the constructors of the pattern kinds (`glob`,
`regex`) and the renderer's escaper stay arbitrary: no generated line uses them -/
def stdParams (mkGlob mkRegex : List Char → Option (List UInt8)) : Params :=
  { isWhite := unicodeWhite
    make := fun k e => match k with
      | .escaped => decode e
      | .glob => mkGlob e
      | .regex => mkRegex e
      | _ => none
    escPrintable := fun _ => []
    hasUnprintable := fun _ => false
    isSpaceStd := unicodeWhite }

theorem stdParams_std (mkGlob mkRegex : List Char → Option (List UInt8)) :
    StdParams (stdParams mkGlob mkRegex) := ⟨fun _ => rfl, fun _ => rfl⟩

/-- what C09 asks of the text `t` written for the output line `l`: it is one line, it is read as
an expectation (neither `$ `/`> ` nor an exit code), and it parses to an unquantified `equal`,
`no-eol` or `escaped` expectation whose rule matches `l` -/
structure LineOK (P : Params) (l : List UInt8) (t : List Char) : Prop where
  no_nl : '\n' ∉ t
  no_lead : commandLead t = none
  /-- not of the form `^\[[0-9]+\]$`: neither an exit code nor the error `exitCodeOutOfRange` -/
  no_exit : LineParser.isExitCodeForm t = false
  /-- `str::lines()` would drop a final carriage return -/
  no_cr : t.getLast? ≠ some '\r'
  parses : ∃ e, parse P t = .ok e ∧ e.optional = false ∧ e.multiline = false ∧
      (e.kind = .equal ∨ e.kind = .noEol ∨ e.kind = .escaped) ∧ strRuleMatches e.kind e.expr l = true

/-- ` (<kind>)` -/
def kindMod (k : Grammar.Kind) : List Char := [' ', '('] ++ k.name ++ [')']

theorem noEolMod_eq : noEolMod = kindMod .noEol := by decide
theorem equalMod_eq : equalMod = kindMod .equal := by decide
theorem escapedMod_eq : escapedMod = kindMod .escaped := by decide

theorem kindMod_no_nl (k : Grammar.Kind) : '\n' ∉ kindMod k := by cases k <;> decide

/-- text followed by ` (<kind>)`: one line, no exit code, parsed as that kind made from the text -/
theorem kindMod_line {P : Params} (hP : StdParams P) (p : List Char) (k : Grammar.Kind) (hnl : '\n' ∉ p) :
    '\n' ∉ p ++ kindMod k ∧ LineParser.isExitCodeForm (p ++ kindMod k) = false ∧
    parse P (p ++ kindMod k) = match makeRule P k p with
      | none => .error .makeError
      | some b => .ok ⟨k, b, false, false⟩ := by
  have hnl' : '\n' ∉ p ++ kindMod k := by
    intro h
    rcases List.mem_append.mp h with h | h
    · exact hnl h
    · exact kindMod_no_nl k h
  refine ⟨hnl', ?_, ?_⟩
  · have : p ++ kindMod k = (p ++ [' ', '('] ++ k.name) ++ [')'] := by simp [kindMod]
    rw [this]
    exact isExitCodeForm_paren _
  · have hw : P.isWhite ' ' = true := by rw [hP.white]; decide
    have hm := Grammar.render_kind_modifier (W := P.isWhite) hw p k false false
    have he : p ++ [' ', '('] ++ k.name ++ Grammar.quantStr false false ++ [')'] = p ++ kindMod k := by
      simp [kindMod, Grammar.quantStr, Grammar.quantOpt]
    rw [he] at hm
    have hk : lookupKind (orEqual k.name) = some k := by cases k <;> decide
    rw [Grammar.parse_of_modifier hnl' hm hk]
    cases makeRule P k p <;> simp [Grammar.quantOpt]

theorem getLast_kindMod (p : List Char) (k : Grammar.Kind) : (p ++ kindMod k).getLast? = some ')' := by
  have : p ++ kindMod k = (p ++ [' ', '('] ++ k.name) ++ [')'] := by simp [kindMod]
  rw [this, List.getLast?_append]
  simp

theorem no_cr_kindMod (p : List Char) (k : Grammar.Kind) : (p ++ kindMod k).getLast? ≠ some '\r' := by
  rw [getLast_kindMod]; decide

/-- a line the escaper leaves as it is holds no carriage return -/
theorem no_cr_of_printable {m : Mode} {isOther : Char → Bool} (hC : m = .unicode → AsciiContract isOther)
    {c : List UInt8} {w : List Char} (hu : hasUnprintable m isOther c = false) (hw : utf8 w = c) :
    '\r' ∉ w := by
  intro hm
  cases m with
  | ascii =>
    have h13 : (13 : UInt8) ∈ c := by
      rw [← hw]
      exact mem_utf8 hm 13 (by decide)
    simp only [hasUnprintable, hasUnprintableAscii, List.any_eq_false] at hu
    have := hu 13 h13
    simp [printableByte] at this
  | unicode =>
    have hd : utf8Decode c = some w := by rw [← hw]; exact utf8Decode_utf8 w
    simp only [hasUnprintable, hasUnprintableUnicode, hd, List.any_eq_false] at hu
    have h1 := hu '\r' hm
    have h2 := (hC rfl '\r' (by decide)).mpr (Or.inl (by decide))
    rw [h2] at h1
    exact absurd rfl h1

theorem white_sub {P : Params} (hP : StdParams P) : ∀ c, P.isWhite c = true → unicodeWhite c = true := by
  intro c h; rwa [hP.white] at h

/-- the text of a printable line, written as it is -/
theorem plain_ok {P : Params} (hP : StdParams P) {l c : List UInt8} {e : List Char}
    (hu : utf8 e = c) (hlf : NoLF c) (hl : l = c ++ [10])
    (hlooks : looksLikeModifierOrExitCode e = false) (hlead : commandLead e = none)
    (hcr : '\r' ∉ e) : LineOK P l e := by
  have hnl := not_mem_nl_of_utf8 hu hlf
  simp only [looksLikeModifierOrExitCode, Bool.or_eq_false_iff] at hlooks
  refine ⟨hnl, hlead, hlooks.1, fun h => hcr (List.mem_of_getLast? h), ?_⟩
  have hno := Grammar.not_modifier_of_not_endsLike (W := P.isWhite) (white_sub hP) hlooks.2
  refine ⟨_, Grammar.parse_of_no_modifier hnl hno, rfl, rfl, Or.inl rfl, ?_⟩
  show equalMatches e l = true
  rw [equal_iff' e l (by rw [hu]; exact hlf.getLast), hu, hl]

/-- … with ` (equal)` -/
theorem equal_ok {P : Params} (hP : StdParams P) {l c : List UInt8} {e : List Char}
    (hu : utf8 e = c) (hlf : NoLF c) (hl : l = c ++ [10])
    (hlead : commandLead (e ++ equalMod) = none) : LineOK P l (e ++ equalMod) := by
  have hnl := not_mem_nl_of_utf8 hu hlf
  rw [equalMod_eq] at hlead ⊢
  obtain ⟨h1, h2, h3⟩ := kindMod_line hP e .equal hnl
  refine ⟨h1, hlead, h2, no_cr_kindMod e .equal, _, h3, rfl, rfl, Or.inl rfl, ?_⟩
  show equalMatches e l = true
  rw [equal_iff' e l (by rw [hu]; exact hlf.getLast), hu, hl]

/-- … with ` (no-eol)` when the line has no line feed -/
theorem noEol_ok {P : Params} (hP : StdParams P) {l c : List UInt8} {e : List Char}
    (hu : utf8 e = c) (hlf : NoLF c) (hl : l = c)
    (hlead : commandLead (e ++ noEolMod) = none) : LineOK P l (e ++ noEolMod) := by
  have hnl := not_mem_nl_of_utf8 hu hlf
  rw [noEolMod_eq] at hlead ⊢
  obtain ⟨h1, h2, h3⟩ := kindMod_line hP e .noEol hnl
  refine ⟨h1, hlead, h2, no_cr_kindMod e .noEol, _, h3, rfl, rfl, Or.inr (Or.inl rfl), ?_⟩
  show noEolMatches e l = true
  rw [noeol_iff, hu, hl]

/-- a token text for the content of the line, followed by ` (escaped)` -/
theorem escaped_core {P : Params} (hP : StdParams P) {l c : List UInt8} {w : List Char}
    (htok : Tok w c) (hne : endsWithNoEol w = false) (hnl : '\n' ∉ w) (hc : trimNewlines l = c)
    (hlead : commandLead (w ++ escapedMod) = none) : LineOK P l (w ++ escapedMod) := by
  rw [escapedMod_eq] at hlead ⊢
  obtain ⟨h1, h2, h3⟩ := kindMod_line hP w .escaped hnl
  have hs : Grammar.stripNoEol w = w := by
    unfold Grammar.stripNoEol
    split
    · rename_i body hb
      have hw := Grammar.stripSuffix_eq_some.mp hb
      have : endsWithNoEol w = true := by
        rw [hw]
        simp [endsWithNoEol, List.isSuffixOf_iff_suffix, Rules.noEolSuffix, Grammar.noEolSuffix]
      rw [hne] at this
      cases this
    · rfl
  have hmk : makeRule P .escaped w = some c := by
    show P.make .escaped (Grammar.stripNoEol w) = some c
    rw [hs, hP.escaped]
    exact htok.decode_eq
  rw [hmk] at h3
  refine ⟨h1, hlead, h2, no_cr_kindMod w .escaped, _, h3, rfl, rfl, Or.inr (Or.inr rfl), ?_⟩
  show escapedMatches c l = true
  simp [escapedMatches, hc]

theorem commandLead_two (a b : Char) (x y : List Char) :
    commandLead (a :: b :: x) = commandLead (a :: b :: y) := by
  by_cases hb : b = ' '
  · subst hb; simp [commandLead]
  · have : ∀ z, commandLead (a :: b :: z) = none := by
      intro z
      unfold commandLead
      split
      · rename_i c r heq
        have := (List.cons.inj (List.cons.inj heq).2).1
        exact absurd this hb
      · rfl
    rw [this x, this y]

theorem commandLead_x20 (body r : List Char) (h : commandLead (body ++ noEolMod ++ r) = none) :
    commandLead (body ++ x20NoEol ++ r) = none := by
  match body with
  | [] => exact commandLead_backslash _
  | [a] =>
    cases hc : commandLead ([a] ++ x20NoEol ++ r) with
    | none => rfl
    | some ch =>
      obtain ⟨_, r', hr'⟩ := commandLead_some hc
      simp [x20NoEol] at hr'
  | a :: b :: rest =>
    simp only [List.cons_append] at h ⊢
    rw [commandLead_two a b _ (rest ++ noEolMod ++ r)]
    exact h

/-- the last step applied to a piece sequence followed by ` (escaped)` -/
theorem escaped_final {P : Params} (hP : StdParams P) {l c : List UInt8} {w : List Char}
    (hrep : Rep w c) (hc : trimNewlines l = c) (hlead : commandLead (w ++ escapedMod) = none) :
    LineOK P l (guardNoEol (w ++ escapedMod)) := by
  rcases suffix_cases w with hno | ⟨body, rfl⟩
  · rw [guardNoEol_marker_of_not hno]
    exact escaped_core hP hrep.tok hno hrep.no_nl hc hlead
  · rw [guardNoEol_marker]
    have htok : Tok (body ++ x20NoEol) c := by
      have := Rep.replace_space (body := body) (s0 := ['(', 'n', 'o', '-', 'e', 'o', 'l', ')']) (bs := c)
        (by simpa [noEolMod] using hrep)
      simpa [x20NoEol] using this
    have hnl : '\n' ∉ body ++ x20NoEol := by
      have h0 := hrep.no_nl
      intro h
      rcases List.mem_append.mp h with h | h
      · exact h0 (List.mem_append_left _ h)
      · revert h; decide
    exact escaped_core hP htok (endsWithNoEol_x20 body) hnl hc (commandLead_x20 body escapedMod hlead)

/-! ### `generate_expectation_line` -/

theorem hexEscapePiece {ch : Char} (h : ch = '$' ∨ ch = '>') :
    PieceOK (hexEscape ch) (String.utf8EncodeChar ch) := by
  rcases h with rfl | rfl
  · have e1 : hexEscape '$' = ['\\', 'x', '2', '4'] := by decide
    have e2 : String.utf8EncodeChar '$' = [36] := by decide
    rw [e1, e2]
    refine ⟨?_, by simp, by decide, by decide, ?_⟩
    · have := Tok.hex (h1 := '2') (h2 := '4') (a := 2) (b := 4) (by decide) (by decide)
      simpa using this
    · intro c r he hc
      exact absurd ((List.cons.inj he).1).symm hc
  · have e1 : hexEscape '>' = ['\\', 'x', '3', 'e'] := by decide
    have e2 : String.utf8EncodeChar '>' = [62] := by decide
    rw [e1, e2]
    refine ⟨?_, by simp, by decide, by decide, ?_⟩
    · have := Tok.hex (h1 := '3') (h2 := 'e') (a := 3) (b := 14) (by decide) (by decide)
      simpa using this
    · intro c r he hc
      exact absurd ((List.cons.inj he).1).symm hc

theorem hexEscape_cons (ch : Char) : ∃ r, hexEscape ch = '\\' :: r := ⟨_, rfl⟩

theorem lead_ne_backslash {ch : Char} (h : ch = '$' ∨ ch = '>') : ch ≠ '\\' := by
  rcases h with rfl | rfl <;> decide

/-- the first-character escape of an escaped line -/
theorem lead_escaped {P : Params} (hP : StdParams P) {l c : List UInt8} {w : List Char} {ch : Char}
    (hrep : Rep w c) (hc : trimNewlines l = c) (hcl : commandLead (w ++ escapedMod) = some ch) :
    LineOK P l (guardNoEol (hexEscape ch ++ (w ++ escapedMod).drop 1)) := by
  obtain ⟨hch, r, hr⟩ := commandLead_some hcl
  cases w with
  | nil =>
    have : ch = ' ' := by
      have := congrArg List.head? hr
      simpa [escapedMod, marker] using this.symm
    subst this
    rcases hch with h | h <;> cases h
  | cons a w1 =>
    have ha : a = ch := by
      have := congrArg List.head? hr
      simpa using this
    subst ha
    obtain ⟨b, bs', hbs, htk, hrep1⟩ := Rep.head hrep (lead_ne_backslash hch)
    have hb : b = String.utf8EncodeChar a := Tok.unique htk (Tok.char (lead_ne_backslash hch))
    have hrep' : Rep (hexEscape a ++ w1) c := by
      rw [hbs, hb]
      exact Rep.append (Rep.single (hexEscapePiece hch)) hrep1
    have heq : hexEscape a ++ ((a :: w1) ++ escapedMod).drop 1 = (hexEscape a ++ w1) ++ escapedMod := by simp
    rw [heq]
    refine escaped_final hP hrep' hc ?_
    obtain ⟨r', hr'⟩ := hexEscape_cons a
    rw [hr']
    exact commandLead_backslash _

/-- the first-character escape of a printable line -/
theorem lead_plain {P : Params} (hP : StdParams P) {l c : List UInt8} {w1 : List Char} {ch : Char}
    (hch : ch = '$' ∨ ch = '>') (hu : utf8 (ch :: w1) = c) (hlf : NoLF c) (hc : trimNewlines l = c) :
    LineOK P l (guardNoEol (hexEscape ch ++ Grammar.doubleBackslash w1 ++ escapedMod)) := by
  have hsplit : c = String.utf8EncodeChar ch ++ utf8 w1 := by rw [← hu]; simp [utf8]
  have hlf1 : NoLF (utf8 w1) := by
    intro b hb
    exact hlf b (by rw [hsplit]; exact List.mem_append_right _ hb)
  have hrep' : Rep (hexEscape ch ++ Grammar.doubleBackslash w1) c := by
    rw [hsplit]
    exact Rep.append (Rep.single (hexEscapePiece hch)) (rep_doubleBackslash w1 hlf1)
  refine escaped_final hP hrep' hc ?_
  obtain ⟨r', hr'⟩ := hexEscape_cons ch
  rw [hr']
  exact commandLead_backslash _

theorem commandLead_mods : commandLead noEolMod = none ∧ commandLead equalMod = none ∧
    commandLead ([] : List Char) = none := by decide

theorem escapedExpectation_of (m : Mode) (isOther : Char → Bool) {c : List UInt8} (hlf : NoLF c) :
    escapedExpectation m isOther c =
      if (written m isOther c).1 = .equal then (written m isOther c).2
      else guardTailingNoEol (written m isOther c).2 ++ marker := by
  unfold escapedExpectation
  rw [trimNewlines_noLF hlf]
  split <;> rename_i e he <;> simp [he]

/-- **the line theorem**: for every line of output, in both modes, `generate_expectation_line`
does not panic and writes a text that reads back as an expectation matching that line -/
theorem line_ok {P : Params} (hP : StdParams P) (m : Mode) (isOther : Char → Bool)
    (hC : m = .unicode → AsciiContract isOther) {l : List UInt8} (hl : Newline.IsLine l) :
    ∃ t, expectationLine m isOther l = some t ∧ LineOK P l t := by
  obtain ⟨hlf, hcase⟩ := isLine_cases hl
  generalize hc : trimNewlines l = c at hlf hcase
  have hee := escapedExpectation_of m isOther hlf
  have hk := written_kind m isOther hC c
  cases hu : hasUnprintable m isOther c with
  | true =>
    rw [hu] at hk
    simp only [if_true] at hk
    have hrep := (written_rep m isOther hC c hlf hk).guard_rep
    rw [hk] at hee
    simp only [reduceCtorEq, if_false] at hee
    generalize guardTailingNoEol (written m isOther c).2 = w at hee hrep
    have hbody : expectationBody m isOther l = w ++ escapedMod := by
      simp only [expectationBody, hc, hu, if_true, hee]; rfl
    cases hcl : commandLead (w ++ escapedMod) with
    | none =>
      refine ⟨guardNoEol (w ++ escapedMod), ?_, escaped_final hP hrep hc hcl⟩
      simp [expectationLine, escapeLead, hbody, hcl]
    | some ch =>
      refine ⟨_, ?_, lead_escaped hP hrep hc hcl⟩
      simp [expectationLine, escapeLead, hbody, hcl, hc, hu]
  | false =>
    rw [hu] at hk
    simp only [Bool.false_eq_true, if_false] at hk
    rw [hk] at hee
    simp only [if_true] at hee
    have hu8 : utf8 (written m isOther c).2 = c := by
      rcases written_cases m isOther hC c hlf with ⟨_, h⟩ | ⟨h, _⟩
      · exact h
      · rw [hk] at h; cases h
    generalize (written m isOther c).2 = w at hee hu8
    have he0 : escapedExpectation m isOther c = w := hee
    have hdec : utf8Decode c = some w := by rw [← hu8]; exact utf8Decode_utf8 w
    -- the body is the text followed by one of three suffixes
    have hbody : ∃ sfx, expectationBody m isOther l = w ++ sfx ∧
        ((sfx = noEolMod ∧ l = c) ∨ (sfx = equalMod ∧ l = c ++ [10]) ∨
         (sfx = [] ∧ l = c ++ [10] ∧ looksLikeModifierOrExitCode w = false)) := by
      rcases hcase with ⟨hlf1, hl1⟩ | ⟨hlf0, hl0⟩
      · rcases Bool.eq_false_or_eq_true (looksLikeModifierOrExitCode w) with hlk | hlk
        · exact ⟨equalMod, by simp [expectationBody, hc, hu, he0, hlf1, hlk], Or.inr (Or.inl ⟨rfl, hl1⟩)⟩
        · exact ⟨[], by simp [expectationBody, hc, hu, he0, hlf1, hlk], Or.inr (Or.inr ⟨rfl, hl1, hlk⟩)⟩
      · exact ⟨noEolMod, by simp [expectationBody, hc, hu, he0, hlf0], Or.inl ⟨rfl, hl0⟩⟩
    obtain ⟨sfx, hb, hsfx⟩ := hbody
    cases hcl : commandLead (w ++ sfx) with
    | none =>
      have hline : escapeLead m isOther l = some (w ++ sfx) := by
        simp [escapeLead, hb, hcl]
      rcases hsfx with ⟨rfl, hl0⟩ | ⟨rfl, hl1⟩ | ⟨rfl, hl1, hlk⟩
      · refine ⟨w ++ noEolMod, ?_, noEol_ok hP hu8 hlf hl0 hcl⟩
        simp [expectationLine, hline, guardNoEol_of_not (not_suffix_noEol w)]
      · refine ⟨w ++ equalMod, ?_, equal_ok hP hu8 hlf hl1 hcl⟩
        simp [expectationLine, hline, guardNoEol_of_not (not_suffix_equal w)]
      · have hns : (noEolMod ++ escapedMod).isSuffixOf w = false := by
          cases hs : (noEolMod ++ escapedMod).isSuffixOf w with
          | false => rfl
          | true =>
            have := endsLike_of_suffix hs
            simp [looksLikeModifierOrExitCode, this] at hlk
        rw [List.append_nil] at hcl hline
        refine ⟨w, ?_, plain_ok hP hu8 hlf hl1 hlk hcl (no_cr_of_printable hC hu hu8)⟩
        simp [expectationLine, hline, guardNoEol_of_not hns]
    | some ch =>
      obtain ⟨hch, r, hr⟩ := commandLead_some hcl
      cases w with
      | nil =>
        exfalso
        have h0 := commandLead_mods
        rcases hsfx with ⟨rfl, _⟩ | ⟨rfl, _⟩ | ⟨rfl, _⟩
        · rw [List.nil_append, h0.1] at hcl; cases hcl
        · rw [List.nil_append, h0.2.1] at hcl; cases hcl
        · rw [List.nil_append, h0.2.2] at hcl; cases hcl
      | cons a w1 =>
        have ha : a = ch := by
          have := congrArg List.head? hr
          simpa using this
        subst ha
        have hcl' : commandLead (a :: (w1 ++ sfx)) = some a := by simpa using hcl
        refine ⟨_, ?_, lead_plain (w1 := w1) hP hch hu8 hlf hc⟩
        simp [expectationLine, escapeLead, hb, hcl', hc, hu, hdec]

/-! ### how the line parser classifies a generated line -/

/-- below a command, a text that does not start like a command, has not the form of an exit code
line (`^\[[0-9]+\]$`: in range an exit code, out of range an error) and parses as an
expectation is added to the expectations of the test, whatever the parser's mode and state -/
theorem addBody_expectation {κ : Type} (expOk : List Char → Bool) (s : LineParser.State κ)
    (t : List Char) (idx : Nat) (hcmd : s.command.isEmpty = false) (hlead : commandLead t = none)
    (hexit : LineParser.isExitCodeForm t = false) (hok : expOk t = true) :
    s.addBody expOk t idx =
      .ok ({ s with inCommand := false, expectations := s.expectations ++ [t] }, .expectation) := by
  obtain ⟨h1, h2⟩ := commandLead_none_strip hlead
  have hA : (if (s.allowMultipleCommands || s.command.isEmpty) = true then LineParser.stripPrefix ['$', ' '] t
      else none) = none := by split <;> simp [h1]
  have hB : (if s.inCommand = true then LineParser.stripPrefix ['>', ' '] t else none) = none := by
    split <;> simp [h2]
  unfold LineParser.State.addBody
  rw [hA]
  simp only []
  unfold LineParser.State.addBodyRest
  rw [hB]
  simp [hcmd, LineParser.extractExitCode_of_not_form hexit,
    LineParser.exitCodeOverflows_of_not_form hexit, hok]

end Scrut.GenLemmas
