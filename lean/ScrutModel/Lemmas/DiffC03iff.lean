import ScrutModel.Lemmas.DiffC03

namespace Scrut.Diff

variable (n m : Nat) (es : Nat → Exp) (mt : Nat → Nat → Bool)

/-- In a sorted list, a value strictly between the element before position `j` and the element at
    position `j` does not occur. -/
theorem sorted_gap {a : List Nat} (hs : a.Pairwise (· ≤ ·)) {j t : Nat} (hjl : j ≤ a.length)
    (hlo : ∀ (h : 0 < j) (h' : j - 1 < a.length), a[j-1] < t)
    (hhi : ∀ (h' : j < a.length), t < a[j]) : t ∉ a := by
  intro hmem
  obtain ⟨p, hp, rfl⟩ := List.getElem_of_mem hmem
  by_cases hpj : p < j
  · have h0 : 0 < j := by omega
    have hj1 : j - 1 < a.length := by omega
    have := hlo h0 hj1
    have hle : a[p] ≤ a[j-1] := by
      by_cases he : p = j - 1
      · subst he; exact Nat.le_refl _
      · exact List.pairwise_iff_getElem.1 hs p (j-1) hp hj1 (by omega)
    omega
  · have hj : j < a.length := by omega
    have := hhi hj
    have hle : a[j] ≤ a[p] := by
      by_cases he : p = j
      · subst he; exact Nat.le_refl _
      · exact List.pairwise_iff_getElem.1 hs j p hj hp (by omega)
    omega

theorem two_le_count (a : List Nat) (i j : Nat) (hij : i < j) (hj : j < a.length) (v : Nat)
    (h1 : a[i] = v) (h2 : a[j] = v) : 2 ≤ a.count v := by
  have c1 : 0 < (a.take j).count v := by
    apply List.count_pos_iff.2
    have hi : i < (a.take j).length := by simp; omega
    have : (a.take j)[i] = v := by simp [h1]
    rw [← this]; exact List.getElem_mem hi
  have c2 : 0 < (a.drop j).count v := by
    apply List.count_pos_iff.2
    rw [List.drop_eq_getElem_cons hj, h2]; simp
  have : a.count v = (a.take j).count v + (a.drop j).count v := by
    rw [← List.count_append, List.take_append_drop]
  omega

/-- configuration reached after the first `j` lines of an assignment -/
def cfgI (a : List Nat) (j : Nat) : Nat := if h : 0 < j ∧ j - 1 < a.length then nextI es a[j-1] else 0
def cfgO (a : List Nat) (j : Nat) : Bool := if h : 0 < j ∧ j - 1 < a.length then nextO es a[j-1] else false

theorem assignment_nacc {a : List Nat} (ha : Assignment n m es mt a) :
    ∀ d j, j + d = m → NAcc n m es mt (cfgI es a j) (cfgO es a j) j := by
  obtain ⟨htot, hsort, hrange, hmatch, hleast, hmost⟩ := ha
  -- every expectation strictly inside a gap of the assignment is optional
  have gap_opt : ∀ j t, j ≤ a.length → t < n → (∀ (h : 0 < j) (h' : j - 1 < a.length), a[j-1] < t) →
      (∀ (h' : j < a.length), t < a[j]) → (es t).optional = true := by
    intro j t hjl ht hlo hhi
    by_cases ho : (es t).optional = true
    · exact ho
    · exfalso
      exact sorted_gap hsort hjl hlo hhi (hleast t ht (by simpa using ho))
  intro d
  induction d with
  | zero =>
    intro j hj
    have hjm : j = m := by omega
    subst hjm
    apply NAcc.done
    intro t ht1 ht2
    apply gap_opt j t (by omega) ht2
    · intro h0 h1
      simp only [cfgI, cfgO, h0, h1, and_self, dite_true] at ht1
      unfold nextI nextO at ht1
      generalize a[j-1] = v at ht1 ⊢
      by_cases hmul : (es v).multiline = true
      · simp only [hmul, if_true] at ht1; exact Nat.lt_of_succ_le ht1
      · have hmul' : (es v).multiline = false := by simpa using hmul
        simp only [hmul', Bool.false_eq_true, if_false] at ht1; exact Nat.lt_of_succ_le ht1
    · intro h'; omega
  | succ d ih =>
    intro j hj
    have hjm : j < m := by omega
    have hja : j < a.length := by omega
    have hnext := ih (j+1) (by omega)
    have hcI : cfgI es a (j+1) = nextI es a[j] := by simp [cfgI, hja]
    have hcO : cfgO es a (j+1) = nextO es a[j] := by simp [cfgO, hja]
    rw [hcI, hcO] at hnext
    refine NAcc.step hjm ?_ (hmatch j hja) hnext
    -- a[j] is a candidate in the configuration after j lines
    have hkn : a[j] < n := hrange _ (List.getElem_mem hja)
    by_cases h0 : 0 < j
    · have h1 : j - 1 < a.length := by omega
      have hle : a[j-1] ≤ a[j] := List.pairwise_iff_getElem.1 hsort (j-1) j h1 hja (by omega)
      simp only [cfgI, cfgO, h0, h1, and_self, dite_true]
      unfold nextI nextO Cand
      by_cases hmul : (es a[j-1]).multiline = true
      · simp only [hmul, if_true]
        by_cases heq : a[j] = a[j-1]
        · left; exact heq
        · right
          refine ⟨by omega, hkn, fun t ht1 ht2 => ?_⟩
          exact gap_opt j t (by omega) (by omega) (fun _ _ => by omega) (fun _ => ht2)
      · have hmul' : (es a[j-1]).multiline = false := by simpa using hmul
        simp only [hmul', Bool.false_eq_true, if_false]
        have hne : a[j] ≠ a[j-1] := by
          intro heq
          have hc := hmost a[j-1] (hrange _ (List.getElem_mem h1)) hmul'
          have := two_le_count a (j-1) j (by omega) hja a[j-1] rfl heq
          omega
        refine ⟨by omega, hkn, fun t ht1 ht2 => ?_⟩
        exact gap_opt j t (by omega) (by omega) (fun _ _ => by omega) (fun _ => ht2)
    · have hj0 : j = 0 := by omega
      subst hj0
      simp only [cfgI, cfgO, Nat.lt_irrefl, false_and, dite_false]
      unfold Cand
      simp only [Bool.false_eq_true, if_false]
      refine ⟨Nat.zero_le _, hkn, fun t _ ht2 => ?_⟩
      exact gap_opt 0 t (by omega) (by omega) (fun h _ => by omega) (fun _ => ht2)

/-- **C03** as an iff over the same notion of "described by the expectations" as C01. -/
theorem C03_iff (hdet : Det n m es mt 0 false 0) :
    hasDiff (diff n m es mt) = false ↔ ∃ a, Assignment n m es mt a := by
  constructor
  · exact C01_no_false_pass n m es mt
  · rintro ⟨a, ha⟩
    have := assignment_nacc n m es mt ha m 0 (by omega)
    simp [cfgI, cfgO] at this
    exact C03_complete n m es mt this hdet

end Scrut.Diff
