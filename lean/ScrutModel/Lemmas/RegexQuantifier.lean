import ScrutModel.Lemmas.RegexCleanup
/-! The clean-up passes and braces, for all inputs: a valid repetition quantifier `{n}`, `{n,m}`,
`{n,}` in a context of simple characters reaches the compiler exactly as written, every other
`{…}` gets both braces escaped. Both statements are compositional: what follows the closing brace is
arbitrary and is cleaned on its own. -/
namespace Scrut.RegexCleanup

/-- a character none of the passes looks at: no backslash, brace, bracket, and not `<` (the marker
of pass 2). `>` and the line feed are simple. -/
def simple (c : Char) : Bool :=
  c != '\\' && c != '{' && c != '}' && c != '[' && c != ']' && c != '<'

/-- what may follow the first number of a quantifier: nothing, or a comma and a possibly empty number -/
def quantTail : List Char → Bool
  | [] => true
  | c :: d2 => c == ',' && d2.all isDigit

/-- the text between the braces of a repetition quantifier: `n`, `n,m` or `n,` -/
def quantBody (q : List Char) : Bool :=
  !(q.takeWhile isDigit).isEmpty && quantTail (q.dropWhile isDigit)

/-! ## `matchQuant` recognises exactly the quantifier bodies -/

theorem takeWhile_stop (p : Char → Bool) (l s : List Char) (c : Char) (hc : p c = false) :
    (l ++ c :: s).takeWhile p = l.takeWhile p := by
  induction l with
  | nil => simp [hc]
  | cons x l ih => simp only [List.cons_append, List.takeWhile_cons, ih]

theorem dropWhile_stop (p : Char → Bool) (l s : List Char) (c : Char) (hc : p c = false) :
    (l ++ c :: s).dropWhile p = l.dropWhile p ++ c :: s := by
  induction l with
  | nil => simp [hc]
  | cons x l ih =>
    simp only [List.cons_append, List.dropWhile_cons, ih]
    split <;> rfl

theorem takeWhile_of_dropWhile_nil (p : Char → Bool) (l : List Char) (h : l.dropWhile p = []) :
    l.takeWhile p = l := by
  have := List.takeWhile_append_dropWhile (p := p) (l := l)
  rw [h, List.append_nil] at this
  exact this

theorem all_of_dropWhile_nil (p : Char → Bool) (l : List Char) (h : l.dropWhile p = []) :
    l.all p = true := by
  induction l with
  | nil => rfl
  | cons x l ih =>
    rw [List.dropWhile_cons] at h
    by_cases hx : p x = true
    · rw [if_pos hx] at h
      simp only [List.all_cons, hx, ih h, Bool.and_self]
    · rw [if_neg hx] at h
      exact absurd h (by simp)

theorem all_of_dropWhile_cons (p : Char → Bool) (l r : List Char) (y : Char) (h : l.dropWhile p = y :: r) :
    l.all p = false := by
  induction l with
  | nil => simp at h
  | cons x l ih =>
    rw [List.dropWhile_cons] at h
    by_cases hx : p x = true
    · rw [if_pos hx] at h
      simp only [List.all_cons, hx, ih h, Bool.and_false]
    · have hx' : p x = false := by simpa using hx
      simp only [List.all_cons, hx', Bool.false_and]

theorem mem_of_dropWhile_cons (p : Char → Bool) (l r : List Char) (y : Char) (h : l.dropWhile p = y :: r) :
    y ∈ l ∧ ∀ z ∈ r, z ∈ l := by
  have hs := List.dropWhile_sublist (l := l) p
  rw [h] at hs
  exact ⟨hs.subset (by simp), fun z hz => hs.subset (by simp [hz])⟩

/-- after a `{`, with the next `}` after `b`: the regex `[0-9]+(?:,[0-9]*)?` followed by `}`
matches exactly when `b` is a quantifier body, and then captures all of `b` -/
theorem matchQuant_close (b rest : List Char) (hb : '}' ∉ b) :
    matchQuant (b ++ '}' :: rest) = if quantBody b = true then some b else none := by
  have hd : isDigit '}' = false := by decide
  have happ := List.takeWhile_append_dropWhile (p := isDigit) (l := b)
  unfold matchQuant quantBody
  simp only [takeWhile_stop isDigit b rest '}' hd, dropWhile_stop isDigit b rest '}' hd]
  cases h1 : b.dropWhile isDigit with
  | nil =>
    have ht := takeWhile_of_dropWhile_nil isDigit b h1
    simp only [ht, List.nil_append, quantTail, Bool.and_true]
    cases b <;> simp
  | cons x r =>
    obtain ⟨hx, hr⟩ := mem_of_dropWhile_cons isDigit b r x h1
    have hx1 : x ≠ '}' := fun e => hb (e ▸ hx)
    rw [h1] at happ
    by_cases hx2 : x = ','
    · subst hx2
      simp only [List.cons_append, takeWhile_stop isDigit r rest '}' hd,
        dropWhile_stop isDigit r rest '}' hd, quantTail]
      cases h2 : r.dropWhile isDigit with
      | nil =>
        have ht2 := takeWhile_of_dropWhile_nil isDigit r h2
        have ha2 := all_of_dropWhile_nil isDigit r h2
        simp only [ht2, ha2, List.nil_append, happ]
        cases hE : (b.takeWhile isDigit).isEmpty <;> simp
      | cons y r' =>
        obtain ⟨hy, _⟩ := mem_of_dropWhile_cons isDigit r r' y h2
        have hy1 : y ≠ '}' := fun e => hb (e ▸ hr y hy)
        have ha2 := all_of_dropWhile_cons isDigit r r' y h2
        simp only [ha2, List.cons_append]
        cases hE : (b.takeWhile isDigit).isEmpty <;> simp [hy1]
    · simp only [List.cons_append, quantTail]
      cases hE : (b.takeWhile isDigit).isEmpty <;> simp [hx1, hx2]

/-! ## quantifier bodies are made of digits and commas -/

theorem of_mem_takeWhile (p : Char → Bool) (l : List Char) (c : Char) (h : c ∈ l.takeWhile p) :
    p c = true := by
  induction l with
  | nil => simp at h
  | cons x l ih =>
    rw [List.takeWhile_cons] at h
    by_cases hx : p x = true
    · rw [if_pos hx] at h
      rcases List.mem_cons.mp h with h | h
      · exact h ▸ hx
      · exact ih h
    · rw [if_neg hx] at h
      simp at h

theorem quantBody_chars (q : List Char) (h : quantBody q = true) :
    q ≠ [] ∧ ∀ c ∈ q, isDigit c = true ∨ c = ',' := by
  unfold quantBody at h
  simp only [Bool.and_eq_true, Bool.not_eq_true', List.isEmpty_eq_false_iff] at h
  obtain ⟨h1, h2⟩ := h
  have happ := List.takeWhile_append_dropWhile (p := isDigit) (l := q)
  constructor
  · intro e
    rw [e] at h1
    exact h1 rfl
  · intro c hc
    rw [← happ] at hc
    rcases List.mem_append.mp hc with hc | hc
    · exact Or.inl (of_mem_takeWhile isDigit q c hc)
    · cases hd : q.dropWhile isDigit with
      | nil => rw [hd] at hc; simp at hc
      | cons x r =>
        rw [hd] at hc h2
        simp only [quantTail, Bool.and_eq_true, beq_iff_eq, List.all_eq_true] at h2
        rcases List.mem_cons.mp hc with hc | hc
        · exact Or.inr (hc.trans h2.1)
        · exact Or.inl (h2.2 c hc)

/-- the explicit form: a non-empty number, then nothing or `,` and a possibly empty number -/
theorem quantBody_of_parts (d1 tail : List Char) (h1 : d1 ≠ []) (hd : d1.all isDigit = true)
    (ht : quantTail tail = true) : quantBody (d1 ++ tail) = true := by
  have hall : ∀ a ∈ d1, isDigit a = true := List.all_eq_true.mp hd
  have htail : tail.takeWhile isDigit = [] ∧ tail.dropWhile isDigit = tail := by
    cases tail with
    | nil => exact ⟨rfl, rfl⟩
    | cons c d2 =>
      simp only [quantTail, Bool.and_eq_true, beq_iff_eq] at ht
      have : isDigit c = false := by rw [ht.1]; decide
      simp [this]
  unfold quantBody
  rw [List.takeWhile_append_of_pos hall, List.dropWhile_append_of_pos hall, htail.1, htail.2, ht,
    List.append_nil]
  cases d1 with
  | nil => exact absurd rfl h1
  | cons x l => rfl

theorem digit_or_comma_ne (c : Char) (h : isDigit c = true ∨ c = ',') :
    c ≠ '\\' ∧ c ≠ '{' ∧ c ≠ '}' ∧ c ≠ '[' ∧ c ≠ ']' ∧ c ≠ '<' ∧ c ≠ '>' ∧ c ≠ '\n' := by
  refine ⟨?_, ?_, ?_, ?_, ?_, ?_, ?_, ?_⟩ <;> (rintro rfl; revert h; decide)

theorem simple_ne (c : Char) (h : simple c = true) :
    c ≠ '\\' ∧ c ≠ '{' ∧ c ≠ '}' ∧ c ≠ '[' ∧ c ≠ ']' ∧ c ≠ '<' := by
  simpa [simple, and_assoc] using h

/-! ## each pass copies a run of characters it has no business with -/

theorem escPass_append (l rest : List Char) (h : ∀ c ∈ l, c ≠ '\\') :
    escPass (l ++ rest) false = l ++ escPass rest false := by
  induction l with
  | nil => rfl
  | cons c l ih =>
    have hc : c ≠ '\\' := h c (by simp)
    simp only [List.cons_append, escPass, if_neg hc, ih (fun x hx => h x (by simp [hx]))]

theorem escPass_cons (c : Char) (rest : List Char) (hc : c ≠ '\\') :
    escPass (c :: rest) false = c :: escPass rest false := by
  simp only [escPass, if_neg hc]

theorem protect_append (l rest : List Char) (h : ∀ c ∈ l, c ≠ '{') :
    protect (l ++ rest) 0 = l ++ protect rest 0 := by
  induction l with
  | nil => rfl
  | cons c l ih =>
    have hc : c ≠ '{' := h c (by simp)
    simp only [List.cons_append, protect, if_neg hc, ih (fun x hx => h x (by simp [hx]))]

theorem protect_cons (c : Char) (rest : List Char) (hc : c ≠ '{') :
    protect (c :: rest) 0 = c :: protect rest 0 := by
  simp only [protect, if_neg hc]

theorem protect_skip (xs rest : List Char) : protect (xs ++ rest) xs.length = protect rest 0 := by
  induction xs with
  | nil => rfl
  | cons x xs ih => simp only [List.cons_append, List.length_cons, protect, ih]

theorem braceEsc_append (l rest : List Char) (h : ∀ c ∈ l, c ≠ '\\' ∧ c ≠ '{' ∧ c ≠ '}') :
    braceEsc (l ++ rest) false = l ++ braceEsc rest false := by
  induction l with
  | nil => rfl
  | cons c l ih =>
    obtain ⟨h1, h2, h3⟩ := h c (by simp)
    have h4 : ¬ (c = '{' ∨ c = '}') := by simp [h2, h3]
    simp only [List.cons_append, braceEsc, if_neg h1, if_neg h4, ih (fun x hx => h x (by simp [hx]))]

theorem braceEsc_cons (c : Char) (rest : List Char) (h1 : c ≠ '\\') (h2 : c ≠ '{') (h3 : c ≠ '}') :
    braceEsc (c :: rest) false = c :: braceEsc rest false := by
  have h4 : ¬ (c = '{' ∨ c = '}') := by simp [h2, h3]
  simp only [braceEsc, if_neg h1, if_neg h4]

theorem restore_append (l rest : List Char) (h : ∀ c ∈ l, c ≠ '<') :
    restore (l ++ rest) 0 = l ++ restore rest 0 := by
  induction l with
  | nil => rfl
  | cons c l ih =>
    have hc : ¬ (c = '<' ∧ (l ++ rest).take 3 = ['<', '<', '<']) := fun e => h c (by simp) e.1
    simp only [List.cons_append, restore, if_neg hc, ih (fun x hx => h x (by simp [hx]))]

theorem restore_cons (c : Char) (rest : List Char) (hc : c ≠ '<') :
    restore (c :: rest) 0 = c :: restore rest 0 := by
  have hc' : ¬ (c = '<' ∧ rest.take 3 = ['<', '<', '<']) := fun e => hc e.1
  simp only [restore, if_neg hc']

theorem restore_skip (xs rest : List Char) : restore (xs ++ rest) xs.length = restore rest 0 := by
  induction xs with
  | nil => rfl
  | cons x xs ih => simp only [List.cons_append, List.length_cons, restore, ih]

theorem ccPass_append (l rest : List Char) (h : ∀ c ∈ l, c ≠ '\\' ∧ c ≠ '[' ∧ c ≠ ']') :
    ccPass (l ++ rest) false false = l ++ ccPass rest false false := by
  induction l with
  | nil => rfl
  | cons c l ih =>
    obtain ⟨h1, h2, h3⟩ := h c (by simp)
    simp only [List.cons_append, ccPass, if_neg h1, if_neg h2, if_neg h3,
      ih (fun x hx => h x (by simp [hx]))]

theorem ccPass_cons (c : Char) (rest : List Char) (h1 : c ≠ '\\') (h2 : c ≠ '[') (h3 : c ≠ ']') :
    ccPass (c :: rest) false false = c :: ccPass rest false false := by
  simp only [ccPass, if_neg h1, if_neg h2, if_neg h3]

/-! ## pass 2 at a `{` -/

theorem protect_quant (q rest : List Char) (hq : quantBody q = true) :
    protect ('{' :: (q ++ '}' :: rest)) 0 =
      '<' :: '<' :: '<' :: '<' :: (q ++ '>' :: '>' :: '>' :: '>' :: protect rest 0) := by
  have hb : '}' ∉ q := fun e => (digit_or_comma_ne _ ((quantBody_chars q hq).2 _ e)).2.2.1 rfl
  have hs := protect_skip (q ++ ['}']) rest
  simp only [List.append_assoc, List.cons_append, List.nil_append, List.length_append,
    List.length_cons, List.length_nil] at hs
  simp only [protect, if_true, matchQuant_close q rest hb, hq, hs, List.append_assoc,
    List.cons_append, List.nil_append]

theorem protect_nonquant (b rest : List Char) (h1 : ∀ c ∈ b, c ≠ '{') (h2 : '}' ∉ b)
    (hq : quantBody b = false) :
    protect ('{' :: (b ++ '}' :: rest)) 0 = '{' :: (b ++ '}' :: protect rest 0) := by
  have hc : ('}' : Char) ≠ '{' := by decide
  simp only [protect, if_true, matchQuant_close b rest h2, hq, protect_append b _ h1,
    if_neg hc, Bool.false_eq_true, if_false]

/-- the lazy `(.+?)>>>>` stops at the first `>>>>`: right after a non-empty run without `>` -/
theorem findClose_inner (q R : List Char) (hne : q ≠ []) (h : ∀ c ∈ q, c ≠ '>' ∧ c ≠ '\n') :
    findClose (q ++ '>' :: '>' :: '>' :: '>' :: R) = some q := by
  induction q with
  | nil => exact absurd rfl hne
  | cons x q ih =>
    have hx : x ≠ '\n' := (h x (by simp)).2
    cases q with
    | nil => simp [findClose, hx]
    | cons y q =>
      have hy : y ≠ '>' := (h y (by simp)).1
      have := ih (by simp) (fun c hc => h c (by simp [hc]))
      have ht : ¬ ((y :: q ++ '>' :: '>' :: '>' :: '>' :: R).take 4 = ['>', '>', '>', '>']) := by
        simp [hy]
      rw [List.cons_append, findClose, if_neg hx, if_neg ht, this]
      rfl

theorem restore_quad (q R : List Char) (hne : q ≠ []) (h : ∀ c ∈ q, c ≠ '>' ∧ c ≠ '\n') :
    restore ('<' :: '<' :: '<' :: '<' :: (q ++ '>' :: '>' :: '>' :: '>' :: R)) 0 =
      '{' :: (q ++ '}' :: restore R 0) := by
  have hs := restore_skip ('<' :: '<' :: '<' :: (q ++ ['>', '>', '>', '>'])) R
  simp only [List.append_assoc, List.cons_append, List.nil_append, List.length_append,
    List.length_cons, List.length_nil] at hs
  have hs' : restore ('<' :: '<' :: '<' :: (q ++ '>' :: '>' :: '>' :: '>' :: R)) (3 + q.length + 4) =
      restore R 0 := by
    rw [show 3 + q.length + 4 = q.length + (0 + 1 + 1 + 1 + 1) + 1 + 1 + 1 from by omega]
    exact hs
  have hcnd : ('<' : Char) = '<' ∧
      ('<' :: '<' :: '<' :: (q ++ '>' :: '>' :: '>' :: '>' :: R)).take 3 = ['<', '<', '<'] :=
    ⟨rfl, rfl⟩
  rw [restore, if_pos hcnd,
    show ('<' :: '<' :: '<' :: (q ++ '>' :: '>' :: '>' :: '>' :: R)).drop 3 =
      q ++ '>' :: '>' :: '>' :: '>' :: R from rfl,
    findClose_inner q R hne h]
  simp only [hs', List.cons_append]

theorem braceEsc_brace (c : Char) (rest : List Char) (h : c = '{' ∨ c = '}') :
    braceEsc (c :: rest) false = '\\' :: c :: braceEsc rest false := by
  have h1 : c ≠ '\\' := by rcases h with h | h <;> (subst h; decide)
  simp only [braceEsc, if_neg h1, if_pos h]

theorem ccPass_bs (c : Char) (rest : List Char) :
    ccPass ('\\' :: c :: rest) false false = '\\' :: c :: ccPass rest false false := by
  simp only [ccPass, if_true]

/-! ## the three passes in a row -/

/-- simple text in front is copied, the rest is cleaned on its own -/
theorem regexClean_simple_prefix (pre rest : List Char) (hpre : pre.all simple = true) :
    regexClean (pre ++ rest) = pre ++ regexClean rest := by
  have h : ∀ c ∈ pre, _ := fun c hc => simple_ne c (List.all_eq_true.mp hpre c hc)
  unfold regexClean quantPass
  rw [escPass_append pre _ (fun c hc => (h c hc).1),
    protect_append pre _ (fun c hc => (h c hc).2.1),
    braceEsc_append pre _ (fun c hc => ⟨(h c hc).1, (h c hc).2.1, (h c hc).2.2.1⟩),
    restore_append pre _ (fun c hc => (h c hc).2.2.2.2.2),
    ccPass_append pre _ (fun c hc => ⟨(h c hc).1, (h c hc).2.2.2.1, (h c hc).2.2.2.2.1⟩)]

theorem regexClean_simple (e : List Char) (h : e.all simple = true) : regexClean e = e := by
  have := regexClean_simple_prefix e [] h
  rw [List.append_nil] at this
  rw [this]
  exact List.append_nil e

/-- a quantifier is kept, the rest is cleaned on its own -/
theorem regexClean_quant_step (q rest : List Char) (hq : quantBody q = true) :
    regexClean ('{' :: (q ++ '}' :: rest)) = '{' :: (q ++ '}' :: regexClean rest) := by
  obtain ⟨hne, hch⟩ := quantBody_chars q hq
  have h : ∀ c ∈ q, _ := fun c hc => digit_or_comma_ne c (hch c hc)
  unfold regexClean quantPass
  rw [escPass_cons '{' _ (by decide), escPass_append q _ (fun c hc => (h c hc).1),
    escPass_cons '}' _ (by decide), protect_quant q _ hq]
  simp only [braceEsc_cons '<' _ (by decide) (by decide) (by decide),
    braceEsc_cons '>' _ (by decide) (by decide) (by decide),
    braceEsc_append q _ (fun c hc => ⟨(h c hc).1, (h c hc).2.1, (h c hc).2.2.1⟩)]
  rw [restore_quad q _ hne (fun c hc => ⟨(h c hc).2.2.2.2.2.2.1, (h c hc).2.2.2.2.2.2.2⟩),
    ccPass_cons '{' _ (by decide) (by decide) (by decide),
    ccPass_append q _ (fun c hc => ⟨(h c hc).1, (h c hc).2.2.2.1, (h c hc).2.2.2.2.1⟩),
    ccPass_cons '}' _ (by decide) (by decide) (by decide)]

/-- a brace pair around simple text that is not a quantifier body is escaped, the rest is cleaned
on its own -/
theorem regexClean_nonquant_step (b rest : List Char) (hb : b.all simple = true)
    (hq : quantBody b = false) :
    regexClean ('{' :: (b ++ '}' :: rest)) = '\\' :: '{' :: (b ++ '\\' :: '}' :: regexClean rest) := by
  have h : ∀ c ∈ b, _ := fun c hc => simple_ne c (List.all_eq_true.mp hb c hc)
  unfold regexClean quantPass
  rw [escPass_cons '{' _ (by decide), escPass_append b _ (fun c hc => (h c hc).1),
    escPass_cons '}' _ (by decide),
    protect_nonquant b _ (fun c hc => (h c hc).2.1) (fun e => (h _ e).2.2.1 rfl) hq,
    braceEsc_brace '{' _ (Or.inl rfl),
    braceEsc_append b _ (fun c hc => ⟨(h c hc).1, (h c hc).2.1, (h c hc).2.2.1⟩),
    braceEsc_brace '}' _ (Or.inr rfl),
    restore_cons '\\' _ (by decide), restore_cons '{' _ (by decide),
    restore_append b _ (fun c hc => (h c hc).2.2.2.2.2),
    restore_cons '\\' _ (by decide), restore_cons '}' _ (by decide),
    ccPass_bs, ccPass_append b _ (fun c hc => ⟨(h c hc).1, (h c hc).2.2.2.1, (h c hc).2.2.2.2.1⟩),
    ccPass_bs]

/-! ## the statements used in `Props/C04.lean` -/

/-- **quantifiers survive**, `rest` arbitrary -/
theorem regexClean_quantifier (pre d1 tail rest : List Char) (hpre : pre.all simple = true)
    (h1 : d1 ≠ []) (hd : d1.all isDigit = true) (ht : quantTail tail = true) :
    regexClean (pre ++ '{' :: d1 ++ tail ++ '}' :: rest) =
      pre ++ '{' :: d1 ++ tail ++ '}' :: regexClean rest := by
  have hq := quantBody_of_parts d1 tail h1 hd ht
  simp only [List.append_assoc, List.cons_append]
  rw [regexClean_simple_prefix pre _ hpre, ← List.append_assoc d1, regexClean_quant_step _ rest hq]
  simp only [List.append_assoc]

/-- the same inside simple text: exactly as written -/
theorem regexClean_quantifier_simple (pre d1 tail suf : List Char) (hpre : pre.all simple = true)
    (h1 : d1 ≠ []) (hd : d1.all isDigit = true) (ht : quantTail tail = true)
    (hsuf : suf.all simple = true) :
    regexClean (pre ++ '{' :: d1 ++ tail ++ '}' :: suf) = pre ++ '{' :: d1 ++ tail ++ '}' :: suf := by
  rw [regexClean_quantifier pre d1 tail suf hpre h1 hd ht, regexClean_simple suf hsuf]

/-- **other braces are escaped**, `rest` arbitrary -/
theorem regexClean_non_quantifier_braces (pre b rest : List Char) (hpre : pre.all simple = true)
    (hb : b.all simple = true) (hq : quantBody b = false) :
    regexClean (pre ++ '{' :: b ++ '}' :: rest) =
      pre ++ '\\' :: '{' :: b ++ '\\' :: '}' :: regexClean rest := by
  simp only [List.append_assoc, List.cons_append]
  rw [regexClean_simple_prefix pre _ hpre, regexClean_nonquant_step b rest hb hq]

theorem regexClean_non_quantifier_braces_simple (pre b suf : List Char) (hpre : pre.all simple = true)
    (hb : b.all simple = true) (hq : quantBody b = false) (hsuf : suf.all simple = true) :
    regexClean (pre ++ '{' :: b ++ '}' :: suf) = pre ++ '\\' :: '{' :: b ++ '\\' :: '}' :: suf := by
  rw [regexClean_non_quantifier_braces pre b suf hpre hb hq, regexClean_simple suf hsuf]

/-- `matchQuant` after the `{`, in terms of the text the user wrote -/
theorem matchQuant_none_iff (b rest : List Char) (hb : b.all simple = true) :
    matchQuant (b ++ '}' :: rest) = none ↔ quantBody b = false := by
  have h2 : '}' ∉ b := fun e => (simple_ne _ (List.all_eq_true.mp hb _ e)).2.2.1 rfl
  rw [matchQuant_close b rest h2]
  cases quantBody b <;> simp

/-! ## reading `quantBody` -/

theorem quantBody_iff (q : List Char) :
    quantBody q = true ↔
      ∃ d1 tail, q = d1 ++ tail ∧ d1 ≠ [] ∧ d1.all isDigit = true ∧ quantTail tail = true := by
  constructor
  · intro h
    refine ⟨q.takeWhile isDigit, q.dropWhile isDigit, List.takeWhile_append_dropWhile.symm, ?_, ?_, ?_⟩
    · unfold quantBody at h
      simp only [Bool.and_eq_true, Bool.not_eq_true', List.isEmpty_eq_false_iff] at h
      exact h.1
    · exact List.all_eq_true.mpr (fun c hc => of_mem_takeWhile isDigit q c hc)
    · unfold quantBody at h
      simp only [Bool.and_eq_true] at h
      exact h.2
  · rintro ⟨d1, tail, rfl, h1, hd, ht⟩
    exact quantBody_of_parts d1 tail h1 hd ht

/-- the three ways a brace body fails to be a quantifier that the task names: empty, first character
not a digit, a comma first -/
theorem quantBody_false_cases :
    quantBody [] = false ∧ (∀ c r, isDigit c = false → quantBody (c :: r) = false) ∧
      (∀ d, quantBody (',' :: d) = false) := by
  have h2 : ∀ c r, isDigit c = false → quantBody (c :: r) = false := by
    intro c r hc
    simp [quantBody, hc]
  exact ⟨rfl, h2, fun d => h2 ',' d (by decide)⟩

/-! ## any number of brace pairs in one expression -/

/-- an expression cut into simple characters and brace pairs around simple text -/
inductive Piece where
  | chr (c : Char)
  | braces (b : List Char)

def Piece.ok : Piece → Bool
  | .chr c => simple c
  | .braces b => b.all simple

/-- as written -/
def Piece.text : Piece → List Char
  | .chr c => [c]
  | .braces b => '{' :: b ++ ['}']

/-- as compiled -/
def Piece.cleaned : Piece → List Char
  | .chr c => [c]
  | .braces b => if quantBody b = true then '{' :: b ++ ['}'] else '\\' :: '{' :: b ++ ['\\', '}']

theorem regexClean_pieces (ps : List Piece) (h : ps.all Piece.ok = true) :
    regexClean (ps.flatMap Piece.text) = ps.flatMap Piece.cleaned := by
  induction ps with
  | nil => rfl
  | cons p ps ih =>
    simp only [List.all_cons, Bool.and_eq_true] at h
    rw [List.flatMap_cons, List.flatMap_cons]
    cases p with
    | chr c =>
      have hc : [c].all simple = true := by simpa [Piece.ok] using h.1
      rw [Piece.text, Piece.cleaned, regexClean_simple_prefix [c] _ hc, ih h.2]
    | braces b =>
      have hb : b.all simple = true := h.1
      by_cases hq : quantBody b = true
      · simp only [Piece.text, Piece.cleaned, if_pos hq, List.append_assoc, List.cons_append,
          List.nil_append]
        rw [regexClean_quant_step b _ hq, ih h.2]
      · simp only [Piece.text, Piece.cleaned, if_neg hq, List.append_assoc, List.cons_append,
          List.nil_append]
        rw [regexClean_nonquant_step b _ hb (by simpa using hq), ih h.2]

end Scrut.RegexCleanup
