import ScrutModel.Model.UpdateSpec
import ScrutModel.Lemmas.Markdown
/-! Proofs about the `update` model (`Model/Update.lean`). -/
namespace Scrut.Update
open Scrut.Markdown Scrut.LineParser

/-! ## text helpers -/

theorem assureNewline_clean {l : List Char} (h : '\n' ∉ l) : assureNewline l = l ++ ['\n'] := by
  unfold assureNewline
  split
  · rename_i hl
    exact absurd (List.mem_of_getLast? hl) h
  · rfl

theorem flatMap_assure (ls : List Line) (h : ∀ l ∈ ls, '\n' ∉ l) :
    ls.flatMap assureNewline = unlines ls := by
  induction ls with
  | nil => rfl
  | cons l r ih =>
    simp only [List.flatMap_cons, unlines]
    rw [assureNewline_clean (h l (by simp))]
    have := ih (fun x hx => h x (by simp [hx]))
    simp only [unlines] at this
    rw [this]

theorem commentText_eq (cm : Numbered) (h : ∀ c ∈ cm, '\n' ∉ c.2) :
    commentText cm = unlines (cm.map (·.2)) := by
  induction cm with
  | nil => rfl
  | cons c r ih =>
    simp only [commentText, List.flatMap_cons, unlines, List.map_cons]
    rw [assureNewline_clean (h c (by simp))]
    have := ih (fun x hx => h x (by simp [hx]))
    simp only [commentText, unlines] at this
    rw [this]

theorem unlines_append (a b : List Line) : unlines (a ++ b) = unlines a ++ unlines b := by
  simp [unlines]

theorem unlines_cons (a : Line) (b : List Line) : unlines (a :: b) = a ++ '\n' :: unlines b := by
  simp [unlines]

theorem backticks_no_nl (n : Nat) : '\n' ∉ backticks n := by
  intro h
  have := List.eq_of_mem_replicate h
  cases this

theorem number_map_snd (s : Nat) (body : List Line) : (number s body).map (·.2) = body := by
  induction body generalizing s with
  | nil => rfl
  | cons l r ih => simp [number, ih]

theorem configSuffix_cfgLines (i : Nat) (config : Line) :
    configSuffix (cfgLines i config) = configSuffix (cfgLines 0 config) := by
  unfold cfgLines
  cases stripBraces config <;> simp [configSuffix, joinNumbered]

/-! ## `str::lines()` yields lines without LF -/

theorem splitLinesAux_no_nl (text : List Char) :
    ∀ (acc : List Char), '\n' ∉ acc → ∀ l ∈ splitLinesAux text acc, '\n' ∉ l := by
  induction text with
  | nil =>
    intro acc hacc l hl
    simp only [splitLinesAux] at hl
    split at hl
    · simp at hl
    · simp only [List.mem_singleton] at hl
      subst hl
      simpa using hacc
  | cons c rest ih =>
    intro acc hacc l hl
    simp only [splitLinesAux] at hl
    split at hl
    · rcases List.mem_cons.mp hl with h | h
      · subst h
        split
        · rename_i acc' _
          intro hm
          exact hacc (List.mem_cons_of_mem _ (List.mem_reverse.mp hm))
        · simpa using hacc
      · exact ih [] (by simp) l h
    · rename_i hc
      exact ih (c :: acc) (by simp; exact ⟨fun h => hc h.symm, hacc⟩) l hl

theorem splitLines_no_nl (text : List Char) : ∀ l ∈ splitLines text, '\n' ∉ l :=
  splitLinesAux_no_nl text [] (by simp)

/-! ## the loop -/

theorem emit_cons_ok {gens : List (Option (List Char))} {k : Nat} {t : Tok} {r : List Tok} {out : List Char}
    (h : emit gens k (t :: r) = .ok out) :
    ∃ s k' rest, emitTok gens k t = .ok (s, k') ∧ emit gens k' r = .ok rest ∧ out = s ++ rest := by
  simp only [emit] at h
  cases h1 : emitTok gens k t with
  | error e => rw [h1] at h; cases h
  | ok p =>
    obtain ⟨s, k'⟩ := p
    rw [h1] at h
    simp only [] at h
    cases h2 : emit gens k' r with
    | error e => rw [h2] at h; cases h
    | ok rest =>
      rw [h2] at h
      simp only [] at h
      injection h with h
      exact ⟨s, k', rest, rfl, h2, h.symm⟩

/-- what `emitTok` writes for a scrut block token -/
theorem emitTok_test {gens : List (Option (List Char))} {k k' : Nat} {language config : Line} {i j : Nat}
    {comments code : Numbered} {s : List Char} {body : List Line}
    (hcc : comments ++ code = number j body) (hnl : ∀ l ∈ body, '\n' ∉ l)
    (h : emitTok gens k (.test language (cfgLines i config) comments code) = .ok (s, k')) :
    BlockOut gens k body language config s k' := by
  have hmap : comments.map (·.2) ++ code.map (·.2) = body := by
    have := congrArg (List.map (·.2)) hcc
    simpa [number_map_snd] using this
  have hcm : ∀ c ∈ comments, '\n' ∉ c.2 := by
    intro c hc
    apply hnl
    rw [← hmap]
    exact List.mem_append_left _ (List.mem_map_of_mem hc)
  refine ⟨comments.map (·.2), code.map (·.2), hmap, ?_⟩
  simp only [emitTok] at h
  split at h
  · rename_i hce
    left
    have hce : code = [] := by simpa using hce
    injection h with h
    injection h with h1 h2
    refine ⟨by simp [hce], ?_, h2.symm⟩
    rw [← h1]
    simp only [testBlock, blockText, commentText_eq comments hcm, configSuffix_cfgLines i config,
      assureNewline_clean (backticks_no_nl 3), List.append_assoc, List.append_nil, List.nil_append]
  · rename_i hce
    right
    have hce : code ≠ [] := by simpa using hce
    refine ⟨by simpa using hce, ?_⟩
    cases hg : gens[k]? with
    | none => rw [hg] at h; cases h
    | some o =>
      cases o with
      | none => rw [hg] at h; cases h
      | some g =>
        rw [hg] at h
        simp only [] at h
        injection h with h
        injection h with h1 h2
        refine ⟨g, rfl, ?_, h2.symm⟩
        rw [← h1]
        simp only [testBlock, blockText, commentText_eq comments hcm, configSuffix_cfgLines i config,
          assureNewline_clean (backticks_no_nl _), List.append_assoc]

theorem number_length (s : Nat) (body : List Line) : (number s body).length = body.length := by
  induction body generalizing s with
  | nil => rfl
  | cons l r ih => simp [number, ih]

theorem docConfig_text (j : Nat) (body : List Line) (hnl : ∀ l ∈ body, '\n' ∉ l) :
    ['-', '-', '-', '\n'] ++ commentText (number j body) ++ ['-', '-', '-', '\n']
      = unlines (frontMatterFence :: (body ++ [frontMatterFence])) := by
  rw [commentText_eq _ (by
    intro c hc
    apply hnl
    have := List.mem_map_of_mem (f := (·.2)) hc
    rwa [number_map_snd] at this), number_map_snd, unlines_cons, unlines_append]
  simp [unlines, frontMatterFence]

theorem covers_rewritten (L : List Line) (gens : List (Option (List Char))) (strict : Bool)
    {i : Nat} {src : List Line} {toks : List Tok} (hc : Covers L i src toks) :
    ∀ (N k : Nat) (out : List Char), i + src.length = N → (∀ l ∈ src, '\n' ∉ l) →
      (strict = true → frontClosed N i toks = true) →
      emit gens k toks = .ok out → Rewritten L gens strict k src out := by
  induction hc with
  | nil i =>
    intro N k out _ _ _ h
    simp only [emit] at h
    injection h with h
    subst h
    exact .nil k
  | line i l rest toks hx _ ih =>
    intro N k out hN hnl hg h
    obtain ⟨s, k', r, h1, h2, h3⟩ := emit_cons_ok h
    simp only [emitTok] at h1
    injection h1 with h1
    injection h1 with h1 h1'
    subst h1' h3
    rw [← h1, assureNewline_clean (hnl l (by simp))]
    simp only [List.append_assoc, List.singleton_append]
    exact .line k l rest r hx
      (ih N k r (by simp at hN; omega) (fun x hx => hnl x (by simp [hx]))
        (fun hs => by have := hg hs; simpa [frontClosed, tokSpan] using this) h2)
  | frontClosed i body rest toks hb _ ih =>
    intro N k out hN hnl hg h
    obtain ⟨s, k', r, h1, h2, h3⟩ := emit_cons_ok h
    simp only [emitTok] at h1
    injection h1 with h1
    injection h1 with h1 h1'
    subst h1' h3
    have hrest := ih N k r (by simp at hN; omega) (fun x hx => hnl x (by simp [hx]))
      (fun hs => by
        have := hg hs
        simp only [frontClosed, number_length, Bool.and_eq_true] at this
        exact this.2) h2
    rw [← h1, docConfig_text _ body (fun x hx => hnl x (by simp [hx]))]
    exact Rewritten.front k body rest r hb hrest
  | frontOpen i body hb =>
    intro N k out hN hnl hg h
    obtain ⟨s, k', r, h1, h2, h3⟩ := emit_cons_ok h
    simp only [emitTok] at h1
    injection h1 with h1
    injection h1 with h1 h1'
    subst h1' h3
    simp only [emit] at h2
    injection h2 with h2
    subst h2
    have hs : strict = false := by
      cases hstr : strict with
      | false => rfl
      | true =>
        have := hg hstr
        simp only [frontClosed, number_length, Bool.and_eq_true, decide_eq_true_eq] at this
        simp at hN
        omega
    rw [← h1, docConfig_text _ body (fun x hx => hnl x (by simp [hx])), List.append_nil]
    exact Rewritten.frontOpen k body hs hb
  | verbClosed i opener bt language config body closer rest toks hx hl hb hcl _ ih =>
    intro N k out hN hnl hg h
    obtain ⟨s, k', r, h1, h2, h3⟩ := emit_cons_ok h
    simp only [emitTok] at h1
    injection h1 with h1
    injection h1 with h1 h1'
    subst h1' h3
    have hrest := ih N k r (by simp at hN; omega) (fun x hx => hnl x (by simp [hx]))
      (fun hs => by
        have := hg hs
        simp only [frontClosed, tokSpan, List.length_cons, List.length_append, List.length_nil] at this
        have e : i + (body.length + (0 + 1) + 1) = i + body.length + 2 := by omega
        rwa [e] at this) h2
    rw [← h1, flatMap_assure _ (fun x hx => hnl x (by
      rcases List.mem_cons.mp hx with h | h
      · simp [h]
      · rcases List.mem_append.mp h with h | h
        · simp [h]
        · have : x = closer := by simpa using h
          simp [this]))]
    exact Rewritten.foreign k opener bt language config body (some closer) rest r hx hl hb hcl hrest
  | verbOpen i opener bt language config body hx hl hb =>
    intro N k out hN hnl hg h
    obtain ⟨s, k', r, h1, h2, h3⟩ := emit_cons_ok h
    simp only [emitTok] at h1
    injection h1 with h1
    injection h1 with h1 h1'
    subst h1' h3
    simp only [emit] at h2
    injection h2 with h2
    subst h2
    rw [← h1, flatMap_assure _ hnl, List.append_nil]
    have := Rewritten.foreign (L := L) (gens := gens) (strict := strict) k opener bt language config body none [] []
      hx hl hb (by simp [Closes]) (.nil k)
    simp only [Option.toList_none, List.append_nil] at this
    exact this
  | testClosed i opener bt language config body closer rest toks comments code hx hl hb hcl hcc _ ih =>
    intro N k out hN hnl hg h
    obtain ⟨s, k', r, h1, h2, h3⟩ := emit_cons_ok h
    subst h3
    have hN' : i + body.length + 2 + rest.length = N := by simp at hN; omega
    have hnl' : ∀ l ∈ rest, '\n' ∉ l := fun x hx => hnl x (by simp [hx])
    have hnlb : ∀ l ∈ body, '\n' ∉ l := fun x hx => hnl x (by simp [hx])
    have hlen : comments.length + code.length = body.length := by
      have := congrArg List.length hcc
      simpa [number_length] using this
    have hg' : strict = true → frontClosed N (i + body.length + 2) toks = true := fun hs => by
      have := hg hs
      simp only [frontClosed, tokSpan] at this
      have e : i + (comments.length + code.length + 2) = i + body.length + 2 := by omega
      rwa [e] at this
    have hrest := ih N k' r hN' hnl' hg' h2
    have hbo := emitTok_test hcc hnlb h1
    exact Rewritten.block k k' opener bt language config body (some closer) rest s r hx hl hb hcl hbo hrest
  | testOpen i opener bt language config body comments code hx hl hb hcc =>
    intro N k out hN hnl hg h
    obtain ⟨s, k', r, h1, h2, h3⟩ := emit_cons_ok h
    subst h3
    simp only [emit] at h2
    injection h2 with h2
    subst h2
    have hnlb : ∀ l ∈ body, '\n' ∉ l := fun x hx => hnl x (by simp [hx])
    have hbo := emitTok_test hcc hnlb h1
    have := Rewritten.block (L := L) (gens := gens) (strict := strict) k k' opener bt language config body none [] s []
      hx hl hb (by simp [Closes]) hbo (.nil k')
    simp only [Option.toList_none, List.append_nil] at this ⊢
    exact this

/-! ## totality -/

theorem emit_error (gens : List (Option (List Char))) (toks : List Tok) :
    ∀ (k : Nat) (e : Err), emit gens k toks = .error e →
      (∃ i, e = .noOutcome i ∧ gens[i]? = none) ∨ (∃ i, e = .generate i ∧ gens[i]? = some none) := by
  induction toks with
  | nil => intro k e h; simp [emit] at h
  | cons t r ih =>
    intro k e h
    simp only [emit] at h
    cases h1 : emitTok gens k t with
    | error e' =>
      rw [h1] at h
      injection h with h
      subst h
      cases t with
      | line _ _ => simp [emitTok] at h1
      | docConfig _ => simp [emitTok] at h1
      | verbatim _ _ _ => simp [emitTok] at h1
      | test language cfg cm cd =>
        simp only [emitTok] at h1
        split at h1
        · cases h1
        · cases hg : gens[k]? with
          | none =>
            rw [hg] at h1
            injection h1 with h1
            exact Or.inl ⟨k, h1.symm, hg⟩
          | some o =>
            cases o with
            | none =>
              rw [hg] at h1
              injection h1 with h1
              exact Or.inr ⟨k, h1.symm, hg⟩
            | some g => rw [hg] at h1; cases h1
    | ok p =>
      obtain ⟨s, k'⟩ := p
      rw [h1] at h
      simp only [] at h
      cases h2 : emit gens k' r with
      | error e' =>
        rw [h2] at h
        injection h with h
        subst h
        exact ih k' e' h2
      | ok rest => rw [h2] at h; cases h

theorem generateUpdate_error (L : List Line) (doc : List Char) (gens : List (Option (List Char))) (e : Err)
    (h : generateUpdate L doc gens = .error e) :
    (∃ i, e = .noOutcome i ∧ gens[i]? = none) ∨ (∃ i, e = .generate i ∧ gens[i]? = some none) := by
  unfold generateUpdate at h
  split at h
  · cases h
  · rw [tokenize_eq] at h
    exact emit_error gens _ 0 e h

theorem generateUpdate_rewritten (L : List Line) (doc : List Char) (gens : List (Option (List Char)))
    (hne : gens ≠ []) (out : List Char) (h : generateUpdate L doc gens = .ok out) :
    Rewritten L gens false 0 (splitLines doc) out := by
  unfold generateUpdate at h
  have : gens.isEmpty = false := by simpa using hne
  rw [this] at h
  obtain ⟨toks, ht, hc⟩ := tokenize_covers L (splitLines doc)
  rw [ht] at h
  exact covers_rewritten L gens false hc (splitLines doc).length 0 out (by simp) (splitLines_no_nl doc)
    (by intro hs; cases hs) h

theorem generateUpdate_rewritten_strict (L : List Line) (doc : List Char) (gens : List (Option (List Char)))
    (hne : gens ≠ []) (out : List Char) (h : generateUpdate L doc gens = .ok out)
    (toks : List Tok) (ht : tokenize L (splitLines doc) = .ok toks)
    (hf : frontClosed (splitLines doc).length 0 toks = true) :
    Rewritten L gens true 0 (splitLines doc) out := by
  unfold generateUpdate at h
  have : gens.isEmpty = false := by simpa using hne
  rw [this] at h
  obtain ⟨toks', ht', hc⟩ := tokenize_covers L (splitLines doc)
  rw [ht'] at h
  rw [ht] at ht'
  injection ht' with ht'
  subst ht'
  exact covers_rewritten L gens true hc (splitLines doc).length 0 out (by simp) (splitLines_no_nl doc)
    (fun _ => hf) h

theorem generateUpdate_no_outcomes (L : List Line) (doc : List Char) : generateUpdate L doc [] = .ok doc := by
  simp [generateUpdate]

/-! ## blocks -/

theorem blockOut_shape {gens : List (Option (List Char))} {k k' : Nat} {body : List Line}
    {language config : Line} {blockOut : List Char} (h : BlockOut gens k body language config blockOut k') :
    ∃ n head text, 3 ≤ n ∧ head <+: body ∧ blockOut = blockText (backticks n) language config head text := by
  obtain ⟨head, code, hb, h⟩ := h
  rcases h with ⟨_, h, _⟩ | ⟨_, g, _, h, _⟩
  · exact ⟨3, head, [], Nat.le_refl _, ⟨code, hb⟩, h⟩
  · refine ⟨maxBacktickSize g + 1, head, g, ?_, ⟨code, hb⟩, h⟩
    have : 2 ≤ maxBacktickSize g := by
      unfold maxBacktickSize
      generalize splitLines g = ls
      have : ∀ (ls : List Line) (m : Nat), 2 ≤ m → 2 ≤ ls.foldl (fun m l => max (leadingBackticks l) m) m := by
        intro ls
        induction ls with
        | nil => intro m hm; simpa using hm
        | cons l r ih => intro m hm; exact ih _ (Nat.le_trans hm (Nat.le_max_right _ _))
      exact this ls 2 (Nat.le_refl _)
    omega

theorem blockText_unlines (bt language config : Line) (head code : List Line) :
    blockText bt language config head (unlines code)
      = bt ++ language ++ configSuffix (cfgLines 0 config) ++ ['\n'] ++ unlines (head ++ code) ++ bt ++ ['\n'] := by
  simp [blockText, unlines_append]

/-! ## a second update sees only the texts of the tokens -/

theorem commentText_congr (a b : Numbered) (hab : a.map (·.2) = b.map (·.2)) :
    commentText a = commentText b := by
  have e : ∀ (x : Numbered), commentText x = (x.map (·.2)).flatMap assureNewline := by
    intro x; simp [commentText, List.flatMap_map]
  rw [e, e, hab]

theorem emitTok_sameTexts (gens : List (Option (List Char))) (k : Nat) (t t' : Tok) (h : sameTexts t t') :
    emitTok gens k t' = emitTok gens k t := by
  cases t <;> cases t' <;> simp only [sameTexts] at h
  · subst h; rfl
  · simp only [emitTok, commentText_congr _ _ h]
  · obtain ⟨h1, h2, h3, h4⟩ := h
    subst h1
    simp only [emitTok, testBlock, h2, commentText_congr _ _ h3, h4]
  · subst h; rfl

theorem emit_sameTexts (gens : List (Option (List Char))) (toks toks' : List Tok)
    (h : AllSame toks toks') : ∀ k, emit gens k toks' = emit gens k toks := by
  induction h with
  | nil => intro k; rfl
  | cons hab _ ih =>
    intro k
    simp only [emit, emitTok_sameTexts gens k _ _ hab]
    cases emitTok gens k _ with
    | error e => rfl
    | ok p => simp only [ih]

end Scrut.Update
