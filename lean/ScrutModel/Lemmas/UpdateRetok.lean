import ScrutModel.Lemmas.UpdateReread
/-!
Re-tokenizing an updated document: the tokenizer model run over the text that `update` writes
yields tokens with the same texts (`retok_main`), hence a second update with the same generated
texts writes the same document.
-/
namespace Scrut.Update
open Scrut.Markdown Scrut.LineParser

/-! ## `str::lines()` over concatenations -/

/-- a line that `str::lines()` reads back as it is -/
def Clean (l : Line) : Prop := '\n' ∉ l ∧ l.getLast? ≠ some '\r'

theorem splitLinesAux_cons (c : Char) (rest acc : List Char) :
    splitLinesAux (c :: rest) acc =
      if c = '\n' then lineOf acc :: splitLinesAux rest [] else splitLinesAux rest (c :: acc) := by
  by_cases hc : c = '\n'
  · simp only [splitLinesAux, hc, if_true, lineOf]
    cases acc with
    | nil => rfl
    | cons x xs =>
      by_cases hx : x = '\r'
      · subst hx; rfl
      · split <;> split <;> simp_all
  · simp only [splitLinesAux, hc, if_false]

theorem splitLinesAux_append (a b : List Char) (ha : a.getLast? = some '\n') :
    ∀ acc, splitLinesAux (a ++ b) acc = splitLinesAux a acc ++ splitLinesAux b [] := by
  induction a with
  | nil => simp at ha
  | cons c r ih =>
    intro acc
    cases r with
    | nil =>
      have hc : c = '\n' := by simpa using ha
      subst hc
      simp [splitLinesAux]
    | cons c' r' =>
      have ha' : (c' :: r').getLast? = some '\n' := by
        rw [List.getLast?_cons_cons] at ha
        exact ha
      rw [List.cons_append, splitLinesAux_cons, splitLinesAux_cons c (c' :: r')]
      split
      · rw [ih ha' []]; rfl
      · rw [ih ha' (c :: acc)]

/-- a text that is empty or ends in LF -/
def EndsNl (g : List Char) : Prop := g = [] ∨ g.getLast? = some '\n'

theorem splitLines_append (a b : List Char) (ha : EndsNl a) :
    splitLines (a ++ b) = splitLines a ++ splitLines b := by
  rcases ha with rfl | ha
  · simp [splitLines, splitLinesAux]
  · exact splitLinesAux_append a b ha []

theorem splitLines_line (l : Line) (t : List Char) (h : Clean l) :
    splitLines (l ++ '\n' :: t) = l :: splitLines t := by
  unfold splitLines
  rw [splitLinesAux_line l t h.1 [], List.append_nil, lineOf_reverse l h.2]

theorem splitLines_unlines_append (ls : List Line) (h : ∀ l ∈ ls, Clean l) (t : List Char) :
    splitLines (unlines ls ++ t) = ls ++ splitLines t := by
  induction ls with
  | nil => rfl
  | cons l r ih =>
    rw [unlines_cons, List.cons_append, ← List.cons_append, List.append_assoc]
    show splitLines (l ++ ('\n' :: (unlines r ++ t))) = _
    rw [splitLines_line l _ (h l (by simp)), ih (fun x hx => h x (by simp [hx]))]
    rfl

/-! ## `max_backtick_size` makes the fence safe -/

theorem foldl_max_ge (ls : List Line) : ∀ (m : Nat),
    m ≤ ls.foldl (fun m l => max (leadingBackticks l) m) m ∧
    ∀ l ∈ ls, leadingBackticks l ≤ ls.foldl (fun m l => max (leadingBackticks l) m) m := by
  induction ls with
  | nil => intro m; simp
  | cons x r ih =>
    intro m
    have := ih (max (leadingBackticks x) m)
    refine ⟨?_, ?_⟩
    · exact Nat.le_trans (Nat.le_max_right _ _) this.1
    · intro l hl
      rcases List.mem_cons.mp hl with rfl | hl
      · exact Nat.le_trans (Nat.le_max_left _ _) this.1
      · exact this.2 l hl

theorem startsWith_backticks_le (n : Nat) : ∀ (l : Line), startsWith l (backticks n) = true →
    n ≤ leadingBackticks l := by
  induction n with
  | zero => intro l _; exact Nat.zero_le _
  | succ n ih =>
    intro l h
    have e : backticks (n + 1) = '`' :: backticks n := by simp [backticks, List.replicate_succ]
    rw [e] at h
    cases l with
    | nil => simp [startsWith, List.isPrefixOf] at h
    | cons c r =>
      simp only [startsWith, List.isPrefixOf, Bool.and_eq_true, beq_iff_eq] at h
      obtain ⟨hc, hr⟩ := h
      subst hc
      have := ih r hr
      simp only [leadingBackticks, List.takeWhile, decide_true, List.length_cons] at this ⊢
      omega

/-- no line of the generated text starts with the fence that `update` chooses for it -/
theorem gen_lines_fence_safe (g : List Char) :
    ∀ l ∈ splitLines g, startsWith l (backticks (maxBacktickSize g + 1)) = false := by
  intro l hl
  cases h : startsWith l (backticks (maxBacktickSize g + 1)) with
  | false => rfl
  | true =>
    have h1 := startsWith_backticks_le _ l h
    have h2 := (foldl_max_ge (splitLines g) 2).2 l hl
    unfold maxBacktickSize at h1
    omega

theorem comment_not_fence (l : Line) (n : Nat) (hl : isComment l = true) :
    startsWith l (backticks (n + 1)) = false := by
  have e : backticks (n + 1) = '`' :: backticks n := by simp [backticks, List.replicate_succ]
  rw [e]
  cases l with
  | nil => simp [isComment] at hl
  | cons c r =>
    have hc : c = '#' := by
      unfold isComment at hl
      split at hl
      · rename_i h; cases h; rfl
      · cases hl
    subst hc
    simp [startsWith, List.isPrefixOf]

/-! ## the configuration text is made of characters of the fence line -/

theorem mem_trimEnd {c : Char} {l : Line} (h : c ∈ trimEnd l) : c ∈ l := by
  unfold trimEnd at h
  have h1 := List.mem_reverse.mp h
  exact List.mem_reverse.mp ((List.dropWhile_sublist _).subset h1)

theorem mem_trimStart {c : Char} {l : Line} (h : c ∈ trimStart l) : c ∈ l :=
  (List.dropWhile_sublist _).subset h

theorem scanSome_cfg_mem (pre : Line) : ∀ (rem mid : Line) (r : Line × Line × Line),
    scanSomePure pre mid rem = some r → ∀ c ∈ r.2.2, c ∈ rem := by
  intro rem
  induction rem with
  | nil =>
    intro mid r h c hc
    simp only [scanSomePure] at h
    injection h with h
    subst h
    simp at hc
  | cons ch rest ih =>
    intro mid r h c hc
    simp only [scanSomePure] at h
    split at h
    · injection h with h
      subst h
      exact mem_trimEnd hc
    · exact List.mem_cons_of_mem _ (ih _ r h c hc)

theorem scanNone_cfg_mem : ∀ (rem pre : Line) (r : Line × Line × Line),
    scanNonePure pre rem = some r → ∀ c ∈ r.2.2, c ∈ rem := by
  intro rem
  induction rem with
  | nil => intro pre r h; simp [scanNonePure] at h
  | cons ch rest ih =>
    intro pre r h c hc
    simp only [scanNonePure] at h
    split at h
    · split at h
      · cases h
      · split at h
        · cases h
        · exact List.mem_cons_of_mem _ (scanSome_cfg_mem pre rest [ch] r h c hc)
    · exact List.mem_cons_of_mem _ (ih _ r h c hc)

theorem fencePure_cfg_mem {l bt lang config : Line} (h : fencePure l = some (bt, lang, config)) :
    ∀ c ∈ config, c ∈ l := by
  unfold fencePure at h
  split at h
  · injection h with h
    injection h with _ h
    injection h with _ h
    subst h
    intro c hc
    simp at hc
  · exact scanNone_cfg_mem l [] _ h

theorem stripBraces_mem {config c : Line} (h : stripBraces config = some c) : ∀ x ∈ c, x ∈ config := by
  unfold stripBraces at h
  split at h
  · rename_i r
    split at h
    · rename_i m hm
      split at h
      · cases h
      · injection h with h
        subst h
        intro x hx
        have h1 : x ∈ m := List.mem_reverse.mp hx
        have h2 : x ∈ r.reverse := by rw [hm]; exact List.mem_cons_of_mem _ h1
        exact List.mem_cons_of_mem _ (List.mem_reverse.mp h2)
    · cases h
  · cases h

theorem cfgLines_no_nl {l bt lang config : Line} (h : fencePure l = some (bt, lang, config))
    (hl : '\n' ∉ l) (i : Nat) : '\n' ∉ joinNumbered (cfgLines i config) := by
  unfold cfgLines
  cases hs : stripBraces config with
  | none => simp [joinNumbered, joinNl]
  | some c =>
    simp only [joinNumbered, List.map_cons, List.map_nil, joinNl]
    intro hc
    exact hl (fencePure_cfg_mem h _ (stripBraces_mem hs _ hc))

/-- the fence line of a rewritten block is a clean line -/
theorem fence_line_clean (n : Nat) (lang : Line) (hl : LangOK lang) (cfg : Numbered)
    (hc : '\n' ∉ joinNumbered cfg) : Clean (backticks n ++ lang ++ configSuffix cfg) := by
  have hnl_lang : '\n' ∉ lang := fun h => by
    have := (hl _ h).2.2
    exact absurd this (by decide)
  have hcr_lang : '\r' ∉ lang := fun h => by
    have := (hl _ h).2.2
    exact absurd this (by decide)
  have hcr_bt : '\r' ∉ backticks n := fun h => by
    have := List.eq_of_mem_replicate h
    cases this
  unfold configSuffix
  simp only []
  split
  · refine ⟨?_, ?_⟩
    · simp only [List.append_nil, List.mem_append, not_or]
      exact ⟨backticks_no_nl n, hnl_lang⟩
    · intro h
      have := List.mem_of_getLast? h
      simp only [List.append_nil, List.mem_append] at this
      rcases this with h | h
      · exact hcr_bt h
      · exact hcr_lang h
  · refine ⟨?_, ?_⟩
    · simp only [List.mem_append, List.mem_cons, List.not_mem_nil, or_false, not_or]
      refine ⟨⟨backticks_no_nl n, hnl_lang⟩, by decide, by decide, fun h => hc (mem_blankStart h), by decide⟩
    · have e : backticks n ++ lang ++ ' ' :: '{' :: (blankStart (joinNumbered cfg) ++ ['}'])
          = (backticks n ++ lang ++ ' ' :: '{' :: blankStart (joinNumbered cfg)) ++ ['}'] := by simp
      rw [e, List.getLast?_append]
      simp

/-! ## forward loop lemmas -/

theorem fwd_front (L : List Line) (cs : Bool) (body rest : List Line) (hb : ∀ x ∈ body, x ≠ frontMatterFence) :
    ∀ (acc : Numbered) (li : Nat),
      runP L (.front acc) cs li (body ++ frontMatterFence :: rest)
        = .docConfig (acc ++ number li body) :: runP L .top cs (li + body.length + 1) rest := by
  induction body with
  | nil => intro acc li; simp [runP, number]
  | cons l r ih =>
    intro acc li
    have hl : l ≠ frontMatterFence := hb l (by simp)
    simp only [List.cons_append, runP, hl, if_false]
    rw [ih (fun x hx => hb x (by simp [hx]))]
    simp only [number, List.append_assoc, List.singleton_append, List.length_cons]
    congr 2
    omega

theorem fwd_verb_closed (L : List Line) (cs : Bool) (bt : Line) (start : Nat) (language : Line)
    (body : List Line) (closer : Line) (rest : List Line)
    (hb : ∀ x ∈ body, startsWith x bt = false) (hc : startsWith closer bt = true) :
    ∀ (acc : List Line) (li : Nat),
      runP L (.verb bt start language acc) cs li (body ++ closer :: rest)
        = .verbatim start language (acc ++ (body ++ [closer])) :: runP L .top cs (li + body.length + 1) rest := by
  induction body with
  | nil => intro acc li; simp [runP, hc]
  | cons l r ih =>
    intro acc li
    have hl : startsWith l bt = false := hb l (by simp)
    simp only [List.cons_append, runP, hl, Bool.false_eq_true, if_false]
    rw [ih (fun x hx => hb x (by simp [hx]))]
    simp only [List.append_assoc, List.singleton_append, List.length_cons]
    congr 2
    omega

theorem fwd_verb_open (L : List Line) (cs : Bool) (bt : Line) (start : Nat) (language : Line)
    (body : List Line) (hb : ∀ x ∈ body, startsWith x bt = false) :
    ∀ (acc : List Line) (li : Nat),
      runP L (.verb bt start language acc) cs li body = [.verbatim start language (acc ++ body)] := by
  induction body with
  | nil => intro acc li; simp [runP, Mode.flushTok]
  | cons l r ih =>
    intro acc li
    have hl : startsWith l bt = false := hb l (by simp)
    simp only [runP, hl, Bool.false_eq_true, if_false]
    rw [ih (fun x hx => hb x (by simp [hx]))]
    simp

theorem fwd_test_code (L : List Line) (cs : Bool) (bt language : Line) (cfg cm : Numbered)
    (code : List Line) (closer : Line) (rest : List Line)
    (hb : ∀ x ∈ code, startsWith x bt = false) (hc : startsWith closer bt = true) :
    ∀ (cd : Numbered) (li : Nat), (cd ≠ [] ∨ code.head?.map isComment ≠ some true) →
      runP L (.test bt language cfg cm cd) cs li (code ++ closer :: rest)
        = .test language cfg cm (cd ++ number li code) :: runP L .top cs (li + code.length + 1) rest := by
  induction code with
  | nil => intro cd li _; simp [runP, hc, number]
  | cons l r ih =>
    intro cd li hcd
    have hl : startsWith l bt = false := hb l (by simp)
    have hcond : (cd.isEmpty && isComment l) = false := by
      rcases hcd with h | h
      · have : cd.isEmpty = false := by simpa using h
        simp [this]
      · have : isComment l = false := by
          cases hi : isComment l with
          | false => rfl
          | true => simp [hi] at h
        simp [this]
    simp only [List.cons_append, runP, hl, Bool.false_eq_true, if_false, hcond]
    rw [ih (fun x hx => hb x (by simp [hx])) (cd ++ [(li, l)]) (li + 1) (Or.inl (by simp))]
    simp only [number, List.append_assoc, List.singleton_append, List.length_cons]
    congr 2
    omega

theorem fwd_test_comments (L : List Line) (cs : Bool) (bt language : Line) (cfg : Numbered)
    (comments : List Line) (tail : List Line)
    (hb : ∀ x ∈ comments, startsWith x bt = false) (hcm : ∀ x ∈ comments, isComment x = true) :
    ∀ (cm : Numbered) (li : Nat),
      runP L (.test bt language cfg cm []) cs li (comments ++ tail)
        = runP L (.test bt language cfg (cm ++ number li comments) []) cs (li + comments.length) tail := by
  induction comments with
  | nil => intro cm li; simp [number]
  | cons l r ih =>
    intro cm li
    have hl : startsWith l bt = false := hb l (by simp)
    have hc : isComment l = true := hcm l (by simp)
    simp only [List.cons_append, runP, hl, Bool.false_eq_true, if_false, List.isEmpty_nil, hc, Bool.and_self,
      if_true]
    rw [ih (fun x hx => hb x (by simp [hx])) (fun x hx => hcm x (by simp [hx]))]
    simp only [number, List.append_assoc, List.singleton_append, List.length_cons]
    congr 1
    omega

/-- the comment lines of a test token are comments -/
theorem test_head_comments (L : List Line) (bt language : Line) (cfg : Numbered) (cs : Bool) :
    ∀ (lines : List Line) (cm cd : Numbered) (li : Nat), (∀ c ∈ cm, isComment c.2 = true) →
      ∃ cm' cd' rest, runP L (.test bt language cfg cm cd) cs li lines = .test language cfg cm' cd' :: rest ∧
        (∀ c ∈ cm', isComment c.2 = true) := by
  intro lines
  induction lines with
  | nil => intro cm cd li h; exact ⟨cm, cd, [], by simp [runP, Mode.flushTok], h⟩
  | cons l r ih =>
    intro cm cd li h
    simp only [runP]
    split
    · exact ⟨cm, cd, _, rfl, h⟩
    · split
      · rename_i hc
        have hl : isComment l = true := by
          simp only [Bool.and_eq_true] at hc
          exact hc.2
        exact ih (cm ++ [(li, l)]) cd (li + 1) (by
          intro c hc'
          rcases List.mem_append.mp hc' with h' | h'
          · exact h c h'
          · have : c = (li, l) := by simpa using h'
            subst this; exact hl)
      · exact ih cm _ (li + 1) h

/-! ## a rewritten block is read back -/

theorem clean_backticks (n : Nat) : Clean (backticks n) := by
  refine ⟨backticks_no_nl n, ?_⟩
  intro h
  have := List.eq_of_mem_replicate (List.mem_of_getLast? h)
  cases this

theorem clean_front : Clean frontMatterFence := by
  refine ⟨by decide, by decide⟩

theorem testBlock_lines (bt language : Line) (cfg cm : Numbered) (g t : List Char)
    (hf : Clean (bt ++ language ++ configSuffix cfg)) (hcm : ∀ c ∈ cm, Clean c.2) (hg : EndsNl g)
    (hbt : Clean bt) :
    splitLines (testBlock bt language cfg cm g ++ t)
      = (bt ++ language ++ configSuffix cfg) :: (cm.map (·.2) ++ (splitLines g ++ (bt :: splitLines t))) := by
  have e : testBlock bt language cfg cm g ++ t
      = (bt ++ language ++ configSuffix cfg) ++ '\n' :: (unlines (cm.map (·.2)) ++ (g ++ (bt ++ '\n' :: t))) := by
    simp only [testBlock, commentText_eq cm (fun c hc => (hcm c hc).1), assureNewline_clean hbt.1,
      List.append_assoc, List.singleton_append, List.cons_append, List.nil_append]
  rw [e, splitLines_line _ _ hf, splitLines_unlines_append _ (by
    intro l hl
    obtain ⟨c, hc, rfl⟩ := List.mem_map.mp hl
    exact hcm c hc), splitLines_append g _ hg, splitLines_line bt t hbt]

theorem fencePure_ne_front {l : Line} {r : Line × Line × Line} (h : fencePure l = some r) :
    l ≠ frontMatterFence := by
  intro e
  subst e
  rw [fencePure_frontMatterFence] at h
  cases h

/-- The tokenizer on the lines of a rewritten block followed by `X`. -/
theorem retok_block (L : List Line) (cs : Bool) (li' : Nat) (n : Nat) (hn : 3 ≤ n) (lang : Line)
    (hlang : L.contains lang = true) (hl : LangOK lang) (cfg : Numbered)
    (comments code X : List Line)
    (hcm : ∀ x ∈ comments, isComment x = true)
    (hcode : ∀ x ∈ code, startsWith x (backticks n) = false)
    (hhead : code.head?.map isComment ≠ some true) :
    ∃ cfg', configSuffix cfg' = configSuffix cfg ∧ cfg'.map (·.2) = writtenCfg cfg ∧
      runP L .top cs li' ((backticks n ++ lang ++ configSuffix cfg) :: (comments ++ (code ++ (backticks n :: X))))
        = .test lang cfg' (number (li' + 1) comments) (number (li' + 1 + comments.length) code)
            :: runP L .top true (li' + 1 + comments.length + code.length + 1) X := by
  obtain ⟨config', hf, hcfg, hcw⟩ := fence_line_reread_cfg n hn lang hl cfg
  refine ⟨cfgLines li' config', hcfg li', hcw li', ?_⟩
  rw [runP_top_cons]
  have h1 : (!cs && decide (backticks n ++ lang ++ configSuffix cfg = frontMatterFence)) = false := by
    have := fencePure_ne_front hf
    simp only [Bool.and_eq_false_iff, decide_eq_false_iff_not]
    exact Or.inr this
  simp only [h1, hf, hlang, Bool.false_eq_true, if_false, Bool.not_true]
  obtain ⟨m, rfl⟩ : ∃ m, n = m + 1 := ⟨n - 1, by omega⟩
  rw [fwd_test_comments L true (backticks (m + 1)) lang (cfgLines li' config') comments _
    (fun x hx => comment_not_fence x m (hcm x hx)) hcm [] (li' + 1)]
  have hclose : startsWith (backticks (m + 1)) (backticks (m + 1)) = true := by
    simp [startsWith]
  rw [fwd_test_code L true (backticks (m + 1)) lang (cfgLines li' config') ([] ++ number (li' + 1) comments)
    code (backticks (m + 1)) X hcode hclose [] (li' + 1 + comments.length) (Or.inr hhead)]
  simp

theorem two_le_maxBacktickSize (g : List Char) : 2 ≤ maxBacktickSize g :=
  (foldl_max_ge (splitLines g) 2).1

/-- one scrut block token: what `update` writes for it is read back as one scrut block token -/
theorem retok_test_token (L : List Line) (gens : List (Option (List Char)))
    (hg : ∀ (k : Nat) (g : List Char), gens[k]? = some (some g) → GenOK g)
    (lang : Line) (hlang : L.contains lang = true) (hl : LangOK lang) (cfg cm cd : Numbered)
    (hcfg : '\n' ∉ joinNumbered cfg)
    (hcm : ∀ c ∈ cm, isComment c.2 = true) (hclean : ∀ c ∈ cm, Clean c.2)
    (k k' : Nat) (s : List Char) (he : emitTok gens k (.test lang cfg cm cd) = .ok (s, k')) :
    ∀ (cs : Bool) (li' : Nat) (t : List Char), ∃ cfg' cm' cd' j,
      runP L .top cs li' (splitLines (s ++ t)) = .test lang cfg' cm' cd' :: runP L .top true j (splitLines t) ∧
      configSuffix cfg' = configSuffix cfg ∧ cfg'.map (·.2) = writtenCfg cfg ∧ cm'.map (·.2) = cm.map (·.2) ∧
      ((cd = [] ∧ cd' = [] ∧ k' = k) ∨
       (cd ≠ [] ∧ ∃ g, gens[k]? = some (some g) ∧ cd'.map (·.2) = splitLines g ∧ cd' ≠ [] ∧ k' = k + 1)) := by
  intro cs li' t
  have hcmm : ∀ x ∈ cm.map (·.2), isComment x = true := by
    intro x hx
    obtain ⟨c, hc, rfl⟩ := List.mem_map.mp hx
    exact hcm c hc
  simp only [emitTok] at he
  split at he
  · rename_i hce
    have hce : cd = [] := by simpa using hce
    injection he with he
    injection he with h1 h2
    subst h1 h2
    rw [testBlock_lines (backticks 3) lang cfg cm [] t (fence_line_clean 3 lang hl cfg hcfg) hclean
      (Or.inl rfl) (clean_backticks 3)]
    obtain ⟨cfg', hc1, hcw, hc2⟩ := retok_block L cs li' 3 (Nat.le_refl _) lang hlang hl cfg (cm.map (·.2)) []
      (splitLines t) hcmm (by simp) (by simp)
    have e : splitLines ([] : List Char) = [] := rfl
    rw [e]
    simp only [List.nil_append] at hc2 ⊢
    exact ⟨cfg', _, _, _, hc2, hc1, hcw, number_map_snd _ _, Or.inl (by refine ⟨hce, ?_, ?_⟩ <;> simp [number])⟩
  · rename_i hce
    have hce : cd ≠ [] := by simpa using hce
    cases hgk : gens[k]? with
    | none => rw [hgk] at he; cases he
    | some o =>
      cases o with
      | none => rw [hgk] at he; cases he
      | some g =>
        rw [hgk] at he
        simp only [] at he
        injection he with he
        injection he with h1 h2
        subst h1 h2
        have hgen := hg k g hgk
        have hm := two_le_maxBacktickSize g
        rw [testBlock_lines (backticks (maxBacktickSize g + 1)) lang cfg cm g t
          (fence_line_clean _ lang hl cfg hcfg) hclean (Or.inr hgen.1) (clean_backticks _)]
        obtain ⟨cfg', hc1, hcw, hc2⟩ := retok_block L cs li' (maxBacktickSize g + 1) (by omega) lang hlang hl cfg
          (cm.map (·.2)) (splitLines g) (splitLines t) hcmm (gen_lines_fence_safe g)
          (by rw [hgen.2]; simp)
        refine ⟨cfg', _, _, _, hc2, hc1, hcw, number_map_snd _ _, Or.inr ⟨hce, g, rfl, number_map_snd _ _, ?_, rfl⟩⟩
        intro hn
        have hh := hgen.2
        cases hsl : splitLines g with
        | nil => rw [hsl] at hh; simp at hh
        | cons x xs => rw [hsl] at hn; simp [number] at hn

/-! ## the main induction -/

theorem frontClosed_line (N pos i : Nat) (l : Line) (T : List Tok) :
    frontClosed N pos (.line i l :: T) = frontClosed N (pos + 1) T := rfl

theorem frontClosed_verbatim (N pos st : Nat) (lang : Line) (ls : List Line) (T : List Tok) :
    frontClosed N pos (.verbatim st lang ls :: T) = frontClosed N (pos + ls.length) T := rfl

theorem frontClosed_test (N pos : Nat) (lang : Line) (cfg cm cd : Numbered) (T : List Tok) :
    frontClosed N pos (.test lang cfg cm cd :: T) = frontClosed N (pos + (cm.length + cd.length + 2)) T := rfl

theorem runP_nil (L : List Line) (cs : Bool) (li : Nat) : runP L .top cs li [] = [] := by
  simp [runP, Mode.flushTok]

theorem splitLines_nil : splitLines [] = [] := rfl

theorem emit_nil_ok {gens : List (Option (List Char))} {k : Nat} {r : List Char}
    (h : emit gens k [] = .ok r) : r = [] := by
  simp only [emit] at h
  injection h with h
  exact h.symm

/-- the configuration lines of the scrut block tokens, in order -/
def cfgsOf : List Tok → List Numbered
  | [] => []
  | .test _ cfg _ _ :: r => cfg :: cfgsOf r
  | .line _ _ :: r => cfgsOf r
  | .docConfig _ :: r => cfgsOf r
  | .verbatim _ _ _ :: r => cfgsOf r

/-- the texts of the configuration lines -/
def cfgTexts (toks : List Tok) : List (List Line) := (cfgsOf toks).map (fun c => c.map (·.2))

theorem retok_main_cfg (L : List Line) (hL : ∀ lang, L.contains lang = true → LangOK lang)
    (gens : List (Option (List Char)))
    (hg : ∀ (k : Nat) (g : List Char), gens[k]? = some (some g) → GenOK g) :
    ∀ (n : Nat) (src : List Line), src.length ≤ n →
      ∀ (cs : Bool) (li li' N k : Nat) (out : List Char), li + src.length = N → (∀ l ∈ src, Clean l) →
        frontClosed N li (runP L .top cs li src) = true →
        emit gens k (runP L .top cs li src) = .ok out →
        Reread gens k (runP L .top cs li src) (runP L .top cs li' (splitLines out)) ∧
        cfgTexts (runP L .top cs li' (splitLines out)) = (cfgsOf (runP L .top cs li src)).map writtenCfg := by
  intro n
  induction n with
  | zero =>
    intro src hlen cs li li' N k out _ _ _ hem
    have : src = [] := List.eq_nil_of_length_eq_zero (by omega)
    subst this
    rw [runP_nil] at hem ⊢
    rw [emit_nil_ok hem, splitLines_nil, runP_nil]
    exact ⟨.nil k, rfl⟩
  | succ n ih =>
    intro src hlen cs li li' N k out hN hcl hfc hem
    cases src with
    | nil =>
      rw [runP_nil] at hem ⊢
      rw [emit_nil_ok hem, splitLines_nil, runP_nil]
      exact ⟨.nil k, rfl⟩
    | cons l rest =>
      have hr : rest.length ≤ n := by simp at hlen; omega
      have hcl_l : Clean l := hcl l (by simp)
      have hcl_r : ∀ x ∈ rest, Clean x := fun x hx => hcl x (by simp [hx])
      have hN1 : li + 1 + rest.length = N := by simp at hN; omega
      rw [runP_top_cons] at hfc hem ⊢
      by_cases hfm : (!cs && decide (l = frontMatterFence)) = true
      · -- front-matter
        simp only [hfm, if_true] at hfc hem ⊢
        have hfm2 : cs = false ∧ l = frontMatterFence := by simpa using hfm
        obtain ⟨hcs, hl⟩ := hfm2
        subst hl
        rcases front_loop L cs rest [] (li + 1) with ⟨body, rest', h1, h2, h3⟩ | ⟨_, h3⟩
        · simp only [List.nil_append] at h3
          rw [h3] at hfc hem ⊢
          obtain ⟨s, k', r, he1, he2, he3⟩ := emit_cons_ok hem
          simp only [emitTok] at he1
          injection he1 with he1
          injection he1 with hs hk
          subst hk hs he3
          have hbc : ∀ x ∈ body, Clean x := fun x hx => hcl_r x (by rw [h1]; simp [hx])
          have hrc : ∀ x ∈ rest', Clean x := fun x hx => hcl_r x (by rw [h1]; simp [hx])
          have hlen' : rest'.length ≤ n := by rw [h1] at hr; simp at hr; omega
          have hN' : li + 1 + body.length + 1 + rest'.length = N := by
            rw [h1] at hN1; simp at hN1; omega
          simp only [frontClosed, number_length, Bool.and_eq_true] at hfc
          have hfc2 := hfc.2
          have ej : li + body.length + 2 = li + 1 + body.length + 1 := by omega
          rw [ej] at hfc2
          rw [docConfig_text _ body (fun x hx => (hbc x hx).1),
            splitLines_unlines_append _ (by
              intro x hx
              rcases List.mem_cons.mp hx with rfl | hx
              · exact clean_front
              · rcases List.mem_append.mp hx with hx | hx
                · exact hbc x hx
                · have : x = frontMatterFence := by simpa using hx
                  subst this; exact clean_front) r]
          have e : (frontMatterFence :: (body ++ [frontMatterFence])) ++ splitLines r
              = frontMatterFence :: (body ++ frontMatterFence :: splitLines r) := by simp
          rw [e, runP_top_cons, if_pos hfm]
          rw [fwd_front L cs body _ h2 [] (li' + 1)]
          simp only [List.nil_append]
          have IH := ih rest' hlen' cs _ (li' + 1 + body.length + 1) N k r hN' hrc hfc2 he2
          exact ⟨Reread.front k (number (li + 1) body) (number (li' + 1) body) _ _ (by rw [number_map_snd, number_map_snd])
            IH.1, by simpa only [cfgTexts, cfgsOf] using IH.2⟩
        · exfalso
          rw [h3] at hfc
          simp only [List.nil_append, frontClosed, number_length, Bool.and_true, decide_eq_true_eq] at hfc
          omega
      · have hfm' : (!cs && decide (l = frontMatterFence)) = false := by simpa using hfm
        simp only [hfm', Bool.false_eq_true, if_false] at hfc hem ⊢
        cases hf : fencePure l with
        | none =>
          -- a line
          simp only [hf] at hfc hem ⊢
          obtain ⟨s, k', r, he1, he2, he3⟩ := emit_cons_ok hem
          simp only [emitTok] at he1
          injection he1 with he1
          injection he1 with hs hk
          subst hk hs he3
          rw [frontClosed_line] at hfc
          rw [assureNewline_clean hcl_l.1]
          have e : l ++ ['\n'] ++ r = l ++ '\n' :: r := by simp
          rw [e, splitLines_line l r hcl_l, runP_top_cons]
          simp only [hfm', Bool.false_eq_true, if_false, hf]
          have IH := ih rest hr _ (li + 1) (li' + 1) N k r hN1 hcl_r hfc he2
          exact ⟨Reread.line k _ _ l _ _ IH.1, by simpa only [cfgTexts, cfgsOf] using IH.2⟩
        | some t =>
          obtain ⟨bt, lang, config⟩ := t
          simp only [hf] at hfc hem ⊢
          by_cases hlang : L.contains lang = true
          · -- a scrut block
            have hnl : (!L.contains lang) = false := by rw [hlang]; rfl
            simp only [hnl, Bool.false_eq_true, if_false] at hfc hem ⊢
            obtain ⟨cmA, cdA, restA, hA, hAc⟩ :=
              test_head_comments L bt lang (cfgLines li config) true rest [] [] (li + 1) (by simp)
            rcases test_loop L true bt lang (cfgLines li config) rest [] [] (li + 1) with
              ⟨body, closer, rest', cm', cd', h1, _, _, h4, h3⟩ | ⟨cm', cd', _, h4, h3⟩
            · rw [h3] at hA hfc hem ⊢
              injection hA with hA1 _
              injection hA1 with _ _ hcmeq _
              subst hcmeq
              simp only [List.append_nil, List.nil_append] at h4
              have hmap : cm'.map (·.2) ++ cd'.map (·.2) = body := by
                have := congrArg (List.map (·.2)) h4
                simpa [number_map_snd] using this
              have hlenb : cm'.length + cd'.length = body.length := by
                have := congrArg List.length h4
                simpa [number_length] using this
              have hclean : ∀ c ∈ cm', Clean c.2 := by
                intro c hc
                apply hcl_r
                rw [h1, ← hmap]
                exact List.mem_append_left _ (List.mem_append_left _ (List.mem_map_of_mem hc))
              have hrc : ∀ x ∈ rest', Clean x := fun x hx => hcl_r x (by rw [h1]; simp [hx])
              have hlen' : rest'.length ≤ n := by rw [h1] at hr; simp at hr; omega
              have hN' : li + 1 + body.length + 1 + rest'.length = N := by
                rw [h1] at hN1; simp at hN1; omega
              rw [frontClosed_test] at hfc
              have ej : li + (cm'.length + cd'.length + 2) = li + 1 + body.length + 1 := by omega
              rw [ej] at hfc
              obtain ⟨s, k', r, he1, he2, he3⟩ := emit_cons_ok hem
              subst he3
              obtain ⟨cfg', cm'', cd'', j, hrun, hc1, hcw, hc2, hcases⟩ :=
                retok_test_token L gens hg lang hlang (hL lang hlang) (cfgLines li config) cm' cd'
                  (cfgLines_no_nl hf hcl_l.1 li) hAc hclean k k' s he1 cs li' r
              rw [hrun]
              rcases hcases with ⟨hcd, hcd', hk⟩ | ⟨hcd, g, hgk, hcdm, hcdn, hk⟩
              · subst hcd hcd' hk
                have IH := ih rest' hlen' true _ j N _ r hN' hrc hfc he2
                exact ⟨Reread.testNoCode _ lang _ cfg' cm' cm'' _ _ hc1 hc2 IH.1, by
                  simp only [cfgTexts, cfgsOf, List.map_cons, hcw]; rw [← IH.2]; rfl⟩
              · subst hk
                have IH := ih rest' hlen' true _ j N _ r hN' hrc hfc he2
                exact ⟨Reread.testCode k lang _ cfg' cm' cm'' cd' cd'' g _ _ hcd hgk hc1 hc2 hcdm hcdn IH.1, by
                  simp only [cfgTexts, cfgsOf, List.map_cons, hcw]; rw [← IH.2]; rfl⟩
            · rw [h3] at hA hem ⊢
              injection hA with hA1 _
              injection hA1 with _ _ hcmeq _
              subst hcmeq
              simp only [List.append_nil, List.nil_append] at h4
              have hmap : cm'.map (·.2) ++ cd'.map (·.2) = rest := by
                have := congrArg (List.map (·.2)) h4
                simpa [number_map_snd] using this
              have hclean : ∀ c ∈ cm', Clean c.2 := by
                intro c hc
                apply hcl_r
                rw [← hmap]
                exact List.mem_append_left _ (List.mem_map_of_mem hc)
              obtain ⟨s, k', r, he1, he2, he3⟩ := emit_cons_ok hem
              subst he3
              have hr0 := emit_nil_ok he2
              subst hr0
              obtain ⟨cfg', cm'', cd'', j, hrun, hc1, hcw, hc2, hcases⟩ :=
                retok_test_token L gens hg lang hlang (hL lang hlang) (cfgLines li config) cm' cd'
                  (cfgLines_no_nl hf hcl_l.1 li) hAc hclean k k' s he1 cs li' []
              rw [hrun, splitLines_nil, runP_nil]
              rcases hcases with ⟨hcd, hcd', hk⟩ | ⟨hcd, g, hgk, hcdm, hcdn, hk⟩
              · subst hcd hcd' hk
                exact ⟨Reread.testNoCode _ lang _ cfg' cm' cm'' _ _ hc1 hc2 (.nil _), by
                  simp only [cfgTexts, cfgsOf, List.map_cons, List.map_nil, hcw]⟩
              · subst hk
                exact ⟨Reread.testCode k lang _ cfg' cm' cm'' cd' cd'' g _ _ hcd hgk hc1 hc2 hcdm hcdn (.nil _), by
                  simp only [cfgTexts, cfgsOf, List.map_cons, List.map_nil, hcw]⟩
          · -- a foreign block
            have hnl : (!L.contains lang) = true := by
              cases hc : L.contains lang with
              | true => exact absurd hc hlang
              | false => rfl
            simp only [hnl, if_true] at hfc hem ⊢
            rcases verb_loop L true bt li lang rest [l] (li + 1) with
              ⟨body, closer, rest', h1, h2, hc, h3⟩ | ⟨h2, h3⟩
            · rw [h3] at hfc hem ⊢
              obtain ⟨s, k', r, he1, he2, he3⟩ := emit_cons_ok hem
              simp only [emitTok] at he1
              injection he1 with he1
              injection he1 with hs hk
              subst hk hs he3
              have hall : ∀ x ∈ [l] ++ (body ++ [closer]), Clean x := by
                intro x hx
                apply hcl
                rw [h1]
                simp only [List.mem_append, List.mem_cons, List.not_mem_nil, or_false] at hx ⊢
                rcases hx with h | h | h
                · exact Or.inl h
                · exact Or.inr (Or.inl h)
                · exact Or.inr (Or.inr (Or.inl h))
              have hrc : ∀ x ∈ rest', Clean x := fun x hx => hcl_r x (by rw [h1]; simp [hx])
              have hlen' : rest'.length ≤ n := by rw [h1] at hr; simp at hr; omega
              have hN' : li + 1 + body.length + 1 + rest'.length = N := by
                rw [h1] at hN1; simp at hN1; omega
              rw [frontClosed_verbatim] at hfc
              have ej : li + ([l] ++ (body ++ [closer])).length = li + 1 + body.length + 1 := by
                simp; omega
              rw [ej] at hfc
              rw [flatMap_assure _ (fun x hx => (hall x hx).1), splitLines_unlines_append _ hall r]
              have e : [l] ++ (body ++ [closer]) ++ splitLines r = l :: (body ++ closer :: splitLines r) := by simp
              rw [e, runP_top_cons]
              simp only [hfm', Bool.false_eq_true, if_false, hf, hnl, if_true]
              rw [fwd_verb_closed L true bt li' lang body closer _ h2 hc [l] (li' + 1)]
              have IH := ih rest' hlen' true _ (li' + 1 + body.length + 1) N k r hN' hrc hfc he2
              exact ⟨Reread.verbatim k _ _ lang _ _ _ IH.1, by simpa only [cfgTexts, cfgsOf] using IH.2⟩
            · rw [h3] at hem ⊢
              obtain ⟨s, k', r, he1, he2, he3⟩ := emit_cons_ok hem
              simp only [emitTok] at he1
              injection he1 with he1
              injection he1 with hs hk
              subst hk hs he3
              have hr0 := emit_nil_ok he2
              subst hr0
              have hall : ∀ x ∈ [l] ++ rest, Clean x := by
                intro x hx
                exact hcl x (by simpa using hx)
              rw [flatMap_assure _ (fun x hx => (hall x hx).1), splitLines_unlines_append _ hall [],
                splitLines_nil]
              have e : [l] ++ rest ++ [] = l :: rest := by simp
              rw [e, runP_top_cons]
              simp only [hfm', Bool.false_eq_true, if_false, hf, hnl, if_true]
              rw [fwd_verb_open L true bt li' lang rest h2 [l] (li' + 1)]
              exact ⟨Reread.verbatim k _ _ lang _ _ _ (.nil k), rfl⟩

theorem retok_main (L : List Line) (hL : ∀ lang, L.contains lang = true → LangOK lang)
    (gens : List (Option (List Char)))
    (hg : ∀ (k : Nat) (g : List Char), gens[k]? = some (some g) → GenOK g) :
    ∀ (n : Nat) (src : List Line), src.length ≤ n →
      ∀ (cs : Bool) (li li' N k : Nat) (out : List Char), li + src.length = N → (∀ l ∈ src, Clean l) →
        frontClosed N li (runP L .top cs li src) = true →
        emit gens k (runP L .top cs li src) = .ok out →
        Reread gens k (runP L .top cs li src) (runP L .top cs li' (splitLines out)) :=
  fun n src hlen cs li li' N k out hN hcl hfc hem =>
    (retok_main_cfg L hL gens hg n src hlen cs li li' N k out hN hcl hfc hem).1

/-! ## consequences -/

theorem reread_allSame {gens : List (Option (List Char))} {k : Nat} {toks toks' : List Tok}
    (h : Reread gens k toks toks') : AllSame toks toks' := by
  induction h with
  | nil k => exact .nil
  | line k i i' l r r' _ ih => exact .cons rfl ih
  | front k ls ls' r r' hm _ ih => exact .cons hm.symm ih
  | verbatim k s s' lang ls r r' _ ih => exact .cons rfl ih
  | testNoCode k lang cfg cfg' cm cm' r r' hc hm _ ih => exact .cons ⟨rfl, hc.symm, hm.symm, rfl⟩ ih
  | testCode k lang cfg cfg' cm cm' cd cd' g r r' hcd _ hc hm _ hcd' _ ih =>
    refine .cons ⟨rfl, hc.symm, hm.symm, ?_⟩ ih
    have h1 : cd.isEmpty = false := by simpa using hcd
    have h2 : cd'.isEmpty = false := by simpa using hcd'
    rw [h1, h2]

/-- the tokens of the updated document -/
theorem generateUpdate_reread (L : List Line) (hL : ∀ lang, L.contains lang = true → LangOK lang)
    (gens : List (Option (List Char))) (hne : gens ≠ [])
    (hg : ∀ (k : Nat) (g : List Char), gens[k]? = some (some g) → GenOK g)
    (doc out : List Char) (hcr : ∀ l ∈ splitLines doc, l.getLast? ≠ some '\r')
    (toks : List Tok) (ht : tokenize L (splitLines doc) = .ok toks)
    (hfc : frontClosed (splitLines doc).length 0 toks = true)
    (h : generateUpdate L doc gens = .ok out) :
    ∃ toks', tokenize L (splitLines out) = .ok toks' ∧ Reread gens 0 toks toks' := by
  unfold generateUpdate at h
  have hie : gens.isEmpty = false := by simpa using hne
  rw [hie, ht] at h
  rw [tokenize_eq] at ht
  injection ht with ht
  subst ht
  refine ⟨_, tokenize_eq L (splitLines out), ?_⟩
  exact retok_main L hL gens hg (splitLines doc).length (splitLines doc) (Nat.le_refl _) false 0 0
    (splitLines doc).length 0 out (by simp) (fun l hl => ⟨splitLines_no_nl doc l hl, hcr l hl⟩) hfc h

/-- the tokens of the updated document, with the configuration texts read back: `writtenCfg` of the original ones -/
theorem generateUpdate_reread_cfg (L : List Line) (hL : ∀ lang, L.contains lang = true → LangOK lang)
    (gens : List (Option (List Char))) (hne : gens ≠ [])
    (hg : ∀ (k : Nat) (g : List Char), gens[k]? = some (some g) → GenOK g)
    (doc out : List Char) (hcr : ∀ l ∈ splitLines doc, l.getLast? ≠ some '\r')
    (hfc : frontClosed (splitLines doc).length 0 (runP L .top false 0 (splitLines doc)) = true)
    (h : generateUpdate L doc gens = .ok out) :
    Reread gens 0 (runP L .top false 0 (splitLines doc)) (runP L .top false 0 (splitLines out)) ∧
    cfgTexts (runP L .top false 0 (splitLines out)) = (cfgsOf (runP L .top false 0 (splitLines doc))).map writtenCfg := by
  unfold generateUpdate at h
  have hie : gens.isEmpty = false := by simpa using hne
  rw [hie, tokenize_eq] at h
  exact retok_main_cfg L hL gens hg (splitLines doc).length (splitLines doc) (Nat.le_refl _) false 0 0
    (splitLines doc).length 0 out (by simp) (fun l hl => ⟨splitLines_no_nl doc l hl, hcr l hl⟩) hfc h

theorem generateUpdate_idempotent (L : List Line) (hL : ∀ lang, L.contains lang = true → LangOK lang)
    (gens : List (Option (List Char))) (hne : gens ≠ [])
    (hg : ∀ (k : Nat) (g : List Char), gens[k]? = some (some g) → GenOK g)
    (doc out : List Char) (hcr : ∀ l ∈ splitLines doc, l.getLast? ≠ some '\r')
    (toks : List Tok) (ht : tokenize L (splitLines doc) = .ok toks)
    (hfc : frontClosed (splitLines doc).length 0 toks = true)
    (h : generateUpdate L doc gens = .ok out) :
    generateUpdate L out gens = .ok out := by
  obtain ⟨toks', ht', hr⟩ := generateUpdate_reread L hL gens hne hg doc out hcr toks ht hfc h
  have hie : gens.isEmpty = false := by simpa using hne
  unfold generateUpdate at h ⊢
  rw [hie, ht] at h
  rw [hie, ht']
  simp only [Bool.false_eq_true, if_false]
  rw [emit_sameTexts gens toks toks' (reread_allSame hr) 0]
  exact h

end Scrut.Update
