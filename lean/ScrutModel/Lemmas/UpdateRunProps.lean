import ScrutModel.Model.UpdateRun
import ScrutModel.Lemmas.UpdateRetok
import ScrutModel.Lemmas.GenerateUpdate
import ScrutModel.Lemmas.TestRun
import ScrutModel.Lemmas.UpdateRunAlign
import ScrutModel.Lemmas.UpdateRunRejudge
import ScrutModel.Lemmas.GeneratePrintable
/-!
# Theorems about the INTEGRATED model of `scrut update` (`Model/UpdateRun.lean`)

The piece theorems of C09 / C10 (about `Update.generateUpdate`, `Gen.generateTestcaseUpd`, the
matcher) lifted through the composition `updateDocument` / `updateDocumentBytes`.
-/
namespace Scrut.UpdateRun
open Scrut Scrut.TestRun Scrut.Markdown Scrut.Update

/-! ## 1. what the composition does, as equations -/

/-- the tests of the document as `updateDocument` prepares them (`none`: the command ends before
`updateTests`: parse error, front-matter / configuration outside the composition) -/
def docTests (content : List Char) : Option (List UTest) :=
  match Markdown.parseMarkdown parseEnv content with
  | .error _ => none
  | .ok p =>
    if !p.docConfigs.all frontMatterHarmless then none else
    match p.tests.mapM prepareU with
    | .error _ => none
    | .ok tests => some tests

/-- the outcomes `(result, generated text)` of the document's tests on the given runs -/
def docOutcomes (isOther : Char → Bool) (content : List Char) (runs : List Ran) :
    Option (List (Gen.UpdResult × Option (List Char))) :=
  match docTests content with
  | none => none
  | some tests =>
    match judgeAll isOther tests runs with
    | .error _ => none
    | .ok os => some os

/-- the texts handed to `generate_update`, one per test -/
def docGens (isOther : Char → Bool) (content : List Char) (runs : List Ran) :
    Option (List (Option (List Char))) :=
  (docOutcomes isOther content runs).map (fun os => os.map (·.2))

theorem updateDocument_of_docTests (isOther : Char → Bool) (content : List Char) (runs : List Ran)
    (tests : List UTest) (h : docTests content = some tests) :
    updateDocument isOther content runs = updateTests isOther content tests runs := by
  unfold docTests at h
  unfold updateDocument
  cases hp : Markdown.parseMarkdown parseEnv content with
  | error e => simp [hp] at h
  | ok p =>
    simp only [hp] at h ⊢
    by_cases hf : (!p.docConfigs.all frontMatterHarmless) = true
    · simp [hf] at h
    · simp only [hf] at h ⊢
      cases hm : p.tests.mapM prepareU with
      | error e => simp [hm] at h
      | ok ts =>
        simp only [hm] at h ⊢
        cases h; rfl

/-- a document that `updateDocument` leaves alone or overwrites got as far as `updateTests` -/
theorem docTests_of_result (isOther : Char → Bool) (content : List Char) (runs : List Ran)
    (h : (∃ rs, updateDocument isOther content runs = .unchanged rs) ∨
         (∃ t rs, updateDocument isOther content runs = .updated t rs)) :
    ∃ tests, docTests content = some tests := by
  unfold updateDocument at h
  unfold docTests
  cases hp : Markdown.parseMarkdown parseEnv content with
  | error e =>
    exfalso
    cases e <;> simp [hp] at h
  | ok p =>
    simp only [hp] at h ⊢
    by_cases hf : (!p.docConfigs.all frontMatterHarmless) = true
    · simp [hf] at h
    · simp only [hf] at h ⊢
      cases hm : p.tests.mapM prepareU with
      | error e =>
        exfalso
        cases e <;> simp [hm] at h
      | ok ts => exact ⟨ts, rfl⟩

/-! ### `judgeAll` -/

theorem judgeAll_length (isOther : Char → Bool) :
    ∀ (tests : List UTest) (runs : List Ran) (os : List (Gen.UpdResult × Option (List Char))),
      judgeAll isOther tests runs = .ok os → tests.length ≤ runs.length → os.length = tests.length
  | [], _, os, h, _ => by simp [judgeAll] at h; subst h; rfl
  | _ :: _, [], _, _, hl => by simp at hl
  | u :: us, r :: rs, os, h, hl => by
    unfold judgeAll at h
    cases ho : outcomeText isOther u r with
    | error e => simp [ho] at h
    | ok o =>
      cases hr : judgeAll isOther us rs with
      | error e => simp [ho, hr] at h
      | ok os' =>
        simp only [ho, hr] at h
        cases h
        have := judgeAll_length isOther us rs os' hr (by simpa using hl)
        simp [this]

theorem judgeAll_get (isOther : Char → Bool) :
    ∀ (tests : List UTest) (runs : List Ran) (os : List (Gen.UpdResult × Option (List Char))),
      judgeAll isOther tests runs = .ok os →
      ∀ (i : Nat) (o : Gen.UpdResult × Option (List Char)), os[i]? = some o →
        ∃ u r, tests[i]? = some u ∧ runs[i]? = some r ∧ outcomeText isOther u r = .ok o
  | [], _, os, h => by simp [judgeAll] at h; subst h; simp
  | _ :: _, [], os, h => by simp [judgeAll] at h; subst h; simp
  | u :: us, r :: rs, os, h => by
    unfold judgeAll at h
    cases ho : outcomeText isOther u r with
    | error e => simp [ho] at h
    | ok o =>
      cases hr : judgeAll isOther us rs with
      | error e => simp [ho, hr] at h
      | ok os' =>
        simp only [ho, hr] at h
        cases h
        intro i o' hi
        cases i with
        | zero => simp at hi; subst hi; exact ⟨u, r, rfl, rfl, ho⟩
        | succ j =>
          simp only [List.getElem?_cons_succ] at hi ⊢
          exact judgeAll_get isOther us rs os' hr j o' hi

/-- what one outcome is made of -/
theorem outcomeText_ok {isOther : Char → Bool} {u : UTest} {r : Ran} {o : Gen.UpdResult × Option (List Char)}
    (h : outcomeText isOther u r = .ok o) :
    ∃ recorded text, record u.test.cfg r = some recorded ∧ judge u.test recorded r.code = some o.1 ∧
      o.2 = some text ∧
      Gen.generateTestcaseUpd .unicode isOther u.cmd u.origs o.1 (genLines u.test.cfg recorded o.1) r.code = some text := by
  unfold outcomeText at h
  cases hrec : record u.test.cfg r with
  | none => simp [hrec] at h
  | some recorded =>
    simp only [hrec] at h
    cases hj : judge u.test recorded r.code with
    | none => simp [hj] at h
    | some res =>
      simp only [hj] at h
      cases hg : Gen.generateTestcaseUpd .unicode isOther u.cmd u.origs res (genLines u.test.cfg recorded res) r.code with
      | none => simp [hg] at h
      | some text =>
        simp only [hg] at h
        cases h
        exact ⟨recorded, text, rfl, hj, rfl, hg⟩

/-! ### `updateTests` -/

/-- the file is overwritten: the tests were judged and the rewritten text differs -/
theorem updateTests_updated {isOther : Char → Bool} {content : List Char} {tests : List UTest} {runs : List Ran}
    {text : List Char} {results : List Gen.UpdResult}
    (h : updateTests isOther content tests runs = .updated text results) :
    tests ≠ [] ∧ tests.length ≤ runs.length ∧ skipsDocument tests runs = false ∧
    ∃ os, judgeAll isOther tests runs = .ok os ∧ results = os.map (·.1) ∧
      generateUpdate [Gen.language] content (os.map (·.2)) = .ok text ∧ text ≠ content := by
  unfold updateTests at h
  by_cases h1 : tests.isEmpty = true
  · simp [h1] at h
  · simp only [h1] at h
    by_cases h2 : runs.length < tests.length
    · simp [h2] at h
    · simp only [h2] at h
      by_cases h3 : skipsDocument tests runs = true
      · simp [h3] at h
      · simp only [h3] at h
        refine ⟨by intro hn; simp [hn] at h1, by omega, by simpa using h3, ?_⟩
        cases hj : judgeAll isOther tests runs with
        | error e => cases e <;> simp [hj] at h
        | ok os =>
          simp only [hj] at h
          cases hg : generateUpdate [Gen.language] content (os.map (·.2)) with
          | error e => cases e <;> simp [hg] at h
          | ok upd =>
            simp only [hg] at h
            by_cases he : upd = content
            · simp [he] at h
            · simp only [he, if_false] at h
              cases h
              exact ⟨os, rfl, rfl, hg, he⟩

/-! ## 2. every text of `generate_testcase` is a text `generate_update` reads back (`GenOK`) -/

theorem endsNl_nil : EndsNl [] := Or.inl rfl

theorem endsNl_append {a b : List Char} (ha : EndsNl a) (hb : EndsNl b) : EndsNl (a ++ b) := by
  rcases hb with rfl | hb
  · simpa using ha
  · right
    rw [List.getLast?_append, hb]; rfl

theorem assureNewlineC_last (t : List Char) : (Gen.assureNewlineC t).getLast? = some '\n' := by
  unfold Gen.assureNewlineC
  split
  · rename_i h; simpa using h
  · simp

theorem endsNl_assureNewlineC (t : List Char) : EndsNl (Gen.assureNewlineC t) :=
  Or.inr (assureNewlineC_last t)

theorem endsNl_flatMap {α : Type} (f : α → List Char) (l : List α) (h : ∀ x ∈ l, EndsNl (f x)) :
    EndsNl (l.flatMap f) := by
  induction l with
  | nil => exact endsNl_nil
  | cons x r ih =>
    rw [List.flatMap_cons]
    exact endsNl_append (h x (by simp)) (ih (fun y hy => h y (by simp [hy])))

theorem endsNl_exitCodeOpt (c : Int) : EndsNl (Gen.exitCodeOpt c) := by
  unfold Gen.exitCodeOpt
  split
  · right
    have : Gen.exitCodeLine c = (['['] ++ Gen.showInt c ++ [']']) ++ ['\n'] := by simp [Gen.exitCodeLine]
    rw [this, List.getLast?_append]; rfl
  · exact endsNl_nil

theorem endsNl_expectationLines (m : Esc.Mode) (isOther : Char → Bool) :
    ∀ (ls : List (List UInt8)) (e : List Char), Gen.expectationLines m isOther ls = some e → EndsNl e
  | [], e, h => by simp [Gen.expectationLines] at h; subst h; exact endsNl_nil
  | l :: ls, e, h => by
    unfold Gen.expectationLines at h
    cases h1 : Gen.expectationLine m isOther l with
    | none => simp [h1] at h
    | some t =>
      cases h2 : Gen.expectationLines m isOther ls with
      | none => simp [h1, h2] at h
      | some r =>
        simp only [h1, h2] at h
        cases h
        have hr := endsNl_expectationLines m isOther ls r h2
        have : t ++ '\n' :: r = (t ++ ['\n']) ++ r := by simp
        rw [this]
        exact endsNl_append (Or.inr (by simp)) hr

theorem endsNl_diffBody (m : Esc.Mode) (isOther : Char → Bool) (origs : List (List Char)) (lines : List (List UInt8)) :
    ∀ (d : List Diff.DL) (b : List Char), Gen.diffBody m isOther origs lines d = some b → EndsNl b
  | [], b, h => by simp [Gen.diffBody] at h; subst h; exact endsNl_nil
  | .matched ei _ :: r, b, h => by
    unfold Gen.diffBody at h
    cases h1 : origs[ei]? with
    | none => simp [h1] at h
    | some o =>
      cases h2 : Gen.diffBody m isOther origs lines r with
      | none => simp [h1, h2] at h
      | some t =>
        simp only [h1, h2] at h
        cases h
        exact endsNl_append (endsNl_assureNewlineC o) (endsNl_diffBody m isOther origs lines r t h2)
  | .unmatched _ :: r, b, h => by
    unfold Gen.diffBody at h
    exact endsNl_diffBody m isOther origs lines r b h
  | .unexpected is :: r, b, h => by
    unfold Gen.diffBody at h
    cases h1 : (Gen.linesAt lines is).bind (Gen.expectationLines m isOther) with
    | none => simp [h1] at h
    | some e =>
      cases h2 : Gen.diffBody m isOther origs lines r with
      | none => simp [h1, h2] at h
      | some t =>
        simp only [h1, h2] at h
        cases h
        refine endsNl_append ?_ (endsNl_diffBody m isOther origs lines r t h2)
        cases h3 : Gen.linesAt lines is with
        | none => simp [h3] at h1
        | some ls =>
          simp only [h3, Option.bind_some] at h1
          exact endsNl_expectationLines m isOther ls e h1

/-- `generate_testcase_expression`: starts with `$ `, ends in LF -/
theorem expression_shape {cmd ex : List Char} (h : Gen.expression cmd = some ex) :
    ∃ rest, ex = '$' :: ' ' :: rest ∧ ex.getLast? = some '\n' := by
  unfold Gen.expression at h
  split at h
  · simp at h
  · rename_i l0 rest _
    cases h
    refine ⟨l0 ++ ['\n'] ++ rest.flatMap (fun l => ['>', ' '] ++ l ++ ['\n']), by simp, ?_⟩
    have h1 : EndsNl (rest.flatMap (fun l => ['>', ' '] ++ l ++ ['\n'])) :=
      endsNl_flatMap _ _ (fun x _ => Or.inr (by rw [List.getLast?_append]; rfl))
    rcases h1 with h1 | h1
    · rw [h1, List.append_nil, List.getLast?_append]; rfl
    · rw [List.getLast?_append, h1]; rfl

theorem endsNl_exitCodeLine (c : Int) : EndsNl (Gen.exitCodeLine c) := by
  right
  have : Gen.exitCodeLine c = (['['] ++ Gen.showInt c ++ [']']) ++ ['\n'] := by simp [Gen.exitCodeLine]
  rw [this, List.getLast?_append]; rfl

theorem endsNl_withExitCode (k : Bool) (body : List Char) (c : Int) (h : EndsNl body) :
    EndsNl (Gen.withExitCode k body c) := by
  unfold Gen.withExitCode
  split
  · exact endsNl_append (endsNl_exitCodeLine c) h
  · exact endsNl_append h (endsNl_exitCodeOpt c)

/-- the first line `str::lines()` reads starts with the first character of the text -/
theorem splitLinesAux_head (c : Char) (hc : c ≠ '\r') :
    ∀ (text acc : List Char), acc.getLast? = some c →
      ∃ l, (splitLinesAux text acc).head? = some (c :: l)
  | [], acc, h => by
    have hne : acc ≠ [] := by intro h0; simp [h0] at h
    simp only [splitLinesAux, List.isEmpty_iff, hne, if_false, List.head?_cons]
    have : acc.reverse.head? = some c := by rw [List.head?_reverse]; exact h
    cases hr : acc.reverse with
    | nil => simp [hr] at this
    | cons x xs => simp [hr] at this; subst this; exact ⟨xs, rfl⟩
  | x :: rest, acc, h => by
    rw [splitLinesAux_cons]
    split
    · simp only [List.head?_cons]
      unfold lineOf
      have hrev : ∀ (a : List Char), a.getLast? = some c → ∃ l, a.reverse = c :: l := by
        intro a ha
        have : a.reverse.head? = some c := by rw [List.head?_reverse]; exact ha
        cases hr : a.reverse with
        | nil => simp [hr] at this
        | cons y ys => simp [hr] at this; subst this; exact ⟨ys, rfl⟩
      split
      · rename_i a
        cases a with
        | nil => simp at h; exact absurd h.symm hc
        | cons y ys =>
          rw [List.getLast?_cons_cons] at h
          obtain ⟨l, hl⟩ := hrev _ h
          exact ⟨l, by rw [hl]⟩
      · obtain ⟨l, hl⟩ := hrev _ h
        exact ⟨l, by rw [hl]⟩
    · refine splitLinesAux_head c hc rest (x :: acc) ?_
      cases acc with
      | nil => simp at h
      | cons y ys => rw [List.getLast?_cons_cons]; exact h

theorem splitLines_head (c : Char) (hc : c ≠ '\r') (hn : c ≠ '\n') (rest : List Char) :
    ∃ l, (splitLines (c :: rest)).head? = some (c :: l) := by
  unfold splitLines
  rw [splitLinesAux_cons, if_neg hn]
  exact splitLinesAux_head c hc rest [c] rfl

/-- **every text `generate_testcase` returns satisfies `GenOK`**: it ends in LF and its first line
(`$ …`) is not a comment -/
theorem generateTestcaseUpd_genOK {m : Esc.Mode} {isOther : Char → Bool} {cmd : List Char}
    {origs : List (List Char)} {res : Gen.UpdResult} {lines : List (List UInt8)} {code : Int} {g : List Char}
    (h : Gen.generateTestcaseUpd m isOther cmd origs res lines code = some g) : GenOK g := by
  unfold Gen.generateTestcaseUpd at h
  cases hex : Gen.expression cmd with
  | none => simp [hex] at h
  | some ex =>
    simp only [hex] at h
    obtain ⟨rest, hrest, hlast⟩ := expression_shape hex
    have key : ∀ tail, EndsNl tail → GenOK (ex ++ tail) := by
      intro tail ht
      constructor
      · rcases ht with rfl | ht
        · simpa using hlast
        · rw [List.getLast?_append, ht]; rfl
      · rw [hrest]
        obtain ⟨l, hl⟩ := splitLines_head '$' (by decide) (by decide) (' ' :: rest ++ tail)
        show (splitLines ('$' :: (' ' :: rest ++ tail))).head?.map LineParser.isComment = some false
        rw [hl]; rfl
    cases res with
    | ok =>
      simp only at h
      cases h
      exact key _ (endsNl_withExitCode _ _ _ (endsNl_flatMap _ _ (fun x _ => endsNl_assureNewlineC x)))
    | malformed d =>
      simp only at h
      cases hb : Gen.diffBody m isOther origs lines d with
      | none => simp [hb] at h
      | some b =>
        simp only [hb, Option.map_some] at h
        cases h
        exact key _ (endsNl_withExitCode _ _ _ (endsNl_diffBody m isOther origs lines d b hb))
    | invalidExit actual =>
      simp only at h
      cases hb : Gen.expectationLines m isOther lines with
      | none => simp [hb] at h
      | some e =>
        simp only [hb, Option.map_some] at h
        cases h
        rw [List.append_assoc]
        exact key _ (endsNl_append (endsNl_expectationLines m isOther lines e hb) (endsNl_exitCodeOpt actual))

/-- the texts of the judged tests: one per test, none missing, each `GenOK` -/
theorem judgeAll_gens {isOther : Char → Bool} {tests : List UTest} {runs : List Ran}
    {os : List (Gen.UpdResult × Option (List Char))} (h : judgeAll isOther tests runs = .ok os) :
    ∀ (k : Nat) (x : Option (List Char)), (os.map (·.2))[k]? = some x → ∃ g, x = some g ∧ GenOK g := by
  intro k x hk
  rw [List.getElem?_map] at hk
  cases ho : os[k]? with
  | none => simp [ho] at hk
  | some o =>
    simp only [ho, Option.map_some] at hk
    obtain ⟨u, r, _, _, hot⟩ := judgeAll_get isOther tests runs os h k o ho
    obtain ⟨recorded, text, _, _, h2, hg⟩ := outcomeText_ok hot
    cases hk
    exact ⟨text, h2, generateTestcaseUpd_genOK hg⟩

/-! ## 3. the document level: guards, and the `generate_update` theorems lifted -/

/-- the tokens of the document (`MarkdownIterator`; it never fails: `C06_no_crash`) -/
def docToks (content : List Char) : List Tok := runP [Gen.language] .top false 0 (splitLines content)

theorem tokenize_docToks (content : List Char) :
    tokenize [Gen.language] (splitLines content) = .ok (docToks content) := tokenize_eq _ _

/-- guard: no line of the document ends in a carriage return (after `read_file` has turned CR LF
into LF): the open finding `C10:not-idempotent-stray-carriage-return` -/
def NoStrayCR (content : List Char) : Prop := ∀ l ∈ splitLines content, l.getLast? ≠ some '\r'

instance (content : List Char) : Decidable (NoStrayCR content) := by unfold NoStrayCR; exact inferInstance

/-- guard: every front-matter is closed: the open finding `C10:front-matter-unterminated-gains-delimiter` -/
def FrontClosed (content : List Char) : Prop :=
  frontClosed (splitLines content).length 0 (docToks content) = true

instance (content : List Char) : Decidable (FrontClosed content) := by unfold FrontClosed; exact inferInstance

theorem language_langOK : ∀ lang, [Gen.language].contains lang = true → LangOK lang := by
  intro lang h
  have : lang = Gen.language := by simpa using h
  subst this
  intro c hc
  simp only [Gen.language, List.mem_cons, List.not_mem_nil, or_false] at hc
  rcases hc with rfl | rfl | rfl | rfl | rfl <;> decide

/-- `updateDocumentBytes` behind `read_file` -/
theorem updateDocumentBytes_of_read (isOther : Char → Bool) (bytes : Bytes) (runs : List Ran) (content : List Char)
    (h : readFile bytes = .ok content) :
    updateDocumentBytes isOther bytes runs = updateDocument isOther content runs := by
  simp [updateDocumentBytes, h]

/-- a file that is left alone or overwritten was read -/
theorem read_of_result (isOther : Char → Bool) (bytes : Bytes) (runs : List Ran)
    (h : (∃ rs, updateDocumentBytes isOther bytes runs = .unchanged rs) ∨
         (∃ t rs, updateDocumentBytes isOther bytes runs = .updated t rs)) :
    ∃ content, readFile bytes = .ok content := by
  unfold updateDocumentBytes at h
  cases hr : readFile bytes with
  | error e => exfalso; cases e <;> simp [hr] at h
  | ok c => exact ⟨c, rfl⟩

/-- **the overwritten file, unfolded**: the text written is `generate_update` of the document with
the texts `generate_testcase` returned for the judged tests (`docGens`): one per test, none
failing, each `GenOK` -/
theorem updateDocument_updated {isOther : Char → Bool} {content : List Char} {runs : List Ran}
    {text : List Char} {results : List Gen.UpdResult}
    (h : updateDocument isOther content runs = .updated text results) :
    ∃ gens, docGens isOther content runs = some gens ∧ gens ≠ [] ∧ gens.length = results.length ∧
      (∀ (k : Nat) (x : Option (List Char)), gens[k]? = some x → ∃ g, x = some g ∧ GenOK g) ∧
      generateUpdate [Gen.language] content gens = .ok text ∧ text ≠ content := by
  obtain ⟨tests, ht⟩ := docTests_of_result isOther content runs (Or.inr ⟨text, results, h⟩)
  rw [updateDocument_of_docTests isOther content runs tests ht] at h
  obtain ⟨hne, hlen, _, os, hj, hres, hg, hd⟩ := updateTests_updated h
  refine ⟨os.map (·.2), by simp [docGens, docOutcomes, ht, hj], ?_, by simp [hres], judgeAll_gens hj, hg, hd⟩
  intro h0
  have := judgeAll_length isOther tests runs os hj hlen
  have h1 : os = [] := by simpa using h0
  rw [h1] at this
  exact hne (List.eq_nil_of_length_eq_zero this.symm)

/-- **U2, outside lines**: what is written arises from the lines of the document by the rules of
`Rewritten` (every line outside scrut blocks kept in order, every scrut block replaced by one block) -/
theorem run_outside_preserved {isOther : Char → Bool} {content : List Char} {runs : List Ran}
    {text : List Char} {results : List Gen.UpdResult}
    (h : updateDocument isOther content runs = .updated text results) :
    ∃ gens, docGens isOther content runs = some gens ∧
      Rewritten [Gen.language] gens false 0 (splitLines content) text := by
  obtain ⟨gens, hg, hne, _, _, hu, _⟩ := updateDocument_updated h
  exact ⟨gens, hg, generateUpdate_rewritten _ content gens hne text hu⟩

/-- the strict reading, for documents whose front-matter is closed -/
theorem run_outside_preserved_strict {isOther : Char → Bool} {content : List Char} {runs : List Ran}
    {text : List Char} {results : List Gen.UpdResult}
    (h : updateDocument isOther content runs = .updated text results) (hf : FrontClosed content) :
    ∃ gens, docGens isOther content runs = some gens ∧
      Rewritten [Gen.language] gens true 0 (splitLines content) text := by
  obtain ⟨gens, hg, hne, _, _, hu, _⟩ := updateDocument_updated h
  exact ⟨gens, hg, generateUpdate_rewritten_strict _ content gens hne text hu _ (tokenize_docToks content) hf⟩

/-- **U3, token level**: the written document is tokenized into the same tokens in the same order;
the code lines of every rewritten block are the lines of the text `generate_testcase` returned -/
theorem run_reread {isOther : Char → Bool} {content : List Char} {runs : List Ran}
    {text : List Char} {results : List Gen.UpdResult}
    (h : updateDocument isOther content runs = .updated text results)
    (hcr : NoStrayCR content) (hf : FrontClosed content) :
    ∃ gens, docGens isOther content runs = some gens ∧ Reread gens 0 (docToks content) (docToks text) := by
  obtain ⟨gens, hg, hne, _, hok, hu, _⟩ := updateDocument_updated h
  have hgk : ∀ (k : Nat) (g : List Char), gens[k]? = some (some g) → GenOK g := by
    intro k g hk
    obtain ⟨g', h1, h2⟩ := hok k _ hk
    cases h1; exact h2
  obtain ⟨toks', ht', hr⟩ := generateUpdate_reread _ language_langOK gens hne hgk content text hcr _
    (tokenize_docToks content) hf hu
  rw [tokenize_docToks] at ht'
  cases ht'
  exact ⟨gens, hg, hr⟩

/-- … and the configuration texts of its scrut blocks are those `update` wrote (`writtenCfg`) -/
theorem run_reread_cfg {isOther : Char → Bool} {content : List Char} {runs : List Ran}
    {text : List Char} {results : List Gen.UpdResult}
    (h : updateDocument isOther content runs = .updated text results)
    (hcr : NoStrayCR content) (hf : FrontClosed content) :
    ∃ gens, docGens isOther content runs = some gens ∧ Reread gens 0 (docToks content) (docToks text) ∧
      cfgTexts (docToks text) = (cfgsOf (docToks content)).map writtenCfg := by
  obtain ⟨gens, hg, hne, _, hok, hu, _⟩ := updateDocument_updated h
  have hgk : ∀ (k : Nat) (g : List Char), gens[k]? = some (some g) → GenOK g := by
    intro k g hk
    obtain ⟨g', h1, h2⟩ := hok k _ hk
    cases h1; exact h2
  obtain ⟨hr, hc⟩ := generateUpdate_reread_cfg _ language_langOK gens hne hgk content text hcr hf hu
  exact ⟨gens, hg, hr, hc⟩

/-- `generate_update` applied to the written document with the same texts changes nothing -/
theorem run_generateUpdate_fixed {isOther : Char → Bool} {content : List Char} {runs : List Ran}
    {text : List Char} {results : List Gen.UpdResult}
    (h : updateDocument isOther content runs = .updated text results)
    (hcr : NoStrayCR content) (hf : FrontClosed content) :
    ∃ gens, docGens isOther content runs = some gens ∧ generateUpdate [Gen.language] text gens = .ok text := by
  obtain ⟨gens, hg, hne, _, hok, hu, _⟩ := updateDocument_updated h
  have hgk : ∀ (k : Nat) (g : List Char), gens[k]? = some (some g) → GenOK g := by
    intro k g hk
    obtain ⟨g', h1, h2⟩ := hok k _ hk
    cases h1; exact h2
  exact ⟨gens, hg, generateUpdate_idempotent _ language_langOK gens hne hgk content text hcr _
    (tokenize_docToks content) hf hu⟩

/-! ## 4. passing documents -/

/-- the text `generate_testcase` returns for a PASSING test: the command, the expectation lines as
written, `[code]` iff the expected exit code is not 0 -- it depends on the document only -/
def passText (u : UTest) : Option (List Char) :=
  Gen.generateTestcaseUpd .unicode (fun _ => false) u.cmd u.origs .ok [] (u.test.expected.getD 0)

/-- test `u` passes on the run `r`: the exit code is the expected one and the validated stream is accepted -/
def Passes (u : UTest) (r : Ran) : Prop :=
  ∃ recorded, record u.test.cfg r = some recorded ∧ judge u.test recorded r.code = some .ok

/-- every test of the document passes on its run -/
def AllPass (content : List Char) (runs : List Ran) : Prop :=
  ∃ tests, docTests content = some tests ∧ tests.length ≤ runs.length ∧
    ∀ (i : Nat) (u : UTest) (r : Ran), tests[i]? = some u → runs[i]? = some r → Passes u r

/-- guard of U1: the document is written the way `update` writes passing tests (its run-independent
re-rendering is the document itself) -/
def Settled (content : List Char) : Prop :=
  match docTests content with
  | none => True
  | some tests =>
    (∀ u ∈ tests, (passText u).isSome = true) ∧
    match generateUpdate [Gen.language] content (tests.map passText) with
    | .ok t => t = content
    | .error _ => False

instance (content : List Char) : Decidable (Settled content) := by
  unfold Settled
  split
  · exact inferInstance
  · refine @instDecidableAnd _ _ inferInstance ?_
    split <;> exact inferInstance

theorem judge_ok_code {t : Test} {recorded : Bytes × Bytes} {code : Int} (h : judge t recorded code = some .ok) :
    code = t.expected.getD 0 := by
  unfold judge at h
  split at h
  · cases h
  · rename_i hc
    exact Decidable.of_not_not hc

theorem outcomeText_passes (isOther : Char → Bool) (u : UTest) (r : Ran) (hp : Passes u r) (g : List Char)
    (hg : passText u = some g) : outcomeText isOther u r = .ok (.ok, some g) := by
  obtain ⟨recorded, hrec, hj⟩ := hp
  have hcode := judge_ok_code hj
  unfold outcomeText
  simp only [hrec, hj]
  have : Gen.generateTestcaseUpd .unicode isOther u.cmd u.origs .ok (genLines u.test.cfg recorded .ok) r.code = some g := by
    rw [← hg, hcode]
    unfold passText Gen.generateTestcaseUpd
    cases Gen.expression u.cmd <;> rfl
  rw [this]

theorem judgeAll_passes (isOther : Char → Bool) :
    ∀ (tests : List UTest) (runs : List Ran), tests.length ≤ runs.length →
      (∀ (i : Nat) (u : UTest) (r : Ran), tests[i]? = some u → runs[i]? = some r → Passes u r) →
      (∀ u ∈ tests, (passText u).isSome = true) →
      ∃ os, judgeAll isOther tests runs = .ok os ∧ os.map (·.2) = tests.map passText ∧ os.map (·.1) = tests.map (fun _ => .ok)
  | [], _, _, _, _ => ⟨[], by simp [judgeAll], rfl, rfl⟩
  | _ :: _, [], hl, _, _ => by simp at hl
  | u :: us, r :: rs, hl, hp, hs => by
    obtain ⟨os, h1, h2, h3⟩ := judgeAll_passes isOther us rs (by simpa using hl)
      (fun i u' r' hu hr => hp (i + 1) u' r' (by simpa using hu) (by simpa using hr))
      (fun u' hu' => hs u' (by simp [hu']))
    have hsome := hs u (by simp)
    cases hg : passText u with
    | none => simp [hg] at hsome
    | some g =>
      have ho := outcomeText_passes isOther u r (hp 0 u r rfl rfl) g hg
      refine ⟨(.ok, some g) :: os, by simp [judgeAll, ho, h1], by simp [h2, hg], by simp [h3]⟩

/-- the `.unchanged` outcomes of `updateTests` -/
theorem updateTests_unchanged_of {isOther : Char → Bool} {content : List Char} {tests : List UTest} {runs : List Ran}
    {os : List (Gen.UpdResult × Option (List Char))}
    (hl : tests.length ≤ runs.length) (hj : judgeAll isOther tests runs = .ok os)
    (hg : generateUpdate [Gen.language] content (os.map (·.2)) = .ok content) :
    ∃ rs, updateTests isOther content tests runs = .unchanged rs := by
  unfold updateTests
  by_cases h1 : tests.isEmpty = true
  · exact ⟨[], by simp [h1]⟩
  · simp only [h1]
    have h2 : ¬ runs.length < tests.length := by omega
    simp only [h2]
    by_cases h3 : skipsDocument tests runs = true
    · exact ⟨[], by simp [h3]⟩
    · simp only [h3, hj, hg]
      exact ⟨os.map (·.1), by simp⟩

/-- **U1 (partial)**: a settled document whose tests all pass is not written -/
theorem run_passing_untouched (isOther : Char → Bool) (content : List Char) (runs : List Ran)
    (hp : AllPass content runs) (hs : Settled content) :
    ∃ rs, updateDocument isOther content runs = .unchanged rs := by
  obtain ⟨tests, ht, hl, hpass⟩ := hp
  unfold Settled at hs
  simp only [ht] at hs
  obtain ⟨hsome, hgen⟩ := hs
  have hgen : generateUpdate [Gen.language] content (tests.map passText) = .ok content := by
    split at hgen
    · rename_i t ht'; rw [ht', hgen]
    · exact hgen.elim
  rw [updateDocument_of_docTests isOther content runs tests ht]
  obtain ⟨os, hj, h2, _⟩ := judgeAll_passes isOther tests runs hl hpass hsome
  exact updateTests_unchanged_of hl hj (by rw [h2]; exact hgen)

/-- **U1, what is true without guard**: if all tests pass and the file is written nevertheless, the
text written is the run-independent re-rendering of the document: every test is written back from
its own lines (`passText`), all results are `ok` -/
theorem run_passing_rerendered (isOther : Char → Bool) (content : List Char) (runs : List Ran)
    (hp : AllPass content runs) (text : List Char) (results : List Gen.UpdResult)
    (h : updateDocument isOther content runs = .updated text results) :
    ∃ tests, docTests content = some tests ∧
      generateUpdate [Gen.language] content (tests.map passText) = .ok text ∧
      results = tests.map (fun _ => .ok) := by
  obtain ⟨tests, ht, hl, hpass⟩ := hp
  rw [updateDocument_of_docTests isOther content runs tests ht] at h
  obtain ⟨_, _, _, os, hj, hres, hg, _⟩ := updateTests_updated h
  -- every text exists: `judgeAll` did not crash
  have hsome : ∀ u ∈ tests, (passText u).isSome = true := by
    intro u hu
    obtain ⟨i, hi, rfl⟩ := List.getElem_of_mem hu
    have hlen := judgeAll_length isOther tests runs os hj hl
    have hio : i < os.length := by omega
    obtain ⟨u', r, hu', hr, hot⟩ := judgeAll_get isOther tests runs os hj i os[i] (List.getElem?_eq_getElem hio)
    rw [List.getElem?_eq_getElem hi] at hu'
    cases hu'
    obtain ⟨recorded, t, hrec, hjd, _, hgen⟩ := outcomeText_ok hot
    obtain ⟨recorded', hrec', hj'⟩ := hpass i tests[i] r (List.getElem?_eq_getElem hi) hr
    rw [hrec] at hrec'
    cases hrec'
    rw [hjd] at hj'
    have hres : os[i].1 = Gen.UpdResult.ok := Option.some.inj hj'
    rw [hres] at hgen hjd
    have hcode := judge_ok_code hjd
    unfold passText
    rw [← hcode]
    unfold Gen.generateTestcaseUpd at hgen ⊢
    cases hex : Gen.expression tests[i].cmd with
    | none => simp [hex] at hgen
    | some ex => simp
  obtain ⟨os', hj', h2, h3⟩ := judgeAll_passes isOther tests runs hl hpass hsome
  rw [hj] at hj'
  cases hj'
  exact ⟨tests, ht, by rw [← h2]; exact hg, by rw [hres, h3]⟩

/-! ## 5. C09 through the composition: the rewritten test passes on the run it was updated from -/

open Scrut.GenLemmas Scrut.EscLemmas in
/-- the expectation texts of a test compile to its expectations (true of every test of a document) -/
def UTest.Compiled (u : UTest) : Prop := Pairs (fun o e => compile o = .ok e) u.origs u.test.exps

/-- guard of U5 (`C09:update-retained-quantified-expectations`): no expectation of the test carries a quantifier -/
def Unquantified (u : UTest) : Prop := ∀ e ∈ u.test.exps, e.optional = false ∧ e.multiline = false

instance (u : UTest) : Decidable (Unquantified u) := by unfold Unquantified; exact inferInstance

/-- `[code]` read back: `none` for 0 -/
def writtenExpected (code : Int) : Option Int := if code ≠ 0 then some code else none

/-- `u'` is `u` as `update` rewrites it after a run that ended in `code`: same configuration, same
command, new expectation texts (compiled by the same `compile`), the exit code as written -/
structure RewrittenAs (u u' : UTest) (code : Int) : Prop where
  cfg : u'.test.cfg = u.test.cfg
  cmd : u'.cmd = u.cmd
  compiled : u'.Compiled
  expected : u'.test.expected = writtenExpected code

theorem prepareU_compiled {t : LineParser.TestCase Markdown.Cfg} {u : UTest} (h : prepareU t = .ok u) :
    u.Compiled ∧ u.cmd = t.shellExpression ∧ u.origs = t.expectations ∧
    u.test.expected = t.exitCode.map Int.ofNat := by
  unfold prepareU at h
  cases hp : prepare t with
  | error e => simp [hp] at h
  | ok pt =>
    simp only [hp] at h
    cases h
    unfold prepare at hp
    cases hi : inlineCfg t.config with
    | none => simp [hi] at hp
    | some c =>
      simp only [hi] at hp
      by_cases hs : (!cfgSupported (if t.config.isSome then withMarkdownDefaults c else c)) = true
      · simp [hs] at hp
      · simp only [hs] at hp
        cases hm : t.expectations.mapM compile with
        | error e => cases e <;> simp [hm] at hp
        | ok exps =>
          simp only [hm] at hp
          cases hp
          exact ⟨mapM_except_pairs _ _ _ hm, rfl, rfl, rfl⟩

theorem writtenExpected_getD (code : Int) : (writtenExpected code).getD 0 = code := by
  unfold writtenExpected
  split
  · rfl
  · rename_i h; simp at h; simp [h]

open Scrut.GenLemmas Scrut.EscLemmas in
/-- the text of a list of entries, from their texts without line feed -/
theorem slotsText_of_pairs {isOther : Char → Bool} (hC : AsciiContract isOther) (origs : List (List Char)) (lines : List Bytes) :
    ∀ (sl : List Slot) (no : List (List Char)),
      Pairs (fun s o => slotOrig isOther origs lines s = some o) sl no →
      slotsText .unicode isOther origs lines sl = some (no.flatMap Gen.assureNewlineC)
  | _, _, .nil => rfl
  | _, _, .cons (a := s) (b := o) (as := sl) (bs := no) h1 h2 => by
    have ih := slotsText_of_pairs hC origs lines sl no h2
    simp only [slotsText, ih, List.flatMap_cons]
    cases s with
    | kept ei =>
      simp only [slotOrig] at h1
      simp [slotText, h1]
    | gen li =>
      simp only [slotOrig] at h1
      cases hl : lines[li]? with
      | none => simp [hl] at h1
      | some l =>
        simp only [hl, Option.bind_some] at h1
        have hnl : o.getLast? ≠ some '\n' := by
          intro hlast
          have hmem : '\n' ∈ o := List.mem_of_getLast? hlast
          exact (charOK_not_ctl (m := .unicode) (fun _ => hC)
            (expectationLine_printable .unicode isOther (fun _ => hC) l o h1 _ hmem)).2 rfl
        have : Gen.assureNewlineC o = o ++ ['\n'] := by
          unfold Gen.assureNewlineC
          split
          · rename_i h; exact absurd (by simpa using h) hnl
          · rfl
        simp [slotText, hl, h1, this]

theorem quant_multiline {exps : List CExp} (hq : ∀ e ∈ exps, e.optional = false ∧ e.multiline = false) (i : Nat) :
    (quant exps i).multiline = false := by
  unfold quant
  cases he : exps[i]? with
  | none => rfl
  | some e => exact (hq e (List.mem_of_getElem? he)).2

open Scrut.GenLemmas Scrut.EscLemmas Scrut.Diff in
/-- **U5 for one test**: whatever the result of a test (`Ok`, `InvalidExitCode`, or `MalformedOutput`
of a test without quantified expectations), the text written for it is the text of a test `u'`
(`u` rewritten) that PASSES on the same run: exit code as written, the written expectation lines --
compiled by the same `compile` -- accept the stream the test was validated against -/
theorem outcome_rejudged {isOther : Char → Bool} (hC : AsciiContract isOther) {u : UTest} (hcomp : u.Compiled)
    {r : Ran} {res : Gen.UpdResult} {g : List Char} (h : outcomeText isOther u r = .ok (res, some g))
    (hq : (∃ d, res = .malformed d) → Unquantified u) :
    ∃ u', RewrittenAs u u' r.code ∧ passText u' = some g ∧ Passes u' r := by
  obtain ⟨recorded, text, hrec, hj, htext, hgen⟩ := outcomeText_ok h
  simp only at hj htext hgen
  cases htext
  -- the general step: a list of entries whose text is the body of `g`
  have core : ∀ (origs : List (List Char)) (exps : List CExp) (hcomp' : Pairs (fun o e => compile o = .ok e) origs exps)
      (hq' : ∀ e ∈ exps, e.optional = false ∧ e.multiline = false)
      (tbl : List (List Bool)) (hm : matrix exps (Newline.splitAtNewline (validateStream u.test.cfg recorded)) = some tbl)
      (sl : List Slot) (hspec : SlotsSpec (cell tbl) (Newline.splitAtNewline (validateStream u.test.cfg recorded)).length sl)
      (body : List Char) (hbody : slotsText .unicode isOther origs (Newline.splitAtNewline (validateStream u.test.cfg recorded)) sl = some body)
      (ex : List Char) (hex : Gen.expression u.cmd = some ex)
      (hg : g = ex ++ Gen.withExitCode (headKept sl) body r.code),
      ∃ u', RewrittenAs u u' r.code ∧ passText u' = some g ∧ Passes u' r := by
    intro origs exps hcomp' hq' tbl hm sl hspec body hbody ex hex hg
    -- a generated first line does not start with `> `: the placement is the one of a passing test
    rw [withExitCode_headKept_true grammarParams_std .unicode isOther (fun _ => hC) origs _
      (Newline.splitAtNewline_isLine _) sl body r.code hbody] at hg
    obtain ⟨newOrigs, newExps, p1, p2, _, d', hd', hnd⟩ :=
      written_list_passes hC origs exps hcomp' hq' _ tbl hm sl hspec
    have hb := slotsText_of_pairs hC origs _ sl newOrigs p1
    rw [hbody] at hb
    cases hb
    refine ⟨⟨⟨u.test.cfg, newExps, writtenExpected r.code⟩, u.cmd, newOrigs⟩, ⟨rfl, rfl, p2, rfl⟩, ?_, recorded, hrec, ?_⟩
    · simp only [passText, Gen.generateTestcaseUpd, hex, writtenExpected_getD, hg]
    · simp only [judge, writtenExpected_getD, ne_eq, not_true_eq_false, if_false, hd', Option.map_some,
        Gen.updResult, hnd, Bool.false_eq_true]
  unfold Gen.generateTestcaseUpd at hgen
  cases hex : Gen.expression u.cmd with
  | none => simp [hex] at hgen
  | some ex =>
    simp only [hex] at hgen
    cases res with
    | ok =>
      -- the test passes as it is
      simp only at hgen
      cases hgen
      have hcode := judge_ok_code hj
      refine ⟨⟨⟨u.test.cfg, u.test.exps, writtenExpected r.code⟩, u.cmd, u.origs⟩, ⟨rfl, rfl, hcomp, rfl⟩, ?_, recorded, hrec, ?_⟩
      · simp only [passText, Gen.generateTestcaseUpd, hex, writtenExpected_getD]
      · unfold judge at hj ⊢
        simp only [writtenExpected_getD, ne_eq, not_true_eq_false, if_false]
        rw [if_neg (by rw [hcode]; simp)] at hj
        cases hd : diffOf u.test.exps (validateStream u.test.cfg recorded) with
        | none => simp [hd] at hj
        | some d =>
          simp only [hd, Option.map_some, Option.some.injEq] at hj ⊢
          unfold Gen.updResult at hj ⊢
          rw [if_neg (by rw [hcode]; simp)] at hj
          simp only [ne_eq]
          split at hj
          · cases hj
          · rename_i hh; simp [hh, writtenExpected_getD]
    | invalidExit actual =>
      -- every line is regenerated: the list has no retained entry
      simp only at hgen
      have hact : actual = r.code := by
        unfold judge at hj
        split at hj
        · cases hj; rfl
        · cases hd : diffOf u.test.exps (validateStream u.test.cfg recorded) with
          | none => simp [hd] at hj
          | some d =>
            simp only [hd, Option.map_some, Option.some.injEq] at hj
            unfold Gen.updResult at hj
            split at hj
            · cases hj; rfl
            · split at hj <;> cases hj
      subst hact
      have hlines : genLines u.test.cfg recorded (.invalidExit r.code) = Newline.splitAtNewline (validateStream u.test.cfg recorded) := rfl
      rw [hlines] at hgen
      cases he : Gen.expectationLines .unicode isOther (Newline.splitAtNewline (validateStream u.test.cfg recorded)) with
      | none => simp [he] at hgen
      | some e =>
        simp only [he, Option.map_some, Option.some.injEq] at hgen
        generalize hls : Newline.splitAtNewline (validateStream u.test.cfg recorded) = lines at *
        have hgen' : g = ex ++ Gen.withExitCode (headKept ((rangeFrom 0 lines.length).map .gen)) e r.code := by
          rw [headKept_gen, withExitCode_false, ← List.append_assoc]; exact hgen.symm
        refine core [] [] .nil (by simp) [] (by simp [matrix]) ((rangeFrom 0 lines.length).map .gen) ?_ e ?_ ex hex hgen'
        · refine ⟨by simp [rangeFrom], ?_⟩
          intro k hk
          right
          simp only [List.getElem_map]
          rw [rangeFrom_zero_get]
        · rw [slotsText_gen, linesAt_all]
          exact he
    | malformed d =>
      simp only at hgen
      have hlines : genLines u.test.cfg recorded (.malformed d) = Newline.splitAtNewline (validateStream u.test.cfg recorded) := rfl
      rw [hlines, diffBody_eq_slots, firstKept_slots] at hgen
      cases hb : slotsText .unicode isOther u.origs (Newline.splitAtNewline (validateStream u.test.cfg recorded)) (slots d) with
      | none => simp [hb] at hgen
      | some body =>
        simp only [hb, Option.map_some, Option.some.injEq] at hgen
        have hu := hq ⟨d, rfl⟩
        -- the diff is the matcher's
        unfold judge at hj
        split at hj
        · cases hj
        · unfold diffOf at hj
          cases hm : matrix u.test.exps (Newline.splitAtNewline (validateStream u.test.cfg recorded)) with
          | none => simp [hm] at hj
          | some tbl =>
            simp only [hm, Option.map_some, Option.some.injEq] at hj
            unfold Gen.updResult at hj
            split at hj
            · cases hj
            · split at hj
              · cases hj
                refine core u.origs u.test.exps hcomp hu tbl hm _ ?_ body hb ex hex hgen.symm
                exact slots_spec _ _ _ _ (quant_multiline hu)
              · cases hj

theorem docTests_spec {content : List Char} {tests : List UTest} (h : docTests content = some tests) :
    ∃ p, Markdown.parseMarkdown parseEnv content = .ok p ∧ p.docConfigs.all frontMatterHarmless = true ∧
      Pairs (fun t u => prepareU t = .ok u) p.tests tests := by
  unfold docTests at h
  cases hp : Markdown.parseMarkdown parseEnv content with
  | error e => simp [hp] at h
  | ok p =>
    simp only [hp] at h
    by_cases hf : (!p.docConfigs.all frontMatterHarmless) = true
    · simp [hf] at h
    · simp only [hf] at h
      cases hm : p.tests.mapM prepareU with
      | error e => simp [hm] at h
      | ok ts =>
        simp only [hm] at h
        cases h
        exact ⟨p, rfl, by simpa using hf, mapM_except_pairs _ _ _ hm⟩

theorem docTests_compiled {content : List Char} {tests : List UTest} (h : docTests content = some tests) :
    ∀ u ∈ tests, u.Compiled := by
  obtain ⟨p, _, _, hp⟩ := docTests_spec h
  intro u hu
  obtain ⟨k, hk, rfl⟩ := List.getElem_of_mem hu
  obtain ⟨t, _, ht⟩ := hp.get' k _ (List.getElem?_eq_getElem hk)
  exact (prepareU_compiled ht).1

/-- **U5, the document**: after an update, for every test -- whatever its result, provided a test
with `MalformedOutput` has no quantified expectation -- the text written into its block is the text
of a test `u'` (`RewrittenAs`: same configuration and command, the written expectation lines, the
written exit code) that passes on the run it was updated from -/
theorem run_rewritten_passes {isOther : Char → Bool} (hC : EscLemmas.AsciiContract isOther) {content : List Char}
    {runs : List Ran} {text : List Char} {results : List Gen.UpdResult}
    (h : updateDocument isOther content runs = .updated text results) :
    ∃ tests gens, docTests content = some tests ∧ docGens isOther content runs = some gens ∧
      gens.length = tests.length ∧ results.length = tests.length ∧
      ∀ (k : Nat) (u : UTest) (r : Ran) (res : Gen.UpdResult),
        tests[k]? = some u → runs[k]? = some r → results[k]? = some res →
        ((∃ d, res = .malformed d) → Unquantified u) →
        ∃ u', RewrittenAs u u' r.code ∧ gens[k]? = some (passText u') ∧ Passes u' r := by
  obtain ⟨tests, ht⟩ := docTests_of_result isOther content runs (Or.inr ⟨text, results, h⟩)
  rw [updateDocument_of_docTests isOther content runs tests ht] at h
  obtain ⟨_, hlen, _, os, hj, hres, _, _⟩ := updateTests_updated h
  have hol := judgeAll_length isOther tests runs os hj hlen
  refine ⟨tests, os.map (·.2), ht, by simp [docGens, docOutcomes, ht, hj], by simp [hol], by simp [hres, hol], ?_⟩
  intro k u r res hu hr hrs hq
  have hk : k < os.length := by
    rw [hol]
    exact (List.getElem?_eq_some_iff.mp hu).1
  obtain ⟨u', r', hu', hr', hot⟩ := judgeAll_get isOther tests runs os hj k os[k] (List.getElem?_eq_getElem hk)
  rw [hu] at hu'
  rw [hr] at hr'
  cases hu'
  cases hr'
  obtain ⟨_, g, _, _, hg2, _⟩ := outcomeText_ok hot
  have hres1 : os[k].1 = res := by
    rw [hres, List.getElem?_map, List.getElem?_eq_getElem hk] at hrs
    exact Option.some.inj hrs
  have hot' : outcomeText isOther u r = .ok (res, some g) := by
    rw [hot, ← hres1, ← hg2]
  obtain ⟨u', hra, hpt, hps⟩ := outcome_rejudged hC (docTests_compiled ht u (List.mem_of_getElem? hu)) hot' hq
  refine ⟨u', hra, ?_, hps⟩
  rw [List.getElem?_map, List.getElem?_eq_getElem hk, Option.map_some, hg2, hpt]

/-! ## 6. idempotence of the composition -/

/-- the test blocks of the written document against those of the original (outcomes from `k` on):
same number, same order, the code lines of block `j` are the lines of the text of outcome `k + j` -/
inductive BlocksReread (gens : List (Option (List Char))) :
    Nat → List (Numbered × List Markdown.Line) → List (Numbered × List Markdown.Line) → Prop where
  | nil (k) : BlocksReread gens k [] []
  | cons (k b b' bs bs' g) : gens[k]? = some (some g) → b'.2 = splitLines g →
      configSuffix b'.1 = configSuffix b.1 → BlocksReread gens (k + 1) bs bs' →
      BlocksReread gens k (b :: bs) (b' :: bs')

theorem reread_blocks {gens : List (Option (List Char))} {k : Nat} {toks toks' : List Tok}
    (h : Reread gens k toks toks') : BlocksReread gens k (testBlocks toks) (testBlocks toks') ∧
      frontTexts toks' = frontTexts toks := by
  induction h with
  | nil k => exact ⟨.nil k, rfl⟩
  | line k i i' l r r' _ ih => simpa [testBlocks, frontTexts] using ih
  | front k ls ls' r r' hl _ ih =>
    refine ⟨by simpa [testBlocks] using ih.1, ?_⟩
    simp only [frontTexts, joinNumbered, hl, ih.2]
  | verbatim k s s' lang ls r r' _ ih => simpa [testBlocks, frontTexts] using ih
  | testNoCode k lang cfg cfg' cm cm' r r' _ _ _ ih => simpa [testBlocks, frontTexts] using ih
  | testCode k lang cfg cfg' cm cm' cd cd' g r r' hcd hg hc _ hcd' hne' _ ih =>
    have h1 : cd.isEmpty = false := by simpa using hcd
    have h2 : cd'.isEmpty = false := by simpa using hne'
    refine ⟨?_, by simpa [frontTexts] using ih.2⟩
    simp only [testBlocks, h1, h2, Bool.false_eq_true, if_false]
    exact .cons k _ _ _ _ g hg hcd' hc ih.1

/-- the configuration texts of the test blocks (those with code) of the written document -/
theorem reread_blocks_cfg {gens : List (Option (List Char))} {k : Nat} {toks toks' : List Tok}
    (h : Reread gens k toks toks') (hc : cfgTexts toks' = (cfgsOf toks).map writtenCfg) :
    (testBlocks toks').map (fun b => b.1.map (·.2)) = (testBlocks toks).map (fun b => writtenCfg b.1) := by
  induction h with
  | nil k => rfl
  | line k i i' l r r' _ ih => simpa only [testBlocks] using ih (by simpa only [cfgTexts, cfgsOf] using hc)
  | front k ls ls' r r' hl _ ih => simpa only [testBlocks] using ih (by simpa only [cfgTexts, cfgsOf] using hc)
  | verbatim k s s' lang ls r r' _ ih => simpa only [testBlocks] using ih (by simpa only [cfgTexts, cfgsOf] using hc)
  | testNoCode k lang cfg cfg' cm cm' r r' _ _ _ ih =>
    simp only [cfgTexts, cfgsOf, List.map_cons, List.cons.injEq] at hc
    simpa only [testBlocks, List.isEmpty_nil, if_true] using ih hc.2
  | testCode k lang cfg cfg' cm cm' cd cd' g r r' hcd hg _ _ hcd' hne' _ ih =>
    have h1 : cd.isEmpty = false := by simpa using hcd
    have h2 : cd'.isEmpty = false := by simpa using hne'
    simp only [cfgTexts, cfgsOf, List.map_cons, List.cons.injEq] at hc
    simp only [testBlocks, h1, h2, Bool.false_eq_true, if_false, List.map_cons, hc.1, ih hc.2]

theorem BlocksReread.length_eq {gens : List (Option (List Char))} :
    ∀ {k : Nat} {bs bs' : List (Numbered × List Markdown.Line)}, BlocksReread gens k bs bs' → bs'.length = bs.length
  | _, _, _, .nil _ => rfl
  | _, _, _, .cons _ _ _ _ _ _ _ _ _ h => by simp [h.length_eq]

/-- the number of tests of a document is the number of its scrut blocks with code -/
theorem docTests_length {content : List Char} {tests : List UTest} (h : docTests content = some tests) :
    tests.length = (testBlocks (docToks content)).length := by
  obtain ⟨p, hp, _, hprep⟩ := docTests_spec h
  have := (parseLines_inv parseEnv (splitLines content) p hp).2
  rw [← hprep.length_eq, ← this.length_eq]
  rfl

/-- `judgeAll` judges as many tests as there are runs for -/
theorem judgeAll_length_min (isOther : Char → Bool) :
    ∀ (tests : List UTest) (runs : List Ran) (os : List (Gen.UpdResult × Option (List Char))),
      judgeAll isOther tests runs = .ok os → os.length = min tests.length runs.length
  | [], _, os, h => by simp [judgeAll] at h; subst h; simp
  | _ :: _, [], os, h => by simp [judgeAll] at h; subst h; simp
  | u :: us, r :: rs, os, h => by
    unfold judgeAll at h
    cases ho : outcomeText isOther u r with
    | error e => simp [ho] at h
    | ok o =>
      cases hr : judgeAll isOther us rs with
      | error e => simp [ho, hr] at h
      | ok os' =>
        simp only [ho, hr] at h
        cases h
        have := judgeAll_length_min isOther us rs os' hr
        simp [this, Nat.succ_min_succ]

/-- **U4 (partial)**: the second update changes nothing, PROVIDED it generates the same texts as
the first (C09's business: `run_rewritten_passes` says which tests these are) -/
theorem run_idempotent_of_same_texts {isOther : Char → Bool} {content : List Char} {runs : List Ran}
    {text : List Char} {results : List Gen.UpdResult}
    (h : updateDocument isOther content runs = .updated text results)
    (hcr : NoStrayCR content) (hf : FrontClosed content)
    (hsame : docGens isOther text runs = docGens isOther content runs) :
    ∃ rs, updateDocument isOther text runs = .unchanged rs := by
  obtain ⟨gens, hg, hfix⟩ := run_generateUpdate_fixed h hcr hf
  obtain ⟨gens', hg', hrr⟩ := run_reread h hcr hf
  rw [hg] at hg'
  cases hg'
  rw [hg] at hsame
  -- the tests of the first and of the second run
  obtain ⟨tests, ht⟩ := docTests_of_result isOther content runs (Or.inr ⟨text, results, h⟩)
  rw [updateDocument_of_docTests isOther content runs tests ht] at h
  obtain ⟨_, hlen, _, os, hj, _, _, _⟩ := updateTests_updated h
  have hgl : gens.length = tests.length := by
    simp only [docGens, docOutcomes, ht, hj, Option.map_some, Option.some.injEq] at hg
    rw [← hg, List.length_map, judgeAll_length isOther tests runs os hj hlen]
  unfold docGens docOutcomes at hsame
  cases ht' : docTests text with
  | none => simp [ht'] at hsame
  | some tests' =>
    simp only [ht'] at hsame
    cases hj' : judgeAll isOther tests' runs with
    | error e => simp [hj'] at hsame
    | ok os' =>
      simp only [hj', Option.map_some, Option.some.injEq] at hsame
      rw [updateDocument_of_docTests isOther text runs tests' ht']
      have hcount : tests'.length = tests.length := by
        rw [docTests_length ht', docTests_length ht]
        exact (reread_blocks hrr).1.length_eq
      exact updateTests_unchanged_of (by omega) hj' (by rw [hsame]; exact hfix)

end Scrut.UpdateRun
