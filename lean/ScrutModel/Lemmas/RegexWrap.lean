import ScrutModel.Model.RegexWrap
/-! Whole-line anchoring of the regex wrap, and correctness of the executable matcher. -/
namespace Scrut.Regex

theorem Matches.bounds {r s i j} (h : Matches r s i j) : i ≤ j ∧ j ≤ s.length := by
  induction h with
  | chr h =>
    have := (List.getElem?_eq_some_iff.1 h).1
    omega
  | any h _ =>
    have := (List.getElem?_eq_some_iff.1 h).1
    omega
  | eps h => omega
  | seq _ _ ih1 ih2 => omega
  | altL _ ih => exact ih
  | altR _ ih => exact ih
  | starNil h => omega
  | starStep _ _ ih1 ih2 => omega
  | group _ ih => exact ih
  | bol => omega
  | eol => omega

/-- **whole line**: an unanchored search for `^(?:e)$` succeeds iff `e` matches from the first to
the last position — for every `e` of the fragment (also with anchors or alternations inside) -/
theorem search_wrap_iff (e : RE) (s : List Char) :
    searchMatch (wrap e) s ↔ Matches e s 0 s.length := by
  constructor
  · rintro ⟨i, j, h⟩
    unfold wrap at h
    cases h with
    | seq h1 h2 =>
      cases h1
      cases h2 with
      | seq h3 h4 =>
        cases h4
        cases h3 with
        | group h5 => exact h5
  · intro h
    exact ⟨0, s.length, .seq .bol (.seq (.group h) .eol)⟩

/-- what the wrap without the group means for a two-way alternation: a prefix matches the first
alternative or a suffix matches the last one -/
theorem search_oldWrap_alt (a b : RE) (s : List Char)
    (ha : bolFirst a = .seq .bol a) (hb : eolLast b = .seq b .eol) :
    searchMatch (oldWrap (.alt a b)) s ↔ (∃ j, Matches a s 0 j) ∨ (∃ i, Matches b s i s.length) := by
  have : oldWrap (.alt a b) = .alt (.seq .bol a) (.seq b .eol) := by
    simp [oldWrap, bolFirst, eolLast, ha, hb]
  rw [this]
  constructor
  · rintro ⟨i, j, h⟩
    cases h with
    | altL h =>
      cases h with
      | seq h1 h2 => cases h1; exact Or.inl ⟨j, h2⟩
    | altR h =>
      cases h with
      | seq h1 h2 => cases h2; exact Or.inr ⟨i, h1⟩
  · rintro (⟨j, h⟩ | ⟨i, h⟩)
    · exact ⟨0, j, .altL (.seq .bol h)⟩
    · exact ⟨i, s.length, .altR (.seq h .eol)⟩

/-- `a|b` against the line `axxx`: the old wrap `^a|b$` finds a match, the whole line does not match -/
theorem oldWrap_witness :
    searchMatch (oldWrap (.alt (.chr 'a') (.chr 'b'))) ['a', 'x', 'x', 'x'] ∧
    ¬ Matches (.alt (.chr 'a') (.chr 'b')) ['a', 'x', 'x', 'x'] 0 4 ∧
    ¬ searchMatch (wrap (.alt (.chr 'a') (.chr 'b'))) ['a', 'x', 'x', 'x'] := by
  have hno : ¬ Matches (.alt (.chr 'a') (.chr 'b')) ['a', 'x', 'x', 'x'] 0 4 := by
    intro h
    have hlen : ∀ c i j, Matches (.chr c) ['a', 'x', 'x', 'x'] i j → j = i + 1 := by
      intro c i j h; cases h; rfl
    cases h with
    | altL h => have := hlen _ _ _ h; omega
    | altR h => have := hlen _ _ _ h; omega
  refine ⟨?_, hno, ?_⟩
  · exact ⟨0, 1, .altL (.seq .bol (.chr rfl))⟩
  · intro h
    exact hno ((search_wrap_iff _ _).1 h)

/-! ## The executable matcher decides `Matches` -/

theorem star_progress {a s i j} (h : Matches (.star a) s i j) :
    i = j ∨ ∃ k, i < k ∧ Matches a s i k ∧ Matches (.star a) s k j := by
  generalize hr : RE.star a = r at h
  induction h with
  | starNil _ => exact Or.inl rfl
  | @starStep a' s i k j h1 h2 _ ih2 =>
    cases hr
    have hb := h1.bounds
    by_cases hik : i < k
    · exact Or.inr ⟨k, hik, h1, h2⟩
    · have : i = k := by omega
      subst this
      exact ih2 rfl
  | chr _ => cases hr
  | any _ _ => cases hr
  | eps _ => cases hr
  | seq _ _ _ _ => cases hr
  | altL _ _ => cases hr
  | altR _ _ => cases hr
  | group _ _ => cases hr
  | bol => cases hr
  | eol => cases hr

theorem any_range_iff (n : Nat) (p : Nat → Bool) :
    (List.range n).any p = true ↔ ∃ k, k < n ∧ p k = true := by
  simp [List.any_eq_true, List.mem_range]

theorem starB_sound {a : RE} {s : List Char} {f : Nat → Nat → Bool}
    (hf : ∀ i k, f i k = true → Matches a s i k) :
    ∀ n i j, j ≤ s.length → i ≤ j → starB f n i j = true → Matches (.star a) s i j := by
  intro n
  induction n with
  | zero =>
    intro i j hj hij h
    simp [starB] at h
    subst h
    exact .starNil hj
  | succ n ih =>
    intro i j hj hij h
    simp only [starB, Bool.or_eq_true, beq_iff_eq, any_range_iff, Bool.and_eq_true, decide_eq_true_eq] at h
    rcases h with h | ⟨k, hk, ⟨hik, hfk⟩, hrest⟩
    · subst h; exact .starNil hj
    · exact .starStep (hf _ _ hfk) (ih k j hj (by omega) hrest)

theorem starB_complete {a : RE} {s : List Char} {f : Nat → Nat → Bool}
    (hf : ∀ i k, Matches a s i k → f i k = true) :
    ∀ n i j, j - i ≤ n → Matches (.star a) s i j → starB f n i j = true := by
  intro n
  induction n with
  | zero =>
    intro i j hn h
    have := h.bounds
    simp [starB]
    omega
  | succ n ih =>
    intro i j hn h
    simp only [starB, Bool.or_eq_true, beq_iff_eq, any_range_iff, Bool.and_eq_true, decide_eq_true_eq]
    rcases star_progress h with h0 | ⟨k, hik, h1, h2⟩
    · exact Or.inl h0
    · have hb := h2.bounds
      exact Or.inr ⟨k, by omega, ⟨hik, hf _ _ h1⟩, ih k j (by omega) h2⟩

theorem matchB_iff (r : RE) (s : List Char) : ∀ i j, matchB r s i j = true ↔ Matches r s i j := by
  induction r with
  | chr c =>
    intro i j
    simp only [matchB, Bool.and_eq_true, beq_iff_eq]
    constructor
    · rintro ⟨rfl, h⟩; exact .chr h
    · intro h; cases h with | chr h => exact ⟨rfl, h⟩
  | any =>
    intro i j
    simp only [matchB, Bool.and_eq_true, beq_iff_eq]
    constructor
    · rintro ⟨rfl, h⟩
      cases hs : s[i]? with
      | none => simp [hs] at h
      | some c =>
        simp [hs] at h
        exact .any hs h
    · intro h
      cases h with
      | any h hc => refine ⟨rfl, ?_⟩; simp [h, hc]
  | eps =>
    intro i j
    simp only [matchB, Bool.and_eq_true, beq_iff_eq, decide_eq_true_eq]
    constructor
    · rintro ⟨rfl, h⟩; exact .eps h
    · intro h; cases h with | eps h => exact ⟨rfl, h⟩
  | seq a b iha ihb =>
    intro i j
    simp only [matchB, any_range_iff, Bool.and_eq_true, iha, ihb]
    constructor
    · rintro ⟨k, _, h1, h2⟩; exact .seq h1 h2
    · intro h
      cases h with
      | seq h1 h2 =>
        have := h2.bounds
        exact ⟨_, by omega, h1, h2⟩
  | alt a b iha ihb =>
    intro i j
    simp only [matchB, Bool.or_eq_true, iha, ihb]
    constructor
    · rintro (h | h)
      · exact .altL h
      · exact .altR h
    · intro h
      cases h with
      | altL h => exact Or.inl h
      | altR h => exact Or.inr h
  | star a iha =>
    intro i j
    simp only [matchB, Bool.and_eq_true, decide_eq_true_eq]
    constructor
    · rintro ⟨⟨hij, hj⟩, h⟩
      exact starB_sound (fun i k => (iha i k).1) _ i j hj hij h
    · intro h
      have hb := h.bounds
      exact ⟨⟨hb.1, hb.2⟩, starB_complete (fun i k => (iha i k).2) _ i j (Nat.le_refl _) h⟩
  | group a iha =>
    intro i j
    simp only [matchB, iha]
    constructor
    · intro h; exact .group h
    · intro h; cases h with | group h => exact h
  | bol =>
    intro i j
    simp only [matchB, Bool.and_eq_true, beq_iff_eq]
    constructor
    · rintro ⟨rfl, rfl⟩; exact .bol
    · intro h; cases h; exact ⟨rfl, rfl⟩
  | eol =>
    intro i j
    simp only [matchB, Bool.and_eq_true, beq_iff_eq]
    constructor
    · rintro ⟨rfl, rfl⟩; exact .eol
    · intro h; cases h; exact ⟨rfl, rfl⟩

theorem searchB_iff (r : RE) (s : List Char) : searchB r s = true ↔ searchMatch r s := by
  simp only [searchB, any_range_iff, matchB_iff, searchMatch]
  constructor
  · rintro ⟨i, _, j, _, h⟩; exact ⟨i, j, h⟩
  · rintro ⟨i, j, h⟩
    have := h.bounds
    exact ⟨i, by omega, j, by omega, h⟩

/-- the modelled rule: the search for the wrapped expression on the trimmed line -/
theorem regexRuleMatches_iff (e : RE) (line : List Char) :
    regexRuleMatches e line = true ↔
      Matches e (Glob.trimNewlines line) 0 (Glob.trimNewlines line).length := by
  unfold regexRuleMatches
  rw [searchB_iff, search_wrap_iff]

end Scrut.Regex
