import ScrutModel.Model.TestRun
import ScrutModel.Lemmas.Exec
/-!
# Corollaries about the composition `Model/TestRun.lean` that come for free

Nothing here is a property theorem (no `Props` file refers to it); the lemmas state how the pieces
are connected, so that a reader can check the composition against the piece theorems:

* the rules of `TestRun` are the rules of `Model/RulesStr.lean` (by unfolding);
* a test is reported `success` iff its command ended in the expected exit code and the greedy
  matcher finds no difference between the test's expectations and the recorded bytes of the
  SELECTED stream (`stderr` iff `output_stream: stderr`), which is `C05_succeeds_iff` instantiated
  with the composed acceptance;
* examples of the lossy decoder.
-/
namespace Scrut.TestRun
open Scrut

/-- the composed `equal` rule is `EqualRule::matches` of `Model/RulesStr.lean` -/
theorem matches_equal (e : List Char) (line : Bytes) :
    (Rule.equal (Utf8.utf8 e)).matches line = some (Rules.equalMatches e line) := rfl

/-- the composed `no-eol` rule is `EqualNoEolRule::matches` -/
theorem matches_noEol (e : List Char) (line : Bytes) :
    (Rule.noEol (Utf8.utf8 e)).matches line = some (Rules.noEolMatches e line) := rfl

/-- the composed `escaped` rule is `EscapedRule::matches` -/
theorem matches_escaped (b line : Bytes) :
    (Rule.escaped b).matches line = some (Rules.escapedMatches b line) := rfl

/-- `accepts` is "the diff has no differences" -/
theorem accepts_true_iff (exps : List CExp) (stream : Bytes) :
    accepts exps stream = some true ↔ ∃ d, diffOf exps stream = some d ∧ Diff.hasDiff d = false := by
  unfold accepts
  cases h : diffOf exps stream with
  | none => simp
  | some d => cases hd : Diff.hasDiff d <;> simp [hd]

/-- the stream `validate` looks at, in terms of the test's configuration -/
theorem selected_of_out (t : Test) (a ao ae : Bool) (c : Int) :
    Exec.selected (t.tc a) ⟨.code c, ao, ae⟩ = (if t.cfg.outputStream = some .stderr then ae else ao) := by
  unfold Exec.selected Test.tc
  cases h : t.cfg.outputStream with
  | none => simp [streamOf]
  | some s => cases s <;> simp [streamOf]

/-- **success of one test, composed**: given what the runner recorded for the completed command,
the verdict is `success` iff the exit code is the expected one (0 if none is written) and the
expectations accept the recorded bytes of the selected stream. -/
theorem test_succeeds_iff (t : Test) (r : Ran) (o : Exec.Out) (a : Bool) (h : t.out r = .ok o) :
    Exec.validate (t.tc a) o = .ok ↔
      r.code = t.expected.getD 0 ∧
      ∃ so se, record t.cfg r = some (so, se) ∧
        accepts t.exps (if t.cfg.outputStream = some .stderr then se else so) = some true := by
  unfold Test.out at h
  cases hrec : record t.cfg r with
  | none => simp [hrec] at h
  | some p =>
    obtain ⟨so, se⟩ := p
    simp only [hrec] at h
    cases hao : accepts t.exps so with
    | none => simp [hao] at h
    | some ao =>
      cases hae : accepts t.exps se with
      | none => simp [hao, hae] at h
      | some ae =>
        simp only [hao, hae] at h
        have ho : o = ⟨.code r.code, ao, ae⟩ := by cases h; rfl
        subst ho
        rw [Exec.validate_ok_iff]
        constructor
        · rintro ⟨c, hc, hce, hsel⟩
          have hcr : c = r.code := by cases hc; rfl
          subst hcr
          refine ⟨hce, so, se, rfl, ?_⟩
          rw [selected_of_out] at hsel
          by_cases hs : t.cfg.outputStream = some .stderr
          · simp only [hs, if_true] at hsel ⊢; rw [hae, hsel]
          · simp only [hs, if_false] at hsel ⊢; rw [hao, hsel]
        · rintro ⟨hce, so', se', hrec', hacc⟩
          have hp : (so', se') = (so, se) := by cases hrec'; rfl
          cases hp
          refine ⟨r.code, rfl, hce, ?_⟩
          rw [selected_of_out]
          by_cases hs : t.cfg.outputStream = some .stderr
          · simp only [hs, if_true] at hacc ⊢; rw [hae] at hacc; cases hacc; rfl
          · simp only [hs, if_false] at hacc ⊢; rw [hao] at hacc; cases hacc; rfl

/-! ## the lossy decoder on examples (`String::from_utf8_lossy`) -/

/-- valid text decodes to itself -/
example : fromUtf8Lossy [0x61, 0xc3, 0xa9, 0x0a] = some ['a', 'é', '\n'] := by decide
/-- a byte that can start nothing is one replacement character -/
example : fromUtf8Lossy [0x61, 0xff, 0x62] = some ['a', replacement, 'b'] := by decide
/-- a truncated three-byte sequence is ONE replacement character, decoding resumes at the offending byte -/
example : fromUtf8Lossy [0xe2, 0x82, 0x41] = some [replacement, 'A'] := by decide
/-- `F0 80`: the second byte is outside `90..BF`, so both bytes are chunks of their own -/
example : fromUtf8Lossy [0xf0, 0x80] = some [replacement, replacement] := by decide
/-- surrogates are not encodable: `ED A0 80` is three chunks -/
example : fromUtf8Lossy [0xed, 0xa0, 0x80] = some [replacement, replacement, replacement] := by decide

/-- `GlobRule::make` resolves the escaped form of a pattern … -/
example : globMake ("a\\tb* (escaped)").toList = some ['a', '\t', 'b', '*'] := by decide
/-- … and rejects one whose bytes are not UTF-8 -/
example : globMake ("a\\xff* (escaped)").toList = none := by decide

/-! ## the single-script path (section 6 of the model) on examples -/

/-- `set_consistent!`: a value set on a LATER test case only is taken over … -/
example : setConsistent none [none, some false] = some (some false) := by decide
/-- … but then has to be carried by every test case behind it -/
example : setConsistent none [none, some false, none] = none := by decide
example : setConsistent none [some false, none] = none := by decide

/-- the Cram glob: `\*` is the character, `*` any run … -/
example : (Rule.cramGlob ['a', '\\', '*', '*']).matches [0x61, 0x2a, 0x62, 0x0a] = some true := by decide
example : (Rule.cramGlob ['a', '\\', '*']).matches [0x61, 0x62, 0x0a] = some false := by decide
/-- … and no pattern matches a line that is not UTF-8 (wildmatch sees U+FFFD there) -/
example : (Rule.cramGlob ['*']).matches [0x61, 0xff, 0x0a] = some false := by decide
example : (Rule.glob ['*']).matches [0x61, 0xff, 0x0a] = some true := by decide

/-- the script's streams: the divider line behind the bytes of each command, nothing behind a command
that leaves the shell, whose code is the script's exit status -/
example : scriptExit [⟨⟨[], [], 0⟩, false⟩, ⟨⟨[], [], 3⟩, true⟩, ⟨⟨[], [], 1⟩, false⟩] = 3 := by decide
example : scriptExit [⟨⟨[], [], 5⟩, false⟩] = 0 := by decide

end Scrut.TestRun
