import ScrutModel.Model.Grammar
/-! Proofs about the expectation grammar model (C08). -/
namespace Scrut.Grammar

/-! ### the pieces of the suffix group -/

theorem stripPrefix_eq_some {a r r' : List Char} : stripPrefix a r = some r' ↔ r = a ++ r' := by
  induction a generalizing r with
  | nil => simp [stripPrefix, eq_comm]
  | cons x xs ih =>
    cases r with
    | nil => simp [stripPrefix]
    | cons c cs =>
      by_cases h : x = c
      · subst h; simp [stripPrefix, ih]
      · simp [stripPrefix, h]; intro h'; exact absurd h'.symm h

theorem tail?_eq_some {r : List Char} {q : Option Char} :
    tail? r = some q ↔ r = q.toList ++ [')'] ∧ (∀ c, q = some c → isQuantChar c = true) := by
  match r with
  | [] => cases q <;> simp [tail?]
  | [c] =>
    cases q with
    | none => simp [tail?]
    | some x => simp [tail?]
  | [x, c] =>
    cases q with
    | none => simp [tail?]
    | some y =>
      simp [tail?]
      constructor
      · rintro ⟨⟨h1, h2⟩, h3⟩; subst h1; subst h3; exact ⟨⟨rfl, rfl⟩, h2⟩
      · rintro ⟨⟨h1, h2⟩, h3⟩; subst h1; subst h2; exact ⟨⟨rfl, h3⟩, rfl⟩
  | a :: b :: c :: r => cases q <;> simp [tail?]


def special (c : Char) : Bool := c == ')' || isQuantChar c

theorem alts_plain : ∀ a ∈ alts, ∀ c ∈ a, special c = false ∧ c ≠ '(' ∧ c ≠ '\n' := by decide

theorem tail?_head_special {t : List Char} {q : Option Char} (h : tail? t = some q) :
    ∃ c r, t = c :: r ∧ special c = true := by
  rw [tail?_eq_some] at h
  obtain ⟨rfl, hq⟩ := h
  cases q with
  | none => exact ⟨')', [], rfl, by decide⟩
  | some x => exact ⟨x, [')'], rfl, by simp [special, hq x rfl]⟩

theorem takeWhile_plain {a t : List Char} (ha : ∀ c ∈ a, special c = false)
    (ht : ∃ c r, t = c :: r ∧ special c = true) :
    (a ++ t).takeWhile (fun c => !special c) = a := by
  obtain ⟨c, r, rfl, hc⟩ := ht
  induction a with
  | nil => simp [hc]
  | cons x xs ih =>
    have hx := ha x (by simp)
    simp [hx]
    exact ih (fun c hc => ha c (by simp [hc]))

/-- kind text and quantifier are determined by the text between the parentheses -/
theorem alts_unique {a a' t t' : List Char} {q q' : Option Char} (ha : a ∈ alts) (ha' : a' ∈ alts)
    (ht : tail? t = some q) (ht' : tail? t' = some q') (h : a ++ t = a' ++ t') : a = a' ∧ t = t' := by
  have h1 := takeWhile_plain (fun c hc => (alts_plain a ha c hc).1) (tail?_head_special ht)
  have h2 := takeWhile_plain (fun c hc => (alts_plain a' ha' c hc).1) (tail?_head_special ht')
  rw [h] at h1
  have : a = a' := by rw [← h1, h2]
  subst this
  exact ⟨rfl, List.append_cancel_left h⟩

theorem firstAlt_sound {as : List (List Char)} {r a : List Char} {q : Option Char}
    (h : firstAlt as r = some (a, q)) : a ∈ as ∧ ∃ t, r = a ++ t ∧ tail? t = some q := by
  induction as with
  | nil => simp [firstAlt] at h
  | cons x xs ih =>
    unfold firstAlt at h
    split at h
    · rename_i r' hs
      split at h
      · rename_i q' ht
        simp at h
        obtain ⟨rfl, rfl⟩ := h
        exact ⟨by simp, r', stripPrefix_eq_some.mp hs, ht⟩
      · obtain ⟨hm, ht⟩ := ih h
        exact ⟨by simp [hm], ht⟩
    · obtain ⟨hm, ht⟩ := ih h
      exact ⟨by simp [hm], ht⟩

theorem firstAlt_complete {as : List (List Char)} {a t : List Char} {q : Option Char}
    (hsub : ∀ x ∈ as, x ∈ alts) (ha : a ∈ as) (ha' : a ∈ alts) (ht : tail? t = some q) :
    firstAlt as (a ++ t) = some (a, q) := by
  induction as with
  | nil => simp at ha
  | cons x xs ih =>
    unfold firstAlt
    split
    · rename_i r' hs
      split
      · rename_i q' ht'
        have := alts_unique ha' (hsub x (by simp)) ht ht' (stripPrefix_eq_some.mp hs)
        obtain ⟨rfl, rfl⟩ := this
        rw [ht] at ht'; cases ht'; rfl
      · rename_i hn
        rcases List.mem_cons.mp ha with rfl | hm
        · have := stripPrefix_eq_some.mp hs
          have := List.append_cancel_left this
          subst this; rw [ht] at hn; cases hn
        · exact ih (fun y hy => hsub y (by simp [hy])) hm
    · rename_i hn
      rcases List.mem_cons.mp ha with rfl | hm
      · have : stripPrefix a (a ++ t) = some t := stripPrefix_eq_some.mpr rfl
        rw [this] at hn; cases hn
      · exact ih (fun y hy => hsub y (by simp [hy])) hm

/-- the suffix group, declaratively -/
theorem suffixAt_eq_some {W : Char → Bool} {s K : List Char} {Q : Option Char} :
    suffixAt W s = some (K, Q) ↔
      ∃ w, W w = true ∧ K ∈ alts ∧ (∀ c, Q = some c → isQuantChar c = true) ∧
        s = w :: '(' :: (K ++ (Q.toList ++ [')'])) := by
  constructor
  · intro h
    match s, h with
    | w :: c :: r, h =>
      simp only [suffixAt] at h
      split at h
      · rename_i hc
        obtain ⟨hw, rfl⟩ := hc
        obtain ⟨hm, t, rfl, ht⟩ := firstAlt_sound h
        obtain ⟨rfl, hq⟩ := tail?_eq_some.mp ht
        exact ⟨w, hw, hm, hq, rfl⟩
      · cases h
  · rintro ⟨w, hw, hK, hQ, rfl⟩
    simp only [suffixAt, hw, true_and, if_true]
    exact firstAlt_complete (fun _ h => h) hK hK (tail?_eq_some.mpr ⟨rfl, hQ⟩)


/-! ### the lazy scan -/

theorem quant_ne_paren {c : Char} (h : isQuantChar c = true) : c ≠ '(' := by
  intro hc; subst hc; revert h; decide

/-- the text between the parentheses of a suffix group holds no `(` -/
theorem body_no_paren {K : List Char} {Q : Option Char} (hK : K ∈ alts)
    (hQ : ∀ c, Q = some c → isQuantChar c = true) : '(' ∉ K ++ (Q.toList ++ [')']) := by
  intro h
  rcases List.mem_append.mp h with h | h
  · exact (alts_plain K hK _ h).2.1 rfl
  · cases Q with
    | none => simp at h
    | some c =>
      simp at h
      exact quant_ne_paren (hQ c rfl) h.symm

/-- suffix uniqueness: a text that is a suffix group has no proper extension to the left that is one -/
theorem suffixAt_extend_none {W : Char → Bool} {s : List Char} {m : List Char × Option Char}
    (h : suffixAt W s = some m) {x : List Char} (hx : x ≠ []) : suffixAt W (x ++ s) = none := by
  cases hm : suffixAt W (x ++ s) with
  | none => rfl
  | some m2 =>
    exfalso
    obtain ⟨K, Q⟩ := m
    obtain ⟨K2, Q2⟩ := m2
    obtain ⟨w, _, _, _, rfl⟩ := suffixAt_eq_some.mp h
    obtain ⟨w2, _, hK2, hQ2, e⟩ := suffixAt_eq_some.mp hm
    have hb := body_no_paren hK2 hQ2
    match x, hx with
    | [a], _ =>
      simp at e
      obtain ⟨_, _, e⟩ := e
      rw [← e] at hb
      exact hb (by simp)
    | a :: b :: x', _ =>
      simp at e
      obtain ⟨_, _, e⟩ := e
      rw [← e] at hb
      exact hb (by simp)

theorem scan_sound {W : Char → Bool} {l p : List Char} {m : Option (List Char × Option Char)}
    (h : scan W l = some (p, m)) :
    '\n' ∉ p ∧ ∃ s, l = p ++ s ∧
      (∀ m', m = some m' → suffixAt W s = some m') ∧ (m = none → s = []) := by
  induction l generalizing p with
  | nil =>
    simp [scan] at h
    obtain ⟨rfl, rfl⟩ := h
    exact ⟨by simp, [], rfl, by simp, fun _ => rfl⟩
  | cons c cs ih =>
    unfold scan at h
    split at h
    · rename_i m' hs
      simp at h
      obtain ⟨rfl, rfl⟩ := h
      exact ⟨by simp, c :: cs, rfl, by simp [hs], by simp⟩
    · split at h
      · cases h
      · rename_i hc
        split at h
        · rename_i p' m' hsc
          simp at h
          obtain ⟨rfl, rfl⟩ := h
          obtain ⟨hn, s, hl, hm⟩ := ih hsc
          refine ⟨?_, s, by simp [hl], hm⟩
          intro hmem
          rcases List.mem_cons.mp hmem with e | e
          · exact hc e.symm
          · exact hn e
        · cases h

theorem scan_complete {W : Char → Bool} {p s : List Char} {m : List Char × Option Char}
    (hp : '\n' ∉ p) (hs : suffixAt W s = some m) : scan W (p ++ s) = some (p, some m) := by
  induction p with
  | nil =>
    cases s with
    | nil => simp [suffixAt] at hs
    | cons c cs => simp [scan, hs]
  | cons c cs ih =>
    have hnone : suffixAt W (c :: (cs ++ s)) = none := by
      have := suffixAt_extend_none hs (x := c :: cs) (by simp)
      simpa using this
    have hc : c ≠ '\n' := fun e => hp (by simp [e])
    have := ih (fun e => hp (by simp [e]))
    simp [scan, hnone, hc, this]

theorem scan_total {W : Char → Bool} {l : List Char} (h : '\n' ∉ l) : ∃ r, scan W l = some r := by
  induction l with
  | nil => exact ⟨_, rfl⟩
  | cons c cs ih =>
    obtain ⟨⟨p, m⟩, hr⟩ := ih (fun e => h (by simp [e]))
    have hc : c ≠ '\n' := fun e => h (by simp [e])
    unfold scan
    split
    · exact ⟨_, rfl⟩
    · simp [hc, hr]

/-! ### modifierOf, extract -/

theorem kindNames_sub_alts {K : List Char} (h : K = [] ∨ K ∈ kindNames) : K ∈ alts := by
  rcases h with rfl | h
  · decide
  · exact List.mem_append_left _ h

theorem alts_cases {K : List Char} (h : K ∈ alts) : K = [] ∨ K ∈ kindNames := by
  rcases List.mem_append.mp h with h | h
  · exact Or.inr h
  · simp at h; exact Or.inl h

theorem modifier_no_newline_prefix {W : Char → Bool} {l p K : List Char} {Q : Option Char}
    (hl : '\n' ∉ l) (h : Modifier W l p K Q) : '\n' ∉ p := by
  obtain ⟨w, _, _, _, _, rfl⟩ := h
  intro e; exact hl (by simp [e])

/-- C08_grammar -/
theorem modifier_iff {W : Char → Bool} {l p K : List Char} {Q : Option Char} (hl : '\n' ∉ l) :
    Modifier W l p K Q ↔ modifierOf W l = some (p, K, Q) := by
  constructor
  · intro h
    have hp := modifier_no_newline_prefix hl h
    obtain ⟨w, hw, hK, hQ, hne, rfl⟩ := h
    have hs : suffixAt W (w :: '(' :: (K ++ (Q.toList ++ [')']))) = some (K, Q) :=
      suffixAt_eq_some.mpr ⟨w, hw, kindNames_sub_alts hK, hQ, rfl⟩
    simp [modifierOf, scan_complete hp hs, hne]
  · intro h
    unfold modifierOf at h
    split at h
    · rename_i p' k q hsc
      split at h
      · cases h
      · rename_i hne
        simp at h
        obtain ⟨rfl, rfl, rfl⟩ := h
        obtain ⟨_, s, rfl, hs, _⟩ := scan_sound hsc
        have hs := hs _ rfl
        obtain ⟨w, hw, hK, hQ, rfl⟩ := suffixAt_eq_some.mp hs
        exact ⟨w, hw, alts_cases hK, hQ, hne, rfl⟩
    · cases h

/-- the capture-count logic of `extract`, in terms of the recognised modifier -/
theorem extract_eq {W : Char → Bool} {l : List Char} (hl : '\n' ∉ l) :
    extract W l = .ok (match modifierOf W l with
      | some (p, K, Q) => (p, orEqual K, Q.toList)
      | none => (l, equalName, [])) := by
  obtain ⟨⟨p, m⟩, hr⟩ := scan_total (W := W) hl
  match m, hr with
  | none, hr => simp [extract, captures, modifierOf, hr]
  | some (k, none), hr =>
    by_cases hk : k = []
    · simp [extract, captures, modifierOf, hr, hk]
    · simp [extract, captures, modifierOf, hr, hk, idx, orEqual, bind, Except.bind, pure, Except.pure]
  | some (k, some q), hr =>
    simp [extract, captures, modifierOf, hr, idx, orEqual, bind, Except.bind, pure, Except.pure]

theorem extract_of_modifier {W : Char → Bool} {l p K : List Char} {Q : Option Char} (hl : '\n' ∉ l)
    (h : Modifier W l p K Q) : extract W l = .ok (p, orEqual K, Q.toList) := by
  rw [extract_eq hl, (modifier_iff hl).mp h]

theorem extract_of_no_modifier {W : Char → Bool} {l : List Char} (hl : '\n' ∉ l)
    (h : ¬ ∃ p K Q, Modifier W l p K Q) : extract W l = .ok (l, equalName, []) := by
  rw [extract_eq hl]
  cases hm : modifierOf W l with
  | none => rfl
  | some r =>
    obtain ⟨p, K, Q⟩ := r
    exact absurd ⟨p, K, Q, (modifier_iff hl).mpr hm⟩ h

/-- what the code does outside the scope: a line feed that is not the white space of a final
    modifier makes the regex fail, and `captures[0]` panics -/
theorem extract_newline_crash (W : Char → Bool) : extract W ['f', 'o', 'o', '\n'] = .error .crash := by
  simp [extract, captures, scan, suffixAt, idx, bind, Except.bind]


/-! ### parse -/

theorem lookup_names : ∀ K ∈ kindNames, (lookupKind K).isSome = true := by decide

theorem lookup_name (k : Kind) : lookupKind k.name = some k := by cases k <;> decide

theorem name_mem (k : Kind) : k.name ∈ kindNames := by cases k <;> decide

theorem name_ne_nil (k : Kind) : k.name ≠ [] := by cases k <;> decide

theorem name_no_newline (k : Kind) : '\n' ∉ k.name := by cases k <;> decide

theorem lookup_orEqual {K : List Char} (h : K = [] ∨ K ∈ kindNames) : ∃ kind, lookupKind (orEqual K) = some kind := by
  rcases h with rfl | h
  · exact ⟨.equal, by decide⟩
  · have hne : K ≠ [] := by intro e; subst e; revert h; decide
    have := lookup_names K h
    simp only [orEqual, hne, if_false]
    exact Option.isSome_iff_exists.mp this

theorem parse_of_extract {P : Params} {l e k q : List Char} {kind : Kind}
    (h : extract P.isWhite l = .ok (e, k, q)) (hk : lookupKind k = some kind) :
    parse P l = match makeRule P kind e with
      | none => .error .makeError
      | some b => .ok ⟨kind, b, q == ['*'] || q == ['?'], q == ['*'] || q == ['+']⟩ := by
  simp only [parse, h, hk]
  cases makeRule P kind e <;> rfl

theorem makeRule_plain {P : Params} {kind : Kind} {e : List Char} (h : makeRule P kind e = none) :
    kind = .escaped ∨ kind = .glob ∨ kind = .regex := by
  cases kind <;> simp_all [makeRule]

/-- a line without modifier is an `equal` expectation for the whole line -/
theorem parse_of_no_modifier {P : Params} {l : List Char} (hl : '\n' ∉ l)
    (h : ¬ ∃ p K Q, Modifier P.isWhite l p K Q) : parse P l = .ok ⟨.equal, utf8 l, false, false⟩ := by
  rw [parse_of_extract (extract_of_no_modifier hl h) (kind := .equal) (by decide)]
  simp [makeRule]

theorem parse_of_modifier {P : Params} {l p K : List Char} {Q : Option Char} {kind : Kind}
    (hl : '\n' ∉ l) (h : Modifier P.isWhite l p K Q) (hk : lookupKind (orEqual K) = some kind) :
    parse P l = match makeRule P kind p with
      | none => .error .makeError
      | some b => .ok ⟨kind, b, Q.toList == ['*'] || Q.toList == ['?'], Q.toList == ['*'] || Q.toList == ['+']⟩ :=
  parse_of_extract (extract_of_modifier hl h) hk

/-- C08_total -/
theorem parse_total {P : Params} {l : List Char} (hl : '\n' ∉ l) :
    (∃ e, parse P l = .ok e) ∨
    (parse P l = .error .makeError ∧ ∃ p K Q kind, Modifier P.isWhite l p K Q ∧
      lookupKind (orEqual K) = some kind ∧ (kind = .escaped ∨ kind = .glob ∨ kind = .regex) ∧
      makeRule P kind p = none) := by
  by_cases h : ∃ p K Q, Modifier P.isWhite l p K Q
  · obtain ⟨p, K, Q, hm⟩ := h
    obtain ⟨kind, hk⟩ := lookup_orEqual hm.choose_spec.2.1
    have hp := parse_of_modifier hl hm hk
    cases hmk : makeRule P kind p with
    | some b => left; rw [hmk] at hp; exact ⟨_, hp⟩
    | none =>
      right; rw [hmk] at hp
      exact ⟨hp, p, K, Q, kind, hm, hk, makeRule_plain hmk, hmk⟩
  · exact Or.inl ⟨_, parse_of_no_modifier hl h⟩

/-! ### rendering and the round trip -/

theorem quantOpt_quant (o m : Bool) : ∀ c, quantOpt o m = some c → isQuantChar c = true := by
  cases o <;> cases m <;> simp [quantOpt] <;> decide

theorem quantOpt_optional (o m : Bool) :
    ((quantOpt o m).toList == ['*'] || (quantOpt o m).toList == ['?']) = o := by
  cases o <;> cases m <;> decide

theorem quantOpt_multiline (o m : Bool) :
    ((quantOpt o m).toList == ['*'] || (quantOpt o m).toList == ['+']) = m := by
  cases o <;> cases m <;> decide

theorem quantStr_no_newline (o m : Bool) : '\n' ∉ quantStr o m := by
  cases o <;> cases m <;> decide

/-- text followed by ` (<kind><quantifier>)` is a modifier line for exactly that text -/
theorem render_kind_modifier {W : Char → Bool} (hw : W ' ' = true) (t : List Char) (k : Kind) (o m : Bool) :
    Modifier W (t ++ [' ', '('] ++ k.name ++ quantStr o m ++ [')']) t k.name (quantOpt o m) :=
  ⟨' ', hw, Or.inr (name_mem k), quantOpt_quant o m, fun h => name_ne_nil k h.1, by simp [quantStr]⟩

theorem render_quant_modifier {W : Char → Bool} (hw : W ' ' = true) (t : List Char) (o m : Bool)
    (hq : quantOpt o m ≠ none) :
    Modifier W (t ++ [' ', '('] ++ quantStr o m ++ [')']) t [] (quantOpt o m) :=
  ⟨' ', hw, Or.inl rfl, quantOpt_quant o m, fun h => hq h.2, by simp [quantStr]⟩

theorem parse_render_kind {P : Params} (hw : P.isWhite ' ' = true) {t : List Char} (hnl : '\n' ∉ t)
    (k : Kind) (o m : Bool) :
    parse P (t ++ [' ', '('] ++ k.name ++ quantStr o m ++ [')']) =
      match makeRule P k t with
      | none => .error .makeError
      | some b => .ok ⟨k, b, o, m⟩ := by
  have hl : '\n' ∉ t ++ [' ', '('] ++ k.name ++ quantStr o m ++ [')'] := by
    simp [hnl, name_no_newline k, quantStr_no_newline o m]
  have hk : lookupKind (orEqual k.name) = some k := by
    simp only [orEqual, name_ne_nil k, if_false]; exact lookup_name k
  rw [parse_of_modifier hl (render_kind_modifier hw t k o m) hk, quantOpt_optional, quantOpt_multiline]

theorem parse_render_quant {P : Params} (hw : P.isWhite ' ' = true) {t : List Char} (hnl : '\n' ∉ t)
    (o m : Bool) (hq : quantOpt o m ≠ none) :
    parse P (t ++ [' ', '('] ++ quantStr o m ++ [')']) = .ok ⟨.equal, utf8 t, o, m⟩ := by
  have hl : '\n' ∉ t ++ [' ', '('] ++ quantStr o m ++ [')'] := by
    simp [hnl, quantStr_no_newline o m]
  have hk : lookupKind (orEqual []) = some .equal := by decide
  rw [parse_of_modifier hl (render_quant_modifier hw t o m hq) hk, quantOpt_optional, quantOpt_multiline]
  simp [makeRule]

theorem quantStr_eq_nil {o m : Bool} : quantStr o m = [] ↔ quantOpt o m = none := by
  cases o <;> cases m <;> simp [quantStr, quantOpt]

theorem quantOpt_none {o m : Bool} (h : quantOpt o m = none) : o = false ∧ m = false := by
  cases o <;> cases m <;> simp_all [quantOpt]

/-! ### `ends_like_modifier` over-approximates the grammar -/

theorem splitLast_none {a : List Char} (h : '(' ∉ a) : splitLast a = none := by
  induction a with
  | nil => rfl
  | cons c cs ih =>
    have hc : c ≠ '(' := fun e => h (by simp [e])
    simp [splitLast, ih (fun e => h (by simp [e])), hc]

theorem splitLast_append {b a : List Char} (h : '(' ∉ a) : splitLast (b ++ '(' :: a) = some (b, a) := by
  induction b with
  | nil => simp [splitLast, splitLast_none h]
  | cons c cs ih => simp [splitLast, ih]

theorem alts_lowerDash : ∀ K ∈ alts, K.reverse.all isLowerDash = true ∧
    (stripQuantRev K.reverse).all isLowerDash = true := by decide

/-- every text the grammar reads as expression + modifier ends like a modifier for the renderer -/
theorem endsLike_of_modifier {W S : Char → Bool} (hsub : ∀ c, W c = true → S c = true)
    {t p K : List Char} {Q : Option Char} (h : Modifier W t p K Q) : endsLikeModifier S t = true := by
  obtain ⟨w, hw, hK, hQ, _, rfl⟩ := h
  have hK' := kindNames_sub_alts hK
  have hb := body_no_paren hK' hQ
  have hsplit : splitLast (p ++ w :: '(' :: (K ++ (Q.toList ++ [')']))) =
      some (p ++ [w], K ++ (Q.toList ++ [')'])) := by
    have := splitLast_append (b := p ++ [w]) hb
    simpa using this
  have hl := alts_lowerDash K hK'
  unfold endsLikeModifier
  rw [hsplit]
  cases Q with
  | none => simp [hsub w hw]; simpa using hl.2
  | some q => simp [hsub w hw, stripQuantRev, hQ q rfl]; simpa using hl.1

theorem not_modifier_of_not_endsLike {W S : Char → Bool} (hsub : ∀ c, W c = true → S c = true)
    {t : List Char} (h : endsLikeModifier S t = false) : ¬ ∃ p K Q, Modifier W t p K Q := by
  rintro ⟨p, K, Q, hm⟩
  rw [endsLike_of_modifier hsub hm] at h
  cases h

/-! ### the canonical form reads back -/

theorem escapedMarker_no_newline : '\n' ∉ escapedMarker := by decide

/-- what re-parsing the canonical form gives: the rule made from `sourceText` under `sourceKind`,
    same quantifier -/
theorem parse_render {P : Params} (hw : P.isWhite ' ' = true)
    (hsub : ∀ c, P.isWhite c = true → P.isSpaceStd c = true) {e : Expectation}
    (hnl : '\n' ∉ sourceText P e) :
    parse P (toExpressionString P e) =
      match makeRule P (sourceKind P e) (sourceText P e) with
      | none => .error .makeError
      | some b => .ok ⟨sourceKind P e, b, e.optional, e.multiline⟩ := by
  obtain ⟨k, x, o, m⟩ := e
  cases k with
  | equal =>
    by_cases hu : P.hasUnprintable x = true
    · simp only [sourceText, hu, if_true] at hnl
      simp only [toExpressionString, sourceKind, sourceText, hu, if_true, true_and]
      exact parse_render_kind hw hnl .escaped o m
    · have hu' : P.hasUnprintable x = false := by simpa using hu
      simp only [sourceText, hu', Bool.false_eq_true, if_false] at hnl
      simp only [toExpressionString, sourceKind, sourceText, hu', Bool.false_eq_true, if_false, and_false]
      by_cases hq : quantStr o m = []
      · obtain ⟨rfl, rfl⟩ := quantOpt_none (quantStr_eq_nil.mp hq)
        by_cases he : endsLikeModifier P.isSpaceStd (P.escPrintable x) = true
        · simp only [hq, he, and_self, if_true]
          have := parse_render_kind hw hnl .equal false false
          simpa [quantStr, quantOpt] using this
        · have he' : endsLikeModifier P.isSpaceStd (P.escPrintable x) = false := by simpa using he
          simp only [hq, he', Bool.false_eq_true, and_false, if_false, if_true]
          rw [parse_of_no_modifier hnl (not_modifier_of_not_endsLike hsub he')]
          simp [makeRule]
      · have hq' : quantOpt o m ≠ none := fun h => hq (quantStr_eq_nil.mpr h)
        simp only [hq, false_and, if_false]
        rw [parse_render_quant hw hnl o m hq']
        simp [makeRule]
  | escaped =>
    have hk : sourceKind P ⟨.escaped, x, o, m⟩ = .escaped := by simp [sourceKind]
    rw [hk]
    by_cases hu : P.hasUnprintable x = true
    · simp only [sourceText, hu, if_true] at hnl ⊢
      simp only [toExpressionString, hu, if_true]
      exact parse_render_kind hw hnl .escaped o m
    · have hu' : P.hasUnprintable x = false := by simpa using hu
      simp only [sourceText, hu', Bool.false_eq_true, if_false] at hnl ⊢
      simp only [toExpressionString, hu', Bool.false_eq_true, if_false]
      exact parse_render_kind hw hnl .escaped o m
  | glob =>
    have hk : sourceKind P ⟨.glob, x, o, m⟩ = .glob := by simp [sourceKind]
    rw [hk]
    by_cases hu : P.hasUnprintable x = true
    · simp only [sourceText, hu, if_true] at hnl ⊢
      simp only [toExpressionString, hu, if_true]
      exact parse_render_kind hw hnl .glob o m
    · have hu' : P.hasUnprintable x = false := by simpa using hu
      simp only [sourceText, hu', Bool.false_eq_true, if_false] at hnl ⊢
      simp only [toExpressionString, hu', Bool.false_eq_true, if_false]
      exact parse_render_kind hw hnl .glob o m
  | regex =>
    have hk : sourceKind P ⟨.regex, x, o, m⟩ = .regex := by simp [sourceKind]
    rw [hk]
    simp only [sourceText] at hnl ⊢
    exact parse_render_kind hw hnl .regex o m
  | noEol =>
    have hk : sourceKind P ⟨.noEol, x, o, m⟩ = .noEol := by simp [sourceKind]
    rw [hk]
    simp only [sourceText] at hnl ⊢
    exact parse_render_kind hw hnl .noEol o m

/-- C08_roundtrip: the canonical form reads back iff the rule constructor reproduces the
    expression from the text it is handed -/
theorem roundtrip_iff {P : Params} (hw : P.isWhite ' ' = true)
    (hsub : ∀ c, P.isWhite c = true → P.isSpaceStd c = true) {e : Expectation}
    (hnl : '\n' ∉ sourceText P e) :
    parse P (toExpressionString P e) = .ok (reread P e) ↔
      makeRule P (sourceKind P e) (sourceText P e) = some e.expr := by
  rw [parse_render hw hsub hnl]
  cases h : makeRule P (sourceKind P e) (sourceText P e) with
  | none => simp
  | some b =>
    cases e
    simp [reread]

theorem roundtrip {P : Params} (hw : P.isWhite ' ' = true)
    (hsub : ∀ c, P.isWhite c = true → P.isSpaceStd c = true) {e : Expectation}
    (hnl : '\n' ∉ sourceText P e)
    (hmk : makeRule P (sourceKind P e) (sourceText P e) = some e.expr) :
    parse P (toExpressionString P e) = .ok (reread P e) :=
  (roundtrip_iff hw hsub hnl).mpr hmk

theorem reread_eq {P : Params} {e : Expectation} (h : e.kind = .equal → P.hasUnprintable e.expr = false) :
    reread P e = e := by
  cases e with
  | mk k x o m =>
    simp only [reread, sourceKind]
    by_cases hk : k = .equal
    · have := h hk; simp_all
    · simp [hk]

/-- regression (was the witness of the defect repaired by 2c946ec): the `equal` expectation
    `foo (glob)`, which is what `foo (glob) (equal)` parses to, reads back -/
theorem roundtrip_equal_modifier_shaped {P : Params} (hw : P.isWhite ' ' = true)
    (hsub : ∀ c, P.isWhite c = true → P.isSpaceStd c = true) {b : List UInt8}
    (hu : P.hasUnprintable b = false)
    (ht : P.escPrintable b = ['f', 'o', 'o', ' ', '(', 'g', 'l', 'o', 'b', ')'])
    (hb : utf8 ['f', 'o', 'o', ' ', '(', 'g', 'l', 'o', 'b', ')'] = b) :
    toExpressionString P ⟨.equal, b, false, false⟩ =
      ['f', 'o', 'o', ' ', '(', 'g', 'l', 'o', 'b', ')', ' ', '(', 'e', 'q', 'u', 'a', 'l', ')'] ∧
    parse P (toExpressionString P ⟨.equal, b, false, false⟩) = .ok ⟨.equal, b, false, false⟩ := by
  have hm : Modifier P.isWhite ['f', 'o', 'o', ' ', '(', 'g', 'l', 'o', 'b', ')'] ['f', 'o', 'o'] ['g', 'l', 'o', 'b'] none :=
    ⟨' ', hw, Or.inr (by decide), by simp, by simp, by simp⟩
  have he := endsLike_of_modifier hsub hm
  constructor
  · simp [toExpressionString, hu, ht, he, quantStr, quantOpt, Kind.name]
  · have hnl : '\n' ∉ sourceText P ⟨.equal, b, false, false⟩ := by simp [sourceText, ht, hu]
    have := roundtrip hw hsub (e := ⟨.equal, b, false, false⟩) hnl (by simp [sourceKind, sourceText, hu, ht, makeRule, hb])
    rw [this, reread_eq (by intro _; exact hu)]

/-! ### `guard_tailing_no_eol` neutralises the ` (no-eol)` strip of the `escaped` constructor -/

theorem stripSuffix_eq_some {suf t body : List Char} : stripSuffix suf t = some body ↔ t = body ++ suf := by
  unfold stripSuffix
  constructor
  · intro h
    obtain ⟨r, hr, rfl⟩ := Option.map_eq_some_iff.mp h
    have := stripPrefix_eq_some.mp hr
    have h2 := congrArg List.reverse this
    simpa using h2
  · rintro rfl
    have : stripPrefix suf.reverse (suf.reverse ++ body.reverse) = some body.reverse :=
      stripPrefix_eq_some.mpr rfl
    simp [this]

/-- the guarded text never ends in ` (no-eol)` -/
theorem stripSuffix_guard (t : List Char) : stripSuffix noEolSuffix (guardTailingNoEol t) = none := by
  unfold guardTailingNoEol
  split
  · simp [stripSuffix, noEolSuffix, stripPrefix]
  · assumption

/-- hence the constructor's strip is the identity on it -/
theorem stripNoEol_guard (t : List Char) : stripNoEol (guardTailingNoEol t) = guardTailingNoEol t := by
  simp [stripNoEol, stripSuffix_guard]

theorem makeRule_escaped_guard (P : Params) (t : List Char) :
    makeRule P .escaped (guardTailingNoEol t) = P.make .escaped (guardTailingNoEol t) := by
  simp [makeRule, stripNoEol_guard]

theorem guard_no_newline {t : List Char} (h : '\n' ∉ t) : '\n' ∉ guardTailingNoEol t := by
  unfold guardTailingNoEol
  split
  · rename_i body hb
    have := stripSuffix_eq_some.mp hb
    subst this
    intro hm
    have hb' : '\n' ∉ body := fun e => h (List.mem_append_left _ e)
    rcases List.mem_append.mp hm with hm | hm
    · exact hb' hm
    · revert hm; decide
  · exact h

theorem sourceText_guarded {P : Params} {e : Expectation} (h : sourceKind P e = .escaped) :
    ∃ t, sourceText P e = guardTailingNoEol t := by
  obtain ⟨k, x, o, m⟩ := e
  cases k with
  | equal =>
    by_cases hu : P.hasUnprintable x = true
    · exact ⟨P.escPrintable x, by simp [sourceText, hu]⟩
    · simp [sourceKind, hu] at h
  | escaped =>
    by_cases hu : P.hasUnprintable x = true
    · exact ⟨P.escPrintable x, by simp [sourceText, hu]⟩
    · exact ⟨doubleBackslash (P.escPrintable x), by simp [sourceText, hu]⟩
  | glob => simp [sourceKind] at h
  | regex => simp [sourceKind] at h
  | noEol => simp [sourceKind] at h

/-- everything written as `escaped` reads back exactly when resolving the escape sequences of
    the written text (`apply_escaped_filter_bytes`, no strip involved) gives the bytes back -/
theorem roundtrip_escaped_iff {P : Params} (hw : P.isWhite ' ' = true)
    (hsub : ∀ c, P.isWhite c = true → P.isSpaceStd c = true) {e : Expectation}
    (hnl : '\n' ∉ sourceText P e) (hk : sourceKind P e = .escaped) :
    parse P (toExpressionString P e) = .ok (reread P e) ↔
      P.make .escaped (sourceText P e) = some e.expr := by
  rw [roundtrip_iff hw hsub hnl, hk]
  obtain ⟨t, ht⟩ := sourceText_guarded hk
  rw [ht, makeRule_escaped_guard]

/-- regression (was the witness of the defect repaired by c1bf05c): the `equal` expectation
    `a<TAB> (no-eol)` is written `a\\t\\x20(no-eol) (escaped)`; nothing is stripped when that is read -/
theorem roundtrip_no_eol_guarded {P : Params} (hw : P.isWhite ' ' = true)
    (hsub : ∀ c, P.isWhite c = true → P.isSpaceStd c = true) {b : List UInt8}
    (hu : P.hasUnprintable b = true)
    (ht : P.escPrintable b = ['a', '\\', 't', ' ', '(', 'n', 'o', '-', 'e', 'o', 'l', ')'])
    (hmk : P.make .escaped ['a', '\\', 't', '\\', 'x', '2', '0', '(', 'n', 'o', '-', 'e', 'o', 'l', ')'] = some b) :
    toExpressionString P ⟨.equal, b, false, false⟩ =
      ['a', '\\', 't', '\\', 'x', '2', '0', '(', 'n', 'o', '-', 'e', 'o', 'l', ')',
       ' ', '(', 'e', 's', 'c', 'a', 'p', 'e', 'd', ')'] ∧
    parse P (toExpressionString P ⟨.equal, b, false, false⟩) = .ok ⟨.escaped, b, false, false⟩ := by
  have hg : guardTailingNoEol ['a', '\\', 't', ' ', '(', 'n', 'o', '-', 'e', 'o', 'l', ')'] =
      ['a', '\\', 't', '\\', 'x', '2', '0', '(', 'n', 'o', '-', 'e', 'o', 'l', ')'] := by decide
  have hst : sourceText P ⟨.equal, b, false, false⟩ =
      ['a', '\\', 't', '\\', 'x', '2', '0', '(', 'n', 'o', '-', 'e', 'o', 'l', ')'] := by
    simp [sourceText, hu, ht, hg]
  have hsk : sourceKind P ⟨.equal, b, false, false⟩ = .escaped := by simp [sourceKind, hu]
  constructor
  · simp [toExpressionString, hu, ht, hg, quantStr, quantOpt, Kind.name]
  · have hnl : '\n' ∉ sourceText P ⟨.equal, b, false, false⟩ := by rw [hst]; decide
    have := (roundtrip_escaped_iff hw hsub hnl hsk).mpr (by rw [hst]; exact hmk)
    rw [this]
    simp [reread, hsk]

/-- `no-eol` keeps its text: the round trip holds exactly when the printable rendering is the text -/
theorem roundtrip_noEol_iff {P : Params} (hw : P.isWhite ' ' = true)
    (hsub : ∀ c, P.isWhite c = true → P.isSpaceStd c = true) {b : List UInt8} {o m : Bool}
    (hnl : '\n' ∉ P.escPrintable b) :
    parse P (toExpressionString P ⟨.noEol, b, o, m⟩) = .ok ⟨.noEol, b, o, m⟩ ↔
      utf8 (P.escPrintable b) = b := by
  have h := roundtrip_iff hw hsub (e := ⟨.noEol, b, o, m⟩) (by simpa [sourceText] using hnl)
  rw [reread_eq (by intro hk; cases hk)] at h
  simpa [sourceKind, sourceText, makeRule] using h

/-- the open finding `C08:escaped-pattern-roundtrip` on its witness `a<TAB> (no-eol)`: the
    expression is displayed as `a\t`, which is what reads back -/
theorem roundtrip_fails_escaped_pattern {P : Params} (hw : P.isWhite ' ' = true)
    (hsub : ∀ c, P.isWhite c = true → P.isSpaceStd c = true)
    (ht : P.escPrintable [0x61, 0x09] = ['a', '\\', 't']) :
    parse P (toExpressionString P ⟨.noEol, [0x61, 0x09], false, false⟩) =
      .ok ⟨.noEol, [0x61, 0x5c, 0x74], false, false⟩ ∧
    parse P (toExpressionString P ⟨.noEol, [0x61, 0x09], false, false⟩) ≠
      .ok ⟨.noEol, [0x61, 0x09], false, false⟩ := by
  have hnl : '\n' ∉ sourceText P ⟨.noEol, [0x61, 0x09], false, false⟩ := by simp [sourceText, ht]
  have h := parse_render hw hsub hnl
  have hu : utf8 ['a', '\\', 't'] = [0x61, 0x5c, 0x74] := by decide
  simp only [sourceKind, sourceText, ht, makeRule, hu] at h
  have h' : parse P (toExpressionString P ⟨.noEol, [0x61, 0x09], false, false⟩) =
      .ok ⟨.noEol, [0x61, 0x5c, 0x74], false, false⟩ := by simpa using h
  refine ⟨h', ?_⟩
  rw [h']
  intro hc
  injection hc with hc
  injection hc with _ hx
  revert hx
  decide

end Scrut.Grammar
